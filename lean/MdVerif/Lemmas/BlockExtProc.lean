/-
Processor layer of the non-interference proofs of `Props/C16BlockExt.lean`.

`Good Ok qt pb₁ pb₂`: the two recursive-call callbacks agree on every call whose blocks satisfy `Ok` and whose
parent satisfies the node invariant `NI qt`, and return such parents.  Under that hypothesis every processor,
run on an `Ok` block with an `NI` parent, gives the same result with both callbacks, the returned parent is `NI`
and the returned block list is `Ok` again (`Concl`): the strings a processor re-queues or recurses on are built
from its block by operations under which a `Closed` predicate is stable (`BlockExtStr.lean`).
Core Lean only.
-/
import MdVerif.Lemmas.BlockExtStr
import MdVerif.Lemmas.BlockExtTree
import MdVerif.Lemmas.BlockExt

namespace MdVerif.BlockExt
open Py Block

/-- the tags of the elements that the processors enabled by `cfg` create satisfy `qt` -/
structure TagsOk (qt : Tag → List (Str × Str) → Bool) (cfg : XCfg) : Prop where
  p : ∀ a, qt (.name "p".toList) a = true
  pre : ∀ a, qt (.name "pre".toList) a = true
  code : ∀ a, qt (.name "code".toList) a = true
  hr : ∀ a, qt (.name "hr".toList) a = true
  ol : ∀ a, qt (.name "ol".toList) a = true
  ul : ∀ a, qt (.name "ul".toList) a = true
  li : ∀ a, qt (.name "li".toList) a = true
  blockquote : ∀ a, qt (.name "blockquote".toList) a = true
  h : ∀ lv a, qt (hTag lv).tag a = true
  div : cfg.admonition = true → ∀ klass, qt (.name "div".toList) [(strClass, strAdmonition ++ ' ' :: klass)] = true
  dl : cfg.defList = true → ∀ a, qt (.name "dl".toList) a = true
  dt : cfg.defList = true → ∀ a, qt (.name "dt".toList) a = true
  dd : cfg.defList = true → ∀ a, qt (.name "dd".toList) a = true

def Good (Ok : Str → Prop) (qt : Tag → List (Str × Str) → Bool) (pb1 pb2 : PB) : Prop :=
  ∀ st refs p bl, AllOk Ok bl → NI qt p →
    pb1 st refs p bl = pb2 st refs p bl ∧ ∀ n r, pb2 st refs p bl = some (n, r) → NI qt n

def Concl (Ok : Str → Prop) (qt : Tag → List (Str × Str) → Bool) (r1 r2 : Option (Node × Refs × List Str)) : Prop :=
  r1 = r2 ∧ ∀ n refs rest, r2 = some (n, refs, rest) → NI qt n ∧ AllOk Ok rest

variable {Ok : Str → Prop} {qt : Tag → List (Str × Str) → Bool}

theorem concl_none : Concl Ok qt none none := ⟨rfl, by intro n refs rest h; cases h⟩

theorem concl_some {n : Node} {refs : Refs} {rest : List Str} (h1 : NI qt n) (h2 : AllOk Ok rest) :
    Concl Ok qt (some (n, refs, rest)) (some (n, refs, rest)) :=
  ⟨rfl, by intro n' refs' rest' h; cases h; exact ⟨h1, h2⟩⟩

variable {cfg : XCfg} {pb1 pb2 : PB} {tab : Nat} {state : List BState} {refs : Refs} {parent : Node} {b : Str}
  {rest : List Str}

theorem hashP_good (hc : Closed Ok) (ht : TagsOk qt cfg) (hg : Good Ok qt pb1 pb2) (hb : Ok b)
    (hr : AllOk Ok rest) (hp : NI qt parent) (m : Nat × Nat × Nat × Str) :
    Concl Ok qt (hashP tab pb1 state refs parent b rest m) (hashP tab pb2 state refs parent b rest m) := by
  obtain ⟨st, en, lv, header⟩ := m
  have hrest : AllOk Ok (if (b.drop en).isEmpty = true then rest
      else (if isstate state .looselist = true then looseDetab tab (b.drop en) 1 else b.drop en) :: rest) := by
    apply AllOk.consIf _ _ hr
    split
    · exact ok_looseDetab hc _ _ (ok_drop hc en hb)
    · exact ok_drop hc en hb
  have hnode : ∀ {p : Node}, NI qt p → NI qt (p.append { hTag lv with text := some (strip header) }) := by
    intro p hp
    apply NI_append hp
    rw [NI_iff]
    exact ⟨ht.h lv _, by intro c hc; cases hc⟩
  simp only [hashP]
  by_cases he : (b.take st).isEmpty = true
  · simp only [he, if_true]
    exact concl_some (hnode hp) hrest
  · simp only [he]
    obtain ⟨e, s⟩ := hg state refs parent [b.take st] (AllOk.single (ok_take hc st hb)) hp
    simp only [Bool.false_eq_true, if_false, e]
    cases h : pb2 state refs parent [b.take st] with
    | none => exact concl_none
    | some pr =>
      obtain ⟨n, r⟩ := pr
      exact concl_some (hnode (s n r h)) hrest

/-- a processor that does not recurse -/
theorem concl_pure {r : Node × Refs × List Str} (h1 : NI qt r.1) (h2 : AllOk Ok r.2.2) :
    Concl Ok qt (some r) (some r) :=
  ⟨rfl, by intro n' refs' rest' h; cases h; exact ⟨h1, h2⟩⟩

theorem Good.chunk (hc : Closed Ok) (hg : Good Ok qt pb1 pb2) (st : List BState) (refs : Refs) (p : Node) {text : Str}
    (ht : Ok text) (hp : NI qt p) :
    parseChunk pb1 st refs p text = parseChunk pb2 st refs p text ∧
      ∀ n r, parseChunk pb2 st refs p text = some (n, r) → NI qt n :=
  hg _ _ _ _ (ok_splitS hc ht) hp

theorem emptyP_good (hc : Closed Ok) (hb : Ok b) (hr : AllOk Ok rest) (hp : NI qt parent) :
    Concl Ok qt (some (emptyP refs parent b rest)) (some (emptyP refs parent b rest)) := by
  have hrest : AllOk Ok (if (b.drop 1).isEmpty = true then rest else b.drop 1 :: rest) :=
    AllOk.consIf _ (ok_drop hc 1 hb) hr
  apply concl_pure
  · simp only [emptyP]
    split
    · split
      · rename_i _ sib hs _ code hcode
        exact NI_setCodeText _ hp hs hcode
      · exact hp
    · exact hp
  · simp only [emptyP]
    split
    · split <;> exact hrest
    · exact hrest

theorem codeP_good (hc : Closed Ok) (ht : TagsOk qt cfg) (hb : Ok b) (hr : AllOk Ok rest) (hp : NI qt parent) :
    Concl Ok qt (some (codeP tab refs parent b rest)) (some (codeP tab refs parent b rest)) := by
  have hrest : AllOk Ok (if (detab tab b).2.isEmpty = true then rest else (detab tab b).2 :: rest) :=
    AllOk.consIf _ (ok_detab_snd hc tab hb) hr
  have hfresh : ∀ t : Str, NI qt (parent.append { Node.el "pre" with
      children := [{ Node.el "code" with text := some t, textAtomic := true }] }) := by
    intro t
    apply NI_append hp
    rw [NI_iff]
    refine ⟨(ht.pre _), ?_⟩
    intro c hc'
    simp only [List.mem_singleton] at hc'
    rw [hc', NI_iff]
    exact ⟨(ht.code _), by intro c hc; cases hc⟩
  apply concl_pure
  · simp only [codeP]
    split
    · split
      · rename_i _ sib hs _ code hcode
        exact NI_setCodeText _ hp hs hcode
      · exact hfresh _
    · exact hfresh _
  · simp only [codeP]
    split
    · split <;> exact hrest
    · exact hrest

theorem setextP_good (hc : Closed Ok) (ht : TagsOk qt cfg) (hb : Ok b) (hr : AllOk Ok rest) (hp : NI qt parent) :
    Concl Ok qt (some (setextP refs parent b rest)) (some (setextP refs parent b rest)) := by
  apply concl_pure
  · simp only [setextP]
    apply NI_append hp
    rw [NI_iff]
    exact ⟨ht.h _ _, by intro c hc; cases hc⟩
  · simp only [setextP]
    split
    · apply AllOk.cons _ hr
      apply ok_joinLines hc
      intro l hl
      exact ok_lines hc hb l (List.mem_of_mem_drop hl)
    · exact hr

theorem hrP_good (hc : Closed Ok) (ht : TagsOk qt cfg) (hg : Good Ok qt pb1 pb2) (hb : Ok b)
    (hr : AllOk Ok rest) (hp : NI qt parent) (m : Nat × Nat) :
    Concl Ok qt (hrP pb1 state refs parent b rest m) (hrP pb2 state refs parent b rest m) := by
  obtain ⟨st, en⟩ := m
  have hrest : AllOk Ok (if (lstripC '\n' (b.drop en)).isEmpty = true then rest
      else lstripC '\n' (b.drop en) :: rest) :=
    AllOk.consIf _ (ok_lstripC hc _ (ok_drop hc en hb)) hr
  have hnode : ∀ {p : Node}, NI qt p → NI qt (p.append (Node.el "hr")) :=
    fun hp => NI_append hp (NI_el _ (ht.hr _))
  simp only [hrP]
  by_cases he : (rstripC '\n' (b.take st)).isEmpty = true
  · simp only [he, if_true]
    exact concl_some (hnode hp) hrest
  · obtain ⟨e, s⟩ := hg state refs parent [rstripC '\n' (b.take st)]
      (AllOk.single (ok_rstripC hc _ (ok_take hc st hb))) hp
    simp only [he, Bool.false_eq_true, if_false, e]
    cases h : pb2 state refs parent [rstripC '\n' (b.take st)] with
    | none => exact concl_none
    | some pr =>
      obtain ⟨n, r⟩ := pr
      exact concl_some (hnode (s n r h)) hrest

theorem referenceP_good (hc : Closed Ok) (hb : Ok b) (hr : AllOk Ok rest) (hp : NI qt parent)
    (m : Nat × Nat × Str × Str × Option Str × Option Str) :
    Concl Ok qt (some (referenceP refs parent b rest m)) (some (referenceP refs parent b rest m)) := by
  obtain ⟨st, en, ident, link, t5, t6⟩ := m
  apply concl_pure
  · exact hp
  · simp only [referenceP]
    split
    · split
      · exact hr
      · exact AllOk.cons (ok_lstripC hc _ (ok_drop hc en hb)) hr
    · apply AllOk.cons (ok_rstripC hc _ (ok_take hc st hb))
      split
      · exact hr
      · exact AllOk.cons (ok_lstripC hc _ (ok_drop hc en hb)) hr

theorem paraP_good (ht : TagsOk qt cfg) (hr : AllOk Ok rest) (hp : NI qt parent) :
    Concl Ok qt (some (paraP state refs parent b rest)) (some (paraP state refs parent b rest)) := by
  apply concl_pure
  · simp only [paraP]
    split
    · exact hp
    · split
      · split
        · rename_i sib hs
          exact NI_setLast hp (NI_fields (NI_last hp hs) _ _ _ _)
        · exact NI_fields hp _ _ _ _
      · exact NI_append hp (NI_mkText _ _ (ht.p _))
  · simp only [paraP]
    split
    · exact hr
    · split
      · split <;> exact hr
      · exact hr

/-! ### lists -/

theorem listItems_good (ht : TagsOk qt cfg) (hg : Good Ok qt pb1 pb2) (st2 : List BState) :
    ∀ (items : List Str) (refs : Refs) (lst : Node), AllOk Ok items → NI qt lst →
      listItems tab pb1 st2 refs lst items = listItems tab pb2 st2 refs lst items ∧
        ∀ n r, listItems tab pb2 st2 refs lst items = some (n, r) → NI qt n := by
  intro items
  induction items with
  | nil =>
    intro refs lst _ hl
    have e1 : ∀ pb, listItems tab pb st2 refs lst [] = some (lst, refs) := fun _ => rfl
    rw [e1, e1]
    exact ⟨rfl, by intro n r h; cases h; exact hl⟩
  | cons item items ih =>
    intro refs lst hi hl
    simp only [listItems]
    split
    · split
      · rename_i l hlast
        obtain ⟨e, s⟩ := hg st2 refs l [item] (AllOk.single (AllOk.head hi)) (NI_last hl hlast)
        rw [e]
        cases h : pb2 st2 refs l [item] with
        | none => exact ⟨rfl, by intro n r h; cases h⟩
        | some pr =>
          obtain ⟨li, r⟩ := pr
          exact ih r _ (AllOk.tail hi) (NI_setLast hl (s li r h))
      · exact ih refs lst (AllOk.tail hi) hl
    · obtain ⟨e, s⟩ := hg st2 refs (Node.el "li") [item] (AllOk.single (AllOk.head hi)) (NI_el _ (ht.li _))
      rw [e]
      cases h : pb2 st2 refs (Node.el "li") [item] with
      | none => exact ⟨rfl, by intro n r h; cases h⟩
      | some pr =>
        obtain ⟨li, r⟩ := pr
        exact ih r _ (AllOk.tail hi) (NI_append hl (s li r h))

/-- from a pair-valued agreement to `Concl` with a fixed list of blocks -/
theorem concl_of_pair {x1 x2 : Option (Node × Refs)} {rest : List Str} (f : Node → Node)
    (h : x1 = x2 ∧ ∀ n r, x2 = some (n, r) → NI qt n) (hf : ∀ n, NI qt n → NI qt (f n)) (hr : AllOk Ok rest) :
    Concl Ok qt (match (generalizing := false) x1 with | some (n, r) => some (f n, r, rest) | none => none)
      (match (generalizing := false) x2 with | some (n, r) => some (f n, r, rest) | none => none) := by
  obtain ⟨e, s⟩ := h
  subst e
  cases h : x1 with
  | none => exact concl_none
  | some pr =>
    obtain ⟨n, r⟩ := pr
    exact concl_some (hf n (s n r h)) hr

theorem concl_bind {x1 x2 : Option (Node × Refs)} (K1 K2 : Node → Refs → Option (Node × Refs × List Str))
    (h : x1 = x2 ∧ ∀ n r, x2 = some (n, r) → NI qt n) (hK : ∀ n r, NI qt n → Concl Ok qt (K1 n r) (K2 n r)) :
    Concl Ok qt (match (generalizing := false) x1 with | none => none | some (n, r) => K1 n r)
      (match (generalizing := false) x2 with | none => none | some (n, r) => K2 n r) := by
  obtain ⟨e, s⟩ := h
  subst e
  cases h : x1 with
  | none => exact concl_none
  | some pr =>
    obtain ⟨n, r⟩ := pr
    exact hK n r (s n r h)

theorem listPX_good (hc : Closed Ok) (ht : TagsOk qt cfg) (hg : Good Ok qt pb1 pb2) (hb : Ok b)
    (hr : AllOk Ok rest) (hp : NI qt parent) (p : ListParams) (tag : String)
    (htag : ∀ a, qt (.name tag.toList) a = true) :
    Concl Ok qt (listPX p tab pb1 state refs parent b rest tag) (listPX p tab pb2 state refs parent b rest tag) := by
  have hitems := ok_getItemsX hc p tab hb
  simp only [listPX]
  split
  · -- the previous block was a list
    rename_i lst hlst
    have hlstNI : NI qt lst := by
      split at hlst
      · rename_i sib hs
        split at hlst
        · injection hlst with hlst; exact hlst ▸ NI_last hp hs
        · cases hlst
      · cases hlst
    -- the list with its last item wrapped
    have hlst' : NI qt (match lst.last? with
        | some li =>
          lst.setLast (match (textToP li).last? with
            | some lch =>
              if Node.truthy lch.tail = true then
                ((textToP li).setLast { lch with tail := some [], tailAtomic := false }).append
                  (mkText "p" (lstrip (lch.tail.getD [])))
              else textToP li
            | none => textToP li)
        | none => lst) := by
      split
      · rename_i li hli
        have hli' := NI_textToP (ht.p _) (NI_last hlstNI hli)
        apply NI_setLast hlstNI
        split
        · rename_i lch hlch
          split
          · exact NI_append (NI_setLast hli' (NI_fields (NI_last hli' hlch) _ _ _ _)) (NI_mkText _ _ (ht.p _))
          · exact hli'
        · exact hli'
      · exact hlstNI
    have hhead : Ok ((getItemsX p tab b).headD []) := by
      cases h : getItemsX p tab b with
      | nil => exact hc.nil
      | cons a r => rw [h] at hitems; exact AllOk.head hitems
    obtain ⟨e, s⟩ := hg (state ++ [.looselist]) refs (Node.el "li") [(getItemsX p tab b).headD []]
      (AllOk.single hhead) (NI_el _ (ht.li _))
    rw [e]
    cases h : pb2 (state ++ [.looselist]) refs (Node.el "li") [(getItemsX p tab b).headD []] with
    | none => exact concl_none
    | some pr =>
      obtain ⟨newli, r⟩ := pr
      have hdrop : AllOk Ok ((getItemsX p tab b).drop 1) := fun x hx => hitems x (List.mem_of_mem_drop hx)
      exact concl_of_pair (fun l => parent.setLast l)
        (listItems_good ht hg _ _ r _ hdrop (NI_append hlst' (s newli r h))) (fun n hn => NI_setLast hp hn) hr
  · split
    · exact concl_of_pair (fun l => l) (listItems_good ht hg _ _ refs _ hitems hp) (fun n hn => hn) hr
    · refine concl_of_pair (fun l => parent.append l) (listItems_good ht hg _ _ refs _ hitems ?_)
        (fun n hn => NI_append hp hn) hr
      split
      · rw [NI_iff]; exact ⟨htag _, by intro c hc; cases hc⟩
      · exact NI_el _ (htag _)

theorem listP_good (hc : Closed Ok) (ht : TagsOk qt cfg) (hg : Good Ok qt pb1 pb2) (hb : Ok b)
    (hr : AllOk Ok rest) (hp : NI qt parent) (tag : String) (htag : ∀ a, qt (.name tag.toList) a = true) :
    Concl Ok qt (listP tab pb1 state refs parent b rest tag) (listP tab pb2 state refs parent b rest tag) := by
  rw [← listPX_default, ← listPX_default]
  exact listPX_good hc ht hg hb hr hp _ tag htag

/-! ### blockquote -/

theorem quoteP_good (hc : Closed Ok) (ht : TagsOk qt cfg) (hg : Good Ok qt pb1 pb2) (hb : Ok b)
    (hr : AllOk Ok rest) (hp : NI qt parent) (q : Nat) :
    Concl Ok qt (quoteP pb1 state refs parent b rest q) (quoteP pb2 state refs parent b rest q) := by
  simp only [quoteP]
  obtain ⟨e, s⟩ := hg state refs parent [b.take q] (AllOk.single (ok_take hc q hb)) hp
  rw [e]
  cases h : pb2 state refs parent [b.take q] with
  | none => exact concl_none
  | some pr =>
    obtain ⟨par, r⟩ := pr
    have hpar := s par r h
    have hblock : Ok (joinLines ((lines (b.drop q)).map quoteClean)) :=
      ok_mapLines hc _ quoteClean_infix (ok_drop hc q hb)
    simp only []
    split
    · rename_i sib hsib
      have hsibNI : NI qt sib := by
        split at hsib
        · rename_i sib' hs
          split at hsib
          · injection hsib with hsib; exact hsib ▸ NI_last hpar hs
          · cases hsib
        · cases hsib
      exact concl_of_pair (fun l => par.setLast l) (hg.chunk hc _ r sib hblock hsibNI)
        (fun n hn => NI_setLast hpar hn) hr
    · exact concl_of_pair (fun l => par.append l) (hg.chunk hc _ r _ hblock (NI_el _ (ht.blockquote _)))
        (fun n hn => NI_append hpar hn) hr

/-! ### list indentation -/

theorem indentPX_good (hc : Closed Ok) (ht : TagsOk qt cfg) (hg : Good Ok qt pb1 pb2) (hb : Ok b)
    (hr : AllOk Ok rest) (hp : NI qt parent) (isL isI : Node → Bool) (itemTag : String)
    (htag : ∀ a, qt (.name itemTag.toList) a = true) :
    Concl Ok qt (indentPX isL isI itemTag tab pb1 state refs parent b rest)
      (indentPX isL isI itemTag tab pb2 state refs parent b rest) := by
  simp only [indentPX]
  generalize getLevelX isL isI tab state parent b = lv
  obtain ⟨level, steps⟩ := lv
  have hblock : Ok (looseDetab tab b level) := ok_looseDetab hc _ _ hb
  simp only []
  split
  · split
    · rename_i c hcq
      have hcNI : NI qt c := by
        split at hcq
        · rename_i c' hs
          split at hcq
          · injection hcq with hcq; exact hcq ▸ NI_last hp hs
          · cases hcq
        · cases hcq
      exact concl_of_pair (fun l => parent.setLast l) (hg _ refs c _ (AllOk.single hblock) hcNI)
        (fun n hn => NI_setLast hp hn) hr
    · exact concl_of_pair (fun l => l) (hg _ refs parent _ (AllOk.single hblock) hp) (fun n hn => hn) hr
  · split
    · exact concl_of_pair (fun l => updPath (fun _ => l) steps parent)
        (hg _ refs _ _ (AllOk.single hblock) (NI_nodeAt steps hp))
        (fun n hn => NI_updPath _ (fun _ _ => hn) steps hp) hr
    · split
      · rename_i li hli
        have hliNI : NI qt li := by
          split at hli
          · rename_i c' hs
            split at hli
            · injection hli with hli; exact hli ▸ NI_last (NI_nodeAt steps hp) hs
            · cases hli
          · cases hli
        exact concl_of_pair (fun l => updPath (fun s => s.setLast l) steps parent)
          (hg.chunk hc _ refs _ hblock (NI_textToP (ht.p _) hliNI))
          (fun n hn => NI_updPath _ (fun s hs => NI_setLast hs hn) steps hp) hr
      · exact concl_of_pair (fun l => updPath (fun s => s.append l) steps parent)
          (hg _ refs _ _ (AllOk.single hblock) (NI_el _ (htag _)))
          (fun n hn => NI_updPath _ (fun s hs => NI_append hs hn) steps hp) hr

theorem indentP_good (hc : Closed Ok) (ht : TagsOk qt cfg) (hg : Good Ok qt pb1 pb2) (hb : Ok b)
    (hr : AllOk Ok rest) (hp : NI qt parent) :
    Concl Ok qt (indentP tab pb1 state refs parent b rest) (indentP tab pb2 state refs parent b rest) := by
  rw [← indentPX_core, ← indentPX_core]
  exact indentPX_good hc ht hg hb hr hp _ _ "li" ht.li

/-! ### admonition -/

theorem admonitionP_good (hc : Closed Ok) (ht : TagsOk qt cfg)
    (hdiv : ∀ klass, qt (.name "div".toList) [(strClass, strAdmonition ++ ' ' :: klass)] = true)
    (hg : Good Ok qt pb1 pb2) (hb : Ok b) (hr : AllOk Ok rest) (hp : NI qt parent) (hit : AdmHit) :
    Concl Ok qt (admonitionP tab pb1 state refs parent b rest hit) (admonitionP tab pb2 state refs parent b rest hit) := by
  cases hit with
  | re st en g1 g2 =>
    simp only [admonitionP]
    have hrest : AllOk Ok (if (detab tab (b.drop en)).2.isEmpty = true then rest
        else (detab tab (b.drop en)).2 :: rest) :=
      AllOk.consIf _ (ok_detab_snd hc tab (ok_drop hc en hb)) hr
    have hblock : Ok (detab tab (b.drop en)).1 := ok_detab_fst hc tab (ok_drop hc en hb)
    have hdivNI : NI qt (if Node.truthy (admClassTitle g1 g2).2 = true then
          ({ Node.el "div" with attrs := [(strClass, strAdmonition ++ ' ' :: (admClassTitle g1 g2).1)] } : Node).append
            { mkText "p" ((admClassTitle g1 g2).2.getD []) with attrs := [(strClass, "admonition-title".toList)] }
        else { Node.el "div" with attrs := [(strClass, strAdmonition ++ ' ' :: (admClassTitle g1 g2).1)] }) := by
      have h1 : NI qt ({ Node.el "div" with attrs := [(strClass, strAdmonition ++ ' ' :: (admClassTitle g1 g2).1)] } : Node) := by
        rw [NI_iff]; exact ⟨hdiv _, by intro c hc; cases hc⟩
      split
      · apply NI_append h1
        rw [NI_iff]; exact ⟨(ht.p _), by intro c hc; cases hc⟩
      · exact h1
    refine concl_bind _ _ ?_ ?_
    · by_cases hst : st > 0
      · simp only [hst, if_true]
        exact hg state refs parent [b.take st] (AllOk.single (ok_take hc st hb)) hp
      · rw [if_neg hst, if_neg hst]
        exact ⟨rfl, by intro n r h; cases h; exact hp⟩
    · intro par r hpar
      exact concl_of_pair (fun l => par.append l) (hg.chunk hc _ r _ hblock hdivNI)
        (fun n hn => NI_append hpar hn) hrest
  | sib steps indent =>
    simp only [admonitionP]
    have hrest : AllOk Ok (if (detab indent b).2.isEmpty = true then rest else (detab indent b).2 :: rest) :=
      AllOk.consIf _ (ok_detab_snd hc indent hb) hr
    have hblock : Ok (detab indent b).1 := ok_detab_fst hc indent hb
    have hsib := NI_nodeAt (qt := qt) steps hp
    refine concl_of_pair (fun l => updPath (fun _ => l) steps parent) (hg.chunk hc _ refs _ hblock ?_)
      (fun n hn => NI_updPath _ (fun _ _ => hn) steps hp) hrest
    split
    · rw [NI_iff] at hsib ⊢
      refine ⟨hsib.1, ?_⟩
      intro c hc'
      simp only [List.mem_append, List.mem_singleton] at hc'
      rcases hc' with hc' | hc'
      · exact hsib.2 c hc'
      · rw [hc', NI_iff]; exact ⟨(ht.p _), by intro c hc; cases hc⟩
    · exact hsib

/-! ### definition lists -/

theorem nlSearchAux_suffix {α : Type} (f : Str → Option α) : ∀ (s : Str) (i : Nat) {st o : Nat} {a : α},
    nlSearchAux f i s = some (st, o, a) → ∃ t, t <:+ s ∧ f t = some a := by
  intro s
  induction s with
  | nil => intro i st o a h; simp [nlSearchAux] at h
  | cons c r ih =>
    intro i st o a h
    simp only [nlSearchAux] at h
    split at h
    · split at h
      · rename_i a' ha
        injection h with h
        injection h with _ h
        injection h with _ h
        exact ⟨r, List.suffix_cons c r, h ▸ ha⟩
      · obtain ⟨t, ht, hf⟩ := ih _ h
        exact ⟨t, List.IsSuffix.trans ht (List.suffix_cons c r), hf⟩
    · obtain ⟨t, ht, hf⟩ := ih _ h
      exact ⟨t, List.IsSuffix.trans ht (List.suffix_cons c r), hf⟩

theorem nlSearch_suffix {α : Type} (f : Str → Option α) {s : Str} {st o : Nat} {a : α}
    (h : nlSearch f s = some (st, o, a)) : ∃ t, t <:+ s ∧ f t = some a := by
  simp only [nlSearch] at h
  split at h
  · rename_i a' ha
    injection h with h
    injection h with _ h
    injection h with _ h
    exact ⟨s, List.suffix_refl s, h ▸ ha⟩
  · exact nlSearchAux_suffix f s 0 h

theorem defAt_infix {s g : Str} {n : Nat} (h : defAt s = some (g, n)) : g <:+: s := by
  simp only [defAt] at h
  split at h
  · rename_i c r hd
    split at h
    · split at h
      · cases h
      · injection h with h
        injection h with h _
        rw [← h]
        have hr : r <:+: s := by
          have : (c :: r) <:+ s := hd ▸ List.drop_suffix _ s
          exact List.IsInfix.trans (List.suffix_cons c r).isInfix this.isInfix
        exact List.IsInfix.trans (List.takeWhile_prefix _).isInfix
          (List.IsInfix.trans (List.drop_suffix _ r).isInfix hr)
    · cases h
  · cases h

theorem defSearch_infix {b g : Str} {st en : Nat} (h : defSearch b = some (st, en, g)) : g <:+: b := by
  simp only [defSearch] at h
  split at h
  · rename_i st' o g' n hs
    injection h with h
    injection h with _ h
    injection h with _ h
    obtain ⟨t, ht, hf⟩ := nlSearch_suffix defAt hs
    exact h ▸ List.IsInfix.trans (defAt_infix hf) ht.isInfix
  · cases h

theorem NI_addTerms {dl : Node} (terms : List Str) (hdt : ∀ a, qt (.name "dt".toList) a = true) (h : NI qt dl) :
    NI qt (addTerms dl terms) := by
  rw [NI_iff] at h ⊢
  refine ⟨h.1, ?_⟩
  intro c hc
  simp only [addTerms, List.mem_append, List.mem_map] at hc
  rcases hc with hc | ⟨t, _, hc⟩
  · exact h.2 c hc
  · exact hc ▸ NI_mkText _ _ (hdt _)

/-- the conclusion for a processor whose `run` may return `False` (outer `none`) -/
def ConclO (Ok : Str → Prop) (qt : Tag → List (Str × Str) → Bool) (r1 r2 : Option (Option (Node × Refs × List Str))) : Prop :=
  (r1 = none ∧ r2 = none) ∨ ∃ x1 x2, r1 = some x1 ∧ r2 = some x2 ∧ Concl Ok qt x1 x2

theorem defListP_good (hc : Closed Ok) (hdl : ∀ a, qt (.name "dl".toList) a = true) (hdt : ∀ a, qt (.name "dt".toList) a = true)
    (hdd : ∀ a, qt (.name "dd".toList) a = true)
    (hg : Good Ok qt pb1 pb2) (hb : Ok b) (hr : AllOk Ok rest) (hp : NI qt parent) (m : Nat × Nat × Str)
    (hm : defSearch b = some m) :
    ConclO Ok qt (defListP tab pb1 state refs parent b rest m) (defListP tab pb2 state refs parent b rest m) := by
  obtain ⟨st, en, g2⟩ := m
  have hg2 : Ok g2 := hc.sub (defSearch_infix hm) hb
  simp only [defListP]
  generalize hdt' : (if defNoIndent (b.drop en) = true then (b.drop en, ([] : Str)) else detab tab (b.drop en)) = dt
  obtain ⟨d0, theRest⟩ := dt
  have hd0 : Ok d0 ∧ Ok theRest := by
    split at hdt'
    · injection hdt' with h1 h2
      exact ⟨h1 ▸ ok_drop hc en hb, h2 ▸ hc.nil⟩
    · have h1 := ok_detab_fst hc tab (ok_drop hc en hb)
      have h2 := ok_detab_snd hc tab (ok_drop hc en hb)
      rw [hdt'] at h1 h2
      exact ⟨h1, h2⟩
  have hd : Ok (if d0.isEmpty = true then g2 else g2 ++ '\n' :: d0) := by
    split
    · exact hg2
    · exact hc.joinNl hg2 hd0.1
  have hrest : AllOk Ok (if theRest.isEmpty = true then rest else theRest :: rest) := AllOk.consIf _ hd0.2 hr
  have hddNI : NI qt (Node.el "dd") := NI_el _ (hdd _)
  have hdlNI : NI qt (Node.el "dl") := NI_el _ (hdl _)
  simp only []
  split
  · split
    · exact Or.inl ⟨rfl, rfl⟩
    · refine Or.inr ⟨_, _, rfl, rfl, ?_⟩
      exact concl_of_pair (fun dd => parent.append ((addTerms (Node.el "dl") _).append dd))
        (hg _ refs _ _ (AllOk.single hd) hddNI)
        (fun n hn => NI_append hp (NI_append (NI_addTerms _ hdt hdlNI) hn)) hrest
  · rename_i sibling hsib
    refine Or.inr ⟨_, _, rfl, rfl, ?_⟩
    have hpar : NI qt (if (((lines (b.take st)).map strip).filter (fun t => !t.isEmpty)).isEmpty && sibling.isTag "p"
        then dropLastChild parent else parent) := by
      split
      · exact NI_dropLastChild hp
      · exact hp
    split
    · rename_i dl hdl'
      have hdlNI' : NI qt dl := by
        split at hdl'
        · rename_i s' hs
          split at hdl'
          · injection hdl' with hdl'; exact hdl' ▸ NI_last hpar hs
          · cases hdl'
        · cases hdl'
      exact concl_of_pair (fun dd => Node.setLast _ ((addTerms dl _).append dd))
        (hg _ refs _ _ (AllOk.single hd) hddNI)
        (fun n hn => NI_setLast hpar (NI_append (NI_addTerms _ hdt hdlNI') hn)) hrest
    · exact concl_of_pair (fun dd => Node.append _ ((addTerms (Node.el "dl") _).append dd))
        (hg _ refs _ _ (AllOk.single hd) hddNI)
        (fun n hn => NI_append hpar (NI_append (NI_addTerms _ hdt hdlNI) hn)) hrest

/-! ### footnotes, abbreviations -/

theorem detectTabbed_ok (hc : Closed Ok) : ∀ (bl : List Str), AllOk Ok bl → AllOk Ok (detectTabbed bl).2 := by
  intro bl
  induction bl with
  | nil => intro _; exact AllOk.nil
  | cons b r ih =>
    intro h
    simp only [detectTabbed]
    split
    · split
      · exact AllOk.cons (ok_drop hc _ (AllOk.head h)) (AllOk.tail h)
      · exact ih (AllOk.tail h)
    · exact h

theorem footnoteP_ok (hc : Closed Ok) (hb : Ok b) (hr : AllOk Ok rest) {refs' : Refs} {rest' : List Str}
    (h : footnoteP refs b rest = some (refs', rest')) : AllOk Ok rest' := by
  simp only [footnoteP] at h
  split at h
  · cases h
  · rename_i st id g2 n hs
    have h1 : ∀ {rest0 : List Str}, AllOk Ok rest0 →
        AllOk Ok (if isBlank (b.take st) = true then rest0 else rstripC '\n' (b.take st) :: rest0) :=
      fun h0 => AllOk.consIf _ (ok_rstripC hc _ (ok_take hc st hb)) h0
    have htr : Ok (lstripC '\n' (b.drop (st + n))) := ok_lstripC hc _ (ok_drop hc _ hb)
    split at h
    · rename_i st2 x hs2
      injection h with h
      injection h with _ h
      rw [← h]
      exact h1 (AllOk.cons (ok_drop hc _ htr) hr)
    · injection h with h
      injection h with _ h
      rw [← h]
      exact h1 (detectTabbed_ok hc rest hr)

theorem abbrP_ok (hc : Closed Ok) (hb : Ok b) (hr : AllOk Ok rest) {refs' : Refs} {rest' : List Str}
    (h : abbrP refs b rest = .ok (refs', rest')) : AllOk Ok rest' := by
  simp only [abbrP] at h
  split at h
  · cases h
  · rename_i st abbr0 title0 n hs
    have hrest : AllOk Ok (if isBlank (b.take st) = true then
          (if isBlank (b.drop (st + n)) = true then rest else lstripC '\n' (b.drop (st + n)) :: rest)
        else rstripC '\n' (b.take st) ::
          (if isBlank (b.drop (st + n)) = true then rest else lstripC '\n' (b.drop (st + n)) :: rest)) :=
      AllOk.consIf _ (ok_rstripC hc _ (ok_take hc st hb)) (AllOk.consIf _ (ok_lstripC hc _ (ok_drop hc _ hb)) hr)
    split at h
    · cases h
    · split at h
      · split at h
        · injection h with h
          injection h with _ h
          exact h ▸ hrest
        · injection h with h
          injection h with _ h
          exact h ▸ hrest
      · injection h with h
        injection h with _ h
        exact h ▸ hrest

/-! ### the dispatcher -/

theorem tailRef_good (hc : Closed Ok) (ht : TagsOk qt cfg) (hb : Ok b) (hr : AllOk Ok rest) (hp : NI qt parent) :
    Concl Ok qt (tailRef state refs parent b rest) (tailRef state refs parent b rest) := by
  simp only [tailRef]
  split
  · exact referenceP_good hc hb hr hp _
  · exact paraP_good ht hr hp

theorem tailAbbr_good (hc : Closed Ok) (ht : TagsOk qt cfg) (hb : Ok b) (hr : AllOk Ok rest) (hp : NI qt parent) :
    Concl Ok qt (tailAbbr cfg state refs parent b rest) (tailAbbr cfg state refs parent b rest) := by
  simp only [tailAbbr]
  split
  · split
    · rename_i refs' rest' h
      exact concl_some hp (abbrP_ok hc hb hr h)
    · exact concl_none
    · exact tailRef_good hc ht hb hr hp
  · exact tailRef_good hc ht hb hr hp

theorem tailFootnote_good (hc : Closed Ok) (ht : TagsOk qt cfg) (hb : Ok b) (hr : AllOk Ok rest)
    (hp : NI qt parent) :
    Concl Ok qt (tailFootnote cfg state refs parent b rest) (tailFootnote cfg state refs parent b rest) := by
  simp only [tailFootnote]
  split
  · split
    · rename_i refs' rest' h
      exact concl_some hp (footnoteP_ok hc hb hr h)
    · exact tailAbbr_good hc ht hb hr hp
  · exact tailAbbr_good hc ht hb hr hp

theorem tailQuote_good (hc : Closed Ok) (ht : TagsOk qt cfg) (hg : Good Ok qt pb1 pb2) (hb : Ok b)
    (hr : AllOk Ok rest) (hp : NI qt parent) :
    Concl Ok qt (tailQuote cfg pb1 state refs parent b rest) (tailQuote cfg pb2 state refs parent b rest) := by
  simp only [tailQuote]
  split
  · exact quoteP_good hc ht hg hb hr hp _
  · exact tailFootnote_good hc ht hb hr hp

theorem tailDef_good (hc : Closed Ok) (ht : TagsOk qt cfg) (hg : Good Ok qt pb1 pb2) (hb : Ok b)
    (hr : AllOk Ok rest) (hp : NI qt parent) :
    Concl Ok qt (tailDef cfg tab pb1 state refs parent b rest) (tailDef cfg tab pb2 state refs parent b rest) := by
  simp only [tailDef]
  split
  · rename_i hcfg
    split
    · rename_i m hm
      rcases defListP_good (tab := tab) (state := state) (refs := refs) hc (ht.dl hcfg) (ht.dt hcfg) (ht.dd hcfg)
        hg hb hr hp m hm with ⟨h1, h2⟩ | ⟨x1, x2, h1, h2, h3⟩
      · rw [h1, h2]
        exact tailQuote_good hc ht hg hb hr hp
      · rw [h1, h2]
        exact h3
    · exact tailQuote_good hc ht hg hb hr hp
  · exact tailQuote_good hc ht hg hb hr hp

theorem tailList_good (hc : Closed Ok) (ht : TagsOk qt cfg) (hg : Good Ok qt pb1 pb2) (hb : Ok b)
    (hr : AllOk Ok rest) (hp : NI qt parent) :
    Concl Ok qt (tailList cfg tab pb1 state refs parent b rest) (tailList cfg tab pb2 state refs parent b rest) := by
  simp only [tailList]
  split
  · split
    · exact listPX_good hc ht hg hb hr hp _ "ol" ht.ol
    · exact listP_good hc ht hg hb hr hp "ol" ht.ol
  · split
    · split
      · exact listPX_good hc ht hg hb hr hp _ "ul" ht.ul
      · exact listP_good hc ht hg hb hr hp "ul" ht.ul
    · exact tailDef_good hc ht hg hb hr hp

theorem concl_ite {a1 a2 b1 b2 : Option (Node × Refs × List Str)} (c : Prop) [Decidable c]
    (h1 : c → Concl Ok qt a1 a2) (h2 : ¬c → Concl Ok qt b1 b2) :
    Concl Ok qt (if c then a1 else b1) (if c then a2 else b2) := by
  by_cases h : c
  · rw [if_pos h, if_pos h]; exact h1 h
  · rw [if_neg h, if_neg h]; exact h2 h

theorem tailEmpty_good (hc : Closed Ok) (ht : TagsOk qt cfg) (hg : Good Ok qt pb1 pb2) (hb : Ok b)
    (hr : AllOk Ok rest) (hp : NI qt parent) :
    Concl Ok qt (tailEmpty cfg tab pb1 state refs parent b rest) (tailEmpty cfg tab pb2 state refs parent b rest) := by
  simp only [tailEmpty]
  refine concl_ite _ (fun _ => emptyP_good hc hb hr hp) (fun _ => ?_)
  refine concl_ite _ (fun _ => indentP_good hc ht hg hb hr hp) (fun _ => ?_)
  refine concl_ite _ (fun hcfg => ?_) (fun _ => ?_)
  · simp only [Bool.and_eq_true] at hcfg
    exact indentPX_good hc ht hg hb hr hp _ _ "dd" (ht.dd hcfg.1)
  refine concl_ite _ (fun _ => codeP_good hc ht hb hr hp) (fun _ => ?_)
  split
  · exact hashP_good hc ht hg hb hr hp _
  · refine concl_ite _ (fun _ => setextP_good hc ht hb hr hp) (fun _ => ?_)
    split
    · exact hrP_good hc ht hg hb hr hp _
    · exact tailList_good hc ht hg hb hr hp

/-- one turn of the loop does the same with two callbacks that agree on good arguments -/
theorem dispatchX_good (hc : Closed Ok) (ht : TagsOk qt cfg) (hg : Good Ok qt pb1 pb2) (hb : Ok b)
    (hr : AllOk Ok rest) (hp : NI qt parent) :
    Concl Ok qt (dispatchX cfg tab pb1 state refs parent b rest) (dispatchX cfg tab pb2 state refs parent b rest) := by
  simp only [dispatchX]
  split
  · rename_i hit hh
    have hcfg : cfg.admonition = true := by
      cases h : cfg.admonition with
      | true => rfl
      | false => simp [h] at hh
    exact admonitionP_good hc ht (ht.div hcfg) hg hb hr hp hit
  · exact tailEmpty_good hc ht hg hb hr hp

/-- the extended parsers of two configurations whose dispatchers coincide on good arguments agree on good
    arguments -/
theorem parseBlocksX_good (hc : Closed Ok) (ht : TagsOk qt cfg) (cfg' : XCfg) (tab : Nat)
    (hflag : ∀ (pb : PB) (state : List BState) (refs : Refs) (parent : Node) (b : Str) (rest : List Str),
      Ok b → NI qt parent →
        dispatchX cfg' tab pb state refs parent b rest = dispatchX cfg tab pb state refs parent b rest) :
    ∀ fuel, Good Ok qt (parseBlocksX cfg' tab fuel) (parseBlocksX cfg tab fuel) := by
  intro fuel
  induction fuel with
  | zero =>
    intro st refs p bl _ hp
    cases bl with
    | nil => exact ⟨rfl, by intro n r h; simp only [parseBlocksX] at h; cases h; exact hp⟩
    | cons b rest => exact ⟨rfl, by intro n r h; simp only [parseBlocksX] at h; cases h⟩
  | succ f ih =>
    intro st refs p bl hbl hp
    cases bl with
    | nil => exact ⟨rfl, by intro n r h; simp only [parseBlocksX] at h; cases h; exact hp⟩
    | cons b rest =>
      simp only [parseBlocksX]
      rw [hflag _ st refs p b rest (AllOk.head hbl) hp]
      obtain ⟨e, s⟩ := dispatchX_good (cfg := cfg) (tab := tab) (state := st) (refs := refs) hc ht ih
        (AllOk.head hbl) (AllOk.tail hbl) hp
      rw [e]
      cases h : dispatchX cfg tab (parseBlocksX cfg tab f) st refs p b rest with
      | none => exact ⟨rfl, by intro n r h; cases h⟩
      | some res =>
        obtain ⟨n, r, bl'⟩ := res
        obtain ⟨h1, h2⟩ := s n r bl' h
        exact ih st r n bl' h2 h1

end MdVerif.BlockExt
