/-
Helper lemmas for C16 (attribute lists).  Core Lean only.
-/
import MdVerif.Spec.AttrList

namespace MdVerif.AttrList
open MdVerif.Py MdVerif.AttrList.Spec

/-! ### lists -/

/-- `r` is empty or starts with a character outside `p` -/
def Stops (p : Char → Bool) (r : Str) : Prop := r = [] ∨ ∃ x r', r = x :: r' ∧ p x = false

theorem takeWhile_append_stops (p : Char → Bool) (l r : Str) (hl : ∀ c ∈ l, p c = true) (hr : Stops p r) :
    (l ++ r).takeWhile p = l ∧ (l ++ r).dropWhile p = r := by
  induction l with
  | nil =>
    rcases hr with rfl | ⟨x, r', rfl, hx⟩
    · simp
    · simp [hx]
  | cons a l ih =>
    have ha : p a = true := hl a (by simp)
    have := ih (fun c hc => hl c (by simp [hc]))
    simp [ha, this]

theorem stops_blank (r : Str) : Stops wordChar (' ' :: r) := Or.inr ⟨' ', r, rfl, by decide⟩
theorem stops_eq (r : Str) : Stops wordChar ('=' :: r) := Or.inr ⟨'=', r, rfl, by decide⟩

/-- the text after an item: nothing, or a blank and more -/
def AfterItem (r : Str) : Prop := r = [] ∨ ∃ r', r = ' ' :: r'

theorem AfterItem.stops {r : Str} (h : AfterItem r) : Stops wordChar r := by
  rcases h with rfl | ⟨r', rfl⟩
  · exact Or.inl rfl
  · exact stops_blank r'

/-! ### the lexicon patterns on well-formed items -/

theorem lazyUntil_found (q : Char) (v rest : Str) (hq : q ∉ v) (hn : '\n' ∉ v) :
    lazyUntil q (v ++ q :: rest) = some (v, rest) := by
  induction v with
  | nil => simp [lazyUntil]
  | cons c v ih =>
    have h1 : c ≠ q := fun e => hq (by simp [e])
    have h2 : c ≠ '\n' := fun e => hn (by simp [e])
    have := ih (fun h => hq (by simp [h])) (fun h => hn (by simp [h]))
    simp [lazyUntil, h1, h2, this]

theorem splitEq_word (k r : Str) (hk : IsWord k) : splitEq (k ++ '=' :: r) = (k, r) := by
  induction k with
  | nil => simp [splitEq]
  | cons c k ih =>
    have hc : c ≠ '=' := by
      intro e; have := hk c (by simp); rw [e] at this; exact absurd this (by decide)
    have := ih (fun x hx => hk x (by simp [hx]))
    simp [splitEq, hc, this]

theorem lstripP_none (p : Char → Bool) (v : Str) (h : ∀ c ∈ v, p c = false) : lstripP p v = v := by
  cases v with
  | nil => rfl
  | cons c v => simp [lstripP, h c (by simp)]

theorem stripC_quoted (q : Char) (v : Str) (hq : q ∉ v) : stripC q (q :: v ++ [q]) = v := by
  have hv : ∀ c ∈ v, (decide (c = q)) = false := fun c hc => by
    simp; intro e; exact hq (e ▸ hc)
  have hvr : ∀ c ∈ v.reverse, (decide (c = q)) = false := fun c hc => hv c (by simpa using hc)
  unfold stripC stripP rstripP
  have h1 : lstripP (fun x => decide (x = q)) (q :: v ++ [q]) = lstripP (fun x => decide (x = q)) (v ++ [q]) := by
    simp [lstripP]
  rw [h1]
  cases v with
  | nil => simp [lstripP]
  | cons c v =>
    have hc : (decide (c = q)) = false := hv c (by simp)
    have h2 : lstripP (fun x => decide (x = q)) (c :: v ++ [q]) = c :: v ++ [q] := by simp [lstripP, hc]
    rw [h2]
    have h3 : (c :: v ++ [q]).reverse = q :: (c :: v).reverse := by simp
    rw [h3]
    have h4 : lstripP (fun x => decide (x = q)) (q :: (c :: v).reverse) = (c :: v).reverse := by
      have := lstripP_none (fun x => decide (x = q)) (c :: v).reverse hvr
      simp only [lstripP, decide_true, if_true]
      exact this
    rw [h4]; simp

theorem patQuoted_item (q : Char) (k v rest : Str) (hk : k ≠ []) (hw : IsWord k) (hq : q ∉ v) (hn : '\n' ∉ v) :
    patQuoted q (k ++ ('=' :: q :: (v ++ q :: rest))) = some (k ++ ('=' :: q :: (v ++ [q])), rest) := by
  unfold patQuoted
  have h := takeWhile_append_stops wordChar k ('=' :: q :: (v ++ q :: rest)) hw (stops_eq _)
  rw [h.1, h.2]
  cases k with
  | nil => exact absurd rfl hk
  | cons c k => simp [lazyUntil_found q v rest hq hn]

/-- a quoted pattern does not apply when the word is not followed by `=` + that quote -/
theorem patQuoted_none (q : Char) (w rest : Str) (hw : IsWord w) (hs : Stops wordChar rest)
    (hno : ∀ r, rest ≠ '=' :: q :: r) : patQuoted q (w ++ rest) = none := by
  unfold patQuoted
  have h := takeWhile_append_stops wordChar w rest hw hs
  rw [h.1, h.2]
  split
  · split
    · simp_all
    · rfl
  · rfl

theorem patKeyValue_item (k v rest : Str) (hk : k ≠ []) (hw : IsWord k) (hv : v ≠ []) (hvw : IsWord v)
    (hr : AfterItem rest) : patKeyValue (k ++ '=' :: v ++ rest) = some (k ++ '=' :: v, rest) := by
  unfold patKeyValue
  have e : k ++ '=' :: v ++ rest = k ++ '=' :: (v ++ rest) := by simp
  have h := takeWhile_append_stops wordChar k ('=' :: (v ++ rest)) hw (stops_eq _)
  have h2 := takeWhile_append_stops wordChar v rest hvw hr.stops
  rw [e, h.1, h.2]
  cases k with
  | nil => exact absurd rfl hk
  | cons c k =>
    cases v with
    | nil => exact absurd rfl hv
    | cons d v => simp only [h2.1, h2.2]

theorem patKeyValue_none (w rest : Str) (hw : IsWord w) (hr : AfterItem rest) : patKeyValue (w ++ rest) = none := by
  unfold patKeyValue
  have h := takeWhile_append_stops wordChar w rest hw hr.stops
  rw [h.1, h.2]
  rcases hr with rfl | ⟨r', rfl⟩ <;> (split <;> simp_all)

theorem patWord_item (w rest : Str) (hne : w ≠ []) (hw : IsWord w) (hr : AfterItem rest) :
    patWord (w ++ rest) = some (w, rest) := by
  unfold patWord
  have h := takeWhile_append_stops wordChar w rest hw hr.stops
  rw [h.1, h.2]
  cases w with
  | nil => exact absurd rfl hne
  | cons c w => rfl

theorem afterItem_no_eq {rest : Str} (hr : AfterItem rest) (q : Char) : ∀ r, rest ≠ '=' :: q :: r := by
  intro r e
  rcases hr with rfl | ⟨r', rfl⟩
  · cases e
  · cases e

/-- a word (`#x`, `.c`, `checked`) is read by the fourth lexicon entry -/
theorem scanStep_word (w rest : Str) (hne : w ≠ []) (hw : IsWord w) (hr : AfterItem rest) :
    scanStep (w ++ rest) = some (some (handleWord w), rest) := by
  unfold scanStep
  rw [patQuoted_none '"' w rest hw hr.stops (afterItem_no_eq hr _),
    patQuoted_none '\'' w rest hw hr.stops (afterItem_no_eq hr _),
    patKeyValue_none w rest hw hr, patWord_item w rest hne hw hr]

theorem scanStep_blank (r : Str) : scanStep (' ' :: r) = some (none, r) := by
  simp [scanStep, patQuoted, patKeyValue, patWord, List.takeWhile, show wordChar ' ' = false by decide]

theorem isWord_cons {c : Char} {x : Str} (hc : wordChar c = true) (hx : IsWord x) : IsWord (c :: x) := by
  intro d hd
  rcases List.mem_cons.mp hd with rfl | hd
  · exact hc
  · exact hx d hd

theorem scanStep_item (it : AttrItem) (hok : ItemOk it) (rest : Str) (hr : AfterItem rest) :
    scanStep (printItem it ++ rest) = some (some (toPair it), rest) := by
  cases it with
  | id x =>
    have := scanStep_word ('#' :: x) rest (by simp) (isWord_cons (by decide) hok) hr
    simpa [printItem, toPair, handleWord] using this
  | cls c =>
    have := scanStep_word ('.' :: c) rest (by simp) (isWord_cons (by decide) hok) hr
    simpa [printItem, toPair, handleWord] using this
  | flag w =>
    obtain ⟨hne, hw, h1, h2⟩ := hok
    have := scanStep_word w rest hne hw hr
    rw [printItem, toPair, this]
    cases w with
    | nil => exact absurd rfl hne
    | cons c w =>
      have hc1 : c ≠ '.' := fun e => h1 (by simp [e])
      have hc2 : c ≠ '#' := fun e => h2 (by simp [e])
      unfold handleWord
      split
      · rename_i heq; cases heq; exact absurd rfl hc1
      · rename_i heq; cases heq; exact absurd rfl hc2
      · rfl
  | kv k v q =>
    cases q with
    | bare =>
      obtain ⟨hk, hkw, hv, hvw, h1, h2⟩ := hok
      have hrest : Stops wordChar ('=' :: (v ++ rest)) := stops_eq _
      cases v with
      | nil => exact absurd rfl hv
      | cons d v =>
        have hd1 : d ≠ '"' := fun e => h1 (by simp [e])
        have hd2 : d ≠ '\'' := fun e => h2 (by simp [e])
        have e : printItem (.kv k (d :: v) .bare) ++ rest = k ++ ('=' :: d :: (v ++ rest)) := by simp [printItem]
        have n1 : patQuoted '"' (k ++ ('=' :: d :: (v ++ rest))) = none :=
          patQuoted_none '"' k _ hkw (stops_eq _) (fun r h => hd1 (by cases h; rfl))
        have n2 : patQuoted '\'' (k ++ ('=' :: d :: (v ++ rest))) = none :=
          patQuoted_none '\'' k _ hkw (stops_eq _) (fun r h => hd2 (by cases h; rfl))
        have p3 := patKeyValue_item k (d :: v) rest hk hkw (by simp) hvw hr
        have e3 : k ++ '=' :: (d :: v) ++ rest = k ++ ('=' :: d :: (v ++ rest)) := by simp
        rw [e3] at p3
        unfold scanStep
        rw [e, n1, n2, p3]
        simp [handleKeyValue, toPair, splitEq_word k (d :: v) hkw]
    | dq =>
      obtain ⟨hk, hkw, hq, hn⟩ := hok
      have p1 := patQuoted_item '"' k v rest hk hkw hq hn
      have e : printItem (.kv k v .dq) ++ rest = k ++ ('=' :: '"' :: (v ++ '"' :: rest)) := by simp [printItem]
      unfold scanStep
      rw [e, p1]
      have e2 : '"' :: (v ++ ['"']) = '"' :: v ++ ['"'] := by simp
      simp only [handleQuoted, toPair, splitEq_word k _ hkw, e2, stripC_quoted '"' v hq]
    | sq =>
      obtain ⟨hk, hkw, hq, hn⟩ := hok
      have p2 := patQuoted_item '\'' k v rest hk hkw hq hn
      have e : printItem (.kv k v .sq) ++ rest = k ++ ('=' :: '\'' :: (v ++ '\'' :: rest)) := by simp [printItem]
      have n1 : patQuoted '"' (k ++ ('=' :: '\'' :: (v ++ '\'' :: rest))) = none :=
        patQuoted_none '"' k _ hkw (stops_eq _) (fun r h => by cases h)
      unfold scanStep
      rw [e, n1, p2]
      have e2 : '\'' :: (v ++ ['\'']) = '\'' :: v ++ ['\''] := by simp
      simp only [handleQuoted, toPair, splitEq_word k _ hkw, e2, stripC_quoted '\'' v hq]

/-! ### the scanner on a printed attribute list -/

theorem afterItem_replicate (n : Nat) : AfterItem (List.replicate n ' ') := by
  cases n with
  | zero => exact Or.inl rfl
  | succ n => exact Or.inr ⟨List.replicate n ' ', rfl⟩

theorem scan_blanks (n fuel : Nat) (h : n ≤ fuel) : scan fuel (List.replicate n ' ') = ([], []) := by
  induction n generalizing fuel with
  | zero => cases fuel <;> simp [scan, scanStep, patQuoted, patKeyValue, patWord]
  | succ n ih =>
    cases fuel with
    | zero => omega
    | succ fuel =>
      simp only [List.replicate_succ, scan, scanStep_blank, ih fuel (by omega)]
      rfl

theorem printItem_length_pos (it : AttrItem) (hok : ItemOk it) : 0 < (printItem it).length := by
  cases it with
  | id x => simp [printItem]
  | cls c => simp [printItem]
  | flag w => exact List.length_pos_iff.mpr hok.1
  | kv k v q => cases q <;> (simp [printItem]; omega)

theorem scan_printAttrs (items : List AttrItem) (hok : ∀ it ∈ items, ItemOk it) (n fuel : Nat)
    (hf : (printAttrs items ++ List.replicate n ' ').length ≤ fuel) :
    scan fuel (printAttrs items ++ List.replicate n ' ') = (items.map toPair, []) := by
  induction items generalizing fuel with
  | nil => simpa [printAttrs] using scan_blanks n fuel (by simpa [printAttrs] using hf)
  | cons a items ih =>
    have ha := hok a (by simp)
    have hpos := printItem_length_pos a ha
    cases items with
    | nil =>
      simp only [printAttrs, List.length_append, List.length_replicate] at hf ⊢
      cases fuel with
      | zero => omega
      | succ fuel =>
        simp only [scan, scanStep_item a ha _ (afterItem_replicate n), scan_blanks n fuel (by omega)]
        rfl
    | cons b r =>
      have e : printAttrs (a :: b :: r) ++ List.replicate n ' ' =
          printItem a ++ (' ' :: (printAttrs (b :: r) ++ List.replicate n ' ')) := by simp [printAttrs]
      rw [e] at hf ⊢
      simp only [List.length_append, List.length_cons] at hf
      cases fuel with
      | zero => omega
      | succ fuel =>
        cases fuel with
        | zero => omega
        | succ fuel =>
          have ih' := ih (fun it hit => hok it (by simp [hit])) fuel (by
            simp only [List.length_append]; omega)
          simp only [scan, scanStep_item a ha _ (Or.inr ⟨_, rfl⟩), scanStep_blank, ih']
          rfl

theorem getAttrs_printAttrs (items : List AttrItem) (hok : ∀ it ∈ items, ItemOk it) (n : Nat) :
    getAttrsAndRemainder (printAttrs items ++ List.replicate n ' ') = (items.map toPair, []) := by
  unfold getAttrsAndRemainder scanner
  rw [scan_printAttrs items hok n _ (Nat.le_refl _)]
  rfl

/-! ### `sanitize_name` -/

theorem sanitizeAux_valid (b : Bool) (k : Str) (h : ∀ c ∈ k, nameChar c = true) : sanitizeAux b k = k := by
  induction k generalizing b with
  | nil => rfl
  | cons c k ih => simp [sanitizeAux, h c (by simp), ih false (fun x hx => h x (by simp [hx]))]

theorem sanitizeAux_append_valid' (b : Bool) (a rest : Str) (h : ∀ c ∈ a, nameChar c = true) :
    sanitizeAux b (a ++ rest) = a ++ sanitizeAux (a.isEmpty && b) rest := by
  induction a generalizing b with
  | nil => simp
  | cons c a ih =>
    simp [sanitizeAux, h c (by simp), ih false (fun x hx => h x (by simp [hx]))]

theorem sanitizeAux_append_valid (b : Bool) (a rest : Str) (h : ∀ c ∈ a, nameChar c = true) (hne : a ≠ []) :
    sanitizeAux b (a ++ rest) = a ++ sanitizeAux false rest := by
  rw [sanitizeAux_append_valid' b a rest h]
  cases a with
  | nil => exact absurd rfl hne
  | cons c a => rfl

theorem sanitizeAux_true_invalid (bad rest : Str) (h : ∀ c ∈ bad, nameChar c = false) :
    sanitizeAux true (bad ++ rest) = sanitizeAux true rest := by
  induction bad with
  | nil => rfl
  | cons c bad ih => simp [sanitizeAux, h c (by simp), ih (fun x hx => h x (by simp [hx]))]

theorem sanitizeAux_invalid_run (bad rest : Str) (h : ∀ c ∈ bad, nameChar c = false) (hne : bad ≠ []) :
    sanitizeAux false (bad ++ rest) = '_' :: sanitizeAux true rest := by
  cases bad with
  | nil => exact absurd rfl hne
  | cons c bad =>
    simp [sanitizeAux, h c (by simp), sanitizeAux_true_invalid bad rest (fun x hx => h x (by simp [hx]))]

theorem sanitizeAux_true_valid_head (c : Char) (rest : Str) (h : nameChar c = true) :
    sanitizeAux true (c :: rest) = sanitizeAux false (c :: rest) := by
  simp [sanitizeAux, h]

/-- a sanitised name without `_` is the name itself: no other key is mapped onto `id`, `class`, … -/
theorem sanitizeName_no_alias (k n : Str) (h : sanitizeName k = n) (hu : '_' ∉ n) : k = n := by
  unfold sanitizeName at h
  induction k generalizing n with
  | nil => simpa [sanitizeAux] using h
  | cons c k ih =>
    by_cases hc : nameChar c = true
    · simp only [sanitizeAux, hc, if_true] at h
      cases n with
      | nil => cases h
      | cons d n =>
        obtain ⟨rfl, h2⟩ := List.cons.inj h
        rw [ih n h2 (fun hm => hu (by simp [hm]))]
    · simp only [sanitizeAux, hc] at h
      simp at h
      rw [← h] at hu
      simp at hu

/-! ### attribute dicts -/

theorem getA_map_set (a : Attrs) (k v k' : Str) :
    getA (a.map (fun kv => if kv.1 = k then (k, v) else kv)) k' =
      if k' = k then (if a.any (fun kv => kv.1 = k) then some v else none) else getA a k' := by
  induction a with
  | nil => by_cases h : k' = k <;> simp [getA, h]
  | cons p a ih =>
    unfold getA at ih ⊢
    by_cases hp : p.1 = k
    · by_cases h : k' = k
      · subst h; simp [hp]
      · have : ¬ k = k' := fun e => h e.symm
        simp only [List.map_cons, hp, if_true, List.find?_cons, this, decide_false]
        simpa [h] using ih
    · by_cases hpk : p.1 = k'
      · have : ¬ k' = k := fun e => hp (hpk.trans e)
        simp [hpk, this]
      · simp only [List.map_cons, hp, if_false, List.find?_cons, hpk, decide_false, List.any_cons, Bool.false_or]
        exact ih

theorem getA_append_new (a : Attrs) (k v k' : Str) (hno : a.any (fun kv => kv.1 = k) = false) :
    getA (a ++ [(k, v)]) k' = if k' = k then some v else getA a k' := by
  induction a with
  | nil => by_cases h : k' = k <;> simp [getA, h, eq_comm]
  | cons p a ih =>
    simp only [List.any_cons, Bool.or_eq_false_iff, decide_eq_false_iff_not] at hno
    have ih' := ih hno.2
    unfold getA at ih' ⊢
    by_cases hpk : p.1 = k'
    · have : ¬ k' = k := fun e => hno.1 (hpk.trans e)
      simp [hpk, this]
    · simp only [List.cons_append, List.find?_cons, hpk, decide_false]
      exact ih'

theorem getA_setA (a : Attrs) (k v k' : Str) : getA (setA a k v) k' = if k' = k then some v else getA a k' := by
  unfold setA
  by_cases h : a.any (fun kv => kv.1 = k) = true
  · rw [if_pos h, getA_map_set, h]; rfl
  · rw [if_neg h, getA_append_new a k v k' (Bool.eq_false_iff.mpr h)]

/-! ### `assign_attrs` -/

theorem classKey_ne_dot : classKey ≠ ['.'] := by decide

theorem getA_assignStep_other (a : Attrs) (p : Str × Str) (n : Str) (hn : n ≠ classKey) :
    getA (assignStep a p) n = if p.1 ≠ ['.'] ∧ sanitizeName p.1 = n then some p.2 else getA a n := by
  unfold assignStep
  by_cases hd : p.1 = ['.']
  · rw [if_pos hd]
    have : ¬ (p.1 ≠ ['.'] ∧ sanitizeName p.1 = n) := fun h => h.1 hd
    rw [if_neg this]
    split <;> simp [getA_setA, hn]
  · rw [if_neg hd, getA_setA]
    by_cases hs : sanitizeName p.1 = n
    · simp [hs, hd]
    · have : ¬ n = sanitizeName p.1 := fun e => hs e.symm
      simp [hs, this]

theorem assignPairs_cons (a : Attrs) (p : Str × Str) (ps : List (Str × Str)) :
    assignPairs a (p :: ps) = assignPairs (assignStep a p) ps := rfl

theorem assignPairs_append (a : Attrs) (ps qs : List (Str × Str)) :
    assignPairs a (ps ++ qs) = assignPairs (assignPairs a ps) qs := by
  simp [assignPairs, List.foldl_append]

theorem getA_assignPairs_other (a : Attrs) (pairs : List (Str × Str)) (n : Str) (hn : n ≠ classKey) :
    getA (assignPairs a pairs) n = match lastSet n pairs with | some v => some v | none => getA a n := by
  induction pairs generalizing a with
  | nil => rfl
  | cons p ps ih =>
    rw [assignPairs_cons, ih, lastSet]
    cases lastSet n ps with
    | some v => rfl
    | none =>
      simp only [getA_assignStep_other a p n hn]
      split <;> rfl

theorem existingClass_of_getA {a b : Attrs} (h : getA a classKey = getA b classKey) :
    existingClass a = existingClass b := by
  unfold existingClass; rw [h]

theorem existingClass_some {a : Attrs} {c : Char} {cs : Str} (h : getA a classKey = some (c :: cs)) :
    existingClass a = [c :: cs] := by
  unfold existingClass; rw [h]

theorem existingClass_cases (a : Attrs) : existingClass a = [] ∨ ∃ c cs, existingClass a = [c :: cs] := by
  unfold existingClass
  cases getA a classKey with
  | none => exact Or.inl rfl
  | some c =>
    cases c with
    | nil => exact Or.inl rfl
    | cons c cs => exact Or.inr ⟨c, cs, rfl⟩

/-- the class after one `'.'` pair with a non-empty value -/
theorem getA_assignStep_dot (a : Attrs) (v : Str) :
    getA (assignStep a (['.'], v)) classKey = some (join [' '] (existingClass a ++ [v])) := by
  unfold assignStep existingClass
  simp only [if_true]
  cases h : getA a classKey with
  | none => simp [getA_setA, join]
  | some c =>
    cases c with
    | nil => simp [getA_setA, join]
    | cons c cs => simp [getA_setA, join]

theorem getA_assignStep_keep (a : Attrs) (p : Str × Str) (hd : p.1 ≠ ['.']) (hs : sanitizeName p.1 ≠ classKey) :
    getA (assignStep a p) classKey = getA a classKey := by
  unfold assignStep
  rw [if_neg hd, getA_setA]
  have : ¬ classKey = sanitizeName p.1 := fun e => hs e.symm
  simp [this]

theorem join_blank_cons (c v : Str) (ds : List Str) :
    join [' '] ((c ++ ' ' :: v) :: ds) = join [' '] (c :: v :: ds) := by
  cases ds with
  | nil => simp [join]
  | cons d ds => simp [join]

theorem getA_assignPairs_class (a : Attrs) (pairs : List (Str × Str))
    (hno : ∀ p ∈ pairs, p.1 ≠ ['.'] → sanitizeName p.1 ≠ classKey)
    (hne : ∀ p ∈ pairs, p.1 = ['.'] → p.2 ≠ []) :
    getA (assignPairs a pairs) classKey =
      match existingClass a ++ dots pairs with
      | [] => getA a classKey
      | l => some (join [' '] l) := by
  induction pairs generalizing a with
  | nil =>
    simp only [dots, List.filter_nil, List.map_nil, List.append_nil, assignPairs, List.foldl_nil]
    unfold existingClass
    cases h : getA a classKey with
    | none => rfl
    | some c => cases c <;> simp [join]
  | cons p ps ih =>
    have ih' := ih (assignStep a p) (fun q hq => hno q (by simp [hq])) (fun q hq => hne q (by simp [hq]))
    rw [assignPairs_cons, ih']
    by_cases hd : p.1 = ['.']
    · obtain ⟨k, v⟩ := p
      simp only at hd; subst hd
      have hv : v ≠ [] := hne (['.'], v) (by simp) rfl
      obtain ⟨x, xs, rfl⟩ : ∃ x xs, v = x :: xs := by
        cases v with
        | nil => exact absurd rfl hv
        | cons x xs => exact ⟨x, xs, rfl⟩
      have hstep := getA_assignStep_dot a (x :: xs)
      have hdots : dots ((['.'], x :: xs) :: ps) = (x :: xs) :: dots ps := by simp [dots]
      rw [hdots]
      rcases existingClass_cases a with hE | ⟨c, cs, hE⟩
      · rw [hE] at hstep ⊢
        have hex : existingClass (assignStep a (['.'], x :: xs)) = [x :: xs] :=
          existingClass_some (by simpa [join] using hstep)
        rw [hex]
        simp
      · rw [hE] at hstep ⊢
        have hj : join [' '] ([c :: cs] ++ [x :: xs]) = (c :: (cs ++ ' ' :: x :: xs)) := by simp [join]
        rw [hj] at hstep
        have hex : existingClass (assignStep a (['.'], x :: xs)) = [c :: (cs ++ ' ' :: x :: xs)] :=
          existingClass_some hstep
        rw [hex]
        have := join_blank_cons (c :: cs) (x :: xs) (dots ps)
        simp only [List.cons_append, List.nil_append] at this ⊢
        rw [this]
    · have hk := getA_assignStep_keep a p hd (hno p (by simp) hd)
      have hdots : dots (p :: ps) = dots ps := by simp [dots, hd]
      rw [existingClass_of_getA hk, hdots, hk]

/-! ### placement: what a match looks like -/

theorem dropWhile_blank_split (s : Str) :
    ∃ n, s = List.replicate n ' ' ++ s.dropWhile (· = ' ') := by
  induction s with
  | nil => exact ⟨0, rfl⟩
  | cons c s ih =>
    by_cases hc : c = ' '
    · obtain ⟨n, hn⟩ := ih
      refine ⟨n + 1, ?_⟩
      subst hc
      simp only [List.dropWhile, decide_true, List.replicate_succ, List.cons_append]
      rw [← hn]
    · exact ⟨0, by simp [List.dropWhile, hc]⟩

theorem lastBrace_sound (ok : Str → Bool) (s g rest : Str) (h : lastBrace ok s = some (g, rest)) :
    s = g ++ '}' :: rest ∧ '\n' ∉ g ∧ ok rest = true := by
  induction s generalizing g with
  | nil => simp [lastBrace] at h
  | cons c s ih =>
    unfold lastBrace at h
    by_cases hc : c = '\n'
    · simp [hc] at h
    · simp only [hc, if_false] at h
      cases hl : lastBrace ok s with
      | some p =>
        obtain ⟨g', r'⟩ := p
        simp only [hl, Option.some.injEq, Prod.mk.injEq] at h
        obtain ⟨rfl, rfl⟩ := h
        obtain ⟨h1, h2, h3⟩ := ih g' hl
        refine ⟨by rw [h1]; simp, ?_, h3⟩
        intro hm
        rcases List.mem_cons.mp hm with e | e
        · exact hc e.symm
        · exact h2 e
      | none =>
        simp only [hl] at h
        by_cases hb : (c = '}' && ok s) = true
        · simp only [hb, if_true, Option.some.injEq, Prod.mk.injEq] at h
          obtain ⟨rfl, rfl⟩ := h
          simp only [Bool.and_eq_true, decide_eq_true_eq] at hb
          exact ⟨by simp [hb.1], by simp, hb.2⟩
        · simp [hb] at h

theorem baseFrom_sound (ok : Str → Bool) (s g rest : Str) (h : baseFrom ok s = some (g, rest)) :
    ∃ n, s = List.replicate n ' ' ++ g ++ '}' :: rest ∧ GroupOk g ∧ ok rest = true := by
  obtain ⟨n, hn⟩ := dropWhile_blank_split s
  unfold baseFrom at h
  cases hd : s.dropWhile (· = ' ') with
  | nil => simp [hd] at h
  | cons c r =>
    simp only [hd] at h
    by_cases hc : (c = '}' || c = '\n' || c = ' ') = true
    · simp [hc] at h
    · simp only [hc] at h
      cases hl : lastBrace ok r with
      | none => simp [hl] at h
      | some p =>
        obtain ⟨g', r'⟩ := p
        obtain ⟨h1, h2, h3⟩ := lastBrace_sound ok r g' r' hl
        simp only [hl, Option.map_some] at h
        obtain ⟨rfl, rfl⟩ := h
        simp only [Bool.or_eq_true, decide_eq_true_eq, not_or] at hc
        refine ⟨n, ?_, ⟨by simp, ?_, ?_, ?_, ?_⟩, h3⟩
        · rw [hn, hd, h1]; simp
        · simp; exact hc.2
        · simp; exact hc.1.1
        · simp; exact hc.1.2
        · intro hm
          rcases List.mem_cons.mp hm with e | e
          · exact hc.1.2 e.symm
          · exact h2 e

theorem baseAt_sound (ok : Str → Bool) (s g rest : Str) (h : baseAt ok s = some (g, rest)) :
    ∃ colon n, s = opening colon n ++ g ++ '}' :: rest ∧ GroupOk g ∧ ok rest = true := by
  unfold baseAt at h
  split at h
  · next r =>
    cases hb : baseFrom ok r with
    | some p =>
      simp only [hb, Option.some.injEq] at h
      subst h
      obtain ⟨n, h1, h2, h3⟩ := baseFrom_sound ok r g rest hb
      exact ⟨true, n, by simp [opening, h1], h2, h3⟩
    | none =>
      simp only [hb] at h
      obtain ⟨n, h1, h2, h3⟩ := baseFrom_sound ok (':' :: r) g rest h
      exact ⟨false, n, by simp [opening, h1], h2, h3⟩
  · next r _ =>
    obtain ⟨n, h1, h2, h3⟩ := baseFrom_sound ok r g rest h
    exact ⟨false, n, by simp [opening, h1], h2, h3⟩
  · cases h

theorem endOk_sound (r : Str) (h : endOk r = true) : ∃ m tl, r = List.replicate m ' ' ++ tl ∧ AtEnd tl := by
  obtain ⟨m, hm⟩ := dropWhile_blank_split r
  unfold endOk at h
  split at h
  · next hd => exact ⟨m, [], by rw [hd] at hm; exact hm, Or.inl rfl⟩
  · next hd => exact ⟨m, ['\n'], by rw [hd] at hm; exact hm, Or.inr rfl⟩
  · cases h

theorem headerSearch_sound (s pre g : Str) (h : headerSearch s = some (pre, g)) :
    ∃ k colon n m tl, s = pre ++ List.replicate (k + 1) ' ' ++ opening colon n ++ g ++ '}' ::
        (List.replicate m ' ' ++ tl) ∧ AtEnd tl ∧ GroupOk g := by
  induction s generalizing pre with
  | nil => simp [headerSearch] at h
  | cons c s ih =>
    unfold headerSearch at h
    split at h
    · next p hp =>
      simp only [Option.some.injEq, Prod.mk.injEq] at h
      obtain ⟨rfl, rfl⟩ := h
      by_cases hc : c = ' '
      · simp only [hc, if_true] at hp
        obtain ⟨k, hk⟩ := dropWhile_blank_split s
        obtain ⟨colon, n, h1, h2, h3⟩ := baseAt_sound endOk _ p.1 p.2 hp
        obtain ⟨m, tl, h4, h5⟩ := endOk_sound p.2 h3
        refine ⟨k, colon, n, m, tl, ?_, h5, h2⟩
        rw [hc, hk, h1, h4]
        simp [List.replicate_succ]
      · simp [hc] at hp
    · cases hs : headerSearch s with
      | none => simp [hs] at h
      | some q =>
        simp only [hs, Option.map_some, Option.some.injEq, Prod.mk.injEq] at h
        obtain ⟨rfl, rfl⟩ := h
        obtain ⟨k, colon, n, m, tl, h1, h2, h3⟩ := ih q.1 hs
        exact ⟨k, colon, n, m, tl, by rw [h1]; simp, h2, h3⟩

theorem blockSearch_sound (s pre g : Str) (h : blockSearch s = some (pre, g)) :
    ∃ k colon n m tl, s = pre ++ '\n' :: List.replicate k ' ' ++ opening colon n ++ g ++ '}' ::
        (List.replicate m ' ' ++ tl) ∧ AtEnd tl ∧ GroupOk g := by
  induction s generalizing pre with
  | nil => simp [blockSearch] at h
  | cons c s ih =>
    unfold blockSearch at h
    split at h
    · next p hp =>
      simp only [Option.some.injEq, Prod.mk.injEq] at h
      obtain ⟨rfl, rfl⟩ := h
      by_cases hc : c = '\n'
      · simp only [hc, if_true] at hp
        obtain ⟨k, hk⟩ := dropWhile_blank_split s
        obtain ⟨colon, n, h1, h2, h3⟩ := baseAt_sound endOk _ p.1 p.2 hp
        obtain ⟨m, tl, h4, h5⟩ := endOk_sound p.2 h3
        refine ⟨k, colon, n, m, tl, ?_, h5, h2⟩
        rw [hc, hk, h1, h4]
        simp
      · simp [hc] at hp
    · cases hs : blockSearch s with
      | none => simp [hs] at h
      | some q =>
        simp only [hs, Option.map_some, Option.some.injEq, Prod.mk.injEq] at h
        obtain ⟨rfl, rfl⟩ := h
        obtain ⟨k, colon, n, m, tl, h1, h2, h3⟩ := ih q.1 hs
        exact ⟨k, colon, n, m, tl, by rw [h1]; simp, h2, h3⟩

/-! ### placement: the documented forms are matched -/

theorem lastBrace_none (ok : Str → Bool) (r : Str) (h : '}' ∉ r.takeWhile (· != '\n')) :
    lastBrace ok r = none := by
  induction r with
  | nil => rfl
  | cons c r ih =>
    unfold lastBrace
    by_cases hc : c = '\n'
    · simp [hc]
    · have hne : (c != '\n') = true := by simp [hc]
      simp only [List.takeWhile, hne] at h
      have hcb : c ≠ '}' := fun e => h (by simp [e])
      have := ih (fun hm => h (by simp [hm]))
      simp [hc, this, hcb]

theorem lastBrace_none_of_not_mem (ok : Str → Bool) (r : Str) (h : '}' ∉ r) : lastBrace ok r = none :=
  lastBrace_none ok r (fun hm => h ((List.takeWhile_sublist _).subset hm))

theorem lastBrace_complete (ok : Str → Bool) (g rest : Str) (hg : '\n' ∉ g) (hok : ok rest = true)
    (hlast : lastBrace ok rest = none) : lastBrace ok (g ++ '}' :: rest) = some (g, rest) := by
  induction g with
  | nil => simp [lastBrace, hlast, hok]
  | cons c g ih =>
    have hc : c ≠ '\n' := fun e => hg (by simp [e])
    have := ih (fun hm => hg (by simp [hm]))
    simp [lastBrace, hc, this]

theorem dropWhile_blank_replicate (n : Nat) (c : Char) (x : Str) (hc : c ≠ ' ') :
    (List.replicate n ' ' ++ c :: x).dropWhile (· = ' ') = c :: x := by
  induction n with
  | zero => simp [hc]
  | succ n ih => simp [List.replicate_succ, ih]

theorem not_mem_replicate_blank {c : Char} (hc : c ≠ ' ') (m : Nat) : c ∉ List.replicate m ' ' := by
  intro h; exact hc (List.eq_of_mem_replicate h)

theorem baseFrom_complete (ok : Str → Bool) (n m : Nat) (body rest : Str) (hb : BodyOk body)
    (hok : ok rest = true) (hlast : lastBrace ok rest = none) :
    baseFrom ok (List.replicate n ' ' ++ body ++ List.replicate m ' ' ++ '}' :: rest)
      = some (body ++ List.replicate m ' ', rest) := by
  obtain ⟨hne, h1, h2, h3, _, h5⟩ := hb
  cases body with
  | nil => exact absurd rfl hne
  | cons c b =>
    have hc1 : c ≠ ' ' := fun e => h1 (by simp [e])
    have hc2 : c ≠ '}' := fun e => h2 (by simp [e])
    have hc3 : c ≠ '\n' := fun e => h3 (by simp [e])
    unfold baseFrom
    have e : List.replicate n ' ' ++ c :: b ++ List.replicate m ' ' ++ '}' :: rest =
        List.replicate n ' ' ++ c :: (b ++ List.replicate m ' ' ++ '}' :: rest) := by simp
    rw [e, dropWhile_blank_replicate n c _ hc1]
    have hg : '\n' ∉ b ++ List.replicate m ' ' := by
      intro hm
      rcases List.mem_append.mp hm with hm | hm
      · exact h5 (by simp [hm])
      · exact not_mem_replicate_blank (by decide) m hm
    have hl := lastBrace_complete ok (b ++ List.replicate m ' ') rest hg hok hlast
    simp only [List.append_assoc] at hl
    simp [hc1, hc2, hc3, hl]

theorem baseAt_complete (ok : Str → Bool) (colon : Bool) (n m : Nat) (body rest : Str) (hb : BodyOk body)
    (hok : ok rest = true) (hlast : lastBrace ok rest = none) :
    baseAt ok (opening colon n ++ body ++ List.replicate m ' ' ++ '}' :: rest)
      = some (body ++ List.replicate m ' ', rest) := by
  have hf := baseFrom_complete ok n m body rest hb hok hlast
  cases colon with
  | true =>
    have e : opening true n ++ body ++ List.replicate m ' ' ++ '}' :: rest =
        '{' :: ':' :: (List.replicate n ' ' ++ body ++ List.replicate m ' ' ++ '}' :: rest) := by simp [opening]
    rw [e]
    simp only [baseAt, hf]
  | false =>
    have e : opening false n ++ body ++ List.replicate m ' ' ++ '}' :: rest =
        '{' :: (List.replicate n ' ' ++ body ++ List.replicate m ' ' ++ '}' :: rest) := by simp [opening]
    rw [e]
    have hhead : ∀ r, List.replicate n ' ' ++ body ++ List.replicate m ' ' ++ '}' :: rest ≠ ':' :: r := by
      intro r hr
      cases n with
      | zero =>
        obtain ⟨hne, _, _, _, h4, _⟩ := hb
        cases body with
        | nil => exact absurd rfl hne
        | cons c b =>
          simp at hr
          exact h4 (by simp [hr.1])
      | succ n => simp [List.replicate_succ] at hr
    generalize List.replicate n ' ' ++ body ++ List.replicate m ' ' ++ '}' :: rest = X at hf hhead
    unfold baseAt
    split
    · next r heq => cases heq; exact absurd rfl (hhead _)
    · next r _ heq => cases heq; exact hf
    · next h => exact absurd rfl (h _)

theorem endOk_complete (m : Nat) (tl : Str) (h : AtEnd tl) : endOk (List.replicate m ' ' ++ tl) = true := by
  unfold endOk
  rcases h with rfl | rfl
  · have : (List.replicate m ' ' ++ ([] : Str)).dropWhile (· = ' ') = [] := by
      induction m with
      | zero => rfl
      | succ m ih => simp [List.replicate_succ]
    rw [this]
  · rw [dropWhile_blank_replicate m '\n' [] (by decide)]; rfl

theorem atEnd_no_brace (m : Nat) (tl : Str) (h : AtEnd tl) : '}' ∉ List.replicate m ' ' ++ tl := by
  intro hm
  rcases List.mem_append.mp hm with hm | hm
  · exact not_mem_replicate_blank (by decide) m hm
  · rcases h with rfl | rfl <;> simp at hm

/-- the whole attribute list followed by blanks and the end of the text -/
theorem baseAt_endOk_complete (colon : Bool) (n m m2 : Nat) (body tl : Str) (hb : BodyOk body) (ht : AtEnd tl) :
    baseAt endOk (opening colon n ++ body ++ List.replicate m ' ' ++ '}' :: (List.replicate m2 ' ' ++ tl))
      = some (body ++ List.replicate m ' ', List.replicate m2 ' ' ++ tl) :=
  baseAt_complete endOk colon n m body _ hb (endOk_complete m2 tl ht)
    (lastBrace_none_of_not_mem _ _ (atEnd_no_brace m2 tl ht))

theorem baseAt_not_brace (ok : Str → Bool) (d : Char) (y : Str) (hd : d ≠ '{') : baseAt ok (d :: y) = none := by
  unfold baseAt
  split
  · next heq => cases heq; exact absurd rfl hd
  · next heq => cases heq; exact absurd rfl hd
  · rfl

theorem dropWhile_lands_block (t z : Str) (h : '{' ∉ t) :
    ∃ d y, (t ++ '\n' :: z).dropWhile (· = ' ') = d :: y ∧ d ≠ '{' := by
  induction t with
  | nil => exact ⟨'\n', z, by simp, by decide⟩
  | cons c t ih =>
    by_cases hc : c = ' '
    · obtain ⟨d, y, h1, h2⟩ := ih (fun hm => h (by simp [hm]))
      exact ⟨d, y, by simp [hc, h1], h2⟩
    · exact ⟨c, t ++ '\n' :: z, by simp [hc], fun e => h (by simp [e])⟩

theorem blockSearch_complete (text X g r : Str) (k : Nat) (ht : '{' ∉ text)
    (hX : baseAt endOk X = some (g, r)) (hbr : X.head? = some '{') :
    blockSearch (text ++ '\n' :: (List.replicate k ' ' ++ X)) = some (text, g) := by
  obtain ⟨x, rfl⟩ : ∃ x, X = '{' :: x := by
    cases X with
    | nil => simp at hbr
    | cons c x => simp at hbr; exact ⟨x, by rw [hbr]⟩
  induction text with
  | nil =>
    simp only [List.nil_append, blockSearch, if_true]
    rw [dropWhile_blank_replicate k '{' x (by decide), hX]
  | cons c t ih =>
    have iht := ih (fun hm => ht (by simp [hm]))
    simp only [List.cons_append, blockSearch]
    have hnone : (if c = '\n' then baseAt endOk ((t ++ '\n' :: (List.replicate k ' ' ++ '{' :: x)).dropWhile (· = ' '))
        else none) = none := by
      by_cases hc : c = '\n'
      · obtain ⟨d, y, h1, h2⟩ := dropWhile_lands_block t (List.replicate k ' ' ++ '{' :: x)
          (fun hm => ht (by simp [hm]))
        rw [if_pos hc, h1, baseAt_not_brace _ d y h2]
      · rw [if_neg hc]
    rw [hnone, iht]
    rfl

theorem dropWhile_lands_header (t z : Str) (hne : t ≠ []) (hl : t.getLast? ≠ some ' ') (h : '{' ∉ t) :
    ∃ d y, (t ++ z).dropWhile (· = ' ') = d :: y ∧ d ≠ '{' := by
  induction t with
  | nil => exact absurd rfl hne
  | cons c t ih =>
    by_cases hc : c = ' '
    · cases t with
      | nil => simp [hc] at hl
      | cons c2 t2 =>
        obtain ⟨d, y, h1, h2⟩ := ih (by simp) (by simpa [List.getLast?_cons_cons] using hl)
          (fun hm => h (by simp [hm]))
        refine ⟨d, y, ?_, h2⟩
        subst hc
        simp only [List.cons_append] at h1 ⊢
        rw [List.dropWhile_cons]
        simp only [decide_true, if_true]
        exact h1
    · exact ⟨c, t ++ z, by simp [hc], fun e => h (by simp [e])⟩

theorem headerSearch_complete (text X g r : Str) (k : Nat) (ht : '{' ∉ text) (hl : text.getLast? ≠ some ' ')
    (hX : baseAt endOk X = some (g, r)) (hbr : X.head? = some '{') :
    headerSearch (text ++ List.replicate (k + 1) ' ' ++ X) = some (text, g) := by
  obtain ⟨x, rfl⟩ : ∃ x, X = '{' :: x := by
    cases X with
    | nil => simp at hbr
    | cons c x => simp at hbr; exact ⟨x, by rw [hbr]⟩
  induction text with
  | nil =>
    simp only [List.nil_append, List.replicate_succ, List.cons_append, headerSearch, if_true]
    rw [dropWhile_blank_replicate k '{' x (by decide), hX]
  | cons c t ih =>
    have hl' : t.getLast? ≠ some ' ' := by
      cases t with
      | nil => simp
      | cons c2 t2 => simpa [List.getLast?_cons_cons] using hl
    have iht := ih (fun hm => ht (by simp [hm])) hl'
    simp only [List.cons_append, headerSearch]
    have hnone : (if c = ' ' then
        baseAt endOk ((t ++ List.replicate (k + 1) ' ' ++ '{' :: x).dropWhile (· = ' ')) else none) = none := by
      by_cases hc : c = ' '
      · have htne : t ≠ [] := by
          intro e; subst e; simp [hc] at hl
        obtain ⟨d, y, h1, h2⟩ := dropWhile_lands_header t (List.replicate (k + 1) ' ' ++ '{' :: x) htne hl'
          (fun hm => ht (by simp [hm]))
        have e : t ++ List.replicate (k + 1) ' ' ++ '{' :: x = t ++ (List.replicate (k + 1) ' ' ++ '{' :: x) := by
          simp
        rw [if_pos hc, e, h1, baseAt_not_brace _ d y h2]
      · rw [if_neg hc]
    rw [hnone]
    simp only [List.append_assoc] at iht ⊢
    rw [iht]
    rfl

/-- nothing but the key `id` itself sets the id -/
theorem lastSet_id (ps : List (Str × Str)) : lastSet ['i', 'd'] ps = lastValue ['i', 'd'] ps := by
  induction ps with
  | nil => rfl
  | cons p ps ih =>
    have hiff : (p.1 ≠ ['.'] ∧ sanitizeName p.1 = ['i', 'd']) ↔ p.1 = ['i', 'd'] := by
      constructor
      · intro h; exact sanitizeName_no_alias p.1 _ h.2 (by decide)
      · intro h; rw [h]; decide
    rw [lastSet, lastValue, ih]
    cases lastValue ['i', 'd'] ps with
    | some v => rfl
    | none =>
      by_cases hp : p.1 = ['i', 'd']
      · rw [if_pos (hiff.mpr hp), if_pos hp]
      · rw [if_neg (fun h => hp (hiff.mp h)), if_neg hp]

end MdVerif.AttrList
