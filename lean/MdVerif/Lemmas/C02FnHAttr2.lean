/-
Part 1 of `Lemmas/C02FnHAttr.lean` (see the header there): the counterexample, pieces that end at a cut position (`CutIn`),
the scanner (`scan_vals`), `assign_attrs` for a class of attribute items (`ValClass`), the placement patterns
(`blockApply_sok`, `blockApply_P`, `inlineApply_P`) and the attribute names (`KeysOk`).  Core Lean only.
-/
import MdVerif.Lemmas.C02BigAttr
import MdVerif.Lemmas.C02FnHPat
import MdVerif.Lemmas.C02FnNames

namespace MdVerif.C02FnHAttr
open Py AttrList AttrListTree TokH
open MdVerif.NoCtlX (lazyUntil_decomp splitEq_decomp lastBrace_decomp headerSearch_decomp blockSearch_decomp blockRule_eq
  tailRes textRes attrNode_eq attrBody selTail)
open MdVerif.C02BigNB (takeDrop patQuoted_split patKeyValue_split patWord_split splitEq_snd_suffix scanStep_pieces
  scan_pieces getAttrsAndRemainder_pieces baseAt_pieces)

/-! ### the counterexample to the statement with `NodeS` -/

/-- an inline element whose `class` value ends in a truncated token, followed by an attribute list -/
def cex : Node := ⟨.name "div".toList, [], none, false,
  [⟨.name "a".toList, [("class".toList, "\x024".toList)], some "x".toList, false, [], some "{: .foo }".toList, false⟩],
  none, false⟩

/-- `cex` satisfies `NodeS` everywhere; after the run the `class` value is `"\x024 foo"`, which is not `SOkA` -/
example : (cex.children.map (fun c => c.attrs.map (fun kv => SOkA kv.2)),
    (AttrListTree.run [] cex).children.map (fun c => c.attrs.map (fun kv => (kv.2, SOkA kv.2)))) =
    ([[true]], [[("\x024 foo".toList, false)]]) := by decide

/-! ### pieces that end at a cut position -/

/-- `v` is a piece of `s` that ends at the end of `s` or in front of a character which continues no token -/
def CutIn (v s : Str) : Prop := ∃ p z, s = p ++ v ++ z ∧ ∀ c, z.head? = some c → cutOk c = true

theorem CutIn.sok {v s : Str} (h : CutIn v s) (hs : SOk s = true) : SOk v = true := by
  obtain ⟨p, z, rfl, hz⟩ := h
  rw [List.append_assoc] at hs
  exact SOk_left (SOk_right hs) hz

theorem CutIn.of_suffix {v s : Str} (h : v <:+ s) : CutIn v s := by
  obtain ⟨p, rfl⟩ := h
  exact ⟨p, [], by simp, fun c hc => by cases hc⟩

theorem CutIn.in_suffix {v r s : Str} (h : CutIn v r) (hr : r <:+ s) : CutIn v s := by
  obtain ⟨p, z, rfl, hz⟩ := h
  obtain ⟨p', rfl⟩ := hr
  exact ⟨p' ++ p, z, by simp, hz⟩

/-- a suffix of a prefix `t` of `t ++ r`, where `r` is empty or starts with a cut character -/
theorem CutIn.suffix_of_prefix {v t r : Str} (hv : v <:+ t) (hr : ∀ c, r.head? = some c → cutOk c = true) :
    CutIn v (t ++ r) := by
  obtain ⟨p, rfl⟩ := hv
  exact ⟨p, r, rfl, hr⟩

theorem CutIn.nil (s : Str) : CutIn [] s := ⟨s, [], by simp, fun c hc => by cases hc⟩

theorem cutOk_of_not_word {c : Char} (h : wordChar c = false) : cutOk c = true := by
  have : c = ' ' ∨ c = '=' ∨ c = '}' := by
    simp only [wordChar, Bool.and_eq_false_iff, bne_eq_false_iff_eq] at h
    rcases h with (h | h) | h
    · exact .inl h
    · exact .inr (.inl h)
    · exact .inr (.inr h)
  rcases this with rfl | rfl | rfl <;> decide

theorem head_dropWhile_word (s : Str) : ∀ c, (s.dropWhile wordChar).head? = some c → cutOk c = true := by
  intro c hc
  have := List.head?_dropWhile_not wordChar s
  rw [hc] at this
  exact cutOk_of_not_word (by simpa using this)

/-! ### the scanner: every value ends at a cut position -/

theorem patKeyValue_cut {s t r : Str} (h : patKeyValue s = some (t, r)) : ∀ c, r.head? = some c → cutOk c = true := by
  unfold patKeyValue at h
  split at h
  · next k ks r' hk hd =>
    split at h
    · next v vs hv =>
      simp only [Option.some.injEq, Prod.mk.injEq] at h
      obtain ⟨-, rfl⟩ := h
      exact head_dropWhile_word _
    · cases h
  · cases h

theorem patWord_cut {s t r : Str} (h : patWord s = some (t, r)) : ∀ c, r.head? = some c → cutOk c = true := by
  unfold patWord at h
  split at h
  · next k ks hk =>
    simp only [Option.some.injEq, Prod.mk.injEq] at h
    obtain ⟨-, rfl⟩ := h
    exact head_dropWhile_word _
  · cases h

/-- the text matched by a quoted entry ends with the quote -/
theorem patQuoted_end {q : Char} {s t r : Str} (h : patQuoted q s = some (t, r)) : ∃ X, t = X ++ [q] := by
  unfold patQuoted at h
  split at h
  · next k ks q' r' hk hd =>
    split at h
    · next hqq =>
      simp only [Option.map_eq_some_iff] at h
      obtain ⟨⟨p, r''⟩, hl, he⟩ := h
      simp only [Prod.mk.injEq] at he
      exact ⟨_, he.1.symm⟩
    · cases h
  · cases h

theorem rstripP_snoc {p : Char → Bool} {q : Char} (hq : p q = true) (Y : Str) : rstripP p (Y ++ [q]) = rstripP p Y := by
  simp [rstripP, lstripP, hq]

/-- `v.strip(q)` of a suffix of a text that ends with `q`: the value ends in front of a `q` -/
theorem stripC_cut {q : Char} (hq : cutOk q = true) {u X : Str} (r : Str) (hu : u <:+ X ++ [q]) :
    CutIn (stripC q u) (X ++ [q] ++ r) := by
  have hw : lstripP (· = q) u <:+ X ++ [q] := (lstripP_suffix _ _).trans hu
  show CutIn (rstripP (· = q) (lstripP (· = q) u)) _
  generalize lstripP (· = q) u = w at hw
  rcases List.eq_nil_or_concat w with rfl | ⟨Y, b, rfl⟩
  · exact CutIn.nil _
  · obtain ⟨p', hp'⟩ := hw
    rw [List.concat_eq_append, ← List.append_assoc] at hp'
    obtain ⟨hX, hb⟩ := List.append_inj' hp' rfl
    simp only [List.cons.injEq, and_true] at hb
    subst hb
    rw [List.concat_eq_append, rstripP_snoc (by simp)]
    obtain ⟨b', hb', hall⟩ := rstripP_decomp (· = b) Y
    refine ⟨p', b' ++ b :: r, ?_, ?_⟩
    · rw [← hX]
      conv => lhs; rw [hb']
      simp
    · intro c hc
      cases b' with
      | nil =>
        simp only [List.nil_append, List.head?_cons, Option.some.injEq] at hc
        rw [← hc]; exact hq
      | cons d b'' =>
        simp only [List.cons_append, List.head?_cons, Option.some.injEq] at hc
        simp only [List.all_cons, Bool.and_eq_true, decide_eq_true_eq] at hall
        rw [← hc, hall.1]; exact hq

theorem handleWord_suffix (t : Str) : (handleWord t).2 <:+ t := by
  unfold handleWord
  split
  · exact List.suffix_cons _ _
  · exact List.suffix_cons _ _
  · exact List.suffix_refl _

/-- one match of the scanner: the value ends at the end of the string or in front of a cut character -/
theorem scanStep_vals {s r : Str} {tok : Option (Str × Str)} (h : scanStep s = some (tok, r)) :
    ∀ kv, tok = some kv → CutIn kv.2 s := by
  unfold scanStep at h
  split at h
  · next t r' hp =>
    simp only [Option.some.injEq, Prod.mk.injEq] at h
    obtain ⟨rfl, rfl⟩ := h
    have e := patQuoted_split hp
    obtain ⟨X, hX⟩ := patQuoted_end hp
    intro kv hkv
    cases hkv
    subst hX
    rw [e]
    exact stripC_cut (by decide) _ (splitEq_snd_suffix _)
  · split at h
    · next t r' hp =>
      simp only [Option.some.injEq, Prod.mk.injEq] at h
      obtain ⟨rfl, rfl⟩ := h
      have e := patQuoted_split hp
      obtain ⟨X, hX⟩ := patQuoted_end hp
      intro kv hkv
      cases hkv
      subst hX
      rw [e]
      exact stripC_cut (by decide) _ (splitEq_snd_suffix _)
    · split at h
      · next t r' hp =>
        simp only [Option.some.injEq, Prod.mk.injEq] at h
        obtain ⟨rfl, rfl⟩ := h
        have e := patKeyValue_split hp
        intro kv hkv
        cases hkv
        rw [e]
        exact CutIn.suffix_of_prefix (splitEq_snd_suffix t) (patKeyValue_cut hp)
      · split at h
        · next t r' hp =>
          simp only [Option.some.injEq, Prod.mk.injEq] at h
          obtain ⟨rfl, rfl⟩ := h
          have e := patWord_split hp
          intro kv hkv
          cases hkv
          rw [e]
          exact CutIn.suffix_of_prefix (handleWord_suffix t) (patWord_cut hp)
        · split at h
          · simp only [Option.some.injEq, Prod.mk.injEq] at h
            obtain ⟨rfl, rfl⟩ := h
            intro kv hkv
            cases hkv
          · cases h

theorem scan_vals : ∀ (fuel : Nat) (s : Str), ∀ kv ∈ (scan fuel s).1, CutIn kv.2 s
  | 0, s => by simp [scan]
  | fuel + 1, s => by
    simp only [scan]
    split
    · simp
    · next tok r hst =>
      intro kv hkv
      rcases List.mem_append.1 hkv with hkv | hkv
      · exact scanStep_vals hst kv (by simpa using hkv)
      · exact (scan_vals fuel r kv hkv).in_suffix (scanStep_pieces hst).2

/-- **`get_attrs_and_remainder` of a complete string**: every value is complete, and so is the remainder -/
theorem getAttrsAndRemainder_sok {s : Str} (hs : SOk s = true) :
    (∀ kv ∈ (getAttrsAndRemainder s).1, SOk kv.2 = true) ∧ SOk (getAttrsAndRemainder s).2 = true :=
  ⟨fun kv hkv => (scan_vals s.length s kv hkv).sok hs, SOk_suffix hs (getAttrsAndRemainder_pieces s).2.1⟩

/-! ### `assign_attrs` -/

/-- a class of attribute items that holds every item with a complete value and gives a complete `class` value -/
structure ValClass (P : Str × Str → Prop) : Prop where
  new : ∀ (k v : Str), SOk v = true → P (k, v)
  cls : ∀ kv, P kv → kv.1 = classKey → SOk kv.2 = true

theorem setA_forall {P : Str × Str → Prop} {a : Attrs} (ha : ∀ kv ∈ a, P kv) {k v : Str} (hv : P (k, v)) :
    ∀ kv ∈ setA a k v, P kv := by
  unfold setA
  split
  · intro kv hkv
    obtain ⟨kv', hm, rfl⟩ := List.mem_map.1 hkv
    split
    · exact hv
    · exact ha kv' hm
  · intro kv hkv
    rcases List.mem_append.1 hkv with hkv | hkv
    · exact ha kv hkv
    · simp only [List.mem_singleton] at hkv
      subst hkv; exact hv

theorem getA_mem {a : Attrs} {k v : Str} (h : getA a k = some v) : ∃ kv ∈ a, kv.1 = k ∧ kv.2 = v := by
  simp only [getA, Option.map_eq_some_iff] at h
  obtain ⟨kv, hf, rfl⟩ := h
  exact ⟨kv, List.mem_of_find?_eq_some hf, by simpa using List.find?_some hf, rfl⟩

theorem assignStep_P {P : Str × Str → Prop} (hP : ValClass P) {a : Attrs} (ha : ∀ kv ∈ a, P kv) {kv : Str × Str}
    (hv : SOk kv.2 = true) : ∀ x ∈ assignStep a kv, P x := by
  unfold assignStep
  split
  · split
    · next c cs hg =>
      obtain ⟨x, hx, h1, h2⟩ := getA_mem hg
      have hold : SOk (c :: cs) = true := h2 ▸ hP.cls x (ha x hx) h1
      refine setA_forall ha (hP.new _ _ (SOk_append hold ?_))
      rw [SOk_cons_ne (by decide)]; exact hv
    · exact setA_forall ha (hP.new _ _ hv)
  · exact setA_forall ha (hP.new _ _ hv)

theorem assignPairs_P {P : Str × Str → Prop} (hP : ValClass P) : ∀ (pairs : List (Str × Str)) {a : Attrs},
    (∀ kv ∈ a, P kv) → (∀ kv ∈ pairs, SOk kv.2 = true) → ∀ x ∈ assignPairs a pairs, P x
  | [], a, ha, _ => ha
  | kv :: r, a, ha, hp => by
    simp only [assignPairs, List.foldl_cons]
    exact assignPairs_P hP r (assignStep_P hP ha (hp kv List.mem_cons_self))
      (fun kv' h => hp kv' (List.mem_cons_of_mem _ h))

/-- **`assign_attrs` on a complete group**: the items stay in the class, the remainder is complete -/
theorem assignAttrs_P {P : Str × Str → Prop} (hP : ValClass P) {a : Attrs} (ha : ∀ kv ∈ a, P kv) {g : Str}
    (hg : SOk g = true) (strict : Bool) :
    (∀ x ∈ (assignAttrs a g strict).1, P x) ∧ SOk (assignAttrs a g strict).2 = true := by
  obtain ⟨w1, w2⟩ := getAttrsAndRemainder_sok hg
  unfold assignAttrs
  simp only
  split
  · exact ⟨ha, w2⟩
  · exact ⟨assignPairs_P hP _ ha w1, w2⟩

/-! ### placement -/

theorem baseFrom_cut {ok : Str → Bool} {s g r : Str} (h : baseFrom ok s = some (g, r)) : CutIn g s := by
  unfold baseFrom at h
  split at h
  · cases h
  · next c r0 hdw =>
    split at h
    · cases h
    · simp only [Option.map_eq_some_iff] at h
      obtain ⟨⟨g', r'⟩, hl, he⟩ := h
      simp only [Prod.mk.injEq] at he
      obtain ⟨rfl, rfl⟩ := he
      have hsuf : c :: r0 <:+ s := hdw ▸ List.dropWhile_suffix _
      rw [lastBrace_decomp hl] at hsuf
      refine CutIn.in_suffix ⟨[], '}' :: r', by simp, ?_⟩ hsuf
      intro x hx
      simp only [List.head?_cons, Option.some.injEq] at hx
      rw [← hx]; decide

/-- the group of `BASE_RE` ends in front of the closing brace -/
theorem baseAt_cut {ok : Str → Bool} {s g r : Str} (h : baseAt ok s = some (g, r)) : CutIn g s := by
  unfold baseAt at h
  split at h
  · next r0 =>
    split at h
    · next p hp =>
      simp only [Option.some.injEq] at h
      subst h
      exact (baseFrom_cut hp).in_suffix ⟨['{', ':'], rfl⟩
    · exact (baseFrom_cut h).in_suffix ⟨['{'], rfl⟩
  · exact (baseFrom_cut h).in_suffix ⟨['{'], rfl⟩
  · cases h

/-- `HEADER_RE.search` / `BLOCK_RE.search`: the text in front of the match ends in front of a blank / a line feed -/
theorem search_cut {header : Bool} {s pre g : Str}
    (h : (if header then headerSearch s else blockSearch s) = some (pre, g)) :
    (∃ c x, s = pre ++ c :: x ∧ cutOk c = true) ∧ CutIn g s := by
  cases header with
  | false =>
    obtain ⟨x, r, e, hb⟩ := blockSearch_decomp h
    refine ⟨⟨'\n', x, e, by decide⟩, ?_⟩
    have := (baseAt_cut hb).in_suffix (List.dropWhile_suffix _)
    rw [e]
    exact this.in_suffix ⟨pre ++ ['\n'], by simp⟩
  | true =>
    obtain ⟨x, r, e, hb⟩ := headerSearch_decomp h
    refine ⟨⟨' ', x, e, by decide⟩, ?_⟩
    have := (baseAt_cut hb).in_suffix (List.dropWhile_suffix _)
    rw [e]
    exact this.in_suffix ⟨pre ++ [' '], by simp⟩

theorem SOk_rstripC {q : Char} (hq : cutOk q = true) {s : Str} (h : SOk s = true) : SOk (rstripC q s) = true := by
  obtain ⟨w, hw, hall⟩ := rstripP_decomp (· = q) s
  rw [hw] at h
  refine SOk_left h ?_
  intro c hc
  cases w with
  | nil => cases hc
  | cons d w =>
    simp only [List.head?_cons, Option.some.injEq] at hc; subst hc
    simp only [List.all_cons, Bool.and_eq_true, decide_eq_true_eq] at hall
    rw [hall.1]; exact hq

/-- the block branch: the new text is complete -/
theorem blockApply_sok (header hashes : Bool) (a : Attrs) {text : Str} (ht : SOk text = true) :
    SOk (blockApply header hashes a text).2 = true := by
  unfold blockApply
  split
  · exact ht
  · next pre g hsrch =>
    obtain ⟨⟨c, x, e, hc⟩, -⟩ := search_cut hsrch
    have hpre : SOk pre = true := by
      rw [e] at ht
      exact SOk_left ht (fun d hd => by
        simp only [List.head?_cons, Option.some.injEq] at hd
        rw [← hd]; exact hc)
    simp only
    split
    · simp only
      split
      · exact SOk_rstrip (SOk_rstripC (by decide) hpre)
      · exact hpre
    · exact ht

theorem blockApply_P {P : Str × Str → Prop} (hP : ValClass P) (header hashes : Bool) {a : Attrs}
    (ha : ∀ kv ∈ a, P kv) {text : Str} (ht : SOk text = true) : ∀ x ∈ (blockApply header hashes a text).1, P x := by
  unfold blockApply
  split
  · exact ha
  · next pre g hsrch =>
    obtain ⟨-, w2⟩ := search_cut hsrch
    simp only
    split
    · exact (assignAttrs_P hP ha (w2.sok ht) true).1
    · exact ha

/-- the inline branch: the new tail is a suffix of the old one followed by a suffix of the group -/
theorem inlineApply_P {P : Str × Str → Prop} (hP : ValClass P) {a : Attrs} (ha : ∀ kv ∈ a, P kv) {tail : Str}
    (ht : SOk tail = true) : (∀ x ∈ (inlineApply a tail).1, P x) ∧ SOk (inlineApply a tail).2 = true := by
  unfold inlineApply
  split
  · exact ⟨ha, ht⟩
  · next g rest hm =>
    obtain ⟨v1, v2⟩ := assignAttrs_P hP ha ((baseAt_cut hm).sok ht) false
    exact ⟨v1, SOk_append (SOk_suffix ht (baseAt_pieces hm).2) v2⟩

/-! ### names: `id`, `class`, `sanitize_name(key)` hold no STX -/

theorem nameChar_stx : nameChar TreeProc.STX = false := by decide

theorem sanitizeAux_noSTX : ∀ (b : Bool) (s : Str), TreeProc.STX ∉ sanitizeAux b s
  | _, [] => by simp [sanitizeAux]
  | b, c :: s => by
    unfold sanitizeAux
    split
    · next hc =>
      intro hm
      rcases List.mem_cons.1 hm with e | hm
      · rw [← e, nameChar_stx] at hc; cases hc
      · exact sanitizeAux_noSTX false s hm
    · split
      · exact sanitizeAux_noSTX true s
      · intro hm
        rcases List.mem_cons.1 hm with e | hm
        · revert e; decide
        · exact sanitizeAux_noSTX true s hm

/-- `sanitize_name` writes no STX -/
theorem sanitizeName_noSTX (k : Str) : TreeProc.STX ∉ sanitizeName k := sanitizeAux_noSTX false k

/-- the attribute names hold no STX -/
def KeysOk (a : Attrs) : Prop := ∀ kv ∈ a, TreeProc.STX ∉ kv.1

theorem classKey_noSTX : TreeProc.STX ∉ classKey := by decide

theorem assignStep_keys {a : Attrs} (ha : KeysOk a) (kv : Str × Str) : KeysOk (assignStep a kv) := by
  unfold assignStep
  split
  · split
    · exact setA_forall (P := fun kv => TreeProc.STX ∉ kv.1) ha classKey_noSTX
    · exact setA_forall (P := fun kv => TreeProc.STX ∉ kv.1) ha classKey_noSTX
  · exact setA_forall (P := fun kv => TreeProc.STX ∉ kv.1) ha (sanitizeName_noSTX _)

theorem assignPairs_keys : ∀ (pairs : List (Str × Str)) {a : Attrs}, KeysOk a → KeysOk (assignPairs a pairs)
  | [], _, ha => ha
  | kv :: r, a, ha => by
    simp only [assignPairs, List.foldl_cons]
    exact assignPairs_keys r (assignStep_keys ha kv)

theorem assignAttrs_keys {a : Attrs} (ha : KeysOk a) (g : Str) (strict : Bool) : KeysOk (assignAttrs a g strict).1 := by
  unfold assignAttrs
  simp only
  split
  · exact ha
  · exact assignPairs_keys _ ha

theorem blockApply_keys (header hashes : Bool) {a : Attrs} (ha : KeysOk a) (text : Str) :
    KeysOk (blockApply header hashes a text).1 := by
  unfold blockApply
  split
  · exact ha
  · simp only
    split
    · exact assignAttrs_keys ha _ true
    · exact ha

theorem inlineApply_keys {a : Attrs} (ha : KeysOk a) (tail : Str) : KeysOk (inlineApply a tail).1 := by
  unfold inlineApply
  split
  · exact ha
  · exact assignAttrs_keys ha _ false

end MdVerif.C02FnHAttr
