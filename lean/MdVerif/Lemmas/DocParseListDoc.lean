/-
Helper lemmas for C01 on documents with lists (`Props/C01d.lean`), part 3: documents whose top-level blocks are flat
blocks, block quotes (of flat blocks and quotes) and tight lists nested to any depth — the shape of `print`, the block
stage of the whole document, the composition.  Core Lean only.
-/
import MdVerif.Lemmas.DocParseListLoose
import MdVerif.Spec.DocList

namespace MdVerif.DocParse
open Py Inline Escape Block

/-! ### quote trees as general trees -/

mutual
def QT.toGT : QT → GT
  | .leaf .hr => .el "hr".toList none []
  | .leaf (.txt tag t) => .el tag (some t) []
  | .bq ks => .el "blockquote".toList none (QT.toGTs ks)
def QT.toGTs : List QT → List GT
  | [] => []
  | t :: r => t.toGT :: QT.toGTs r
end

mutual
theorem toGT_src (esc : List Char) : (t : QT) → (t.toGT).src esc = t.src esc
  | .leaf .hr => rfl
  | .leaf (.txt tag t) => rfl
  | .bq ks => by
    rw [QT.toGT, GT.src, toGTs_srcs esc ks, QT.src]; rfl
theorem toGTs_srcs (esc : List Char) : (ts : List QT) → GT.srcs esc (QT.toGTs ts) = QT.srcs esc ts
  | [] => rfl
  | t :: r => by rw [QT.toGTs, GT.srcs, toGT_src esc t, toGTs_srcs esc r, QT.srcs]
end

theorem textTags_sub : ∀ tag ∈ textTags, gtTags.contains tag = true ∧ tag ≠ "hr".toList := by decide

mutual
theorem toGT_ok : (t : QT) → t.ok = true → (t.toGT).ok = true
  | .leaf .hr, _ => by decide
  | .leaf (.txt tag t), h => by
    simp only [QT.ok, Leaf.ok, Bool.and_eq_true] at h
    have := textTags_sub tag (List.contains_iff_mem.1 h.1)
    have h1 : tag ∈ gtTags := List.contains_iff_mem.1 this.1
    have h2 : ¬ tag = ['h', 'r'] := this.2
    simp [QT.toGT, GT.ok, h1, h.2, h2, GT.oks]
  | .bq ks, h => by
    simp only [QT.ok, Bool.and_eq_true] at h
    have hk := toGTs_oks ks h.2
    have h1 : ['b', 'l', 'o', 'c', 'k', 'q', 'u', 'o', 't', 'e'] ∈ gtTags := by decide
    rw [QT.toGT, GT.ok]
    simp [h1, hk]
theorem toGTs_oks : (ts : List QT) → QT.oks ts = true → GT.oks (QT.toGTs ts) = true
  | [], _ => rfl
  | t :: r, h => by
    simp only [QT.oks, Bool.and_eq_true] at h
    rw [QT.toGTs, GT.oks, toGT_ok t h.1, toGTs_oks r h.2]; rfl
end

theorem leaf_tag_ne_hr {tag : Str} (h : textTags.contains tag = true) : tag ≠ ['h', 'r'] :=
  (textTags_sub tag (List.contains_iff_mem.1 h)).2

mutual
theorem toGT_out : (t : QT) → t.ok = true → (t.toGT).out = t.out
  | .leaf .hr, _ => by decide
  | .leaf (.txt tag t), h => by
    simp only [QT.ok, Leaf.ok, Bool.and_eq_true] at h
    rw [QT.toGT, out_el, out_leaf]
    simp [leaf_tag_ne_hr h.1, midOut_lineText h.2, GT.outsNl, Leaf.out]
  | .bq ks, h => by
    simp only [QT.ok, Bool.and_eq_true, Bool.not_eq_true', List.isEmpty_eq_false_iff] at h
    have hk := toGTs_outs ks h.2
    have hne : QT.toGTs ks ≠ [] := by
      cases ks with
      | nil => exact absurd rfl h.1
      | cons a b => simp [QT.toGTs]
    have hemp : (QT.toGTs ks).isEmpty = false := by
      cases hx : QT.toGTs ks with
      | nil => exact absurd hx hne
      | cons a b => rfl
    rw [QT.toGT, out_el, out_bq, outsNl_eq, hk, flatMap_nl _ (outs_ne_nil ks h.1)]
    simp [midOut, hemp, List.append_assoc]
theorem toGTs_outs : (ts : List QT) → QT.oks ts = true → GT.outs (QT.toGTs ts) = QT.outs ts
  | [], _ => rfl
  | t :: r, h => by
    simp only [QT.oks, Bool.and_eq_true] at h
    rw [QT.toGTs, gouts_cons, toGT_out t h.1, toGTs_outs r h.2, outs_cons]
end

theorem toGT_isBq : (t : QT) → t.ok = true → (t.toGT).isBqG = t.isBq ∧ (t.toGT).isListG = false
  | .leaf .hr, _ => by decide
  | .leaf (.txt tag t), h => by
    simp only [QT.ok, Leaf.ok, Bool.and_eq_true] at h
    have hm := List.contains_iff_mem.1 h.1
    have : ∀ tag ∈ textTags, tag ≠ ['b', 'l', 'o', 'c', 'k', 'q', 'u', 'o', 't', 'e'] ∧ tag ≠ ['u', 'l'] ∧
        tag ≠ ['o', 'l'] := by decide
    have := this tag hm
    simp [QT.toGT, GT.isBqG, GT.isListG, GT.tag, QT.isBq, this]
  | .bq ks, _ => by
    rw [QT.toGT]
    simp [GT.isBqG, GT.isListG, GT.tag, QT.isBq]

/-! ### effects: from the bounded to the unbounded form; sequences -/

theorem runs_to_runsE {B : Nat} {st refs parent blocks res} (h : Runs B st refs parent blocks res) :
    RunsE st refs parent blocks res := by
  obtain ⟨f, _, hf⟩ := h
  exact ⟨f, hf⟩

theorem effX_of_effect {chunks : List Str} {n : Node} {c : Nat} (h : Effect chunks n c) : EffX chunks n := by
  intro st refs parent rest res hst hpok hr
  obtain ⟨f, hf⟩ := hr
  have hpar : ParentOK parent.last? n := by
    intro sib hs
    have := hpok.2 sib hs
    exact ⟨this.1, this.2.1⟩
  exact runs_to_runsE (h st refs parent rest res f hst hpar ⟨f, Nat.le_refl _, hf⟩)

/-- consecutive elements may follow one another -/
def AdjX : Option Node → List Node → Prop
  | _, [] => True
  | prev, n :: r =>
    (∀ sib, prev = some sib → preCode sib = none ∧ (n.isTag "blockquote" = true → sib.isTag "blockquote" = false) ∧
      (isListTag n = true → isListTag sib = false)) ∧ AdjX (some n) r

/-- the chunks append the elements `ns` in order -/
def EffLX (chunks : List Str) (ns : List Node) : Prop :=
  ∀ (st : List BState) (refs : Refs) (parent : Node) (rest : List Str) (res : Node × Refs),
    isstate st .list = false → isstate st .detabbed = false → isItemTag parent = false →
    isListTag parent = false → AdjX parent.last? ns →
    RunsE st refs { parent with children := parent.children ++ ns } rest res →
    RunsE st refs parent (chunks ++ rest) res

theorem effLX_nil : EffLX [] [] := by
  intro st refs parent rest res _ _ _ _ _ hr
  have e : ({ parent with children := parent.children ++ [] } : Node) = parent := by cases parent; simp
  rw [e] at hr
  simpa using hr

theorem effLX_cons {ch1 chs : List Str} {n1 : Node} {ns : List Node}
    (h1 : EffN ch1 n1) (h : EffLX chs ns) : EffLX (ch1 ++ chs) (n1 :: ns) := by
  intro st refs parent rest res hst hdt hpi hpl hadj hr
  have e : ({ parent with children := parent.children ++ n1 :: ns } : Node) =
      { parent.append n1 with children := (parent.append n1).children ++ ns } := by
    simp [Node.append, List.append_assoc]
  rw [e] at hr
  have hpl' : isListTag (parent.append n1) = false := by simpa [isListTag, Node.append, Node.isTag] using hpl
  have h2 := h st refs (parent.append n1) rest res hst hdt hpi hpl' (by rw [last_append]; exact hadj.2) hr
  have h3 := h1 st refs parent (chs ++ rest) res hst hdt hpi ⟨hpl, hadj.1⟩ h2
  rw [List.append_assoc]
  exact h3

/-- the printed form of one top-level block: its groups of lines and the tree it becomes -/
structure XKid where
  gs : List (List Str)
  t : GT

structure XKidOK (esc : List Char) (k : XKid) : Prop where
  ne : k.gs ≠ []
  good : ∀ g ∈ k.gs, GoodGroup g
  eff : EffN (k.gs.map joinLines) (k.t.src esc)
  ok : k.t.ok = true

def allGroupsX (ks : List XKid) : List (List Str) := ks.flatMap (·.gs)

theorem effLX_kids (esc : List Char) (ks : List XKid) (h : ∀ k ∈ ks, XKidOK esc k) :
    EffLX ((allGroupsX ks).map joinLines) (ks.map (fun k => k.t.src esc)) := by
  induction ks with
  | nil => exact effLX_nil
  | cons k r ih =>
    have := effLX_cons (h k List.mem_cons_self).eff (ih (fun x hx => h x (List.mem_cons_of_mem _ hx)))
    simpa [allGroupsX] using this

/-- a `Kid` of the quote development as an `XKid` -/
theorem xkid_of_kid (esc : List Char) (k : Kid) (h : KidOK esc k) : XKidOK esc ⟨k.gs, k.t.toGT⟩ :=
  ⟨h.ne, h.good, by rw [toGT_src]; exact effN_of_effX (effX_of_effect h.eff), toGT_ok k.t h.ok⟩

/-! ### the shape of `print` on tight lists -/

section printLists
open DocSpec

theorem printBlock_ulist (top : Bool) (loose : Bool) (items : List (List DocSpec.Block)) (st : PSt) :
    printBlock top (.ulist loose items) st =
      printItems loose (some (markerChar (draw st).1)) 0 0 items (draw st).2 := rfl
theorem printBlock_olist (top : Bool) (loose : Bool) (items : List (List DocSpec.Block)) (st : PSt) :
    printBlock top (.olist loose items) st =
      printItems loose none ((draw st).1 % 10) ((draw (draw st).2).1 % 3) items (draw (draw st).2).2 := rfl
theorem printItems_nil (loose : Bool) (marker : Option Char) (num step : Nat) (st : PSt) :
    printItems loose marker num step [] st = ([], st) := rfl
theorem printItems_cons (loose : Bool) (marker : Option Char) (num step : Nat) (item : List DocSpec.Block)
    (r : List (List DocSpec.Block)) (st : PSt) :
    printItems loose marker num step (item :: r) st =
      ((printItem loose (itemMarker marker num) item st).1 ++ (if loose && !r.isEmpty then [[]] else []) ++
        (printItems loose marker (num + step) step r (printItem loose (itemMarker marker num) item st).2).1,
       (printItems loose marker (num + step) step r (printItem loose (itemMarker marker num) item st).2).2) := rfl
theorem printItem_cons (loose : Bool) (m : Str) (b : DocSpec.Block) (bs : List DocSpec.Block) (st : PSt) :
    printItem loose m (b :: bs) st =
      (withMarker m (printBlock false b st).1 ++ (printRest loose bs (printBlock false b st).2).1,
       (printRest loose bs (printBlock false b st).2).2) := rfl
theorem printRest_nil (loose : Bool) (st : PSt) : printRest loose [] st = ([], st) := rfl
theorem printRest_cons (loose : Bool) (b : DocSpec.Block) (r : List DocSpec.Block) (st : PSt) :
    printRest loose (b :: r) st =
      ((if loose then [[]] else []) ++ prefixLines (rep 4 ' ') (printBlock false b st).1 ++
        (printRest loose r (printBlock false b st).2).1, (printRest loose r (printBlock false b st).2).2) := rfl
theorem specBlock_ulist (loose : Bool) (items : List (List DocSpec.Block)) :
    specBlock (.ulist loose items) = S "<ul>\n" ++ specItems loose items ++ S "\n</ul>" := rfl
theorem specBlock_olist (loose : Bool) (items : List (List DocSpec.Block)) :
    specBlock (.olist loose items) = S "<ol>\n" ++ specItems loose items ++ S "\n</ol>" := rfl
theorem specItems_one (bs : List DocSpec.Block) : specItems false [bs] = S "<li>" ++ specTight bs ++ S "</li>" := rfl
theorem specItems_cons2 (bs bs' : List DocSpec.Block) (r : List (List DocSpec.Block)) :
    specItems false (bs :: bs' :: r) =
      (S "<li>" ++ specTight bs ++ S "</li>") ++ S "\n" ++ specItems false (bs' :: r) := rfl
theorem specTight_nil : specTight [] = [] := rfl
theorem specTight_para (c : List Inline) (r : List DocSpec.Block) :
    specTight (.para c :: r) = specInlines c ++ specTight r := rfl
theorem specTight_ulist (l : Bool) (its : List (List DocSpec.Block)) (r : List DocSpec.Block) :
    specTight (.ulist l its :: r) = specBlock (.ulist l its) ++ S "\n" ++ specTight r := rfl
theorem specTight_olist (l : Bool) (its : List (List DocSpec.Block)) (r : List DocSpec.Block) :
    specTight (.olist l its :: r) = specBlock (.olist l its) ++ S "\n" ++ specTight r := rfl
theorem wfBlock_ulist (mode : Option Bool) (loose : Bool) (items : List (List DocSpec.Block)) :
    wfBlock mode (.ulist loose items) = ((mode = none || mode = some loose) && !items.isEmpty && wfItems loose items &&
      (!loose || items.length ≥ 2 || items.any (fun i => i.length ≥ 2))) := rfl
theorem wfBlock_olist (mode : Option Bool) (loose : Bool) (items : List (List DocSpec.Block)) :
    wfBlock mode (.olist loose items) = ((mode = none || mode = some loose) && !items.isEmpty && wfItems loose items &&
      (!loose || items.length ≥ 2 || items.any (fun i => i.length ≥ 2))) := rfl
theorem wfItems_one (b : DocSpec.Block) (r : List (List DocSpec.Block)) :
    wfItems false ([b] :: r) = (isPara b && okNexts [b] && wfBlock (some false) b && wfBlockList (some false) [] &&
      true && wfItems false r) := rfl
theorem wfItems_two (b l : DocSpec.Block) (r : List (List DocSpec.Block)) :
    wfItems false ([b, l] :: r) = (isPara b && okNexts [b, l] && wfBlock (some false) b &&
      wfBlockList (some false) [l] && isList l && wfItems false r) := rfl
theorem tightItems_cons (b : DocSpec.Block) (bs : List DocSpec.Block) (r : List (List DocSpec.Block)) :
    tightItems ((b :: bs) :: r) = (isPlainPara b && tightLists bs && decide (bs.length ≤ 1) && tightItems r) := rfl
theorem tightItems_nil_item (r : List (List DocSpec.Block)) : tightItems ([] :: r) = false := rfl
theorem isTightList_ulist (loose : Bool) (items : List (List DocSpec.Block)) :
    isTightList (.ulist loose items) = (!loose && tightItems items) := rfl
theorem isTightList_olist (loose : Bool) (items : List (List DocSpec.Block)) :
    isTightList (.olist loose items) = (!loose && tightItems items) := rfl
theorem tightLists_cons (b : DocSpec.Block) (r : List DocSpec.Block) :
    tightLists (b :: r) = (isTightList b && tightLists r) := rfl
theorem wfBlockList_one (mode : Option Bool) (l : DocSpec.Block) : wfBlockList mode [l] = (wfBlock mode l && true) := rfl
theorem wfBlock_para (mode : Option Bool) (c : List Inline) : wfBlock mode (.para c) = wfInlines false .none true c := rfl

theorem markerChar_cases (k : Nat) : markerChar k = '*' ∨ markerChar k = '+' ∨ markerChar k = '-' := by
  unfold markerChar; split
  · exact Or.inl rfl
  · split
    · exact Or.inr (Or.inl rfl)
    · exact Or.inr (Or.inr rfl)

theorem isMarker_itemMarker (marker : Option Char) (hmk : ∀ c, marker = some c → c = '*' ∨ c = '+' ∨ c = '-')
    (num : Nat) : IsMarker marker.isNone (itemMarker marker num) := by
  cases marker with
  | none => exact ⟨num, rfl⟩
  | some c => exact ⟨c, hmk c rfl, rfl⟩

theorem specItems_eq_join (items : List (List DocSpec.Block)) :
    specItems false items = join ['\n'] (items.map (fun bs => S "<li>" ++ specTight bs ++ S "</li>")) := by
  induction items with
  | nil => rfl
  | cons bs r ih =>
    cases r with
    | nil => rw [specItems_one]; rfl
    | cons bs' r' => rw [specItems_cons2, ih]; simp [S]

theorem goodLine_indented (x : Str) (h : GoodLine x) : GoodLine (spaces 4 ++ x) := by
  obtain ⟨c, hc, hcs⟩ := h.2.2.2.2
  have hs := lineSafe_facts h.2.1
  have hcsp : c ≠ ' ' := by intro e; subst e; exact absurd hcs (by decide)
  have hmem : c ∈ spaces 4 ++ x := List.mem_append_right _ hc
  have hsafe := safe_of_plain (spaces 4 ++ x)
    (by intro y hy; rcases List.mem_append.1 hy with hy | hy
        · rw [List.eq_of_mem_replicate hy]; exact ⟨by decide, by decide⟩
        · have h1 := hs.2.1 y hy
          refine ⟨?_, fun e => hs.1 (e ▸ hy)⟩
          simp only [isPlainChar, Bool.and_eq_true, bne_iff_ne, ne_eq]
          exact ⟨⟨⟨⟨⟨fun e => h.2.2.1 (e ▸ hy), fun e => h.2.2.2.1 (e ▸ hy)⟩, h1.1⟩, h1.2.1⟩, h1.2.2.2⟩, h1.2.2.1⟩)
    ⟨c, hmem, hcsp⟩
  exact goodLine_of_safe hsafe ⟨c, hmem, hcs⟩

theorem prefix4_lines (ls : List Str) (h : ∀ l ∈ ls, l ≠ []) :
    prefixLines (rep 4 ' ') ls = ls.map (spaces 4 ++ ·) := by
  simp only [prefixLines]
  apply List.map_congr_left
  intro l hl
  have : l.isEmpty = false := by
    cases hx : l with
    | nil => exact absurd hx (h l hl)
    | cons a b => rfl
  simp [this, rep, spaces]

/-- what `spec` writes for an item of a tight list -/
def liSpec (bs : List DocSpec.Block) : Str := S "<li>" ++ specTight bs ++ S "</li>"

theorem li_mem : "li".toList ∈ gtTags := by decide
theorem ul_mem (o : Bool) : (if o then "ol".toList else "ul".toList) ∈ gtTags := by cases o <;> decide

theorem listTree_ok (o : Bool) (items : List LItem) (h : GT.oks (items.map LItem.tree) = true) :
    (listTree o items).ok = true := by
  have h1 : ['o', 'l'] ∈ gtTags := by decide
  have h2 : ['u', 'l'] ∈ gtTags := by decide
  cases o <;> simp [listTree, GT.ok, h1, h2, h]

theorem listTree_out (o : Bool) (items : List LItem) (hne : items ≠ []) :
    (listTree o items).out =
      '<' :: (if o then "ol".toList else "ul".toList) ++ ['>', '\n'] ++
        join ['\n'] (GT.outs (items.map LItem.tree)) ++ ['\n'] ++
        ('<' :: '/' :: (if o then "ol".toList else "ul".toList) ++ ['>']) := by
  have hemp : (items.map LItem.tree).isEmpty = false := by
    cases items with
    | nil => exact absurd rfl hne
    | cons a b => rfl
  rw [listTree, out_el, outsNl_eq, flatMap_nl _ (gouts_ne_nil _ (by simpa using hne))]
  cases o <;> simp [midOut, hemp, List.append_assoc]

theorem liSpec_fun : (fun bs => S "<li>" ++ specTight bs ++ S "</li>") = liSpec := rfl

mutual
theorem printList_t : (l : DocSpec.Block) → (top : Bool) → (mode : Option Bool) → (st : PSt) →
    isTightList l = true → wfBlock mode l = true →
    ∃ (o : Bool) (items : List LItem) (st' : PSt),
      printBlock top l st = (listLines Generated.escapedChars items, st') ∧ st'.defs = st.defs ∧ items ≠ [] ∧
      (∀ it ∈ items, LItemOK Generated.escapedChars o it) ∧
      (∀ x ∈ listLines Generated.escapedChars items, GoodLine x) ∧
      (listTree o items).ok = true ∧ (listTree o items).out = specBlock l
  | .ulist loose items, top, mode, st, hq, hw => by
    rw [isTightList_ulist] at hq
    rw [wfBlock_ulist] at hw
    simp only [Bool.and_eq_true, Bool.not_eq_true', List.isEmpty_eq_false_iff] at hq hw
    obtain ⟨hl, hti⟩ := hq
    subst hl
    obtain ⟨⟨⟨_, hne⟩, hwi⟩, _⟩ := hw
    obtain ⟨litems, st', hp, hd, hlne, hoks, hgood, htok, houts⟩ :=
      printItems_t items (some (markerChar (draw st).1)) (by intro c hc; cases hc; exact markerChar_cases _) 0 0
        (draw st).2 hti hwi
    have hlne' := hlne hne
    refine ⟨false, litems, st', by rw [printBlock_ulist, hp], by rw [hd, draw_defs], hlne', hoks, hgood,
      listTree_ok false litems htok, ?_⟩
    rw [listTree_out false litems hlne', houts, specBlock_ulist, specItems_eq_join, liSpec_fun]
    simp [S, List.append_assoc]
  | .olist loose items, top, mode, st, hq, hw => by
    rw [isTightList_olist] at hq
    rw [wfBlock_olist] at hw
    simp only [Bool.and_eq_true, Bool.not_eq_true', List.isEmpty_eq_false_iff] at hq hw
    obtain ⟨hl, hti⟩ := hq
    subst hl
    obtain ⟨⟨⟨_, hne⟩, hwi⟩, _⟩ := hw
    obtain ⟨litems, st', hp, hd, hlne, hoks, hgood, htok, houts⟩ :=
      printItems_t items none (by intro c hc; cases hc) ((draw st).1 % 10) ((draw (draw st).2).1 % 3)
        (draw (draw st).2).2 hti hwi
    have hlne' := hlne hne
    refine ⟨true, litems, st', by rw [printBlock_olist, hp], by rw [hd, draw_defs, draw_defs], hlne', hoks, hgood,
      listTree_ok true litems htok, ?_⟩
    rw [listTree_out true litems hlne', houts, specBlock_olist, specItems_eq_join, liSpec_fun]
    simp [S, List.append_assoc]
  | .para _, _, _, _, hq, _ => by simp [isTightList] at hq
  | .atx _ _, _, _, _, hq, _ => by simp [isTightList] at hq
  | .setext _ _, _, _, _, hq, _ => by simp [isTightList] at hq
  | .rule, _, _, _, hq, _ => by simp [isTightList] at hq
  | .code _, _, _, _, hq, _ => by simp [isTightList] at hq
  | .quote _, _, _, _, hq, _ => by simp [isTightList] at hq
theorem printItems_t : (items : List (List DocSpec.Block)) → (marker : Option Char) →
    (∀ c, marker = some c → c = '*' ∨ c = '+' ∨ c = '-') → (num step : Nat) → (st : PSt) →
    tightItems items = true → wfItems false items = true →
    ∃ (litems : List LItem) (st' : PSt),
      printItems false marker num step items st = (listLines Generated.escapedChars litems, st') ∧
      st'.defs = st.defs ∧ (items ≠ [] → litems ≠ []) ∧
      (∀ it ∈ litems, LItemOK Generated.escapedChars marker.isNone it) ∧
      (∀ x ∈ listLines Generated.escapedChars litems, GoodLine x) ∧
      GT.oks (litems.map LItem.tree) = true ∧ GT.outs (litems.map LItem.tree) = items.map liSpec
  | [], marker, _, num, step, st, _, _ =>
    ⟨[], st, rfl, rfl, fun h => absurd rfl h, (fun it hit => by cases hit), (fun x hx => by cases hx), rfl, rfl⟩
  | item :: r, marker, hmk, num, step, st, hq, hw => by
    have hm := isMarker_itemMarker marker hmk num
    obtain ⟨hqi, hqr, hwi, hwr⟩ : (∃ b bs, item = b :: bs ∧ isPlainPara b = true ∧ tightLists bs = true ∧
        bs.length ≤ 1 ∧ wfBlock (some false) b = true ∧ wfBlockList (some false) bs = true) ∧
        tightItems r = true ∧ True ∧ wfItems false r = true := by
      cases item with
      | nil => rw [tightItems_nil_item] at hq; cases hq
      | cons b bs =>
        rw [tightItems_cons] at hq
        simp only [Bool.and_eq_true, decide_eq_true_eq] at hq
        cases bs with
        | nil =>
          rw [wfItems_one] at hw
          simp only [Bool.and_eq_true] at hw
          exact ⟨⟨b, [], rfl, hq.1.1.1, rfl, by simp, hw.1.1.1.2, rfl⟩, hq.2, trivial, hw.2⟩
        | cons l bs' =>
          cases bs' with
          | nil =>
            rw [wfItems_two] at hw
            simp only [Bool.and_eq_true] at hw
            exact ⟨⟨b, [l], rfl, hq.1.1.1, hq.1.1.2, by simp, hw.1.1.1.2, hw.1.1.2⟩, hq.2, trivial, hw.2⟩
          | cons x y => simp at hq
    obtain ⟨b, bs, rfl, h1, h2, h3, h4, h5⟩ := hqi
    obtain ⟨it, st1, hp1, hd1, hok1, hgood1, htok1, hout1⟩ :=
      printItem_t bs b (itemMarker marker num) marker.isNone hm st h1 h2 h3 h4 h5
    obtain ⟨litems, st2, hp2, hd2, _, hoks2, hgood2, htoks2, houts2⟩ :=
      printItems_t r marker hmk (num + step) step st1 hqr hwr
    refine ⟨it :: litems, st2, ?_, by rw [hd2, hd1], fun _ => by simp, ?_, ?_, ?_, ?_⟩
    · rw [printItems_cons, hp1]
      simp only [hp2, Bool.false_and, Bool.false_eq_true, if_false, List.append_nil]
      simp [listLines]
    · intro x hx
      rcases List.mem_cons.1 hx with rfl | hx
      · exact hok1
      · exact hoks2 x hx
    · intro x hx
      simp only [listLines, List.flatMap_cons, List.mem_append] at hx
      rcases hx with hx | hx
      · exact hgood1 x hx
      · exact hgood2 x hx
    · simp [GT.oks, htok1, htoks2]
    · simp only [List.map_cons, gouts_cons, hout1, houts2]
theorem printItem_t : (bs : List DocSpec.Block) → (b : DocSpec.Block) → (m : Str) → (o : Bool) → IsMarker o m →
    (st : PSt) → isPlainPara b = true → tightLists bs = true → bs.length ≤ 1 →
    wfBlock (some false) b = true → wfBlockList (some false) bs = true →
    ∃ (it : LItem) (st' : PSt),
      printItem false m (b :: bs) st = (it.lines Generated.escapedChars, st') ∧ st'.defs = st.defs ∧
      LItemOK Generated.escapedChars o it ∧ (∀ x ∈ it.lines Generated.escapedChars, GoodLine x) ∧
      it.tree.ok = true ∧ it.tree.out = liSpec (b :: bs)
  | [], b, m, o, hm, st, h1, _, _, h4, _ => by
    have hE := escOK_generated
    cases b with
    | para c =>
      simp only [isPlainPara] at h1
      rw [wfBlock_para] at h4
      have hlt := lineText_plainOf c true h1 h4
      refine ⟨⟨m, plainOf c, [], []⟩, (draw st).2, ?_, draw_defs st,
        ⟨⟨hm, hlt, Or.inl rfl, by intro l hl; cases hl⟩, Or.inl ⟨rfl, rfl⟩⟩, ?_, ?_, ?_⟩
      · rw [printItem_cons, printBlock_para', printContent_plain c true h1 h4, indentTop_single, printRest_nil]
        rfl
      · intro x hx
        have : x = m ++ escAll Generated.escapedChars (plainOf c) := by simpa [LItem.lines] using hx
        subst this
        exact goodLine_marker hE hm _ hlt
      · have hli : ['l', 'i'] ∈ gtTags := by decide
        rw [LItem.tree, GT.ok]
        simp [hli, hlt, GT.oks]
      · have hhr : ¬ ("li".toList = ['h', 'r']) := by decide
        rw [LItem.tree, out_el, liSpec, specTight_para, specTight_nil, specContent c true h1 h4]
        simp [midOut_lineText hlt, GT.outsNl, S]
    | atx _ _ => simp [isPlainPara] at h1
    | setext _ _ => simp [isPlainPara] at h1
    | rule => simp [isPlainPara] at h1
    | code _ => simp [isPlainPara] at h1
    | quote _ => simp [isPlainPara] at h1
    | ulist _ _ => simp [isPlainPara] at h1
    | olist _ _ => simp [isPlainPara] at h1
  | [l], b, m, o, hm, st, h1, h2, _, h4, h5 => by
    have hE := escOK_generated
    rw [tightLists_cons] at h2
    rw [wfBlockList_one] at h5
    simp only [Bool.and_eq_true, Bool.and_true] at h2 h5
    cases b with
    | para c =>
      simp only [isPlainPara] at h1
      rw [wfBlock_para] at h4
      have hlt := lineText_plainOf c true h1 h4
      obtain ⟨o', items', st2, hp2, hd2, hne2, hoks2, hgood2, htok2, hout2⟩ :=
        printList_t l false (some false) (draw st).2 h2.1 h5
      -- the nested list starts with a marker
      have hms : MarkerStart (listLines Generated.escapedChars items') := by
        obtain ⟨it0, r0, rfl⟩ : ∃ it0 r0, items' = it0 :: r0 := by
          cases items' with
          | nil => exact absurd rfl hne2
          | cons a b => exact ⟨a, b, rfl⟩
        have h0 := (hoks2 it0 List.mem_cons_self).shape
        exact ⟨o', it0.m, escAll Generated.escapedChars it0.t,
          it0.sub.map (spaces 4 ++ ·) ++ listLines Generated.escapedChars r0, by simp [listLines, LItem.lines],
          h0.marker, (escText_facts hE h0.text).1⟩
      have hnl : ∀ x ∈ listLines Generated.escapedChars items', '\n' ∉ x :=
        fun x hx => (lineSafe_facts (hgood2 x hx).2.1).1
      refine ⟨⟨m, plainOf c, listLines Generated.escapedChars items', [listTree o' items']⟩, st2, ?_,
        by rw [hd2, draw_defs],
        ⟨⟨hm, hlt, Or.inr hms, hnl⟩, Or.inr ⟨_, rfl, hms, effX_list hE o' items' hne2 hoks2⟩⟩, ?_, ?_, ?_⟩
      · rw [printItem_cons, printBlock_para', printContent_plain c true h1 h4, indentTop_single, printRest_cons,
          hp2, printRest_nil, prefix4_lines _ (fun x hx => (hgood2 x hx).1)]
        simp [LItem.lines, withMarker, spaces]
      · intro x hx
        simp only [LItem.lines, List.mem_cons, List.mem_map] at hx
        rcases hx with rfl | ⟨y, hy, rfl⟩
        · exact goodLine_marker hE hm _ hlt
        · exact goodLine_indented y (hgood2 y hy)
      · have hli : ['l', 'i'] ∈ gtTags := by decide
        rw [LItem.tree, GT.ok]
        simp [hli, hlt, GT.oks, htok2]
      · have hhr : ¬ ("li".toList = ['h', 'r']) := by decide
        have hspecT : specTight [l] = specBlock l ++ S "\n" := by
          cases l with
          | ulist lo its => rw [specTight_ulist, specTight_nil]; simp
          | olist lo its => rw [specTight_olist, specTight_nil]; simp
          | para _ => simp [isTightList] at h2
          | atx _ _ => simp [isTightList] at h2
          | setext _ _ => simp [isTightList] at h2
          | rule => simp [isTightList] at h2
          | code _ => simp [isTightList] at h2
          | quote _ => simp [isTightList] at h2
        rw [LItem.tree, out_el, liSpec, specTight_para, hspecT, specContent c true h1 h4, ← hout2]
        simp [midOut_lineText hlt, GT.outsNl, S, List.append_assoc]
    | atx _ _ => simp [isPlainPara] at h1
    | setext _ _ => simp [isPlainPara] at h1
    | rule => simp [isPlainPara] at h1
    | code _ => simp [isPlainPara] at h1
    | quote _ => simp [isPlainPara] at h1
    | ulist _ _ => simp [isPlainPara] at h1
    | olist _ _ => simp [isPlainPara] at h1
  | _ :: _ :: _, _, _, _, _, _, _, _, h3, _, _ => by simp at h3
end

end printLists

/-! ### the shape of `print` on loose lists -/

section printLoose
open DocSpec

/-- one more level of indentation -/
def shift (g : List Str) : List Str := g.map (spaces 4 ++ ·)

theorem spaces_succ4 (k : Nat) : spaces (4 * (k + 1)) = spaces 4 ++ spaces (4 * k) := by
  simp [spaces, Nat.mul_succ, List.replicate_succ]

theorem ind_succ (k : Nat) (g : List Str) : ind (k + 1) g = shift (ind k g) := by
  simp only [ind, shift, List.map_map]
  apply List.map_congr_left
  intro l _
  simp [spaces_succ4, List.append_assoc]

mutual
theorem groups_succ (esc : List Char) : (b : LL) → ∀ k, b.groups esc (k + 1) = (b.groups esc k).map shift
  | .x g t, k => by rw [groups_x, groups_x, ind_succ]; rfl
  | .l o items, k => by rw [groups_l, groups_l, groupsL_succ esc items k]
  | .it m t rest, k => by rw [groups_it, groups_it, ind_succ, groupsL_succ esc rest (k + 1)]; rfl
theorem groupsL_succ (esc : List Char) : (bs : List LL) → ∀ k, LL.groupsL esc (k + 1) bs = (LL.groupsL esc k bs).map shift
  | [], k => by rw [groupsL_nil, groupsL_nil]; rfl
  | b :: r, k => by rw [groupsL_cons, groupsL_cons, groups_succ esc b k, groupsL_succ esc r k, List.map_append]
end

theorem prefixLines_append (p : Str) (a b : List Str) : prefixLines p (a ++ b) = prefixLines p a ++ prefixLines p b := by
  simp [prefixLines]

theorem prefix4_flat (gs : List (List Str)) (h : ∀ g ∈ gs, ∀ l ∈ g, l ≠ []) :
    prefixLines (rep 4 ' ') (flatLines gs) = flatLines (gs.map shift) := by
  induction gs with
  | nil => rfl
  | cons g r ih =>
    cases r with
    | nil => exact prefix4_lines g (h g List.mem_cons_self)
    | cons g' r' =>
      rw [flatLines_cons2, prefixLines_append, prefixLines_append, ih (fun x hx => h x (List.mem_cons_of_mem _ hx)),
        prefix4_lines g (h g List.mem_cons_self)]
      rfl

theorem goodLine_spaces4 (k : Nat) (x : Str) (h : GoodLine x) : GoodLine (spaces (4 * k) ++ x) := by
  induction k with
  | zero => simpa [spaces] using h
  | succ k ih =>
    have : spaces (4 * (k + 1)) ++ x = spaces 4 ++ (spaces (4 * k) ++ x) := by
      rw [spaces_succ4, List.append_assoc]
    rw [this]; exact goodLine_indented _ ih

theorem goodGroup_ind (k : Nat) (g : List Str) (h : GoodGroup g) : GoodGroup (ind k g) := by
  refine ⟨by simpa [ind] using h.1, ?_⟩
  intro l hl
  obtain ⟨x, hx, rfl⟩ := List.mem_map.1 hl
  exact goodLine_spaces4 k x (h.2 x hx)

mutual
theorem groups_goodB {esc : List Char} (hE : EscOK esc) : (b : LL) → OkB esc b → ∀ k,
    b.groups esc k ≠ [] ∧ ∀ g ∈ b.groups esc k, GoodGroup g
  | .x g t, h, k => by
    cases h with
    | x hg _ _ _ _ =>
      rw [groups_x]
      exact ⟨by simp, by intro g' hg'; simp only [List.mem_singleton] at hg'; subst hg'; exact goodGroup_ind k g hg⟩
  | .l o items, h, k => by
    cases h with
    | l hi hf =>
      rw [groups_l]
      refine ⟨?_, groupsL_goodI hE items o hi k⟩
      match items, hi, hf with
      | i :: is, hi, _ =>
        cases hi with
        | cons h1 _ =>
          rw [groupsL_cons]
          intro e
          exact (groups_goodI hE i o h1 k).1 (List.append_eq_nil_iff.1 e).1
  | .it _ _ _, h, _ => by cases h
theorem groupsL_goodB {esc : List Char} (hE : EscOK esc) : (bs : List LL) → OkBs esc bs → ∀ k,
    ∀ g ∈ LL.groupsL esc k bs, GoodGroup g
  | [], _, k => by rw [groupsL_nil]; intro g hg; cases hg
  | b :: r, h, k => by
    cases h with
    | cons hb hr =>
      rw [groupsL_cons]
      intro g hg
      rcases List.mem_append.1 hg with hg | hg
      · exact (groups_goodB hE b hb k).2 g hg
      · exact groupsL_goodB hE r hr k g hg
theorem groups_goodI {esc : List Char} (hE : EscOK esc) : (i : LL) → (o : Bool) → OkI esc o i → ∀ k,
    i.groups esc k ≠ [] ∧ ∀ g ∈ i.groups esc k, GoodGroup g
  | .it m t rest, o, h, k => by
    cases h with
    | it hm ht hrest _ =>
      rw [groups_it]
      refine ⟨by simp, ?_⟩
      intro g hg
      rcases List.mem_cons.1 hg with rfl | hg
      · exact goodGroup_ind k _ ⟨by simp, by
          intro l hl; simp only [List.mem_singleton] at hl; subst hl; exact goodLine_marker hE hm t ht⟩
      · exact groupsL_goodB hE rest hrest (k + 1) g hg
  | .x _ _, _, h, _ => by cases h
  | .l _ _, _, h, _ => by cases h
theorem groupsL_goodI {esc : List Char} (hE : EscOK esc) : (is : List LL) → (o : Bool) → OkIs esc o is → ∀ k,
    ∀ g ∈ LL.groupsL esc k is, GoodGroup g
  | [], _, _, k => by rw [groupsL_nil]; intro g hg; cases hg
  | i :: r, o, h, k => by
    cases h with
    | cons hi hr =>
      rw [groupsL_cons]
      intro g hg
      rcases List.mem_append.1 hg with hg | hg
      · exact (groups_goodI hE i o hi k).2 g hg
      · exact groupsL_goodI hE r o hr k g hg
end

theorem groupsL_ne_nilB {esc : List Char} (hE : EscOK esc) (bs : List LL) (h : OkBs esc bs) (hne : bs ≠ []) (k : Nat) :
    LL.groupsL esc k bs ≠ [] := by
  cases h with
  | nil => exact absurd rfl hne
  | cons hb _ =>
    rw [groupsL_cons]
    intro e
    exact (groups_goodB hE _ hb k).1 (List.append_eq_nil_iff.1 e).1

theorem groupsL_ne_nilI {esc : List Char} (hE : EscOK esc) (is : List LL) (o : Bool) (h : OkIs esc o is)
    (hne : is ≠ []) (k : Nat) : LL.groupsL esc k is ≠ [] := by
  cases h with
  | nil => exact absurd rfl hne
  | cons hi _ =>
    rw [groupsL_cons]
    intro e
    exact (groups_goodI hE _ o hi k).1 (List.append_eq_nil_iff.1 e).1

/-! #### a flat block as a further block of an item -/

theorem ruleChar_ne_space (k : Nat) : ruleChar k ≠ ' ' := by
  unfold ruleChar
  split
  · decide
  · split <;> decide

theorem ruleLine_head (ch n g t : Nat) : (ruleLine true 0 ch n g t).head? = some (ruleChar ch) := by
  have e : 3 + n % 3 = (n % 3 + 2) + 1 := by omega
  simp only [ruleLine, rep, Nat.zero_mod, if_true, List.replicate_zero, List.nil_append]
  rw [e, rulePattern]
  all_goals first | rfl | (intro h; omega)

/-- a flat block printed below the top level: one group of lines that does not start with a space -/
theorem printBlock_leafX (b : DocSpec.Block) (st : PSt) (hf : isFlatBlock b = true) (hw : wfBlock none b = true) :
    ∃ (g : List Str) (l : Leaf) (st' : PSt), printBlock false b st = (g, st') ∧ st'.defs = st.defs ∧
      KidOK Generated.escapedChars ⟨[g], .leaf l, 1⟩ ∧ (∀ x, g.head? = some x → x.head? ≠ some ' ') ∧
      l.out = specBlock b := by
  have hE := escOK_generated
  cases b with
  | rule =>
    refine ⟨[ruleLine true 0 (draw (draw st).2).1 (draw (draw (draw st).2).2).1
        (draw (draw (draw (draw st).2).2).2).1 (draw (draw (draw (draw (draw st).2).2).2).2).1], .hr,
      (draw (draw (draw (draw (draw st).2).2).2).2).2, ?_, by simp [draw_defs], kidOK_rule _ _ _ _ _ _, ?_, rfl⟩
    · rw [printBlock_rule', ruleLine_top]; rfl
    · intro x hx
      simp only [List.head?_cons, Option.some.injEq] at hx
      subst hx
      rw [ruleLine_head]
      simpa using ruleChar_ne_space _
  | para c =>
    simp only [isFlatBlock] at hf
    simp only [wfBlock] at hw
    have hlt := lineText_plainOf c true hf hw
    refine ⟨[spaces 0 ++ escAll Generated.escapedChars (plainOf c)], .txt "p".toList (plainOf c), (draw st).2, ?_,
      draw_defs st, kidOK_para hE 0 (by omega) _ hlt, ?_, ?_⟩
    · rw [printBlock_para', printContent_plain c true hf hw, indentTop_single]; rfl
    · intro x hx
      simp only [List.head?_cons, Option.some.injEq] at hx
      subst hx
      simpa [spaces] using (escText_facts hE hlt).1
    · rw [specBlock_para, specContent c true hf hw]
      simp [Leaf.out, S]
  | atx l c =>
    simp only [isFlatBlock] at hf
    simp only [wfBlock, Bool.and_eq_true, decide_eq_true_eq] at hw
    have hlt := lineText_plainOf c false hf hw.2
    have hY : atxClosing (draw st).1 l = [] ∨ ∃ m, atxClosing (draw st).1 l = ' ' :: List.replicate m '#' := by
      unfold atxClosing
      split
      · exact Or.inl rfl
      · split
        · exact Or.inr ⟨1, rfl⟩
        · exact Or.inr ⟨l, rfl⟩
    refine ⟨[List.replicate l '#' ++ ' ' :: (escAll Generated.escapedChars (plainOf c) ++ atxClosing (draw st).1 l)],
      .txt ('h' :: natToDec l) (plainOf c), (draw st).2, ?_, draw_defs st,
      kidOK_atx hE _ hlt l hw.1.1 hw.1.2 _ hY, ?_, ?_⟩
    · rw [printBlock_atx', printContent_plain c false hf hw.2]
      simp [atxLine, join, rep, List.append_assoc]
    · intro x hx
      simp only [List.head?_cons, Option.some.injEq] at hx
      subst hx
      obtain ⟨n, hn⟩ : ∃ n, l = n + 1 := ⟨l - 1, by omega⟩
      rw [hn, List.replicate_succ]
      simp
    · rw [specBlock_atx, specContent c false hf hw.2]
      simp [Leaf.out, S, List.append_assoc]
  | setext l c =>
    simp only [isFlatBlock] at hf
    simp only [wfBlock, Bool.and_eq_true, Bool.or_eq_true, decide_eq_true_eq] at hw
    have hlt := lineText_plainOf c false hf hw.2
    refine ⟨[spaces 0 ++ escAll Generated.escapedChars (plainOf c),
        List.replicate ((draw (draw st).2).1 % 8 + 1) (if l = 1 then '=' else '-')],
      .txt ('h' :: natToDec l) (plainOf c), (draw (draw st).2).2, ?_, by simp [draw_defs],
      kidOK_setext hE 0 (by omega) _ hlt l _ hw.1, ?_, ?_⟩
    · rw [printBlock_setext', printContent_plain c false hf hw.2, indentTop_single]; rfl
    · intro x hx
      simp only [List.head?_cons, Option.some.injEq] at hx
      subst hx
      simpa [spaces] using (escText_facts hE hlt).1
    · rw [specBlock_setext, specContent c false hf hw.2]
      simp [Leaf.out, S, List.append_assoc]
  | code _ => simp [isFlatBlock] at hf
  | quote _ => simp [isFlatBlock] at hf
  | ulist _ _ => simp [isFlatBlock] at hf
  | olist _ _ => simp [isFlatBlock] at hf

theorem wfBlock_flat_mode (b : DocSpec.Block) (hf : isFlatBlock b = true) (mode : Option Bool)
    (hw : wfBlock mode b = true) : wfBlock none b = true := by
  cases b <;> first | exact hw | simp [isFlatBlock] at hf

/-! #### `spec` and the trees of loose lists -/

/-- what `spec` writes for an item of a loose list -/
def liLoose (bs : List DocSpec.Block) : Str := S "<li>\n" ++ specBlocks bs ++ S "\n</li>"

/-- the number of blocks of an item -/
def itemLen : LL → Nat
  | .it _ _ rest => rest.length + 1
  | _ => 0

theorem specItems_loose_one (bs : List DocSpec.Block) : specItems true [bs] = liLoose bs := rfl
theorem specItems_loose_cons2 (bs bs' : List DocSpec.Block) (r : List (List DocSpec.Block)) :
    specItems true (bs :: bs' :: r) = liLoose bs ++ S "\n" ++ specItems true (bs' :: r) := rfl

theorem specItemsLoose_eq_join (items : List (List DocSpec.Block)) :
    specItems true items = join ['\n'] (items.map liLoose) := by
  induction items with
  | nil => rfl
  | cons bs r ih =>
    cases r with
    | nil => rw [specItems_loose_one]; rfl
    | cons bs' r' => rw [specItems_loose_cons2, ih]; simp [S]

theorem wfItems_loose_cons (b : DocSpec.Block) (bs : List DocSpec.Block) (r : List (List DocSpec.Block)) :
    wfItems true ((b :: bs) :: r) = (isPara b && okNexts (b :: bs) && wfBlock (some true) b &&
      wfBlockList (some true) bs && (match bs with | c :: _ => !isCode c | [] => true) && wfItems true r) := rfl
theorem looseItems_cons (b : DocSpec.Block) (bs : List DocSpec.Block) (r : List (List DocSpec.Block)) :
    looseItems ((b :: bs) :: r) = (isPlainPara b && looseBlocks bs && looseItems r) := rfl
theorem looseItems_nil_item (r : List (List DocSpec.Block)) : looseItems ([] :: r) = false := rfl
theorem looseBlocks_cons (b : DocSpec.Block) (r : List DocSpec.Block) :
    looseBlocks (b :: r) = ((isFlatBlock b || isLooseList b) && looseBlocks r) := rfl
theorem isLooseList_ulist (loose : Bool) (items : List (List DocSpec.Block)) :
    isLooseList (.ulist loose items) = (loose && looseItems items) := rfl
theorem isLooseList_olist (loose : Bool) (items : List (List DocSpec.Block)) :
    isLooseList (.olist loose items) = (loose && looseItems items) := rfl

theorem out_it (first : Bool) (m t : Str) (rest : List LL) (ht : lineText t = true) :
    ((LL.it m t rest).tree first).out =
      S "<li>\n" ++ join ['\n'] ((S "<p>" ++ Ser.escCdata t ++ S "</p>") :: GT.outs (LL.trees rest)) ++ S "\n</li>" := by
  have hhr : ¬ ("li".toList = ['h', 'r']) := by decide
  have hhp : ¬ ("p".toList = ['h', 'r']) := by decide
  rw [tree_it, out_el, outsNl_eq, flatMap_nl _ (gouts_ne_nil _ (by simp)), gouts_cons, out_el]
  have m1 : midOut (some []) false = ['\n'] := rfl
  have m2 : midOut none false = ['\n'] := rfl
  cases first <;> simp [m1, m2, midOut_lineText ht, GT.outsNl, S, List.append_assoc]

theorem out_l (o : Bool) (is : List LL) (hne : is ≠ []) :
    ((LL.l o is).tree false).out =
      '<' :: (if o then "ol".toList else "ul".toList) ++ ['>', '\n'] ++
        join ['\n'] (GT.outs (LL.treeItems true is)) ++ ['\n'] ++
        ('<' :: '/' :: (if o then "ol".toList else "ul".toList) ++ ['>']) := by
  have hne' : LL.treeItems true is ≠ [] := by
    cases is with
    | nil => exact absurd rfl hne
    | cons a b => rw [treeItems_cons]; simp
  have hemp : (LL.treeItems true is).isEmpty = false := by
    cases hx : LL.treeItems true is with
    | nil => exact absurd hx hne'
    | cons a b => rfl
  rw [tree_l, out_el, outsNl_eq, flatMap_nl _ (gouts_ne_nil _ hne')]
  cases o <;> simp [midOut, hemp, List.append_assoc]

/-- no two lists next to each other, as `WF` requires of the blocks of an item -/
theorem adjOK_of_okNexts (rest : List LL) : ∀ (bs : List DocSpec.Block) (prev : DocSpec.Block) (pb pl : Bool),
    rest.map LL.isList = bs.map isList → (∀ x ∈ rest, x.isBq = false) → pl = isList prev →
    okNexts (prev :: bs) = true → adjOK pb pl rest = true := by
  induction rest with
  | nil => intros; rfl
  | cons x r ih =>
    intro bs prev pb pl hl hb hpl hn
    cases bs with
    | nil => simp at hl
    | cons b bs' =>
      simp only [List.map_cons, List.cons.injEq] at hl
      simp only [okNexts, okNext, Bool.and_eq_true, Bool.not_eq_true'] at hn
      have hxb := hb x List.mem_cons_self
      have := ih bs' b x.isBq x.isList hl.2 (fun y hy => hb y (List.mem_cons_of_mem _ hy)) hl.1 hn.2
      rw [hxb, hl.1] at this
      have h1 : (isList prev && isList b) = false := hn.1.1.1
      simp only [adjOK, hxb, Bool.and_false, Bool.not_false, this, Bool.and_true, hpl, hl.1, h1]

theorem firstOK_of_wf {esc : List Char} {o : Bool} (is : List LL) (items : List (List DocSpec.Block))
    (hok : OkIs esc o is) (hlen : is.map itemLen = items.map List.length) (hne : items ≠ [])
    (hw : (decide (items.length ≥ 2) || items.any (fun i => decide (i.length ≥ 2))) = true) :
    LL.firstOK is = true := by
  cases hok with
  | nil =>
    cases items with
    | nil => exact absurd rfl hne
    | cons a b => simp at hlen
  | cons hi his =>
    cases hi with
    | it hm ht hrest hadj =>
      rename_i r m t rest
      cases items with
      | nil => exact absurd rfl hne
      | cons it its =>
        simp only [List.map_cons, List.cons.injEq, itemLen] at hlen
        simp only [LL.firstOK, Bool.or_eq_true, Bool.not_eq_true', List.isEmpty_eq_false_iff]
        cases r with
        | cons a b => exact Or.inr (by simp)
        | nil =>
          left
          cases its with
          | cons a b => simp at hlen
          | nil =>
            simp only [List.length_singleton, List.any_cons, List.any_nil, Bool.or_false, Bool.or_eq_true,
              decide_eq_true_eq] at hw
            rcases hw with hw | hw
            · omega
            · intro e; rw [e] at hlen; simp at hlen; omega

/-! #### every printed form of a loose list -/

theorem flatLines_cons_groups (x : Str) (G : List (List Str)) :
    flatLines ([x] :: G) = x :: (if G.isEmpty then [] else [] :: flatLines G) := by
  cases G with
  | nil => rfl
  | cons g r => rw [flatLines_cons2]; rfl

mutual
theorem printLoose_t : (l : DocSpec.Block) → (top : Bool) → (mode : Option Bool) → (st : PSt) →
    isLooseList l = true → wfBlock mode l = true →
    ∃ (o : Bool) (is : List LL) (st' : PSt),
      printBlock top l st = (flatLines (LL.groupsL Generated.escapedChars 0 is), st') ∧ st'.defs = st.defs ∧
      OkB Generated.escapedChars (.l o is) ∧ ((LL.l o is).tree false).out = specBlock l
  | .ulist loose items, top, mode, st, hq, hw => by
    rw [isLooseList_ulist] at hq
    rw [wfBlock_ulist] at hw
    simp only [Bool.and_eq_true, Bool.not_eq_true', List.isEmpty_eq_false_iff] at hq hw
    obtain ⟨hl, hli⟩ := hq
    subst hl
    obtain ⟨⟨⟨_, hne⟩, hwi⟩, hcount⟩ := hw
    obtain ⟨is, st', hp, hd, hoks, hlen, houts⟩ :=
      printLooseItems_t items (some (markerChar (draw st).1)) (by intro c hc; cases hc; exact markerChar_cases _) 0 0
        (draw st).2 hli hwi
    have hisne : is ≠ [] := by
      intro e; rw [e] at hlen
      cases items with
      | nil => exact hne rfl
      | cons a b => simp at hlen
    have hf := firstOK_of_wf is items hoks hlen hne (by simpa using hcount)
    refine ⟨false, is, st', by rw [printBlock_ulist, hp], by rw [hd, draw_defs], .l hoks hf, ?_⟩
    rw [out_l false is hisne, houts true, specBlock_ulist, specItemsLoose_eq_join]
    simp [S, List.append_assoc]
  | .olist loose items, top, mode, st, hq, hw => by
    rw [isLooseList_olist] at hq
    rw [wfBlock_olist] at hw
    simp only [Bool.and_eq_true, Bool.not_eq_true', List.isEmpty_eq_false_iff] at hq hw
    obtain ⟨hl, hli⟩ := hq
    subst hl
    obtain ⟨⟨⟨_, hne⟩, hwi⟩, hcount⟩ := hw
    obtain ⟨is, st', hp, hd, hoks, hlen, houts⟩ :=
      printLooseItems_t items none (by intro c hc; cases hc) ((draw st).1 % 10) ((draw (draw st).2).1 % 3)
        (draw (draw st).2).2 hli hwi
    have hisne : is ≠ [] := by
      intro e; rw [e] at hlen
      cases items with
      | nil => exact hne rfl
      | cons a b => simp at hlen
    have hf := firstOK_of_wf is items hoks hlen hne (by simpa using hcount)
    refine ⟨true, is, st', by rw [printBlock_olist, hp], by rw [hd, draw_defs, draw_defs], .l hoks hf, ?_⟩
    rw [out_l true is hisne, houts true, specBlock_olist, specItemsLoose_eq_join]
    simp [S, List.append_assoc]
  | .para _, _, _, _, hq, _ => by simp [isLooseList] at hq
  | .atx _ _, _, _, _, hq, _ => by simp [isLooseList] at hq
  | .setext _ _, _, _, _, hq, _ => by simp [isLooseList] at hq
  | .rule, _, _, _, hq, _ => by simp [isLooseList] at hq
  | .code _, _, _, _, hq, _ => by simp [isLooseList] at hq
  | .quote _, _, _, _, hq, _ => by simp [isLooseList] at hq
theorem printLooseItems_t : (items : List (List DocSpec.Block)) → (marker : Option Char) →
    (∀ c, marker = some c → c = '*' ∨ c = '+' ∨ c = '-') → (num step : Nat) → (st : PSt) →
    looseItems items = true → wfItems true items = true →
    ∃ (is : List LL) (st' : PSt),
      printItems true marker num step items st = (flatLines (LL.groupsL Generated.escapedChars 0 is), st') ∧
      st'.defs = st.defs ∧ OkIs Generated.escapedChars marker.isNone is ∧
      is.map itemLen = items.map List.length ∧
      (∀ first, GT.outs (LL.treeItems first is) = items.map liLoose)
  | [], marker, _, num, step, st, _, _ =>
    ⟨[], st, by rw [printItems_nil, groupsL_nil]; rfl, rfl, .nil, rfl, fun first => by rw [treeItems_nil]; rfl⟩
  | [] :: r, _, _, _, _, _, hq, _ => by rw [looseItems_nil_item] at hq; cases hq
  | (b :: bs) :: r, marker, hmk, num, step, st, hq, hw => by
    have hE := escOK_generated
    have hm := isMarker_itemMarker marker hmk num
    rw [looseItems_cons] at hq
    rw [wfItems_loose_cons] at hw
    simp only [Bool.and_eq_true] at hq hw
    obtain ⟨⟨h1, h2⟩, hqr⟩ := hq
    obtain ⟨⟨⟨⟨⟨_, h6⟩, h4⟩, h5⟩, _⟩, hwr⟩ := hw
    obtain ⟨t, rest, st1, hp1, hd1, hok1, hlen1, hout1⟩ :=
      printLooseItem_t bs b (itemMarker marker num) marker.isNone hm st h1 h2 h4 h5 h6
    obtain ⟨is, st2, hp2, hd2, hoks2, hlen2, houts2⟩ :=
      printLooseItems_t r marker hmk (num + step) step st1 hqr hwr
    refine ⟨.it (itemMarker marker num) t rest :: is, st2, ?_, by rw [hd2, hd1], .cons hok1 hoks2,
      by simp [itemLen, hlen1, hlen2], ?_⟩
    · rw [printItems_cons, hp1]
      simp only [hp2, Bool.true_and]
      rw [groupsL_cons]
      cases r with
      | nil =>
        have : is = [] := by
          cases is with
          | nil => rfl
          | cons a b => simp at hlen2
        subst this
        simp [groupsL_nil, flatLines]
      | cons it' r' =>
        have hisne : is ≠ [] := by intro e; rw [e] at hlen2; simp at hlen2
        rw [flatLines_append _ _ (groups_goodI hE _ _ hok1 0).1 (groupsL_ne_nilI hE is _ hoks2 hisne 0)]
        simp
    · intro first
      rw [treeItems_cons, gouts_cons, hout1 first, houts2 false]
      rfl
theorem printLooseItem_t : (bs : List DocSpec.Block) → (b : DocSpec.Block) → (m : Str) → (o : Bool) → IsMarker o m →
    (st : PSt) → isPlainPara b = true → looseBlocks bs = true →
    wfBlock (some true) b = true → wfBlockList (some true) bs = true → okNexts (b :: bs) = true →
    ∃ (t : Str) (rest : List LL) (st' : PSt),
      printItem true m (b :: bs) st = (flatLines ((LL.it m t rest).groups Generated.escapedChars 0), st') ∧
      st'.defs = st.defs ∧ OkI Generated.escapedChars o (.it m t rest) ∧ rest.length = bs.length ∧
      (∀ first, ((LL.it m t rest).tree first).out = liLoose (b :: bs))
  | bs, .para c, m, o, hm, st, h1, h2, h4, h5, h6 => by
    have hE := escOK_generated
    simp only [isPlainPara] at h1
    rw [wfBlock_para] at h4
    have hlt := lineText_plainOf c true h1 h4
    obtain ⟨rest, st2, hp2, hd2, hoks2, hlen2, hlist2, hbq2, houts2⟩ := printLooseRest_t bs (draw st).2 h2 h5
    have hadj : adjOK false false rest = true :=
      adjOK_of_okNexts rest bs (.para c) false false hlist2 hbq2 rfl h6
    refine ⟨plainOf c, rest, st2, ?_, by rw [hd2, draw_defs], .it hm hlt hoks2 hadj, hlen2, ?_⟩
    · rw [printItem_cons, printBlock_para', printContent_plain c true h1 h4, indentTop_single, hp2, groups_it,
        ind_zero, flatLines_cons_groups]
      have hemp : (LL.groupsL Generated.escapedChars (0 + 1) rest).isEmpty = bs.isEmpty := by
        cases bs with
        | nil =>
          have : rest = [] := by cases rest with | nil => rfl | cons a b => simp at hlen2
          subst this; rw [groupsL_nil]; rfl
        | cons b' r' =>
          have hrne : rest ≠ [] := by intro e; rw [e] at hlen2; simp at hlen2
          have := groupsL_ne_nilB hE rest hoks2 hrne (0 + 1)
          cases hx : LL.groupsL Generated.escapedChars (0 + 1) rest with
          | nil => exact absurd hx this
          | cons a b => rfl
      simp [withMarker, spaces, hemp]
    · intro first
      rw [out_it first m (plainOf c) rest hlt, houts2, liLoose, specBlocks_eq_join, List.map_cons, specBlock_para,
        specContent c true h1 h4]
  | _, .atx _ _, _, _, _, _, h1, _, _, _, _ => by simp [isPlainPara] at h1
  | _, .setext _ _, _, _, _, _, h1, _, _, _, _ => by simp [isPlainPara] at h1
  | _, .rule, _, _, _, _, h1, _, _, _, _ => by simp [isPlainPara] at h1
  | _, .code _, _, _, _, _, h1, _, _, _, _ => by simp [isPlainPara] at h1
  | _, .quote _, _, _, _, _, h1, _, _, _, _ => by simp [isPlainPara] at h1
  | _, .ulist _ _, _, _, _, _, h1, _, _, _, _ => by simp [isPlainPara] at h1
  | _, .olist _ _, _, _, _, _, h1, _, _, _, _ => by simp [isPlainPara] at h1
theorem printLooseRest_t : (bs : List DocSpec.Block) → (st : PSt) → looseBlocks bs = true →
    wfBlockList (some true) bs = true →
    ∃ (rest : List LL) (st' : PSt),
      printRest true bs st =
        ((if bs.isEmpty then [] else [] :: flatLines (LL.groupsL Generated.escapedChars 1 rest)), st') ∧
      st'.defs = st.defs ∧ OkBs Generated.escapedChars rest ∧ rest.length = bs.length ∧
      rest.map LL.isList = bs.map isList ∧ (∀ x ∈ rest, x.isBq = false) ∧
      GT.outs (LL.trees rest) = bs.map specBlock
  | [], st, _, _ =>
    ⟨[], st, rfl, rfl, .nil, rfl, rfl, (fun x hx => by cases hx), by rw [trees_nil]; rfl⟩
  | b :: r, st, h2, h5 => by
    have hE := escOK_generated
    rw [looseBlocks_cons] at h2
    rw [wfBlockList_cons] at h5
    simp only [Bool.and_eq_true, Bool.or_eq_true] at h2 h5
    -- the block itself
    obtain ⟨B, st1, hp1, hd1, hok1, hout1, hlist1, hbq1⟩ : ∃ (B : LL) (st1 : PSt),
        printBlock false b st = (flatLines (B.groups Generated.escapedChars 0), st1) ∧ st1.defs = st.defs ∧
        OkB Generated.escapedChars B ∧ (B.tree false).out = specBlock b ∧ B.isList = isList b ∧ B.isBq = false := by
      rcases h2.1 with hf | hl
      · obtain ⟨g, l, st1, hp, hd, hk, hhead, hout⟩ :=
          printBlock_leafX b st hf (wfBlock_flat_mode b hf _ h5.1)
        have hb := toGT_isBq (.leaf l) hk.ok
        refine ⟨.x g (QT.leaf l).toGT, st1, by rw [hp, groups_x, ind_zero]; rfl, hd,
          .x (hk.good g (by simp)) hhead
            (by rw [toGT_src]; simpa using effX_of_effect hk.eff) (toGT_ok _ hk.ok) hb.2,
          by rw [tree_x, toGT_out _ hk.ok, out_leaf, hout], ?_, ?_⟩
        · rw [LL.isList, tree_x, hb.2]
          cases b <;> first | rfl | simp [isFlatBlock] at hf
        · rw [LL.isBq, tree_x, hb.1]; rfl
      · obtain ⟨o, is, st1, hp, hd, hok, hout⟩ := printLoose_t b false (some true) st hl h5.1
        refine ⟨.l o is, st1, by rw [hp, groups_l], hd, hok, hout, ?_, isBq_l o is⟩
        rw [isList_l]
        cases b <;> first | rfl | simp [isLooseList] at hl
    obtain ⟨rest, st2, hp2, hd2, hoks2, hlen2, hlist2, hbq2, houts2⟩ := printLooseRest_t r st1 h2.2 h5.2
    have hg1 := groups_goodB hE B hok1
    refine ⟨B :: rest, st2, ?_, by rw [hd2, hd1], .cons hok1 hoks2, by simp [hlen2], by simp [hlist1, hlist2],
      ?_, by rw [trees_cons, gouts_cons, hout1, houts2]; rfl⟩
    · rw [printRest_cons, hp1, hp2]
      simp only [if_true, List.isEmpty_cons, Bool.false_eq_true, if_false]
      rw [prefix4_flat _ (fun g hg l hl => ((hg1 0).2 g hg).2 l hl |>.1), ← groups_succ, groupsL_cons]
      cases r with
      | nil =>
        have : rest = [] := by cases rest with | nil => rfl | cons a b => simp at hlen2
        subst this
        simp [groupsL_nil]
      | cons b' r' =>
        have hrne : rest ≠ [] := by intro e; rw [e] at hlen2; simp at hlen2
        rw [flatLines_append _ _ (hg1 (0 + 1)).1 (groupsL_ne_nilB hE rest hoks2 hrne 1)]
        simp
    · intro x hx
      rcases List.mem_cons.1 hx with rfl | hx
      · exact hbq1
      · exact hbq2 x hx
end

end printLoose

/-! ### the whole document -/

section docX
open DocSpec

theorem adjX_kids (esc : List Char) (ks : List XKid) (d : List DocSpec.Block) (hok : ∀ k ∈ ks, XKidOK esc k)
    (hbq : ks.map (fun k => k.t.isBqG) = d.map isQuote) (hli : ks.map (fun k => k.t.isListG) = d.map isList)
    (hnext : okNexts d = true) (prev : Option Node)
    (hprev : ∀ k, ks.head? = some k → ∀ sib, prev = some sib → preCode sib = none ∧
      ((k.t.src esc).isTag "blockquote" = true → sib.isTag "blockquote" = false) ∧
      (isListTag (k.t.src esc) = true → isListTag sib = false)) :
    AdjX prev (ks.map (fun k => k.t.src esc)) := by
  induction ks generalizing d prev with
  | nil => trivial
  | cons k r ih =>
    cases d with
    | nil => simp at hbq
    | cons b d' =>
      simp only [List.map_cons, List.cons.injEq] at hbq hli
      refine ⟨hprev k rfl, ?_⟩
      have hnext' : okNexts d' = true := by
        cases d' with
        | nil => rfl
        | cons b' d'' => simp only [okNexts, Bool.and_eq_true] at hnext; exact hnext.2
      apply ih d' (fun x hx => hok x (List.mem_cons_of_mem _ hx)) hbq.2 hli.2 hnext'
      intro k' hk' sib hs
      cases hs
      cases r with
      | nil => cases hk'
      | cons k2 r' =>
        simp only [List.head?_cons, Option.some.injEq] at hk'
        subst hk'
        cases d' with
        | nil => simp at hbq
        | cons b' d'' =>
          have hb2 := hbq.2; have hl2 := hli.2
          simp only [List.map_cons, List.cons.injEq] at hb2 hl2
          simp only [okNexts, okNext, Bool.and_eq_true, Bool.not_eq_true'] at hnext
          refine ⟨preCode_gsrc esc k.t (hok k List.mem_cons_self).ok, ?_, ?_⟩
          · rw [isTag_bq_gsrc, isTag_bq_gsrc, hbq.1, hb2.1]
            intro h1
            have := hnext.1.2
            cases hq : isQuote b with
            | false => rfl
            | true => rw [hq, h1] at this; cases this
          · rw [isListTag_gsrc, isListTag_gsrc, hli.1, hl2.1]
            intro h1
            have := hnext.1.1.1
            cases hq : isList b with
            | false => rfl
            | true => rw [hq, h1] at this; cases this

theorem isList_of_tight {b : DocSpec.Block} (h : isTightList b = true) : isList b = true ∧ isQuote b = false := by
  cases b <;> simp_all [isTightList, isList, isQuote]

theorem notList_of_quoteBlock {b : DocSpec.Block} (h : isQuoteBlock b = true) : isList b = false := by
  cases b <;> simp_all [isQuoteBlock, isList]

/-- one top-level block as an `XKid` -/
theorem printBlock_x (b : DocSpec.Block) (st : PSt) (hq : isListDocBlock b = true) (hw : wfBlock none b = true) :
    ∃ (k : XKid) (st' : PSt), printBlock true b st = (flatLines k.gs, st') ∧ st'.defs = st.defs ∧
      XKidOK Generated.escapedChars k ∧ k.t.out = specBlock b ∧ k.t.isBqG = isQuote b ∧ k.t.isListG = isList b := by
  simp only [isListDocBlock, Bool.or_eq_true] at hq
  rcases hq with (hq | hq) | hq
  · obtain ⟨k, st', hp, hd, hok, hout, hbq⟩ := printBlock_q b true st hq hw
    have hb := toGT_isBq k.t hok.ok
    exact ⟨⟨k.gs, k.t.toGT⟩, st', hp, hd, xkid_of_kid _ k hok, by rw [toGT_out k.t hok.ok, hout],
      by rw [hb.1, hbq], by rw [hb.2, notList_of_quoteBlock hq]⟩
  · have hE := escOK_generated
    obtain ⟨o, items, st', hp, hd, hne, hoks, hgood, htok, hout⟩ := printList_t b true none st hq hw
    have hl := isList_of_tight hq
    have hlne : listLines Generated.escapedChars items ≠ [] := by
      cases items with
      | nil => exact absurd rfl hne
      | cons a r => simp [listLines, LItem.lines]
    refine ⟨⟨[listLines Generated.escapedChars items], listTree o items⟩, st', by rw [hp]; rfl, hd,
      ⟨by simp, ?_, ?_, htok⟩, hout, ?_, ?_⟩
    · intro g hg
      have : g = listLines Generated.escapedChars items := by simpa using hg
      subst this
      exact ⟨hlne, hgood⟩
    · simpa using effN_of_effX (effX_list hE o items hne hoks)
    · rw [hl.2]; cases o <;> simp [listTree, GT.isBqG, GT.tag]
    · rw [hl.1]; cases o <;> simp [listTree, GT.isListG, GT.tag]
  · have hE := escOK_generated
    obtain ⟨o, is, st', hp, hd, hok, hout⟩ := printLoose_t b true none st hq hw
    have hg := groups_goodB hE (.l o is) hok 0
    have hl : isList b = true ∧ isQuote b = false := by
      cases b <;> simp_all [isLooseList, isList, isQuote]
    refine ⟨⟨(LL.l o is).groups Generated.escapedChars 0, (LL.l o is).tree false⟩, st', by rw [hp, groups_l], hd,
      ⟨hg.1, hg.2, effN_loose hE o is hok, tree_okB _ hok⟩, hout, ?_, ?_⟩
    · rw [hl.2]; exact isBq_l o is
    · rw [hl.1]; exact isList_l o is

theorem printBlocks_x (d : Doc) (hne : d ≠ []) (hq : ∀ b ∈ d, isListDocBlock b = true)
    (hw : wfBlockList none d = true) :
    ∀ st : PSt, ∃ (ks : List XKid) (st' : PSt), printBlocks true d st = (flatLines (allGroupsX ks), st') ∧
      st'.defs = st.defs ∧ ks ≠ [] ∧ (∀ k ∈ ks, XKidOK Generated.escapedChars k) ∧
      ks.map (fun k => k.t.out) = d.map specBlock ∧ ks.map (fun k => k.t.isBqG) = d.map isQuote ∧
      ks.map (fun k => k.t.isListG) = d.map isList := by
  induction d with
  | nil => exact absurd rfl hne
  | cons b r ih =>
    intro st
    rw [wfBlockList_cons] at hw
    simp only [Bool.and_eq_true] at hw
    obtain ⟨k, st1, hp, hd1, hok, hout, hbq, hli⟩ := printBlock_x b st (hq b List.mem_cons_self) hw.1
    cases r with
    | nil =>
      refine ⟨[k], st1, ?_, hd1, by simp, ?_, by simp [hout], by simp [hbq], by simp [hli]⟩
      · rw [printBlocks_one, hp]; simp [allGroupsX]
      · intro x hx
        have : x = k := by simpa using hx
        subst this; exact hok
    | cons b' r' =>
      obtain ⟨ks, st2, hps, hd2, hksne, hoks, houts, hbqs, hlis⟩ :=
        ih (by simp) (fun x hx => hq x (List.mem_cons_of_mem _ hx)) hw.2 st1
      have hgne : allGroupsX ks ≠ [] := by
        cases ks with
        | nil => exact absurd rfl hksne
        | cons k' r'' =>
          simp only [allGroupsX, List.flatMap_cons]
          intro e
          exact (hoks k' List.mem_cons_self).ne (List.append_eq_nil_iff.1 e).1
      refine ⟨k :: ks, st2, ?_, by rw [hd2, hd1], by simp, ?_, by simp [hout, houts], by simp [hbq, hbqs],
        by simp [hli, hlis]⟩
      · rw [printBlocks_cons2, hp]
        simp only [hps]
        rw [show allGroupsX (k :: ks) = k.gs ++ allGroupsX ks by simp [allGroupsX],
          flatLines_append _ _ hok.ne hgne]
      · intro x hx
        rcases List.mem_cons.1 hx with rfl | hx
        · exact hok
        · exact hoks x hx

theorem allGroupsX_good (esc : List Char) (ks : List XKid) (h : ∀ k ∈ ks, XKidOK esc k) :
    ∀ g ∈ allGroupsX ks, GoodGroup g := by
  intro g hg
  obtain ⟨k, hk, hgk⟩ := List.mem_flatMap.1 hg
  exact (h k hk).good g hgk

theorem goks_of_xkids (esc : List Char) (ks : List XKid) (h : ∀ k ∈ ks, XKidOK esc k) :
    GT.oks (ks.map (·.t)) = true := by
  induction ks with
  | nil => rfl
  | cons k r ih => simp [GT.oks, (h k List.mem_cons_self).ok, ih (fun x hx => h x (List.mem_cons_of_mem _ hx))]

theorem gouts_eq_map (ts : List GT) : GT.outs ts = ts.map GT.out := by
  induction ts with
  | nil => rfl
  | cons t r ih => rw [gouts_cons, ih]; rfl

/-- **C01 on documents of flat blocks, block quotes and tight lists nested to any depth** -/
theorem convert_list (d : Doc) (sp : Spelling) (hwf : WF d = true) (hq : ListDoc d = true) :
    Pipeline.convert {} (print d sp) = .ok (spec d) := by
  have hE := escOK_generated
  simp only [WF, Bool.and_eq_true, Bool.not_eq_true', List.isEmpty_eq_false_iff] at hwf
  obtain ⟨⟨⟨hne, hnext⟩, hbl⟩, _⟩ := hwf
  have hq' : ∀ b ∈ d, isListDocBlock b = true := by simpa [ListDoc, List.all_eq_true] using hq
  obtain ⟨ks, st', hps, hdefs, hksne, hoks, houts, hbqs, hlis⟩ := printBlocks_x d hne hq' hbl ⟨sp.choices, 1, []⟩
  have hprint : print d sp = joinLines (flatLines (allGroupsX ks)) := by
    simp only [print, hps]
    have : st'.defs = [] := hdefs
    simp [this, joinLines]
  rw [hprint]
  have hgood := allGroupsX_good _ ks hoks
  have hGne : allGroupsX ks ≠ [] := by
    cases ks with
    | nil => exact absurd rfl hksne
    | cons k r =>
      simp only [allGroupsX, List.flatMap_cons]
      intro e
      exact (hoks k List.mem_cons_self).ne (List.append_eq_nil_iff.1 e).1
  have hfl : flatLines (allGroupsX ks) ≠ [] := flatLines_ne_nil _ hGne (fun g hg => (hgood g hg).1)
  have hlines : ∀ l ∈ flatLines (allGroupsX ks), lineSafe l = true ∧ '<' ∉ l ∧ '&' ∉ l := by
    intro l hl
    rcases flatLines_lines _ hgood l hl with rfl | hg
    · exact ⟨by decide, by simp, by simp⟩
    · exact ⟨hg.2.1, hg.2.2.1, hg.2.2.2.1⟩
  have hchunks : joinLines (flatLines (allGroupsX ks)) = joinChunks ((allGroupsX ks).map joinLines) :=
    joinLines_flatLines _ (fun g hg => (hgood g hg).1)
  generalize hsrc : joinLines (flatLines (allGroupsX ks)) = src at *
  have hchar : ∀ c ∈ src, c ≠ '<' ∧ c ≠ '&' := by
    intro c hc
    rw [← hsrc] at hc
    rcases mem_joinLines hc with rfl | ⟨l, hl, hcl⟩
    · exact ⟨by decide, by decide⟩
    · exact ⟨fun e => (hlines l hl).2.1 (e ▸ hcl), fun e => (hlines l hl).2.2 (e ▸ hcl)⟩
  have h1 : src.contains '<' = false := by
    cases hc : src.contains '<' with
    | false => rfl
    | true => exact absurd rfl (hchar _ (List.contains_iff_mem.1 hc)).1
  have h2 : Normalize.isBlankDoc src = false := by
    rw [Normalize.isBlankDoc_eq_all]
    obtain ⟨l, hl, c, hc, hcs⟩ : ∃ l ∈ flatLines (allGroupsX ks), ∃ c ∈ l, isSpace c = false := by
      obtain ⟨g, gs, hg⟩ : ∃ g gs, allGroupsX ks = g :: gs := by
        cases hx : allGroupsX ks with
        | nil => exact absurd hx hGne
        | cons g gs => exact ⟨g, gs, rfl⟩
      have hgg := hgood g (by rw [hg]; simp)
      obtain ⟨l, ls, hl⟩ : ∃ l ls, g = l :: ls := by
        cases hx : g with
        | nil => exact absurd hx hgg.1
        | cons l ls => exact ⟨l, ls, rfl⟩
      have hgl := hgg.2 l (by rw [hl]; simp)
      refine ⟨l, ?_, hgl.2.2.2.2⟩
      rw [hg, hl]
      cases gs with
      | nil => simp [flatLines]
      | cons a b => simp [flatLines]
    have hmem : c ∈ src := by rw [← hsrc]; exact mem_joinLines_of_mem hc hl
    cases hall : src.all isSpace with
    | false => rfl
    | true =>
      have := List.all_eq_true.1 hall c hmem
      rw [hcs] at this; cases this
  have h3 : Pipeline.prepare {} src = src ++ ['\n', '\n'] := by
    rw [Pipeline.prepare, ← hsrc, normalize_lines _ _ hfl (fun l hl => (hlines l hl).1), hsrc]
    apply extract_no_amp
    intro hm
    rcases List.mem_append.1 hm with hm | hm
    · exact (hchar _ hm).2 rfl
    · exact absurd hm (by decide)
  -- the block stage: the loop from the last block backwards, then totality for the fuel
  have hadj := adjX_kids Generated.escapedChars ks d hoks hbqs hlis hnext none (by intro k _ sib hs; cases hs)
  have hlast : ∀ sib, (divOf (ks.map (fun k => k.t.src Generated.escapedChars))).last? = some sib →
      preCode sib = none := by
    intro sib hs
    simp only [Node.last?, divOf] at hs
    obtain ⟨k, hk, rfl⟩ := List.mem_map.1 (List.mem_of_getLast? hs)
    exact preCode_gsrc _ k.t (hoks k hk).ok
  have hbase : RunsE [] [] (divOf (ks.map (fun k => k.t.src Generated.escapedChars))) [[]]
      (divOf (ks.map (fun k => k.t.src Generated.escapedChars)), []) :=
    ⟨1, parseBlocks_before 0 [] [] _ hlast⟩
  have hdiv : ∀ ns : List Node,
      ({ Node.el "div" with children := (Node.el "div").children ++ ns } : Node) = divOf ns := by
    intro ns; simp [Node.el, divOf]
  have hrun := effLX_kids Generated.escapedChars ks hoks [] [] (Node.el "div") [[]]
    (divOf (ks.map (fun k => k.t.src Generated.escapedChars)), []) rfl rfl (by decide) (by decide)
    (by simpa [Node.last?, Node.el] using hadj) (by rw [hdiv]; exact hbase)
  obtain ⟨f, hpf⟩ := hrun
  have hsplit := splitS_chunks ((allGroupsX ks).map joinLines) (by simpa using hGne)
    (by intro b hb; obtain ⟨g, hg, rfl⟩ := List.mem_map.1 hb; exact nel_group g (hgood g hg))
  have h4 : parseDocument 4 (src ++ ['\n', '\n']) =
      some (divOf (ks.map (fun k => k.t.src Generated.escapedChars)), []) := by
    obtain ⟨r, hr⟩ := Option.isSome_iff_exists.1 (parseDocument_total 4 (src ++ ['\n', '\n']))
    rw [hr]
    simp only [parseDocument, parseDocumentWith, parseChunk] at hr
    rw [hchunks, hsplit] at hr
    have e1 := parseBlocks_fuel_mono f hr
    have e2 := parseBlocks_fuel_mono (fuelFor (joinChunks ((allGroupsX ks).map joinLines) ++ ['\n', '\n']).length) hpf
    rw [Nat.add_comm] at e2
    rw [e1] at e2
    exact e2
  have h5 := render_gt {} hE rfl rfl [] (ks.map (·.t)) (by simpa using hksne) (goks_of_xkids _ ks hoks)
  have hout : join ['\n'] (GT.outs (ks.map (·.t))) = spec d := by
    rw [spec, specBlocks_eq_join, ← houts, gouts_eq_map, List.map_map]; rfl
  rw [Probe.convert_eq_render]
  simp only [h1, h2, Bool.false_eq_true, if_false, h3]
  have h4' : parseDocument ({} : Pipeline.Cfg).tab (src ++ ['\n', '\n']) =
      some (divOf ((ks.map (·.t)).map (GT.src ({} : Pipeline.Cfg).esc)), []) := by
    simpa [List.map_map, Function.comp_def] using h4
  rw [h4']
  simp only [List.reverse_nil, h5, hout]

end docX

end MdVerif.DocParse
