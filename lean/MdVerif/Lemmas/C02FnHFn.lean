/-
SECOND PORT, STRONGER TOKEN: this file is `Lemmas/C02FnFn.lean` in the namespace `MdVerif.TokH`, over the string invariant
of `Lemmas/C02FnHStr.lean`, in which a complete escape token `STX d₁…d_k ETX` must have a value below 0x110000 AND
DIFFERENT FROM 2 (`TokH.chrOk`), so that `UnescapeTreeprocessor.unescape` never writes an STX.  The one place where tokens
are created (the escape pattern, `findMatch_S` in `Lemmas/C02FnHPat.lean`) needs that STX is no escapable character:
`RefsS cfg` is the old statement together with `cfg.esc.contains Inline.STX = false`.  Header of the file copied:

Lemmas for `Props/C02Fn.lean`: the tree processors of the footnotes extension keep the STX-token invariant `TokH.NodeS`
(`Lemmas/C02FnStr.lean`: every STX is followed by `k`, `w`, `q`, `z` or a complete escape token below 0x110000).

This is c05x's `Lemmas/VocabXWFAmpFn.lean` (the same statements for the two-digit invariant of C05) transcribed for the
token invariant: `makeDiv` (the back-link text `STX zz…qq ETX`, `NBSP_PLACEHOLDER = STX qq…zz ETX` appended to the text of
the last paragraph), `placeDiv`, `duplicates` (`href = ref + str(i) + ':' + rest`: the digits are inserted in front of
a `:`, which continues no STX and ends no token, so every STX of `ref` was complete already — `SOk_left_of_A`).
Core Lean only.
-/
import MdVerif.Lemmas.C02FnHXTok
import MdVerif.Model.Ext.FootnotesTree

set_option autoImplicit false

namespace MdVerif.TokH
open Py FootnotesTree

/-! ### strings -/

theorem natToDec_noSTX (n : Nat) : STX ∉ natToDec n := digits_noSTX (natToDec_digits n)

/-- in front of a character that continues no STX and ends no token even a truncated continuation is complete -/
theorem fol_of_folA_cut {a : Str} {c : Char} {r : Str} (h : folA (a ++ c :: r) = true) (hc : cutOk c = true) :
    fol a = true := by
  have hc' := hc
  simp only [cutOk, Bool.and_eq_true, Bool.not_eq_true', bne_iff_ne, ne_eq] at hc'
  have hnd : ((a ++ c :: r).all isAsciiDigit) = false := by
    cases hx : (a ++ c :: r).all isAsciiDigit with
    | false => rfl
    | true =>
      rw [List.all_eq_true] at hx
      have := hx c (by simp)
      rw [hc'.1.2] at this; cases this
  cases a with
  | nil =>
    rw [List.nil_append] at h hnd
    rw [folA_cons, hc'.1.1, hnd] at h
    simp only [Bool.false_or, Bool.or_false, tok, hc'.1.2, Bool.false_and] at h
    cases h
  | cons x a =>
    rw [List.cons_append] at h hnd
    rw [folA_cons, hnd] at h
    rw [fol_cons]
    simp only [Bool.or_false, Bool.or_eq_true] at h ⊢
    rcases h with h | h
    · exact Or.inl h
    · refine Or.inr (tok_left (a := x :: a) (b := c :: r) (by simpa using h) ?_)
      intro d hd
      simp only [List.head?_cons, Option.some.injEq] at hd
      subst hd; exact hc

theorem SOk_left_of_A {a : Str} {c : Char} {r : Str} (h : SOkA (a ++ c :: r) = true) (hc : cutOk c = true) :
    SOk a = true := by
  induction a with
  | nil => rfl
  | cons x a ih =>
    simp only [List.cons_append, SOkA, Bool.and_eq_true, Bool.or_eq_true] at h
    simp only [SOk, Bool.and_eq_true, Bool.or_eq_true]
    refine ⟨?_, ih h.2⟩
    rcases h.1 with h1 | h1
    · exact Or.inl h1
    · exact Or.inr (fol_of_folA_cut h1 hc)

theorem splitFirst_spec (c : Char) : ∀ (s a b : Str), Footnotes.splitFirst c s = some (a, b) → s = a ++ c :: b := by
  intro s
  induction s with
  | nil => intro a b h; cases h
  | cons x s ih =>
    intro a b h
    simp only [Footnotes.splitFirst] at h
    split at h
    · rename_i hx
      simp only [Option.some.injEq, Prod.mk.injEq] at h
      obtain ⟨rfl, rfl⟩ := h
      rw [hx]; rfl
    · simp only [Option.map_eq_some_iff] at h
      obtain ⟨p, hp, e⟩ := h
      simp only [Prod.mk.injEq] at e
      obtain ⟨rfl, rfl⟩ := e
      rw [ih p.1 p.2 hp]; rfl

/-- `ref + str(i) + ':' + rest` for `ref, rest = href.split(':', 1)` -/
theorem sokA_dupHref {href ref rest : Str} (h : SOkA href = true)
    (hs : Footnotes.splitFirst ':' href = some (ref, rest)) (i : Nat) :
    SOkA (ref ++ natToDec i ++ ':' :: rest) = true := by
  have e := splitFirst_spec ':' href ref rest hs
  rw [e] at h
  have h1 : SOk ref = true := SOk_left_of_A h (by decide)
  have h2 : SOkA (':' :: rest) = true := SOkA_right h
  exact SOkA_append (SOk_append h1 (SOk_of_noSTX (natToDec_noSTX i))) h2

theorem sok_backlinkText : SOk fnBacklinkText = true := by decide
theorem sok_nbsp : SOk nbspPlaceholder = true := by decide

/-! ### `makeFootnotesDiv` -/

theorem forallS_el (t : String) : (FootnotesTree.el t).Forall NodeS := nodeS_mkEl t

theorem backlink_S {id : Str} (hid : STX ∉ id) (index : Nat) : (backlink id index).Forall NodeS := by
  rw [Node.forall_iff]
  refine ⟨⟨sok_backlinkText, rfl, ?_⟩, ?_⟩
  · intro kv hkv
    simp only [backlink, List.mem_cons, List.not_mem_nil, or_false] at hkv
    rcases hkv with rfl | rfl | rfl
    · show SOkA ('#' :: (Footnotes.footnoteRefId id false Footnotes.State.empty).1) = true
      have : '#' :: (Footnotes.footnoteRefId id false Footnotes.State.empty).1 = "#fnref:".toList ++ id := rfl
      rw [this]
      exact SOkA_append (by decide) (SOkA_of_noSTX hid)
    · decide
    · show SOkA ("Jump back to footnote ".toList ++ natToDec index ++ " in the text".toList) = true
      refine SOkA_of_noSTX ?_
      intro hm
      rcases List.mem_append.1 hm with hm | hm
      · rcases List.mem_append.1 hm with hm | hm
        · revert hm; decide
        · exact natToDec_noSTX _ hm
      · revert hm; decide
  · intro c hc
    simp [backlink, FootnotesTree.el] at hc

theorem addBacklink_S {li bl li' : Node} (hli : li.Forall NodeS) (hbl : bl.Forall NodeS)
    (h : addBacklink li bl = some li') : li'.Forall NodeS := by
  unfold addBacklink at h
  split at h
  · simp only [Option.some.injEq] at h; subst h; exact hli
  · rename_i node hlast
    have hmem : node ∈ li.children := List.mem_of_mem_getLast? hlast
    have hnode := forallS_children hli node hmem
    split at h
    · split at h
      · rename_i t ht
        simp only [Option.some.injEq] at h; subst h
        have hsok : SOk t = true := by
          have := forallS_text hnode
          rw [ht] at this; exact this
        have hnew : ({ node with text := some (t ++ nbspPlaceholder), textAtomic := false
                                 children := node.children ++ [bl] } : Node).Forall NodeS := by
          rw [Node.forall_iff] at hnode ⊢
          refine ⟨⟨SOk_append hsok sok_nbsp, hnode.1.2.1, hnode.1.2.2⟩, ?_⟩
          intro c hc
          rcases List.mem_append.1 hc with hc | hc
          · exact hnode.2 c hc
          · simp only [List.mem_singleton] at hc; subst hc; exact hbl
        refine forallS_setChildren hli ?_
        intro c hc
        rcases List.mem_append.1 hc with hc | hc
        · exact forallS_children hli c (List.dropLast_subset _ hc)
        · simp only [List.mem_singleton] at hc; subst hc; exact hnew
      · cases h
    · simp only [Option.some.injEq] at h; subst h
      refine forallS_append hli ?_
      refine forallS_setChildren (forallS_el "p") ?_
      intro c hc
      simp only [List.mem_singleton] at hc; subst hc; exact hbl

/-- the loop of `makeFootnotesDiv`; `L` = what is known of the log, `T` of a footnote body -/
theorem makeLis_S {L : Block.Refs → Prop} {T : Str → Prop}
    {parse : Block.Refs → Str → Option (Node × Block.Refs)} (fnCount : Block.Refs → Nat)
    (hparse : ∀ log text sur log', L log → T text → parse log text = some (sur, log') →
      sur.Forall NodeS ∧ L log') :
    ∀ (fns : List (Str × Str)) (index : Nat) (log : Block.Refs) (lis : List Node) (log' : Block.Refs),
      (∀ kv ∈ fns, STX ∉ kv.1 ∧ T kv.2) → L log →
      makeLis parse fnCount fns index log = .ok (lis, log') → (∀ n ∈ lis, n.Forall NodeS) ∧ L log' := by
  intro fns
  induction fns with
  | nil =>
    intro index log lis log' _ hl h
    simp only [makeLis, R.ok.injEq, Prod.mk.injEq] at h
    obtain ⟨rfl, rfl⟩ := h
    exact ⟨by simp, hl⟩
  | cons kv rest ih =>
    intro index log lis log' hf hl h
    obtain ⟨id, text⟩ := kv
    simp only [makeLis] at h
    split at h
    · cases h
    · rename_i sur log1 hp
      obtain ⟨hsur, hl1⟩ := hparse _ _ _ _ hl (hf (id, text) List.mem_cons_self).2 hp
      split at h
      · cases h
      · split at h
        · cases h
        · rename_i li' hadd
          split at h
          · rename_i lis1 log2 hrec
            simp only [R.ok.injEq, Prod.mk.injEq] at h
            obtain ⟨rfl, rfl⟩ := h
            obtain ⟨i1, i2⟩ := ih _ _ _ _ (fun kv hkv => hf kv (List.mem_cons_of_mem _ hkv)) hl1 hrec
            refine ⟨?_, i2⟩
            intro n hn
            rcases List.mem_cons.1 hn with rfl | hn
            · refine addBacklink_S ?_ (backlink_S (hf (id, text) List.mem_cons_self).1 index) hadd
              rw [Node.forall_iff]
              refine ⟨⟨rfl, rfl, ?_⟩, fun c hc => forallS_children hsur c hc⟩
              intro kv hkv
              simp only [List.mem_singleton] at hkv
              subst hkv
              show SOkA (Footnotes.footnoteId id) = true
              have : Footnotes.footnoteId id = "fn:".toList ++ id := rfl
              rw [this]
              exact SOkA_append (by decide) (SOkA_of_noSTX (hf (id, text) List.mem_cons_self).1)
            · exact i1 n hn
          · cases h
          · cases h

theorem makeDiv_S {L : Block.Refs → Prop} {T : Str → Prop}
    {parse : Block.Refs → Str → Option (Node × Block.Refs)} (fnCount : Block.Refs → Nat)
    (hparse : ∀ log text sur log', L log → T text → parse log text = some (sur, log') →
      sur.Forall NodeS ∧ L log')
    {fns : List (Str × Str)} {log log' : Block.Refs} {div : Option Node}
    (hf : ∀ kv ∈ fns, STX ∉ kv.1 ∧ T kv.2) (hl : L log)
    (h : makeDiv parse fnCount fns log = .ok (div, log')) : (∀ d, div = some d → d.Forall NodeS) ∧ L log' := by
  unfold makeDiv at h
  split at h
  · simp only [R.ok.injEq, Prod.mk.injEq] at h
    obtain ⟨rfl, rfl⟩ := h
    exact ⟨fun d hd => (by cases hd), hl⟩
  · split at h
    · rename_i lis log1 hm
      simp only [R.ok.injEq, Prod.mk.injEq] at h
      obtain ⟨rfl, rfl⟩ := h
      obtain ⟨i1, i2⟩ := makeLis_S fnCount hparse _ _ _ _ _ hf hl hm
      refine ⟨?_, i2⟩
      intro d hd
      simp only [Option.some.injEq] at hd; subst hd
      rw [Node.forall_iff]
      refine ⟨⟨rfl, rfl, ?_⟩, ?_⟩
      · intro kv hkv
        simp only [List.mem_singleton] at hkv
        subst hkv; decide
      · intro c hc
        simp only [List.mem_cons, List.not_mem_nil, or_false] at hc
        rcases hc with rfl | rfl
        · exact forallS_el "hr"
        · exact forallS_setChildren (forallS_el "ol") i1
    · cases h
    · cases h

/-! ### `placeDiv` -/

mutual
theorem placeNode_S {div : Node} (hd : div.Forall NodeS) : (n r : Node) → n.Forall NodeS →
    placeNode div n = some r → r.Forall NodeS
  | ⟨tag, attrs, text, ta, children, tail, tla⟩, r, hn, h => by
    simp only [Node.Forall] at hn
    simp only [placeNode] at h
    split at h
    · rename_i ks hk
      simp only [Option.some.injEq] at h; subst h
      simp only [Node.Forall]
      exact ⟨hn.1, placeKids_S hd children ks hn.2 hk⟩
    · cases h
theorem placeKids_S {div : Node} (hd : div.Forall NodeS) : (l r : List Node) → Node.ForallL NodeS l →
    placeKids div l = some r → Node.ForallL NodeS r
  | [], r, _, h => by simp [placeKids] at h
  | c :: rest, r, hl, h => by
    simp only [Node.ForallL] at hl
    simp only [placeKids] at h
    split at h
    · simp only [Option.some.injEq] at h; subst h
      simp only [Node.ForallL]
      exact ⟨hd, hl.2⟩
    · split at h
      · simp only [Option.some.injEq] at h; subst h
        simp only [Node.ForallL]
        exact ⟨forallS_clearTail hl.1, hd, hl.2⟩
      · split at h
        · rename_i c' hc
          simp only [Option.some.injEq] at h; subst h
          simp only [Node.ForallL]
          exact ⟨placeNode_S hd c c' hl.1 hc, hl.2⟩
        · split at h
          · rename_i r' hr
            simp only [Option.some.injEq] at h; subst h
            simp only [Node.ForallL]
            exact ⟨hl.1, placeKids_S hd rest r' hl.2 hr⟩
          · cases h
end

theorem placeDiv_S {root div : Node} (hr : root.Forall NodeS) (hd : div.Forall NodeS) :
    (placeDiv root div).Forall NodeS := by
  unfold placeDiv
  split
  · rename_i r h; exact placeNode_S hd root r hr h
  · exact forallS_append hr hd

/-! ### `FootnotePostTreeprocessor` -/

mutual
theorem firstBackref_S : (n a : Node) → n.Forall NodeS → firstBackref n = some a → a.Forall NodeS
  | ⟨tag, attrs, text, ta, children, tail, tla⟩, a, hn, h => by
    simp only [firstBackref] at h
    split at h
    · simp only [Option.some.injEq] at h; subst h; exact hn
    · simp only [Node.Forall] at hn
      exact firstBackrefKids_S children a hn.2 h
theorem firstBackrefKids_S : (l : List Node) → (a : Node) → Node.ForallL NodeS l → firstBackrefKids l = some a →
    a.Forall NodeS
  | [], a, _, h => by simp [firstBackrefKids] at h
  | c :: r, a, hl, h => by
    simp only [Node.ForallL] at hl
    simp only [firstBackrefKids] at h
    split at h
    · rename_i a' ha
      simp only [Option.some.injEq] at h; subst h
      exact firstBackref_S c a' hl.1 ha
    · exact firstBackrefKids_S r a hl.2 h
end

theorem getAttr_sokA {n : Node} (h : n.Forall NodeS) (k : Str) : SOkA ((n.getAttr k).getD []) = true := by
  unfold Node.getAttr
  cases hf : n.attrs.find? (fun kv => kv.1 = k) with
  | none => rfl
  | some kv =>
    have := ((Node.forall_iff NodeS n).1 h).1.2.2 kv (List.mem_of_find?_eq_some hf)
    simpa using this

theorem dupLi_S {fn : Footnotes.State} {li li' : Node} (hli : li.Forall NodeS) (h : dupLi fn li = some li') :
    li'.Forall NodeS := by
  unfold dupLi at h
  simp only at h
  split at h
  · cases h
  · split at h
    · split at h
      · simp only [Option.some.injEq] at h; subst h; exact hli
      · rename_i link hlink
        have hl := firstBackref_S li link hli hlink
        split at h
        · cases h
        · rename_i p hsplit
          split at h
          · rename_i last hlast
            simp only [Option.some.injEq] at h; subst h
            have hmem : last ∈ li.children := List.mem_of_mem_getLast? hlast
            have hlastS := forallS_children hli last hmem
            refine forallS_setChildren hli ?_
            intro c hc
            rcases List.mem_append.1 hc with hc | hc
            · exact forallS_children hli c (List.dropLast_subset _ hc)
            · simp only [List.mem_singleton] at hc; subst hc
              refine forallS_setChildren hlastS ?_
              intro d hd
              rcases List.mem_append.1 hd with hd | hd
              · exact forallS_children hlastS d hd
              · obtain ⟨hr, hhr, rfl⟩ := List.mem_map.1 hd
                refine forallS_setAttr hl _ ?_
                obtain ⟨ref, rest⟩ := p
                simp only [Footnotes.duplicateLinks, hsplit, List.mem_map] at hhr
                obtain ⟨i, _, rfl⟩ := hhr
                exact sokA_dupHref (getAttr_sokA hl _) hsplit i
          · cases h
    · simp only [Option.some.injEq] at h; subst h; exact hli

theorem dupLis_S {fn : Footnotes.State} : ∀ (l l' : List Node), (∀ n ∈ l, n.Forall NodeS) → dupLis fn l = some l' →
    ∀ n ∈ l', n.Forall NodeS := by
  intro l
  induction l with
  | nil => intro l' _ h; simp only [dupLis, Option.some.injEq] at h; subst h; simp
  | cons li r ih =>
    intro l' hl h
    simp only [dupLis] at h
    split at h
    · rename_i li' r' h1 h2
      simp only [Option.some.injEq] at h; subst h
      intro n hn
      rcases List.mem_cons.1 hn with rfl | hn
      · exact dupLi_S (hl li List.mem_cons_self) h1
      · exact ih r' (fun m hm => hl m (List.mem_cons_of_mem _ hm)) h2 n hn
    · cases h

mutual
theorem dupFirstOl_S {fn : Footnotes.State} : (n : Node) → (r : Node × Bool) → n.Forall NodeS →
    dupFirstOl fn n = some r → r.1.Forall NodeS
  | ⟨tag, attrs, text, ta, children, tail, tla⟩, r, hn, h => by
    simp only [Node.Forall] at hn
    simp only [dupFirstOl] at h
    split at h
    · split at h
      · rename_i ks hk
        simp only [Option.some.injEq] at h; subst h
        simp only [Node.Forall]
        refine ⟨hn.1, ?_⟩
        rw [Node.forallL_iff] at hn ⊢
        exact dupLis_S children ks hn.2 hk
      · cases h
    · split at h
      · rename_i ks found hk
        simp only [Option.some.injEq] at h; subst h
        simp only [Node.Forall]
        exact ⟨hn.1, dupFirstOlKids_S children (ks, found) hn.2 hk⟩
      · cases h
theorem dupFirstOlKids_S {fn : Footnotes.State} : (l : List Node) → (r : List Node × Bool) → Node.ForallL NodeS l →
    dupFirstOlKids fn l = some r → Node.ForallL NodeS r.1
  | [], r, _, h => by
    simp only [dupFirstOlKids, Option.some.injEq] at h; subst h; simp [Node.ForallL]
  | c :: rest, r, hl, h => by
    simp only [Node.ForallL] at hl
    simp only [dupFirstOlKids] at h
    split at h
    · cases h
    · rename_i c' hc
      simp only [Option.some.injEq] at h; subst h
      simp only [Node.ForallL]
      exact ⟨dupFirstOl_S c (c', true) hl.1 hc, hl.2⟩
    · rename_i c' hc
      split at h
      · rename_i r' found hr
        simp only [Option.some.injEq] at h; subst h
        simp only [Node.ForallL]
        exact ⟨dupFirstOl_S c (c', false) hl.1 hc, dupFirstOlKids_S rest (r', found) hl.2 hr⟩
      · cases h
end

mutual
/-- **`FootnotePostTreeprocessor.run` keeps the invariant** -/
theorem duplicates_S {fn : Footnotes.State} : (n r : Node) → n.Forall NodeS → duplicates fn n = some r →
    r.Forall NodeS
  | ⟨tag, attrs, text, ta, children, tail, tla⟩, r, hn, h => by
    simp only [Node.Forall] at hn
    simp only [duplicates] at h
    split at h
    · cases h
    · rename_i ks hk
      have hks := duplicatesKids_S children ks hn.2 hk
      have hnode : (⟨tag, attrs, text, ta, ks, tail, tla⟩ : Node).Forall NodeS := by
        simp only [Node.Forall]; exact ⟨hn.1, hks⟩
      split at h
      · simp only [Option.map_eq_some_iff] at h
        obtain ⟨p, hp, rfl⟩ := h
        exact dupFirstOl_S _ p hnode hp
      · simp only [Option.some.injEq] at h; subst h; exact hnode
theorem duplicatesKids_S {fn : Footnotes.State} : (l r : List Node) → Node.ForallL NodeS l →
    duplicatesKids fn l = some r → Node.ForallL NodeS r
  | [], r, _, h => by
    simp only [duplicatesKids, Option.some.injEq] at h; subst h; simp [Node.ForallL]
  | c :: rest, r, hl, h => by
    simp only [Node.ForallL] at hl
    simp only [duplicatesKids] at h
    split at h
    · rename_i c' r' h1 h2
      simp only [Option.some.injEq] at h; subst h
      simp only [Node.ForallL]
      exact ⟨duplicates_S c c' hl.1 h1, duplicatesKids_S rest r' hl.2 h2⟩
    · cases h
end

end MdVerif.TokH
