/-
Helper lemmas for `Props/C15Text.lean`, part 12: a paragraph of SEVERAL lines between the definitions — front end
(`ParaLines`) and back end — and the reference whose label is broken over two lines.  Core Lean only.
-/
import MdVerif.Lemmas.InlineRefForms

namespace MdVerif.RefText
open Py Inline RefDef InlineRef

/-- what the front end needs of a paragraph of one or more lines: plain lines (first non-space character starts no
    block construct), the first one not indented, ordinary characters, no line is the start of a definition -/
structure ParaLines (para : Str) : Prop where
  lines : ∃ (c : Char) (r0 : Str) (r : List Str), para = joinLines ((c :: r0) :: r) ∧ Block.plainCh c = true ∧
    isSpace c = false ∧ ∀ l ∈ (c :: r0) :: r, Block.PlainLine l
  chars : para.all docCh = true
  noref : Block.refSearch para = none

theorem ParaLines.blockOK {para : Str} (h : ParaLines para) : BlockOK para := by
  obtain ⟨c, r0, r, e, _, _, hl⟩ := h.lines
  exact ⟨(c :: r0) :: r, by simp, hl, e, h.chars⟩

theorem ParaLines.visible {para : Str} (h : ParaLines para) : Escape.startsVisible para = true := by
  obtain ⟨c, r0, r, e, _, hs, _⟩ := h.lines
  rw [e]
  cases r with
  | nil => simp [Block.joinLines_single, Escape.startsVisible, hs]
  | cons b r' => simp [Block.joinLines_cons_cons, Escape.startsVisible, hs]

theorem dispatch_paraLines (tab : Nat) (htab : 0 < tab) (pb : Block.PB) (refs : Block.Refs) (parent : Node)
    (rest : List Str) {para : Str} (h : ParaLines para) :
    Block.dispatch tab pb [] refs parent para rest =
      some (parent.append (Block.mkText "p" para), refs, rest) := by
  obtain ⟨c, r0, r, e, hc, _, hl⟩ := h.lines
  have := Block.dispatch_plain tab pb [] refs parent rest (c :: r0) r 0 c r0 (by simp [Block.spaces]) hc htab hl
  rw [← e] at this
  rw [this, h.noref]
  simp only [Escape.paraP_visible _ _ _ _ h.visible]

/-- **The block parser on the document**, paragraph of several lines -/
theorem parseBlocks_docOf_lines (tab : Nat) (htab : 0 < tab) (before after : List DefSpec)
    (hb : ∀ d ∈ before, d.ok tab = true) (ha : ∀ d ∈ after, d.ok tab = true) {para : Str} (hp : ParaLines para)
    (f : Nat) :
    Block.parseBlocks tab (f + before.length + after.length + 2) [] [] (Node.el "div")
        ((before.map DefSpec.src ++ para :: after.map DefSpec.src) ++ [[]]) =
      some ((Node.el "div").append (Block.mkText "p" para), (before ++ after).map DefSpec.entry) := by
  rw [List.append_assoc, show f + before.length + after.length + 2 = (f + after.length + 2) + before.length by omega,
    parseBlocks_defs tab before hb]
  rw [show f + after.length + 2 = (f + 1 + after.length) + 1 by omega, List.cons_append, Block.parseBlocks,
    dispatch_paraLines tab htab _ _ _ _ hp]
  simp only
  rw [parseBlocks_defs tab after ha]
  rw [Block.parseBlocks, Escape.dispatch_empty_after_p]
  simp [Block.parseBlocks]

/-- **Front end**, paragraph of several lines -/
theorem front_doc_lines (cfg : Pipeline.Cfg) (htab : 0 < cfg.tab) (before after : List DefSpec)
    (hb : ∀ d ∈ before, d.ok cfg.tab = true) (ha : ∀ d ∈ after, d.ok cfg.tab = true) {para : Str}
    (hp : ParaLines para) :
    (docOf before para after).contains '<' = false ∧ Normalize.isBlankDoc (docOf before para after) = false ∧
    Block.parseDocument cfg.tab (Pipeline.prepare cfg (docOf before para after)) =
      some ((Node.el "div").append (Block.mkText "p" para), (before ++ after).map DefSpec.entry) := by
  have hBs : ∀ B ∈ before.map DefSpec.src ++ para :: after.map DefSpec.src, BlockOK B := by
    intro B hB
    simp only [List.mem_append, List.mem_map, List.mem_cons] at hB
    rcases hB with ⟨d, hd, rfl⟩ | rfl | ⟨d, hd, rfl⟩
    · exact BlockOK.def_src (hb d hd)
    · exact hp.blockOK
    · exact BlockOK.def_src (ha d hd)
  have hne : before.map DefSpec.src ++ para :: after.map DefSpec.src ≠ [] := by simp
  obtain ⟨hprep, hsplit⟩ := nBlocks cfg _ hne hBs
  have hall := docCh_joinPar _ hBs
  refine ⟨?_, ?_, ?_⟩
  · cases hcn : (docOf before para after).contains '<' with
    | false => rfl
    | true => exact absurd (List.all_eq_true.mp hall _ (List.contains_iff_mem.1 hcn)) (by decide)
  · rw [Normalize.isBlankDoc_eq_all]
    cases hbk : (docOf before para after).all isSpace with
    | false => rfl
    | true =>
      exfalso
      obtain ⟨c, r0, r, e, _, hs, _⟩ := hp.lines
      have h1 : c ∈ para := by
        rw [e]
        cases r with
        | nil => simp [Block.joinLines_single]
        | cons b r' => simp [Block.joinLines_cons_cons]
      have hmem : c ∈ docOf before para after := by
        have : ∀ (Bs : List Str), para ∈ Bs → c ∈ joinPar Bs := by
          intro Bs
          induction Bs with
          | nil => simp
          | cons B r ih =>
            intro hm
            cases r with
            | nil => simp at hm; subst hm; simpa [joinPar_single] using h1
            | cons B2 r =>
              rw [joinPar_cons_cons]
              simp only [List.mem_cons] at hm
              rcases hm with rfl | hm
              · simp [h1]
              · simp only [List.mem_append, List.mem_cons]
                exact Or.inr (Or.inr (Or.inr (ih (by simpa using hm))))
        exact this _ (by simp)
      have := List.all_eq_true.mp hbk c hmem
      rw [hs] at this; exact Bool.noConfusion this
  · unfold docOf
    rw [hprep]
    simp only [Block.parseDocument, Block.parseDocumentWith, Block.parseChunk, hsplit, Block.fuelFor]
    have hlen := joinPar_length _ (fun B hB => (hBs B hB).ne_nil)
    simp only [List.length_append, List.length_map, List.length_cons] at hlen
    obtain ⟨f, hf⟩ : ∃ f, 2 * (joinPar (before.map DefSpec.src ++ para :: after.map DefSpec.src) ++ ['\n', '\n']).length + 10 =
        f + before.length + after.length + 2 := by
      refine ⟨2 * (joinPar (before.map DefSpec.src ++ para :: after.map DefSpec.src) ++ ['\n', '\n']).length + 10 -
        (before.length + after.length + 2), ?_⟩
      simp only [List.length_append, List.length_cons, List.length_nil]
      omega
    rw [hf]
    exact parseBlocks_docOf_lines cfg.tab htab before after hb ha hp f

/-- **Back end**, paragraph of several lines -/
theorem convert_of_run_lines (cfg : Pipeline.Cfg) (hbl : cfg.blockLevel = TreeProc.defaultBlockLevel)
    (htab : 0 < cfg.tab)
    (before after : List DefSpec) (hb : ∀ d ∈ before, d.ok cfg.tab = true) (ha : ∀ d ∈ after, d.ok cfg.tab = true)
    {para : Str} (hp : ParaLines para) (pre : Str) (kids : List Node) (kidsHtml : Str) (st : St)
    (hrun : Inline.run { esc := cfg.esc, refs := ((before ++ after).map DefSpec.entry).reverse }
      ((Node.el "div").append (Block.mkText "p" para)) = some ((Node.el "div").append (paraOf pre kids), st))
    (hst : st.html = []) (hk : ∀ k ∈ kids, InlKid k) (hpre : PlainText pre = true)
    (hser : Ser.serializeList cfg.fmt kids = kidsHtml) (hstx : Post.STX ∉ kidsHtml) :
    Pipeline.convert cfg (docOf before para after) = .ok ("<p>".toList ++ (pre ++ kidsHtml) ++ "</p>".toList) := by
  obtain ⟨h1, h2, h3⟩ := front_doc_lines cfg htab before after hb ha hp
  have h6 := prettify_paraOf pre kids hk
  have h7 := unescapeTree_paraDoc pre kids hk (plain_no_stx hpre)
  have h8 := serialize_paraDoc cfg.fmt pre kids hpre
  rw [hser] at h8
  have h9 := finish_linkDoc cfg.blockLevel (pre ++ kidsHtml) (by
    simp only [List.mem_append, not_or]; exact ⟨plain_no_stx hpre, hstx⟩)
  simp only [Pipeline.convert, Pipeline.tree, h1, h2, Bool.false_eq_true, if_false, h3, hrun, hbl, h6, h7, h8, hst]
  rw [hbl] at h9
  simp only [h9]

/-! ### a label broken over two lines -/

theorem lineStartsFrom_append (a s : Str) (h : '\n' ∉ a) (i : Nat) :
    Block.lineStartsFrom i (a ++ s) = Block.lineStartsFrom (i + a.length) s := by
  induction a generalizing i with
  | nil => simp
  | cons c r ih =>
    have hc : c ≠ '\n' := fun e => h (e ▸ List.mem_cons_self)
    simp only [List.cons_append, Block.lineStartsFrom, hc, if_false, List.length_cons]
    rw [ih (fun hh => h (List.mem_cons_of_mem _ hh))]
    congr 1; omega

/-- no definition starts at a line that begins (after its indentation) with a plain character other than `[` -/
theorem refMatchAt_plainStart (A : Str) (n : Nat) (c : Char) (r : Str) (hc : Block.plainCh c = true) (hb : c ≠ '[') :
    Block.refMatchAt (A ++ (Block.spaces n ++ c :: r)) A.length = none := by
  have hsp : c ≠ ' ' := by intro e; subst e; simp [Block.plainCh] at hc
  have hdrop : (A ++ (Block.spaces n ++ c :: r)).drop A.length = Block.spaces n ++ c :: r := by simp
  by_cases hn : n ≤ 3
  · have hcp : countPrefix ' ' (some 3) (Block.spaces n ++ c :: r) = n :=
      Block.countPrefix_some_spaces n 3 (c :: r) (by simpa using hsp) hn
    have hat : (A ++ (Block.spaces n ++ c :: r))[A.length + n]? = some c := by
      apply Block.getElem?_at (pre := A ++ Block.spaces n) (r := r) (by simp) (by simp [Block.spaces])
    unfold Block.refMatchAt
    simp [hdrop, hcp, hat, hb]
  · have hcp : countPrefix ' ' (some 3) (Block.spaces n ++ c :: r) = 3 :=
      Block.countPrefix_some_ge n 3 (c :: r) (by omega)
    obtain ⟨k, rfl⟩ : ∃ k, n = 4 + k := ⟨n - 4, by omega⟩
    have hat : (A ++ (Block.spaces (4 + k) ++ c :: r))[A.length + 3]? = some ' ' := by
      apply Block.getElem?_at (pre := A ++ Block.spaces 3) (r := Block.spaces k ++ c :: r)
      · simp [Block.spaces, show 4 + k = k + 1 + 1 + 1 + 1 by omega, List.replicate_succ]
      · simp [Block.spaces]
    unfold Block.refMatchAt
    simp [hdrop, hcp, hat]

/-- **the paragraph `pre[text][l1⏎l2]post`** (the label broken after `l1`) as a paragraph of two lines -/
theorem paraLines_break {pre text sp l1 l2 post : Str} (hpre : PlainText pre = true) (htext : PlainText text = true)
    (hpost : PlainText post = true) (hstart : ParaStartOK pre = true) (hsp : sp = [] ∨ sp = [' '])
    (h1n : '\n' ∉ l1) (h2n : '\n' ∉ l2) (h1c : l1.all docCh = true) (h2c : l2.all docCh = true)
    (h2 : ∃ n c r, l2 = Block.spaces n ++ c :: r ∧ Block.plainCh c = true ∧ c ≠ '[') :
    ParaLines (refSrc pre text sp (l1 ++ '\n' :: l2) post) := by
  obtain ⟨n, c2, r2, e2, hc2, hb2⟩ := h2
  generalize ha : pre ++ ['['] ++ text ++ [']'] ++ sp ++ ['['] ++ l1 = a
  generalize hbb : l2 ++ [']'] ++ post = b
  have hpara : refSrc pre text sp (l1 ++ '\n' :: l2) post = a ++ '\n' :: b := by
    rw [← ha, ← hbb]; simp [refSrc, List.append_assoc]
  have hnl : ∀ {s : Str}, PlainText s = true → '\n' ∉ s := fun h => plain_not_mem h (by decide)
  have hspn : '\n' ∉ sp := by rcases hsp with rfl | rfl <;> simp
  have han : '\n' ∉ a := by
    rw [← ha]
    simp only [List.mem_append, List.mem_singleton, not_or]
    exact ⟨⟨⟨⟨⟨⟨hnl hpre, by decide⟩, hnl htext⟩, by decide⟩, hspn⟩, by decide⟩, h1n⟩
  have hbn : '\n' ∉ b := by
    rw [← hbb]
    simp only [List.mem_append, List.mem_singleton, not_or]
    exact ⟨⟨h2n, by decide⟩, hnl hpost⟩
  obtain ⟨c, r, hcr, hc, hs⟩ := refSrc_shape (text := text) (sp := sp) (label := l1 ++ '\n' :: l2) (post := post)
    hpre hstart
  -- the first character belongs to the first line
  obtain ⟨r0, har0⟩ : ∃ r0, a = c :: r0 := by
    cases ha' : a with
    | nil =>
      exfalso
      rw [← ha] at ha'; simp at ha'
    | cons x y =>
      rw [hpara, ha'] at hcr
      simp only [List.cons_append, List.cons.injEq] at hcr
      exact ⟨y, by rw [hcr.1]⟩
  have hnotnl : ∀ {s : Str}, '\n' ∉ s → s.all Block.notNl = true := by
    intro s h
    simp only [List.all_eq_true, Block.notNl, bne_iff_ne, ne_eq]
    intro x hx e; subst e; exact h hx
  have hPa : Block.PlainLine a := by
    refine ⟨0, c, r0, by simp [har0, Block.spaces], hc, hnotnl (fun h => han (by rw [har0]; exact List.mem_cons_of_mem _ h))⟩
  have hPb : Block.PlainLine b := by
    refine ⟨n, c2, r2 ++ [']'] ++ post, by rw [← hbb, e2]; simp [List.append_assoc], hc2, hnotnl ?_⟩
    intro h
    apply hbn
    rw [← hbb, e2]
    simp only [List.mem_append, List.mem_cons] at h ⊢
    rcases h with (h | h) | h
    · exact Or.inl (Or.inl (Or.inr (Or.inr h)))
    · exact Or.inl (Or.inr h)
    · exact Or.inr h
  refine ⟨⟨c, r0, [b], ?_, hc, hs, ?_⟩, ?_, ?_⟩
  · rw [hpara, har0, Block.joinLines_cons_cons, Block.joinLines_single]
  · intro l hl
    simp only [List.mem_cons, List.not_mem_nil, or_false] at hl
    rcases hl with rfl | rfl
    · rw [← har0]; exact hPa
    · exact hPb
  · exact refSrc_docCh hpre htext hpost hsp (by
      simp only [List.all_append, List.all_cons, h1c, h2c, Bool.true_and, Bool.and_true]; decide)
  · -- no line is the start of a definition
    have h0 := refMatchAt_para (label := l1 ++ '\n' :: l2) (post := post) hpre htext hstart hsp
    have hls : Block.lineStartsFrom 0 (a ++ '\n' :: b) = [a.length + 1] := by
      rw [lineStartsFrom_append a _ han 0]
      simp only [Block.lineStartsFrom, if_true, Nat.zero_add]
      rw [InlineRef.lineStartsFrom_nil b hbn]
    have h1 : Block.refMatchAt (a ++ '\n' :: b) (a.length + 1) = none := by
      have := refMatchAt_plainStart (a ++ ['\n']) n c2 (r2 ++ [']'] ++ post) hc2 hb2
      have e : (a ++ ['\n']) ++ (Block.spaces n ++ c2 :: (r2 ++ [']'] ++ post)) = a ++ '\n' :: b := by
        rw [← hbb, e2]; simp [List.append_assoc]
      rw [e] at this
      simpa using this
    rw [hpara] at h0 ⊢
    simp [Block.refSearch, hls, h0, h1]

/-- **`convert`** on: definitions, the paragraph `pre[text][l1⏎l2]post`, definitions — the label broken over two
    lines is looked up as a whole -/
theorem convert_link_break (cfg : Pipeline.Cfg) (hbl : cfg.blockLevel = TreeProc.defaultBlockLevel)
    (htab : 0 < cfg.tab) (before after : List DefSpec) (hb : ∀ d ∈ before, d.ok cfg.tab = true)
    (ha : ∀ d ∈ after, d.ok cfg.tab = true) (pre text sp l1 l2 post : Str)
    (hpre : PlainText pre = true) (htext : PlainText text = true) (hpost : PlainText post = true)
    (hstart : ParaStartOK pre = true) (hsp : sp = [] ∨ sp = [' '])
    (hu1 : UseLabelOK l1 = true) (hu2 : UseLabelOK l2 = true)
    (h1n : '\n' ∉ l1) (h2n : '\n' ∉ l2) (h1c : l1.all docCh = true) (h2c : l2.all docCh = true)
    (h2 : ∃ n c r, l2 = Block.spaces n ++ c :: r ∧ Block.plainCh c = true ∧ c ≠ '[')
    (url : Str) (title : Option Str)
    (hlook : Block.lookupRef ((before ++ after).map DefSpec.entry) (useKey text (l1 ++ '\n' :: l2)) = some (url, title)) :
    Pipeline.convert cfg (docOf before (refSrc pre text sp (l1 ++ '\n' :: l2) post) after) =
      .ok ("<p>".toList ++ (pre ++ (linkHtmlF cfg.fmt url title text ++ post)) ++ "</p>".toList) := by
  have hspOK : SpOK sp := by
    rcases hsp with rfl | rfl
    · exact Or.inl rfl
    · exact Or.inr ⟨' ', rfl, by decide⟩
  have hul : UseLabelOK (l1 ++ '\n' :: l2) = true := by
    simp only [UseLabelOK, List.all_append, List.all_cons, Bool.and_eq_true] at hu1 hu2 ⊢
    exact ⟨hu1, by decide, hu2⟩
  obtain ⟨k, hfind⟩ := lookup_find hlook
  obtain ⟨hu, ht⟩ := lookup_docCh (tab := cfg.tab) (defs := before ++ after)
    (fun d hd => by rcases List.mem_append.1 hd with h | h; exact hb d h; exact ha d h) hlook
  have hrun := run_ref_found { esc := cfg.esc, refs := ((before ++ after).map DefSpec.entry).reverse } pre text sp
    (l1 ++ '\n' :: l2) post hpre htext hpost hspOK hul k url title hfind
  refine convert_of_run_lines cfg hbl htab before after hb ha
    (paraLines_break hpre htext hpost hstart hsp h1n h2n h1c h2c h2) pre
    [{ linkEl url title text with tail := optStr post }] _ _ hrun rfl ?_ hpre ?_ ?_
  · intro x hx; simp only [List.mem_singleton] at hx; subst hx
    exact inlKid_link url title text post htext hpost hu ht
  · rw [serializeList_one, serialize_linkF cfg.fmt post url title text htext hpost]
  · simp only [List.mem_append, not_or]
    exact ⟨stx_not_mem_linkHtmlF _ _ _ _ (docCh_ne_stx hu) (fun t h => docCh_ne_stx (ht t h)) (plain_no_stx htext),
      plain_no_stx hpost⟩

end MdVerif.RefText
