/-
Two runs of the (extended) block parser on the same blocks from two logs (`md.references`, the footnote table, the
abbreviation table carried over from earlier documents) that are related by `R`: they build the SAME element tree and
their final logs are related by `R` again, for every relation `R` that the three writing processors respect
(`RelStep`): the processors only hand the log to the recursive calls and back; `ReferenceProcessor` and
`FootnoteBlockProcessor` append an entry computed from the block alone; `AbbrBlockprocessor` reads the abbreviation
table, but only to decide whether there is something to pop.  Binary analogue of `Lemmas/PipelineXInertLog.lean`.

Instances: `R := True` — the tree does not depend on the log at all (`parseBlocksXT_indep`); `R r1 r2 := r1 = L ++ r2`
for a carried log `L` without abbreviation entries — the run from `L` writes exactly what the run from the empty log
writes (`parseBlocksXT_shift`).  Core Lean only.
-/
import MdVerif.Lemmas.InstanceXLog

namespace MdVerif.InstanceX
open Py Block BlockExt

variable {R : Refs → Refs → Prop}

/-- two results of `parseBlocks`: both undefined, or the same tree with related logs -/
def EqT (R : Refs → Refs → Prop) (x1 x2 : Option (Node × Refs)) : Prop :=
  (x1 = none ∧ x2 = none) ∨ ∃ n q1 q2, x1 = some (n, q1) ∧ x2 = some (n, q2) ∧ R q1 q2
/-- two results of a processor: both undefined, or the same tree, the same remaining blocks and related logs -/
def EqR (R : Refs → Refs → Prop) (y1 y2 : Option (Node × Refs × List Str)) : Prop :=
  (y1 = none ∧ y2 = none) ∨ ∃ n q1 q2 bl, y1 = some (n, q1, bl) ∧ y2 = some (n, q2, bl) ∧ R q1 q2

/-- the recursive-call callback respects `R` -/
def RelPB (R : Refs → Refs → Prop) (pb : PB) : Prop :=
  ∀ st r1 r2 p bl, R r1 r2 → EqT R (pb st r1 p bl) (pb st r2 p bl)

theorem eqr_none : EqR R none none := Or.inl ⟨rfl, rfl⟩
theorem eqr_some {r1 r2 : Refs} (h : R r1 r2) (n : Node) (rest : List Str) :
    EqR R (some (n, r1, rest)) (some (n, r2, rest)) := Or.inr ⟨n, r1, r2, rest, rfl, rfl, h⟩
theorem eqt_some {r1 r2 : Refs} (h : R r1 r2) (n : Node) : EqT R (some (n, r1)) (some (n, r2)) :=
  Or.inr ⟨n, r1, r2, rfl, rfl, h⟩

theorem eqr_of_pair {x1 x2 : Option (Node × Refs)} (f : Node → Node) (rest : List Str) (h : EqT R x1 x2) :
    EqR R (match (generalizing := false) x1 with | some (n, r) => some (f n, r, rest) | none => none)
          (match (generalizing := false) x2 with | some (n, r) => some (f n, r, rest) | none => none) := by
  rcases h with ⟨e1, e2⟩ | ⟨n, q1, q2, e1, e2, hr⟩ <;> subst e1 e2
  · exact eqr_none
  · exact eqr_some hr _ _

theorem eqr_bind {x1 x2 : Option (Node × Refs)} (K : Node → Refs → Option (Node × Refs × List Str)) (h : EqT R x1 x2)
    (hK : ∀ n r1 r2, R r1 r2 → EqR R (K n r1) (K n r2)) :
    EqR R (match (generalizing := false) x1 with | none => none | some (n, r) => K n r)
          (match (generalizing := false) x2 with | none => none | some (n, r) => K n r) := by
  rcases h with ⟨e1, e2⟩ | ⟨n, q1, q2, e1, e2, hr⟩ <;> subst e1 e2
  · exact eqr_none
  · exact hK n q1 q2 hr

theorem eqr_ite {a1 b1 a2 b2 : Option (Node × Refs × List Str)} (c : Prop) [Decidable c] (h1 : c → EqR R a1 a2)
    (h2 : ¬c → EqR R b1 b2) : EqR R (if c then a1 else b1) (if c then a2 else b2) := by
  by_cases h : c
  · rw [if_pos h, if_pos h]; exact h1 h
  · rw [if_neg h, if_neg h]; exact h2 h

theorem RelPB.chunk {pb : PB} (hs : RelPB R pb) (st : List BState) {r1 r2 : Refs} (hr : R r1 r2) (p : Node)
    (text : Str) : EqT R (parseChunk pb st r1 p text) (parseChunk pb st r2 p text) := hs _ _ _ _ _ hr

variable {pb : PB} {tab : Nat} {state : List BState} {r1 r2 : Refs} {parent : Node} {b : Str} {rest : List Str}

/-! ### the processors that recurse -/

theorem hashP_rel (hs : RelPB R pb) (hr : R r1 r2) (m : Nat × Nat × Nat × Str) :
    EqR R (hashP tab pb state r1 parent b rest m) (hashP tab pb state r2 parent b rest m) := by
  obtain ⟨st, en, lv, header⟩ := m
  simp only [hashP]
  by_cases he : (b.take st).isEmpty = true
  · simp only [he, if_true]; exact eqr_some hr _ _
  · simp only [he, Bool.false_eq_true, if_false]
    rcases hs state r1 r2 parent [b.take st] hr with ⟨e1, e2⟩ | ⟨n, q1, q2, e1, e2, hq⟩ <;> rw [e1, e2]
    · exact eqr_none
    · exact eqr_some hq _ _

theorem hrP_rel (hs : RelPB R pb) (hr : R r1 r2) (m : Nat × Nat) :
    EqR R (hrP pb state r1 parent b rest m) (hrP pb state r2 parent b rest m) := by
  obtain ⟨st, en⟩ := m
  simp only [hrP]
  by_cases he : (rstripC '\n' (b.take st)).isEmpty = true
  · simp only [he, if_true]; exact eqr_some hr _ _
  · simp only [he, Bool.false_eq_true, if_false]
    rcases hs state r1 r2 parent [rstripC '\n' (b.take st)] hr with ⟨e1, e2⟩ | ⟨n, q1, q2, e1, e2, hq⟩ <;> rw [e1, e2]
    · exact eqr_none
    · exact eqr_some hq _ _

theorem listItems_rel (hs : RelPB R pb) (st2 : List BState) :
    ∀ (items : List Str) (r1 r2 : Refs) (lst : Node), R r1 r2 →
      EqT R (listItems tab pb st2 r1 lst items) (listItems tab pb st2 r2 lst items) := by
  intro items
  induction items with
  | nil => intro r1 r2 lst hr; exact eqt_some hr _
  | cons item items ih =>
    intro r1 r2 lst hr
    simp only [listItems]
    by_cases hi : startsWith item (spaces tab) = true
    · simp only [hi, if_true]
      cases hl : lst.last? with
      | none => exact ih r1 r2 lst hr
      | some l =>
        simp only []
        rcases hs st2 r1 r2 l [item] hr with ⟨e1, e2⟩ | ⟨n, q1, q2, e1, e2, hq⟩ <;> rw [e1, e2]
        · exact Or.inl ⟨rfl, rfl⟩
        · exact ih q1 q2 _ hq
    · simp only [hi, Bool.false_eq_true, if_false]
      rcases hs st2 r1 r2 (Node.el "li") [item] hr with ⟨e1, e2⟩ | ⟨n, q1, q2, e1, e2, hq⟩ <;> rw [e1, e2]
      · exact Or.inl ⟨rfl, rfl⟩
      · exact ih q1 q2 _ hq

theorem listPX_rel (hs : RelPB R pb) (hr : R r1 r2) (p : ListParams) (tag : String) :
    EqR R (listPX p tab pb state r1 parent b rest tag) (listPX p tab pb state r2 parent b rest tag) := by
  simp only [listPX]
  split
  · refine eqr_bind _ (hs _ r1 r2 _ _ hr) ?_
    intro newli q1 q2 hq
    exact eqr_of_pair (fun l => parent.setLast l) rest (listItems_rel hs _ _ q1 q2 _ hq)
  · by_cases hl : isListTag parent = true
    · simp only [hl, if_true]
      exact eqr_of_pair (fun l => l) rest (listItems_rel hs _ _ r1 r2 _ hr)
    · simp only [hl, Bool.false_eq_true, if_false]
      exact eqr_of_pair (fun l => parent.append l) rest (listItems_rel hs _ _ r1 r2 _ hr)

theorem listP_rel (hs : RelPB R pb) (hr : R r1 r2) (tag : String) :
    EqR R (listP tab pb state r1 parent b rest tag) (listP tab pb state r2 parent b rest tag) := by
  rw [← listPX_default, ← listPX_default]
  exact listPX_rel hs hr _ tag

theorem quoteP_rel (hs : RelPB R pb) (hr : R r1 r2) (q : Nat) :
    EqR R (quoteP pb state r1 parent b rest q) (quoteP pb state r2 parent b rest q) := by
  simp only [quoteP]
  refine eqr_bind _ (hs _ r1 r2 _ _ hr) ?_
  intro par q1 q2 hq
  split
  · exact eqr_of_pair (fun l => par.setLast l) rest (hs.chunk _ hq _ _)
  · exact eqr_of_pair (fun l => par.append l) rest (hs.chunk _ hq _ _)

theorem indentPX_rel (hs : RelPB R pb) (hr : R r1 r2) (isL isI : Node → Bool) (itemTag : String) :
    EqR R (indentPX isL isI itemTag tab pb state r1 parent b rest)
          (indentPX isL isI itemTag tab pb state r2 parent b rest) := by
  simp only [indentPX]
  generalize getLevelX isL isI tab state parent b = lv
  obtain ⟨level, steps⟩ := lv
  simp only []
  by_cases h1 : isI parent = true
  · simp only [h1, if_true]
    split
    · exact eqr_of_pair (fun l => parent.setLast l) rest (hs _ r1 r2 _ _ hr)
    · exact eqr_of_pair (fun l => l) rest (hs _ r1 r2 _ _ hr)
  · simp only [h1, Bool.false_eq_true, if_false]
    by_cases h2 : isI (nodeAt steps parent) = true
    · simp only [h2, if_true]
      exact eqr_of_pair (fun l => updPath (fun _ => l) steps parent) rest (hs _ r1 r2 _ _ hr)
    · simp only [h2, Bool.false_eq_true, if_false]
      split
      · exact eqr_of_pair (fun l => updPath (fun s => s.setLast l) steps parent) rest (hs.chunk _ hr _ _)
      · exact eqr_of_pair (fun l => updPath (fun s => s.append l) steps parent) rest (hs _ r1 r2 _ _ hr)

theorem indentP_rel (hs : RelPB R pb) (hr : R r1 r2) :
    EqR R (indentP tab pb state r1 parent b rest) (indentP tab pb state r2 parent b rest) := by
  rw [← indentPX_core, ← indentPX_core]
  exact indentPX_rel hs hr _ _ "li"

theorem admonitionP_rel (hs : RelPB R pb) (hr : R r1 r2) (hit : AdmHit) :
    EqR R (admonitionP tab pb state r1 parent b rest hit) (admonitionP tab pb state r2 parent b rest hit) := by
  cases hit with
  | re st en g1 g2 =>
    simp only [admonitionP]
    refine eqr_bind _ ?_ ?_
    · by_cases hst : st > 0
      · rw [if_pos hst, if_pos hst]; exact hs _ r1 r2 _ _ hr
      · rw [if_neg hst, if_neg hst]; exact eqt_some hr _
    · intro par q1 q2 hq
      exact eqr_of_pair (fun l => par.append l) _ (hs.chunk _ hq _ _)
  | sib steps indent =>
    simp only [admonitionP]
    exact eqr_of_pair (fun l => updPath (fun _ => l) steps parent) _ (hs.chunk _ hr _ _)

/-- two results of `defListP`: both decline, or both answer alike -/
def EqRR (R : Refs → Refs → Prop) (z1 z2 : Option (Option (Node × Refs × List Str))) : Prop :=
  (z1 = none ∧ z2 = none) ∨ ∃ y1 y2, z1 = some y1 ∧ z2 = some y2 ∧ EqR R y1 y2

theorem defListP_rel (hs : RelPB R pb) (hr : R r1 r2) (m : Nat × Nat × Str) :
    EqRR R (defListP tab pb state r1 parent b rest m) (defListP tab pb state r2 parent b rest m) := by
  obtain ⟨st, en, g2⟩ := m
  simp only [defListP]
  generalize (if defNoIndent (b.drop en) = true then (b.drop en, ([] : Str)) else detab tab (b.drop en)) = dt
  obtain ⟨d0, theRest⟩ := dt
  simp only []
  cases parent.last? with
  | none =>
    simp only []
    split
    · exact Or.inl ⟨rfl, rfl⟩
    · exact Or.inr ⟨_, _, rfl, rfl, eqr_of_pair (fun dd => parent.append ((addTerms (Node.el "dl") _).append dd)) _
        (hs _ r1 r2 _ _ hr)⟩
  | some sibling =>
    simp only []
    refine Or.inr ⟨_, _, rfl, rfl, ?_⟩
    split
    · exact eqr_of_pair (fun dd => Node.setLast _ ((addTerms _ _).append dd)) _ (hs _ r1 r2 _ _ hr)
    · exact eqr_of_pair (fun dd => Node.append _ ((addTerms (Node.el "dl") _).append dd)) _ (hs _ r1 r2 _ _ hr)

/-! ### the processors that do not recurse and do not write -/

theorem emptyP_rel (hr : R r1 r2) : EqR R (some (emptyP r1 parent b rest)) (some (emptyP r2 parent b rest)) := by
  simp only [emptyP]
  cases parent.last? with
  | none => exact eqr_some hr _ _
  | some sib =>
    simp only []
    cases preCode sib <;> exact eqr_some hr _ _

theorem codeP_rel (hr : R r1 r2) : EqR R (some (codeP tab r1 parent b rest)) (some (codeP tab r2 parent b rest)) := by
  simp only [codeP]
  cases parent.last? with
  | none => exact eqr_some hr _ _
  | some sib =>
    simp only []
    cases preCode sib <;> exact eqr_some hr _ _

theorem setextP_rel (hr : R r1 r2) : EqR R (some (setextP r1 parent b rest)) (some (setextP r2 parent b rest)) :=
  eqr_some hr _ _

theorem tableP_rel (hr : R r1 r2) (bs : Nat × List Str) :
    EqR R (some (tableP r1 parent b rest bs)) (some (tableP r2 parent b rest bs)) := eqr_some hr _ _

theorem paraP_rel (hr : R r1 r2) : EqR R (some (paraP state r1 parent b rest)) (some (paraP state r2 parent b rest)) := by
  simp only [paraP]
  by_cases h1 : isBlank b = true
  · simp only [h1, if_true]; exact eqr_some hr _ _
  · simp only [h1, Bool.false_eq_true, if_false]
    by_cases h2 : isstate state .list = true
    · simp only [h2, if_true]
      cases parent.last? <;> exact eqr_some hr _ _
    · simp only [h2, Bool.false_eq_true, if_false]; exact eqr_some hr _ _

/-! ### the writing processors, the dispatcher -/

/-- `R` is respected by the three processors that write to the log -/
structure RelStep (R : Refs → Refs → Prop) (cfg : XCfg) : Prop where
  /-- `ReferenceProcessor`, `FootnoteBlockProcessor`: the same entry is appended to both logs -/
  snoc : ∀ {r1 r2 : Refs} (e : Str × (Str × Option Str)), R r1 r2 → R (r1 ++ [e]) (r2 ++ [e])
  /-- `AbbrBlockprocessor`: both decline, or both answer with the same remaining blocks and related logs -/
  ab : cfg.abbr = true → ∀ {r1 r2 : Refs} (b : Str) (rest : List Str), R r1 r2 →
    (abbrP r1 b rest = .declined ∧ abbrP r2 b rest = .declined) ∨
    ∃ q1 q2 rest', abbrP r1 b rest = .ok (q1, rest') ∧ abbrP r2 b rest = .ok (q2, rest') ∧ R q1 q2

variable {cfg : XCfg}

theorem referenceP_rel (hl : RelStep R cfg) (hr : R r1 r2) (m : Nat × Nat × Str × Str × Option Str × Option Str) :
    EqR R (some (referenceP r1 parent b rest m)) (some (referenceP r2 parent b rest m)) := by
  obtain ⟨st, en, ident, link, t5, t6⟩ := m
  exact eqr_some (hl.snoc _ hr) _ _

theorem tailRef_rel (hl : RelStep R cfg) (hr : R r1 r2) :
    EqR R (tailRef state r1 parent b rest) (tailRef state r2 parent b rest) := by
  simp only [tailRef]
  split
  · exact referenceP_rel hl hr _
  · exact paraP_rel hr

theorem tailAbbr_rel (hl : RelStep R cfg) (hr : R r1 r2) :
    EqR R (tailAbbr cfg state r1 parent b rest) (tailAbbr cfg state r2 parent b rest) := by
  simp only [tailAbbr]
  by_cases hc : cfg.abbr = true
  · simp only [hc, if_true]
    rcases hl.ab hc b rest hr with ⟨e1, e2⟩ | ⟨q1, q2, rest', e1, e2, hq⟩
    · rw [e1, e2]; exact tailRef_rel hl hr
    · rw [e1, e2]; exact eqr_some hq _ _
  · simp only [hc, Bool.false_eq_true, if_false]; exact tailRef_rel hl hr

theorem footnoteP_rel (hl : RelStep R cfg) (hr : R r1 r2) :
    (footnoteP r1 b rest = none ∧ footnoteP r2 b rest = none) ∨
    ∃ q1 q2 rest', footnoteP r1 b rest = some (q1, rest') ∧ footnoteP r2 b rest = some (q2, rest') ∧ R q1 q2 := by
  simp only [footnoteP]
  split
  · exact Or.inl ⟨rfl, rfl⟩
  · exact Or.inr ⟨_, _, _, rfl, rfl, hl.snoc _ hr⟩

theorem tailFootnote_rel (hl : RelStep R cfg) (hr : R r1 r2) :
    EqR R (tailFootnote cfg state r1 parent b rest) (tailFootnote cfg state r2 parent b rest) := by
  simp only [tailFootnote]
  by_cases hc : cfg.footnotes = true
  · simp only [hc, if_true]
    rcases footnoteP_rel (b := b) (rest := rest) hl hr with ⟨e1, e2⟩ | ⟨q1, q2, rest', e1, e2, hq⟩
    · rw [e1, e2]; exact tailAbbr_rel hl hr
    · rw [e1, e2]; exact eqr_some hq _ _
  · simp only [hc, Bool.false_eq_true, if_false]; exact tailAbbr_rel hl hr

theorem tailQuote_rel (hl : RelStep R cfg) (hs : RelPB R pb) (hr : R r1 r2) :
    EqR R (tailQuote cfg pb state r1 parent b rest) (tailQuote cfg pb state r2 parent b rest) := by
  simp only [tailQuote]
  split
  · exact quoteP_rel hs hr _
  · exact tailFootnote_rel hl hr

theorem tailDef_rel (hl : RelStep R cfg) (hs : RelPB R pb) (hr : R r1 r2) :
    EqR R (tailDef cfg tab pb state r1 parent b rest) (tailDef cfg tab pb state r2 parent b rest) := by
  simp only [tailDef]
  by_cases hc : cfg.defList = true
  · simp only [hc, if_true]
    cases hm : defSearch b with
    | none => exact tailQuote_rel hl hs hr
    | some m =>
      simp only []
      rcases defListP_rel (tab := tab) (state := state) (parent := parent) (b := b) (rest := rest) hs hr m with
        ⟨e1, e2⟩ | ⟨y1, y2, e1, e2, h⟩
      · rw [e1, e2]; exact tailQuote_rel hl hs hr
      · rw [e1, e2]; exact h
  · simp only [hc, Bool.false_eq_true, if_false]; exact tailQuote_rel hl hs hr

theorem tailList_rel (hl : RelStep R cfg) (hs : RelPB R pb) (hr : R r1 r2) :
    EqR R (tailList cfg tab pb state r1 parent b rest) (tailList cfg tab pb state r2 parent b rest) := by
  simp only [tailList]
  by_cases h1 : (listItemMatch tab true false b).isSome = true
  · simp only [h1, if_true]
    by_cases hc : cfg.saneLists = true
    · simp only [hc, if_true]; exact listPX_rel hs hr _ "ol"
    · simp only [hc, Bool.false_eq_true, if_false]; exact listP_rel hs hr "ol"
  · simp only [h1, Bool.false_eq_true, if_false]
    by_cases h2 : (listItemMatch tab false true b).isSome = true
    · simp only [h2, if_true]
      by_cases hc : cfg.saneLists = true
      · simp only [hc, if_true]; exact listPX_rel hs hr _ "ul"
      · simp only [hc, Bool.false_eq_true, if_false]; exact listP_rel hs hr "ul"
    · simp only [h2, Bool.false_eq_true, if_false]; exact tailDef_rel hl hs hr

theorem tailEmptyT_rel (tables : Bool) (hl : RelStep R cfg) (hs : RelPB R pb) (hr : R r1 r2) :
    EqR R (tailEmptyT tables cfg tab pb state r1 parent b rest) (tailEmptyT tables cfg tab pb state r2 parent b rest) := by
  simp only [tailEmptyT]
  refine eqr_ite _ (fun _ => emptyP_rel hr) (fun _ => ?_)
  refine eqr_ite _ (fun _ => indentP_rel hs hr) (fun _ => ?_)
  refine eqr_ite _ (fun _ => indentPX_rel hs hr _ _ "dd") (fun _ => ?_)
  refine eqr_ite _ (fun _ => codeP_rel hr) (fun _ => ?_)
  split
  · exact tableP_rel hr _
  · split
    · exact hashP_rel hs hr _
    · refine eqr_ite _ (fun _ => setextP_rel hr) (fun _ => ?_)
      split
      · exact hrP_rel hs hr _
      · exact tailList_rel hl hs hr

theorem dispatchXT_rel (tables : Bool) (hl : RelStep R cfg) (hs : RelPB R pb) (hr : R r1 r2) :
    EqR R (dispatchXT tables cfg tab pb state r1 parent b rest) (dispatchXT tables cfg tab pb state r2 parent b rest) := by
  simp only [dispatchXT]
  split
  · exact admonitionP_rel hs hr _
  · exact tailEmptyT_rel tables hl hs hr

/-- **`parseBlocks` respects every relation that the writing processors respect** -/
theorem parseBlocksXT_rel (tables : Bool) (cfg : XCfg) (tab : Nat) (hl : RelStep R cfg) :
    ∀ fuel, RelPB R (parseBlocksXT tables cfg tab fuel) := by
  intro fuel
  induction fuel with
  | zero =>
    intro st q1 q2 p bl hr
    cases bl with
    | nil => exact eqt_some hr _
    | cons b rest => exact Or.inl ⟨rfl, rfl⟩
  | succ f ih =>
    intro st q1 q2 p bl
    induction bl generalizing q1 q2 p with
    | nil => intro hr; exact eqt_some hr _
    | cons b rest _ =>
      intro hr
      simp only [parseBlocksXT]
      rcases dispatchXT_rel (tab := tab) (state := st) (parent := p) (b := b) (rest := rest) tables hl ih hr with
        ⟨e1, e2⟩ | ⟨n, s1, s2, bl', e1, e2, hq⟩
      · rw [e1, e2]; exact Or.inl ⟨rfl, rfl⟩
      · rw [e1, e2]; exact ih st s1 s2 n bl' hq

/-! ### instance 1: the tree does not depend on the log -/

theorem abbrP_cases (r1 r2 : Refs) (b : Str) (rest : List Str) :
    (abbrP r1 b rest = .declined ∧ abbrP r2 b rest = .declined) ∨
    ∃ q1 q2 rest', abbrP r1 b rest = .ok (q1, rest') ∧ abbrP r2 b rest = .ok (q2, rest') := by
  simp only [abbrP]
  split
  · exact Or.inl ⟨rfl, rfl⟩
  · split
    · exact Or.inl ⟨rfl, rfl⟩
    · refine Or.inr ?_
      repeat' split
      all_goals exact ⟨_, _, _, rfl, rfl⟩

theorem relStep_true (cfg : XCfg) : RelStep (fun _ _ => True) cfg where
  snoc := fun _ _ => trivial
  ab := by
    intro _ r1 r2 b rest _
    rcases abbrP_cases r1 r2 b rest with h | ⟨q1, q2, rest', e1, e2⟩
    · exact Or.inl h
    · exact Or.inr ⟨q1, q2, rest', e1, e2, trivial⟩

/-- **the tree that `parseBlocks` builds does not depend on the log it starts from** -/
theorem parseBlocksXT_indep (tables : Bool) (cfg : XCfg) (tab fuel : Nat) (st : List BState) (r1 r2 : Refs) (p : Node)
    (bl : List Str) :
    (parseBlocksXT tables cfg tab fuel st r1 p bl).map (·.1) = (parseBlocksXT tables cfg tab fuel st r2 p bl).map (·.1) := by
  rcases parseBlocksXT_rel tables cfg tab (relStep_true cfg) fuel st r1 r2 p bl trivial with
    ⟨e1, e2⟩ | ⟨n, q1, q2, e1, e2, _⟩ <;> rw [e1, e2] <;> rfl

/-- `parser.parseDocument` from two carried logs: the same tree -/
theorem docParseS_indep (x : PipelineX.Exts) (cfg : Pipeline.Cfg) (L1 L2 : Refs) (text : Str) :
    (docParseS x cfg L1 text).map (·.1) = (docParseS x cfg L2 text).map (·.1) :=
  parseBlocksXT_indep x.tables x.blockCfg cfg.tab _ [] L1 L2 _ _

/-! ### instance 2: the run from a carried log writes what the run from the empty log writes -/

theorem abbrsOf_append_noAb (L r : Refs) (hL : ∀ e ∈ L, isAbEntry e = false) : abbrsOf (L ++ r) = abbrsOf r := by
  have h0 : ∀ (d : List (Str × Str)), L.foldl (fun d e =>
      if isAbEntry e then (if e.2.1.isEmpty then dictPop d (e.1.drop 2) else dictSet d (e.1.drop 2) e.2.1) else d) d = d := by
    induction L with
    | nil => intro d; rfl
    | cons e L ih =>
      intro d
      simp only [List.foldl_cons, hL e (List.mem_cons_self), Bool.false_eq_true, if_false]
      exact ih (fun e' he' => hL e' (List.mem_cons_of_mem _ he')) d
  simp only [abbrsOf, List.foldl_append, h0]

theorem relStep_shift (cfg : XCfg) (L : Refs) (hL : cfg.abbr = true → ∀ e ∈ L, isAbEntry e = false) :
    RelStep (fun r1 r2 => r1 = L ++ r2) cfg where
  snoc := by
    intro r1 r2 e h
    rw [h, List.append_assoc]
  ab := by
    intro hc r1 r2 b rest h
    subst h
    simp only [abbrP, abbrsOf_append_noAb L r2 (hL hc)]
    split
    · exact Or.inl ⟨rfl, rfl⟩
    · split
      · exact Or.inl ⟨rfl, rfl⟩
      · refine Or.inr ?_
        split
        · split
          · exact ⟨_, _, _, rfl, rfl, by rw [List.append_assoc]⟩
          · exact ⟨_, _, _, rfl, rfl, rfl⟩
        · exact ⟨_, _, _, rfl, rfl, by rw [List.append_assoc]⟩

/-- **the run of `parseBlocks` from the log `L ++ r` is the run from `r`, with `L` in front of the final log**
    (`L` without abbreviation entries when `abbr` is enabled: a pop looks at the table) -/
theorem parseBlocksXT_shift (tables : Bool) (cfg : XCfg) (tab fuel : Nat) (L : Refs)
    (hL : cfg.abbr = true → ∀ e ∈ L, isAbEntry e = false) (st : List BState) (r : Refs) (p : Node) (bl : List Str) :
    parseBlocksXT tables cfg tab fuel st (L ++ r) p bl =
      (parseBlocksXT tables cfg tab fuel st r p bl).map (fun q => (q.1, L ++ q.2)) := by
  rcases parseBlocksXT_rel tables cfg tab (relStep_shift cfg L hL) fuel st (L ++ r) r p bl rfl with
    ⟨e1, e2⟩ | ⟨n, q1, q2, e1, e2, hq⟩
  · rw [e1, e2]; rfl
  · rw [e1, e2, hq]; rfl

/-- `parser.parseDocument` from a carried log `L`: the tree and the writes of the run from the empty log -/
theorem docParseS_shift (x : PipelineX.Exts) (cfg : Pipeline.Cfg) (L : Refs)
    (hL : x.abbr = true → ∀ e ∈ L, isAbEntry e = false) (text : Str) :
    docParseS x cfg L text = (docParseS x cfg [] text).map (fun q => (q.1, L ++ q.2)) := by
  have := parseBlocksXT_shift x.tables x.blockCfg cfg.tab (fuelForX text.length) L hL [] [] (Node.el "div")
    (splitS ['\n', '\n'] text)
  rw [List.append_nil] at this
  exact this

/-- without fenced code the preprocessors do not look at the stash -/
theorem prepareS_nofence (x : PipelineX.Exts) (cfg : Pipeline.Cfg) (html : List Str) (src : Str)
    (hf : x.fencedCode = false) :
    prepareS x cfg html src =
      if (x.admonition && PipelineX.admNonAscii (Normalize.normalize cfg.tab src)) = true then .ood
      else .ok (Extract.extract (Normalize.normalize cfg.tab src), html) := by
  simp only [prepareS, prepareST, hf, Bool.false_eq_true, if_false]

/-! ### the log after a conversion without the footnotes extension -/

/-- without footnotes the stages after the block parser do not write to the tables -/
theorem lateS_log_eq {x : PipelineX.Exts} {cfg : Pipeline.Cfg} {st st' : MdSt} {stash : List Str} {root u : Node}
    {log : Refs} (hfn : x.footnotes = false) (h : lateS x cfg st stash root log = .ok u st') : st'.log = log := by
  unfold lateS at h
  simp only [hfn, Bool.false_eq_true, if_false] at h
  generalize InlineX.runLoopX _ _ _ _ _ _ = rl at h
  cases rl with
  | none => cases h
  | some p =>
    obtain ⟨t, xs⟩ := p
    simp only [] at h
    generalize (if x.toc = true then TocTree.run _ _ _ else TocTree.R.ok _) = ts at h
    cases ts with
    | oof => cases h
    | err => cases h
    | ood => cases h
    | ok t =>
      simp only [] at h
      cases hu : TreeProc.unescapeTree t with
      | none => rw [hu] at h; cases h
      | some u' =>
        rw [hu] at h
        injection h with _ h
        rw [← h]

/-- the table writes of the block parser for the document `src` on an instance without carried tables (and without
    `fenced_code`: no placeholders in the text): `[]` when the preprocessors or the parser do not answer -/
def docWrites (x : PipelineX.Exts) (cfg : Pipeline.Cfg) (src : Str) : Refs :=
  match prepareS x cfg [] src with
  | .ok (text, _) => ((docParseS x cfg [] text).map (·.2)).getD []
  | _ => []

theorem treeS_log_exact {x : PipelineX.Exts} {cfg : Pipeline.Cfg} {st st' : MdSt} {src : Str} {u : Node}
    (hfn : x.footnotes = false) (hfc : x.fencedCode = false)
    (hL : x.abbr = true → ∀ e ∈ st.log, isAbEntry e = false)
    (h : treeS x cfg st src = .ok u st') : st'.log = st.log ++ docWrites x cfg src := by
  rw [treeS_stages, prepareS_nofence x cfg _ src hfc] at h
  simp only [docWrites, prepareS_nofence x cfg _ src hfc]
  by_cases hc : (x.admonition && PipelineX.admNonAscii (Normalize.normalize cfg.tab src)) = true
  · simp only [hc, if_true] at h; cases h
  · simp only [hc, Bool.false_eq_true, if_false] at h ⊢
    rw [docParseS_shift x cfg st.log hL] at h
    cases hd : docParseS x cfg [] (Extract.extract (Normalize.normalize cfg.tab src)) with
    | none => rw [hd] at h; cases h
    | some q =>
      obtain ⟨root, w⟩ := q
      rw [hd] at h
      simp only [Option.map_some, Option.getD_some] at h ⊢
      exact lateS_log_eq hfn h

/-- a non-blank document that leaves a tracked state went through `treeS` -/
theorem convertS_tracked_tree (x : PipelineX.Exts) (cfg : Pipeline.Cfg) (st : MdSt) (src : Str)
    (hnb : Normalize.isBlankDoc src = false) (hok : (convertS x cfg st src).2.valid = true) :
    ∃ u, treeS x cfg st src = .ok u (convertS x cfg st src).2 := by
  unfold convertS at hok ⊢
  cases hv : st.valid with
  | false => simp [hv] at hok
  | true =>
    simp only [hv, Bool.not_true, Bool.false_eq_true, if_false] at hok ⊢
    simp only [List.contains_iff_mem] at hok ⊢
    by_cases h1 : '<' ∈ src
    · simp [h1, MdSt.invalid] at hok
    · simp only [h1, if_false] at hok ⊢
      by_cases h2 : x.unsupported = true
      · simp [h2, MdSt.invalid] at hok
      · simp only [h2, hnb, Bool.false_eq_true, if_false] at hok ⊢
        cases ht : treeS x cfg st src with
        | oof => simp [ht, MdSt.invalid] at hok
        | err => simp [ht, MdSt.invalid] at hok
        | ood => simp [ht, MdSt.invalid] at hok
        | ok u st' =>
          simp only [ht] at hok ⊢
          cases hf : PipelineX.finishX x cfg st'.html (Ser.serialize cfg.fmt u) with
          | ok out => exact ⟨u, rfl⟩
          | oof => simp [hf, MdSt.invalid] at hok
          | err => simp [hf, MdSt.invalid] at hok
          | ood => simp [hf, MdSt.invalid] at hok

theorem convertS_log_exact (x : PipelineX.Exts) (cfg : Pipeline.Cfg) (st : MdSt) (src : Str)
    (hfn : x.footnotes = false) (hfc : x.fencedCode = false)
    (hL : x.abbr = true → ∀ e ∈ st.log, isAbEntry e = false)
    (hnb : Normalize.isBlankDoc src = false)
    (hok : (convertS x cfg st src).2.valid = true) :
    (convertS x cfg st src).2.log = st.log ++ docWrites x cfg src := by
  obtain ⟨u, hu⟩ := convertS_tracked_tree x cfg st src hnb hok
  exact treeS_log_exact hfn hfc hL hu

end MdVerif.InstanceX
