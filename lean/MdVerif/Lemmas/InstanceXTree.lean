/-
The element tree that the (extended) block parser builds for a document does not depend on the log it starts from
(`md.references`, the footnote table, the abbreviation table carried over from earlier documents): the processors only
hand the log to the recursive calls and back, and the three writing processors decide what they build from the block
alone (`AbbrBlockprocessor` reads the abbreviation table, but only to decide whether there is something to pop).
Binary analogue of `Lemmas/PipelineXInertLog.lean`.  Core Lean only.
-/
import MdVerif.Lemmas.InstanceXLog

namespace MdVerif.InstanceX
open Py Block BlockExt

/-- two results of `parseBlocks` with the same tree (and the same definedness) -/
def EqT (x1 x2 : Option (Node × Refs)) : Prop := x1.map (·.1) = x2.map (·.1)
/-- two results of a processor with the same tree and the same remaining blocks -/
def EqR (y1 y2 : Option (Node × Refs × List Str)) : Prop :=
  y1.map (fun t => (t.1, t.2.2)) = y2.map (fun t => (t.1, t.2.2))

/-- the recursive-call callback builds the same tree from any two logs -/
def TreeIndep (pb : PB) : Prop := ∀ st r1 r2 p bl, EqT (pb st r1 p bl) (pb st r2 p bl)

theorem eqr_none : EqR none none := rfl
theorem eqr_some (n : Node) (r1 r2 : Refs) (rest : List Str) : EqR (some (n, r1, rest)) (some (n, r2, rest)) := rfl
theorem eqt_some (n : Node) (r1 r2 : Refs) : EqT (some (n, r1)) (some (n, r2)) := rfl

theorem eqt_cases {x1 x2 : Option (Node × Refs)} (h : EqT x1 x2) :
    (x1 = none ∧ x2 = none) ∨ ∃ n r1 r2, x1 = some (n, r1) ∧ x2 = some (n, r2) := by
  unfold EqT at h
  cases x1 with
  | none =>
    cases x2 with
    | none => exact Or.inl ⟨rfl, rfl⟩
    | some p => cases h
  | some p =>
    cases x2 with
    | none => cases h
    | some q =>
      obtain ⟨n, r1⟩ := p
      obtain ⟨m, r2⟩ := q
      simp only [Option.map_some, Option.some.injEq] at h
      subst h
      exact Or.inr ⟨n, r1, r2, rfl, rfl⟩

theorem eqr_of_pair {x1 x2 : Option (Node × Refs)} (f : Node → Node) (rest : List Str) (h : EqT x1 x2) :
    EqR (match (generalizing := false) x1 with | some (n, r) => some (f n, r, rest) | none => none)
        (match (generalizing := false) x2 with | some (n, r) => some (f n, r, rest) | none => none) := by
  rcases eqt_cases h with ⟨e1, e2⟩ | ⟨n, r1, r2, e1, e2⟩ <;> subst e1 e2 <;> rfl

theorem eqr_bind {x1 x2 : Option (Node × Refs)} (K : Node → Refs → Option (Node × Refs × List Str)) (h : EqT x1 x2)
    (hK : ∀ n r1 r2, EqR (K n r1) (K n r2)) :
    EqR (match (generalizing := false) x1 with | none => none | some (n, r) => K n r)
        (match (generalizing := false) x2 with | none => none | some (n, r) => K n r) := by
  rcases eqt_cases h with ⟨e1, e2⟩ | ⟨n, r1, r2, e1, e2⟩ <;> subst e1 e2
  · rfl
  · exact hK n r1 r2

theorem eqt_bind {x1 x2 : Option (Node × Refs)} (K : Node → Refs → Option (Node × Refs)) (h : EqT x1 x2)
    (hK : ∀ n r1 r2, EqT (K n r1) (K n r2)) :
    EqT (match (generalizing := false) x1 with | some (n, r) => K n r | none => none)
        (match (generalizing := false) x2 with | some (n, r) => K n r | none => none) := by
  rcases eqt_cases h with ⟨e1, e2⟩ | ⟨n, r1, r2, e1, e2⟩ <;> subst e1 e2
  · rfl
  · exact hK n r1 r2

theorem TreeIndep.chunk {pb : PB} (hs : TreeIndep pb) (st : List BState) (r1 r2 : Refs) (p : Node) (text : Str) :
    EqT (parseChunk pb st r1 p text) (parseChunk pb st r2 p text) := hs _ _ _ _ _

variable {pb : PB} {tab : Nat} {state : List BState} {r1 r2 : Refs} {parent : Node} {b : Str} {rest : List Str}

theorem hashP_indep (hs : TreeIndep pb) (m : Nat × Nat × Nat × Str) :
    EqR (hashP tab pb state r1 parent b rest m) (hashP tab pb state r2 parent b rest m) := by
  obtain ⟨st, en, lv, header⟩ := m
  simp only [hashP]
  by_cases he : (b.take st).isEmpty = true
  · simp only [he, if_true]; rfl
  · simp only [he, Bool.false_eq_true, if_false]
    rcases eqt_cases (hs state r1 r2 parent [b.take st]) with ⟨e1, e2⟩ | ⟨n, q1, q2, e1, e2⟩ <;> rw [e1, e2] <;> rfl

theorem hrP_indep (hs : TreeIndep pb) (m : Nat × Nat) :
    EqR (hrP pb state r1 parent b rest m) (hrP pb state r2 parent b rest m) := by
  obtain ⟨st, en⟩ := m
  simp only [hrP]
  by_cases he : (rstripC '\n' (b.take st)).isEmpty = true
  · simp only [he, if_true]; rfl
  · simp only [he, Bool.false_eq_true, if_false]
    rcases eqt_cases (hs state r1 r2 parent [rstripC '\n' (b.take st)]) with ⟨e1, e2⟩ | ⟨n, q1, q2, e1, e2⟩ <;>
      rw [e1, e2] <;> rfl

theorem listItems_indep (hs : TreeIndep pb) (st2 : List BState) :
    ∀ (items : List Str) (r1 r2 : Refs) (lst : Node),
      EqT (listItems tab pb st2 r1 lst items) (listItems tab pb st2 r2 lst items) := by
  intro items
  induction items with
  | nil => intro r1 r2 lst; rfl
  | cons item items ih =>
    intro r1 r2 lst
    simp only [listItems]
    by_cases hi : startsWith item (spaces tab) = true
    · simp only [hi, if_true]
      cases hl : lst.last? with
      | none => exact ih r1 r2 lst
      | some l =>
        simp only []
        rcases eqt_cases (hs st2 r1 r2 l [item]) with ⟨e1, e2⟩ | ⟨n, q1, q2, e1, e2⟩ <;> rw [e1, e2]
        · rfl
        · exact ih q1 q2 _
    · simp only [hi, Bool.false_eq_true, if_false]
      rcases eqt_cases (hs st2 r1 r2 (Node.el "li") [item]) with ⟨e1, e2⟩ | ⟨n, q1, q2, e1, e2⟩ <;> rw [e1, e2]
      · rfl
      · exact ih q1 q2 _

/-! ### the processors that recurse -/

theorem listPX_indep (hs : TreeIndep pb) (p : ListParams) (tag : String) :
    EqR (listPX p tab pb state r1 parent b rest tag) (listPX p tab pb state r2 parent b rest tag) := by
  simp only [listPX]
  split
  · refine eqr_bind _ (hs _ r1 r2 _ _) ?_
    intro newli q1 q2
    exact eqr_of_pair (fun l => parent.setLast l) rest (listItems_indep hs _ _ q1 q2 _)
  · by_cases hl : isListTag parent = true
    · simp only [hl, if_true]
      exact eqr_of_pair (fun l => l) rest (listItems_indep hs _ _ r1 r2 _)
    · simp only [hl, Bool.false_eq_true, if_false]
      exact eqr_of_pair (fun l => parent.append l) rest (listItems_indep hs _ _ r1 r2 _)

theorem listP_indep (hs : TreeIndep pb) (tag : String) :
    EqR (listP tab pb state r1 parent b rest tag) (listP tab pb state r2 parent b rest tag) := by
  rw [← listPX_default, ← listPX_default]
  exact listPX_indep hs _ tag

theorem quoteP_indep (hs : TreeIndep pb) (q : Nat) :
    EqR (quoteP pb state r1 parent b rest q) (quoteP pb state r2 parent b rest q) := by
  simp only [quoteP]
  refine eqr_bind _ (hs _ r1 r2 _ _) ?_
  intro par q1 q2
  split
  · exact eqr_of_pair (fun l => par.setLast l) rest (hs.chunk _ q1 q2 _ _)
  · exact eqr_of_pair (fun l => par.append l) rest (hs.chunk _ q1 q2 _ _)

theorem indentPX_indep (hs : TreeIndep pb) (isL isI : Node → Bool) (itemTag : String) :
    EqR (indentPX isL isI itemTag tab pb state r1 parent b rest)
        (indentPX isL isI itemTag tab pb state r2 parent b rest) := by
  simp only [indentPX]
  generalize getLevelX isL isI tab state parent b = lv
  obtain ⟨level, steps⟩ := lv
  simp only []
  by_cases h1 : isI parent = true
  · simp only [h1, if_true]
    split
    · exact eqr_of_pair (fun l => parent.setLast l) rest (hs _ r1 r2 _ _)
    · exact eqr_of_pair (fun l => l) rest (hs _ r1 r2 _ _)
  · simp only [h1, Bool.false_eq_true, if_false]
    by_cases h2 : isI (nodeAt steps parent) = true
    · simp only [h2, if_true]
      exact eqr_of_pair (fun l => updPath (fun _ => l) steps parent) rest (hs _ r1 r2 _ _)
    · simp only [h2, Bool.false_eq_true, if_false]
      split
      · exact eqr_of_pair (fun l => updPath (fun s => s.setLast l) steps parent) rest (hs.chunk _ r1 r2 _ _)
      · exact eqr_of_pair (fun l => updPath (fun s => s.append l) steps parent) rest (hs _ r1 r2 _ _)

theorem indentP_indep (hs : TreeIndep pb) :
    EqR (indentP tab pb state r1 parent b rest) (indentP tab pb state r2 parent b rest) := by
  rw [← indentPX_core, ← indentPX_core]
  exact indentPX_indep hs _ _ "li"

theorem admonitionP_indep (hs : TreeIndep pb) (hit : AdmHit) :
    EqR (admonitionP tab pb state r1 parent b rest hit) (admonitionP tab pb state r2 parent b rest hit) := by
  cases hit with
  | re st en g1 g2 =>
    simp only [admonitionP]
    refine eqr_bind _ ?_ ?_
    · by_cases hst : st > 0
      · rw [if_pos hst, if_pos hst]; exact hs _ r1 r2 _ _
      · rw [if_neg hst, if_neg hst]; rfl
    · intro par q1 q2
      exact eqr_of_pair (fun l => par.append l) _ (hs.chunk _ q1 q2 _ _)
  | sib steps indent =>
    simp only [admonitionP]
    exact eqr_of_pair (fun l => updPath (fun _ => l) steps parent) _ (hs.chunk _ r1 r2 _ _)

/-- two results of `defListP`: both decline, or both answer with the same tree and blocks -/
def EqRR (z1 z2 : Option (Option (Node × Refs × List Str))) : Prop :=
  (z1 = none ∧ z2 = none) ∨ ∃ y1 y2, z1 = some y1 ∧ z2 = some y2 ∧ EqR y1 y2

theorem defListP_indep (hs : TreeIndep pb) (m : Nat × Nat × Str) :
    EqRR (defListP tab pb state r1 parent b rest m) (defListP tab pb state r2 parent b rest m) := by
  obtain ⟨st, en, g2⟩ := m
  simp only [defListP]
  generalize (if defNoIndent (b.drop en) = true then (b.drop en, ([] : Str)) else detab tab (b.drop en)) = dt
  obtain ⟨d0, theRest⟩ := dt
  simp only []
  cases parent.last? with
  | none =>
    simp only []
    split
    · exact Or.inl ⟨rfl, rfl⟩
    · exact Or.inr ⟨_, _, rfl, rfl, eqr_of_pair (fun dd => parent.append ((addTerms (Node.el "dl") _).append dd)) _
        (hs _ r1 r2 _ _)⟩
  | some sibling =>
    simp only []
    refine Or.inr ⟨_, _, rfl, rfl, ?_⟩
    split
    · exact eqr_of_pair (fun dd => Node.setLast _ ((addTerms _ _).append dd)) _ (hs _ r1 r2 _ _)
    · exact eqr_of_pair (fun dd => Node.append _ ((addTerms (Node.el "dl") _).append dd)) _ (hs _ r1 r2 _ _)

/-! ### the processors that do not recurse -/

theorem emptyP_indep : EqR (some (emptyP r1 parent b rest)) (some (emptyP r2 parent b rest)) := by
  simp only [emptyP]
  cases parent.last? with
  | none => rfl
  | some sib =>
    simp only []
    cases preCode sib <;> rfl

theorem codeP_indep : EqR (some (codeP tab r1 parent b rest)) (some (codeP tab r2 parent b rest)) := by
  simp only [codeP]
  cases parent.last? with
  | none => rfl
  | some sib =>
    simp only []
    cases preCode sib <;> rfl

theorem setextP_indep : EqR (some (setextP r1 parent b rest)) (some (setextP r2 parent b rest)) := rfl

theorem tableP_indep (bs : Nat × List Str) :
    EqR (some (tableP r1 parent b rest bs)) (some (tableP r2 parent b rest bs)) := rfl

theorem referenceP_indep (m : Nat × Nat × Str × Str × Option Str × Option Str) :
    EqR (some (referenceP r1 parent b rest m)) (some (referenceP r2 parent b rest m)) := by
  obtain ⟨st, en, ident, link, t5, t6⟩ := m
  rfl

theorem paraP_indep : EqR (some (paraP state r1 parent b rest)) (some (paraP state r2 parent b rest)) := by
  simp only [paraP]
  by_cases h1 : isBlank b = true
  · simp only [h1, if_true]; rfl
  · simp only [h1, Bool.false_eq_true, if_false]
    by_cases h2 : isstate state .list = true
    · simp only [h2, if_true]
      cases parent.last? <;> rfl
    · simp only [h2, Bool.false_eq_true, if_false]; rfl

variable {cfg : XCfg}

/-! ### the writing processors, the dispatcher -/

theorem tailRef_indep : EqR (tailRef state r1 parent b rest) (tailRef state r2 parent b rest) := by
  simp only [tailRef]
  split
  · exact referenceP_indep _
  · exact paraP_indep

/-- what `AbbrBlockprocessor.run` does besides writing to the table does not depend on the table -/
theorem abbrP_indep :
    (abbrP r1 b rest = .declined ∧ abbrP r2 b rest = .declined) ∨
    ∃ q1 q2 rest', abbrP r1 b rest = .ok (q1, rest') ∧ abbrP r2 b rest = .ok (q2, rest') := by
  simp only [abbrP]
  split
  · exact Or.inl ⟨rfl, rfl⟩
  · split
    · exact Or.inl ⟨rfl, rfl⟩
    · refine Or.inr ?_
      repeat' split
      all_goals exact ⟨_, _, _, rfl, rfl⟩

theorem tailAbbr_indep : EqR (tailAbbr cfg state r1 parent b rest) (tailAbbr cfg state r2 parent b rest) := by
  simp only [tailAbbr]
  by_cases hc : cfg.abbr = true
  · simp only [hc, if_true]
    rcases abbrP_indep (r1 := r1) (r2 := r2) (b := b) (rest := rest) with ⟨e1, e2⟩ | ⟨q1, q2, rest', e1, e2⟩
    · rw [e1, e2]; exact tailRef_indep
    · rw [e1, e2]; rfl
  · simp only [hc, Bool.false_eq_true, if_false]; exact tailRef_indep

theorem footnoteP_indep :
    (footnoteP r1 b rest = none ∧ footnoteP r2 b rest = none) ∨
    ∃ q1 q2 rest', footnoteP r1 b rest = some (q1, rest') ∧ footnoteP r2 b rest = some (q2, rest') := by
  simp only [footnoteP]
  split
  · exact Or.inl ⟨rfl, rfl⟩
  · exact Or.inr ⟨_, _, _, rfl, rfl⟩

theorem tailFootnote_indep :
    EqR (tailFootnote cfg state r1 parent b rest) (tailFootnote cfg state r2 parent b rest) := by
  simp only [tailFootnote]
  by_cases hc : cfg.footnotes = true
  · simp only [hc, if_true]
    rcases footnoteP_indep (r1 := r1) (r2 := r2) (b := b) (rest := rest) with ⟨e1, e2⟩ | ⟨q1, q2, rest', e1, e2⟩
    · rw [e1, e2]; exact tailAbbr_indep
    · rw [e1, e2]; rfl
  · simp only [hc, Bool.false_eq_true, if_false]; exact tailAbbr_indep

theorem tailQuote_indep (hs : TreeIndep pb) :
    EqR (tailQuote cfg pb state r1 parent b rest) (tailQuote cfg pb state r2 parent b rest) := by
  simp only [tailQuote]
  split
  · exact quoteP_indep hs _
  · exact tailFootnote_indep

theorem tailDef_indep (hs : TreeIndep pb) :
    EqR (tailDef cfg tab pb state r1 parent b rest) (tailDef cfg tab pb state r2 parent b rest) := by
  simp only [tailDef]
  by_cases hc : cfg.defList = true
  · simp only [hc, if_true]
    cases hm : defSearch b with
    | none => exact tailQuote_indep hs
    | some m =>
      simp only []
      rcases defListP_indep (tab := tab) (state := state) (r1 := r1) (r2 := r2) (parent := parent) (b := b)
        (rest := rest) hs m with ⟨e1, e2⟩ | ⟨y1, y2, e1, e2, h⟩
      · rw [e1, e2]; exact tailQuote_indep hs
      · rw [e1, e2]; exact h
  · simp only [hc, Bool.false_eq_true, if_false]; exact tailQuote_indep hs

theorem tailList_indep (hs : TreeIndep pb) :
    EqR (tailList cfg tab pb state r1 parent b rest) (tailList cfg tab pb state r2 parent b rest) := by
  simp only [tailList]
  by_cases h1 : (listItemMatch tab true false b).isSome = true
  · simp only [h1, if_true]
    by_cases hc : cfg.saneLists = true
    · simp only [hc, if_true]; exact listPX_indep hs _ "ol"
    · simp only [hc, Bool.false_eq_true, if_false]; exact listP_indep hs "ol"
  · simp only [h1, Bool.false_eq_true, if_false]
    by_cases h2 : (listItemMatch tab false true b).isSome = true
    · simp only [h2, if_true]
      by_cases hc : cfg.saneLists = true
      · simp only [hc, if_true]; exact listPX_indep hs _ "ul"
      · simp only [hc, Bool.false_eq_true, if_false]; exact listP_indep hs "ul"
    · simp only [h2, Bool.false_eq_true, if_false]; exact tailDef_indep hs

theorem eqr_ite {a1 b1 a2 b2 : Option (Node × Refs × List Str)} (c : Prop) [Decidable c] (h1 : c → EqR a1 a2)
    (h2 : ¬c → EqR b1 b2) : EqR (if c then a1 else b1) (if c then a2 else b2) := by
  by_cases h : c
  · rw [if_pos h, if_pos h]; exact h1 h
  · rw [if_neg h, if_neg h]; exact h2 h

theorem tailEmptyT_indep (tables : Bool) (hs : TreeIndep pb) :
    EqR (tailEmptyT tables cfg tab pb state r1 parent b rest) (tailEmptyT tables cfg tab pb state r2 parent b rest) := by
  simp only [tailEmptyT]
  refine eqr_ite _ (fun _ => emptyP_indep) (fun _ => ?_)
  refine eqr_ite _ (fun _ => indentP_indep hs) (fun _ => ?_)
  refine eqr_ite _ (fun _ => indentPX_indep hs _ _ "dd") (fun _ => ?_)
  refine eqr_ite _ (fun _ => codeP_indep) (fun _ => ?_)
  split
  · exact tableP_indep _
  · split
    · exact hashP_indep hs _
    · refine eqr_ite _ (fun _ => setextP_indep) (fun _ => ?_)
      split
      · exact hrP_indep hs _
      · exact tailList_indep hs

theorem dispatchXT_indep (tables : Bool) (hs : TreeIndep pb) :
    EqR (dispatchXT tables cfg tab pb state r1 parent b rest) (dispatchXT tables cfg tab pb state r2 parent b rest) := by
  simp only [dispatchXT]
  split
  · exact admonitionP_indep hs _
  · exact tailEmptyT_indep tables hs

theorem eqr_cases {y1 y2 : Option (Node × Refs × List Str)} (h : EqR y1 y2) :
    (y1 = none ∧ y2 = none) ∨ ∃ n q1 q2 bl, y1 = some (n, q1, bl) ∧ y2 = some (n, q2, bl) := by
  unfold EqR at h
  cases y1 with
  | none =>
    cases y2 with
    | none => exact Or.inl ⟨rfl, rfl⟩
    | some p => cases h
  | some p =>
    cases y2 with
    | none => cases h
    | some q =>
      obtain ⟨n, q1, bl⟩ := p
      obtain ⟨m, q2, bl2⟩ := q
      simp only [Option.map_some, Option.some.injEq, Prod.mk.injEq] at h
      obtain ⟨h1, h2⟩ := h
      subst h1 h2
      exact Or.inr ⟨n, q1, q2, bl, rfl, rfl⟩

/-- **the tree that `parseBlocks` builds does not depend on the log it starts from** -/
theorem parseBlocksXT_indep (tables : Bool) (cfg : XCfg) (tab : Nat) :
    ∀ fuel, TreeIndep (parseBlocksXT tables cfg tab fuel) := by
  intro fuel
  induction fuel with
  | zero =>
    intro st q1 q2 p bl
    cases bl with
    | nil => rfl
    | cons b rest => rfl
  | succ f ih =>
    intro st q1 q2 p bl
    induction bl generalizing q1 q2 p with
    | nil => rfl
    | cons b rest _ =>
      simp only [parseBlocksXT]
      rcases eqr_cases (dispatchXT_indep (cfg := cfg) (tab := tab) (state := st) (r1 := q1) (r2 := q2) (parent := p)
        (b := b) (rest := rest) tables ih) with ⟨e1, e2⟩ | ⟨n, s1, s2, bl', e1, e2⟩
      · rw [e1, e2]; rfl
      · rw [e1, e2]; exact ih st s1 s2 n bl'


/-- `parser.parseDocument` from two carried logs: the same tree -/
theorem docParseS_indep (x : PipelineX.Exts) (cfg : Pipeline.Cfg) (L1 L2 : Refs) (text : Str) :
    (docParseS x cfg L1 text).map (·.1) = (docParseS x cfg L2 text).map (·.1) :=
  (parseBlocksXT_indep x.tables x.blockCfg cfg.tab _).chunk [] L1 L2 _ text

/-- without fenced code the preprocessors do not look at the stash -/
theorem prepareS_nofence (x : PipelineX.Exts) (cfg : Pipeline.Cfg) (html : List Str) (src : Str)
    (hf : x.fencedCode = false) :
    prepareS x cfg html src =
      if (x.admonition && PipelineX.admNonAscii (Normalize.normalize cfg.tab src)) = true then .ood
      else .ok (Extract.extract (Normalize.normalize cfg.tab src), html) := by
  simp only [prepareS, hf, Bool.false_eq_true, if_false]

end MdVerif.InstanceX
