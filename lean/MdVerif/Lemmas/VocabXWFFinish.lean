/-
Lemmas for C05 on the extension model, output level, part 4: the end of `convertX` (`PipelineX.finishX`: strip of the
wrapper, raw-HTML restore, footnote postprocessor, ampersand substitute, `.strip()`) on a well-formed document tree
whose HTML stash holds entity references only, and what the strict reader returns for its output.

* `RX tagOk keyOk` / `RXL`: the vocabulary condition on the items `Ser.readForest` returns, for a vocabulary given
  by two predicates on names (`Vocab2.RGood` is the instance of the core vocabulary);
* `qtOf tagOk keyOk`: the same vocabulary as a `BlockExt.NI` predicate (`VocabX.qtX x = qtOf (tagOkX x) (keyOkX x)`);
* `canonList_rx`: what is read back from a `GN` tree inside the vocabulary is inside the vocabulary;
* `rep_no_amp`: the footnote replacements create no ampersand substitute;
* `finishX_reads`: the statement.

Core Lean only.
-/
import MdVerif.Lemmas.VocabXWFOut2
import MdVerif.Lemmas.VocabXPipe

namespace MdVerif.VocabXOut
open Py Ser Vocab2 PipelineX
open BlockExt (NI NI_iff allNodes allKids allKids_iff allNodes_eq)

/-! ### the vocabulary, on trees and on what the reader returns -/

/-- a vocabulary of element and attribute names as a predicate on (tag, attributes) -/
def qtOf (tagOk keyOk : Str → Bool) (tag : Tag) (attrs : List (Str × Str)) : Bool :=
  match tag with
  | .name t => tagOk t && attrs.all (fun kv => keyOk kv.1)
  | _ => false

theorem qtX_eq (x : Exts) : VocabX.qtX x = qtOf (VocabX.tagOkX x) (VocabX.keyOkX x) := by
  funext tag attrs; cases tag <;> rfl

mutual
/-- an item read back by `Ser.readForest`: text, or an element of the vocabulary whose attribute names are in the
    vocabulary and whose content is again such items; a void element has no content; never a comment, a PI or raw
    text -/
def RX (tagOk keyOk : Str → Bool) : RNode → Bool
  | .elem t as kids =>
    tagOk t && as.all (fun kv => keyOk kv.1) && (!isEmptyTag t || kids.isEmpty) && RXL tagOk keyOk kids
  | .text _ => true
  | _ => false
def RXL (tagOk keyOk : Str → Bool) : List RNode → Bool
  | [] => true
  | n :: r => RX tagOk keyOk n && RXL tagOk keyOk r
end

variable {tagOk keyOk : Str → Bool}

theorem rxl_append (a b : List RNode) : RXL tagOk keyOk (a ++ b) = (RXL tagOk keyOk a && RXL tagOk keyOk b) := by
  induction a with
  | nil => simp [RXL]
  | cons x r ih => simp [RXL, ih, Bool.and_assoc]

theorem rxl_mergeTexts : ∀ (l : List RNode), RXL tagOk keyOk l = true → RXL tagOk keyOk (mergeTexts l) = true := by
  intro l
  induction l with
  | nil => intro _; simp [mergeTexts, RXL]
  | cons x r ih =>
    intro h
    simp only [RXL, Bool.and_eq_true] at h
    have hr := ih h.2
    cases x with
    | text a =>
      simp only [mergeTexts]
      split
      · rename_i b r' hm
        rw [hm] at hr
        simp only [RXL, Bool.and_eq_true] at hr
        simp only [RXL, RX, Bool.and_eq_true, true_and]; exact hr.2
      · split
        · exact hr
        · simp only [RXL, RX, Bool.and_eq_true, true_and]; exact hr
    | elem t as kids => simp only [mergeTexts, RXL, Bool.and_eq_true]; exact ⟨h.1, hr⟩
    | comment c => simp [RX] at h
    | pi c => simp [RX] at h
    | raw c => simp [RX] at h

theorem rxl_textItem (t : Option Str) : RXL tagOk keyOk (textItem t) = true := by
  unfold textItem; split <;> simp [RXL, RX]

mutual
theorem canonItems_rx : (n : Node) → GN n = true → allNodes (qtOf tagOk keyOk) n = true →
    RXL tagOk keyOk (canonItems n) = true
  | ⟨tag, attrs, text, _, children, tail, _⟩, h, hq => by
    cases tag with
    | name t =>
      simp only [GN, Bool.and_eq_true, Bool.not_eq_true', Bool.or_eq_true, List.isEmpty_iff] at h
      obtain ⟨⟨⟨⟨⟨_, f2⟩, _⟩, _⟩, hv⟩, hk⟩ := h
      simp only [allNodes, qtOf, Bool.and_eq_true, List.all_eq_true] at hq
      obtain ⟨⟨ht, ha⟩, hqk⟩ := hq
      have hkids := canonList_rx children hk hqk
      have has : ((sortAttrs attrs).map (fun kv => (kv.1, lenient attr 0 kv.2))).all (fun kv => keyOk kv.1) = true := by
        simp only [List.all_eq_true, List.mem_map]
        rintro x ⟨kv, hkv, rfl⟩
        exact ha kv (mem_sortAttrs attrs kv hkv)
      simp only [canonItems, f2]
      rw [rxl_append, Bool.and_eq_true]
      refine ⟨?_, rxl_textItem tail⟩
      split
      · rename_i hvoid
        simp [RXL, RX, ht, has, hvoid]
      · rename_i hvoid
        have hnv : isEmptyTag t = false := by simpa using hvoid
        have hm : RXL tagOk keyOk (mergeTexts (textItem text ++ canonList children)) = true := by
          apply rxl_mergeTexts
          rw [rxl_append, rxl_textItem, hkids]; rfl
        simp only [Bool.false_eq_true, ↓reduceIte, RXL, RX, ht, has, hnv, hm, Bool.not_false, Bool.true_or,
          Bool.and_self]
    | comment => simp [GN] at h
    | pi => simp [GN] at h
    | none => simp [GN] at h
    | qname q => simp [GN] at h
theorem canonList_rx : (l : List Node) → GNL l = true → allKids (qtOf tagOk keyOk) l = true →
    RXL tagOk keyOk (canonList l) = true
  | [], _, _ => by simp [canonList, RXL]
  | c :: r, h, hq => by
    rw [gnl_cons, Bool.and_eq_true] at h
    simp only [allKids, Bool.and_eq_true] at hq
    simp only [canonList]
    rw [rxl_append, canonItems_rx c h.1 hq.1, canonList_rx r h.2 hq.2]; rfl
end

theorem innerForest_rx (root : Node) (hk : GNL root.children = true)
    (hq : allKids (qtOf tagOk keyOk) root.children = true) : RXL tagOk keyOk (innerForest root) = true := by
  unfold innerForest
  apply rxl_mergeTexts
  rw [rxl_append, rxl_textItem, canonList_rx _ hk hq]; rfl

/-! ### the roots along the way keep the two tree conditions -/

theorem gn_tail (n : Node) (tl : Option Str) (b : Bool) : GN { n with tail := tl, tailAtomic := b } = GN n := by
  obtain ⟨tag, attrs, text, ta, children, tail, tla⟩ := n
  simp only [GN]

theorem allNodes_tail (qt : Tag → List (Str × Str) → Bool) (n : Node) (tl : Option Str) (b : Bool) :
    allNodes qt { n with tail := tl, tailAtomic := b } = allNodes qt n := by
  obtain ⟨tag, attrs, text, ta, children, tail, tla⟩ := n
  simp only [allNodes]

theorem rstripLast_gnl : ∀ (l : List Node), GNL l = true → GNL (rstripLast l) = true
  | [], _ => rfl
  | [n], h => by
    simp only [GNL, Bool.and_eq_true, and_true] at h ⊢
    simp only [rstripLast, GNL, Bool.and_true]
    obtain ⟨tag, attrs, text, ta, children, tail, tla⟩ := n
    simp only [GN] at h ⊢
    exact h
  | n :: m :: r, h => by
    rw [gnl_cons, Bool.and_eq_true] at h
    have := rstripLast_gnl (m :: r) h.2
    simp only [rstripLast, gnl_cons, Bool.and_eq_true] at this ⊢
    exact ⟨h.1, this⟩

theorem rstripLast_allKids (qt : Tag → List (Str × Str) → Bool) : ∀ (l : List Node), allKids qt l = true →
    allKids qt (rstripLast l) = true
  | [], _ => rfl
  | [n], h => by
    simp only [allKids, Bool.and_eq_true, and_true] at h ⊢
    simp only [rstripLast, allKids, Bool.and_true]
    obtain ⟨tag, attrs, text, ta, children, tail, tla⟩ := n
    simp only [allNodes] at h ⊢
    exact h
  | n :: m :: r, h => by
    simp only [allKids, Bool.and_eq_true] at h
    have := rstripLast_allKids qt (m :: r) (by simp only [allKids, Bool.and_eq_true]; exact h.2)
    simp only [rstripLast, allKids, Bool.and_eq_true] at this ⊢
    exact ⟨h.1, this⟩

theorem trimRoot_kids (root : Node) (hk : GNL root.children = true) {qt : Tag → List (Str × Str) → Bool}
    (hq : allKids qt root.children = true) :
    GNL (trimRoot root).children = true ∧ allKids qt (trimRoot root).children = true := by
  unfold trimRoot
  cases hc : root.children with
  | nil => exact ⟨rfl, rfl⟩
  | cons c cs =>
    rw [hc] at hk hq
    exact ⟨rstripLast_gnl _ hk, rstripLast_allKids qt _ hq⟩

mutual
theorem subTree_allNodes (fc fa : Str → Str) : (n : Node) → allNodes (qtOf tagOk keyOk) n = true →
    allNodes (qtOf tagOk keyOk) (subTree fc fa n) = true
  | ⟨tag, attrs, text, ta, children, tail, tla⟩, h => by
    simp only [allNodes, Bool.and_eq_true] at h
    simp only [subTree, allNodes, Bool.and_eq_true]
    refine ⟨?_, subKids_allKids fc fa children h.2⟩
    cases tag with
    | name t =>
      have h1 := h.1
      simp only [qtOf, Bool.and_eq_true] at h1 ⊢
      exact ⟨h1.1, by simpa [List.all_map, Function.comp_def] using h1.2⟩
    | comment => simp [qtOf] at h
    | pi => simp [qtOf] at h
    | none => simp [qtOf] at h
    | qname q => simp [qtOf] at h
theorem subKids_allKids (fc fa : Str → Str) : (l : List Node) → allKids (qtOf tagOk keyOk) l = true →
    allKids (qtOf tagOk keyOk) (subKids fc fa l) = true
  | [], _ => rfl
  | c :: r, h => by
    simp only [allKids, Bool.and_eq_true] at h
    simp only [subKids, allKids, Bool.and_eq_true]
    exact ⟨subTree_allNodes fc fa c h.1, subKids_allKids fc fa r h.2⟩
end

/-- a pass on the content of the wrapper, with both tree conditions -/
theorem pass_inner' {f : Str → Str} (hf : Pass f) (fmt : Fmt) (root : Node) (hk : GNL root.children = true)
    (hq : allKids (qtOf tagOk keyOk) root.children = true) :
    f (inner fmt root) = inner fmt (passRoot f root) ∧ GNL (passRoot f root).children = true ∧
      allKids (qtOf tagOk keyOk) (passRoot f root).children = true :=
  ⟨(pass_inner hf fmt root hk).1, (pass_inner hf fmt root hk).2, subKids_allKids _ _ _ hq⟩

/-! ### the footnote replacements create no ampersand substitute -/

/-- the head of a replaced string that is not `&` is the head of the string, copied -/
theorem rep_head {pat by' : Str} (h : RepOK pat by') {r : Str} {d : Char} {t : Str}
    (hr : replace r pat by' = d :: t) (hd : d ≠ '&') : ∃ r', r = d :: r' ∧ t = replace r' pat by' := by
  cases r with
  | nil => simp at hr
  | cons c r' =>
    cases hs : startsWith (c :: r') pat with
    | true =>
      exfalso
      rw [replace_of_startsWith h.ne hs] at hr
      have hb := h.ent
      unfold entRef at hb
      split at hb
      · simp only [List.cons_append, List.cons.injEq] at hr; exact hd hr.1.symm
      · cases hb
    | false =>
      rw [replace_cons_of_not_startsWith hs] at hr
      simp only [List.cons.injEq] at hr
      exact ⟨r', by rw [hr.1], hr.2.symm⟩

theorem rep_startsWith_amp {pat by' : Str} (h : RepOK pat by') (c : Char) (r : Str)
    (hs : startsWith (c :: replace r pat by') Post.ampSubstitute = true) :
    startsWith (c :: r) Post.ampSubstitute = true := by
  simp only [Post.ampSubstitute, startsWith_cons_cons, Bool.and_eq_true, decide_eq_true_eq] at hs ⊢
  obtain ⟨hc, hs⟩ := hs
  refine ⟨hc, ?_⟩
  -- four copied characters
  cases h1 : replace r pat by' with
  | nil => rw [h1] at hs; simp [startsWith] at hs
  | cons d1 t1 =>
    rw [h1] at hs
    simp only [startsWith_cons_cons, Bool.and_eq_true, decide_eq_true_eq] at hs
    obtain ⟨e1, hs⟩ := hs
    obtain ⟨r1, rfl, rfl⟩ := rep_head h h1 (by rw [e1]; decide)
    cases h2 : replace r1 pat by' with
    | nil => rw [h2] at hs; simp [startsWith] at hs
    | cons d2 t2 =>
      rw [h2] at hs
      simp only [startsWith_cons_cons, Bool.and_eq_true, decide_eq_true_eq] at hs
      obtain ⟨e2, hs⟩ := hs
      obtain ⟨r2, rfl, rfl⟩ := rep_head h h2 (by rw [e2]; decide)
      cases h3 : replace r2 pat by' with
      | nil => rw [h3] at hs; simp [startsWith] at hs
      | cons d3 t3 =>
        rw [h3] at hs
        simp only [startsWith_cons_cons, Bool.and_eq_true, decide_eq_true_eq] at hs
        obtain ⟨e3, hs⟩ := hs
        obtain ⟨r3, rfl, rfl⟩ := rep_head h h3 (by rw [e3]; decide)
        cases h4 : replace r3 pat by' with
        | nil => rw [h4] at hs; simp [startsWith] at hs
        | cons d4 t4 =>
          rw [h4] at hs
          simp only [startsWith_cons_cons, Bool.and_eq_true, decide_eq_true_eq] at hs
          obtain ⟨e4, _⟩ := hs
          obtain ⟨r4, rfl, rfl⟩ := rep_head h h4 (by rw [e4]; decide)
          simp [startsWith_cons_cons, e1, e2, e3, e4]

/-- **a footnote replacement creates no ampersand substitute** (the replacement holds no STX) -/
theorem rep_no_amp {pat by' : Str} (h : RepOK pat by') (hb : NoCtl.STX ∉ by') : ∀ (n : Nat) (X : Str), X.length ≤ n →
    contains X Post.ampSubstitute = false → contains (replace X pat by') Post.ampSubstitute = false := by
  intro n
  induction n with
  | zero =>
    intro X hl hX
    have : X = [] := List.length_eq_zero_iff.1 (by omega)
    subst this; simpa using hX
  | succ n ih =>
    intro X hl hX
    cases X with
    | nil => simpa using hX
    | cons c r =>
      rw [contains_cons, Bool.or_eq_false_iff] at hX
      cases hs : startsWith (c :: r) pat with
      | true =>
        have hpos : 0 < pat.length := List.length_pos_iff.2 h.ne
        rw [replace_of_startsWith h.ne hs, contains_noSTX_append _ _ hb]
        apply ih _ (by rw [List.length_drop]; simp only [List.length_cons] at hl ⊢; omega)
        -- an occurrence in a suffix is an occurrence in the string
        have hX' : contains (c :: r) Post.ampSubstitute = false := by
          rw [contains_cons, Bool.or_eq_false_iff]; exact hX
        exact contains_infix hX' ⟨(c :: r).take pat.length, [], by simp⟩
      | false =>
        rw [replace_cons_of_not_startsWith hs, contains_cons, Bool.or_eq_false_iff]
        refine ⟨?_, ih r (by simp only [List.length_cons] at hl; omega) hX.2⟩
        cases hsw : startsWith (c :: replace r pat by') Post.ampSubstitute with
        | false => rfl
        | true => rw [rep_startsWith_amp h c r hsw] at hX; exact absurd hX.1 (by simp)

/-! ### the end of `convertX` -/

/-- what `finishX` returns for a document tree `u`: the stripped content of the wrapper after the three passes -/
theorem finishX_reads (x : Exts) (cfg : Pipeline.Cfg) {stash : List Str} (he : AllEnt stash) (u : Node)
    (hd : C14X.rootDiv u = true) (hk : GNL u.children = true)
    (hq : allKids (qtOf tagOk keyOk) u.children = true)
    (hamp : contains (inner cfg.fmt u) Post.ampSubstitute = false) :
    ∃ out forest, finishX x cfg stash (serialize cfg.fmt u) = .ok out ∧ readForest cfg.fmt out = some forest ∧
      RXL tagOk keyOk forest = true := by
  obtain ⟨e1, _⟩ := C14X.strip_inner' cfg.fmt u (gnl_wf _ hk).1 (gnl_wf _ hk).2
  obtain ⟨hk1, hq1⟩ := trimRoot_kids u hk hq
  obtain ⟨e2, hk2, hq2⟩ := pass_inner' (pass_sub cfg.blockLevel he) cfg.fmt (trimRoot u) hk1 hq1
  have ha0 : contains (strip (inner cfg.fmt u)) Post.ampSubstitute = false := contains_infix hamp (strip_infix _)
  have ha1 := sub_no_amp cfg.blockLevel he _ _ (Nat.le_refl _) ha0
  -- the result for a root `w` reached after the passes
  have fin : ∀ (w : Node), GNL w.children = true → allKids (qtOf tagOk keyOk) w.children = true →
      ∃ forest, readForest cfg.fmt (strip (inner cfg.fmt w)) = some forest ∧ RXL tagOk keyOk forest = true := by
    intro w hw hqw
    obtain ⟨e, hwf⟩ := C14X.strip_inner' cfg.fmt w (gnl_wf _ hw).1 (gnl_wf _ hw).2
    obtain ⟨hw', hqw'⟩ := trimRoot_kids w hw hqw
    exact ⟨_, by rw [e]; exact C14X.inner_reads' cfg.fmt _ hwf, innerForest_rx _ hw' hqw'⟩
  unfold finishX
  rw [C14X.topLevelStrip_div _ u hd]
  simp only [postX, rawHtml_eq cfg.blockLevel he, Option.map_some]
  rw [e1] at ha1 ⊢
  rw [e2] at ha1 ⊢
  by_cases hf : x.footnotes = true
  · simp only [hf, if_true, postprocess_eq]
    obtain ⟨e3, hk3, hq3⟩ := pass_inner' (pass_replace repOK_backlink) cfg.fmt _ hk2 hq2
    have ha2 := rep_no_amp repOK_backlink (by decide) _ _ (Nat.le_refl _) ha1
    rw [e3] at ha2 ⊢
    obtain ⟨e4, hk4, hq4⟩ := pass_inner' (pass_replace repOK_nbsp) cfg.fmt _ hk3 hq3
    have ha3 := rep_no_amp repOK_nbsp (by decide) _ _ (Nat.le_refl _) ha2
    rw [e4] at ha3 ⊢
    have h5 : Post.ampSub (inner cfg.fmt (passRoot (fun s => replace s FootnotesTree.nbspPlaceholder "&#160;".toList)
        (passRoot (fun s => replace s FootnotesTree.fnBacklinkText "&#8617;".toList)
          (passRoot (Post.subPass cfg.blockLevel stash 0) (trimRoot u))))) = _ := replace_id_of_not_contains _ ha3
    rw [h5]
    obtain ⟨forest, h6, h7⟩ := fin _ hk4 hq4
    exact ⟨_, forest, rfl, h6, h7⟩
  · simp only [hf, Bool.false_eq_true, if_false]
    have h5 : Post.ampSub (inner cfg.fmt (passRoot (Post.subPass cfg.blockLevel stash 0) (trimRoot u))) = _ :=
      replace_id_of_not_contains _ ha1
    rw [h5]
    obtain ⟨forest, h6, h7⟩ := fin _ hk2 hq2
    exact ⟨_, forest, rfl, h6, h7⟩

/-- without any hypothesis on the ampersand substitute: the output is `AndSubstitutePostprocessor` + `strip` applied
    to a well-formed fragment of the vocabulary -/
theorem finishX_shape (x : Exts) (cfg : Pipeline.Cfg) {stash : List Str} (he : AllEnt stash) (u : Node)
    (hd : C14X.rootDiv u = true) (hk : GNL u.children = true)
    (hq : allKids (qtOf tagOk keyOk) u.children = true) :
    ∃ X forest, finishX x cfg stash (serialize cfg.fmt u) = .ok (strip (Post.ampSub X)) ∧
      readForest cfg.fmt X = some forest ∧ RXL tagOk keyOk forest = true := by
  obtain ⟨e1, _⟩ := C14X.strip_inner' cfg.fmt u (gnl_wf _ hk).1 (gnl_wf _ hk).2
  obtain ⟨hk1, hq1⟩ := trimRoot_kids u hk hq
  obtain ⟨e2, hk2, hq2⟩ := pass_inner' (pass_sub cfg.blockLevel he) cfg.fmt (trimRoot u) hk1 hq1
  have fin : ∀ (w : Node), GNL w.children = true → allKids (qtOf tagOk keyOk) w.children = true →
      ∃ forest, readForest cfg.fmt (inner cfg.fmt w) = some forest ∧ RXL tagOk keyOk forest = true := by
    intro w hw hqw
    exact ⟨_, C14X.inner_reads' cfg.fmt _ (gnl_wf _ hw).1, innerForest_rx _ hw hqw⟩
  unfold finishX
  rw [C14X.topLevelStrip_div _ u hd]
  simp only [postX, rawHtml_eq cfg.blockLevel he, Option.map_some]
  rw [e1, e2]
  by_cases hf : x.footnotes = true
  · simp only [hf, if_true, postprocess_eq]
    obtain ⟨e3, hk3, hq3⟩ := pass_inner' (pass_replace repOK_backlink) cfg.fmt _ hk2 hq2
    rw [e3]
    obtain ⟨e4, hk4, hq4⟩ := pass_inner' (pass_replace repOK_nbsp) cfg.fmt _ hk3 hq3
    rw [e4]
    obtain ⟨forest, h6, h7⟩ := fin _ hk4 hq4
    exact ⟨_, forest, rfl, h6, h7⟩
  · simp only [hf, Bool.false_eq_true, if_false]
    obtain ⟨forest, h6, h7⟩ := fin _ hk2 hq2
    exact ⟨_, forest, rfl, h6, h7⟩

end MdVerif.VocabXOut
