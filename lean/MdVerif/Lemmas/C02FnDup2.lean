/-
C02 on the extension pipeline: `FootnotePostTreeprocessor` never raises, part 2.

The second node predicate `qa` ("the `href` of every back-link `a.footnote-backref` has a `:`"), the invariant `inv`
of part 1 and `qa` after the block stage (`blockStageX`), and: `inv` and `qa` make `FootnotesTree.duplicates` succeed.
Main theorem: `duplicates_ne_none`.  Core Lean only.
-/
import MdVerif.Lemmas.C02FnDup

namespace MdVerif.C02FnDup
open MdVerif.Py MdVerif.Inline MdVerif.InlineX MdVerif.InlineXNodes
open MdVerif.BlockExt (NI NI_iff allNodes allKids TagsOk TableTagsOk)
open MdVerif.FootnotesTree MdVerif.FnDocNI

/-! ### the back-link predicate -/

/-- an `a` of class `footnote-backref` has an `href` with a `:` -/
def qa (tag : Tag) (attrs : List (Str × Str)) : Bool :=
  !(tag == .name "a".toList && attrD "class" attrs == "footnote-backref".toList) || hasColon (attrD "href" attrs)

theorem qa_nona {tag : Tag} (h : tag ≠ .name "a".toList) (a : List (Str × Str)) : qa tag a = true := by
  have hb : (tag == Tag.name "a".toList) = false := by simpa using h
  simp only [qa, hb, Bool.false_and, Bool.not_false, Bool.true_or]

theorem qa_nocls {tag : Tag} {attrs : List (Str × Str)} (h : FnTreeDoc.classOf attrs = none) : qa tag attrs = true := by
  have h1 : attrD "class" attrs = [] := by
    show (FnTreeDoc.classOf attrs).getD [] = []
    rw [h]; rfl
  have e : (([] : Str) == "footnote-backref".toList) = false := rfl
  simp only [qa, h1, e, Bool.and_false, Bool.not_false, Bool.true_or]

theorem patOk_qa (xc : XCfg) : PatOk qa xc :=
  patOk_table xc (fun _ attrs _ ha => qa_nocls (classOf_attrsOk attrs ha))
    (fun id _ refId => by rw [fnRefNode_eq]; rfl)
    (fun g n h => by
      unfold wikiNode at h
      simp only [] at h
      split at h
      · cases h
      · simp only [PNode.el.injEq] at h; subst h; rfl)
    rfl

theorem tagsOk_qa (cfg : BlockExt.XCfg) : TagsOk qa cfg where
  p := qa_nona (by decide)
  pre := qa_nona (by decide)
  code := qa_nona (by decide)
  hr := qa_nona (by decide)
  ol := qa_nona (by decide)
  ul := qa_nona (by decide)
  li := qa_nona (by decide)
  blockquote := qa_nona (by decide)
  h := by
    intro lv a
    apply qa_nona
    intro e
    simp only [Block.hTag] at e
    injection e with e
    injection e with e1 _
    exact absurd e1 (by decide)
  div := fun _ _ => qa_nona (by decide) _
  dl := fun _ => qa_nona (by decide)
  dt := fun _ => qa_nona (by decide)
  dd := fun _ => qa_nona (by decide)

theorem tableTagsOk_qa : TableTagsOk qa :=
  ⟨qa_nona (by decide), qa_nona (by decide), qa_nona (by decide), qa_nona (by decide),
   qa_nona (by decide), qa_nona (by decide)⟩

theorem backlink_qa (id : Str) (index : Nat) : NI qa (backlink id index) := rfl

theorem backlink_qtFn (id : Str) (index : Nat) : NI qtFn (backlink id index) := rfl

/-! ### the block parser (tables on or off) keeps a node predicate that accepts its tags -/

theorem parseChunkT_NI {qt : Tag → List (Str × Str) → Bool} (ht : ∀ bc, TagsOk qt bc) (htt : TableTagsOk qt)
    (tables : Bool) (bc : BlockExt.XCfg) (tab fuel : Nat) (st : List Block.BState) (log : Block.Refs) (p : Node)
    (text : Str) (n : Node) (log' : Block.Refs)
    (h : Block.parseChunk (BlockExt.parseBlocksXT tables bc tab fuel) st log p text = some (n, log'))
    (hp : NI qt p) : NI qt n := by
  have hg := BlockExt.parseBlocksXT_good (Ok := fun _ => True) (qt := qt) closed_true tables tables bc (ht bc)
    (fun _ => htt) tab (fun _ _ _ _ _ _ _ _ => rfl)
  exact ((hg fuel).chunk closed_true st log p trivial hp).2 _ _ h

/-! ### the footnote `div` -/

theorem addBacklink_iface (li bl li' : Node) (h : addBacklink li bl = some li') : iface li' = iface li := by
  unfold addBacklink at h
  split at h
  · simp only [Option.some.injEq] at h; subst h; rfl
  · split at h
    · split at h
      · simp only [Option.some.injEq] at h; subst h; rfl
      · cases h
    · simp only [Option.some.injEq] at h; subst h; rfl

theorem makeLis_good (parse : Block.Refs → Str → Option (Node × Block.Refs)) (fnCount : Block.Refs → Nat) :
    ∀ (fns : List (Str × Str)) (index : Nat) (log : Block.Refs) (lis : List Node) (log' : Block.Refs),
      makeLis parse fnCount fns index log = .ok (lis, log') → ∀ li ∈ lis, goodLiI (iface li) = true := by
  intro fns
  induction fns with
  | nil =>
    intro index log lis log' h
    simp only [makeLis, R.ok.injEq, Prod.mk.injEq] at h
    rw [← h.1]; simp
  | cons f rest ih =>
    intro index log lis log' h
    obtain ⟨id, text⟩ := f
    simp only [makeLis] at h
    split at h
    · cases h
    · rename_i sur lg' hpr
      split at h
      · cases h
      · split at h
        · cases h
        · rename_i li' hadd
          split at h
          · rename_i lis' log'' hrest
            simp only [R.ok.injEq, Prod.mk.injEq] at h
            rw [← h.1]
            intro li hli'
            rcases List.mem_cons.1 hli' with e | hm
            · subst e
              rw [addBacklink_iface _ _ _ hadd]
              rfl
            · exact ih _ _ _ _ hrest li hm
          · cases h
          · cases h

theorem makeDiv_inv (parse : Block.Refs → Str → Option (Node × Block.Refs)) (fnCount : Block.Refs → Nat)
    (hparse : ∀ lg text sur lg', parse lg text = some (sur, lg') → ∀ c ∈ sur.children, NI qtFn c)
    (fns : List (Str × Str)) (log log' : Block.Refs) (div : Node)
    (h : makeDiv parse fnCount fns log = .ok (some div, log')) : inv div = true := by
  unfold makeDiv at h
  split at h
  · cases h
  · split at h
    · rename_i lis lg hl
      simp only [R.ok.injEq, Prod.mk.injEq, Option.some.injEq] at h
      rw [← h.1]
      have hlis := makeLis_NI (qt := qtFn) parse fnCount hparse (PipelineX.qtFn_nondiv (by decide))
        (PipelineX.qtFn_nondiv (by decide) _) backlink_qtFn _ _ _ _ _ hl
      have hgood := makeLis_good parse fnCount _ _ _ _ _ hl
      have e1 : goodHrI (iface2 (el "hr")) = true := rfl
      have e2 : goodOlI (iface2 { el "ol" with children := lis }) = true := by
        simp only [goodOlI, iface2, Bool.and_eq_true, List.all_eq_true, List.mem_map]
        refine ⟨⟨rfl, rfl⟩, ?_⟩
        rintro i ⟨li, hli, rfl⟩
        exact hgood li hli
      have hk : ∀ k ∈ [el "hr", { el "ol" with children := lis }], NI qtFn k := by
        intro k hk
        simp only [List.mem_cons, List.not_mem_nil, or_false] at hk
        rcases hk with e | e
        · subst e; rfl
        · subst e
          rw [NI_iff]
          exact ⟨rfl, hlis⟩
      rw [inv_iff]
      refine ⟨Or.inr ⟨?_, hk⟩, fun k hkm => inv_of_NI (hk k hkm)⟩
      simp only [goodDiv, e1, e2]
      rfl
    · cases h
    · cases h

mutual
theorem placeNode_inv (div : Node) (hd : inv div = true) : (n n' : Node) → placeNode div n = some n' → NI qtFn n →
    inv n' = true
  | ⟨tag, attrs, text, ta, children, tail, tla⟩, n', h, hn => by
    simp only [placeNode] at h
    split at h
    · rename_i ks hk
      simp only [Option.some.injEq] at h; subst h
      rw [NI_iff] at hn
      rw [inv_iff]
      exact ⟨Or.inl hn.1, placeKids_inv div hd children ks hk hn.2⟩
    · cases h
theorem placeKids_inv (div : Node) (hd : inv div = true) : (l l' : List Node) → placeKids div l = some l' →
    (∀ c ∈ l, NI qtFn c) → ∀ c ∈ l', inv c = true
  | [], l', h, _ => by simp [placeKids] at h
  | c :: r, l', h, hl => by
    simp only [placeKids] at h
    have hc := hl c List.mem_cons_self
    have hr : ∀ x ∈ r, inv x = true := fun x hx => inv_of_NI (hl x (List.mem_cons_of_mem _ hx))
    split at h
    · simp only [Option.some.injEq] at h; subst h
      intro x hx
      rcases List.mem_cons.1 hx with e | hx
      · subst e; exact hd
      · exact hr x hx
    · split at h
      · simp only [Option.some.injEq] at h; subst h
        intro x hx
        rcases List.mem_cons.1 hx with e | hx
        · subst e; exact inv_of_NI (NI_upd (a := c) hc rfl rfl rfl)
        · rcases List.mem_cons.1 hx with e | hx
          · subst e; exact hd
          · exact hr x hx
      · split at h
        · rename_i c1 hc1
          simp only [Option.some.injEq] at h; subst h
          intro x hx
          rcases List.mem_cons.1 hx with e | hx
          · subst e; exact placeNode_inv div hd c _ hc1 hc
          · exact hr x hx
        · split at h
          · rename_i r1 hr1
            simp only [Option.some.injEq] at h; subst h
            intro x hx
            rcases List.mem_cons.1 hx with e | hx
            · subst e; exact inv_of_NI hc
            · exact placeKids_inv div hd r _ hr1 (fun y hy => hl y (List.mem_cons_of_mem _ hy)) x hx
          · cases h
end

theorem placeDiv_inv (root div : Node) (hr : NI qtFn root) (hd : inv div = true) : inv (placeDiv root div) = true := by
  unfold placeDiv
  split
  · rename_i r h; exact placeNode_inv div hd root r h hr
  · rw [NI_iff] at hr
    rw [inv_iff]
    refine ⟨Or.inl hr.1, ?_⟩
    intro k hk
    simp only [Node.append] at hk
    rcases List.mem_append.1 hk with hk | hk
    · exact inv_of_NI (hr.2 k hk)
    · simp only [List.mem_singleton] at hk; subst hk; exact hd

/-! ### the block stage -/

open MdVerif.PipelineX in
theorem parseChunkX_NI' {qt : Tag → List (Str × Str) → Bool} (ht : ∀ bc, TagsOk qt bc) (htt : TableTagsOk qt)
    (hdiv : NI qt (Node.el "div")) (x : Exts) (cfg : Pipeline.Cfg) (lg : Block.Refs) (text : Str) (sur : Node)
    (lg' : Block.Refs) (h : parseChunkX x cfg lg text = some (sur, lg')) : NI qt sur := by
  unfold parseChunkX at h
  exact parseChunkT_NI ht htt _ _ _ _ _ _ _ _ _ _ h hdiv

open MdVerif.PipelineX in
theorem fnStageX_inv {x : Exts} {cfg : Pipeline.Cfg} {root0 root : Node} {log0 log : Block.Refs}
    (h : fnStageX x cfg root0 log0 = .ok (root, log)) (h1 : NI qtFn root0) (h2 : NI qa root0) :
    inv root = true ∧ NI qa root := by
  unfold fnStageX at h
  split at h
  · split at h
    · rename_i div lg hm
      simp only [R.ok.injEq, Prod.mk.injEq] at h
      rw [← h.1]
      constructor
      · apply placeDiv_inv root0 div h1
        exact makeDiv_inv _ _
          (fun lg text sur lg' hs => InlineXNodes.NI_kids
            (parseChunkX_NI' tagsOk_fn tableTagsOk_fn (BlockExt.NI_el _ (by decide)) x cfg lg text sur lg' hs))
          _ _ _ _ hm
      · apply placeDiv_NI root0 div h2
        exact makeDiv_NI (qt := qa) _ _
          (fun lg text sur lg' hs => InlineXNodes.NI_kids
            (parseChunkX_NI' tagsOk_qa tableTagsOk_qa (BlockExt.NI_el _ (by decide)) x cfg lg text sur lg' hs))
          (qa_nona (by decide)) (qa_nona (by decide) _) backlink_qa
          (qa_nona (by decide)) (qa_nona (by decide) _) (qa_nona (by decide) _) _ _ _ _ hm
    · simp only [R.ok.injEq, Prod.mk.injEq] at h
      rw [← h.1]; exact ⟨inv_of_NI h1, h2⟩
    · cases h
    · cases h
  · simp only [R.ok.injEq, Prod.mk.injEq] at h
    rw [← h.1]; exact ⟨inv_of_NI h1, h2⟩

open MdVerif.PipelineX in
/-- after the block stage (block parser, footnote `div`): the invariant and the back-link predicate -/
theorem blockStageX_inv {x : Exts} {cfg : Pipeline.Cfg} {src : Str} {root : Node} {log : Block.Refs} {stash : List Str}
    (hb : blockStageX x cfg src = .ok (root, log, stash)) : inv root = true ∧ NI qa root := by
  simp only [blockStageX] at hb
  split at hb
  · cases hb
  · cases hb
  · rename_i text st _
    split at hb
    · cases hb
    · rename_i root0 log0 hp
      split at hb
      · cases hb
      · cases hb
      · rename_i root1 log1 hf
        simp only [R.ok.injEq, Prod.mk.injEq] at hb
        rw [← hb.1]
        unfold BlockExt.parseDocumentXT at hp
        exact fnStageX_inv hf
          (parseChunkT_NI tagsOk_fn tableTagsOk_fn _ _ _ _ _ _ _ _ _ _ hp (BlockExt.NI_el _ (by decide)))
          (parseChunkT_NI tagsOk_qa tableTagsOk_qa _ _ _ _ _ _ _ _ _ _ hp (BlockExt.NI_el _ (by decide)))

/-! ### `FootnotePostTreeprocessor` succeeds -/

theorem firstBackref_leaf {n : Node} (ht : (n.tag == Tag.name "a".toList) = false) (hk : n.children = []) :
    firstBackref n = none := by
  obtain ⟨tag, attrs, text, ta, children, tail, tla⟩ := n
  simp only at ht hk
  subst hk
  simp only [firstBackref, ht, Bool.false_and, Bool.false_eq_true, if_false, firstBackrefKids]

theorem dupLi_ne_none (fn : Footnotes.State) (li : Node) (hg : goodLiI (iface li) = true) (hq : NI qa li) :
    dupLi fn li ≠ none := by
  simp only [goodLiI, iface, Bool.and_eq_true, beq_iff_eq] at hg
  obtain ⟨⟨htag, hcolon⟩, _⟩ := hg
  have hid : (Footnotes.splitFirst ':' ((li.getAttr "id".toList).getD [])).isSome = true := hcolon
  unfold dupLi
  simp only []
  split
  · rename_i hnone
    rw [hnone] at hid; cases hid
  · split
    · split
      · simp
      · rename_i link hlink
        have hl := firstBackref_spec li link hlink hq
        have hqa := ((NI_iff link).1 hl.1).1
        have hhref : (Footnotes.splitFirst ':' ((link.getAttr "href".toList).getD [])).isSome = true := by
          have h1 : (link.tag == Tag.name "a".toList) = true := by rw [hl.2.1]; rfl
          have h2 : (attrD "class" link.attrs == "footnote-backref".toList) = true := by
            rw [beq_iff_eq]; exact hl.2.2
          simp only [qa, h1, h2, Bool.and_self, Bool.not_true, Bool.false_or] at hqa
          exact hqa
        split
        · rename_i hnone
          rw [hnone] at hhref; cases hhref
        · split
          · simp
          · rename_i hlast
            exfalso
            have hk : li.children = [] := by
              simpa [Node.last?] using hlast
            have := firstBackref_leaf (n := li) (by rw [htag]; rfl) hk
            rw [this] at hlink; cases hlink
    · simp

theorem dupLis_ne_none (fn : Footnotes.State) : ∀ (l : List Node),
    (∀ li ∈ l, goodLiI (iface li) = true ∧ NI qa li) → dupLis fn l ≠ none := by
  intro l
  induction l with
  | nil => intro _; simp [dupLis]
  | cons li r ih =>
    intro hl
    have h1 := dupLi_ne_none fn li (hl li List.mem_cons_self).1 (hl li List.mem_cons_self).2
    have h2 := ih (fun x hx => hl x (List.mem_cons_of_mem _ hx))
    simp only [dupLis]
    cases hd1 : dupLi fn li with
    | none => exact absurd hd1 h1
    | some li' =>
      cases hd2 : dupLis fn r with
      | none => exact absurd hd2 h2
      | some r' => simp

/-- `handle_duplicates` succeeds on a footnote `div` of the good shape -/
theorem dupFirstOl_good (fn : Footnotes.State) (tag : Tag) (attrs : List (Str × Str)) (text : Option Str) (ta : Bool)
    (children : List Node) (tail : Option Str) (tla : Bool) (htag : (tag == Tag.name "div".toList) = true)
    (hg : goodDiv text children = true) (hq : ∀ k ∈ children, NI qa k) :
    dupFirstOl fn ⟨tag, attrs, text, ta, children, tail, tla⟩ ≠ none := by
  have htag' : tag = Tag.name "div".toList := by simpa using htag
  subst htag'
  simp only [goodDiv, Bool.and_eq_true] at hg
  have hg2 := hg.2
  rcases children with _ | ⟨h0, _ | ⟨o, _ | ⟨z, r⟩⟩⟩
  · simp at hg2
  · simp at hg2
  · simp only [Bool.and_eq_true] at hg2
    obtain ⟨hh, ho⟩ := hg2
    obtain ⟨htag, hattrs, htext, hta, hkids, htail, htla⟩ := h0
    obtain ⟨otag, oattrs, otext, ota, okids, otail, otla⟩ := o
    simp only [goodHrI, iface2, iface, Bool.and_eq_true, beq_iff_eq, List.isEmpty_iff, List.map_eq_nil_iff] at hh
    simp only [goodOlI, iface2, iface, Bool.and_eq_true, beq_iff_eq, List.all_eq_true, List.mem_map] at ho
    obtain ⟨⟨e1, _⟩, e2⟩ := hh
    obtain ⟨⟨e3, _⟩, hlis⟩ := ho
    subst e1; subst e2; subst e3
    have hoq := hq _ (List.mem_cons_of_mem _ List.mem_cons_self)
    have hd : dupLis fn okids ≠ none := by
      apply dupLis_ne_none
      intro li hli
      exact ⟨hlis (iface li) ⟨li, hli, rfl⟩, InlineXNodes.NI_kids hoq li hli⟩
    have c1 : (Tag.name "div".toList == Tag.name "ol".toList) = false := by decide
    have c2 : (Tag.name "hr".toList == Tag.name "ol".toList) = false := by decide
    have c3 : (Tag.name "ol".toList == Tag.name "ol".toList) = true := by decide
    cases hdl : dupLis fn okids with
    | none => exact absurd hdl hd
    | some ks =>
      simp only [dupFirstOl, dupFirstOlKids, c1, c2, c3, hdl, Bool.false_eq_true, if_false, if_true]
      simp
  · simp at hg2

mutual
/-- **The invariant makes `FootnotePostTreeprocessor` succeed.** -/
theorem duplicates_ok (fn : Footnotes.State) : (n : Node) → inv n = true → allNodes qa n = true →
    duplicates fn n ≠ none
  | ⟨tag, attrs, text, ta, children, tail, tla⟩, hi, hq => by
    simp only [inv, Bool.and_eq_true, Bool.or_eq_true] at hi
    simp only [allNodes, Bool.and_eq_true] at hq
    simp only [duplicates]
    rcases hi.1 with h0 | h0
    · cases hk : duplicatesKids fn children with
      | none => exact absurd hk (duplicatesKids_ok fn children hi.2 hq.2)
      | some ks =>
        simp only []
        have hc : (tag == Tag.name "div".toList &&
            ((attrs.find? (fun kv => kv.1 = "class".toList)).map (·.2)).getD [] == "footnote".toList) = false := by
          simp only [qtFn, Bool.not_eq_true'] at h0
          exact h0
        rw [hc]
        simp
    · rw [duplicatesKids_id fn children h0.2]
      simp only []
      split
      · rename_i hcond
        simp only [Bool.and_eq_true] at hcond
        intro hnone
        rw [Option.map_eq_none_iff] at hnone
        exact dupFirstOl_good fn tag attrs text ta children tail tla hcond.1 h0.1
          ((BlockExt.allKids_iff children).1 hq.2) hnone
      · simp
theorem duplicatesKids_ok (fn : Footnotes.State) : (l : List Node) → invKids l = true → allKids qa l = true →
    duplicatesKids fn l ≠ none
  | [], _, _ => by simp [duplicatesKids]
  | c :: r, hi, hq => by
    simp only [invKids, Bool.and_eq_true] at hi
    simp only [allKids, Bool.and_eq_true] at hq
    have h1 := duplicates_ok fn c hi.1 hq.1
    have h2 := duplicatesKids_ok fn r hi.2 hq.2
    simp only [duplicatesKids]
    cases hd1 : duplicates fn c with
    | none => exact absurd hd1 h1
    | some c' =>
      cases hd2 : duplicatesKids fn r with
      | none => exact absurd hd2 h2
      | some r' => simp
end

/-! ### the main theorem -/

open MdVerif.PipelineX in
/-- the general form: the initial stash of inline elements may hold elements, provided none of them contains a
    `div.footnote` or a back-link whose `href` has no `:` -/
theorem duplicates_ne_none_stash {x : Exts} {cfg : Pipeline.Cfg} {src : Str} {root : Node} {log : Block.Refs}
    {stash : List Str} (hb : blockStageX x cfg src = .ok (root, log, stash))
    (g2 g : Nat) (xs0 : InlineX.XSt) (hs1 : StashNI qtFn xs0.st.stash) (hs2 : StashNI qa xs0.st.stash)
    {t : Node} {xs : InlineX.XSt}
    (hr : InlineX.runLoopX (inlineCfgX x cfg log) g2 g root [[]] xs0 = some (t, xs))
    (fn : Footnotes.State) : duplicates fn t ≠ none := by
  obtain ⟨h1, h2⟩ := blockStageX_inv hb
  have i1 := (runLoopX_inv _ g2 g root [[]] xs0 t xs hr h1 hs1).1
  have i2 := (runLoopX_NI (patOk_qa _) g2 g root [[]] xs0 t xs hr h2 hs2).1
  exact duplicates_ok fn t i1 i2

open MdVerif.PipelineX in
/-- **`FootnotePostTreeprocessor` never raises in the extension pipeline**: on the tree that the inline stage returns
    (any flag set, any fuels, any initial inline state whose stash of inline elements is empty), for every footnote
    reference bookkeeping `fn`. -/
theorem duplicates_ne_none {x : Exts} {cfg : Pipeline.Cfg} {src : Str} {root : Node} {log : Block.Refs}
    {stash : List Str} (hb : blockStageX x cfg src = .ok (root, log, stash))
    (g2 g : Nat) (xs0 : InlineX.XSt) (hst : xs0.st.stash = []) {t : Node} {xs : InlineX.XSt}
    (hr : InlineX.runLoopX (inlineCfgX x cfg log) g2 g root [[]] xs0 = some (t, xs))
    (fn : Footnotes.State) : duplicates fn t ≠ none := by
  have hs : ∀ qt, StashNI qt xs0.st.stash := by
    intro qt n hn; rw [hst] at hn; cases hn
  exact duplicates_ne_none_stash hb g2 g xs0 (hs _) (hs _) hr fn

open MdVerif.PipelineX in
/-- the instance for `InlineX.runX` (the fuels and the initial state of the pipeline) -/
theorem duplicates_ne_none_runX {x : Exts} {cfg : Pipeline.Cfg} {src : Str} {root : Node} {log : Block.Refs}
    {stash : List Str} (hb : blockStageX x cfg src = .ok (root, log, stash)) {t : Node} {xs : InlineX.XSt}
    (hr : InlineX.runX (inlineCfgX x cfg log) root stash = some (t, xs)) (fn : Footnotes.State) :
    duplicates fn t ≠ none := by
  unfold InlineX.runX at hr
  exact duplicates_ne_none hb _ _ _ rfl hr fn

end MdVerif.C02FnDup
