/-
Helper lemmas for `Props/C02Fn.lean`, part 6 (toc without the hypothesis on the headings), preparations:

* `rmFn_P`        — `remove_fnrefs` (`TocTree.rmFnNode`) keeps a class of texts/tails that is closed under `++` (the tails
                    of the removed footnote references are pasted behind the preceding text), the attribute values, and
                    `C02Names.NamesOk`;
* `html_noSTX`    — no entry of the raw-HTML stash behind the inline stage holds an STX (fenced blocks and entity
                    references).
Core Lean only.
-/
import MdVerif.Lemmas.C02FnNames
import MdVerif.Lemmas.BlockExtFuelHtml

namespace MdVerif.C02TocZ
open Py Pipeline PipelineX NoCtl C02BigX C02Fn C02Names TocTree

section
variable {S A : Str → Prop}

/-- the per-element invariant: texts and tails in `S`, attribute values in `A`, names without STX -/
def NodeSN (S A : Str → Prop) (n : Node) : Prop := NodeP S A n ∧ NamesOk n

theorem getD_truthy_or (t : Option Str) : orEmpty t = t.getD [] := rfl

mutual
theorem rmFnNode_P (hnil : S []) (happ : ∀ a b, S a → S b → S (a ++ b)) :
    (n : Node) → n.Forall (NodeSN S A) → (rmFnNode n).Forall (NodeSN S A)
  | ⟨tag, attrs, text, ta, children, tail, tla⟩, h => by
    simp only [Node.Forall] at h
    obtain ⟨⟨⟨h1, h2, h3⟩, hn⟩, hk⟩ := h
    obtain ⟨k1, k2⟩ := rmFnKids_P hnil happ children hk
    unfold rmFnNode
    simp only
    split
    · simp only [Node.Forall]
      exact ⟨⟨⟨h1, h2, h3⟩, hn⟩, k1⟩
    · simp only [Node.Forall]
      exact ⟨⟨⟨happ _ _ h1 k2, h2, h3⟩, hn⟩, k1⟩
theorem rmFnKids_P (hnil : S []) (happ : ∀ a b, S a → S b → S (a ++ b)) :
    (l : List Node) → Node.ForallL (NodeSN S A) l →
      Node.ForallL (NodeSN S A) (rmFnKids l).1 ∧ S (rmFnKids l).2
  | [], _ => by simp [rmFnKids, Node.ForallL, hnil]
  | c :: r, h => by
    simp only [Node.ForallL] at h
    obtain ⟨ih1, ih2⟩ := rmFnKids_P hnil happ r h.2
    have hc := rmFnNode_P hnil happ c h.1
    have hctail : S (orEmpty c.tail) := ((Node.forall_iff _ c).1 h.1).1.1.2.1
    unfold rmFnKids
    simp only
    split
    · exact ⟨ih1, happ _ _ hctail ih2⟩
    · split
      · simp only [Node.ForallL]
        exact ⟨⟨hc, ih1⟩, hnil⟩
      · simp only [Node.ForallL]
        refine ⟨⟨?_, ih1⟩, hnil⟩
        have hc' := (Node.forall_def _ (rmFnNode c)).1 hc
        rw [Node.forall_def]
        refine ⟨⟨⟨hc'.1.1.1, ?_, hc'.1.1.2.2⟩, hc'.1.2⟩, hc'.2⟩
        exact happ _ _ hc'.1.1.2.1 ih2
end
end

/-! ### the raw-HTML stash -/

theorem entityLike_noSTX {e : Str} (h : entityLike e = true) : TreeProc.STX ∉ e := by
  simp only [entityLike, Bool.and_eq_true, Bool.not_eq_true', List.contains_eq_mem, decide_eq_false_iff_not] at h
  exact h.2

/-- **no entry of the raw-HTML stash behind the inline stage holds an STX** -/
theorem html_noSTX {x : Exts} {cfg : Cfg} {src : Str} {root : Node} {log : Block.Refs} {stash : List Str}
    (hb : blockStageX x cfg src = .ok (root, log, stash)) {xc : InlineX.XCfg} {t : Node} {xs : InlineX.XSt}
    (hr : runXBig xc root stash = some (t, xs)) : ∀ e ∈ xs.st.html, TreeProc.STX ∉ e := by
  have h0 : ∀ e ∈ stash, TreeProc.STX ∉ e := by
    obtain ⟨text, hp⟩ := blockStageX_stash hb
    cases hf : x.fencedCode with
    | true =>
      obtain ⟨_, h2, _⟩ := prepareX_fenced hf hp
      exact fun e he => (h2 e he).1
    | false =>
      rw [prepareX_stash hf hp]
      intro e he; cases he
  unfold runXBig at hr
  exact InlineX.Html.runLoopX_htmlP (P := fun e => TreeProc.STX ∉ e) (fun _ he => entityLike_noSTX he) xc _ _ _ _ _ _ hr h0

end MdVerif.C02TocZ
