/-
Helper lemmas for `Props/C02Fn.lean`, part 2: the domain of the model with footnotes, and `convertXBig = ok` (toc off).

* `fnOod`              — does `FootnoteTreeprocessor` answer "out of domain" (a footnote body that, parsed as blocks,
                         itself defines a footnote — F-C02-2 on the real code)?  decidable by evaluation;
* `InDomainFn`         — `C02BigX.InDomain` and `fnOod = false`;
* `convertXBig_ne_ood_fn`, `convertXBig_ok_fn`.
Core Lean only.
-/
import MdVerif.Lemmas.C02FnAll

namespace MdVerif.C02Fn
open Py Pipeline PipelineX NoCtl C02BigSh C02BigNB C02BigX

/-- `FootnoteTreeprocessor` answers `ood`: a footnote body, parsed as blocks, defines a footnote (the implementation
    mutates the table it iterates over) -/
def fnOod (x : Exts) (cfg : Cfg) (src : Str) : Bool :=
  match prepareX x cfg src with
  | .ok (text, _) =>
    match BlockExt.parseDocumentXT x.tables x.blockCfg cfg.tab text with
    | some (root, log) =>
      (match fnStageX x cfg root log with
       | .ood => true
       | _ => false)
    | none => false
  | _ => false

/-- the domain of the model when toc is off: with admonition no `!!!` followed by a non-ASCII character; with fenced_code
    and attr_list together no fenced block with options; with footnotes no footnote body that defines a footnote -/
def InDomainFn (x : Exts) (cfg : Cfg) (src : Str) : Prop :=
  InDomain x cfg src ∧ (x.footnotes = true → fnOod x cfg src = false)

instance (x : Exts) (cfg : Cfg) (src : Str) : Decidable (InDomainFn x cfg src) := by unfold InDomainFn; infer_instance

theorem blockStageX_ne_ood_fn {x : Exts} {cfg : Cfg} {src : Str} (hd : InDomainFn x cfg src) :
    blockStageX x cfg src ≠ .ood := by
  obtain ⟨hd1, hd2⟩ := hd
  intro hb
  simp only [blockStageX] at hb
  split at hb
  · cases hb
  · next hp => exact prepareX_ne_ood2 hd1 hp
  · next text stash hp =>
    split at hb
    · cases hb
    · next root log hpd =>
      split at hb
      · cases hb
      · next hfn =>
        cases hx : x.footnotes with
        | false =>
          simp only [fnStageX, hx, Bool.false_eq_true, if_false] at hfn
          cases hfn
        | true =>
          have := hd2 hx
          simp only [fnOod, hp, hpd, hfn] at this
          cases this
      · cases hb

theorem treeXBig_ne_ood_fn {x : Exts} (htoc : x.toc = false) {cfg : Cfg} {src : Str} (hd : InDomainFn x cfg src) :
    treeXBig x cfg src ≠ .ood := by
  unfold treeXBig
  cases hb : blockStageX x cfg src with
  | oof => intro h; cases h
  | ood => exact absurd hb (blockStageX_ne_ood_fn hd)
  | ok r =>
    obtain ⟨root, log, stash⟩ := r
    simp only
    cases hr : runXBig (inlineCfgX x cfg log) root stash with
    | none => intro h; cases h
    | some ts =>
      obtain ⟨t, xs⟩ := ts
      simp only
      rw [lateStageX_fn htoc]
      cases dupStage x t xs.fn with
      | none => intro h; cases h
      | some t1 =>
        simp only
        cases TreeProc.unescapeTree (late3 x cfg log t1) <;> (intro h; cases h)

theorem convertXBig_ne_ood_fn {x : Exts} (htoc : x.toc = false) {cfg : Cfg} {src : Str} (hlt : '<' ∉ src)
    (hd : InDomainFn x cfg src) : convertXBig x cfg src ≠ .ood := by
  unfold convertXBig
  split
  · next hc => exact absurd (by simpa using hc) hlt
  · split
    · next hc => cases hc
    · split
      · intro h; cases h
      · cases ht : treeXBig x cfg src with
        | oof => intro h; cases h
        | err => intro h; cases h
        | ood => exact absurd ht (treeXBig_ne_ood_fn htoc hd)
        | ok u html =>
          simp only [finishX]
          split
          · intro h; cases h
          · split <;> (intro h; cases h)

/-- `convertXBig` never answers `oof`: every flag set (`C02BigX.convertXBig_ne_oof_*` in one statement) -/
theorem convertXBig_ne_oof_any {x : Exts} (cfg : Cfg) (src : Str)
    (htab : x.admonition = true ∨ x.fencedCode = true → 0 < cfg.tab)
    (hw : x.wikilinks = true → WikiSrc cfg src) : convertXBig x cfg src ≠ .oof := by
  cases hf : x.fencedCode with
  | true =>
    cases hwl : x.wikilinks with
    | true => exact convertXBig_ne_oof_fenced_wiki src (hw hwl) hf (htab (.inr hf))
    | false => exact convertXBig_ne_oof_fenced src hwl hf (htab (.inr hf))
  | false =>
    cases hwl : x.wikilinks with
    | true => exact convertXBig_ne_oof_wiki src (hw hwl) hf (fun h => htab (.inl h))
    | false => exact convertXBig_ne_oof_nowiki src hwl hf (fun h => htab (.inl h))

/-- **C02: `convertXBig` returns a string** — toc off; everything else, FOOTNOTES included, on or off -/
theorem convertXBig_ok_fn {x : Exts} (htoc : x.toc = false) (cfg : Cfg) (src : Str) (hlt : '<' ∉ src)
    (htab : x.admonition = true ∨ x.fencedCode = true → 0 < cfg.tab) (hd : InDomainFn x cfg src)
    (hw : x.wikilinks = true → WikiSrc cfg src) (hdup : DupOk x cfg src) : ∃ out, convertXBig x cfg src = .ok out := by
  have h1 := convertXBig_ne_oof_any (x := x) cfg src htab hw
  have h2 := convertXBig_ne_err_fn htoc cfg src (fun h => htab (.inr h)) hdup
  have h3 := convertXBig_ne_ood_fn htoc hlt hd
  cases hc : convertXBig x cfg src with
  | ok out => exact ⟨out, rfl⟩
  | oof => exact absurd hc h1
  | err => exact absurd hc h2
  | ood => exact absurd hc h3

end MdVerif.C02Fn
