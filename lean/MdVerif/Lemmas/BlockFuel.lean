/-
Helper lemmas for C02 (block parser part): the fuel `fuelFor text.length` always suffices.
Core Lean only.

Measure: `mu blocks = Σ (len b + 1)`.  Every processor leaves a block list of smaller measure and calls the
recursive callback only on block lists of measure `≤ len b` — except `ListIndentProcessor`, which may pass a list of
measure `≤ len b + 1`, but in state `detabbed`, where it does not fire again.
-/
import MdVerif.Model.Block

namespace MdVerif.Block
open Py

/-! ### the measure -/

/-- `Σ (len b + 1)` -/
def mu : List Str → Nat
  | [] => 0
  | b :: r => b.length + 1 + mu r

@[simp] theorem mu_nil : mu [] = 0 := rfl
@[simp] theorem mu_cons (b : Str) (r : List Str) : mu (b :: r) = b.length + 1 + mu r := rfl

theorem mu_append (a b : List Str) : mu (a ++ b) = mu a + mu b := by
  induction a with
  | nil => simp
  | cons x a ih => simp [ih]; omega

theorem mu_pos {bl : List Str} (h : bl ≠ []) : 0 < mu bl := by
  cases bl with
  | nil => exact absurd rfl h
  | cons b r => simp only [mu_cons]; omega

theorem mem_length_lt_mu {bl : List Str} {x : Str} (h : x ∈ bl) : x.length + 1 ≤ mu bl := by
  induction bl with
  | nil => cases h
  | cons b r ih =>
    rcases List.mem_cons.1 h with rfl | h
    · simp
    · have := ih h; simp; omega

/-! ### `split('\n')` / `'\n'.join` -/

theorem splitC_ne_nil (ch : Char) (s : Str) : splitC ch s ≠ [] := by
  cases s with
  | nil => simp [splitC]
  | cons c s =>
    simp only [splitC]
    split
    · simp
    · split <;> simp

theorem mu_splitC (ch : Char) (s : Str) : mu (splitC ch s) = s.length + 1 := by
  induction s with
  | nil => simp [splitC]
  | cons c s ih =>
    simp only [splitC]
    split
    · next h => exact absurd h (splitC_ne_nil ch s)
    · next p ps h =>
      rw [h] at ih
      split <;> simp at ih ⊢ <;> omega

theorem mu_lines (s : Str) : mu (lines s) = s.length + 1 := mu_splitC '\n' s

theorem length_joinLines_cons (a : Str) (r : List Str) : (joinLines (a :: r)).length + 1 = mu (a :: r) := by
  induction r generalizing a with
  | nil => simp [joinLines, join]
  | cons b r ih =>
    have := ih b
    simp only [joinLines, join, List.length_append, mu_cons] at this ⊢
    simp
    omega

theorem length_joinLines_le (ls : List Str) : (joinLines ls).length + 1 ≤ mu ls + 1 := by
  cases ls with
  | nil => simp [joinLines, join]
  | cons a r => have := length_joinLines_cons a r; omega

theorem length_joinLines_lt {ls : List Str} (h : ls ≠ []) : (joinLines ls).length + 1 = mu ls := by
  cases ls with
  | nil => exact absurd rfl h
  | cons a r => exact length_joinLines_cons a r

/-- mapping a length-non-increasing function over the lines does not lengthen the joined text -/
theorem mu_map_le (f : Str → Str) (hf : ∀ l, (f l).length ≤ l.length) (ls : List Str) : mu (ls.map f) ≤ mu ls := by
  induction ls with
  | nil => simp
  | cons a r ih => have := hf a; simp; omega

theorem length_joinLines_map_le (f : Str → Str) (hf : ∀ l, (f l).length ≤ l.length) (ls : List Str) :
    (joinLines (ls.map f)).length ≤ (joinLines ls).length := by
  cases ls with
  | nil => simp
  | cons a r =>
    have h1 := length_joinLines_cons (f a) (r.map f)
    have h2 := length_joinLines_cons a r
    have h3 := mu_map_le f hf (a :: r)
    simp only [List.map_cons] at h3 ⊢
    omega

/-- … and shortens it when the first line gets shorter -/
theorem length_joinLines_map_lt (f : Str → Str) (hf : ∀ l, (f l).length ≤ l.length) (a : Str) (r : List Str)
    (ha : (f a).length < a.length) : (joinLines ((a :: r).map f)).length < (joinLines (a :: r)).length := by
  have h1 := length_joinLines_cons (f a) (r.map f)
  have h2 := length_joinLines_cons a r
  have h3 := mu_map_le f hf r
  simp only [List.map_cons, mu_cons] at h1 h2 ⊢
  omega

/-- `text.split('\n\n')`: the pieces have measure at most `len text + 1` -/
theorem mu_splitAux (sep : Str) (k : Nat) (s : Str) : mu (splitAux sep k s) ≤ s.length + 1 := by
  induction s generalizing k with
  | nil => cases k <;> simp [splitAux]
  | cons c s ih =>
    cases k with
    | succ k => simp only [splitAux]; have := ih k; simp; omega
    | zero =>
      simp only [splitAux]
      split
      · have := ih (sep.length - 1); simp; omega
      · have := ih 0
        split
        · simp
        · next p ps h => rw [h] at this; simp at this ⊢; omega

theorem mu_splitS (sep s : Str) : mu (splitS sep s) ≤ s.length + 1 := mu_splitAux sep 0 s

/-! ### search combinators -/

theorem firstDownFrom_some {α} {f : Nat → Option α} {lo c : Nat} {r : α} (h : firstDownFrom f lo c = some r) :
    ∃ x, lo ≤ x ∧ x < lo + c ∧ f x = some r := by
  induction c with
  | zero => simp [firstDownFrom] at h
  | succ c ih =>
    simp only [firstDownFrom] at h
    split at h
    · next r' hr => cases h; exact ⟨lo + c, by omega, by omega, hr⟩
    · obtain ⟨x, h1, h2, h3⟩ := ih h; exact ⟨x, h1, by omega, h3⟩

theorem firstDown_some {α} {f : Nat → Option α} {lo hi : Nat} {r : α} (h : firstDown f lo hi = some r) :
    ∃ x, lo ≤ x ∧ x ≤ hi ∧ f x = some r := by
  obtain ⟨x, h1, h2, h3⟩ := firstDownFrom_some h
  exact ⟨x, h1, by omega, h3⟩

theorem mem_downList {lo hi x : Nat} (h : x ∈ downList lo hi) : lo ≤ x ∧ x ≤ hi := by
  simp only [downList, List.mem_map, List.mem_reverse, List.mem_range] at h
  obtain ⟨a, h1, rfl⟩ := h
  omega

/-! ### hash header -/

theorem hashAt_some {s : Str} {lv n : Nat} {hd : Str} (h : hashAt s = some (lv, hd, n)) : 1 ≤ lv ∧ lv ≤ n := by
  obtain ⟨x, h1, _, h3⟩ := firstDown_some h
  split at h3
  · cases h3; omega
  · cases h3

theorem hashSearchNl_some {i : Nat} {s : Str} {st en lv : Nat} {hd : Str}
    (h : hashSearchNl i s = some (st, en, lv, hd)) : i ≤ st ∧ st < i + s.length ∧ 1 ≤ en := by
  induction s generalizing i with
  | nil => simp [hashSearchNl] at h
  | cons c s ih =>
    simp only [hashSearchNl] at h
    split at h
    · split at h
      · cases h; simp; omega
      · have := ih h; simp; omega
    · have := ih h; simp; omega

theorem hashSearch_some {b : Str} {st en lv : Nat} {hd : Str} (hb : b ≠ [])
    (h : hashSearch b = some (st, en, lv, hd)) : st < b.length ∧ 1 ≤ en := by
  simp only [hashSearch] at h
  split at h
  · next lv' hd' n hh =>
    cases h
    have := hashAt_some hh
    have : 0 < b.length := List.length_pos_iff.2 hb
    omega
  · have := hashSearchNl_some h; omega

/-! ### horizontal rule -/

theorem hrLine_nil : hrLine [] = false := by simp [hrLine, countPrefix]

theorem hrSearchLines_some {pos : Nat} {ls : List Str} {st en : Nat} (h : hrSearchLines pos ls = some (st, en)) :
    st < en ∧ en + 1 ≤ pos + mu ls := by
  induction ls generalizing pos with
  | nil => simp [hrSearchLines] at h
  | cons line r ih =>
    simp only [hrSearchLines] at h
    split at h
    · next hl =>
      cases h
      have : line ≠ [] := by rintro rfl; simp [hrLine_nil] at hl
      have : 0 < line.length := List.length_pos_iff.2 this
      simp; omega
    · have := ih h; simp; omega

theorem hrSearch_some {b : Str} {st en : Nat} (h : hrSearch b = some (st, en)) : st < en ∧ en ≤ b.length := by
  have := hrSearchLines_some h
  rw [mu_lines] at this
  omega

/-! ### first line -/

theorem length_takeWhile_le' {α} (p : α → Bool) (l : List α) : (l.takeWhile p).length ≤ l.length := by
  induction l with
  | nil => simp
  | cons a l ih => simp only [List.takeWhile_cons]; split <;> simp <;> omega

theorem splitC_head (s : Str) : ∃ t, lines s = s.takeWhile notNl :: t := by
  induction s with
  | nil => exact ⟨[], by simp [lines, splitC]⟩
  | cons c s ih =>
    obtain ⟨t, ht⟩ := ih
    simp only [lines] at ht ⊢
    simp only [splitC, ht]
    by_cases hc : c = '\n'
    · subst hc; simp [notNl]
    · simp [hc, notNl, List.takeWhile_cons]

/-- what follows the (limited) run of leading spaces -/
def afterSp (lim : Option Nat) (s : Str) : Str := s.drop (countPrefix ' ' lim s)

theorem afterSp_takeWhile (lim : Option Nat) (s : Str) :
    afterSp lim (s.takeWhile notNl) = (afterSp lim s).takeWhile notNl := by
  induction s generalizing lim with
  | nil => simp [afterSp]
  | cons c s ih =>
    by_cases h0 : lim = some 0
    · subst h0; simp [afterSp, countPrefix]
    · by_cases hc : c = ' '
      · subst hc
        have : notNl ' ' = true := by decide
        simp only [List.takeWhile_cons, this, if_true]
        have e1 : ∀ x : Str, afterSp lim (' ' :: x) = afterSp (lim.map (· - 1)) x := by
          intro x
          cases lim with
          | none => simp [afterSp, countPrefix]
          | some k =>
            cases k with
            | zero => exact absurd rfl h0
            | succ k => simp [afterSp, countPrefix]
        rw [e1, e1, ih]
      · have e1 : ∀ x : Str, afterSp lim (c :: x) = c :: x := by
          intro x
          cases lim with
          | none => simp [afterSp, countPrefix, hc]
          | some k =>
            cases k with
            | zero => exact absurd rfl h0
            | succ k => simp [afterSp, countPrefix, hc]
        rw [e1]
        by_cases hn : notNl c = true
        · simp only [List.takeWhile_cons, hn, if_true]; rw [e1]
        · simp [hn, afterSp, countPrefix]

theorem countPrefix_takeWhile (lim : Option Nat) (s : Str) :
    countPrefix ' ' lim (s.takeWhile notNl) = countPrefix ' ' lim s := by
  induction s generalizing lim with
  | nil => simp
  | cons c s ih =>
    by_cases h0 : lim = some 0
    · subst h0; simp [countPrefix]
    · by_cases hn : notNl c = true
      · simp only [List.takeWhile_cons, hn, if_true]
        cases lim with
        | none => simp [countPrefix, ih]
        | some k =>
          cases k with
          | zero => exact absurd rfl h0
          | succ k => simp [countPrefix, ih]
      · have : c = '\n' := by simpa [notNl] using hn
        subst this
        cases lim with
        | none => simp [countPrefix, notNl]
        | some k =>
          cases k with
          | zero => exact absurd rfl h0
          | succ k => simp [countPrefix, notNl]

/-! ### block quote -/

theorem quoteLine_eq (s : Str) : quoteLine s =
    match afterSp (some 3) s with
    | c :: r => if c = '>' then some ((match r with | d :: r' => if d = ' ' then r' else r | [] => r).takeWhile notNl) else none
    | [] => none := rfl

theorem length_afterSp_le (lim : Option Nat) (s : Str) : (afterSp lim s).length ≤ s.length := by
  simp [afterSp]

theorem quoteLine_length {s g : Str} (h : quoteLine s = some g) : g.length < s.length := by
  rw [quoteLine_eq] at h
  have hle := length_afterSp_le (some 3) s
  split at h
  · next c r hr =>
    rw [hr] at hle
    split at h
    · cases h
      have h1 : ∀ x : Str, (x.takeWhile notNl).length ≤ x.length := fun x => length_takeWhile_le' _ _
      split
      · next d r' => split <;> (have := h1 r'; have := h1 (d :: r'); simp at *; omega)
      · have := h1 ([] : Str); simp at *; omega
    · cases h
  · cases h

theorem quoteLine_firstLine {s : Str} (h : (quoteLine s).isSome) : (quoteLine (s.takeWhile notNl)).isSome := by
  rw [quoteLine_eq] at h ⊢
  rw [afterSp_takeWhile]
  split at h
  · next c r hr =>
    split at h
    · next hc => subst hc; rw [hr]; simp [List.takeWhile_cons, notNl]
    · cases h
  · cases h

theorem quoteClean_length_le (l : Str) : (quoteClean l).length ≤ l.length := by
  simp only [quoteClean]
  split
  · simp
  · simp only [quoteMatch]
    split
    · next g hg =>
      split at hg
      · next g' hg' => cases hg; have := quoteLine_length hg'; omega
      · split at hg
        · split at hg
          · have := quoteLine_length hg; simp; omega
          · cases hg
        · cases hg
    · omega

theorem quoteClean_length_lt {l : Str} (h : (quoteLine l).isSome) : (quoteClean l).length < l.length := by
  have hne : l ≠ [] := by rintro rfl; simp [quoteLine, countPrefix] at h
  have hpos : 0 < l.length := List.length_pos_iff.2 hne
  simp only [quoteClean]
  split
  · simpa using hpos
  · obtain ⟨g, hg⟩ := Option.isSome_iff_exists.1 h
    simp only [quoteMatch, hg]
    exact quoteLine_length hg

theorem quoteSearchNl_some {i : Nat} {s : Str} {q : Nat} (h : quoteSearchNl i s = some q) : q < i + s.length := by
  induction s generalizing i with
  | nil => simp [quoteSearchNl] at h
  | cons c s ih =>
    simp only [quoteSearchNl] at h
    split at h
    · cases h; simp
    · have := ih h; simp; omega

theorem quoteSearch_some {b : Str} {q : Nat} (hb : b ≠ []) (h : quoteSearch b = some q) : q < b.length := by
  have hpos : 0 < b.length := List.length_pos_iff.2 hb
  simp only [quoteSearch] at h
  split at h
  · cases h; exact hpos
  · have := quoteSearchNl_some h; omega

/-! ### reference definition -/

theorem refDelimited_some {s : Str} {b2 : Nat} {close : Char} {e : Nat} {t : Str}
    (h : refDelimited s b2 close = some (e, t)) : b2 ≤ e := by
  simp only [refDelimited] at h
  obtain ⟨c, hc1, _, hc3⟩ := firstDown_some h
  split at hc3
  · obtain ⟨d2, hd1, _, hd3⟩ := firstDown_some hc3
    split at hd3
    · cases hd3; omega
    · cases hd3
  · cases hc3

theorem refTitleAt_some {s : Str} {b2 e : Nat} {t5 t6 : Option Str}
    (h : refTitleAt s b2 = some (e, t5, t6)) : b2 ≤ e := by
  simp only [refTitleAt] at h
  split at h
  · next e' t hq =>
    cases h
    split at hq
    · split at hq
      · exact refDelimited_some hq
      · cases hq
    · cases hq
  · split at h
    · next e' t hp =>
      cases h
      split at hp
      · exact refDelimited_some hp
      · cases hp
    · split at h
      · cases h; omega
      · cases h

theorem mem_cands {s : Str} {k2 x : Nat}
    (h : x ∈ (if s[k2]? == some '\n' then downList (k2 + 1) (k2 + 1 + countSpAt s (k2 + 1)) else []) ++ [k2]) :
    k2 ≤ x := by
  rcases List.mem_append.1 h with h | h
  · split at h
    · have := mem_downList h; omega
    · cases h
  · simp at h; omega

theorem refTail_some {s : Str} {q e : Nat} {t5 t6 : Option Str}
    (h : refTail s q = some (e, t5, t6)) : q ≤ e := by
  simp only [refTail] at h
  obtain ⟨a2, ha1, _, ha3⟩ := firstDown_some h
  obtain ⟨b2, hb1, hb2⟩ := List.exists_of_findSome?_eq_some ha3
  have := mem_cands hb1
  have := refTitleAt_some hb2
  omega

theorem refMatchAt_some {s : Str} {p e : Nat} {ident url : Str} {t5 t6 : Option Str}
    (h : refMatchAt s p = some (e, ident, url, t5, t6)) : p < s.length ∧ p + 2 ≤ e := by
  unfold refMatchAt at h
  simp only [] at h
  split at h
  · cases h
  · next h1 =>
    split at h
    · cases h
    · split at h
      · cases h
      · obtain ⟨k2, hk1, _, hk3⟩ := firstDown_some h
        obtain ⟨u0, hu1, hu2⟩ := List.exists_of_findSome?_eq_some hk3
        have := mem_cands hu1
        obtain ⟨u2, hv1, _, hv3⟩ := firstDown_some hu2
        split at hv3
        · next e' t5' t6' ht =>
          cases hv3
          have := refTail_some ht
          constructor
          · have hi : (s[p + countPrefix ' ' (some 3) (List.drop p s)]?).isSome := by
              cases hx : s[p + countPrefix ' ' (some 3) (List.drop p s)]? with
              | none => simp [hx] at h1
              | some c => simp
            have := (List.getElem?_eq_some_iff.1 (Option.eq_some_of_isSome hi)).1
            omega
          · omega
        · cases hv3

theorem refSearch_some {s : Str} {st en : Nat} {ident url : Str} {t5 t6 : Option Str}
    (h : refSearch s = some (st, en, ident, url, t5, t6)) : st < s.length ∧ st + 2 ≤ en := by
  simp only [refSearch] at h
  obtain ⟨p, _, hp⟩ := List.exists_of_findSome?_eq_some h
  split at hp
  · next hm => cases hp; exact refMatchAt_some hm
  · cases hp

/-! ### list items -/

theorem olMarker_some {s m r : Str} (h : olMarker s = some (m, r)) :
    r.length < s.length ∧ ∃ c t, s = c :: t ∧ c ≠ ' ' := by
  simp only [olMarker] at h
  split at h
  · next hd =>
    cases h
    simp only [Bool.and_eq_true, decide_eq_true_eq, beq_iff_eq] at hd
    obtain ⟨hd1, hd2⟩ := hd
    have hlt := (List.getElem?_eq_some_iff.1 hd2).1
    refine ⟨by simp; omega, ?_⟩
    cases s with
    | nil => simp [spanLen] at hd1
    | cons c t =>
      refine ⟨c, t, rfl, ?_⟩
      rintro rfl
      simp [spanLen, isDecimal, isAsciiDigit] at hd1
  · cases h

theorem ulMarker_some {s m r : Str} (h : ulMarker s = some (m, r)) :
    r.length < s.length ∧ ∃ c t, s = c :: t ∧ c ≠ ' ' := by
  cases s with
  | nil => simp [ulMarker] at h
  | cons c t =>
    simp only [ulMarker] at h
    split at h
    · next hc =>
      cases h
      refine ⟨by simp, c, _, rfl, ?_⟩
      rintro rfl
      simp at hc
    · cases h

theorem listItemMatch_eq (tab : Nat) (ol ul : Bool) (s : Str) : listItemMatch tab ol ul s =
    match (match (if ol then olMarker (afterSp (some (tab - 1)) s) else none) with
           | some m => some m
           | none => if ul then ulMarker (afterSp (some (tab - 1)) s) else none) with
    | none => none
    | some (marker, r) =>
      if countSp r = 0 then none else some (marker, (r.drop (countSp r)).takeWhile notNl) := rfl

/-- the marker found by `listItemMatch` -/
theorem listItemMatch_marker {tab : Nat} {ol ul : Bool} {s : Str} (h : (listItemMatch tab ol ul s).isSome) :
    ∃ m r, (olMarker (afterSp (some (tab - 1)) s) = some (m, r) ∨ ulMarker (afterSp (some (tab - 1)) s) = some (m, r)) := by
  rw [listItemMatch_eq] at h
  split at h
  · cases h
  · next marker r hm =>
    refine ⟨marker, r, ?_⟩
    split at hm
    · next m hm' =>
      cases hm
      split at hm'
      · exact Or.inl hm'
      · cases hm'
    · split at hm
      · exact Or.inr hm
      · cases hm

theorem listItemMatch_content {tab : Nat} {ol ul : Bool} {s m c : Str} (h : listItemMatch tab ol ul s = some (m, c)) :
    c.length < s.length := by
  have hs := length_afterSp_le (some (tab - 1)) s
  rw [listItemMatch_eq] at h
  split at h
  · cases h
  · next marker r hm =>
    have hr : r.length < (afterSp (some (tab - 1)) s).length := by
      split at hm
      · next m' hm' =>
        cases hm
        split at hm'
        · exact (olMarker_some hm').1
        · cases hm'
      · split at hm
        · exact (ulMarker_some hm).1
        · cases hm
    split at h
    · cases h
    · cases h
      have := length_takeWhile_le' notNl (r.drop (countSp r))
      simp at this
      omega

theorem countPrefix_le (ch : Char) (k : Nat) (s : Str) : countPrefix ch (some k) s ≤ k := by
  induction s generalizing k with
  | nil => cases k <;> simp [countPrefix]
  | cons c s ih =>
    cases k with
    | zero => simp [countPrefix]
    | succ k =>
      simp only [countPrefix]
      split
      · have := ih k; simp at this ⊢; omega
      · omega

/-- when the limited run of spaces ends before a non-space, it is the whole run -/
theorem countSp_eq_of_afterSp (lim : Option Nat) (s : Str) {c : Char} {t : Str}
    (h : afterSp lim s = c :: t) (hc : c ≠ ' ') : countSp s = countPrefix ' ' lim s := by
  induction s generalizing lim with
  | nil => simp [afterSp] at h
  | cons a s ih =>
    cases lim with
    | none => rfl
    | some k =>
      cases k with
      | zero =>
        simp only [afterSp, countPrefix, List.drop_zero] at h
        cases h
        simp [countSp, countPrefix, hc]
      | succ k =>
        by_cases ha : a = ' '
        · subst ha
          have h' : afterSp (some k) s = c :: t := by simpa [afterSp, countPrefix] using h
          have := ih (some k) h'
          simp only [countSp] at this
          simp [countSp, countPrefix, this]
        · simp [countSp, countPrefix, ha]

theorem listItemMatch_countSp {tab : Nat} {ol ul : Bool} {s : Str} (h : (listItemMatch tab ol ul s).isSome) :
    countSp s ≤ tab - 1 := by
  obtain ⟨m, r, hm⟩ := listItemMatch_marker h
  have : ∃ c t, afterSp (some (tab - 1)) s = c :: t ∧ c ≠ ' ' := by
    rcases hm with hm | hm
    · exact (olMarker_some hm).2
    · exact (ulMarker_some hm).2
  obtain ⟨c, t, h1, h2⟩ := this
  rw [countSp_eq_of_afterSp _ s h1 h2]
  exact countPrefix_le _ _ _

theorem indentItemMatch_firstLine {tab : Nat} {ol ul : Bool} {s : Str} (h : (listItemMatch tab ol ul s).isSome) :
    indentItemMatch tab (s.takeWhile notNl) = false := by
  have h1 := listItemMatch_countSp h
  have h2 : countSp (s.takeWhile notNl) = countSp s := countPrefix_takeWhile none s
  simp only [indentItemMatch, h2]
  split
  · next hc =>
    simp only [Bool.and_eq_true, decide_eq_true_eq] at hc
    omega
  · rfl

theorem mu_modifyLast (x : Str) (items : List Str) :
    mu (modifyLast (fun l => l ++ x) items) ≤ mu items + x.length := by
  simp only [modifyLast]
  split
  · next l hl =>
    have : items = items.dropLast ++ [l] := by
      rw [List.getLast?_eq_some_iff] at hl
      obtain ⟨ys, rfl⟩ := hl
      simp
    have e : mu items = mu items.dropLast + mu [l] := by
      conv => lhs; rw [this]
      exact mu_append _ _
    rw [mu_append, e]
    simp
    omega
  · omega

theorem mu_getItemsStep (tab : Nat) (items : List Str) (line : Str) :
    mu (getItemsStep tab items line) ≤ mu items + (line.length + 1) := by
  simp only [getItemsStep]
  split
  · next m content hm =>
    have := listItemMatch_content hm
    rw [mu_append]; simp; omega
  · split
    · split
      · split
        · have := mu_modifyLast ('\n' :: line) items; simp at this ⊢; omega
        · rw [mu_append]; simp
      · rw [mu_append]; simp
    · have := mu_modifyLast ('\n' :: line) items; simp at this ⊢; omega

theorem mu_foldl_getItemsStep (tab : Nat) (ls : List Str) (items : List Str) :
    mu (ls.foldl (getItemsStep tab) items) ≤ mu items + mu ls := by
  induction ls generalizing items with
  | nil => simp
  | cons l t ih =>
    simp only [List.foldl_cons]
    have := ih (getItemsStep tab items l)
    have := mu_getItemsStep tab items l
    simp; omega

/-- the items of a list block together are shorter than the block -/
theorem mu_getItems {tab : Nat} {ol ul : Bool} {b : Str} (h : (listItemMatch tab ol ul b).isSome) :
    mu (getItems tab b) ≤ b.length := by
  obtain ⟨t, ht⟩ := splitC_head b
  have hmu := mu_lines b
  rw [ht] at hmu
  simp only [getItems, ht, List.foldl_cons]
  have hstep : mu (getItemsStep tab [] (b.takeWhile notNl)) ≤ (b.takeWhile notNl).length := by
    simp only [getItemsStep, indentItemMatch_firstLine h]
    split
    · next m content hm => have := listItemMatch_content hm; simp; omega
    · simp [modifyLast]
  have := mu_foldl_getItemsStep tab t (getItemsStep tab [] (b.takeWhile notNl))
  simp at hmu
  omega

theorem getItems_mem {tab : Nat} {ol ul : Bool} {b item : Str} (h : (listItemMatch tab ol ul b).isSome)
    (hi : item ∈ getItems tab b) : mu [item] ≤ b.length := by
  have := mem_length_lt_mu hi
  have := mu_getItems h
  simp; omega

/-! ### detab -/

theorem mu_detabLines_snd (n : Nat) (ls : List Str) : mu (detabLines n ls).2 ≤ mu ls := by
  induction ls with
  | nil => simp [detabLines]
  | cons l t ih =>
    simp only [detabLines]
    split
    · simp; omega
    · split
      · simp; omega
      · simp

theorem startsWith_firstLine (p : Str) (hp : ∀ c ∈ p, c ≠ '\n') (s : Str) (h : startsWith s p = true) :
    startsWith (s.takeWhile notNl) p = true := by
  induction p generalizing s with
  | nil => cases s <;> simp [startsWith]
  | cons a p ih =>
    cases s with
    | nil => simp [startsWith] at h
    | cons c s =>
      simp only [startsWith, Bool.and_eq_true, decide_eq_true_eq] at h
      obtain ⟨rfl, h2⟩ := h
      have : notNl c = true := by
        have := hp c (by simp)
        simp [notNl, this]
      simp only [List.takeWhile_cons, this, if_true, startsWith, Bool.and_eq_true, decide_eq_true_eq, true_and]
      exact ih (fun c hc => hp c (by simp [hc])) s h2

/-- a code block: what `detab` gives back is shorter than the block -/
theorem detab_rest_length {tab : Nat} {b : Str} (h : startsWith b (spaces tab) = true)
    (hne : (detab tab b).2 ≠ []) : (detab tab b).2.length + 1 ≤ b.length := by
  obtain ⟨t, ht⟩ := splitC_head b
  have hmu := mu_lines b
  have h1 : startsWith (b.takeWhile notNl) (spaces tab) = true :=
    startsWith_firstLine _ (by intro c hc; simp [spaces] at hc; rw [hc.2]; decide) b h
  have e : (detab tab b).2 = joinLines (detabLines tab t).2 := by
    simp only [detab, ht, detabLines, h1, if_true]
  rw [e] at hne ⊢
  have hr : (detabLines tab t).2 ≠ [] := by
    intro h0; rw [h0] at hne; simp [joinLines, join] at hne
  have := length_joinLines_lt hr
  have := mu_detabLines_snd tab t
  rw [ht] at hmu
  simp at hmu
  omega

theorem length_joinLines_lines (s : Str) : (joinLines (lines s)).length = s.length := by
  have := length_joinLines_lt (splitC_ne_nil '\n' s)
  have := mu_lines s
  simp only [lines] at *
  omega

theorem looseDetab_length (tab : Nat) (text : Str) (level : Nat) : (looseDetab tab text level).length ≤ text.length := by
  have := length_joinLines_map_le
    (fun l => if startsWith l (spaces (tab * level)) then l.drop (tab * level) else l)
    (by intro l; split <;> simp) (lines text)
  rw [length_joinLines_lines] at this
  exact this

/-! ### strip -/

theorem length_lstripP_le (p : Char → Bool) (s : Str) : (lstripP p s).length ≤ s.length := by
  induction s with
  | nil => simp [lstripP]
  | cons c s ih => simp only [lstripP]; split <;> simp <;> omega

theorem length_rstripP_le (p : Char → Bool) (s : Str) : (rstripP p s).length ≤ s.length := by
  have := length_lstripP_le p s.reverse
  simpa [rstripP] using this

theorem length_lstripC_le (ch : Char) (s : Str) : (lstripC ch s).length ≤ s.length := length_lstripP_le _ s
theorem length_rstripC_le (ch : Char) (s : Str) : (rstripC ch s).length ≤ s.length := length_rstripP_le _ s

/-! ### what the processors ask of the callback, and what they give back -/

/-- the callback terminates on every block list of measure `≤ n`, whatever the state -/
def Small (pb : PB) (n : Nat) : Prop :=
  ∀ st refs parent bl, mu bl ≤ n → (pb st refs parent bl).isSome

/-- the callback terminates on every block list of measure `≤ n` in the state `state ++ [detabbed]` -/
def SmallD (pb : PB) (state : List BState) (n : Nat) : Prop :=
  ∀ refs parent bl, mu bl ≤ n → (pb (state ++ [.detabbed]) refs parent bl).isSome

/-- the processor succeeded and left a block list of measure `< mu (b :: rest)` -/
def Progress (r : Option (Node × Refs × List Str)) (b : Str) (rest : List Str) : Prop :=
  ∃ p rf bl, r = some (p, rf, bl) ∧ mu bl ≤ mu rest + b.length

theorem parseChunk_small {pb : PB} {n : Nat} (hS : Small pb n) (st refs parent) (text : Str) (h : text.length + 1 ≤ n) :
    (parseChunk pb st refs parent text).isSome :=
  hS _ _ _ _ (by have := mu_splitS ['\n', '\n'] text; omega)

theorem emptyP_measure (refs : Refs) (parent : Node) (b : Str) (rest : List Str) :
    Progress (some (emptyP refs parent b rest)) b rest := by
  have key : mu (if (b.drop 1).isEmpty then rest else b.drop 1 :: rest) ≤ mu rest + b.length := by
    split
    · omega
    · next h =>
      cases b with
      | nil => simp at h
      | cons c t => simp; omega
  simp only [emptyP]
  split
  · split
    · exact ⟨_, _, _, rfl, key⟩
    · exact ⟨_, _, _, rfl, key⟩
  · exact ⟨_, _, _, rfl, key⟩

theorem codeP_measure (tab : Nat) (refs : Refs) (parent : Node) (b : Str) (rest : List Str)
    (h : startsWith b (spaces tab) = true) : Progress (some (codeP tab refs parent b rest)) b rest := by
  have key : mu (if (detab tab b).2.isEmpty then rest else (detab tab b).2 :: rest) ≤ mu rest + b.length := by
    split
    · omega
    · next hne =>
      have := detab_rest_length h (by intro h0; simp [h0] at hne)
      simp; omega
  simp only [codeP]
  split
  · split
    · exact ⟨_, _, _, rfl, key⟩
    · exact ⟨_, _, _, rfl, key⟩
  · exact ⟨_, _, _, rfl, key⟩

theorem hashP_measure (tab : Nat) (pb : PB) (state : List BState) (refs : Refs) (parent : Node) (b : Str)
    (rest : List Str) (m : Nat × Nat × Nat × Str) (hb : b ≠ []) (hm : hashSearch b = some m)
    (hS : Small pb b.length) : Progress (hashP tab pb state refs parent b rest m) b rest := by
  obtain ⟨st, en, lv, header⟩ := m
  obtain ⟨h1, h2⟩ := hashSearch_some hb hm
  have hcall : ∃ r, (if (b.take st).isEmpty then some (parent, refs) else pb state refs parent [b.take st]) = some r := by
    split
    · exact ⟨_, rfl⟩
    · exact Option.isSome_iff_exists.1 (hS _ _ _ _ (by simp; omega))
  obtain ⟨⟨p', rf'⟩, hr⟩ := hcall
  simp only [hashP, hr]
  refine ⟨_, _, _, rfl, ?_⟩
  split
  · omega
  · split
    · have := looseDetab_length tab (b.drop en) 1
      simp at this ⊢; omega
    · simp; omega

theorem setextP_measure (refs : Refs) (parent : Node) (b : Str) (rest : List Str) :
    Progress (some (setextP refs parent b rest)) b rest := by
  simp only [setextP]
  refine ⟨_, _, _, rfl, ?_⟩
  split
  · next hl =>
    have h1 := mu_lines b
    have h2 : mu (lines b) = mu ((lines b).take 2) + mu ((lines b).drop 2) := by
      rw [← mu_append, List.take_append_drop]
    have h3 : 2 ≤ mu ((lines b).take 2) := by
      match hx : lines b with
      | [] => simp [hx] at hl
      | [_] => simp [hx] at hl
      | a :: c :: r => simp; omega
    have h4 := length_joinLines_le ((lines b).drop 2)
    simp; omega
  · omega

theorem hrP_measure (pb : PB) (state : List BState) (refs : Refs) (parent : Node) (b : Str)
    (rest : List Str) (m : Nat × Nat) (hm : hrSearch b = some m)
    (hS : Small pb b.length) : Progress (hrP pb state refs parent b rest m) b rest := by
  obtain ⟨st, en⟩ := m
  obtain ⟨h1, h2⟩ := hrSearch_some hm
  have hpre := length_rstripC_le '\n' (b.take st)
  have hcall : ∃ r, (if (rstripC '\n' (b.take st)).isEmpty then some (parent, refs)
      else pb state refs parent [rstripC '\n' (b.take st)]) = some r := by
    split
    · exact ⟨_, rfl⟩
    · exact Option.isSome_iff_exists.1 (hS _ _ _ _ (by simp at hpre ⊢; omega))
  obtain ⟨⟨p', rf'⟩, hr⟩ := hcall
  simp only [hrP, hr]
  refine ⟨_, _, _, rfl, ?_⟩
  have hpost := length_lstripC_le '\n' (b.drop en)
  split
  · omega
  · simp at hpost ⊢; omega

theorem listItems_small (tab : Nat) (pb : PB) (st2 : List BState) (n : Nat) (hS : Small pb n)
    (items : List Str) (hi : ∀ item ∈ items, mu [item] ≤ n) (refs : Refs) (lst : Node) :
    (listItems tab pb st2 refs lst items).isSome := by
  induction items generalizing refs lst with
  | nil => simp [listItems]
  | cons item items ih =>
    have ih' := fun refs lst => ih (fun x hx => hi x (by simp [hx])) refs lst
    have h0 := hi item (by simp)
    simp only [listItems]
    split
    · split
      · next l hl =>
        obtain ⟨⟨li, rf⟩, hr⟩ := Option.isSome_iff_exists.1 (hS st2 refs l [item] h0)
        simp only [hr]; exact ih' _ _
      · exact ih' _ _
    · obtain ⟨⟨li, rf⟩, hr⟩ := Option.isSome_iff_exists.1 (hS st2 refs (Node.el "li") [item] h0)
      simp only [hr]; exact ih' _ _

theorem listP_measure (tab : Nat) (pb : PB) (state : List BState) (refs : Refs) (parent : Node) (b : Str)
    (rest : List Str) (tag : String) (ol ul : Bool) (hb : b ≠ []) (hm : (listItemMatch tab ol ul b).isSome)
    (hS : Small pb b.length) : Progress (listP tab pb state refs parent b rest tag) b rest := by
  have hpos : 0 < b.length := List.length_pos_iff.2 hb
  have hitems : ∀ item ∈ getItems tab b, mu [item] ≤ b.length := fun item hi => getItems_mem hm hi
  have hdrop : ∀ item ∈ (getItems tab b).drop 1, mu [item] ≤ b.length :=
    fun item hi => hitems item (List.mem_of_mem_drop hi)
  have hhead : mu [(getItems tab b).headD []] ≤ b.length := by
    cases hx : getItems tab b with
    | nil => simp; omega
    | cons a r => exact hitems a (by simp [hx])
  have hli := listItems_small tab pb (state ++ [.list]) b.length hS
  simp only [listP]
  split
  · next lst _ =>
    obtain ⟨⟨newli, rf⟩, hr⟩ := Option.isSome_iff_exists.1
      (hS (state ++ [.looselist]) refs (Node.el "li") [(getItems tab b).headD []] hhead)
    simp only [hr]
    generalize Node.append _ newli = lst0
    obtain ⟨⟨l2, rf2⟩, hr2⟩ := Option.isSome_iff_exists.1 (hli _ hdrop rf lst0)
    simp only [hr2]
    exact ⟨_, _, _, rfl, by omega⟩
  · split
    · obtain ⟨⟨l2, rf2⟩, hr2⟩ := Option.isSome_iff_exists.1 (hli _ hitems refs parent)
      simp only [hr2]
      exact ⟨_, _, _, rfl, by omega⟩
    · obtain ⟨⟨l2, rf2⟩, hr2⟩ := Option.isSome_iff_exists.1 (hli _ hitems refs (Node.el tag))
      simp only [hr2]
      exact ⟨_, _, _, rfl, by omega⟩

theorem quoteSearchNl_ge {i : Nat} {s : Str} {q : Nat} (h : quoteSearchNl i s = some q) : i ≤ q := by
  induction s generalizing i with
  | nil => simp [quoteSearchNl] at h
  | cons c s ih =>
    simp only [quoteSearchNl] at h
    split at h
    · cases h; omega
    · have := ih h; omega

/-- the cleaned quote is shorter than the block -/
theorem quote_block_length {b : Str} {q : Nat} (hb : b ≠ []) (hnl : startsWith b ['\n'] = false)
    (h : quoteSearch b = some q) :
    (joinLines ((lines (b.drop q)).map quoteClean)).length + 1 ≤ b.length := by
  have hq := quoteSearch_some hb h
  cases q with
  | succ q =>
    have h1 := length_joinLines_map_le quoteClean quoteClean_length_le (lines (b.drop (q + 1)))
    rw [length_joinLines_lines] at h1
    simp at h1; omega
  | zero =>
    have hl : (quoteLine b).isSome := by
      simp only [quoteSearch] at h
      split at h
      · assumption
      · cases b with
        | nil => exact absurd rfl hb
        | cons c r =>
          simp only [quoteSearchNl] at h
          split at h
          · next hc =>
            simp only [Bool.and_eq_true, decide_eq_true_eq] at hc
            simp [startsWith, hc.1] at hnl
          · have := quoteSearchNl_ge h; omega
    obtain ⟨t, ht⟩ := splitC_head b
    have h1 := length_joinLines_map_lt quoteClean quoteClean_length_le (b.takeWhile notNl) t
      (quoteClean_length_lt (quoteLine_firstLine hl))
    have h2 := length_joinLines_lines b
    rw [ht] at h2
    simp only [List.drop_zero, ht]
    omega

theorem quoteP_measure (pb : PB) (state : List BState) (refs : Refs) (parent : Node) (b : Str)
    (rest : List Str) (q : Nat) (hb : b ≠ []) (hnl : startsWith b ['\n'] = false) (hm : quoteSearch b = some q)
    (hS : Small pb b.length) : Progress (quoteP pb state refs parent b rest q) b rest := by
  have hq := quoteSearch_some hb hm
  have hblock := quote_block_length hb hnl hm
  obtain ⟨⟨p1, rf1⟩, hr⟩ := Option.isSome_iff_exists.1 (hS state refs parent [b.take q] (by simp; omega))
  simp only [quoteP, hr]
  split
  · next sib _ =>
    obtain ⟨⟨p2, rf2⟩, hr2⟩ := Option.isSome_iff_exists.1
      (parseChunk_small hS (state ++ [.blockquote]) rf1 sib _ hblock)
    simp only [hr2]
    exact ⟨_, _, _, rfl, by omega⟩
  · obtain ⟨⟨p2, rf2⟩, hr2⟩ := Option.isSome_iff_exists.1
      (parseChunk_small hS (state ++ [.blockquote]) rf1 (Node.el "blockquote") _ hblock)
    simp only [hr2]
    exact ⟨_, _, _, rfl, by omega⟩

theorem isBlank_nil : isBlank [] = true := rfl

theorem referenceP_measure (refs : Refs) (parent : Node) (b : Str) (rest : List Str)
    (m : Nat × Nat × Str × Str × Option Str × Option Str) (hm : refSearch b = some m) :
    Progress (some (referenceP refs parent b rest m)) b rest := by
  obtain ⟨st, en, ident, link, t5, t6⟩ := m
  obtain ⟨h1, h2⟩ := refSearch_some hm
  simp only [referenceP]
  refine ⟨_, _, _, rfl, ?_⟩
  have ha := length_lstripC_le '\n' (b.drop en)
  have hbf := length_rstripC_le '\n' (b.take st)
  simp only [List.length_drop, List.length_take] at ha hbf
  by_cases hbl : isBlank (b.drop en) = true
  · simp only [hbl, if_true]
    split
    · omega
    · simp; omega
  · have hlt : en < b.length := by
      apply Nat.lt_of_not_le
      intro hle
      rw [List.drop_of_length_le hle] at hbl
      exact hbl isBlank_nil
    simp only [hbl]
    split
    · simp; omega
    · simp; omega

theorem paraP_measure (state : List BState) (refs : Refs) (parent : Node) (b : Str) (rest : List Str) :
    Progress (some (paraP state refs parent b rest)) b rest := by
  simp only [paraP]
  split
  · exact ⟨_, _, _, rfl, by omega⟩
  · split
    · split
      · exact ⟨_, _, _, rfl, by omega⟩
      · exact ⟨_, _, _, rfl, by omega⟩
    · exact ⟨_, _, _, rfl, by omega⟩

theorem indentP_measure (tab : Nat) (pb : PB) (state : List BState) (refs : Refs) (parent : Node) (b : Str)
    (rest : List Str) (hD : SmallD pb state (b.length + 1)) :
    Progress (indentP tab pb state refs parent b rest) b rest := by
  unfold indentP
  generalize getLevel tab state parent b = ls
  obtain ⟨level, steps⟩ := ls
  have hlen := looseDetab_length tab b level
  have hone : ∀ rf par, ∃ r, pb (state ++ [.detabbed]) rf par [looseDetab tab b level] = some r :=
    fun rf par => Option.isSome_iff_exists.1 (hD rf par _ (by simp; omega))
  have hchunk : ∀ rf par, ∃ r, parseChunk pb (state ++ [.detabbed]) rf par (looseDetab tab b level) = some r :=
    fun rf par => Option.isSome_iff_exists.1
      (hD rf par _ (by have := mu_splitS ['\n', '\n'] (looseDetab tab b level); omega))
  simp only []
  split
  · split
    · next c _ =>
      obtain ⟨⟨p2, rf2⟩, hr2⟩ := hone refs c
      simp only [hr2]; exact ⟨_, _, _, rfl, by omega⟩
    · obtain ⟨⟨p2, rf2⟩, hr2⟩ := hone refs parent
      simp only [hr2]; exact ⟨_, _, _, rfl, by omega⟩
  · split
    · obtain ⟨⟨p2, rf2⟩, hr2⟩ := hone refs (nodeAt steps parent)
      simp only [hr2]; exact ⟨_, _, _, rfl, by omega⟩
    · split
      · next li _ =>
        obtain ⟨⟨p2, rf2⟩, hr2⟩ := hchunk refs (textToP li)
        simp only [hr2]; exact ⟨_, _, _, rfl, by omega⟩
      · obtain ⟨⟨p2, rf2⟩, hr2⟩ := hone refs (Node.el "li")
        simp only [hr2]; exact ⟨_, _, _, rfl, by omega⟩

/-- `ListIndentProcessor.test` -/
def indentTest (tab : Nat) (state : List BState) (parent : Node) (b : Str) : Bool :=
  startsWith b (spaces tab) && !isstate state .detabbed &&
    (isItemTag parent || (match parent.last? with | some c => isListTag c | none => false))

theorem dispatch_eq (tab : Nat) (pb : PB) (state : List BState) (refs : Refs) (parent : Node) (b : Str)
    (rest : List Str) : dispatch tab pb state refs parent b rest =
    if b.isEmpty || startsWith b ['\n'] then some (emptyP refs parent b rest)
    else if indentTest tab state parent b then indentP tab pb state refs parent b rest
    else if startsWith b (spaces tab) then some (codeP tab refs parent b rest)
    else match hashSearch b with
    | some m => hashP tab pb state refs parent b rest m
    | none =>
    if setextMatch b then some (setextP refs parent b rest) else
    match hrSearch b with
    | some m => hrP pb state refs parent b rest m
    | none =>
    if (listItemMatch tab true false b).isSome then listP tab pb state refs parent b rest "ol"
    else if (listItemMatch tab false true b).isSome then listP tab pb state refs parent b rest "ul"
    else
    match quoteSearch b with
    | some q => quoteP pb state refs parent b rest q
    | none =>
    match refSearch b with
    | some m => some (referenceP refs parent b rest m)
    | none => some (paraP state refs parent b rest) := rfl

/-- **progress of one turn of the loop**: if the callback terminates on the smaller block lists (and, when the
    state is not `detabbed`, on block lists up to the size of `[b]` in state `detabbed`), the turn succeeds and leaves
    a block list of smaller measure -/
theorem dispatch_progress (tab : Nat) (pb : PB) (state : List BState) (refs : Refs) (parent : Node) (b : Str)
    (rest : List Str) (hS : Small pb b.length)
    (hD : isstate state .detabbed = false → SmallD pb state (b.length + 1)) :
    Progress (dispatch tab pb state refs parent b rest) b rest := by
  rw [dispatch_eq]
  split
  · exact emptyP_measure refs parent b rest
  · next h0 =>
    simp only [Bool.or_eq_true, not_or, Bool.not_eq_true] at h0
    have hb : b ≠ [] := by rintro rfl; simp at h0
    have hnl := h0.2
    split
    · next hc =>
      simp only [indentTest, Bool.and_eq_true, Bool.not_eq_true'] at hc
      exact indentP_measure tab pb state refs parent b rest (hD hc.1.2)
    · split
      · next hc => exact codeP_measure tab refs parent b rest hc
      · split
        · next m hm => exact hashP_measure tab pb state refs parent b rest m hb hm hS
        · split
          · exact setextP_measure refs parent b rest
          · split
            · next m hm => exact hrP_measure pb state refs parent b rest m hm hS
            · split
              · next hl => exact listP_measure tab pb state refs parent b rest "ol" true false hb hl hS
              · split
                · next hl => exact listP_measure tab pb state refs parent b rest "ul" false true hb hl hS
                · split
                  · next q hq => exact quoteP_measure pb state refs parent b rest q hb hnl hq hS
                  · split
                    · next m hm => exact referenceP_measure refs parent b rest m hm
                    · exact paraP_measure state refs parent b rest

/-- the fuel needed by `parseBlocks` -/
def need (state : List BState) (blocks : List Str) : Nat :=
  2 * mu blocks + (if isstate state .detabbed then 0 else 1)

theorem isstate_append_detabbed (state : List BState) : isstate (state ++ [.detabbed]) .detabbed = true := by
  simp [isstate]

theorem parseBlocks_total (tab : Nat) (f : Nat) : ∀ (state : List BState) (refs : Refs) (parent : Node)
    (blocks : List Str), need state blocks ≤ f → (parseBlocks tab f state refs parent blocks).isSome := by
  induction f with
  | zero =>
    intro state refs parent blocks h
    cases blocks with
    | nil => simp [parseBlocks]
    | cons b rest => simp [need] at h; omega
  | succ f ih =>
    intro state refs parent blocks h
    cases blocks with
    | nil => simp [parseBlocks]
    | cons b rest =>
      simp only [need, mu_cons] at h
      have hS : Small (parseBlocks tab f) b.length := by
        intro st rf par bl hbl
        apply ih
        simp only [need]
        split <;> split at h <;> omega
      have hD : isstate state .detabbed = false → SmallD (parseBlocks tab f) state (b.length + 1) := by
        intro hst rf par bl hbl
        apply ih
        simp only [need, isstate_append_detabbed, hst] at h ⊢
        simp at h ⊢; omega
      obtain ⟨p, rf, bl, hr, hbl⟩ := dispatch_progress tab (parseBlocks tab f) state refs parent b rest hS hD
      simp only [parseBlocks, hr]
      apply ih
      simp only [need]
      split <;> split at h <;> omega

theorem parseDocument_total (tab : Nat) (text : Str) : (parseDocument tab text).isSome := by
  simp only [parseDocument, parseDocumentWith, parseChunk]
  apply parseBlocks_total
  have := mu_splitS ['\n', '\n'] text
  simp only [need, fuelFor]
  split <;> omega

/-! ### the recursive calls of one turn

`Called state b st bl`: a turn of the loop on block `b` in state `state` calls the callback in state `st` on the
block list `bl` only if `bl` is smaller than `[b]`, or — `ListIndentProcessor`, when `state` is not detabbed — at
most as large as `[b]` and `st` is `state` with `detabbed` pushed. -/

def Called (state : List BState) (b : Str) (st : List BState) (bl : List Str) : Prop :=
  mu bl ≤ b.length ∨ (isstate state .detabbed = false ∧ st = state ++ [.detabbed] ∧ mu bl ≤ b.length + 1)

/-- `pb'` returns what `pb` returns wherever `pb` succeeds on a call that a turn on `b` in `state` can make -/
def LeOn (state : List BState) (b : Str) (pb pb' : PB) : Prop :=
  ∀ st refs parent bl r, Called state b st bl → pb st refs parent bl = some r → pb' st refs parent bl = some r

theorem hashP_mono {tab : Nat} {pb pb' : PB} {state : List BState} {refs : Refs} {parent : Node} {b : Str}
    {rest : List Str} {m : Nat × Nat × Nat × Str} (hb : b ≠ []) (hm : hashSearch b = some m)
    (hle : LeOn state b pb pb') {r} (h : hashP tab pb state refs parent b rest m = some r) :
    hashP tab pb' state refs parent b rest m = some r := by
  obtain ⟨st, en, lv, header⟩ := m
  obtain ⟨h1, h2⟩ := hashSearch_some hb hm
  simp only [hashP] at h ⊢
  by_cases hemp : (b.take st).isEmpty = true
  · simp only [hemp, if_true] at h ⊢; exact h
  · simp only [hemp] at h ⊢
    cases hc : pb state refs parent [b.take st] with
    | none => simp [hc] at h
    | some x =>
      have := hle _ _ _ _ _ (Or.inl (by simp; omega)) hc
      simp only [hc] at h
      simp only [this]
      exact h

theorem hrP_mono {pb pb' : PB} {state : List BState} {refs : Refs} {parent : Node} {b : Str}
    {rest : List Str} {m : Nat × Nat} (hm : hrSearch b = some m)
    (hle : LeOn state b pb pb') {r} (h : hrP pb state refs parent b rest m = some r) :
    hrP pb' state refs parent b rest m = some r := by
  obtain ⟨st, en⟩ := m
  obtain ⟨h1, h2⟩ := hrSearch_some hm
  have hpre := length_rstripC_le '\n' (b.take st)
  simp only [hrP] at h ⊢
  by_cases hemp : (rstripC '\n' (b.take st)).isEmpty = true
  · simp only [hemp, if_true] at h ⊢; exact h
  · simp only [hemp] at h ⊢
    cases hc : pb state refs parent [rstripC '\n' (b.take st)] with
    | none => simp [hc] at h
    | some x =>
      have := hle _ _ _ _ _ (Or.inl (by simp at hpre ⊢; omega)) hc
      simp only [hc] at h
      simp only [this]
      exact h

theorem listItems_mono {tab : Nat} {pb pb' : PB} {st2 : List BState} {state : List BState} {b : Str}
    (hle : LeOn state b pb pb') (items : List Str) (hi : ∀ item ∈ items, mu [item] ≤ b.length)
    (refs : Refs) (lst : Node) {r} (h : listItems tab pb st2 refs lst items = some r) :
    listItems tab pb' st2 refs lst items = some r := by
  induction items generalizing refs lst with
  | nil => simpa [listItems] using h
  | cons item items ih =>
    have ih' := fun refs lst => ih (fun x hx => hi x (by simp [hx])) refs lst
    have h0 := hi item (by simp)
    simp only [listItems] at h ⊢
    split
    · next hsw =>
      simp only [hsw, if_true] at h
      split
      · next l hl =>
        simp only [hl] at h
        cases hc : pb st2 refs l [item] with
        | none => simp [hc] at h
        | some x =>
          have := hle _ _ _ _ _ (Or.inl h0) hc
          simp only [hc] at h
          simp only [this]
          exact ih' _ _ h
      · next hl =>
        simp only [hl] at h
        exact ih' _ _ h
    · next hsw =>
      simp only [hsw] at h
      cases hc : pb st2 refs (Node.el "li") [item] with
      | none => simp [hc] at h
      | some x =>
        have := hle _ _ _ _ _ (Or.inl h0) hc
        simp only [hc] at h
        simp only [this]
        exact ih' _ _ h

theorem listP_mono {tab : Nat} {pb pb' : PB} {state : List BState} {refs : Refs} {parent : Node} {b : Str}
    {rest : List Str} {tag : String} {ol ul : Bool} (hb : b ≠ []) (hm : (listItemMatch tab ol ul b).isSome)
    (hle : LeOn state b pb pb') {r} (h : listP tab pb state refs parent b rest tag = some r) :
    listP tab pb' state refs parent b rest tag = some r := by
  have hpos : 0 < b.length := List.length_pos_iff.2 hb
  have hitems : ∀ item ∈ getItems tab b, mu [item] ≤ b.length := fun item hi => getItems_mem hm hi
  have hdrop : ∀ item ∈ (getItems tab b).drop 1, mu [item] ≤ b.length :=
    fun item hi => hitems item (List.mem_of_mem_drop hi)
  have hhead : mu [(getItems tab b).headD []] ≤ b.length := by
    cases hx : getItems tab b with
    | nil => simp; omega
    | cons a r => exact hitems a (by simp [hx])
  simp only [listP] at h ⊢
  split at h
  · next lst hlst =>
    try simp only [hlst]
    cases hc : pb (state ++ [.looselist]) refs (Node.el "li") [(getItems tab b).headD []] with
    | none => (simp only [hc] at h <;> cases h)
    | some x =>
      have := hle _ _ _ _ _ (Or.inl hhead) hc
      simp only [hc] at h
      simp only [this]
      generalize Node.append _ x.1 = lst0 at h ⊢
      cases hl : listItems tab pb (state ++ [.list]) x.2 lst0 ((getItems tab b).drop 1) with
      | none => (simp only [hl] at h <;> cases h)
      | some y =>
        have := listItems_mono hle _ hdrop _ _ hl
        simp only [hl] at h
        simp only [this]
        exact h
  · next hnone =>
    try simp only [hnone]
    split at h
    · next hp =>
      try simp only [hp, if_true]
      cases hl : listItems tab pb (state ++ [.list]) refs parent (getItems tab b) with
      | none => (simp only [hl] at h <;> cases h)
      | some y =>
        have := listItems_mono hle _ hitems _ _ hl
        simp only [hl] at h
        simp only [this]
        exact h
    · next hp =>
      try simp only [hp]
      cases hl : listItems tab pb (state ++ [.list]) refs (Node.el tag) (getItems tab b) with
      | none => (simp only [hl] at h <;> cases h)
      | some y =>
        have := listItems_mono hle _ hitems _ _ hl
        simp only [hl] at h
        simp only [this]
        exact h

theorem parseChunk_mono {pb pb' : PB} {state : List BState} {b : Str} (hle : LeOn state b pb pb')
    {st : List BState} {refs : Refs} {parent : Node} {text : Str} (hc : Called state b st (splitS ['\n', '\n'] text))
    {r} (h : parseChunk pb st refs parent text = some r) : parseChunk pb' st refs parent text = some r :=
  hle _ _ _ _ _ hc h

theorem quoteP_mono {pb pb' : PB} {state : List BState} {refs : Refs} {parent : Node} {b : Str}
    {rest : List Str} {q : Nat} (hb : b ≠ []) (hnl : startsWith b ['\n'] = false) (hm : quoteSearch b = some q)
    (hle : LeOn state b pb pb') {r} (h : quoteP pb state refs parent b rest q = some r) :
    quoteP pb' state refs parent b rest q = some r := by
  have hq := quoteSearch_some hb hm
  have hblock := quote_block_length hb hnl hm
  have hcalled : ∀ st, Called state b st
      (splitS ['\n', '\n'] (joinLines ((lines (b.drop q)).map quoteClean))) := by
    intro st
    have := mu_splitS ['\n', '\n'] (joinLines ((lines (b.drop q)).map quoteClean))
    exact Or.inl (by omega)
  simp only [quoteP] at h ⊢
  cases hc : pb state refs parent [b.take q] with
  | none => (simp only [hc] at h <;> cases h)
  | some x =>
    have := hle _ _ _ _ _ (Or.inl (by simp; omega)) hc
    simp only [hc] at h
    simp only [this]
    split at h
    · next sib hsib =>
      try simp only [hsib]
      cases hc2 : parseChunk pb (state ++ [.blockquote]) x.2 sib
          (joinLines ((lines (b.drop q)).map quoteClean)) with
      | none => (simp only [hc2] at h <;> cases h)
      | some y =>
        have := parseChunk_mono hle (hcalled _) hc2
        simp only [hc2] at h
        simp only [this]
        exact h
    · next hsib =>
      try simp only [hsib]
      cases hc2 : parseChunk pb (state ++ [.blockquote]) x.2 (Node.el "blockquote")
          (joinLines ((lines (b.drop q)).map quoteClean)) with
      | none => (simp only [hc2] at h <;> cases h)
      | some y =>
        have := parseChunk_mono hle (hcalled _) hc2
        simp only [hc2] at h
        simp only [this]
        exact h

theorem indentP_mono {tab : Nat} {pb pb' : PB} {state : List BState} {refs : Refs} {parent : Node} {b : Str}
    {rest : List Str} (hst : isstate state .detabbed = false)
    (hle : LeOn state b pb pb') {r} (h : indentP tab pb state refs parent b rest = some r) :
    indentP tab pb' state refs parent b rest = some r := by
  unfold indentP at h ⊢
  generalize getLevel tab state parent b = ls at h ⊢
  obtain ⟨level, steps⟩ := ls
  have hlen := looseDetab_length tab b level
  have hone : Called state b (state ++ [.detabbed]) [looseDetab tab b level] :=
    Or.inr ⟨hst, rfl, by simp; omega⟩
  have hchunk : Called state b (state ++ [.detabbed]) (splitS ['\n', '\n'] (looseDetab tab b level)) :=
    Or.inr ⟨hst, rfl, by have := mu_splitS ['\n', '\n'] (looseDetab tab b level); omega⟩
  simp only [] at h ⊢
  split at h
  · next hp =>
    try simp only [hp, if_true]
    split at h
    · next c hc0 =>
      try simp only [hc0]
      cases hc : pb (state ++ [.detabbed]) refs c [looseDetab tab b level] with
      | none => (simp only [hc] at h <;> cases h)
      | some x =>
        have := hle _ _ _ _ _ hone hc
        simp only [hc] at h
        simp only [this]
        exact h
    · next hc0 =>
      try simp only [hc0]
      cases hc : pb (state ++ [.detabbed]) refs parent [looseDetab tab b level] with
      | none => (simp only [hc] at h <;> cases h)
      | some x =>
        have := hle _ _ _ _ _ hone hc
        simp only [hc] at h
        simp only [this]
        exact h
  · next hp =>
    try simp only [hp]
    split at h
    · next hs =>
      try simp only [hs, if_true]
      cases hc : pb (state ++ [.detabbed]) refs (nodeAt steps parent) [looseDetab tab b level] with
      | none => (simp only [hc] at h <;> cases h)
      | some x =>
        have := hle _ _ _ _ _ hone hc
        simp only [hc] at h
        simp only [this]
        exact h
    · next hs =>
      try simp only [hs]
      split at h
      · next li hli =>
        try simp only [hli]
        cases hc : parseChunk pb (state ++ [.detabbed]) refs (textToP li) (looseDetab tab b level) with
        | none => (simp only [hc] at h <;> cases h)
        | some x =>
          have := parseChunk_mono hle hchunk hc
          simp only [hc] at h
          simp only [this]
          exact h
      · next hli =>
        try simp only [hli]
        cases hc : pb (state ++ [.detabbed]) refs (Node.el "li") [looseDetab tab b level] with
        | none => (simp only [hc] at h <;> cases h)
        | some x =>
          have := hle _ _ _ _ _ hone hc
          simp only [hc] at h
          simp only [this]
          exact h

/-- the result of a turn depends on the callback only through the calls described by `Called` -/
theorem dispatch_mono {tab : Nat} {pb pb' : PB} {state : List BState} {refs : Refs} {parent : Node} {b : Str}
    {rest : List Str} (hle : LeOn state b pb pb') {r} (h : dispatch tab pb state refs parent b rest = some r) :
    dispatch tab pb' state refs parent b rest = some r := by
  rw [dispatch_eq] at h ⊢
  split
  · next h0 => rw [if_pos h0] at h; exact h
  · next h0 =>
    rw [if_neg h0] at h
    simp only [Bool.or_eq_true, not_or, Bool.not_eq_true] at h0
    have hb : b ≠ [] := by rintro rfl; simp at h0
    have hnl := h0.2
    split
    · next hc =>
      rw [if_pos hc] at h
      simp only [indentTest, Bool.and_eq_true, Bool.not_eq_true'] at hc
      exact indentP_mono hc.1.2 hle h
    · next hc =>
      rw [if_neg hc] at h
      split
      · next hc => rw [if_pos hc] at h; exact h
      · next hc =>
        rw [if_neg hc] at h
        split
        · next m hm => simp only [hm] at h; exact hashP_mono hb hm hle h
        · next hm =>
          simp only [hm] at h
          split
          · next hc => rw [if_pos hc] at h; exact h
          · next hc =>
            rw [if_neg hc] at h
            split
            · next m hm => simp only [hm] at h; exact hrP_mono hm hle h
            · next hm =>
              simp only [hm] at h
              split
              · next hl => rw [if_pos hl] at h; exact listP_mono hb hl hle h
              · next hl =>
                rw [if_neg hl] at h
                split
                · next hl => rw [if_pos hl] at h; exact listP_mono hb hl hle h
                · next hl =>
                  rw [if_neg hl] at h
                  split
                  · next q hq => simp only [hq] at h; exact quoteP_mono hb hnl hq hle h
                  · next hq => simp only [hq] at h; exact h

theorem parseBlocks_succ {tab f : Nat} : ∀ {state : List BState} {refs : Refs} {parent : Node} {blocks : List Str} {r},
    parseBlocks tab f state refs parent blocks = some r → parseBlocks tab (f + 1) state refs parent blocks = some r := by
  induction f with
  | zero =>
    intro state refs parent blocks r h
    cases blocks with
    | nil => simpa [parseBlocks] using h
    | cons b rest => simp [parseBlocks] at h
  | succ f ih =>
    intro state refs parent blocks r h
    cases blocks with
    | nil => simpa [parseBlocks] using h
    | cons b rest =>
      rw [parseBlocks] at h ⊢
      cases hd : dispatch tab (parseBlocks tab f) state refs parent b rest with
      | none => (simp only [hd] at h <;> cases h)
      | some x =>
        have := dispatch_mono (pb' := parseBlocks tab (f + 1)) (fun _ _ _ _ _ _ hc => ih hc) hd
        simp only [hd] at h
        simp only [this]
        exact ih h

theorem parseBlocks_fuel_mono {tab f : Nat} (k : Nat) {state : List BState} {refs : Refs} {parent : Node}
    {blocks : List Str} {r} (h : parseBlocks tab f state refs parent blocks = some r) :
    parseBlocks tab (f + k) state refs parent blocks = some r := by
  induction k with
  | zero => exact h
  | succ k ih => exact parseBlocks_succ ih

end MdVerif.Block
