/-
Lemmas for `Props/C02Big.lean`, section 9 (wikilinks): the string class "no `[` is immediately followed by a blank"
(`OkW`) is a `Sep` class of c10x's framework (`Lemmas/InlineXInvP.lean`), and in it a wiki label is never blank, so the
wikilink pattern keeps it too: `findP_w` — every pattern table keeps `OkW` in all texts and in the stash; the wikilink
pattern then always returns an element, never the empty string.  Core Lean only.
-/
import MdVerif.Lemmas.C02BigWInv
import MdVerif.Lemmas.PlaceholdersXFM

namespace MdVerif.InlineX
open Py Inline

/-- no `[` is immediately followed by a blank -/
def OkW (s : Str) : Prop := NoCtl.NoPair '[' ' ' s

/-- neutral characters: neither `[` nor a blank -/
def NW (c : Char) : Prop := c ≠ '[' ∧ c ≠ ' '

theorem okW_neutral {m : Str} (h : ∀ c ∈ m, NW c) : OkW m :=
  NoCtl.noPair_of_not_mem_left (fun hm => (h _ hm).1 rfl)

theorem okW_single (c : Char) : OkW [c] := by
  unfold OkW
  rw [NoCtl.noPair_iff]
  intro x y e
  have := congrArg List.length e
  simp at this
  omega

theorem okW_flatMap (a : Char) {b : Str} (hb : b ≠ []) (hn : ∀ c ∈ b, NW c) :
    ∀ s : Str, OkW s → OkW (s.flatMap (Code.sub1 a b)) := by
  intro s
  induction s with
  | nil => intro _; exact NoCtl.noPair_nil _ _
  | cons c r ih =>
    intro h
    have hr : OkW r := NoCtl.NoPair.infix h (List.suffix_cons c r).isInfix
    rw [List.flatMap_cons]
    have hhead : ∀ d r', r = d :: r' → ((d :: r').flatMap (Code.sub1 a b)).head? ≠ some ' ' ∨ d = ' ' := by
      intro d r' _
      by_cases hd : d = ' '
      · exact .inr hd
      · left
        rw [List.flatMap_cons]
        unfold Code.sub1
        split
        · cases b with
          | nil => exact absurd rfl hb
          | cons x b' =>
            simp only [List.cons_append, List.head?_cons, ne_eq, Option.some.injEq]
            exact (hn x List.mem_cons_self).2
        · simpa using hd
    unfold Code.sub1
    split
    · -- `c` is replaced by the neutral string
      refine NoCtl.noPair_append (okW_neutral hn) (ih hr) (.inl ?_)
      intro hl
      have := List.mem_of_getLast? hl
      exact (hn _ this).1 rfl
    · refine NoCtl.noPair_append (okW_single c) (ih hr) ?_
      by_cases hc : c = '['
      · right
        cases r with
        | nil => simp
        | cons d r' =>
          rcases hhead d r' rfl with h1 | h1
          · exact h1
          · exfalso
            subst hc; subst h1
            exact (NoCtl.noPair_iff.1 h) [] r' rfl
      · left
        simpa using hc

/-- **"no `[` before a blank" is a `Sep` class** -/
theorem sep_w : Sep OkW NW where
  nil := NoCtl.noPair_nil _ _
  sub := fun ht hs => NoCtl.NoPair.infix hs ht
  glue := by
    intro a m b ha hb hm hn
    refine NoCtl.noPair_append (NoCtl.noPair_append ha (okW_neutral hn) (.inr ?_)) hb (.inl ?_)
    · cases m with
      | nil => exact absurd rfl hm
      | cons x m' =>
        simp only [List.head?_cons, ne_eq, Option.some.injEq]
        exact (hn x List.mem_cons_self).2
    · intro hl
      have hlast : (a ++ m).getLast? = m.getLast? := by
        cases hq : m.getLast? with
        | none => exact absurd (List.getLast?_eq_none_iff.1 hq) hm
        | some v => simp [List.getLast?_append, hq]
      rw [hlast] at hl
      exact (hn _ (List.mem_of_getLast? hl)).1 rfl
  repl1 := by
    intro s a b hs hb hn
    rw [Code.replace_single]
    exact okW_flatMap a hb hn s hs
  stx := by unfold NW; decide
  etx := by unfold NW; decide
  digit := by
    intro c hc
    constructor <;> (rintro rfl; revert hc; decide)
  ph := by
    intro c hc
    simp only [List.mem_cons, List.not_mem_nil, or_false] at hc
    rcases hc with rfl | rfl | rfl | rfl | rfl | rfl | rfl | rfl <;> (unfold NW; decide)
  ent := by
    intro c hc
    simp only [List.mem_cons, List.not_mem_nil, or_false] at hc
    rcases hc with rfl | rfl | rfl | rfl | rfl | rfl | rfl | rfl <;> (unfold NW; decide)
  bs := by unfold NW; decide
  star := by unfold NW; decide
  under := by unfold NW; decide

/-- in an `OkW` text a wiki label is not blank -/
theorem wiki_label_not_blank {data pre post g : Str} (hd : OkW data)
    (e : data = pre ++ (('[' :: '[' :: g) ++ [']', ']']) ++ post) (hne : g ≠ [])
    (hg : ∀ c ∈ g, isWikiChar c = true) : strip g ≠ [] := by
  cases g with
  | nil => exact absurd rfl hne
  | cons c g' =>
    have hc : c ≠ ' ' := by
      rintro rfl
      exact (NoCtl.noPair_iff.1 hd) (pre ++ ['[']) (g' ++ [']', ']'] ++ post) (by rw [e]; simp)
    have hsp : isSpace c = false := by
      have := hg c List.mem_cons_self
      simp only [isWikiChar, Bool.or_eq_true, decide_eq_true_eq] at this
      rcases this with (h | h) | h
      · exact NoCtlX.wk_word_not_space h
      · exact absurd h hc
      · subst h; decide
    intro hs
    have := (strip_eq_nil_iff _).1 hs
    simp only [isBlank, List.all_cons, Bool.and_eq_true] at this
    rw [hsp] at this
    cases this.1

/-- **every pattern, the wikilink pattern included, keeps "no `[` before a blank"** -/
theorem findP_w (xc : XCfg) : FindP OkW NW xc := by
  intro k _ data si x r x' hd h
  by_cases hk : k = PatK.wikilink
  · subst hk
    simp only [findX] at h
    split at h
    · cases h; exact ⟨rfl, by intro f hf; cases hf⟩
    · split at h
      · next g s e hsc =>
        cases h
        refine ⟨rfl, ?_⟩
        intro f hf; cases hf
        obtain ⟨pre, post, h1, _, _, h4, h5⟩ := NoCtlX.wikiScan_spec _ _ _ _ _ hsc
        have hdd : OkW (data.drop si) := NoCtl.NoPair.infix hd (List.drop_suffix _ _).isInfix
        have hnb := wiki_label_not_blank hdd h1 h4 h5
        have hemp : (strip g).isEmpty = false := by
          cases hs : strip g with
          | nil => exact absurd hs hnb
          | cons a b => rfl
        have hlab : OkW (strip g) := by
          have hi : strip g <:+: data.drop si := by
            refine (strip_infix g).trans ?_
            rw [h1]
            exact ⟨pre ++ ['[', '['], [']', ']'] ++ post, by simp⟩
          exact NoCtl.NoPair.infix hdd hi
        simp only [FoundP, wikiNode, hemp, Bool.false_eq_true, if_false]
        refine ⟨DeepP_setAttr _ _ (DeepP_setAttr _ _ (DeepP_withText1 (DeepP_mkEl _) hlab)), ?_⟩
        simp [setAttr_tail, mkEl_tail]
      · cases h; exact ⟨rfl, by intro f hf; cases hf⟩
  · exact findX_invP sep_w xc k hk data si x hd h

end MdVerif.InlineX
