/-
`PipelineX.treeX` cut into its stages (`blockStage`: block parser + footnote tree processor, which both use the
block-parser configuration; `lateX`: everything after), and the block stage under a change of the block-parser
configuration that is invisible on `Ok` blocks (`blockStage_congr`).  Core Lean only.
-/
import MdVerif.Lemmas.PipelineXInertLogOk
import MdVerif.Lemmas.PipelineXInertPrep

namespace MdVerif.PipelineX
open Py Pipeline BlockExt

/-- `parseChunkX` as a function of the parts of `Exts` it reads -/
def parseChunkB (tables : Bool) (bc : XCfg) (cfg : Cfg) (log : Block.Refs) (text : Str) : Option (Node × Block.Refs) :=
  Block.parseChunk (parseBlocksXT tables bc cfg.tab (fuelForX text.length)) [] log (Node.el "div") text

/-- the block parser and the footnote tree processor -/
def blockStage (tables footnotes : Bool) (bc : XCfg) (cfg : Cfg) (text : Str) : FootnotesTree.R (Node × Block.Refs) :=
  match parseDocumentXT tables bc cfg.tab text with
  | none => .oof
  | some (root, log) =>
    if footnotes then
      match FootnotesTree.makeDiv (parseChunkB tables bc cfg) fnCount (footnotesOf log) log with
      | .ok (some div, log') => .ok (FootnotesTree.placeDiv root div, log')
      | .ok (none, log') => .ok (root, log')
      | .oof => .oof
      | .ood => .ood
    else .ok (root, log)

/-- the stages after the footnote tree processor -/
def lateX (x : Exts) (cfg : Cfg) (stash : List Str) (root : Node) (log : Block.Refs) : TreeResult :=
  let xc : InlineX.XCfg :=
    { cfg := { esc := escX x cfg, refs := (refsX x log).reverse }
      table := InlineX.table x.footnotes x.wikilinks x.nl2br
      fnKeys := (footnotesOf log).map (·.1) }
  match InlineX.runX xc root stash with
  | none => .oof
  | some (t, xs) =>
    match (if x.footnotes then FootnotesTree.duplicates xs.fn t else some t) with
    | none => .err
    | some t =>
      let t := TreeProc.prettify t cfg.blockLevel
      let t := if x.attrList then AttrListTree.run cfg.blockLevel t else t
      let t := if x.abbr then AbbrTree.run (abbrsOf log) t else t
      let tocStage : TocTree.R Node :=
        if x.toc then TocTree.run { fmt := cfg.fmt, post := postX x cfg xs.st.html } cfg.blockLevel t
        else .ok t
      match tocStage with
      | .oof => .oof
      | .err => .err
      | .ood => .ood
      | .ok t =>
        match TreeProc.unescapeTree t with
        | none => .err
        | some u => .ok u xs.st.html

theorem treeX_stages (x : Exts) (cfg : Cfg) (src : Str) :
    treeX x cfg src =
      match prepareX x cfg src with
      | .oof => .oof
      | .ood => .ood
      | .ok (text, stash) =>
        match blockStage x.tables x.footnotes x.blockCfg cfg text with
        | .oof => .oof
        | .ood => .ood
        | .ok (root, log) => lateX x cfg stash root log := by
  simp only [treeX, blockStage, lateX, parseChunkX, parseChunkB]
  cases prepareX x cfg src with
  | oof => rfl
  | ood => rfl
  | ok p =>
    obtain ⟨text, stash⟩ := p
    simp only []
    cases parseDocumentXT x.tables x.blockCfg cfg.tab text with
    | none => rfl
    | some r =>
      obtain ⟨root, log⟩ := r
      simp only []
      cases x.footnotes with
      | false => rfl
      | true =>
        simp only [if_true]
        cases FootnotesTree.makeDiv
          (fun log text => Block.parseChunk (parseBlocksXT x.tables x.blockCfg cfg.tab (fuelForX text.length)) [] log
            (Node.el "div") text) fnCount (footnotesOf log) log with
        | oof => rfl
        | ood => rfl
        | ok q =>
          obtain ⟨d, log'⟩ := q
          cases d <;> rfl

/-! ### the block stage under a change of the block-parser configuration -/

variable {Ok : Str → Prop} {qt : Tag → List (Str × Str) → Bool}

theorem makeLis_congr {p1 p2 : Block.Refs → Str → Option (Node × Block.Refs)} {fc : Block.Refs → Nat}
    (H : ∀ log text, LogOk Ok log → Ok text →
      p1 log text = p2 log text ∧ ∀ n r, p2 log text = some (n, r) → LogOk Ok r) :
    ∀ (l : List (Str × Str)) (index : Nat) (log : Block.Refs), (∀ kv ∈ l, Ok kv.2) → LogOk Ok log →
      FootnotesTree.makeLis p1 fc l index log = FootnotesTree.makeLis p2 fc l index log := by
  intro l
  induction l with
  | nil => intro index log _ _; rfl
  | cons kv l ih =>
    intro index log hl hlog
    obtain ⟨id, text⟩ := kv
    obtain ⟨e, s⟩ := H log text hlog (hl (id, text) List.mem_cons_self)
    simp only [FootnotesTree.makeLis, e]
    cases h : p2 log text with
    | none => rfl
    | some r =>
      obtain ⟨sur, log'⟩ := r
      simp only []
      split
      · rfl
      · split
        · rfl
        · rw [ih (index + 1) log' (fun kv hkv => hl kv (List.mem_cons_of_mem _ hkv)) (s sur log' h)]

/-- two block-parser configurations (flags and table processor) whose dispatchers coincide on `Ok` blocks under
    `NI` parents give the same block stage on an `Ok` text -/
theorem blockStage_congr (hc : Closed Ok) (tables tables' : Bool) (bc bc' : XCfg) (footnotes : Bool) (cfg : Cfg)
    (ht : TagsOk qt bc) (htab : tables = true → TableTagsOk qt) (hroot : qt (.name "div".toList) [] = true)
    (hflag : ∀ (pb : Block.PB) (state : List Block.BState) (refs : Block.Refs) (parent : Node) (b : Str)
      (rest : List Str), Ok b → NI qt parent →
        dispatchXT tables' bc' cfg.tab pb state refs parent b rest =
          dispatchXT tables bc cfg.tab pb state refs parent b rest)
    {text : Str} (hok : Ok text) :
    blockStage tables' footnotes bc' cfg text = blockStage tables footnotes bc cfg text := by
  have hg := parseBlocksXT_good hc tables tables' bc' ht htab cfg.tab hflag
  have hlog := parseBlocksXT_log hc tables bc cfg.tab (logStep_logOk hc bc)
  have hdiv : NI qt (Node.el "div") := NI_el _ hroot
  simp only [blockStage, parseDocumentXT]
  rw [((hg _).chunk hc [] [] (Node.el "div") hok hdiv).1]
  cases hp : Block.parseChunk (parseBlocksXT tables bc cfg.tab (fuelForX text.length)) [] [] (Node.el "div") text with
  | none => rfl
  | some r =>
    obtain ⟨root, log⟩ := r
    have hlogOk : LogOk Ok log := (hlog _).chunk hc [] [] (Node.el "div") hok LogOk.nil root log hp
    simp only []
    cases footnotes with
    | false => rfl
    | true =>
      simp only [if_true]
      have hm : FootnotesTree.makeDiv (parseChunkB tables' bc' cfg) fnCount (footnotesOf log) log =
          FootnotesTree.makeDiv (parseChunkB tables bc cfg) fnCount (footnotesOf log) log := by
        simp only [FootnotesTree.makeDiv]
        rw [makeLis_congr (Ok := Ok) (p1 := parseChunkB tables' bc' cfg) (p2 := parseChunkB tables bc cfg) _ _ _ _
          (footnotesOf_ok hlogOk) hlogOk]
        intro log' text' hl' ht'
        exact ⟨((hg _).chunk hc [] log' (Node.el "div") ht' hdiv).1,
          fun n r h => (hlog _).chunk hc [] log' (Node.el "div") ht' hl' n r h⟩
      rw [hm]

/-- the prepared text satisfies what the normalised text satisfies -/
theorem prepareX_ok (hc : Closed Ok) (hp : PrepClosed Ok) (x : Exts) (cfg : Cfg) (src : Str) {text : Str}
    {stash : List Str} (h : prepareX x cfg src = .ok (text, stash)) (hok : Ok (Normalize.normalize cfg.tab src)) :
    Ok text := by
  simp only [prepareX] at h
  split at h
  · cases h
  · split at h
    · split at h
      · cases h
      · split at h
        · rename_i t' st' hf
          injection h with h
          injection h with h _
          rw [← h]
          exact hp.extract _ (fencedLoopA_ok hc hp _ _ _ _ hok hf)
        · cases h
    · injection h with h
      injection h with h _
      exact h ▸ hp.extract _ hok

end MdVerif.PipelineX
