/-
Helper lemmas for C10 on the extension model (`Props/C10XPost.lean`).  Core Lean only.

A. `FootnotePostprocessor` (`FootnotesTree.postprocess`, two `str.replace` calls) removes every occurrence of the two
   footnote placeholders, for every text: `postprocess_no_backlink`, `postprocess_no_nbsp`; the later steps
   (`Post.ampSub`, `strip`) keep that: `ampSub_postprocess_no_backlink`, …; on texts whose STX/ETX all belong to footnote
   placeholders (`FnWF`) nothing of STX/ETX is left: `postprocess_noctl_of`.
   General facts about `str.replace`: `contains_replaceAux_self` (no occurrence of the pattern is left when the
   replacement starts with a character foreign to the pattern and does not hold the first character of the pattern),
   `contains_replaceAux_of_not` (no occurrence of another token is created).
B. the tree processor writes exactly these placeholders: `backlink_text`, `addBacklink_cases`, `addBacklink_forall`.
C. `AbbrTreeprocessor` on trees with escape tokens (`abbr_run_fnode`): an abbreviation without decimal digit, STX, ETX
   cannot cut an escape token.
-/
import MdVerif.Lemmas.PlaceholdersPost
import MdVerif.Model.PipelineX

namespace MdVerif.NoCtlX
open MdVerif.NoCtl Py

/-! ## general facts about `contains` and `replaceAux` -/

theorem contains_cons_eq (c : Char) (s pat : Str) :
    contains (c :: s) pat = (startsWith (c :: s) pat || contains s pat) := by
  unfold contains
  rw [find_cons]
  split
  · next h => simp [h]
  · next h =>
    have : startsWith (c :: s) pat = false := by simpa using h
    rw [this]; cases find pat s <;> rfl

/-- a word without the first character of the pattern in front does not change whether the pattern occurs -/
theorem contains_append_of_not_mem {q0 : Char} {Q' : Str} : ∀ {w : Str}, q0 ∉ w → ∀ (r : Str),
    contains (w ++ r) (q0 :: Q') = contains r (q0 :: Q')
  | [], _, _ => rfl
  | x :: w, h, r => by
    have hx : x ≠ q0 := fun e => h (by simp [e])
    rw [List.cons_append, contains_cons_eq, startsWith_cons_cons, decide_eq_false hx, Bool.false_and, Bool.false_or]
    exact contains_append_of_not_mem (fun hm => h (List.mem_cons_of_mem _ hm)) r

theorem contains_of_infix {l s pat : Str} (hl : l <:+: s) (h : contains s pat = false) : contains l pat = false := by
  rw [contains_eq_false_iff] at h ⊢
  obtain ⟨a, b, rfl⟩ := hl
  intro pre post e
  exact h (a ++ pre) (post ++ b) (by rw [e]; simp [List.append_assoc])

/-- a prefix of the output made of characters that neither start the pattern nor start the replacement was copied
    (`startsWith_replaceAux` for a replacement of any length) -/
theorem startsWith_replaceAux_gen {p0 b0 : Char} {pat' b' : Str} : ∀ (q s : Str),
    startsWith (replaceAux (p0 :: pat') (b0 :: b') 0 s) q = true → (∀ c ∈ q, c ≠ p0 ∧ c ≠ b0) →
    startsWith s q = true
  | [], s, _, _ => startsWith_nil s
  | x :: q, [], h, _ => by simp at h
  | x :: q, c :: s, h, hq => by
    rw [replaceAux_zero_cons] at h
    split at h
    · next hm =>
      simp only [List.cons_append, startsWith_cons_cons, Bool.and_eq_true, decide_eq_true_eq] at h
      exact absurd h.1.symm (hq x (by simp)).2
    · next hm =>
      have hc : c ≠ p0 := by
        rintro rfl
        have := (hq x (by simp)).1
        simp only [startsWith_cons_cons, Bool.and_eq_true, decide_eq_true_eq] at h
        exact this h.1.symm
      simp only [startsWith_cons_cons, Bool.and_eq_true, decide_eq_true_eq] at h ⊢
      exact ⟨h.1, startsWith_replaceAux_gen q s h.2 (fun c hc => hq c (List.mem_cons_of_mem _ hc))⟩

/-- **`str.replace` leaves no occurrence of the pattern** when the replacement does not hold the first character of
    the pattern and starts with a character that does not occur in the rest of the pattern, and the first character
    of the pattern does not recur in it.  (False in general: `"aabb".replace("ab", "")` is `"ab"`.) -/
theorem contains_replaceAux_self {p0 b0 : Char} {P' b' : Str} (hp0 : p0 ∉ b0 :: b')
    (hP' : ∀ c ∈ P', c ≠ p0 ∧ c ≠ b0) (k : Nat) (s : Str) :
    contains (replaceAux (p0 :: P') (b0 :: b') k s) (p0 :: P') = false := by
  fun_induction replaceAux (p0 :: P') (b0 :: b') k s with
  | case1 => rfl
  | case2 k c s ih => exact ih
  | case3 c s hm ih => rw [contains_append_of_not_mem hp0]; exact ih
  | case4 c s hm ih =>
    rw [contains_cons_eq, ih, Bool.or_false]
    cases hq : startsWith (c :: replaceAux (p0 :: P') (b0 :: b') 0 s) (p0 :: P') with
    | false => rfl
    | true =>
      exfalso
      apply hm
      simp only [startsWith_cons_cons, Bool.and_eq_true, decide_eq_true_eq] at hq ⊢
      exact ⟨hq.1, startsWith_replaceAux_gen P' s hq.2 hP'⟩

/-- **`str.replace` creates no occurrence of another token** `q0 :: Q'`: the replacement does not hold `q0`, and
    `Q'` holds neither the first character of the pattern nor the first character of the replacement. -/
theorem contains_replaceAux_of_not {p0 b0 q0 : Char} {P' b' Q' : Str} (hq0 : q0 ∉ b0 :: b')
    (hQ' : ∀ c ∈ Q', c ≠ p0 ∧ c ≠ b0) (k : Nat) (s : Str) (h : contains s (q0 :: Q') = false) :
    contains (replaceAux (p0 :: P') (b0 :: b') k s) (q0 :: Q') = false := by
  fun_induction replaceAux (p0 :: P') (b0 :: b') k s with
  | case1 => rfl
  | case2 k c s ih => exact ih (contains_cons_eq_false h).2
  | case3 c s hm ih => rw [contains_append_of_not_mem hq0]; exact ih (contains_cons_eq_false h).2
  | case4 c s hm ih =>
    obtain ⟨h1, h2⟩ := contains_cons_eq_false h
    rw [contains_cons_eq, ih h2, Bool.or_false]
    cases hq : startsWith (c :: replaceAux (p0 :: P') (b0 :: b') 0 s) (q0 :: Q') with
    | false => rfl
    | true =>
      exfalso
      simp only [startsWith_cons_cons, Bool.and_eq_true, decide_eq_true_eq] at hq
      have := startsWith_replaceAux_gen Q' s hq.2 hQ'
      rw [startsWith_cons_cons, this, Bool.and_true, decide_eq_false_iff_not] at h1
      exact h1 hq.1

example : replace "aabb".toList "ab".toList [] = "ab".toList := by decide   -- why the hypotheses are needed

/-- the pieces written between matches were characters of the text (`str.replace` with any pattern) -/
theorem mem_replace {s pat b : Str} {c : Char} (h : c ∈ replace s pat b) : c ∈ s ∨ c ∈ b := by
  unfold replace at h
  split at h
  · exact .inl h
  · exact mem_replaceAux h

/-- a word without the first character of the pattern is copied -/
theorem replaceAux_append_of_not_mem {p0 : Char} {P' b : Str} : ∀ {w : Str}, p0 ∉ w → ∀ (r : Str),
    replaceAux (p0 :: P') b 0 (w ++ r) = w ++ replaceAux (p0 :: P') b 0 r
  | [], _, _ => rfl
  | x :: w, h, r => by
    have hx : x ≠ p0 := fun e => h (by simp [e])
    rw [List.cons_append, replaceAux_zero_cons, startsWith_cons_cons, decide_eq_false hx, Bool.false_and]
    simp only [Bool.false_eq_true, if_false, List.cons_append, List.cons.injEq, true_and]
    exact replaceAux_append_of_not_mem (fun hm => h (List.mem_cons_of_mem _ hm)) r

/-- at a match the replacement is written and the scan resumes behind the match -/
theorem replaceAux_pat_append (pat b r : Str) (hp : pat ≠ []) :
    replaceAux pat b 0 (pat ++ r) = b ++ replaceAux pat b 0 r := by
  have := replace_of_startsWith (s := pat ++ r) (b := b) hp (startsWith_append pat r)
  have hpe : pat.isEmpty = false := by cases pat <;> simp_all
  simpa [replace, hpe] using this

/-! ## A. the footnote postprocessor -/

theorem fn_STX : FootnotesTree.STX = STX := rfl
theorem fn_ETX : FootnotesTree.ETX = ETX := rfl

/-- the letters and digits between STX and ETX of `FN_BACKLINK_TEXT` -/
def backlinkBody : Str := "zz1337820767766393qq".toList
/-- the letters and digits between STX and ETX of `NBSP_PLACEHOLDER` -/
def nbspBody : Str := "qq3936677670287331zz".toList

theorem fnBacklinkText_eq : FootnotesTree.fnBacklinkText = STX :: (backlinkBody ++ [ETX]) := rfl
theorem nbspPlaceholder_eq : FootnotesTree.nbspPlaceholder = STX :: (nbspBody ++ [ETX]) := rfl

theorem postprocess_eq (t : Str) : FootnotesTree.postprocess t =
    replaceAux FootnotesTree.nbspPlaceholder "&#160;".toList 0
      (replaceAux FootnotesTree.fnBacklinkText "&#8617;".toList 0 t) := rfl

/-- **no `FN_BACKLINK_TEXT` is left by `FootnotePostprocessor.run`**, whatever the text is -/
theorem postprocess_no_backlink (t : Str) :
    contains (FootnotesTree.postprocess t) FootnotesTree.fnBacklinkText = false := by
  rw [postprocess_eq]
  exact contains_replaceAux_of_not (p0 := STX) (P' := nbspBody ++ [ETX]) (b0 := '&') (b' := "#160;".toList)
    (q0 := STX) (Q' := backlinkBody ++ [ETX]) (by decide) (by decide) 0 _
    (contains_replaceAux_self (p0 := STX) (P' := backlinkBody ++ [ETX]) (b0 := '&') (b' := "#8617;".toList)
      (by decide) (by decide) 0 t)

/-- **no `NBSP_PLACEHOLDER` is left by `FootnotePostprocessor.run`**, whatever the text is -/
theorem postprocess_no_nbsp (t : Str) :
    contains (FootnotesTree.postprocess t) FootnotesTree.nbspPlaceholder = false := by
  rw [postprocess_eq]
  exact contains_replaceAux_self (p0 := STX) (P' := nbspBody ++ [ETX]) (b0 := '&') (b' := "#160;".toList)
    (by decide) (by decide) 0 _

theorem mem_postprocess {t : Str} {c : Char} (h : c ∈ FootnotesTree.postprocess t) :
    c ∈ t ∨ c ∈ "&#8617;160".toList := by
  rw [postprocess_eq] at h
  rcases mem_replaceAux h with h | h
  · rcases mem_replaceAux h with h | h
    · exact .inl h
    · exact .inr ((by decide : ∀ c ∈ "&#8617;".toList, c ∈ "&#8617;160".toList) c h)
  · exact .inr ((by decide : ∀ c ∈ "&#160;".toList, c ∈ "&#8617;160".toList) c h)

/-! ### `Post.ampSub` and `strip` after it -/

theorem ampSub_eq (s : Str) : Post.ampSub s = replaceAux Post.ampSubstitute ['&'] 0 s := rfl

/-- `AndSubstitutePostprocessor` creates no footnote back-link placeholder -/
theorem ampSub_no_backlink {s : Str} (h : contains s FootnotesTree.fnBacklinkText = false) :
    contains (Post.ampSub s) FootnotesTree.fnBacklinkText = false := by
  rw [ampSub_eq]
  exact contains_replaceAux_of_not (p0 := STX) (P' := ['a', 'm', 'p', ETX]) (b0 := '&') (b' := [])
    (q0 := STX) (Q' := backlinkBody ++ [ETX]) (by decide) (by decide) 0 s h

/-- `AndSubstitutePostprocessor` creates no footnote nbsp placeholder -/
theorem ampSub_no_nbsp {s : Str} (h : contains s FootnotesTree.nbspPlaceholder = false) :
    contains (Post.ampSub s) FootnotesTree.nbspPlaceholder = false := by
  rw [ampSub_eq]
  exact contains_replaceAux_of_not (p0 := STX) (P' := ['a', 'm', 'p', ETX]) (b0 := '&') (b' := [])
    (q0 := STX) (Q' := nbspBody ++ [ETX]) (by decide) (by decide) 0 s h

theorem ampSub_postprocess_no_backlink (t : Str) :
    contains (Post.ampSub (FootnotesTree.postprocess t)) FootnotesTree.fnBacklinkText = false :=
  ampSub_no_backlink (postprocess_no_backlink t)

theorem ampSub_postprocess_no_nbsp (t : Str) :
    contains (Post.ampSub (FootnotesTree.postprocess t)) FootnotesTree.nbspPlaceholder = false :=
  ampSub_no_nbsp (postprocess_no_nbsp t)

/-- the tail of `finishX`/`postX` with footnotes enabled: none of the three tokens the two postprocessors replace
    occurs in the final string -/
theorem final_no_tokens (t : Str) :
    contains (strip (Post.ampSub (FootnotesTree.postprocess t))) FootnotesTree.fnBacklinkText = false ∧
    contains (strip (Post.ampSub (FootnotesTree.postprocess t))) FootnotesTree.nbspPlaceholder = false ∧
    contains (strip (Post.ampSub (FootnotesTree.postprocess t))) Post.ampSubstitute = false :=
  ⟨contains_of_infix (strip_infix _) (ampSub_postprocess_no_backlink t),
   contains_of_infix (strip_infix _) (ampSub_postprocess_no_nbsp t),
   contains_of_infix (strip_infix _) (ampSub_post _)⟩

/-! ### texts whose STX/ETX all belong to footnote placeholders -/

/-- ordinary characters (neither STX nor ETX), `NBSP_PLACEHOLDER`s and — when `bl` — `FN_BACKLINK_TEXT`s,
    concatenated -/
inductive FnWFb (bl : Bool) : Str → Prop
  | nil : FnWFb bl []
  | plain (c : Char) (s : Str) : c ≠ STX → c ≠ ETX → FnWFb bl s → FnWFb bl (c :: s)
  | back (s : Str) : bl = true → FnWFb bl s → FnWFb bl (FootnotesTree.fnBacklinkText ++ s)
  | nbsp (s : Str) : FnWFb bl s → FnWFb bl (FootnotesTree.nbspPlaceholder ++ s)

/-- every STX and ETX of the text belongs to an occurrence of one of the two footnote placeholders -/
def FnWF (s : Str) : Prop := FnWFb true s

theorem FnWFb.append {bl : Bool} {a b : Str} (ha : FnWFb bl a) (hb : FnWFb bl b) : FnWFb bl (a ++ b) := by
  induction ha with
  | nil => exact hb
  | plain c s h1 h2 _ ih => exact .plain c _ h1 h2 ih
  | back s h _ ih => rw [List.append_assoc]; exact .back _ h ih
  | nbsp s _ ih => rw [List.append_assoc]; exact .nbsp _ ih

theorem FnWFb.of_noCtl {bl : Bool} {s : Str} (h : NoCtl s) : FnWFb bl s := by
  induction s with
  | nil => exact .nil
  | cons c s ih =>
    obtain ⟨⟨h1, h2⟩, h3⟩ := noCtl_cons.1 h
    exact .plain c s h1 h2 (ih h3)

theorem fnWF_backlink : FnWF FootnotesTree.fnBacklinkText := by
  have := FnWFb.back (bl := true) [] rfl .nil
  rwa [List.append_nil] at this

theorem fnWF_nbsp : FnWF FootnotesTree.nbspPlaceholder := by
  have := FnWFb.nbsp (bl := true) [] .nil
  rwa [List.append_nil] at this

/-- first `replace`: the back-link placeholders go -/
theorem replace_backlink_fnWF {s : Str} (h : FnWFb true s) :
    FnWFb false (replaceAux FootnotesTree.fnBacklinkText "&#8617;".toList 0 s) := by
  induction h with
  | nil => exact .nil
  | plain c s h1 h2 _ ih =>
    have : replaceAux FootnotesTree.fnBacklinkText "&#8617;".toList 0 (c :: s) =
        c :: replaceAux FootnotesTree.fnBacklinkText "&#8617;".toList 0 s :=
      replaceAux_append_of_not_mem (p0 := STX) (P' := backlinkBody ++ [ETX]) (w := [c]) (by simpa using h1.symm) s
    rw [this]
    exact .plain c _ h1 h2 ih
  | back s _ _ ih =>
    rw [replaceAux_pat_append _ _ _ (by decide)]
    exact FnWFb.append (FnWFb.of_noCtl (by decide)) ih
  | nbsp s _ ih =>
    have : replaceAux FootnotesTree.fnBacklinkText "&#8617;".toList 0 (FootnotesTree.nbspPlaceholder ++ s) =
        FootnotesTree.nbspPlaceholder ++ replaceAux FootnotesTree.fnBacklinkText "&#8617;".toList 0 s := by
      have e : FootnotesTree.nbspPlaceholder ++ s = STX :: ((nbspBody ++ [ETX]) ++ s) := rfl
      have hn : startsWith (STX :: ((nbspBody ++ [ETX]) ++ s)) FootnotesTree.fnBacklinkText = false := by
        show startsWith (STX :: 'q' :: _) (STX :: 'z' :: _) = false
        simp [startsWith_cons_cons]
      rw [e, replaceAux_zero_cons, hn]
      simp only [Bool.false_eq_true, if_false]
      rw [fnBacklinkText_eq, replaceAux_append_of_not_mem (p0 := STX) (P' := backlinkBody ++ [ETX])
        (w := nbspBody ++ [ETX]) (by decide)]
      rfl
    rw [this]
    exact .nbsp _ ih

/-- second `replace`: the nbsp placeholders go -/
theorem replace_nbsp_noctl {s : Str} (h : FnWFb false s) :
    NoCtl (replaceAux FootnotesTree.nbspPlaceholder "&#160;".toList 0 s) := by
  induction h with
  | nil => exact noCtl_nil
  | plain c s h1 h2 _ ih =>
    have : replaceAux FootnotesTree.nbspPlaceholder "&#160;".toList 0 (c :: s) =
        c :: replaceAux FootnotesTree.nbspPlaceholder "&#160;".toList 0 s :=
      replaceAux_append_of_not_mem (p0 := STX) (P' := nbspBody ++ [ETX]) (w := [c]) (by simpa using h1.symm) s
    rw [this]
    exact noCtl_cons.2 ⟨⟨h1, h2⟩, ih⟩
  | back s hb _ _ => cases hb
  | nbsp s _ ih =>
    rw [replaceAux_pat_append _ _ _ (by decide)]
    exact noCtl_append.2 ⟨by decide, ih⟩

/-- **on a text whose STX/ETX all belong to footnote placeholders, `FootnotePostprocessor.run` leaves no STX and no
    ETX** -/
theorem postprocess_noctl_of {t : Str} (h : FnWF t) : NoCtl (FootnotesTree.postprocess t) := by
  rw [postprocess_eq]
  exact replace_nbsp_noctl (replace_backlink_fnWF h)

/-! ## B. the tree processor writes exactly these placeholders -/

/-- the back-link element holds `FN_BACKLINK_TEXT`, nothing else: no tail, no children -/
theorem backlink_text (id : Str) (index : Nat) :
    (FootnotesTree.backlink id index).text = some FootnotesTree.fnBacklinkText := rfl

theorem backlink_shape (id : Str) (index : Nat) :
    (FootnotesTree.backlink id index).tail = none ∧ (FootnotesTree.backlink id index).children = [] ∧
    (FootnotesTree.backlink id index).tag = .name "a".toList ∧
    (FootnotesTree.backlink id index).textAtomic = false := ⟨rfl, rfl, rfl, rfl⟩

/-- what `addBacklink` does: nothing (no child), or the last child `p` gets `NBSP_PLACEHOLDER` behind its text and
    the back-link as new last child, or a new `p` with the back-link is appended -/
theorem addBacklink_cases {li bl li' : Node} (h : FootnotesTree.addBacklink li bl = some li') :
    (li.children = [] ∧ li' = li) ∨
    (∃ pre node t, li.children = pre ++ [node] ∧ node.isTag "p" = true ∧ node.text = some t ∧
      li' = { li with children := pre ++ [{ node with text := some (t ++ FootnotesTree.nbspPlaceholder),
                                                      textAtomic := false, children := node.children ++ [bl] }] }) ∨
    (∃ pre node, li.children = pre ++ [node] ∧ node.isTag "p" = false ∧
      li' = { li with children := li.children ++ [{ FootnotesTree.el "p" with children := [bl] }] }) := by
  unfold FootnotesTree.addBacklink at h
  split at h
  · next hl =>
    left
    simp only [Option.some.injEq] at h
    refine ⟨?_, h.symm⟩
    simpa [Node.last?] using hl
  · next node hl =>
    right
    obtain ⟨pre, hpre⟩ := List.getLast?_eq_some_iff.1 (show li.children.getLast? = some node from hl)
    split at h
    · next hp =>
      left
      split at h
      · next t ht =>
        simp only [Option.some.injEq] at h
        refine ⟨pre, node, t, hpre, hp, ht, ?_⟩
        rw [← h]
        simp only [Node.setLast, hpre, List.dropLast_concat]
      · cases h
    · next hp =>
      right
      simp only [Option.some.injEq] at h
      exact ⟨pre, node, hpre, by simpa using hp, h.symm⟩

/-- `addBacklink` keeps an invariant `Q` of the elements when `Q` does not look at the children, holds for a bare `p`
    and survives `NBSP_PLACEHOLDER` behind the text of a `p` -/
theorem addBacklink_forall {Q : Node → Prop} {li bl li' : Node} (hli : li.Forall Q) (hbl : bl.Forall Q)
    (hkids : ∀ (n : Node) (kids : List Node), Q n → Q { n with children := kids })
    (hnew : Q (FootnotesTree.el "p"))
    (hp : ∀ (node : Node) (t : Str), Q node → node.isTag "p" = true → node.text = some t →
      Q { node with text := some (t ++ FootnotesTree.nbspPlaceholder), textAtomic := false })
    (h : FootnotesTree.addBacklink li bl = some li') : li'.Forall Q := by
  rw [Node.forall_iff] at hli
  rcases addBacklink_cases h with ⟨_, rfl⟩ | ⟨pre, node, t, hpre, hisp, ht, rfl⟩ | ⟨pre, node, hpre, _, rfl⟩
  · exact (Node.forall_iff _ _).2 hli
  · rw [Node.forall_iff]
    refine ⟨hkids li _ hli.1, ?_⟩
    intro c hc
    rcases List.mem_append.1 hc with hc | hc
    · exact hli.2 c (by rw [hpre]; exact List.mem_append_left _ hc)
    · rw [List.mem_singleton] at hc
      subst hc
      have hnode := (Node.forall_iff _ _).1 (hli.2 node (by rw [hpre]; simp))
      rw [Node.forall_iff]
      refine ⟨hkids _ (node.children ++ [bl]) (hp node t hnode.1 hisp ht), ?_⟩
      intro c hc
      rcases List.mem_append.1 hc with hc | hc
      · exact hnode.2 c hc
      · rw [List.mem_singleton] at hc; subst hc; exact hbl
  · rw [Node.forall_iff]
    refine ⟨hkids li _ hli.1, ?_⟩
    intro c hc
    rcases List.mem_append.1 hc with hc | hc
    · exact hli.2 c hc
    · rw [List.mem_singleton] at hc
      subst hc
      rw [Node.forall_iff]
      refine ⟨hkids _ [bl] hnew, ?_⟩
      intro c hc
      rw [List.mem_singleton] at hc; subst hc; exact hbl

/-- every text and every tail of the element satisfies `P` (`None` holds nothing) -/
def StrsP (P : Str → Prop) (n : Node) : Prop := (∀ t, n.text = some t → P t) ∧ (∀ t, n.tail = some t → P t)

/-- **the only string `addBacklink` changes is the text of the last `p`, which gets `NBSP_PLACEHOLDER` appended**: a
    predicate of the texts and tails that is closed under `· ++ NBSP_PLACEHOLDER` is kept -/
theorem addBacklink_strs {P : Str → Prop} (hP : ∀ t, P t → P (t ++ FootnotesTree.nbspPlaceholder)) {li bl li' : Node}
    (hli : li.Forall (StrsP P)) (hbl : bl.Forall (StrsP P)) (h : FootnotesTree.addBacklink li bl = some li') :
    li'.Forall (StrsP P) :=
  addBacklink_forall (Q := StrsP P) hli hbl (fun _ _ hn => hn)
    (And.intro (fun _ h => by cases h) (fun _ h => by cases h))
    (fun node t hn _ ht => And.intro (fun t' h' => by
      simp only [Option.some.injEq] at h'
      subst h'
      exact hP t (hn.1 t ht)) hn.2) h

theorem fnWF_append_nbsp {t : Str} (h : FnWF t) : FnWF (t ++ FootnotesTree.nbspPlaceholder) :=
  FnWFb.append h fnWF_nbsp

/-! ## C. `AbbrTreeprocessor` on trees with escape tokens -/

/-- an abbreviation that cannot cut an escape token: no STX, no ETX, and not made of ASCII digits only (the codes of
    escape tokens are written in ASCII digits; the empty key is excluded as well, the block processor never stores
    it) -/
def KeyOK (k : Str) : Prop := NoCtl k ∧ k.all isAsciiDigit = false

instance (k : Str) : Decidable (KeyOK k) := by unfold KeyOK; infer_instance

theorem abbrAt_some {keys : List Str} {prev : Option Char} {suf key : Str}
    (h : AbbrTree.abbrAt keys prev suf = some key) : key ∈ keys ∧ key ≠ [] ∧ startsWith suf key = true := by
  unfold AbbrTree.abbrAt at h
  split at h
  · have h1 := List.mem_of_find?_eq_some h
    have h2 := List.find?_some h
    simp only [Bool.and_eq_true, Bool.not_eq_eq_eq_not, Bool.not_true, List.isEmpty_eq_false_iff] at h2
    exact ⟨h1, h2.1.1, h2.1.2⟩
  · cases h

theorem abbrAt_none_of_forall {keys : List Str} {prev : Option Char} {suf : Str}
    (h : ∀ key ∈ keys, key ≠ [] → startsWith suf key = false) : AbbrTree.abbrAt keys prev suf = none := by
  cases hq : AbbrTree.abbrAt keys prev suf with
  | none => rfl
  | some key =>
    obtain ⟨h1, h2, h3⟩ := abbrAt_some hq
    rw [h key h1 h2] at h3; cases h3

/-- no key starts at the STX or the ETX of a token -/
theorem abbrAt_none_ctl {keys : List Str} (hk : ∀ key ∈ keys, KeyOK key) (prev : Option Char) {x : Char}
    (hx : x = STX ∨ x = ETX) (r : Str) : AbbrTree.abbrAt keys prev (x :: r) = none := by
  apply abbrAt_none_of_forall
  intro key hkey hne
  cases key with
  | nil => exact absurd rfl hne
  | cons y key' =>
    have hy := (noCtl_cons.1 (hk _ hkey).1).1
    rw [startsWith_cons_cons]
    have : x ≠ y := by
      rcases hx with rfl | rfl
      · exact fun e => hy.1 e.symm
      · exact fun e => hy.2 e.symm
    simp [this]

/-- a word that starts inside the digits of a token and does not reach its ETX is made of digits -/
theorem startsWith_digits_etx {ds : Str} (hd : ds.all isAsciiDigit = true) (r : Str) :
    ∀ {key : Str}, startsWith (ds ++ ETX :: r) key = true → ETX ∉ key → key.all isAsciiDigit = true := by
  induction ds with
  | nil =>
    intro key h hn
    cases key with
    | nil => rfl
    | cons y key' =>
      simp only [List.nil_append, startsWith_cons_cons, Bool.and_eq_true, decide_eq_true_eq] at h
      exact absurd (by rw [h.1]; exact List.mem_cons_self) hn
  | cons d ds ih =>
    intro key h hn
    simp only [List.all_cons, Bool.and_eq_true] at hd
    cases key with
    | nil => rfl
    | cons y key' =>
      simp only [List.cons_append, startsWith_cons_cons, Bool.and_eq_true, decide_eq_true_eq] at h
      simp only [List.all_cons, Bool.and_eq_true]
      exact ⟨by rw [← h.1]; exact hd.1, ih hd.2 h.2 (fun hm => hn (List.mem_cons_of_mem _ hm))⟩

/-- no key starts inside the digits of a token -/
theorem abbrAt_none_digits {keys : List Str} (hk : ∀ key ∈ keys, KeyOK key) (prev : Option Char) {ds : Str}
    (hd : ds.all isAsciiDigit = true) (r : Str) : AbbrTree.abbrAt keys prev (ds ++ ETX :: r) = none := by
  apply abbrAt_none_of_forall
  intro key hkey _
  cases hq : startsWith (ds ++ ETX :: r) key with
  | false => rfl
  | true =>
    have := startsWith_digits_etx hd r hq (hk _ hkey).1.2
    rw [(hk _ hkey).2] at this; cases this

theorem segs_of_none {keys : List Str} {prev : Option Char} {c : Char} {r : Str}
    (h : AbbrTree.abbrAt keys prev (c :: r) = none) :
    AbbrTree.segs keys prev 0 (c :: r) =
      (c :: (AbbrTree.segs keys (some c) 0 r).1, (AbbrTree.segs keys (some c) 0 r).2) := by
  simp only [AbbrTree.segs, h]

theorem segs_of_some {keys : List Str} {prev : Option Char} {c : Char} {r key : Str}
    (h : AbbrTree.abbrAt keys prev (c :: r) = some key) :
    AbbrTree.segs keys prev 0 (c :: r) =
      ([], (key, (AbbrTree.segs keys (some c) (key.length - 1) r).1) ::
        (AbbrTree.segs keys (some c) (key.length - 1) r).2) := by
  simp only [AbbrTree.segs, h]

/-- skipping the rest of a match -/
theorem segs_skip (keys : List Str) : ∀ (w : Str) (prev : Option Char) (r : Str),
    ∃ prev', AbbrTree.segs keys prev w.length (w ++ r) = AbbrTree.segs keys prev' 0 r
  | [], prev, r => ⟨prev, rfl⟩
  | x :: w, prev, r => by
    obtain ⟨prev', h⟩ := segs_skip keys w (some x) r
    exact ⟨prev', by simpa [AbbrTree.segs] using h⟩

/-- the scan copies the digits and the ETX of a token -/
theorem segs_digits {keys : List Str} (hk : ∀ key ∈ keys, KeyOK key) : ∀ {ds : Str}, ds.all isAsciiDigit = true →
    ∀ (prev : Option Char) (r : Str), ∃ prev',
      AbbrTree.segs keys prev 0 (ds ++ ETX :: r) =
        (ds ++ ETX :: (AbbrTree.segs keys prev' 0 r).1, (AbbrTree.segs keys prev' 0 r).2)
  | [], _, prev, r => ⟨some ETX, by rw [List.nil_append, segs_of_none (abbrAt_none_ctl hk prev (.inr rfl) r)]; rfl⟩
  | d :: ds, hd, prev, r => by
    have hd' : ds.all isAsciiDigit = true := by
      simp only [List.all_cons, Bool.and_eq_true] at hd; exact hd.2
    obtain ⟨prev', h⟩ := segs_digits hk hd' (some d) r
    refine ⟨prev', ?_⟩
    have hn := abbrAt_none_digits hk prev hd r
    rw [List.cons_append] at hn ⊢
    rw [segs_of_none hn, h]
    rfl

/-- the scan copies an escape token -/
theorem segs_escToken {keys : List Str} (hk : ∀ key ∈ keys, KeyOK key) (v : Nat) (prev : Option Char) (r : Str) :
    ∃ prev', AbbrTree.segs keys prev 0 (escToken v ++ r) =
      (escToken v ++ (AbbrTree.segs keys prev' 0 r).1, (AbbrTree.segs keys prev' 0 r).2) := by
  obtain ⟨prev', h⟩ := segs_digits hk (List.all_eq_true.2 (natToDec_digits v)) (some STX) r
  refine ⟨prev', ?_⟩
  have e : escToken v ++ r = STX :: (natToDec v ++ ETX :: r) := by simp [escToken]
  rw [e, segs_of_none (abbrAt_none_ctl hk prev (.inl rfl) _), h]
  simp [escToken]

/-- behind an ordinary character the rest is well formed -/
theorem wf_tail_of_ne_stx {esc : Bool} {k : Nat} {x : Char} {rest : Str} (hx : x ≠ STX)
    (h : WF esc k (x :: rest)) : WF esc k rest := by
  generalize he : x :: rest = t at h
  cases h with
  | nil => cases he
  | plain c s _ _ hs =>
    simp only [List.cons.injEq] at he
    rw [he.2]; exact hs
  | ph i s hi hs =>
    exfalso
    have : x = STX := by
      have := congrArg List.head? he
      simpa [Inline.placeholder, Inline.phPrefix] using this
    exact hx this
  | tok v s _ _ hs =>
    exfalso
    have : x = STX := by
      have := congrArg List.head? he
      simpa [escToken] using this
    exact hx this

theorem wf_of_append_noctl {esc : Bool} {k : Nat} : ∀ {a : Str}, NoCtl a → ∀ {r : Str}, WF esc k (a ++ r) → WF esc k r
  | [], _, _, h => h
  | x :: a, ha, r, h => by
    obtain ⟨h1, h2⟩ := noCtl_cons.1 ha
    exact wf_of_append_noctl h2 (wf_tail_of_ne_stx h1.1 h)

/-- the pieces `finditer` cuts a text into: the text before the first match and the text behind each match are well
    formed, the matches are keys -/
def AbbrSegsOK (esc : Bool) (keys : List Str) (p : Str × List (Str × Str)) : Prop :=
  WF esc 0 p.1 ∧ ∀ m ∈ p.2, m.1 ∈ keys ∧ WF esc 0 m.2

theorem segs_wf_aux {esc : Bool} {keys : List Str} (hk : ∀ key ∈ keys, KeyOK key) (n : Nat) :
    ∀ (s : Str), s.length ≤ n → WF esc 0 s → ∀ prev, AbbrSegsOK esc keys (AbbrTree.segs keys prev 0 s) := by
  induction n with
  | zero =>
    intro s hl _ prev
    have : s = [] := List.length_eq_zero_iff.1 (by omega)
    subst this
    exact ⟨.nil, by simp [AbbrTree.segs]⟩
  | succ n ih =>
    intro s hl h prev
    cases h with
    | nil => exact ⟨.nil, by simp [AbbrTree.segs]⟩
    | plain c s h1 h2 hs =>
      have hl' : s.length ≤ n := by simp only [List.length_cons] at hl; omega
      cases hq : AbbrTree.abbrAt keys prev (c :: s) with
      | none =>
        rw [segs_of_none hq]
        obtain ⟨i1, i2⟩ := ih s hl' hs (some c)
        exact ⟨.plain c _ h1 h2 i1, i2⟩
      | some key =>
        rw [segs_of_some hq]
        obtain ⟨hmem, hne, hsw⟩ := abbrAt_some hq
        obtain ⟨r, e⟩ := startsWith_iff_prefix.1 hsw
        cases key with
        | nil => exact absurd rfl hne
        | cons y key' =>
          simp only [List.cons_append, List.cons.injEq] at e
          obtain ⟨rfl, rfl⟩ := e
          obtain ⟨prev', hsk⟩ := segs_skip keys key' (some c) r
          simp only [List.length_cons, Nat.add_sub_cancel]
          rw [hsk]
          have hr : WF esc 0 r :=
            wf_of_append_noctl (a := c :: key') (hk _ hmem).1 (by simpa using WF.plain c _ h1 h2 hs)
          obtain ⟨i1, i2⟩ := ih r (by simp only [List.length_append] at hl'; omega) hr prev'
          refine ⟨.nil, ?_⟩
          intro m hm
          rcases List.mem_cons.1 hm with rfl | hm
          · exact ⟨hmem, i1⟩
          · exact i2 m hm
    | ph i s hi _ => omega
    | tok v s hE hv hs =>
      obtain ⟨prev', e⟩ := segs_escToken hk v prev s
      rw [e]
      have hl' : s.length ≤ n := by
        simp only [List.length_append] at hl
        have : 0 < (escToken v).length := by simp [escToken]
        omega
      obtain ⟨i1, i2⟩ := ih s hl' hs prev'
      exact ⟨.tok v _ hE hv i1, i2⟩

/-- **`finditer` of the abbreviation pattern cuts a text of ordinary characters and escape tokens only between
    tokens**, when no key holds STX or ETX or is a number -/
theorem segs_wf {esc : Bool} {keys : List Str} (hk : ∀ key ∈ keys, KeyOK key) {s : Str} (h : WF esc 0 s)
    (prev : Option Char) : AbbrSegsOK esc keys (AbbrTree.segs keys prev 0 s) :=
  segs_wf_aux hk s.length s (Nat.le_refl _) h prev

/-! ### the tree walk -/

theorem mem_insertByLen {k x : Str} : ∀ {l : List Str}, x ∈ AbbrTree.insertByLen k l → x = k ∨ x ∈ l
  | [], h => by simpa [AbbrTree.insertByLen] using h
  | a :: r, h => by
    simp only [AbbrTree.insertByLen] at h
    split at h
    · rcases List.mem_cons.1 h with rfl | h
      · exact .inr List.mem_cons_self
      · rcases mem_insertByLen h with h | h
        · exact .inl h
        · exact .inr (List.mem_cons_of_mem _ h)
    · rcases List.mem_cons.1 h with rfl | h
      · exact .inl rfl
      · exact .inr h

theorem mem_sortKeys_aux {x : Str} : ∀ (keys acc : List Str),
    x ∈ keys.foldl (fun acc k => AbbrTree.insertByLen k acc) acc → x ∈ keys ∨ x ∈ acc
  | [], acc, h => .inr h
  | k :: keys, acc, h => by
    rcases mem_sortKeys_aux keys _ h with h | h
    · exact .inl (List.mem_cons_of_mem _ h)
    · rcases mem_insertByLen h with rfl | h
      · exact .inl List.mem_cons_self
      · exact .inr h

/-- sorting the keys by length invents no key -/
theorem mem_sortKeys {x : Str} {keys : List Str} (h : x ∈ AbbrTree.sortKeys keys) : x ∈ keys := by
  rcases mem_sortKeys_aux keys [] h with h | h
  · exact h
  · cases h

/-- hypothesis on the abbreviation table: keys and titles without STX/ETX, no key made of ASCII digits only -/
def AbbrsOK (abbrs : List (Str × Str)) : Prop := ∀ kv ∈ abbrs, KeyOK kv.1 ∧ NoCtl kv.2

instance (abbrs : List (Str × Str)) : Decidable (AbbrsOK abbrs) := by unfold AbbrsOK; infer_instance

theorem mkAbbr_fnode {abbrs : List (Str × Str)} (ha : AbbrsOK abbrs) {m : Str × Str} (h1 : NoCtl m.1)
    (h2 : WF true 0 m.2) : (AbbrTree.mkAbbr abbrs m).Forall FNode := by
  rw [Node.forall_iff]
  refine ⟨⟨?_, ?_, h2, WF.of_noCtl h1, ?_⟩, ?_⟩
  · show NoCtl "abbr".toList
    decide
  · intro kv hkv
    simp only [AbbrTree.mkAbbr, List.mem_singleton] at hkv
    subst hkv
    refine ⟨(by decide : NoCtl "title".toList), ?_⟩
    show NoCtl (((abbrs.find? (fun kv => kv.1 = m.1)).map (·.2)).getD [])
    cases hf : abbrs.find? (fun kv => kv.1 = m.1) with
    | none => exact noCtl_nil
    | some kv => exact (ha kv (List.mem_of_find?_eq_some hf)).2
  · intro hc
    exact absurd (show (Tag.name "abbr".toList == Tag.name "code".toList) = true from hc) (by decide)
  · intro c hc
    simp [AbbrTree.mkAbbr] at hc

/-- what `iter_element` does to one string slot (text or tail) -/
def abbrSlot (abbrs : List (Str × Str)) (keys : List Str) (active : Bool) (t : Option Str) (a : Bool) :
    (Option Str × Bool) × List Node :=
  if active && Node.truthy t && !a then
    let p := AbbrTree.segs keys none 0 (t.getD [])
    if p.2.isEmpty then ((t, a), []) else ((some p.1, false), p.2.map (AbbrTree.mkAbbr abbrs))
  else ((t, a), [])

theorem abbrSlot_spec {abbrs : List (Str × Str)} {keys : List Str} (ha : AbbrsOK abbrs)
    (hk : ∀ key ∈ keys, ∃ kv ∈ abbrs, kv.1 = key) (active : Bool) (t : Option Str) (a : Bool) (hw : WFO true 0 t) :
    WFO true 0 (abbrSlot abbrs keys active t a).1.1 ∧ (NoCtlO t → NoCtlO (abbrSlot abbrs keys active t a).1.1) ∧
    Node.ForallL FNode (abbrSlot abbrs keys active t a).2 := by
  have hk' : ∀ key ∈ keys, KeyOK key := by
    intro key hkey
    obtain ⟨kv, hkv, rfl⟩ := hk key hkey
    exact (ha kv hkv).1
  unfold abbrSlot
  split
  · simp only
    split
    · exact ⟨hw, id, by simp [Node.ForallL]⟩
    · obtain ⟨i1, i2⟩ := segs_wf hk' hw none
      refine ⟨i1, ?_, ?_⟩
      · intro hn
        exact noCtl_of_wf (segs_wf hk' (WF.of_noCtl (esc := false) hn) none).1
      · rw [Node.forallL_iff]
        intro c hc
        obtain ⟨m, hm, rfl⟩ := List.mem_map.1 hc
        exact mkAbbr_fnode ha (hk' _ (i2 m hm).1).1 (i2 m hm).2
  · exact ⟨hw, id, by simp [Node.ForallL]⟩

theorem abbrNode_eq (abbrs : List (Str × Str)) (keys : List Str) (isRoot : Bool) (tag : Tag)
    (attrs : List (Str × Str)) (text : Option Str) (ta : Bool) (children : List Node) (tail : Option Str) (tla : Bool) :
    AbbrTree.abbrNode abbrs keys isRoot ⟨tag, attrs, text, ta, children, tail, tla⟩ =
      (⟨tag, attrs, (abbrSlot abbrs keys true text ta).1.1, (abbrSlot abbrs keys true text ta).1.2,
        (abbrSlot abbrs keys true text ta).2 ++ AbbrTree.abbrKids abbrs keys children,
        (abbrSlot abbrs keys (!isRoot) tail tla).1.1, (abbrSlot abbrs keys (!isRoot) tail tla).1.2⟩,
       (abbrSlot abbrs keys (!isRoot) tail tla).2) := by
  rw [AbbrTree.abbrNode]
  simp only [abbrSlot, Bool.true_and]

theorem forallL_append {P : Node → Prop} {a b : List Node} (ha : Node.ForallL P a) (hb : Node.ForallL P b) :
    Node.ForallL P (a ++ b) := by
  rw [Node.forallL_iff] at ha hb ⊢
  intro c hc
  rcases List.mem_append.1 hc with hc | hc
  · exact ha c hc
  · exact hb c hc

mutual
theorem abbrNode_fnode {abbrs : List (Str × Str)} {keys : List Str} (ha : AbbrsOK abbrs)
    (hk : ∀ key ∈ keys, ∃ kv ∈ abbrs, kv.1 = key) (isRoot : Bool) : ∀ (n : Node), n.Forall FNode →
    (AbbrTree.abbrNode abbrs keys isRoot n).1.Forall FNode ∧
      Node.ForallL FNode (AbbrTree.abbrNode abbrs keys isRoot n).2
  | ⟨tag, attrs, text, ta, children, tail, tla⟩, h => by
    simp only [Node.Forall] at h
    obtain ⟨⟨h1, h2, h3, h4, h5⟩, hkids⟩ := h
    rw [abbrNode_eq]
    obtain ⟨t1, t2, t3⟩ := abbrSlot_spec ha hk true text ta h4
    obtain ⟨l1, _, l3⟩ := abbrSlot_spec ha hk (!isRoot) tail tla h3
    refine ⟨?_, l3⟩
    rw [Node.forall_def]
    exact ⟨⟨h1, h2, l1, t1, fun hc => t2 (h5 hc)⟩, forallL_append t3 (abbrKids_fnode ha hk children hkids)⟩
theorem abbrKids_fnode {abbrs : List (Str × Str)} {keys : List Str} (ha : AbbrsOK abbrs)
    (hk : ∀ key ∈ keys, ∃ kv ∈ abbrs, kv.1 = key) : ∀ (l : List Node), Node.ForallL FNode l →
    Node.ForallL FNode (AbbrTree.abbrKids abbrs keys l)
  | [], _ => by simp [AbbrTree.abbrKids, Node.ForallL]
  | c :: r, h => by
    simp only [Node.ForallL] at h
    rw [AbbrTree.abbrKids]
    obtain ⟨c1, c2⟩ := abbrNode_fnode ha hk false c h.1
    have : Node.ForallL FNode ((AbbrTree.abbrNode abbrs keys false c).1 ::
        ((AbbrTree.abbrNode abbrs keys false c).2 ++ AbbrTree.abbrKids abbrs keys r)) := by
      simp only [Node.ForallL]
      exact ⟨c1, forallL_append c2 (abbrKids_fnode ha hk r h.2)⟩
    exact this
end

/-- **`AbbrTreeprocessor.run` keeps "ordinary characters and escape tokens only"** when no abbreviation holds STX or
    ETX or is a number (for a number the statement is false: F-C10-6) -/
theorem abbr_run_fnode {abbrs : List (Str × Str)} {t : Node} (h : t.Forall FNode) (ha : AbbrsOK abbrs) :
    (AbbrTree.run abbrs t).Forall FNode := by
  unfold AbbrTree.run
  split
  · exact h
  · refine (abbrNode_fnode ha ?_ true t h).1
    intro key hkey
    obtain ⟨kv, hkv, e⟩ := List.mem_map.1 (mem_sortKeys hkey)
    exact ⟨kv, hkv, e⟩

/-- no abbreviation is a number written in ASCII digits (the digit class of the codes of escape tokens and of the
    numbers of raw-HTML placeholders: `str(ord(c))`, `str(i)`); a key of other decimal digits, which `\\d` of
    `UnescapeTreeprocessor.RE` would accept, cannot occur in a token the converter writes -/
def noDigitsAbbr (abbrs : List (Str × Str)) : Bool := abbrs.all (fun kv => !(kv.1.all isAsciiDigit))

/-- the same with the digit class of `\\d` (`Py.isDecimal`): a stronger hypothesis -/
def noDecimalAbbr (abbrs : List (Str × Str)) : Bool := abbrs.all (fun kv => !(kv.1.all isDecimal))

theorem noDigitsAbbr_of_decimal {abbrs : List (Str × Str)} (h : noDecimalAbbr abbrs = true) :
    noDigitsAbbr abbrs = true := by
  simp only [noDecimalAbbr, noDigitsAbbr, List.all_eq_true, Bool.not_eq_eq_eq_not, Bool.not_true] at h ⊢
  intro kv hkv
  have := h kv hkv
  cases hq : kv.1.all isAsciiDigit with
  | false => rfl
  | true =>
    have : kv.1.all isDecimal = true :=
      List.all_eq_true.2 fun c hc => isDecimal_of_isAsciiDigit (List.all_eq_true.1 hq c hc)
    simp_all

theorem abbrsOK_of {abbrs : List (Str × Str)} (hn : ∀ kv ∈ abbrs, NoCtl kv.1 ∧ NoCtl kv.2)
    (hd : noDigitsAbbr abbrs = true) : AbbrsOK abbrs := by
  intro kv hkv
  simp only [noDigitsAbbr, List.all_eq_true, Bool.not_eq_eq_eq_not, Bool.not_true] at hd
  exact ⟨⟨(hn kv hkv).1, hd kv hkv⟩, (hn kv hkv).2⟩

end MdVerif.NoCtlX
