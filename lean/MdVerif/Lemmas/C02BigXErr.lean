/-
Helper lemmas for `Props/C02Big.lean`, section 7: `UnescapeTreeprocessor` does not raise in the EXTENSION pipeline, for
the flag sets whose tree processors behind the inline stage are `prettify` and `unescape` only (footnotes, abbr,
attr_list, toc off; tables, admonition, def_list, sane_lists, nl2br, wikilinks on or off; no fenced_code).

* `blockStageX_noctl_log` — the tree AND the log of the extended block stage have no STX/ETX;
* `xok_inlineCfgX`        — so the configuration of the inline stage is in shape (`TokFull.XOK`);
* `treeXBig_simple`       — `treeXBig` answers `oof` or `ood`, or `ok u html` with `u` the unescaped, prettified tree;
* `convertXBig_err_only_strip` — `convertXBig = err` only if the `<div>` strip fails.
Core Lean only.
-/
import MdVerif.Lemmas.C02BigXAll
import MdVerif.Lemmas.C02BigXTok

namespace MdVerif.C02BigX
open Py Pipeline PipelineX NoCtl

/-- the tree and the log of the block stage have no STX/ETX (no fenced_code, no footnotes) -/
theorem blockStageX_noctl_log {x : Exts} {cfg : Cfg} {src : Str} (hf : x.fencedCode = false) (hfn : x.footnotes = false)
    {root : Node} {log : Block.Refs} {stash : List Str} (h : blockStageX x cfg src = .ok (root, log, stash)) :
    TreeNoCtl root ∧ BlkX.LogC Blk.okc (Blk.AllC Blk.okc) log ∧ stash = [] := by
  simp only [blockStageX] at h
  split at h
  · cases h
  · cases h
  · next text stash' hp =>
    obtain ⟨e1, e2⟩ := prepareX_nofence hf hp
    subst e1
    split at h
    · cases h
    · next root' log' hpd =>
      simp only [fnStageX, hfn, Bool.false_eq_true, if_false] at h
      simp only [FootnotesTree.R.ok.injEq, Prod.mk.injEq] at h
      obtain ⟨rfl, rfl, rfl⟩ := h
      have hok : Blk.AllC Blk.okc (Pipeline.prepare cfg src) := fun c hc => by
        have := noCtl_iff.1 (prepare_noctl cfg src) c hc
        simp [Blk.okc, this.1, this.2]
      obtain ⟨h1, h2⟩ := BlkX.parseDocumentXT_strs strDomX_okc x.tables x.blockCfg cfg.tab _ hok hpd
      exact ⟨Node.Forall.mono (fun _ hn => nodeNoCtl_of_bnodeXP hn) _ h1, h2, e2⟩

/-- the configuration of the inline stage: reference definitions and footnote ids without STX -/
theorem xok_inlineCfgX (x : Exts) (cfg : Cfg) {log : Block.Refs} (hlog : BlkX.LogC Blk.okc (Blk.AllC Blk.okc) log) :
    TokFull.XOK (inlineCfgX x cfg log) where
  refs := by
    intro r hr
    simp only [inlineCfgX, List.mem_reverse] at hr
    have hmem : r ∈ log := by
      unfold refsX at hr
      split at hr
      · exact (List.mem_filter.1 hr).1
      · exact hr
    have := hlog r hmem
    exact ⟨TokFull.SOkA_of_noSTX (allC_okc this.2.1).1, TokFull.SOkA_of_noSTX (allC_okc this.2.2.1).1⟩
  keys := by
    intro id hid
    simp only [inlineCfgX, List.mem_map] at hid
    obtain ⟨kv, hkv, rfl⟩ := hid
    exact allC_okc (BlkX.footnotesOf_c hlog kv hkv).1

/-- the tree processors behind the inline stage when footnotes, abbr, attr_list and toc are off -/
theorem lateStageX_simple {x : Exts} (hfn : x.footnotes = false) (hab : x.abbr = false) (hal : x.attrList = false)
    (htoc : x.toc = false) (cfg : Cfg) (log : Block.Refs) (t : Node) (xs : InlineX.XSt) :
    lateStageX x cfg log t xs =
      match TreeProc.unescapeTree (TreeProc.prettify t cfg.blockLevel) with
      | none => .err
      | some u => .ok u xs.st.html := by
  simp only [lateStageX, midStageX, tocStageX, hfn, hab, hal, htoc, Bool.false_eq_true, if_false]
  cases TreeProc.unescapeTree (TreeProc.prettify t cfg.blockLevel) <;> rfl

/-- **`treeXBig` does not answer `err`** for these flag sets: `UnescapeTreeprocessor` meets complete escape tokens only -/
theorem treeXBig_ne_err {x : Exts} (hf : x.fencedCode = false) (hfn : x.footnotes = false) (hab : x.abbr = false)
    (hal : x.attrList = false) (htoc : x.toc = false) (cfg : Cfg) (src : Str) :
    treeXBig x cfg src ≠ .err := by
  unfold treeXBig
  cases hb : blockStageX x cfg src with
  | oof => intro h; cases h
  | ood => intro h; cases h
  | ok r =>
    obtain ⟨root, log, stash⟩ := r
    obtain ⟨hno, hlog, rfl⟩ := blockStageX_noctl_log hf hfn hb
    simp only
    cases hr : runXBig (inlineCfgX x cfg log) root [] with
    | none => intro h; cases h
    | some ts =>
      obtain ⟨t, xs⟩ := ts
      simp only
      have hS : t.Forall TokFull.NodeS :=
        TokFull.runLoopX_S (xok_inlineCfgX x cfg hlog) _ _ _ _ _ _ _ hr (TokFull.forallS_of_noCtl hno)
          TokFull.stashS_nil
      have hu := TokFull.unescapeTree_S (TokFull.prettify_S hS cfg.blockLevel)
      rw [lateStageX_simple hfn hab hal htoc]
      cases hun : TreeProc.unescapeTree (TreeProc.prettify t cfg.blockLevel) with
      | none => rw [hun] at hu; cases hu
      | some u => intro h; cases h

/-- **`convertXBig` answers `err` only when the `<div>` strip fails** (`ValueError` of `Markdown.convert`), for the flag
    sets without footnotes, abbr, attr_list, toc and fenced_code: `UnescapeTreeprocessor` never raises -/
theorem convertXBig_err_only_strip {x : Exts} (hf : x.fencedCode = false) (hfn : x.footnotes = false)
    (hab : x.abbr = false) (hal : x.attrList = false) (htoc : x.toc = false) (cfg : Cfg) (src : Str)
    (h : convertXBig x cfg src = .err) :
    ∃ u html, treeXBig x cfg src = .ok u html ∧ Post.topLevelStrip (Ser.serialize cfg.fmt u) = none := by
  unfold convertXBig at h
  split at h
  · cases h
  · split at h
    · cases h
    · split at h
      · cases h
      · cases ht : treeXBig x cfg src with
        | oof => rw [ht] at h; cases h
        | err => exact absurd ht (treeXBig_ne_err hf hfn hab hal htoc cfg src)
        | ood => rw [ht] at h; cases h
        | ok u html =>
          rw [ht] at h
          simp only [finishX] at h
          refine ⟨u, html, rfl, ?_⟩
          cases hs : Post.topLevelStrip (Ser.serialize cfg.fmt u) with
          | none => rfl
          | some s0 =>
            rw [hs] at h
            simp only at h
            split at h
            · cases h
            · cases h

end MdVerif.C02BigX
