/-
Helper lemmas for C01 with inline links, inline images AND hard breaks in one paragraph (`Props/C01i.lean`, last part):
the printer and the specification side of a paragraph of several lines of words, escapes, code spans, emphasised words,
inline links `[text](dest "title")` and inline images `![alt](dest "title")` in any order, the lines separated by hard
breaks (two spaces and a line feed) — `Lemmas/DocParse6MPrint.lean` with a third kind of use.  The definitions of the
stages are in `Lemmas/DocParse6NDef.lean`.  Core Lean only.
-/
import MdVerif.Lemmas.DocParse6NDef
import MdVerif.Lemmas.DocParse6MPrint
import MdVerif.Spec.DocFlat3

namespace MdVerif.DocMixB
open Py Inline Escape DocSpec CodeLaw DocParse Block DocParse2 RefText DocLink DocImg DocMix

/-! ### 1. content with links, images and hard breaks: the content before the first use, and per use what follows -/

inductive BIt where
  | lk (l : LinkIt)
  | im (l : ImgIt)
  | br (after : List DocSpec.Inline)

def BIt.after : BIt → List DocSpec.Inline
  | .lk l => l.after
  | .im l => l.after
  | .br a => a

def BIt.toInline : BIt → DocSpec.Inline
  | .lk l => .link l.text l.dest l.title
  | .im l => .image l.alt l.dest l.title
  | .br _ => .br

/-- a link, an image or a hard break -/
def isUseB : DocSpec.Inline → Bool
  | .link _ _ _ => true
  | .image _ _ _ => true
  | .br => true
  | _ => false

def bSplit : List DocSpec.Inline → List DocSpec.Inline × List BIt
  | [] => ([], [])
  | x :: r =>
    match x with
    | .link c d t => ([], .lk ⟨c, d, t, (bSplit r).1⟩ :: (bSplit r).2)
    | .image a d t => ([], .im ⟨a, d, t, (bSplit r).1⟩ :: (bSplit r).2)
    | .br => ([], .br (bSplit r).1 :: (bSplit r).2)
    | _ => (x :: (bSplit r).1, (bSplit r).2)

def joinB (A : List DocSpec.Inline) : List BIt → List DocSpec.Inline
  | [] => A
  | l :: r => A ++ l.toInline :: joinB l.after r

theorem joinB_nil (A : List DocSpec.Inline) : joinB A [] = A := rfl

theorem joinB_cons (A : List DocSpec.Inline) (l : BIt) (r : List BIt) :
    joinB A (l :: r) = A ++ l.toInline :: joinB l.after r := rfl

theorem joinB_lk (A : List DocSpec.Inline) (l : LinkIt) (r : List BIt) :
    joinB A (.lk l :: r) = A ++ .link l.text l.dest l.title :: joinB l.after r := rfl

theorem joinB_im (A : List DocSpec.Inline) (l : ImgIt) (r : List BIt) :
    joinB A (.im l :: r) = A ++ .image l.alt l.dest l.title :: joinB l.after r := rfl

theorem joinB_br (A : List DocSpec.Inline) (a : List DocSpec.Inline) (r : List BIt) :
    joinB A (.br a :: r) = A ++ .br :: joinB a r := rfl

theorem bSplit_link (c : List DocSpec.Inline) (d : Str) (t : Option Str) (r : List DocSpec.Inline) :
    bSplit (.link c d t :: r) = ([], .lk ⟨c, d, t, (bSplit r).1⟩ :: (bSplit r).2) := by rw [bSplit]

theorem bSplit_image (a : Str) (d : Str) (t : Option Str) (r : List DocSpec.Inline) :
    bSplit (.image a d t :: r) = ([], .im ⟨a, d, t, (bSplit r).1⟩ :: (bSplit r).2) := by rw [bSplit]

theorem bSplit_br (r : List DocSpec.Inline) :
    bSplit (.br :: r) = ([], .br (bSplit r).1 :: (bSplit r).2) := by rw [bSplit]

theorem bSplit_other (x : DocSpec.Inline) (r : List DocSpec.Inline) (hx : isUseB x = false) :
    bSplit (x :: r) = (x :: (bSplit r).1, (bSplit r).2) := by
  cases x <;> simp_all [isUseB, bSplit]

theorem isUseB_cases (x : DocSpec.Inline) (hx : isUseB x = true) :
    (∃ c d t, x = .link c d t) ∨ (∃ a d t, x = .image a d t) ∨ x = .br := by
  cases x <;> simp_all [isUseB]

theorem joinB_split (c : List DocSpec.Inline) : joinB (bSplit c).1 (bSplit c).2 = c := by
  induction c with
  | nil => rfl
  | cons x r ih =>
    by_cases hx : isUseB x = true
    · rcases isUseB_cases x hx with ⟨c', d, t, rfl⟩ | ⟨a, d, t, rfl⟩ | rfl
      · rw [bSplit_link]; simp [joinB, BIt.toInline, BIt.after, ih]
      · rw [bSplit_image]; simp [joinB, BIt.toInline, BIt.after, ih]
      · rw [bSplit_br]; simp [joinB, BIt.toInline, BIt.after, ih]
    · have hx' : isUseB x = false := by simpa using hx
      rw [bSplit_other x r hx']
      cases h2 : (bSplit r).2 with
      | nil => rw [h2] at ih; simpa [joinB] using ih
      | cons l ls => rw [h2] at ih; simp only [joinB] at ih ⊢; rw [List.cons_append, ih]

theorem bSplit_prefix (c : List DocSpec.Inline) : ∃ T, c = (bSplit c).1 ++ T := by
  induction c with
  | nil => exact ⟨[], rfl⟩
  | cons x r ih =>
    by_cases hx : isUseB x = true
    · rcases isUseB_cases x hx with ⟨c', d, t, rfl⟩ | ⟨a, d, t, rfl⟩ | rfl
      · rw [bSplit_link]; exact ⟨_, rfl⟩
      · rw [bSplit_image]; exact ⟨_, rfl⟩
      · rw [bSplit_br]; exact ⟨_, rfl⟩
    · have hx' : isUseB x = false := by simpa using hx
      obtain ⟨T, hT⟩ := ih
      rw [bSplit_other x r hx']
      exact ⟨T, by simp only [List.cons_append]; rw [← hT]⟩

theorem noUses_of_splitB (c : List DocSpec.Inline) (h : (bSplit c).2 = []) : ∀ x ∈ c, isUseB x = false := by
  induction c with
  | nil => intro x hx; cases hx
  | cons a r ih =>
    by_cases ha : isUseB a = true
    · rcases isUseB_cases a ha with ⟨c', d, t, rfl⟩ | ⟨al, d, t, rfl⟩ | rfl
      · rw [bSplit_link] at h; simp at h
      · rw [bSplit_image] at h; simp at h
      · rw [bSplit_br] at h; simp at h
    · have ha' : isUseB a = false := by simpa using ha
      rw [bSplit_other a r ha'] at h
      intro x hx
      rcases List.mem_cons.1 hx with rfl | hx
      · exact ha'
      · exact ih h x hx

/-! ### 2. `printInlines` on content followed by a link, an image or a hard break -/

/-- the parts of the printed form: the content, `[`, the link text, `]`, the tail, the rest -/
theorem printInlines_joinB_lk (A : List DocSpec.Inline) (hA : mixItemsOK A = true) (l : LinkIt)
    (r : List BIt) (pB : Bool) (st : PSt) (sa : Str) (st1 : PSt)
    (ha : printInlines none pB true A st = (sa, st1)) (sT : Str) (st2 : PSt)
    (hT : printInlines none true true l.text st1 = (sT, st2)) (tl : Str) (st3 : PSt)
    (htl : linkTail (plainLabel l.text) (safeAfterRef (joinB l.after r)) l.dest l.title st2 = (tl, st3))
    (sr : Str) (st4 : PSt)
    (hr : printInlines none (afterBoundary (afterBoundary pB sa) ('[' :: sT ++ [']'] ++ tl)) true
      (joinB l.after r) st3 = (sr, st4)) :
    printInlines none pB true (joinB A (.lk l :: r)) st = (sa ++ (('[' :: sT ++ [']'] ++ tl) ++ sr), st4) := by
  have hnb : nextBoundary true (DocSpec.Inline.link l.text l.dest l.title :: joinB l.after r) = true := rfl
  rw [joinB_lk, printInlines_append_plain none _ A (plain_of_mix A hA), hnb, ha]
  simp only [printInlines_cons', printInline_link, hT, htl, hr]

/-- the parts of the printed form: the content, `![`, the alt text, `]`, the tail, the rest -/
theorem printInlines_joinB_im (A : List DocSpec.Inline) (hA : mixItemsOK A = true) (l : ImgIt)
    (r : List BIt) (pB : Bool) (st : PSt) (sa : Str) (st1 : PSt)
    (ha : printInlines none pB true A st = (sa, st1)) (tl : Str) (st3 : PSt)
    (htl : linkTail (some l.alt) (safeAfterRef (joinB l.after r)) l.dest l.title st1 = (tl, st3))
    (sr : Str) (st4 : PSt)
    (hr : printInlines none (afterBoundary (afterBoundary pB sa) ('!' :: '[' :: l.alt ++ [']'] ++ tl)) true
      (joinB l.after r) st3 = (sr, st4)) :
    printInlines none pB true (joinB A (.im l :: r)) st = (sa ++ (('!' :: '[' :: l.alt ++ [']'] ++ tl) ++ sr), st4) := by
  have hnb : nextBoundary true (DocSpec.Inline.image l.alt l.dest l.title :: joinB l.after r) = true := rfl
  rw [joinB_im, printInlines_append_plain none _ A (plain_of_mix A hA), hnb, ha]
  simp only [printInlines_cons', printInline_image, htl, hr]

theorem printInline_br (pd : Option Char) (a b sf : Bool) (st : PSt) :
    printInline pd a b sf .br st = (brS, st) := by
  rw [printInline]; rfl

theorem afterBoundary_brS (b : Bool) (X : Str) : afterBoundary b (X ++ brS) = true := by
  simp [afterBoundary, brS, isWordCh, isAsciiAlnum, isAsciiAlpha, isAsciiLower, isAsciiUpper, isAsciiDigit]

/-- the parts of the printed form: the content, two spaces and a line feed, the rest; the state does not change at the
    break, and the rest is printed as at the start of a line -/
theorem printInlines_joinB_br (A : List DocSpec.Inline) (hA : mixItemsOK A = true) (after : List DocSpec.Inline)
    (r : List BIt) (pB : Bool) (st : PSt) (sa : Str) (st1 : PSt)
    (ha : printInlines none pB true A st = (sa, st1)) (sr : Str) (st4 : PSt)
    (hr : printInlines none true true (joinB after r) st1 = (sr, st4)) :
    printInlines none pB true (joinB A (.br after :: r)) st = (sa ++ (brS ++ sr), st4) := by
  have hnb : nextBoundary true (DocSpec.Inline.br :: joinB after r) = true := rfl
  have hab : afterBoundary (afterBoundary pB sa) brS = true := by
    have := afterBoundary_brS (afterBoundary pB sa) []
    simpa using this
  rw [joinB_br, printInlines_append_plain none _ A (plain_of_mix A hA), hnb, ha]
  simp only [printInlines_cons', printInline_br, hab, hr]

/-- what the domain says of a use and the content after it -/
def BItOK : BIt → Prop
  | .lk l => LinkOK l
  | .im l => ImgOK l
  | .br after => mixOK after = true ∧ ∀ x, after.head? = some x → startsSpace x = false

theorem BItOK.after {l : BIt} (h : BItOK l) : mixOK l.after = true := by
  cases l with
  | lk l => exact LinkOK.after h
  | im l => exact ImgOK.after h
  | br a => exact h.1

/-- the definitions only grow, whatever the styles -/
theorem printB_defs : ∀ (ls : List BIt) (A : List DocSpec.Inline) (pB : Bool) (st : PSt),
    mixItemsOK A = true → (∀ l ∈ ls, BItOK l) →
    ∃ e, (printInlines none pB true (joinB A ls) st).2.defs = st.defs ++ e := by
  intro ls
  induction ls with
  | nil =>
    intro A pB st hA _
    obtain ⟨segs, st', hp, hd, _⟩ := printInlines_mix A hA pB true st
    exact ⟨[], by simp [joinB, hp, hd]⟩
  | cons g r ih =>
    intro A pB st hA hls
    have hg := hls g List.mem_cons_self
    cases g with
    | lk l =>
      have hl : LinkOK l := hg
      have hTi : mixItemsOK l.text = true := by
        have := hl.text; simp only [mixOK, Bool.and_eq_true] at this; exact this.1.1
      have hCi : mixItemsOK l.after = true := by
        have := hl.after; simp only [mixOK, Bool.and_eq_true] at this; exact this.1.1
      obtain ⟨segs, st1, hp, hd, _⟩ := printInlines_mix A hA pB true st
      obtain ⟨segsT, st2, hpT, hdT, _⟩ := printInlines_mix l.text hTi true true st1
      obtain ⟨e1, he1⟩ := linkTail_defs (plainLabel l.text) (safeAfterRef (joinB l.after r)) l.dest l.title st2
      generalize htl : linkTail (plainLabel l.text) (safeAfterRef (joinB l.after r)) l.dest l.title st2 = tlp at he1
      obtain ⟨tl, st3⟩ := tlp
      obtain ⟨e2, he2⟩ := ih l.after
        (afterBoundary (afterBoundary pB (escAll ESC (splitMix A).1 ++ rawM ESC segs))
          ('[' :: (escAll ESC (splitMix l.text).1 ++ rawM ESC segsT) ++ [']'] ++ tl)) st3 hCi
        (fun x hx => hls x (List.mem_cons_of_mem _ hx))
      generalize hr : printInlines none (afterBoundary (afterBoundary pB (escAll ESC (splitMix A).1 ++ rawM ESC segs))
          ('[' :: (escAll ESC (splitMix l.text).1 ++ rawM ESC segsT) ++ [']'] ++ tl)) true (joinB l.after r) st3 =
        rp at he2
      obtain ⟨sr, st4⟩ := rp
      rw [printInlines_joinB_lk A hA l r pB st _ _ hp _ _ hpT _ _ htl _ _ hr]
      simp only at he1 he2 ⊢
      exact ⟨e1 ++ e2, by rw [he2, he1, hdT, hd, List.append_assoc]⟩
    | im l =>
      have hl : ImgOK l := hg
      have hCi : mixItemsOK l.after = true := by
        have := hl.after; simp only [mixOK, Bool.and_eq_true] at this; exact this.1.1
      obtain ⟨segs, st1, hp, hd, _⟩ := printInlines_mix A hA pB true st
      obtain ⟨e1, he1⟩ := linkTail_defs (some l.alt) (safeAfterRef (joinB l.after r)) l.dest l.title st1
      generalize htl : linkTail (some l.alt) (safeAfterRef (joinB l.after r)) l.dest l.title st1 = tlp at he1
      obtain ⟨tl, st3⟩ := tlp
      obtain ⟨e2, he2⟩ := ih l.after
        (afterBoundary (afterBoundary pB (escAll ESC (splitMix A).1 ++ rawM ESC segs))
          ('!' :: '[' :: l.alt ++ [']'] ++ tl)) st3 hCi
        (fun x hx => hls x (List.mem_cons_of_mem _ hx))
      generalize hr : printInlines none (afterBoundary (afterBoundary pB (escAll ESC (splitMix A).1 ++ rawM ESC segs))
          ('!' :: '[' :: l.alt ++ [']'] ++ tl)) true (joinB l.after r) st3 =
        rp at he2
      obtain ⟨sr, st4⟩ := rp
      rw [printInlines_joinB_im A hA l r pB st _ _ hp _ _ htl _ _ hr]
      simp only at he1 he2 ⊢
      exact ⟨e1 ++ e2, by rw [he2, he1, hd, List.append_assoc]⟩
    | br a =>
      have hCi : mixItemsOK a = true := by
        have := hg.1; simp only [mixOK, Bool.and_eq_true] at this; exact this.1.1
      obtain ⟨segs, st1, hp, hd, _⟩ := printInlines_mix A hA pB true st
      obtain ⟨e2, he2⟩ := ih a true st1 hCi (fun x hx => hls x (List.mem_cons_of_mem _ hx))
      generalize hr : printInlines none true true (joinB a r) st1 = rp at he2
      obtain ⟨sr, st4⟩ := rp
      rw [printInlines_joinB_br A hA a r pB st _ _ hp _ _ hr]
      simp only at he2 ⊢
      exact ⟨e2, by rw [he2, hd]⟩

/-! ### 3. the printed form of content with links, images and hard breaks -/

/-- a use as printed in the inline style, with the content after it -/
def BW : BIt → BUse → Prop
  | .lk l, .lk u => LinkW l u
  | .im l, .im u => ImgW l u
  | .br after, .br C => ChunkW after C ∧ (C.t0 ≠ [] → startsVisible C.t0 = true)
  | _, _ => False

def BsW : List BIt → List BUse → Prop
  | [], [] => True
  | l :: ls, u :: us => BW l u ∧ BsW ls us
  | _, _ => False

theorem bsW_cons {l : BIt} {ls : List BIt} {u : BUse} {us : List BUse} :
    BsW (l :: ls) (u :: us) = (BW l u ∧ BsW ls us) := rfl

theorem bsW_length : ∀ (ls : List BIt) (gs : List BUse), BsW ls gs → gs.length = ls.length := by
  intro ls
  induction ls with
  | nil => intro gs h; cases gs with
    | nil => rfl
    | cons _ _ => exact absurd h (by simp [BsW])
  | cons l r ih => intro gs h; cases gs with
    | nil => exact absurd h (by simp [BsW])
    | cons u us => rw [bsW_cons] at h; simp [ih us h.2]

theorem bsW_mem : ∀ (ls : List BIt) (gs : List BUse), BsW ls gs → ∀ u ∈ gs, ∃ l ∈ ls, BW l u := by
  intro ls
  induction ls with
  | nil => intro gs h u hu; cases gs with
    | nil => cases hu
    | cons _ _ => exact absurd h (by simp [BsW])
  | cons l r ih => intro gs h u hu; cases gs with
    | nil => cases hu
    | cons a us =>
      rw [bsW_cons] at h
      rcases List.mem_cons.1 hu with rfl | hu
      · exact ⟨l, List.mem_cons_self, h.1⟩
      · obtain ⟨l', hl', hw⟩ := ih us h.2 u hu
        exact ⟨l', List.mem_cons_of_mem _ hl', hw⟩

/-- the pieces of a link with what follows -/
theorem bStage0_lk (m n0 : Nat) (u : IUse) (us : List BUse) :
    bStage ESC 0 false m n0 (.lk u :: us) =
      ['['] ++ (u.T.raw ESC ++ ([']', '('] ++ (destSrc u.url u.dtitle ++ ([')'] ++ (u.C.raw ESC ++
        bStage ESC 0 false (m + u.T.escs ESC + u.C.escs ESC) (n0 + u.T.cnt 0 + u.C.cnt 0) us))))) := by
  simp [bStage, BUse.head, BUse.C, BUse.tEscs, BUse.tCnt, closerI, Chunk.stage_raw]

/-- the pieces of an image with what follows -/
theorem bStage0_im (m n0 : Nat) (u : DocImg.MUse) (us : List BUse) :
    bStage ESC 0 false m n0 (.im u :: us) =
      ['!', '['] ++ (u.alt ++ ([']', '('] ++ (destSrc u.url u.dtitle ++ ([')'] ++ (u.C.raw ESC ++
        bStage ESC 0 false (m + u.C.escs ESC) (n0 + u.C.cnt 0) us))))) := by
  simp [bStage, BUse.head, BUse.C, BUse.tEscs, BUse.tCnt, openerM, closerM, Chunk.stage_raw]

/-- the pieces of a hard break with what follows -/
theorem bStage0_br (m n0 : Nat) (C : Chunk) (us : List BUse) :
    bStage ESC 0 false m n0 (.br C :: us) =
      brS ++ (C.raw ESC ++ bStage ESC 0 false (m + C.escs ESC) (n0 + C.cnt 0) us) := by
  simp [bStage, BUse.head, BUse.C, BUse.tEscs, BUse.tCnt, Chunk.stage_raw]

/-- the text after a hard break starts with something visible -/
theorem brVis_of {after : List DocSpec.Inline} {C : Chunk} (hW : ChunkW after C)
    (hs : ∀ x, after.head? = some x → startsSpace x = false) : C.t0 ≠ [] → startsVisible C.t0 = true := by
  intro hne
  rw [hW.t0eq] at hne ⊢
  cases after with
  | nil => exact absurd rfl hne
  | cons x r =>
    have hx := hs x rfl
    have hi := hW.items
    have hst : startsOk (x :: r) = true := by
      cases x with
      | text w => simpa [startsSpace, startsOk] using hx
      | br => simp [startsSpace] at hx
      | _ => rfl
    exact splitMix_first _ hi hst hne

/-- **the printed form of content with links, images and hard breaks.**  The definitions grow by `extra`; when they do
    not grow and no `<` is printed, every use is printed in the inline style: the paragraph is a chunk followed by the
    uses `[text](dest "title")content` / `![alt](dest "title")content` / two spaces, a line feed and content. -/
theorem printB_rel : ∀ (ls : List BIt) (A : List DocSpec.Inline) (st : PSt), mixOK A = true →
    (∀ l ∈ ls, BItOK l) →
    ∃ (s : Str) (st' : PSt) (extra : List Str), printInlines none true true (joinB A ls) st = (s, st') ∧
      st'.defs = st.defs ++ extra ∧
      (extra = [] → '<' ∉ s → ∃ (C0 : Chunk) (gs : List BUse),
        (∀ m n0, s = C0.raw ESC ++ bStage ESC 0 false m n0 gs) ∧ ChunkW A C0 ∧ BsW ls gs) := by
  intro ls
  induction ls with
  | nil =>
    intro A st hA _
    obtain ⟨C0, st', hp, hd, hW⟩ := chunkW_of A hA st
    exact ⟨C0.raw ESC, st', [], by simpa [joinB] using hp, by simp [hd],
      fun _ _ => ⟨C0, [], fun _ _ => by simp [bStage], hW, trivial⟩⟩
  | cons g r ih =>
    intro A st hA hls
    have hg := hls g List.mem_cons_self
    have hAi : mixItemsOK A = true := by
      have := hA; simp only [mixOK, Bool.and_eq_true] at this; exact this.1.1
    obtain ⟨C0, st1, hp, hd, hW⟩ := chunkW_of A hA st
    cases g with
    | lk l =>
      have hl : LinkOK l := hg
      have hCi : mixItemsOK l.after = true := by
        have := hl.after; simp only [mixOK, Bool.and_eq_true] at this; exact this.1.1
      obtain ⟨T, st2, hpT, hdT, hWT⟩ := chunkW_of l.text hl.text st1
      generalize htl : linkTail (plainLabel l.text) (safeAfterRef (joinB l.after r)) l.dest l.title st2 = tlp
      obtain ⟨tl, st3⟩ := tlp
      have hcases := linkTail_cases (plainLabel l.text) (safeAfterRef (joinB l.after r)) l.dest l.title st2
      rw [htl] at hcases
      simp only at hcases
      rcases hcases with ⟨htail, hd3⟩ | ⟨hlt, _⟩ | ⟨x, hx⟩
      · -- the inline style
        have hab : afterBoundary (afterBoundary true (C0.raw ESC)) ('[' :: T.raw ESC ++ [']'] ++ tl) = true := by
          rw [htail, inlineTail_eq]
          have : '[' :: T.raw ESC ++ [']'] ++ '(' :: (destSrc l.dest (dtitleOf (draw (draw st2).2).1 l.title) ++ [')']) =
              ('[' :: T.raw ESC ++ [']'] ++ '(' :: destSrc l.dest (dtitleOf (draw (draw st2).2).1 l.title)) ++ [')'] := by
            simp [List.append_assoc]
          rw [this, afterBoundary_paren]
        obtain ⟨sr, st4, extra, hpr, hdr, hrest⟩ :=
          ih l.after st3 hl.after (fun x hx => hls x (List.mem_cons_of_mem _ hx))
        refine ⟨C0.raw ESC ++ (('[' :: T.raw ESC ++ [']'] ++ tl) ++ sr), st4, extra,
          printInlines_joinB_lk A hAi l r true st _ _ hp _ _ hpT _ _ htl _ _ (by rw [hab]; exact hpr),
          by rw [hdr, hd3, hdT, hd], ?_⟩
        intro hex hlts
        have hltr : '<' ∉ sr := fun hm => hlts (by simp [hm])
        obtain ⟨Cr, isr, hsr, hWr, hLr⟩ := hrest hex hltr
        refine ⟨C0, .lk ⟨T, l.dest, dtitleOf (draw (draw st2).2).1 l.title, Cr⟩ :: isr, ?_, hW,
          ⟨⟨hWT, hWr, hl.starts, rfl, ⟨_, rfl⟩, hl.dest _, hl.plainD, hl.plainT⟩, hLr⟩⟩
        intro m n0
        rw [htail, inlineTail_eq, hsr (m + T.escs ESC + Cr.escs ESC) (n0 + T.cnt 0 + Cr.cnt 0), bStage0_lk]
        simp [List.append_assoc]
      · -- angle brackets
        obtain ⟨e1, he1⟩ := linkTail_defs (plainLabel l.text) (safeAfterRef (joinB l.after r)) l.dest l.title st2
        rw [htl] at he1
        obtain ⟨e2, he2⟩ := printB_defs r l.after
          (afterBoundary (afterBoundary true (C0.raw ESC)) ('[' :: T.raw ESC ++ [']'] ++ tl)) st3 hCi
          (fun x hx => hls x (List.mem_cons_of_mem _ hx))
        refine ⟨_, _, e1 ++ e2,
          printInlines_joinB_lk A hAi l r true st _ _ hp _ _ hpT _ _ htl _ _ rfl,
          by rw [he2, he1, hdT, hd, List.append_assoc], ?_⟩
        intro _ hlts
        exact absurd (by simp [hlt]) hlts
      · -- a reference style
        obtain ⟨e2, he2⟩ := printB_defs r l.after
          (afterBoundary (afterBoundary true (C0.raw ESC)) ('[' :: T.raw ESC ++ [']'] ++ tl)) st3 hCi
          (fun x hx => hls x (List.mem_cons_of_mem _ hx))
        refine ⟨_, _, [x] ++ e2,
          printInlines_joinB_lk A hAi l r true st _ _ hp _ _ hpT _ _ htl _ _ rfl,
          by rw [he2, hx, hdT, hd, List.append_assoc], ?_⟩
        intro hex _
        simp at hex
    | im l =>
      have hl : ImgOK l := hg
      have hCi : mixItemsOK l.after = true := by
        have := hl.after; simp only [mixOK, Bool.and_eq_true] at this; exact this.1.1
      generalize htl : linkTail (some l.alt) (safeAfterRef (joinB l.after r)) l.dest l.title st1 = tlp
      obtain ⟨tl, st3⟩ := tlp
      have hcases := linkTail_cases (some l.alt) (safeAfterRef (joinB l.after r)) l.dest l.title st1
      rw [htl] at hcases
      simp only at hcases
      rcases hcases with ⟨htail, hd3⟩ | ⟨hlt, _⟩ | ⟨x, hx⟩
      · -- the inline style
        have hab : afterBoundary (afterBoundary true (C0.raw ESC)) ('!' :: '[' :: l.alt ++ [']'] ++ tl) = true := by
          rw [htail, inlineTail_eq]
          have : '!' :: '[' :: l.alt ++ [']'] ++ '(' :: (destSrc l.dest (dtitleOf (draw (draw st1).2).1 l.title) ++ [')']) =
              ('!' :: '[' :: l.alt ++ [']'] ++ '(' :: destSrc l.dest (dtitleOf (draw (draw st1).2).1 l.title)) ++ [')'] := by
            simp [List.append_assoc]
          rw [this, afterBoundary_paren]
        obtain ⟨sr, st4, extra, hpr, hdr, hrest⟩ :=
          ih l.after st3 hl.after (fun x hx => hls x (List.mem_cons_of_mem _ hx))
        refine ⟨C0.raw ESC ++ (('!' :: '[' :: l.alt ++ [']'] ++ tl) ++ sr), st4, extra,
          printInlines_joinB_im A hAi l r true st _ _ hp _ _ htl _ _ (by rw [hab]; exact hpr),
          by rw [hdr, hd3, hd], ?_⟩
        intro hex hlts
        have hltr : '<' ∉ sr := fun hm => hlts (by simp [hm])
        obtain ⟨Cr, isr, hsr, hWr, hLr⟩ := hrest hex hltr
        refine ⟨C0, .im ⟨l.alt, l.dest, dtitleOf (draw (draw st1).2).1 l.title, Cr⟩ :: isr, ?_, hW,
          ⟨⟨rfl, hl.alt, hWr, rfl, ⟨_, rfl⟩, hl.dest _, hl.plainD, hl.plainT⟩, hLr⟩⟩
        intro m n0
        rw [htail, inlineTail_eq, hsr (m + Cr.escs ESC) (n0 + Cr.cnt 0), bStage0_im]
        simp [List.append_assoc]
      · -- angle brackets
        obtain ⟨e1, he1⟩ := linkTail_defs (some l.alt) (safeAfterRef (joinB l.after r)) l.dest l.title st1
        rw [htl] at he1
        obtain ⟨e2, he2⟩ := printB_defs r l.after
          (afterBoundary (afterBoundary true (C0.raw ESC)) ('!' :: '[' :: l.alt ++ [']'] ++ tl)) st3 hCi
          (fun x hx => hls x (List.mem_cons_of_mem _ hx))
        refine ⟨_, _, e1 ++ e2,
          printInlines_joinB_im A hAi l r true st _ _ hp _ _ htl _ _ rfl,
          by rw [he2, he1, hd, List.append_assoc], ?_⟩
        intro _ hlts
        exact absurd (by simp [hlt]) hlts
      · -- a reference style
        obtain ⟨e2, he2⟩ := printB_defs r l.after
          (afterBoundary (afterBoundary true (C0.raw ESC)) ('!' :: '[' :: l.alt ++ [']'] ++ tl)) st3 hCi
          (fun x hx => hls x (List.mem_cons_of_mem _ hx))
        refine ⟨_, _, [x] ++ e2,
          printInlines_joinB_im A hAi l r true st _ _ hp _ _ htl _ _ rfl,
          by rw [he2, hx, hd, List.append_assoc], ?_⟩
        intro hex _
        simp at hex
    | br a =>
      have ha : mixOK a = true := hg.1
      obtain ⟨sr, st4, extra, hpr, hdr, hrest⟩ :=
        ih a st1 ha (fun x hx => hls x (List.mem_cons_of_mem _ hx))
      refine ⟨C0.raw ESC ++ (brS ++ sr), st4, extra,
        printInlines_joinB_br A hAi a r true st _ _ hp _ _ hpr, by rw [hdr, hd], ?_⟩
      intro hex hlts
      have hltr : '<' ∉ sr := fun hm => hlts (by simp [hm])
      obtain ⟨Cr, isr, hsr, hWr, hLr⟩ := hrest hex hltr
      refine ⟨C0, .br Cr :: isr, ?_, hW, ⟨⟨hWr, brVis_of hWr hg.2⟩, hLr⟩⟩
      intro m n0
      rw [hsr (m + Cr.escs ESC) (n0 + Cr.cnt 0), bStage0_br]

/-! ### 4. the printed paragraph: characters, references, lines -/

theorem bW_cases {l : BIt} {u : BUse} (h : BW l u) :
    (∃ l' u', l = .lk l' ∧ u = .lk u' ∧ LinkW l' u') ∨ (∃ l' u', l = .im l' ∧ u = .im u' ∧ ImgW l' u') ∨
      ∃ a C, l = .br a ∧ u = .br C ∧ ChunkW a C ∧ (C.t0 ≠ [] → startsVisible C.t0 = true) := by
  cases l with
  | lk l' =>
    cases u with
    | lk u' => exact Or.inl ⟨l', u', rfl, rfl, h⟩
    | im u' => exact False.elim h
    | br C => exact False.elim h
  | im l' =>
    cases u with
    | lk u' => exact False.elim h
    | im u' => exact Or.inr (Or.inl ⟨l', u', rfl, rfl, h⟩)
    | br C => exact False.elim h
  | br a =>
    cases u with
    | lk u' => exact False.elim h
    | im u' => exact False.elim h
    | br C => exact Or.inr (Or.inr ⟨a, C, rfl, rfl, h.1, h.2⟩)

theorem bW_C {l : BIt} {u : BUse} (h : BW l u) : ChunkW l.after u.C := by
  rcases bW_cases h with ⟨l', u', rfl, rfl, hu⟩ | ⟨l', u', rfl, rfl, hu⟩ | ⟨a, C, rfl, rfl, hu, _⟩
  · exact hu.C
  · exact hu.C
  · exact hu

theorem bUseOK_of {l : BIt} {u : BUse} (h : BW l u) : BUseOK ESC u := by
  rcases bW_cases h with ⟨l', u', rfl, rfl, hu⟩ | ⟨l', u', rfl, rfl, hu⟩ | ⟨a, C, rfl, rfl, hu, hv⟩
  · exact ⟨fun v e => (by cases e; exact (iuseOK_of hu).1), fun v e => (by cases e), fun v e => (by cases e)⟩
  · exact ⟨fun v e => (by cases e), fun v e => (by cases e; exact museOK_of hu), fun v e => (by cases e)⟩
  · exact ⟨fun v e => (by cases e), fun v e => (by cases e), fun v e => (by cases e; exact ⟨hu.ok, hv⟩)⟩

theorem bVis_of {ls : List BIt} {gs : List BUse} (h : BsW ls gs) : ∀ u, BUse.lk u ∈ gs → u.T.Vis := by
  intro u hu
  obtain ⟨l, _, hw⟩ := bsW_mem ls gs h _ hu
  rcases bW_cases hw with ⟨l', u', rfl, e, hu'⟩ | ⟨l', u', rfl, e, hu'⟩ | ⟨a, C, rfl, e, _⟩
  · cases e; exact (iuseOK_of hu').2
  · cases e
  · cases e

/-- the characters of the uses (all but the line feeds of the hard breaks), and their numeric references -/
theorem b_chars : ∀ (ls : List BIt) (gs : List BUse), BsW ls gs → ∀ (m n0 : Nat),
    ('<' ∉ bStage ESC 0 false m n0 gs → ∀ ch ∈ bStage ESC 0 false m n0 gs, ch ≠ '\n' → DocParse2.okCh ch) ∧
      refsClosed (bStage ESC 0 false m n0 gs) = true := by
  intro ls
  induction ls with
  | nil =>
    intro gs h m n0
    cases gs with
    | nil => exact ⟨fun _ ch hch => by simp [bStage] at hch, rfl⟩
    | cons _ _ => exact absurd h (by simp [BsW])
  | cons l r ih =>
    intro gs h m n0
    cases gs with
    | nil => exact absurd h (by simp [BsW])
    | cons u us =>
      rw [bsW_cons] at h
      obtain ⟨hg, hr⟩ := h
      rcases bW_cases hg with ⟨l', u', rfl, rfl, hu⟩ | ⟨l', u', rfl, rfl, hu⟩ | ⟨a, C, rfl, rfl, hu, _⟩
      · obtain ⟨i1, i2⟩ := ih us hr (m + u'.T.escs ESC + u'.C.escs ESC) (n0 + u'.T.cnt 0 + u'.C.cnt 0)
        rw [bStage0_lk]
        constructor
        · intro hlt ch hch _
          simp only [List.mem_append, List.mem_cons, List.not_mem_nil, or_false] at hch hlt
          rcases hch with rfl | hch | (rfl | rfl) | hch | rfl | hch | hch
          · exact okCh_lit _ (Or.inl rfl)
          · exact hu.T.chars ch hch
          · exact okCh_lit _ (Or.inr (Or.inl rfl))
          · exact okCh_lit _ (Or.inr (Or.inr (Or.inl rfl)))
          · exact destSrc_chars hu.dest ch hch (fun e => hlt (by subst e; simp [hch]))
          · exact okCh_lit _ (Or.inr (Or.inr (Or.inr rfl)))
          · exact hu.C.chars ch hch
          · exact i1 (fun hm => hlt (by simp [hm])) ch hch ‹_›
        · apply refsClosed_noamp_append _ _ (by decide)
          apply hu.T.refs
          apply refsClosed_noamp_append _ _ (by decide)
          apply refsClosed_noamp_append _ _ hu.amp
          apply refsClosed_noamp_append _ _ (by decide)
          exact hu.C.refs _ i2
      · obtain ⟨i1, i2⟩ := ih us hr (m + u'.C.escs ESC) (n0 + u'.C.cnt 0)
        rw [bStage0_im]
        constructor
        · intro hlt ch hch _
          simp only [List.mem_append, List.mem_cons, List.not_mem_nil, or_false] at hch hlt
          rcases hch with (rfl | rfl) | hch | (rfl | rfl) | hch | rfl | hch | hch
          · exact okCh_bang
          · exact okCh_lit _ (Or.inl rfl)
          · exact okCh_alnumSp (hu.altCh ch (by rw [← hu.alt]; exact hch))
          · exact okCh_lit _ (Or.inr (Or.inl rfl))
          · exact okCh_lit _ (Or.inr (Or.inr (Or.inl rfl)))
          · exact destSrc_chars hu.dest ch hch (fun e => hlt (by subst e; simp [hch]))
          · exact okCh_lit _ (Or.inr (Or.inr (Or.inr rfl)))
          · exact hu.C.chars ch hch
          · exact i1 (fun hm => hlt (by simp [hm])) ch hch ‹_›
        · apply refsClosed_noamp_append _ _ (by decide)
          apply refsClosed_noamp_append _ _ hu.altAmp
          apply refsClosed_noamp_append _ _ (by decide)
          apply refsClosed_noamp_append _ _ hu.amp
          apply refsClosed_noamp_append _ _ (by decide)
          exact hu.C.refs _ i2
      · obtain ⟨i1, i2⟩ := ih us hr (m + C.escs ESC) (n0 + C.cnt 0)
        rw [bStage0_br]
        constructor
        · intro hlt ch hch hnl
          simp only [List.mem_append] at hch hlt
          rcases hch with hch | hch | hch
          · have : ch = ' ' ∨ ch = '\n' := by simpa [brS] using hch
            rcases this with e | e
            · rw [e]; exact okCh_space.1
            · exact absurd e hnl
          · exact hu.chars ch hch
          · exact i1 (fun hm => hlt (by simp [hm])) ch hch hnl
        · apply refsClosed_noamp_append _ _ (by decide)
          exact hu.refs _ i2

/-- `[text](dest "title")` / `![alt](dest "title")` / two spaces and a line feed -/
def bSrc : BUse → Str
  | .lk u => '[' :: (u.T.raw ESC ++ closerI u)
  | .im u => openerM u
  | .br _ => brS

/-- the uses with the content after each, as printed -/
def bFlat : List BUse → Str
  | [] => []
  | g :: r => bSrc g ++ (g.C.raw ESC ++ bFlat r)

theorem bStage0_eq : ∀ (gs : List BUse) (m n0 : Nat), bStage ESC 0 false m n0 gs = bFlat gs := by
  intro gs
  induction gs with
  | nil => intro m n0; rfl
  | cons g r ih =>
    intro m n0
    cases g <;> simp [bStage, BUse.head, bSrc, bFlat, Chunk.stage_raw, ih]

theorem bFlat_lk (u : IUse) (us : List BUse) :
    bFlat (.lk u :: us) =
      ['['] ++ (u.T.raw ESC ++ ([']', '('] ++ (destSrc u.url u.dtitle ++ ([')'] ++ (u.C.raw ESC ++ bFlat us))))) := by
  simp [bFlat, bSrc, BUse.C, closerI]

theorem bFlat_im (u : DocImg.MUse) (us : List BUse) :
    bFlat (.im u :: us) =
      ['!', '['] ++ (u.alt ++ ([']', '('] ++ (destSrc u.url u.dtitle ++ ([')'] ++ (u.C.raw ESC ++ bFlat us))))) := by
  simp [bFlat, bSrc, BUse.C, openerM, closerM]

theorem bFlat_br (C : Chunk) (us : List BUse) : bFlat (.br C :: us) = brS ++ (C.raw ESC ++ bFlat us) := rfl

/-- the rest of the current line: up to the next hard break, whose two spaces end the line -/
def bRest : List BUse → Str
  | [] => []
  | .br _ :: _ => [' ', ' ']
  | .lk u :: r => bSrc (.lk u) ++ (u.C.raw ESC ++ bRest r)
  | .im u :: r => bSrc (.im u) ++ (u.C.raw ESC ++ bRest r)

/-- the further lines: one per hard break -/
def bMore : List BUse → List Str
  | [] => []
  | .br C :: r => (C.raw ESC ++ bRest r) :: bMore r
  | .lk _ :: r => bMore r
  | .im _ :: r => bMore r

/-- the lines of the printed paragraph -/
def bLines (C0 : Chunk) (gs : List BUse) : List Str := (C0.raw ESC ++ bRest gs) :: bMore gs

theorem bRest_lk (u : IUse) (us : List BUse) :
    bRest (.lk u :: us) =
      ['['] ++ (u.T.raw ESC ++ ([']', '('] ++ (destSrc u.url u.dtitle ++ ([')'] ++ (u.C.raw ESC ++ bRest us))))) := by
  simp [bRest, bSrc, closerI]

theorem bRest_im (u : DocImg.MUse) (us : List BUse) :
    bRest (.im u :: us) =
      ['!', '['] ++ (u.alt ++ ([']', '('] ++ (destSrc u.url u.dtitle ++ ([')'] ++ (u.C.raw ESC ++ bRest us))))) := by
  simp [bRest, bSrc, openerM, closerM]

theorem joinLines_bLines : ∀ (gs : List BUse) (X : Str),
    joinLines ((X ++ bRest gs) :: bMore gs) = X ++ bFlat gs := by
  intro gs
  induction gs with
  | nil => intro X; simp [bRest, bMore, bFlat, joinLines_single]
  | cons g r ih =>
    intro X
    cases g with
    | lk u =>
      have := ih (X ++ (bSrc (.lk u) ++ u.C.raw ESC))
      simpa [bRest, bMore, bFlat, BUse.C, List.append_assoc] using this
    | im u =>
      have := ih (X ++ (bSrc (.im u) ++ u.C.raw ESC))
      simpa [bRest, bMore, bFlat, BUse.C, List.append_assoc] using this
    | br C =>
      have := ih (C.raw ESC)
      simp only [bRest, bMore, joinLines_cons_cons, this, bFlat_br, brS, List.append_assoc, List.cons_append,
        List.nil_append]

theorem lineLinksOKAux_tail {b : Bool} {x : DocSpec.Inline} {r : List DocSpec.Inline}
    (h : lineLinksOKAux b (x :: r) = true) : lineLinksOKAux (isBr x) r = true := by
  simp only [lineLinksOKAux, Bool.and_eq_true] at h; exact h.2

theorem lineLinksOKAux_mid : ∀ (A : List DocSpec.Inline) (b : Bool) (x : DocSpec.Inline) (X : List DocSpec.Inline),
    lineLinksOKAux b (A ++ x :: X) = true → lineLinksOKAux (isBr x) X = true := by
  intro A
  induction A with
  | nil => intro b x X h; exact lineLinksOKAux_tail h
  | cons a A ih => intro b x X h; exact ih _ x X (lineLinksOKAux_tail h)

theorem lineLinksOKAux_link {c : List DocSpec.Inline} {d : Str} {t : Option Str} {X : List DocSpec.Inline}
    (h : lineLinksOKAux true (.link c d t :: X) = true) : c.all noBracketItem = true := by
  simp only [lineLinksOKAux, Bool.and_eq_true] at h
  simpa using h.1

theorem endsOk_cons_cons (a b : DocSpec.Inline) (r : List DocSpec.Inline) : endsOk (a :: b :: r) = endsOk (b :: r) := by
  cases a <;> rfl

theorem endsOk_append_br : ∀ (A : List DocSpec.Inline), endsOk (A ++ [.br]) = false := by
  intro A
  induction A with
  | nil => rfl
  | cons a A ih =>
    cases A with
    | nil => exact endsOk_cons_cons a .br []
    | cons b A' => rw [List.cons_append, List.cons_append, endsOk_cons_cons, ← List.cons_append]; exact ih

theorem joinB_ne (A : List DocSpec.Inline) (l : BIt) (r : List BIt) : joinB A (l :: r) ≠ [] := by
  simp [joinB]

theorem joinB_head (x : DocSpec.Inline) (A : List DocSpec.Inline) (r : List BIt) : ∃ R, joinB (x :: A) r = x :: R := by
  cases r with
  | nil => exact ⟨A, rfl⟩
  | cons l r => exact ⟨_, rfl⟩

theorem startsOk_of_notSpace (x : DocSpec.Inline) (R : List DocSpec.Inline) (h : startsSpace x = false) :
    startsOk (x :: R) = true := by
  cases x with
  | text w => simpa [startsSpace, startsOk] using h
  | br => simp [startsSpace] at h
  | _ => rfl

theorem okAdjacent_br {x : DocSpec.Inline} {R : List DocSpec.Inline} (h : okAdjacents (.br :: x :: R) = true) :
    startsSpace x = false := by
  simp only [okAdjacents, okAdjacent, isBr, Bool.and_eq_true, Bool.true_and, Bool.not_eq_true'] at h
  exact h.1.1.1.2

/-- the start of a line: the content, or — when there is none — an image, or a link without brackets in its text -/
theorem lineStart_of {A : List DocSpec.Inline} {C : Chunk} (hW : ChunkW A C) {ls : List BIt} {gs : List BUse}
    (hL : BsW ls gs) (h1 : A ≠ [] → startsOk A = true)
    (h2 : A = [] → ∃ l r, ls = l :: r ∧ (∀ a, l ≠ .br a) ∧ ∀ l', l = .lk l' → l'.text.all noBracketItem = true) :
    LinkLineStart (C.raw ESC ++ bRest gs) := by
  cases A with
  | cons a A' => exact Or.inl (hW.start (h1 (by simp)) _)
  | nil =>
    obtain ⟨l, r, rfl, hnb, hnk⟩ := h2 rfl
    cases gs with
    | nil => exact absurd hL (by simp [BsW])
    | cons u us =>
      rw [bsW_cons] at hL
      rw [chunkW_nil hW, List.nil_append]
      rcases bW_cases hL.1 with ⟨l', u', rfl, rfl, hu⟩ | ⟨l', u', rfl, rfl, hu⟩ | ⟨a, C', rfl, rfl, _, _⟩
      · right
        refine ⟨u'.T.raw ESC, destSrc u'.url u'.dtitle ++ (')' :: (u'.C.raw ESC ++ bRest us)), ?_,
          hu.T.nobr (hnk _ rfl)⟩
        rw [bRest_lk]; simp
      · left
        refine ⟨'!', '[' :: (u'.alt ++ (']' :: '(' :: (destSrc u'.url u'.dtitle ++ (')' ::
          (u'.C.raw ESC ++ bRest us))))), ?_, by decide, by decide, Or.inl (by decide)⟩
        rw [bRest_im]; simp
      · exact absurd rfl (hnb a)

/-- the rest of the current line and every further line -/
theorem b_lines_ind : ∀ (ls : List BIt) (gs : List BUse), BsW ls gs → ∀ (A : List DocSpec.Inline) (b : Bool),
    okAdjacents (joinB A ls) = true → lineLinksOKAux b (joinB A ls) = true →
    (ls ≠ [] → endsOk (joinB A ls) = true) → '<' ∉ bFlat gs →
    ((∀ ch ∈ bRest gs, DocParse2.okCh ch) ∧ refsClosed (bRest gs) = true) ∧
      ∀ l ∈ bMore gs, (∀ ch ∈ l, DocParse2.okCh ch) ∧ refsClosed l = true ∧ LinkLineStart l := by
  intro ls
  induction ls with
  | nil =>
    intro gs h A b _ _ _ _
    cases gs with
    | nil => exact ⟨⟨fun ch hch => (by cases hch), rfl⟩, fun l hl => (by cases hl)⟩
    | cons _ _ => exact absurd h (by simp [BsW])
  | cons l r ih =>
    intro gs h A b hadj hll hen hlt
    cases gs with
    | nil => exact absurd h (by simp [BsW])
    | cons u us =>
      rw [bsW_cons] at h
      obtain ⟨hg, hr⟩ := h
      have hen' : endsOk (A ++ l.toInline :: joinB l.after r) = true := hen (by simp)
      have hadj' : okAdjacents (l.toInline :: joinB l.after r) = true := okAdjacents_suffix A _ hadj
      have hadj2 : okAdjacents (joinB l.after r) = true := okAdjacents_tail hadj'
      have hll2 : lineLinksOKAux (isBr l.toInline) (joinB l.after r) = true := lineLinksOKAux_mid A b _ _ hll
      have hen2 : r ≠ [] → endsOk (joinB l.after r) = true := by
        intro hne
        cases r with
        | nil => exact absurd rfl hne
        | cons l2 r2 => exact endsOk_suffix A _ _ (joinB_ne _ _ _) hen'
      have hlt2 : '<' ∉ bFlat us := fun hm => hlt (by simp [bFlat, hm])
      obtain ⟨⟨i1, i2⟩, i3⟩ := ih us hr l.after (isBr l.toInline) hadj2 hll2 hen2 hlt2
      rcases bW_cases hg with ⟨l', u', rfl, rfl, hu⟩ | ⟨l', u', rfl, rfl, hu⟩ | ⟨a, C, rfl, rfl, hu, hv⟩
      · refine ⟨⟨?_, ?_⟩, i3⟩
        · rw [bFlat_lk] at hlt
          rw [bRest_lk]
          intro ch hch
          simp only [List.mem_append, List.mem_cons, List.not_mem_nil, or_false] at hch hlt
          rcases hch with rfl | hch | (rfl | rfl) | hch | rfl | hch | hch
          · exact okCh_lit _ (Or.inl rfl)
          · exact hu.T.chars ch hch
          · exact okCh_lit _ (Or.inr (Or.inl rfl))
          · exact okCh_lit _ (Or.inr (Or.inr (Or.inl rfl)))
          · exact destSrc_chars hu.dest ch hch (fun e => hlt (by subst e; simp [hch]))
          · exact okCh_lit _ (Or.inr (Or.inr (Or.inr rfl)))
          · exact hu.C.chars ch hch
          · exact i1 ch hch
        · rw [bRest_lk]
          apply refsClosed_noamp_append _ _ (by decide)
          apply hu.T.refs
          apply refsClosed_noamp_append _ _ (by decide)
          apply refsClosed_noamp_append _ _ hu.amp
          apply refsClosed_noamp_append _ _ (by decide)
          exact hu.C.refs _ i2
      · refine ⟨⟨?_, ?_⟩, i3⟩
        · rw [bFlat_im] at hlt
          rw [bRest_im]
          intro ch hch
          simp only [List.mem_append, List.mem_cons, List.not_mem_nil, or_false] at hch hlt
          rcases hch with (rfl | rfl) | hch | (rfl | rfl) | hch | rfl | hch | hch
          · exact okCh_bang
          · exact okCh_lit _ (Or.inl rfl)
          · exact okCh_alnumSp (hu.altCh ch (by rw [← hu.alt]; exact hch))
          · exact okCh_lit _ (Or.inr (Or.inl rfl))
          · exact okCh_lit _ (Or.inr (Or.inr (Or.inl rfl)))
          · exact destSrc_chars hu.dest ch hch (fun e => hlt (by subst e; simp [hch]))
          · exact okCh_lit _ (Or.inr (Or.inr (Or.inr rfl)))
          · exact hu.C.chars ch hch
          · exact i1 ch hch
        · rw [bRest_im]
          apply refsClosed_noamp_append _ _ (by decide)
          apply refsClosed_noamp_append _ _ hu.altAmp
          apply refsClosed_noamp_append _ _ (by decide)
          apply refsClosed_noamp_append _ _ hu.amp
          apply refsClosed_noamp_append _ _ (by decide)
          exact hu.C.refs _ i2
      · refine ⟨⟨?_, (by decide : refsClosed [' ', ' '] = true)⟩, ?_⟩
        · intro ch hch
          have : ch = ' ' := by simpa [bRest] using hch
          rw [this]; exact okCh_space.1
        · intro ln hln
          rcases List.mem_cons.1 hln with rfl | hln
          · refine ⟨?_, hu.refs _ i2, ?_⟩
            · intro ch hch
              rcases List.mem_append.1 hch with hch | hch
              · exact hu.chars ch hch
              · exact i1 ch hch
            · have hadjb : okAdjacents (DocSpec.Inline.br :: joinB a r) = true := hadj'
              have hllb : lineLinksOKAux true (joinB a r) = true := hll2
              apply lineStart_of hu hr
              · intro hne
                cases a with
                | nil => exact absurd rfl hne
                | cons x a' =>
                  obtain ⟨R, hR⟩ := joinB_head x a' r
                  rw [hR] at hadjb
                  exact startsOk_of_notSpace x a' (okAdjacent_br hadjb)
              · intro ha
                subst ha
                cases r with
                | nil =>
                  have : endsOk (A ++ [DocSpec.Inline.br]) = true := hen'
                  rw [endsOk_append_br] at this
                  cases this
                | cons l2 r2 =>
                  refine ⟨l2, r2, rfl, ?_, ?_⟩
                  · intro a2 e
                    subst e
                    have : okAdjacents (DocSpec.Inline.br :: DocSpec.Inline.br :: joinB a2 r2) = true := hadjb
                    have := okAdjacent_br this
                    simp [startsSpace] at this
                  · intro l' e
                    subst e
                    exact lineLinksOKAux_link (X := joinB l'.after r2) hllb
          · exact i3 ln hln

theorem bStage0_head (m n0 : Nat) (u : BUse) (us : List BUse) :
    ∀ ch, (bStage ESC 0 false m n0 (u :: us)).head? = some ch → isDecimal ch = false ∧ ch ≠ '.' := by
  intro ch hch
  cases u with
  | lk u' =>
    rw [bStage0_lk] at hch
    simp at hch
    subst hch; exact ⟨by decide, by decide⟩
  | im u' =>
    rw [bStage0_im] at hch
    simp at hch
    subst hch; exact ⟨by decide, by decide⟩
  | br C =>
    rw [bStage0_br] at hch
    simp [brS] at hch
    subst hch; exact ⟨by decide, by decide⟩

theorem joinLines_bLines_raw (C0 : Chunk) (gs : List BUse) : joinLines (bLines C0 gs) = bRaw ESC C0 gs := by
  rw [bLines, joinLines_bLines, bRaw, bStage0_eq]

/-- everything the block stage and the preprocessors need of the printed paragraph: its lines -/
theorem b_para_facts (A : List DocSpec.Inline) (ls : List BIt) (C0 : Chunk) (gs : List BUse) (hW : ChunkW A C0)
    (hL : BsW ls gs) (hne : ls ≠ []) (hst : startsOk (joinB A ls) = true)
    (hll : lineLinksOK (joinB A ls) = true) (hadj : okAdjacents (joinB A ls) = true)
    (hen : endsOk (joinB A ls) = true) (hlt : '<' ∉ bRaw ESC C0 gs) :
    ∃ Ls : List Str, Ls ≠ [] ∧ joinLines Ls = bRaw ESC C0 gs ∧ splitC '\n' (bRaw ESC C0 gs) = Ls ∧
      (∀ l ∈ Ls, (∀ ch ∈ l, DocParse2.okCh ch) ∧ refsClosed l = true ∧ LinkLineStart l) ∧
      olMarker (bRaw ESC C0 gs) = none := by
  have hltu : '<' ∉ bFlat gs := fun hm => hlt (by simp [bRaw, bStage0_eq, hm])
  obtain ⟨⟨i1, i2⟩, i3⟩ := b_lines_ind ls gs hL A true hadj hll (fun _ => hen) hltu
  have hfacts : ∀ l ∈ bLines C0 gs, (∀ ch ∈ l, DocParse2.okCh ch) ∧ refsClosed l = true ∧ LinkLineStart l := by
    intro ln hln
    rcases List.mem_cons.1 hln with rfl | hln
    · refine ⟨?_, hW.refs _ i2, ?_⟩
      · intro ch hch
        rcases List.mem_append.1 hch with hch | hch
        · exact hW.chars ch hch
        · exact i1 ch hch
      · apply lineStart_of hW hL
        · intro hA
          cases A with
          | nil => exact absurd rfl hA
          | cons x A' =>
            obtain ⟨R, hR⟩ := joinB_head x A' ls
            rw [hR] at hst
            cases x <;> first | rfl | exact hst
        · intro hA
          subst hA
          cases ls with
          | nil => exact absurd rfl hne
          | cons l r =>
            refine ⟨l, r, rfl, ?_, ?_⟩
            · intro a e
              subst e
              have : startsOk (DocSpec.Inline.br :: joinB a r) = true := hst
              simp [startsOk] at this
            · intro l' e
              subst e
              exact lineLinksOKAux_link (X := joinB l'.after r) hll
    · exact i3 ln hln
  have hnl : ∀ l ∈ bLines C0 gs, '\n' ∉ l := fun l hl hm => ((hfacts l hl).1 _ hm).1 rfl
  have hj := joinLines_bLines_raw C0 gs
  refine ⟨bLines C0 gs, by simp [bLines], hj, ?_, hfacts, ?_⟩
  · rw [← hj]; exact splitC_joinLines _ (by simp [bLines]) hnl
  · cases gs with
    | nil =>
      cases ls with
      | nil => exact absurd rfl hne
      | cons _ _ => exact absurd hL (by simp [BsW])
    | cons u us => exact hW.ol _ (bStage0_head 0 0 u us)

/-! ### 5. the specification side -/

theorem bOut_spec : ∀ (ls : List BIt) (gs : List BUse), BsW ls gs → ∀ (A : List DocSpec.Inline) (C0 : Chunk),
    ChunkW A C0 → C0.out ++ bOutS gs = specInlines (joinB A ls) := by
  intro ls
  induction ls with
  | nil =>
    intro gs h A C0 hW
    cases gs with
    | nil => simp [bOutS_nil, joinB, hW.out]
    | cons _ _ => exact absurd h (by simp [BsW])
  | cons l r ih =>
    intro gs h A C0 hW
    cases gs with
    | nil => exact absurd h (by simp [BsW])
    | cons u us =>
      rw [bsW_cons] at h
      have ihr := ih us h.2 l.after u.C (bW_C h.1)
      rcases bW_cases h.1 with ⟨l', u', rfl, rfl, hu⟩ | ⟨l', u', rfl, rfl, hu⟩ | ⟨a, C, rfl, rfl, hu, _⟩
      · have hl := link_spec hu
        have ihr' : u'.C.out ++ bOutS us = specInlines (joinB l'.after r) := ihr
        rw [joinB_lk, specInlines_append, specInlines_cons, ← ihr', ← hl, hW.out, bOutS_cons]
        simp [bOutU, List.append_assoc]
      · have hl := img_spec hu
        have ihr' : u'.C.out ++ bOutS us = specInlines (joinB l'.after r) := ihr
        rw [joinB_im, specInlines_append, specInlines_cons, ← ihr', ← hl, hW.out, bOutS_cons]
        simp [bOutU, List.append_assoc]
      · have ihr' : C.out ++ bOutS us = specInlines (joinB a r) := ihr
        rw [joinB_br, specInlines_append, specInlines_cons, ← ihr', specInline_br, hW.out, bOutS_cons]
        simp [bOutU, List.append_assoc]

/-! ### 6. from the grammar and well-formedness to the conditions on the parts -/

/-- the conditions on an item -/
def ItemOKB : DocSpec.Inline → Prop
  | .br => True
  | .link t d ti => mixOK t = true ∧ startsOk t = true ∧ (∀ q, DestOK d (dtitleOf q ti)) ∧ (∀ c ∈ d, AttrPlain c) ∧
      ∀ t', ti = some t' → ∀ c ∈ t', AttrPlain c
  | .image al d ti => (∀ c ∈ al, isAlnumSp c = true) ∧ (∀ q, DestOK d (dtitleOf q ti)) ∧ (∀ c ∈ d, AttrPlain c) ∧
      ∀ t', ti = some t' → ∀ c ∈ t', AttrPlain c
  | x => mixItemsOK [x] = true

theorem itemOKB_of_wf (x : DocSpec.Inline) (hp : isLinkImgBrItem x = true)
    (hw : wfInline false .none true x = true) : ItemOKB x := by
  cases x with
  | br => trivial
  | link t d ti => exact itemOKG_of_wf (.link t d ti) true hp hw
  | image al d ti => exact itemOKG_of_wf (.image al d ti) true hp hw
  | text w => exact itemOKG_of_wf (.text w) true hp hw
  | esc c => exact itemOKG_of_wf (.esc c) true hp hw
  | code b => exact itemOKG_of_wf (.code b) true hp hw
  | em l => exact itemOKG_of_wf (.em l) true hp hw
  | strong l => exact itemOKG_of_wf (.strong l) true hp hw
  | autolink u => exact itemOKG_of_wf (.autolink u) true hp hw

/-- the parts of content whose items are fine -/
theorem split_factsB (c : List DocSpec.Inline) :
    (∀ x ∈ c, ItemOKB x) → okAdjacents c = true → noBsBeforeCode c = true →
      mixOK (bSplit c).1 = true ∧ ∀ l ∈ (bSplit c).2, BItOK l := by
  induction c with
  | nil => intro _ _ _; exact ⟨rfl, fun l hl => by cases hl⟩
  | cons x r ih =>
    intro hit hadj hnb
    obtain ⟨i1, i2⟩ := ih (fun y hy => hit y (List.mem_cons_of_mem _ hy)) (okAdjacents_tail hadj) (noBs_tail hnb)
    have hx := hit x List.mem_cons_self
    by_cases hl : isUseB x = true
    · rcases isUseB_cases x hl with ⟨t, d, ti, rfl⟩ | ⟨al, d, ti, rfl⟩ | rfl
      · rw [bSplit_link]
        obtain ⟨h1, h2, h3, h4, h5⟩ := hx
        refine ⟨rfl, fun l hl' => ?_⟩
        rcases List.mem_cons.1 hl' with rfl | hl'
        · show LinkOK ⟨t, d, ti, (bSplit r).1⟩
          exact ⟨h1, h2, i1, h3, h4, h5⟩
        · exact i2 l hl'
      · rw [bSplit_image]
        obtain ⟨h1, h3, h4, h5⟩ := hx
        refine ⟨rfl, fun l hl' => ?_⟩
        rcases List.mem_cons.1 hl' with rfl | hl'
        · show ImgOK ⟨al, d, ti, (bSplit r).1⟩
          exact ⟨h1, i1, h3, h4, h5⟩
        · exact i2 l hl'
      · rw [bSplit_br]
        refine ⟨rfl, fun l hl' => ?_⟩
        rcases List.mem_cons.1 hl' with rfl | hl'
        · refine ⟨i1, fun y hy => ?_⟩
          obtain ⟨T, hT⟩ := bSplit_prefix r
          cases hs : (bSplit r).1 with
          | nil => rw [hs] at hy; cases hy
          | cons z zs =>
            rw [hs] at hy hT
            have : z = y := by simpa using hy
            subst this
            rw [hT, List.cons_append] at hadj
            exact okAdjacent_br hadj
        · exact i2 l hl'
    · have hl' : isUseB x = false := by simpa using hl
      rw [bSplit_other x r hl']
      refine ⟨?_, i2⟩
      obtain ⟨T, hT⟩ := bSplit_prefix r
      have hxi : mixItemsOK [x] = true := by
        cases x <;> first | exact hx | simp [isUseB] at hl'
      have e : x :: r = (x :: (bSplit r).1) ++ T := by rw [List.cons_append, ← hT]
      have ha := okAdjacents_prefix _ _ (e ▸ hadj)
      have hn := noBs_prefix _ _ (e ▸ hnb)
      simp only [mixOK, Bool.and_eq_true] at i1 ⊢
      exact ⟨⟨by rw [mixItemsOK_cons, hxi, i1.1.1]; rfl, ha⟩, hn⟩

theorem isUseI_of_isUseB {x : DocSpec.Inline} (h : isUseB x = false) : isUseI x = false := by
  cases x <;> simp_all [isUseB, isUseI]

theorem brItem_of_bItem (x : DocSpec.Inline) (h : isLinkImgBrItem x = true) (hl : isUseB x = false ∨ x = .br) :
    isBrItem x = true := by
  rcases hl with hl | rfl
  · have hi := isUseI_of_isUseB hl
    cases x with
    | br => simp [isUseB] at hl
    | link t d ti => exact brItem_of_gItem _ h hi
    | image al d ti => exact brItem_of_gItem _ h hi
    | text w => exact brItem_of_gItem _ h hi
    | esc c => exact brItem_of_gItem _ h hi
    | code b => exact brItem_of_gItem _ h hi
    | em l => exact brItem_of_gItem _ h hi
    | strong l => exact brItem_of_gItem _ h hi
    | autolink u => exact brItem_of_gItem _ h hi
  · rfl

/-- an item that is neither a link nor an image is an item of `BrDoc` -/
theorem brItem_of_noLinkImg (x : DocSpec.Inline) (h : isLinkImgBrItem x = true) (hl : isUseI x = false) :
    isBrItem x = true := by
  cases x with
  | br => rfl
  | link t d ti => exact brItem_of_gItem _ h hl
  | image al d ti => exact brItem_of_gItem _ h hl
  | text w => exact brItem_of_gItem _ h hl
  | esc c => exact brItem_of_gItem _ h hl
  | code b => exact brItem_of_gItem _ h hl
  | em l => exact brItem_of_gItem _ h hl
  | strong l => exact brItem_of_gItem _ h hl
  | autolink u => exact brItem_of_gItem _ h hl

/-- content of `mixedBrRun` without links and images is content of `BrDoc` -/
theorem noLinkImg_brRun (c : List DocSpec.Inline) (h : mixedBrRun c = true) (hno : ∀ x ∈ c, isUseI x = false) :
    brRun c = true := by
  simp only [mixedBrRun, Bool.and_eq_true, List.all_eq_true] at h
  simp only [brRun, Bool.and_eq_true, List.all_eq_true]
  exact ⟨fun x hx => brItem_of_noLinkImg x (h.1.1 x hx) (hno x hx), h.1.2⟩

end MdVerif.DocMixB
