/-
Helper lemmas for `Props/C16RenderG.lean`, part 4: the inline tree processor (`InlineX.runX`) on the document
`div > p(line with references), div.footnote` — any number of references, any number of footnotes.

Core Lean only.
-/
import MdVerif.Lemmas.RenderGPP

namespace MdVerif.RenderG
open Py Block BlockExt MdVerif.RenderX Inline InlineX

/-- the `sup` elements with their tails: the children of the paragraph after the inline stage -/
def supKids (items : List (Node × Str)) : List Node := items.map (fun it => withTail it.1 it.2)

/-- the paragraph visited as a child of the root -/
theorem visitChildX_refs (ic : Inline.Cfg) (T : List PatK) (nlb : Bool) (hT : FnTab T nlb) (keys : List Str) (t : Str)
    (segs : List (Str × Str)) (ht : PlainFacts t)
    (hs : SegsOK segs) (hk : ∀ s ∈ segs, keys.contains s.1 = true) (v : VisitX) :
    visitChildX (fnXcG ic T keys) (mkText "p" (fnPara t segs)) v =
      some ({ mkText "p" t with children := supKids (refItems keys segs v.x.fn).1 }, [],
        { v with pushes := ((List.range segs.length).map (fun k => [v.done.length, k])).reverse ++ v.pushes,
                 x := { st := { v.x.st with stash := v.x.st.stash ++
                                  (refItems keys segs v.x.fn).1.map (fun it => .node it.1) },
                        fn := (refItems keys segs v.x.fn).2 } }) := by
  have h1 := handleInlineTopX_refs ic T nlb hT keys t segs ht hs hk v.x.st v.x.fn
  have hL := paraLine_fnPara t segs ht hs
  have hI := itemsOK_refItems keys segs v.x.fn hs
  have h2 := ppTop_items
    { stash := v.x.st.stash ++ (refItems keys segs v.x.fn).1.map (fun it => .node it.1), html := v.x.st.html } t
    (refItems keys segs v.x.fn).1
    { mkText "p" (fnPara t segs) with text := none, textAtomic := false } v.x.st.stash.length ht.ne ht.noStx hI
    (by
      intro k it hkit
      simp only
      rw [List.getElem?_append_right (by omega)]
      simp [hkit])
    rfl rfl
  have hlen : (supKids (refItems keys segs v.x.fn).1).length = segs.length := by
    simp [supKids, refItems_length]
  unfold visitChildX
  have htr : Node.truthy (mkText "p" (fnPara t segs)).text = true := (CodeLaw.truthy_some_iff _).2 hL.ne
  have hx : v.x = { st := v.x.st, fn := v.x.fn } := rfl
  rw [hx]
  simp only [htr, show (mkText "p" (fnPara t segs)).textAtomic = false from rfl, Bool.not_false, Bool.and_self, if_true,
    show (mkText "p" (fnPara t segs)).text.getD [] = fnPara t segs from rfl, h1, h2]
  simp [mkText, Node.el, Node.truthy, supKids, refItems_length]

/-- the document handed to the inline stage -/
def fnDocG (L : Str) (lis : List Node) : Node :=
  { Node.el "div" with children := [mkText "p" L, fnDivG lis] }

/-- … and after the inline stage -/
def fnMidG (t : Str) (sups lis : List Node) : Node :=
  { Node.el "div" with children := [{ mkText "p" t with children := sups }, fnDivG lis] }

/-- quiet text without line feed is quiet also for a table with the nl2br pattern -/
theorem quietStr_nl (nlb : Bool) (s : Str) (h : quietStr false s = true) (hnl : '\n' ∉ s) : quietStr nlb s = true := by
  have hc : s.contains '\n' = false := by
    cases hh : s.contains '\n' with
    | false => rfl
    | true => exact absurd (List.contains_iff_mem.1 hh) hnl
  simp only [quietStr, Bool.and_eq_true, Bool.not_false, Bool.true_or, and_true] at h
  simp only [quietStr, Bool.and_eq_true, hc, Bool.not_false, Bool.or_true, and_true]
  exact h

theorem quietTree_li (nlb : Bool) (id note : Str) (i : Nat) (hn : PlainFacts note) : quietTree nlb (liN id note i) = true := by
  have h1 : quietStr nlb (note ++ FootnotesTree.nbspPlaceholder) = true :=
    quietStr_nl nlb _ (quietStr_nbsp note hn) (by
      intro hm
      rcases List.mem_append.1 hm with h | h
      · exact hn.noNl h
      · exact absurd h (by decide +kernel))
  have h2 : quietStr nlb FootnotesTree.fnBacklinkText = true := by cases nlb <;> decide +kernel
  simp [liN, liP, FootnotesTree.backlink, FootnotesTree.el, quietKids, quietTree, Node.truthy, h1, h2]

theorem quietKids_lis (nlb : Bool) : ∀ (defs : List (Str × Str)) (i : Nat), DefsOK defs →
    quietKids nlb (lisFrom defs i) = true := by
  intro defs
  induction defs with
  | nil => intro i _; rfl
  | cons d r ih =>
    intro i hd
    simp only [lisFrom, quietKids, Bool.and_eq_true]
    exact ⟨quietTree_li nlb d.1 d.2 i (hd.notes d List.mem_cons_self), ih (i + 1) hd.tail⟩

theorem quietKids_fnDivG (nlb : Bool) (lis : List Node) (h : quietKids nlb lis = true) :
    quietKids nlb (fnDivG lis).children = true := by
  simp [fnDivG, FootnotesTree.el, quietKids, quietTree, Node.truthy, h]

theorem quietKids_supG (nlb : Bool) (refId id : Str) (n : Nat) :
    quietKids nlb (supG refId id (natToDec n)).children = true := by
  have hq : quietStr nlb (natToDec n) = true := by
    have hch := natToDec_alnumSp n
    refine quietStr_nl nlb _ ?_ (fun hm => (alnumSp_quiet (hch _ hm)).2.1 rfl)
    simp only [quietStr, Bool.and_eq_true, List.all_eq_true, Option.isNone_iff_eq_none, Bool.not_false, Bool.true_or,
      and_true]
    refine ⟨⟨fun c hc => (alnumSp_quiet (hch c hc)).1, ?_⟩, ?_⟩
    · rw [find_none_iff]
      intro pre post e
      have : '\n' ∈ natToDec n := by rw [e]; simp
      exact (alnumSp_quiet (hch _ this)).2.1 rfl
    · rw [phPrefix_eq]
      exact Escape.find_none_of_head (fun hm => (alnumSp_quiet (hch _ hm)).2.2.1 rfl)
  simp [supG, quietKids, quietTree, Node.truthy, hq]

theorem withTail_children (n : Node) (u : Str) : (withTail n u).children = n.children := by
  unfold withTail; split <;> rfl

theorem size_withTail (n : Node) (u : Str) (h : n.tail = none) : Inline.size (withTail n u) ≤ Inline.size n + u.length := by
  unfold withTail; split
  · omega
  · obtain ⟨tag, attrs, text, ta, children, tail, tla⟩ := n
    simp only at h
    subst h
    simp [Inline.size]
    omega

theorem length_natToDecAux : ∀ (f n : Nat) (acc : Str), (natToDecAux f n acc).length ≤ f + acc.length := by
  intro f
  induction f with
  | zero => intro n acc; simp [natToDecAux]
  | succ f ih =>
    intro n acc
    simp only [natToDecAux]
    split
    · simp; omega
    · have := ih (n / 10) (digitChar n :: acc)
      simp only [List.length_cons] at this
      omega

theorem length_natToDec (n : Nat) : (natToDec n).length ≤ n + 1 := by
  have := length_natToDecAux (n + 1) n []
  simpa [natToDec] using this

theorem indexOf_le (keys : List Str) (id : Str) : indexOf keys id ≤ keys.length := by
  unfold indexOf
  exact (List.takeWhile_sublist _).length_le

theorem size_supG (refId id num : Str) : Inline.size (supG refId id num) = 2 + num.length := by
  simp [supG, Inline.size, Inline.sizeList]; omega

/-- the size of the elements the references become -/
theorem size_refItems (keys : List Str) : ∀ (segs : List (Str × Str)) (fs : Footnotes.State),
    ∀ it ∈ (refItems keys segs fs).1, Inline.size (withTail it.1 it.2) ≤ (refSegs segs).length + keys.length + 4 := by
  intro segs
  induction segs with
  | nil => intro fs it hit; simp [refItems] at hit
  | cons s r ih =>
    intro fs it hit
    simp only [refItems, List.mem_cons] at hit
    rcases hit with rfl | hit
    · have h1 := size_withTail (fnRefNode keys s.1 (Footnotes.footnoteRefId s.1 true fs).1) s.2 (by rw [fnRefNode_eq]; rfl)
      rw [fnRefNode_eq, size_supG] at h1
      have h2 := length_natToDec (indexOf keys s.1 + 1)
      have h3 := indexOf_le keys s.1
      simp only [refSegs, List.length_append]
      rw [fnRefNode_eq]
      omega
    · have := ih _ it hit
      simp only [refSegs, List.length_append]
      omega

theorem size_pos (n : Node) : 1 ≤ Inline.size n := by
  cases n; simp [Inline.size]; omega

theorem length_le_sizeLis : ∀ (defs : List (Str × Str)) (i : Nat), defs.length ≤ Inline.sizeList (lisFrom defs i) := by
  intro defs
  induction defs with
  | nil => intro i; simp
  | cons d r ih =>
    intro i
    have := ih (i + 1)
    have h1 := size_pos (liN d.1 d.2 i)
    simp only [lisFrom, Inline.sizeList, List.length_cons]
    omega

/-- the weight of the paths pushed for the children of the first child of the root -/
theorem mStack_kidpaths (root mid : Node) (h0 : root.children[0]? = some mid)
    (hb : ∀ c ∈ mid.children, CodeLaw.below c = 1) :
    ∀ n, n ≤ mid.children.length →
      CodeLaw.mStack root (((List.range n).map (fun k => [0, k])).reverse) = 2 * n := by
  intro n
  induction n with
  | zero => intro _; simp [CodeLaw.mStack]
  | succ n ih =>
    intro hn
    obtain ⟨c, hc⟩ : ∃ c, mid.children[n]? = some c := by
      cases hx : mid.children[n]? with
      | none => rw [List.getElem?_eq_none_iff] at hx; omega
      | some c => exact ⟨c, rfl⟩
    have hw : CodeLaw.wPath root [0, n] = 2 := by
      simp [CodeLaw.wPath, getAt, h0, hc, hb c (List.mem_of_getElem? hc)]
    simp only [List.range_succ, List.map_append, List.map_cons, List.map_nil, List.reverse_append,
      List.reverse_cons, List.reverse_nil, List.nil_append, List.singleton_append]
    rw [CodeLaw.mStack_cons, hw, ih (by omega)]
    omega

theorem below_withTail (n : Node) (u : Str) : CodeLaw.below (withTail n u) = CodeLaw.below n := by
  rw [CodeLaw.below_eq, CodeLaw.below_eq, withTail_children]

/-- the inline stage -/
theorem runX_fnG (ic : Inline.Cfg) (T : List PatK) (nlb : Bool) (hT : FnTab T nlb) (keys : List Str) (t : Str)
    (segs defs : List (Str × Str)) (ht : PlainFacts t)
    (hs : SegsOK segs) (hk : ∀ s ∈ segs, keys.contains s.1 = true) (hd : DefsOK defs) (hkl : keys.length ≤ defs.length) :
    runX (fnXcG ic T keys) (fnDocG (fnPara t segs) (lisFrom defs 1)) [] =
      some (fnMidG t (supKids (refItems keys segs Footnotes.State.empty).1) (lisFrom defs 1),
        { st := { stash := (refItems keys segs Footnotes.State.empty).1.map (fun it => .node it.1), html := [] },
          fn := (refItems keys segs Footnotes.State.empty).2 }) := by
  have hlenT : 3 ≤ (fnXcG ic T keys).table.length := hT.len
  have hnlT : PatK.nl ∈ (fnXcG ic T keys).table → nlb = true := hT.nlmem
  have hI : ItemsOK (refItems keys segs Footnotes.State.empty).1 := itemsOK_refItems keys segs _ hs
  have hilen : (refItems keys segs Footnotes.State.empty).1.length = segs.length := refItems_length keys segs _
  obtain ⟨g, hg⟩ : ∃ g, runFuel (fnDocG (fnPara t segs) (lisFrom defs 1)) = g + 3 := ⟨runFuel (fnDocG (fnPara t segs) (lisFrom defs 1)) - 3, by simp [runFuel]⟩
  have hv1 := visitChildX_refs ic T nlb hT keys t segs ht hs hk { x := { st := { html := [] } } }
  have hqD : quietNode nlb (fnDivG (lisFrom defs 1)) = true := by simp [quietNode, fnDivG, Node.truthy]
  have hroot : Inline.size (fnDocG (fnPara t segs) (lisFrom defs 1)) = 2 + (fnPara t segs).length + Inline.size (fnDivG (lisFrom defs 1)) := by
    simp only [fnDocG, mkText, Node.el, Inline.size, Inline.sizeList, Option.getD_some, Option.getD_none, List.length_nil]
    omega
  have hdivsz : defs.length + 1 ≤ Inline.size (fnDivG (lisFrom defs 1)) := by
    have := length_le_sizeLis defs 1
    simp [fnDivG, FootnotesTree.el, Inline.size, Inline.sizeList]; omega
  have hsz1 : Inline.size (fnDivG (lisFrom defs 1)) + 1 ≤ runFuel (fnDocG (fnPara t segs) (lisFrom defs 1)) := by
    simp only [runFuel]; omega
  have hrun := runX_root (fnXcG ic T keys) nlb hnlT (by omega) (fnDocG (fnPara t segs) (lisFrom defs 1)) []
    { done := [fnDivG (lisFrom defs 1), { mkText "p" t with children := supKids (refItems keys segs Footnotes.State.empty).1 }], posmap := [(1, 1), (0, 0)],
      pushes := [1] :: (((List.range segs.length).map (fun k => [0, k])).reverse ++ []),
      x := { st := { stash := (refItems keys segs Footnotes.State.empty).1.map (fun it => .node it.1), html := [] },
             fn := (refItems keys segs Footnotes.State.empty).2 } }
    (by
      rw [hg]
      simp only [fnDocG, Node.el, withIdx, visitLoopX, hv1, List.map_nil, List.nil_append]
      rw [visitChildX_quiet (fnXcG ic T keys) nlb hnlT (by omega) (fnDivG (lisFrom defs 1)) _ hqD]
      simp [visitLoopX, fnDivG])
    (by
      intro q hq cur hcur
      simp only [List.mem_cons, List.append_nil, List.mem_reverse, List.mem_map, List.mem_range] at hq
      rcases hq with rfl | ⟨k, hkl, rfl⟩
      · simp only [getAt, List.reverse_cons, List.reverse_nil, List.nil_append, List.cons_append] at hcur
        have : cur = fnDivG (lisFrom defs 1) := by simpa using hcur.symm
        subst this
        exact ⟨quietKids_fnDivG nlb (lisFrom defs 1) (quietKids_lis nlb defs 1 hd), hsz1⟩
      · simp only [getAt, List.reverse_cons, List.reverse_nil, List.nil_append, List.cons_append,
          List.getElem?_cons_zero] at hcur
        have hcur' : (supKids (refItems keys segs Footnotes.State.empty).1)[k]? = some cur := by
          cases hx : (supKids (refItems keys segs Footnotes.State.empty).1)[k]? with
          | none => simp [mkText, hx] at hcur
          | some c => simp [mkText, hx] at hcur; rw [hcur]
        simp only [supKids, List.getElem?_map] at hcur'
        cases hit : (refItems keys segs Footnotes.State.empty).1[k]? with
        | none => simp [hit] at hcur'
        | some it =>
          simp only [hit, Option.map_some, Option.some.injEq] at hcur'
          subst hcur'
          obtain ⟨refId, id, n, e⟩ := hI.sup it (List.mem_of_getElem? hit)
          refine ⟨?_, ?_⟩
          · rw [withTail_children, e]; exact quietKids_supG nlb refId id n
          · have := size_refItems keys segs Footnotes.State.empty it (List.mem_of_getElem? hit)
            have hl : (refSegs segs).length ≤ (fnPara t segs).length := by simp [fnPara]
            simp only [runFuel]; omega)
    (by
      have hb2 : ∀ c ∈ supKids (refItems keys segs Footnotes.State.empty).1, CodeLaw.below c = 1 := by
        intro c hc
        obtain ⟨it, hit, rfl⟩ := List.mem_map.1 hc
        obtain ⟨refId, id, n, e⟩ := hI.sup it hit
        rw [below_withTail, e]
        simp [supG, CodeLaw.below, CodeLaw.belowKids]
      have hlen : (supKids (refItems keys segs Footnotes.State.empty).1).length = segs.length := by simp [supKids, hilen]
      have hk := mStack_kidpaths
        ({ fnDocG (fnPara t segs) (lisFrom defs 1) with children := [fnDivG (lisFrom defs 1), { mkText "p" t with children := supKids (refItems keys segs Footnotes.State.empty).1 }].reverse } : Node)
        ({ mkText "p" t with children := supKids (refItems keys segs Footnotes.State.empty).1 } : Node) rfl hb2 segs.length (by simp [hlen])
      have hw1 : CodeLaw.wPath
          ({ fnDocG (fnPara t segs) (lisFrom defs 1) with children := [fnDivG (lisFrom defs 1), { mkText "p" t with children := supKids (refItems keys segs Footnotes.State.empty).1 }].reverse } : Node) [1] =
          1 + CodeLaw.below (fnDivG (lisFrom defs 1)) := by
        simp [CodeLaw.wPath, getAt]
      have hb1 := CodeLaw.below_le_size (fnDivG (lisFrom defs 1))
      have hl : segs.length ≤ (fnPara t segs).length := by
        have := length_refSegs segs
        simp only [fnPara, List.length_append]; omega
      simp only [List.append_nil]
      rw [CodeLaw.mStack_cons, hw1, hk]
      simp only [runFuel]; omega)
  rw [hrun]
  rfl

end MdVerif.RenderG
