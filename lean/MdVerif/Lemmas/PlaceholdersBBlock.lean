/-
Helper lemmas for C10b (block stage): `Lemmas/PlaceholdersBlock.lean` generalised from a predicate on characters to
a predicate `P` on STRINGS that is closed under taking infixes and under joining with a line feed (`StrDom`).  Every
non-atomic string the block parser stores (text, tail) or hands on (blocks) is an infix of an earlier block or text,
or a newline-join of such; hence `P` of the source text gives `P` of every tail and of every non-atomic text of the
block tree.  Instance: "in the domain and no backslash immediately followed by a backtick" (`strDom_noAdj`).

Structure: the `BNode`/`AtomPre`/references part comes from `Blk` (`Blk.PresPB`, `Blk.*_chars`); only the `P`
clauses are new (`PNode`, `TP`, `PresP`, one `*_strs` lemma per processor, `dispatch_strs`, `parseBlocks_presP`).

Core Lean only.
-/
import MdVerif.Lemmas.PlaceholdersBlock
import MdVerif.Spec.NoCtlB

namespace MdVerif.NoCtl.BlkB
open Py Block Blk

/-- `P`: a property of ordinary (non-atomic) strings, closed under infixes and newline-joins, that implies
    `AllC p` -/
structure StrDom (p q : Char → Bool) (P : Str → Prop) : Prop where
  chars : Blk.CharDom p q
  allc : ∀ s, P s → Blk.AllC p s
  nil : P []
  inf : ∀ s t, P s → t <:+: s → P t
  joinNl : ∀ a b, P a → P b → P (a ++ '\n' :: b)

/-- an element of the block tree: `Blk.BNode` plus `P` of the tail and of a non-atomic text -/
def BNodeP (p q : Char → Bool) (P : Str → Prop) (n : Node) : Prop :=
  Blk.BNode p q n ∧ P (n.tail.getD []) ∧ (n.textAtomic = false → P (n.text.getD []))

/-- the new part of `BNodeP` -/
def PNode (P : Str → Prop) (n : Node) : Prop :=
  P (n.tail.getD []) ∧ (n.textAtomic = false → P (n.text.getD []))

/-- `PNode` at every element -/
def TP (P : Str → Prop) (n : Node) : Prop := n.Forall (PNode P)

/-- `P` of every string of a list -/
def PL (P : Str → Prop) (l : List Str) : Prop := ∀ s ∈ l, P s

/-! ### `P` and the string primitives -/

section strings
variable {p q : Char → Bool} {P : Str → Prop}

theorem pl_nil : PL P [] := by intro s hs; cases hs

theorem pl_cons {s : Str} {l : List Str} : PL P (s :: l) ↔ P s ∧ PL P l := by
  simp [PL]

theorem pl_one {s : Str} (hs : P s) : PL P [s] := pl_cons.2 ⟨hs, pl_nil⟩

theorem pl_append {a b : List Str} : PL P (a ++ b) ↔ PL P a ∧ PL P b := by
  simp only [PL, List.mem_append]
  constructor
  · intro h; exact ⟨fun c hc => h c (Or.inl hc), fun c hc => h c (Or.inr hc)⟩
  · rintro ⟨h1, h2⟩ c (hc | hc)
    · exact h1 c hc
    · exact h2 c hc

theorem PL.mono {a b : List Str} (h : PL P a) (hs : b ⊆ a) : PL P b := fun c hc => h c (hs hc)

theorem StrDom.allL (h : StrDom p q P) {l : List Str} (hl : PL P l) : AllL p l := fun s hs => h.allc s (hl s hs)

theorem StrDom.take (h : StrDom p q P) {s : Str} (hs : P s) (n : Nat) : P (s.take n) :=
  h.inf _ _ hs (List.take_prefix n s).isInfix
theorem StrDom.drop (h : StrDom p q P) {s : Str} (hs : P s) (n : Nat) : P (s.drop n) :=
  h.inf _ _ hs (List.drop_suffix n s).isInfix
theorem StrDom.lstripP (h : StrDom p q P) {s : Str} (hs : P s) (f : Char → Bool) : P (lstripP f s) :=
  h.inf _ _ hs (lstripP_suffix f s).isInfix
theorem StrDom.rstripP (h : StrDom p q P) {s : Str} (hs : P s) (f : Char → Bool) : P (rstripP f s) :=
  h.inf _ _ hs (rstripP_prefix f s).isInfix
theorem StrDom.strip (h : StrDom p q P) {s : Str} (hs : P s) : P (strip s) := h.inf _ _ hs (stripP_infix _ s)
theorem StrDom.lstrip (h : StrDom p q P) {s : Str} (hs : P s) : P (lstrip s) := h.lstripP hs _
theorem StrDom.lstripC (h : StrDom p q P) {s : Str} (hs : P s) (ch : Char) : P (lstripC ch s) := h.lstripP hs _
theorem StrDom.rstripC (h : StrDom p q P) {s : Str} (hs : P s) (ch : Char) : P (rstripC ch s) := h.rstripP hs _

theorem StrDom.joinLines (h : StrDom p q P) : ∀ {l : List Str}, PL P l → P (joinLines l)
  | [], _ => h.nil
  | [a], hl => hl a (by simp)
  | a :: b :: r, hl => by
    have h1 := pl_cons.1 hl
    have ih := h.joinLines h1.2
    simp only [Py.joinLines] at ih ⊢
    rw [join_cons_cons]
    simpa using h.joinNl _ _ h1.1 ih

theorem infix_join_of_mem {sep s : Str} : ∀ {l : List Str}, s ∈ l → s <:+: join sep l
  | [a], hs => by simp at hs; subst hs; exact List.infix_rfl
  | a :: b :: r, hs => by
    rw [join_cons_cons]
    rcases List.mem_cons.1 hs with rfl | hs
    · exact ⟨[], sep ++ join sep (b :: r), by simp⟩
    · obtain ⟨x, y, e⟩ := infix_join_of_mem (sep := sep) hs
      exact ⟨a ++ sep ++ x, y, by rw [← e]; simp⟩

theorem lines_infix {s l : Str} (hl : l ∈ lines s) : l <:+: s := by
  have := infix_join_of_mem (sep := ['\n']) hl
  have e := lines_joinLines s
  simp only [Py.joinLines] at e
  rwa [e] at this

theorem splitS_infix {sep s x : Str} (hsep : sep ≠ []) (hx : x ∈ splitS sep s) : x <:+: s := by
  have := infix_join_of_mem (sep := sep) hx
  rwa [join_splitS hsep] at this

theorem StrDom.lines (h : StrDom p q P) {s : Str} (hs : P s) : PL P (lines s) :=
  fun _ hl => h.inf _ _ hs (lines_infix hl)

theorem StrDom.splitS (h : StrDom p q P) {s : Str} (hs : P s) {sep : Str} (hsep : sep ≠ []) : PL P (splitS sep s) :=
  fun _ hl => h.inf _ _ hs (splitS_infix hsep hl)

theorem StrDom.getD (h : StrDom p q P) {l : List Str} (hl : PL P l) (i : Nat) : P (l.getD i []) := by
  rw [List.getD_eq_getElem?_getD]
  cases hx : l[i]? with
  | none => exact h.nil
  | some s => exact hl s (List.mem_of_getElem? hx)

theorem StrDom.headD (h : StrDom p q P) {l : List Str} (hl : PL P l) : P (l.headD []) := by
  cases l with
  | nil => exact h.nil
  | cons a r => exact hl a (by simp)

theorem pl_map {l : List Str} (hl : PL P l) {f : Str → Str} (hf : ∀ s, P s → P (f s)) : PL P (l.map f) := by
  intro s hs
  obtain ⟨a, ha, rfl⟩ := List.mem_map.1 hs
  exact hf a (hl a ha)

theorem StrDom.detabLines (h : StrDom p q P) (n : Nat) : ∀ {l : List Str}, PL P l →
    PL P (detabLines n l).1 ∧ PL P (detabLines n l).2
  | [], _ => by simp [Block.detabLines, pl_nil]
  | line :: r, hl => by
    have h1 := pl_cons.1 hl
    have ih := h.detabLines n h1.2
    simp only [Block.detabLines]
    split
    · exact ⟨pl_cons.2 ⟨h.drop h1.1 _, ih.1⟩, ih.2⟩
    · split
      · exact ⟨pl_cons.2 ⟨h.nil, ih.1⟩, ih.2⟩
      · exact ⟨pl_nil, hl⟩

theorem StrDom.detab (h : StrDom p q P) (n : Nat) {s : Str} (hs : P s) : P (detab n s).1 ∧ P (detab n s).2 := by
  have := h.detabLines n (h.lines hs)
  simp only [Block.detab]
  exact ⟨h.joinLines this.1, h.joinLines this.2⟩

theorem StrDom.looseDetab (h : StrDom p q P) (tab : Nat) {s : Str} (hs : P s) (level : Nat) :
    P (looseDetab tab s level) := by
  simp only [Block.looseDetab]
  apply h.joinLines
  apply pl_map (h.lines hs)
  intro l hl
  split
  · exact h.drop hl _
  · exact hl

end strings

/-! ### recognisers: what they return is an infix of the block -/

section recognisers
variable {p q : Char → Bool} {P : Str → Prop}

theorem hashHeader_prefix : ∀ (f : Nat) {s h : Str} {n : Nat}, hashHeader f s = some (h, n) → h <+: s
  | 0, _, _, _, hh => by simp [hashHeader] at hh
  | f + 1, s, h, n, hh => by
    simp only [hashHeader] at hh
    split at hh
    · cases hh; exact List.nil_prefix
    · split at hh
      · cases hh
      · next c r =>
        split at hh
        · split at hh
          · next d r' =>
            split at hh
            · cases hh
            · split at hh
              · next h' n' hr =>
                cases hh
                exact List.cons_prefix_cons.2 ⟨rfl, List.cons_prefix_cons.2 ⟨rfl, hashHeader_prefix f hr⟩⟩
              · cases hh
          · cases hh
        · split at hh
          · next h' n' hr =>
            cases hh
            exact List.cons_prefix_cons.2 ⟨rfl, hashHeader_prefix f hr⟩
          · cases hh

theorem hashAt_infix {s : Str} {lv n : Nat} {hd : Str} (h : hashAt s = some (lv, hd, n)) : hd <:+: s := by
  obtain ⟨x, _, _, h3⟩ := firstDown_some h
  split at h3
  · next hd' n' hh =>
    cases h3
    exact (hashHeader_prefix _ hh).isInfix.trans (List.drop_suffix _ _).isInfix
  · cases h3

theorem hashSearchNl_infix {i : Nat} {s : Str} {st en lv : Nat} {hd : Str}
    (h : hashSearchNl i s = some (st, en, lv, hd)) : hd <:+: s := by
  induction s generalizing i with
  | nil => simp [hashSearchNl] at h
  | cons c s ih =>
    simp only [hashSearchNl] at h
    split at h
    · split at h
      · next hh => cases h; exact List.infix_cons (hashAt_infix hh)
      · exact List.infix_cons (ih h)
    · exact List.infix_cons (ih h)

theorem hashSearch_infix {b : Str} {st en lv : Nat} {hd : Str} (h : hashSearch b = some (st, en, lv, hd)) :
    hd <:+: b := by
  simp only [hashSearch] at h
  split at h
  · next hh => cases h; exact hashAt_infix hh
  · exact hashSearchNl_infix h

theorem olMarker_suffix {s m r : Str} (h : olMarker s = some (m, r)) : r <:+ s := by
  simp only [olMarker] at h
  split at h
  · cases h; exact List.drop_suffix _ _
  · cases h

theorem ulMarker_suffix {s m r : Str} (h : ulMarker s = some (m, r)) : r <:+ s := by
  cases s with
  | nil => simp [ulMarker] at h
  | cons c t =>
    simp only [ulMarker] at h
    split at h
    · cases h; exact List.suffix_cons _ _
    · cases h

theorem listItemMatch_infix {tab : Nat} {ol ul : Bool} {s m c : Str} (h : listItemMatch tab ol ul s = some (m, c)) :
    c <:+: s := by
  rw [listItemMatch_eq] at h
  split at h
  · cases h
  · next marker r hm =>
    have hr : r <:+ s := by
      have h0 : afterSp (some (tab - 1)) s <:+ s := List.drop_suffix _ _
      split at hm
      · next m' hm' =>
        cases hm
        split at hm'
        · exact (olMarker_suffix hm').trans h0
        · cases hm'
      · split at hm
        · exact (ulMarker_suffix hm).trans h0
        · cases hm
    split at h
    · cases h
    · cases h
      exact (List.takeWhile_prefix _).isInfix.trans ((List.drop_suffix _ _).trans hr).isInfix

theorem pl_modifyLast {f : Str → Str} {items : List Str} (h : PL P items) (hf : ∀ s, P s → P (f s)) :
    PL P (modifyLast f items) := by
  simp only [modifyLast]
  split
  · next l hl =>
    exact pl_append.2 ⟨h.mono (List.dropLast_subset _), pl_one (hf l (h l (List.mem_of_getLast? hl)))⟩
  · exact h

theorem pl_getItemsStep (h : StrDom p q P) (tab : Nat) {items : List Str} {line : Str} (hi : PL P items)
    (hl : P line) : PL P (getItemsStep tab items line) := by
  have hone : ∀ x : Str, P x → PL P (items ++ [x]) := fun x hx => pl_append.2 ⟨hi, pl_one hx⟩
  have hmod : PL P (modifyLast (fun l => l ++ '\n' :: line) items) :=
    pl_modifyLast hi (fun s hs => h.joinNl _ _ hs hl)
  simp only [getItemsStep]
  split
  · next m content hm => exact hone _ (h.inf _ _ hl (listItemMatch_infix hm))
  · split
    · split
      · split
        · exact hmod
        · exact hone _ hl
      · exact hone _ hl
    · exact hmod

theorem pl_foldl_getItemsStep (h : StrDom p q P) (tab : Nat) : ∀ (ls : List Str) {items : List Str},
    PL P ls → PL P items → PL P (ls.foldl (getItemsStep tab) items)
  | [], _, _, hi => hi
  | l :: t, items, hls, hi => by
    have h1 := pl_cons.1 hls
    exact pl_foldl_getItemsStep h tab t h1.2 (pl_getItemsStep h tab hi h1.1)

theorem StrDom.getItems (h : StrDom p q P) (tab : Nat) {b : Str} (hb : P b) : PL P (getItems tab b) :=
  pl_foldl_getItemsStep h tab _ (h.lines hb) pl_nil

theorem quoteLine_infix {s g : Str} (h : quoteLine s = some g) : g <:+: s := by
  rw [quoteLine_eq] at h
  have h0 : afterSp (some 3) s <:+ s := List.drop_suffix _ _
  split at h
  · next c r hr =>
    rw [hr] at h0
    split at h
    · cases h
      have hr' : r <:+ s := (List.suffix_cons _ _).trans h0
      split
      · next d r' =>
        split
        · exact (List.takeWhile_prefix _).isInfix.trans ((List.suffix_cons _ _).trans hr').isInfix
        · exact (List.takeWhile_prefix _).isInfix.trans hr'.isInfix
      · exact (List.takeWhile_prefix _).isInfix.trans hr'.isInfix
    · cases h
  · cases h

theorem quoteClean_infix (l : Str) : quoteClean l <:+: l := by
  simp only [quoteClean]
  split
  · exact List.nil_infix
  · simp only [quoteMatch]
    split
    · next g hg =>
      split at hg
      · next g' hg' => cases hg; exact quoteLine_infix hg'
      · split at hg
        · split at hg
          · exact List.infix_cons (quoteLine_infix hg)
          · cases hg
        · cases hg
    · exact List.infix_rfl

theorem StrDom.quoteBlock (h : StrDom p q P) {s : Str} (hs : P s) :
    P (Py.joinLines ((Py.lines s).map quoteClean)) :=
  h.joinLines (pl_map (h.lines hs) (fun l hl => h.inf _ _ hl (quoteClean_infix l)))

end recognisers

/-! ### trees -/

section trees
variable {P : Str → Prop}

mutual
theorem forall_and {A B : Node → Prop} : ∀ n : Node, n.Forall A → n.Forall B → n.Forall (fun n => A n ∧ B n)
  | ⟨_, _, _, _, children, _, _⟩, ha, hb => by
    simp only [Node.Forall] at ha hb ⊢
    exact ⟨⟨ha.1, hb.1⟩, forallL_and children ha.2 hb.2⟩
theorem forallL_and {A B : Node → Prop} : ∀ l : List Node, Node.ForallL A l → Node.ForallL B l →
    Node.ForallL (fun n => A n ∧ B n) l
  | [], _, _ => by simp [Node.ForallL]
  | c :: r, ha, hb => by
    simp only [Node.ForallL] at ha hb ⊢
    exact ⟨forall_and c ha.1 hb.1, forallL_and r ha.2 hb.2⟩
end

theorem tp_iff {n : Node} : TP P n ↔ PNode P n ∧ ∀ c ∈ n.children, TP P c := by
  simp only [TP, forall_iff n]

theorem TP.pnode {n : Node} (h : TP P n) : PNode P n := (tp_iff.1 h).1

theorem TP.child {n c : Node} (h : TP P n) (hc : c ∈ n.children) : TP P c := (tp_iff.1 h).2 c hc

theorem TP.last {n c : Node} (h : TP P n) (hl : n.last? = some c) : TP P c := h.child (List.mem_of_getLast? hl)

/-- same children, other fields changed -/
theorem TP.congr {n n' : Node} (h : TP P n) (hch : n'.children = n.children) (hb : PNode P n') : TP P n' := by
  refine tp_iff.2 ⟨hb, ?_⟩
  rw [hch]; exact (tp_iff.1 h).2

theorem tp_leaf {n : Node} (hb : PNode P n) (hc : n.children = []) : TP P n := by
  refine tp_iff.2 ⟨hb, ?_⟩
  rw [hc]; intro c hc; cases hc

theorem TP.append {n c : Node} (h : TP P n) (hc : TP P c) : TP P (n.append c) := by
  refine tp_iff.2 ⟨h.pnode, ?_⟩
  intro d hd
  simp only [Node.append, List.mem_append, List.mem_singleton] at hd
  rcases hd with hd | rfl
  · exact h.child hd
  · exact hc

theorem TP.setLast {n c : Node} (h : TP P n) (hc : TP P c) : TP P (n.setLast c) := by
  refine tp_iff.2 ⟨h.pnode, ?_⟩
  intro d hd
  simp only [Node.setLast, List.mem_append, List.mem_singleton] at hd
  rcases hd with hd | rfl
  · exact h.child (List.dropLast_subset _ hd)
  · exact hc

/-- a fresh element without children and tail, with a non-atomic text -/
theorem tp_text (hnil : P []) {t : Tag} {txt : Option Str} (hx : P (txt.getD [])) :
    TP P { tag := t, text := txt } :=
  tp_leaf ⟨hnil, fun _ => hx⟩ rfl

theorem tp_el (hnil : P []) (t : String) : TP P (Node.el t) := tp_text (txt := none) hnil hnil

theorem tp_mkText (hnil : P []) (t : String) {txt : Str} (hx : P txt) : TP P (mkText t txt) :=
  tp_text (txt := some txt) hnil hx

theorem tp_pre (hnil : P []) {t : Str} :
    TP P { Node.el "pre" with children := [{ Node.el "code" with text := some t, textAtomic := true }] } := by
  refine tp_iff.2 ⟨⟨hnil, fun _ => hnil⟩, ?_⟩
  intro c hc
  simp only [List.mem_singleton] at hc
  subst hc
  exact tp_leaf ⟨hnil, fun h => by cases h⟩ rfl

theorem nodeAt_tp : ∀ (k : Nat) {n : Node}, TP P n → TP P (nodeAt k n)
  | 0, _, h => h
  | k + 1, n, h => by
    simp only [nodeAt]
    split
    · next c hc => exact nodeAt_tp k (h.last hc)
    · exact h

theorem updPath_tp (f : Node → Node) : ∀ (k : Nat) {n : Node}, TP P n → TP P (f (nodeAt k n)) →
    TP P (updPath f k n)
  | 0, _, _, hf => hf
  | k + 1, n, h, hf => by
    simp only [updPath]
    simp only [nodeAt] at hf
    split
    · next c hc =>
      simp only [hc] at hf
      exact h.setLast (updPath_tp f k (h.last hc) hf)
    · exact h

end trees

/-! ### the processors -/

section processors
variable {p q : Char → Bool} {P : Str → Prop}

/-- the callback preserves both invariants -/
def PresP (p q : Char → Bool) (P : Str → Prop) (pb : PB) : Prop :=
  Blk.PresPB p q pb ∧
  ∀ state refs parent blocks r, TInv p q parent → parent.textAtomic = false → RefsC p refs → TP P parent →
    PL P blocks → pb state refs parent blocks = some r → TP P r.1

theorem PresP.call (h : StrDom p q P) {pb : PB} (hpb : PresP p q P pb) {state : List BState} {refs : Refs}
    {parent : Node} {blocks : List Str} {r : Node × Refs} (hP : TInv p q parent) (hA : parent.textAtomic = false)
    (hR : RefsC p refs) (hT : TP P parent) (hB : PL P blocks) (hc : pb state refs parent blocks = some r) :
    Out p q refs r ∧ TP P r.1 :=
  ⟨hpb.1 _ _ _ _ _ hP hA hR (h.allL hB) hc, hpb.2 _ _ _ _ _ hP hA hR hT hB hc⟩

theorem setCodeText_tp {parent sib code : Node} {t : Str} (hT : TP P parent)
    (hl : parent.last? = some sib) (hc : preCode sib = some code) : TP P (setCodeText parent sib code t) := by
  obtain ⟨_, _, tl, hch⟩ := preCode_some hc
  have hsib := hT.last hl
  have hcode := hsib.child (c := code) (by rw [hch]; simp)
  have hcode' : TP P { code with text := some t, textAtomic := true } :=
    hcode.congr rfl ⟨hcode.pnode.1, fun h => by cases h⟩
  unfold setCodeText
  refine hT.setLast (tp_iff.2 ⟨hsib.pnode, ?_⟩)
  intro d hd
  simp only [hch, List.drop_succ_cons, List.drop_zero, List.mem_cons] at hd
  rcases hd with rfl | hd
  · exact hcode'
  · exact hsib.child (by rw [hch]; simp [hd])

theorem emptyP_strs (h : StrDom p q P) {refs : Refs} {parent : Node} {b : Str} {rest : List Str}
    (hT : TP P parent) (hb : P b) (hrest : PL P rest) :
    TP P (emptyP refs parent b rest).1 ∧ PL P (emptyP refs parent b rest).2.2 := by
  have key : PL P (if (b.drop 1).isEmpty then rest else b.drop 1 :: rest) := by
    split
    · exact hrest
    · exact pl_cons.2 ⟨h.drop hb 1, hrest⟩
  simp only [emptyP]
  split
  · next sib hl =>
    split
    · next code hc => exact ⟨setCodeText_tp hT hl hc, key⟩
    · exact ⟨hT, key⟩
  · exact ⟨hT, key⟩

theorem codeP_strs (h : StrDom p q P) {tab : Nat} {refs : Refs} {parent : Node} {b : Str} {rest : List Str}
    (hT : TP P parent) (hb : P b) (hrest : PL P rest) :
    TP P (codeP tab refs parent b rest).1 ∧ PL P (codeP tab refs parent b rest).2.2 := by
  have key : PL P (if (detab tab b).2.isEmpty then rest else (detab tab b).2 :: rest) := by
    split
    · exact hrest
    · exact pl_cons.2 ⟨(h.detab tab hb).2, hrest⟩
  simp only [codeP]
  split
  · next sib hl =>
    split
    · next code hc => exact ⟨setCodeText_tp hT hl hc, key⟩
    · exact ⟨hT.append (tp_pre h.nil), key⟩
  · exact ⟨hT.append (tp_pre h.nil), key⟩

theorem optCall_strs {pb : PB} (hpb : PresP p q P pb) {state : List BState} {refs : Refs} {parent : Node}
    (hP : TInv p q parent) (hA : parent.textAtomic = false) (hR : RefsC p refs) (hT : TP P parent) {x : Str}
    (hx : P x) {r : Node × Refs}
    (hc : (if x.isEmpty then some (parent, refs) else pb state refs parent [x]) = some r) : TP P r.1 := by
  split at hc
  · cases hc; exact hT
  · exact hpb.2 _ _ _ _ _ hP hA hR hT (pl_one hx) hc

theorem hashP_strs (h : StrDom p q P) {tab : Nat} {pb : PB} (hpb : PresP p q P pb) {state : List BState}
    {refs : Refs} {parent : Node} {b : Str} {rest : List Str} {m : Nat × Nat × Nat × Str}
    (hP : TInv p q parent) (hA : parent.textAtomic = false) (hR : RefsC p refs) (hT : TP P parent) (hb : P b)
    (hrest : PL P rest) (hm : hashSearch b = some m) {r : Node × Refs × List Str}
    (hr : hashP tab pb state refs parent b rest m = some r) : TP P r.1 ∧ PL P r.2.2 := by
  obtain ⟨st, en, lv, header⟩ := m
  have hhd : P header := h.inf _ _ hb (hashSearch_infix hm)
  simp only [hashP] at hr
  split at hr
  · cases hr
  · next parent' refs' hcall =>
    have h1 := optCall_strs hpb hP hA hR hT (h.take hb st) hcall
    cases hr
    refine ⟨h1.append (tp_text h.nil (txt := some (strip header)) (h.strip hhd)), ?_⟩
    show PL P (if _ then _ else _)
    split
    · exact hrest
    · refine pl_cons.2 ⟨?_, hrest⟩
      split
      · exact h.looseDetab tab (h.drop hb en) 1
      · exact h.drop hb en

theorem setextP_strs (h : StrDom p q P) {refs : Refs} {parent : Node} {b : Str} {rest : List Str}
    (hT : TP P parent) (hb : P b) (hrest : PL P rest) :
    TP P (setextP refs parent b rest).1 ∧ PL P (setextP refs parent b rest).2.2 := by
  simp only [setextP]
  refine ⟨hT.append (tp_text h.nil (txt := some (strip ((lines b).getD 0 [])))
    (h.strip (h.getD (h.lines hb) 0))), ?_⟩
  show PL P (if _ then _ else _)
  split
  · exact pl_cons.2 ⟨h.joinLines ((h.lines hb).mono (List.drop_subset _ _)), hrest⟩
  · exact hrest

theorem hrP_strs (h : StrDom p q P) {pb : PB} (hpb : PresP p q P pb) {state : List BState}
    {refs : Refs} {parent : Node} {b : Str} {rest : List Str} {m : Nat × Nat}
    (hP : TInv p q parent) (hA : parent.textAtomic = false) (hR : RefsC p refs) (hT : TP P parent) (hb : P b)
    (hrest : PL P rest) {r : Node × Refs × List Str}
    (hr : hrP pb state refs parent b rest m = some r) : TP P r.1 ∧ PL P r.2.2 := by
  obtain ⟨st, en⟩ := m
  simp only [hrP] at hr
  split at hr
  · cases hr
  · next parent' refs' hcall =>
    have h1 := optCall_strs hpb hP hA hR hT (h.rstripC (h.take hb st) '\n') hcall
    cases hr
    refine ⟨h1.append (tp_el h.nil "hr"), ?_⟩
    show PL P (if _ then _ else _)
    split
    · exact hrest
    · exact pl_cons.2 ⟨h.lstripC (h.drop hb en) '\n', hrest⟩

theorem referenceP_strs (h : StrDom p q P) {refs : Refs} {parent : Node} {b : Str} {rest : List Str}
    {m : Nat × Nat × Str × Str × Option Str × Option Str}
    (hT : TP P parent) (hb : P b) (hrest : PL P rest) :
    TP P (referenceP refs parent b rest m).1 ∧ PL P (referenceP refs parent b rest m).2.2 := by
  obtain ⟨st, en, ident, link, t5, t6⟩ := m
  simp only [referenceP]
  refine ⟨hT, ?_⟩
  show PL P (if _ then _ else _)
  have h1 : PL P (if isBlank (b.drop en) then rest else lstripC '\n' (b.drop en) :: rest) := by
    split
    · exact hrest
    · exact pl_cons.2 ⟨h.lstripC (h.drop hb en) '\n', hrest⟩
  split
  · exact h1
  · exact pl_cons.2 ⟨h.rstripC (h.take hb st) '\n', h1⟩

theorem paraP_strs (h : StrDom p q P) {state : List BState} {refs : Refs} {parent : Node} {b : Str}
    {rest : List Str} (hA : parent.textAtomic = false) (hT : TP P parent) (hb : P b) (hrest : PL P rest) :
    TP P (paraP state refs parent b rest).1 ∧ PL P (paraP state refs parent b rest).2.2 := by
  simp only [paraP]
  split
  · exact ⟨hT, hrest⟩
  · split
    · split
      · next sib hl =>
        have hs := hT.last hl
        refine ⟨hT.setLast (hs.congr rfl ⟨?_, hs.pnode.2⟩), hrest⟩
        show P (if _ then _ else _)
        split
        · next ht => rw [fmtOpt_truthy ht]; exact h.joinNl _ _ hs.pnode.1 hb
        · exact h.joinNl [] _ h.nil hb
      · refine ⟨hT.congr rfl ⟨hT.pnode.1, fun _ => ?_⟩, hrest⟩
        show P (if _ then _ else _)
        split
        · next ht => rw [fmtOpt_truthy ht]; exact h.joinNl _ _ (hT.pnode.2 hA) hb
        · exact h.lstrip hb
    · exact ⟨hT.append (tp_mkText h.nil "p" (h.lstrip hb)), hrest⟩

/-! lists, block quotes, list indentation -/

theorem textToP_tp (hnil : P []) {li : Node} (hL : TP P li) : TP P (textToP li) := by
  unfold textToP
  split
  · refine tp_iff.2 ⟨⟨hL.pnode.1, fun _ => hnil⟩, ?_⟩
    intro c hc
    simp only [List.mem_cons] at hc
    rcases hc with rfl | hc
    · exact tp_leaf ⟨hnil, hL.pnode.2⟩ rfl
    · exact hL.child hc
  · exact hL

theorem tailFix_tp (h : StrDom p q P) {li : Node} (hL : TP P li) : TP P (tailFix li) := by
  unfold tailFix
  split
  · next lch hl =>
    split
    · have hc := hL.last hl
      have hlch : TP P { lch with tail := some [], tailAtomic := false } := hc.congr rfl ⟨h.nil, hc.pnode.2⟩
      exact (hL.setLast hlch).append (tp_mkText h.nil "p" (h.lstrip hc.pnode.1))
    · exact hL
  · exact hL

theorem fixLast_tp (h : StrDom p q P) {lst : Node} (hL : TP P lst) : TP P (fixLast lst) := by
  unfold fixLast
  split
  · next li hl => exact hL.setLast (tailFix_tp h (textToP_tp h.nil (hL.last hl)))
  · exact hL

theorem listItems_strs (h : StrDom p q P) {tab : Nat} {pb : PB} (hpb : PresP p q P pb) {st2 : List BState} :
    ∀ (items : List Str) (refs : Refs) (lst : Node) (r : Node × Refs), TInv p q lst → lst.tag ≠ preTag →
      RefsC p refs → TP P lst → PL P items → listItems tab pb st2 refs lst items = some r → TP P r.1
  | [], refs, lst, r, _, _, _, hT, _, hr => by
    simp only [listItems] at hr
    cases hr
    exact hT
  | item :: items, refs, lst, r, hL, ht, hR, hT, hI, hr => by
    have hI' := pl_cons.1 hI
    simp only [listItems] at hr
    split at hr
    · split at hr
      · next l hl =>
        split at hr
        · next li refs' hcall =>
          have hc := hL.last hl
          have hna : l.textAtomic = false := by
            cases hx : l.textAtomic with
            | false => rfl
            | true => exact absurd (hc.2 hx) ht
          obtain ⟨⟨o1, o2, o3, _⟩, t1⟩ := hpb.call h hc.1 hna hR (hT.last hl) (pl_one hI'.1) hcall
          exact listItems_strs h hpb items refs' (lst.setLast li) r
            (hL.setLast o1 (fun ha => by rw [o2] at ha; cases ha)) ht o3 (hT.setLast t1) hI'.2 hr
        · cases hr
      · exact listItems_strs h hpb items refs lst r hL ht hR hT hI'.2 hr
    · split at hr
      · next li refs' hcall =>
        obtain ⟨⟨o1, o2, o3, _⟩, t1⟩ := hpb.call h (tinv_el "li" (by decide)) rfl hR (tp_el h.nil "li")
          (pl_one hI'.1) hcall
        exact listItems_strs h hpb items refs' (lst.append li) r (hL.append o1 o2) ht o3 (hT.append t1) hI'.2 hr
      · cases hr

theorem listP_strs (h : StrDom p q P) {tab : Nat} {pb : PB} (hpb : PresP p q P pb) {state : List BState}
    {refs : Refs} {parent : Node} {b : Str} {rest : List Str} {tag : String}
    (htag : NoCtl tag.toList ∧ Tag.name tag.toList ≠ .name "code".toList)
    (htag' : Tag.name tag.toList ≠ preTag)
    (hP : TInv p q parent) (hR : RefsC p refs) (hT : TP P parent) (hb : P b)
    (hrest : PL P rest) {r : Node × Refs × List Str}
    (hr : listP tab pb state refs parent b rest tag = some r) : TP P r.1 ∧ PL P r.2.2 := by
  have hitems := h.getItems tab hb
  rw [listP_eq] at hr
  split at hr
  · next lst hs =>
    obtain ⟨hl, hlt⟩ := sibList_some hs
    have hc := hP.last hl
    obtain ⟨f1, _, f3⟩ := fixLast_tinv hc.1 (isListTag_notPre hlt)
    have g1 := fixLast_tp h (hT.last hl)
    split at hr
    · cases hr
    · next newli refs' hcall =>
      obtain ⟨⟨o1, o2, o3, _⟩, t1⟩ := hpb.call h (tinv_el "li" (by decide)) rfl hR (tp_el h.nil "li")
        (pl_one (h.headD hitems)) hcall
      split at hr
      · next lst' refs'' hli =>
        have i1 := listItems_strs h hpb _ _ _ _ (f1.append o1 o2)
          (by rw [append_tag, f3]; exact isListTag_notPre hlt) o3 (g1.append t1)
          (hitems.mono (List.drop_subset _ _)) hli
        cases hr
        exact ⟨hT.setLast i1, hrest⟩
      · cases hr
  · split at hr
    · next hlt =>
      split at hr
      · next lst' refs'' hli =>
        have i1 := listItems_strs h hpb _ _ _ _ hP (isListTag_notPre hlt) hR hT hitems hli
        cases hr
        exact ⟨i1, hrest⟩
      · cases hr
    · split at hr
      · next lst' refs'' hli =>
        have i1 := listItems_strs h hpb _ _ _ _ (tinv_el tag htag) htag' hR (tp_el h.nil tag) hitems hli
        cases hr
        exact ⟨hT.append i1, hrest⟩
      · cases hr

theorem parseChunk_strs (h : StrDom p q P) {pb : PB} (hpb : PresP p q P pb) {state : List BState} {refs : Refs}
    {parent : Node} {text : Str} (hP : TInv p q parent) (hA : parent.textAtomic = false) (hR : RefsC p refs)
    (hT : TP P parent) (ht : P text) {r : Node × Refs} (hr : parseChunk pb state refs parent text = some r) :
    Out p q refs r ∧ TP P r.1 :=
  hpb.call h hP hA hR hT (h.splitS ht (by simp)) hr

theorem quoteP_strs (h : StrDom p q P) {pb : PB} (hpb : PresP p q P pb) {state : List BState}
    {refs : Refs} {parent : Node} {b : Str} {rest : List Str} {q0 : Nat}
    (hP : TInv p q parent) (hA : parent.textAtomic = false) (hR : RefsC p refs) (hT : TP P parent) (hb : P b)
    (hrest : PL P rest) {r : Node × Refs × List Str}
    (hr : quoteP pb state refs parent b rest q0 = some r) : TP P r.1 ∧ PL P r.2.2 := by
  have hblock := h.quoteBlock (h.drop hb q0)
  simp only [quoteP] at hr
  split at hr
  · cases hr
  · next parent' refs' hcall =>
    obtain ⟨⟨h1, _, h3, _⟩, t1⟩ := hpb.call h hP hA hR hT (pl_one (h.take hb q0)) hcall
    split at hr
    · next sib hs =>
      have hsib : parent'.last? = some sib ∧ sib.isTag "blockquote" = true := by
        split at hs
        · next s hl =>
          split at hs
          · next ht => cases hs; exact ⟨hl, ht⟩
          · cases hs
        · cases hs
      have hc := h1.last hsib.1
      have hna : sib.textAtomic = false := by
        apply hc.1.bnode.notAtomic
        rw [isTag_iff.1 hsib.2]; decide
      split at hr
      · next quote refs'' hq =>
        obtain ⟨_, t2⟩ := parseChunk_strs h hpb hc.1 hna h3 (t1.last hsib.1) hblock hq
        cases hr
        exact ⟨t1.setLast t2, hrest⟩
      · cases hr
    · split at hr
      · next quote refs'' hq =>
        obtain ⟨_, t2⟩ := parseChunk_strs h hpb (tinv_el "blockquote" (by decide)) rfl h3
          (tp_el h.nil "blockquote") hblock hq
        cases hr
        exact ⟨t1.append t2, hrest⟩
      · cases hr

theorem indentP_strs (h : StrDom p q P) {tab : Nat} {pb : PB} (hpb : PresP p q P pb) {state : List BState}
    {refs : Refs} {parent : Node} {b : Str} {rest : List Str}
    (hP : TInv p q parent) (hA : parent.textAtomic = false) (hR : RefsC p refs) (hT : TP P parent) (hb : P b)
    (hrest : PL P rest) {r : Node × Refs × List Str}
    (hr : indentP tab pb state refs parent b rest = some r) : TP P r.1 ∧ PL P r.2.2 := by
  unfold indentP at hr
  generalize getLevel tab state parent b = ls at hr
  obtain ⟨level, steps⟩ := ls
  simp only [] at hr
  have hblock := h.looseDetab tab hb level
  have hS := nodeAt_tinv steps hP
  have hST := nodeAt_tp steps hT
  split at hr
  · split at hr
    · next c hs =>
      have hc : parent.last? = some c ∧ isListTag c = true := by
        split at hs
        · next s hl =>
          split at hs
          · next ht => cases hs; exact ⟨hl, ht⟩
          · cases hs
        · cases hs
      have hl := hP.last hc.1
      split at hr
      · next sub refs' hq =>
        obtain ⟨_, t1⟩ := hpb.call h hl.1 (isListTag_notAtomic hl.1.bnode hc.2) hR (hT.last hc.1)
          (pl_one hblock) hq
        cases hr
        exact ⟨hT.setLast t1, hrest⟩
      · cases hr
    · split at hr
      · next par' refs' hq =>
        obtain ⟨_, t1⟩ := hpb.call h hP hA hR hT (pl_one hblock) hq
        cases hr
        exact ⟨t1, hrest⟩
      · cases hr
  · split at hr
    · next hit =>
      split at hr
      · next sub refs' hq =>
        obtain ⟨_, t1⟩ := hpb.call h hS (isItemTag_notAtomic hS.bnode hit) hR hST (pl_one hblock) hq
        cases hr
        exact ⟨updPath_tp (fun _ => sub) steps hT t1, hrest⟩
      · cases hr
    · split at hr
      · next li hs =>
        have hc : (nodeAt steps parent).last? = some li ∧ isItemTag li = true := by
          split at hs
          · next s hl =>
            split at hs
            · next ht => cases hs; exact ⟨hl, ht⟩
            · cases hs
          · cases hs
        have hl := hS.last hc.1
        obtain ⟨t1, t2, _⟩ := textToP_tinv hl.1 (isItemTag_notAtomic hl.1.bnode hc.2)
        split at hr
        · next li' refs' hq =>
          obtain ⟨_, u1⟩ := parseChunk_strs h hpb t1 t2 hR (textToP_tp h.nil (hST.last hc.1)) hblock hq
          cases hr
          exact ⟨updPath_tp (fun s => s.setLast li') steps hT (hST.setLast u1), hrest⟩
        · cases hr
      · split at hr
        · next li' refs' hq =>
          obtain ⟨_, u1⟩ := hpb.call h (tinv_el "li" (by decide)) rfl hR (tp_el h.nil "li") (pl_one hblock) hq
          cases hr
          exact ⟨updPath_tp (fun s => s.append li') steps hT (hST.append u1), hrest⟩
        · cases hr

/-- **one turn of the loop preserves the `P` invariant** -/
theorem dispatch_strs (h : StrDom p q P) {tab : Nat} {pb : PB} (hpb : PresP p q P pb) {state : List BState}
    {refs : Refs} {parent : Node} {b : Str} {rest : List Str}
    (hP : TInv p q parent) (hA : parent.textAtomic = false) (hR : RefsC p refs) (hT : TP P parent) (hb : P b)
    (hrest : PL P rest) {r : Node × Refs × List Str}
    (hr : dispatch tab pb state refs parent b rest = some r) : TP P r.1 ∧ PL P r.2.2 := by
  rw [dispatch_eq] at hr
  split at hr
  · cases hr; exact emptyP_strs h hT hb hrest
  · split at hr
    · exact indentP_strs h hpb hP hA hR hT hb hrest hr
    · split at hr
      · cases hr; exact codeP_strs h hT hb hrest
      · split at hr
        · next m hm => exact hashP_strs h hpb hP hA hR hT hb hrest hm hr
        · split at hr
          · cases hr; exact setextP_strs h hT hb hrest
          · split at hr
            · exact hrP_strs h hpb hP hA hR hT hb hrest hr
            · split at hr
              · exact listP_strs h hpb (by decide) (by decide) hP hR hT hb hrest hr
              · split at hr
                · exact listP_strs h hpb (by decide) (by decide) hP hR hT hb hrest hr
                · split at hr
                  · exact quoteP_strs h hpb hP hA hR hT hb hrest hr
                  · split at hr
                    · cases hr; exact referenceP_strs h hT hb hrest
                    · cases hr; exact paraP_strs h hA hT hb hrest

theorem parseBlocks_presP (h : StrDom p q P) (tab : Nat) : ∀ f : Nat, PresP p q P (parseBlocks tab f)
  | 0 => by
    refine ⟨parseBlocks_pres h.chars tab 0, ?_⟩
    intro state refs parent blocks r hP hA hR hT hB hr
    cases blocks with
    | nil => simp only [parseBlocks] at hr; cases hr; exact hT
    | cons b rest => simp [parseBlocks] at hr
  | f + 1 => by
    refine ⟨parseBlocks_pres h.chars tab (f + 1), ?_⟩
    intro state refs parent blocks r hP hA hR hT hB hr
    cases blocks with
    | nil => simp only [parseBlocks] at hr; cases hr; exact hT
    | cons b rest =>
      have ih := parseBlocks_presP h tab f
      have hB' := pl_cons.1 hB
      simp only [parseBlocks] at hr
      split at hr
      · next parent' refs' blocks' hd =>
        obtain ⟨d1, d2, d3, _, _⟩ := dispatch_chars h.chars ih.1 hP hA hR (h.allc _ hB'.1) (h.allL hB'.2) hd
        obtain ⟨t1, t2⟩ := dispatch_strs h ih hP hA hR hT hB'.1 hB'.2 hd
        exact ih.2 _ _ _ _ _ d1 d2 d3 t1 t2 hr
      · cases hr

end processors

/-! ### the statements -/

/-- `parseBlocks` preserves the `P` invariant, from any tree that satisfies `Blk.BInv` and `PNode` everywhere -/
theorem parseBlocks_strs {p q : Char → Bool} {P : Str → Prop} (h : StrDom p q P) (tab f : Nat) :
    ∀ state refs parent blocks r, parent.Forall (BInv p q) → parent.textAtomic = false → RefsC p refs →
      parent.Forall (PNode P) → (∀ b ∈ blocks, P b) → parseBlocks tab f state refs parent blocks = some r →
      r.1.Forall (PNode P) :=
  (parseBlocks_presP h tab f).2

/-- **the block stage keeps every ordinary string inside a class of strings closed under infixes and
    newline-joins** -/
theorem parseDocument_strs {p q : Char → Bool} {P : Str → Prop} (h : StrDom p q P) (tab : Nat) (text : Str)
    (hp : P text) {root : Node} {refs : Refs} (hr : parseDocument tab text = some (root, refs)) :
    root.Forall (BNodeP p q P) ∧ Blk.RefsC p refs ∧ (p '[' = false → refs = []) := by
  obtain ⟨h1, _, h3, h4⟩ := parseDocument_inv h.chars tab text (h.allc _ hp) hr
  have hT : TP P root := (parseBlocks_presP h tab _).2 _ _ _ _ _ (tinv_el "div" (by decide)) rfl refsC_nil
    (tp_el h.nil "div") (h.splitS hp (by simp)) hr
  refine ⟨?_, h3, h4⟩
  exact forall_mono (fun _ hn => ⟨hn.1, hn.2.1, hn.2.2⟩) root
    (forall_and root (forall_mono (fun _ hn => hn.1) root h1) hT)

/-! ### instance: in the domain, and no backslash immediately followed by a backtick -/

theorem noAdj_infix {s t : Str} (hs : NoAdj s) (ht : t <:+: s) : NoAdj t := by
  unfold NoAdj at *
  rw [contains_eq_false_iff] at hs ⊢
  intro pre post e
  obtain ⟨a, b, rfl⟩ := ht
  exact hs (a ++ pre) (post ++ b) (by rw [e]; simp)

theorem noAdj_joinNl {a b : Str} (ha : NoAdj a) (hb : NoAdj b) : NoAdj (a ++ '\n' :: b) := by
  unfold NoAdj at *
  rw [contains_eq_false_iff] at ha hb ⊢
  intro x y e
  rw [List.append_assoc] at e
  rcases List.append_eq_append_iff.1 e with ⟨a', rfl, e2⟩ | ⟨c', rfl, e2⟩
  · rcases a' with _ | ⟨d, a''⟩
    · simp at e2
    · simp only [List.cons_append, List.cons.injEq] at e2
      exact hb a'' y (by rw [e2.2]; simp)
  · rcases c' with _ | ⟨c1, _ | ⟨c2, c''⟩⟩
    · simp at e2
    · simp at e2
    · simp only [List.cons_append, List.cons.injEq, List.nil_append] at e2
      obtain ⟨rfl, rfl, _⟩ := e2
      exact ha x c'' (by simp)

/-- the character domain of C10b: no STX/ETX, no `<`, `&` -/
def domP (c : Char) : Bool := Blk.okc c && domCharB c

theorem charDom_domB : Blk.CharDom domP Blk.okc := by
  refine Blk.CharDom.ofLits (fun c hc => ?_) (by decide) (by decide) (by decide)
  simp only [domP, Bool.and_eq_true] at hc; exact hc.1

theorem strDom_noAdj : StrDom (fun c => Blk.okc c && domCharB c) Blk.okc
    (fun s => Blk.AllC (fun c => Blk.okc c && domCharB c) s ∧ NoAdj s) where
  chars := charDom_domB
  allc := fun _ hs => hs.1
  nil := ⟨allC_nil, by decide⟩
  inf := fun _ _ hs ht => ⟨hs.1.mono ht.subset, noAdj_infix hs.2 ht⟩
  joinNl := fun _ _ ha hb => ⟨allC_append.2 ⟨ha.1, allC_cons.2 ⟨by decide, hb.1⟩⟩, noAdj_joinNl ha.2 hb.2⟩

/-- a non-trivial text of the class -/
example : (fun s => Blk.AllC (fun c => Blk.okc c && domCharB c) s ∧ NoAdj s)
    "# a `b` \\\\ c\n\n* x\\*\n\n    code > \\ `".toList := by
  refine ⟨by unfold Blk.AllC; decide, by decide⟩

end MdVerif.NoCtl.BlkB
