/-
Helper lemmas for C02 (extended block parser), part 4: more fuel never changes a result of `parseBlocksXT`.
Every processor is monotone in its callback: if `pb'` answers what `pb` answers wherever `pb` answers (`Le pb pb'`),
a turn of the loop with `pb'` answers what the turn with `pb` answers.  Core Lean only.
-/
import MdVerif.Lemmas.BlockExtFuelTotal

namespace MdVerif.BlockExt.Fuel
open Py Block

/-- `pb'` returns what `pb` returns wherever `pb` answers -/
def Le (pb pb' : PB) : Prop := ∀ st refs parent bl r, pb st refs parent bl = some r → pb' st refs parent bl = some r

theorem Le.leOn {pb pb' : PB} (h : Le pb pb') (state : List BState) (b : Str) : LeOn state b pb pb' :=
  fun st refs parent bl r _ hr => h st refs parent bl r hr

theorem admonitionP_le {tab : Nat} {pb pb' : PB} (hle : Le pb pb') {state : List BState} {refs : Refs} {parent : Node}
    {b : Str} {rest : List Str} {hit : AdmHit} {r} (h : admonitionP tab pb state refs parent b rest hit = some r) :
    admonitionP tab pb' state refs parent b rest hit = some r := by
  cases hit with
  | re st en g1 g2 =>
    simp only [admonitionP, parseChunk] at h ⊢
    have hfirst : ∀ x, (if st > 0 then pb state refs parent [b.take st] else some (parent, refs)) = some x →
        (if st > 0 then pb' state refs parent [b.take st] else some (parent, refs)) = some x := by
      intro x hx
      split at hx
      · next hs => rw [if_pos hs]; exact hle _ _ _ _ _ hx
      · next hs => rw [if_neg hs]; exact hx
    cases hc : (if st > 0 then pb state refs parent [b.take st] else some (parent, refs)) with
    | none => (simp only [hc] at h <;> cases h)
    | some x =>
      have := hfirst x hc
      simp only [hc] at h
      simp only [this]
      obtain ⟨p', rf'⟩ := x
      simp only at h ⊢
      generalize detab tab (b.drop en) = d at h ⊢
      obtain ⟨block, theRest⟩ := d
      generalize admClassTitle g1 g2 = ct at h ⊢
      obtain ⟨klass, title⟩ := ct
      simp only at h ⊢
      split at h
      · next dv rf2 hc2 =>
        have := hle _ _ _ _ _ hc2
        simp only [this]
        exact h
      · cases h
  | sib steps indent =>
    simp only [admonitionP, parseChunk] at h ⊢
    generalize detab indent b = d at h ⊢
    obtain ⟨block, theRest⟩ := d
    simp only at h ⊢
    split at h
    · next dv rf2 hc2 =>
      have := hle _ _ _ _ _ hc2
      simp only [this]
      exact h
    · cases h

theorem indentPX_le {isL isI : Node → Bool} {itemTag : String} {tab : Nat} {pb pb' : PB} (hle : Le pb pb')
    {state : List BState} {refs : Refs} {parent : Node} {b : Str} {rest : List Str} {r}
    (h : indentPX isL isI itemTag tab pb state refs parent b rest = some r) :
    indentPX isL isI itemTag tab pb' state refs parent b rest = some r := by
  unfold indentPX at h ⊢
  generalize getLevelX isL isI tab state parent b = ls at h ⊢
  obtain ⟨level, steps⟩ := ls
  simp only [parseChunk] at h ⊢
  split at h
  · next hp =>
    (try simp only [hp, if_true])
    split at h
    · next c hc0 =>
      (try simp only [hc0])
      split at h
      · next sub rf hc => simp only [hle _ _ _ _ _ hc]; exact h
      · cases h
    · next hc0 =>
      (try simp only [hc0])
      split at h
      · next sub rf hc => simp only [hle _ _ _ _ _ hc]; exact h
      · cases h
  · next hp =>
    (try simp only [hp])
    split at h
    · next hs =>
      (try simp only [hs, if_true])
      split at h
      · next sub rf hc => simp only [hle _ _ _ _ _ hc]; exact h
      · cases h
    · next hs =>
      (try simp only [hs])
      split at h
      · next li hli =>
        (try simp only [hli])
        split at h
        · next sub rf hc => simp only [hle _ _ _ _ _ hc]; exact h
        · cases h
      · next hli =>
        (try simp only [hli])
        split at h
        · next sub rf hc => simp only [hle _ _ _ _ _ hc]; exact h
        · cases h

theorem listItems_le {tab : Nat} {pb pb' : PB} (hle : Le pb pb') {st2 : List BState} (items : List Str)
    (refs : Refs) (lst : Node) {r} (h : listItems tab pb st2 refs lst items = some r) :
    listItems tab pb' st2 refs lst items = some r := by
  induction items generalizing refs lst with
  | nil => simpa [listItems] using h
  | cons item items ih =>
    simp only [listItems] at h ⊢
    split at h
    · next hsw =>
      (try simp only [hsw, if_true])
      split at h
      · next l hl =>
        (try simp only [hl])
        split at h
        · next li rf hc => simp only [hle _ _ _ _ _ hc]; exact ih _ _ h
        · cases h
      · next hl => (try simp only [hl]); exact ih _ _ h
    · next hsw =>
      (try simp only [hsw])
      split at h
      · next li rf hc => simp only [hle _ _ _ _ _ hc]; exact ih _ _ h
      · cases h

theorem listPX_le {p : ListParams} {tab : Nat} {pb pb' : PB} (hle : Le pb pb') {state : List BState} {refs : Refs}
    {parent : Node} {b : Str} {rest : List Str} {tag : String} {r}
    (h : listPX p tab pb state refs parent b rest tag = some r) :
    listPX p tab pb' state refs parent b rest tag = some r := by
  simp only [listPX] at h ⊢
  split at h
  · next lst hl =>
    (try simp only [hl])
    split at h
    · cases h
    · next newli rf hc =>
      simp only [hle _ _ _ _ _ hc]
      split at h
      · next l2 rf2 hc2 => simp only [listItems_le hle _ _ _ hc2]; exact h
      · cases h
  · next hl =>
    (try simp only [hl])
    split at h
    · next hp =>
      (try simp only [hp, if_true])
      split at h
      · next l2 rf2 hc2 => simp only [listItems_le hle _ _ _ hc2]; exact h
      · cases h
    · next hp =>
      (try simp only [hp])
      split at h
      · next l2 rf2 hc2 => simp only [listItems_le hle _ _ _ hc2]; exact h
      · cases h

theorem defListP_le {tab : Nat} {pb pb' : PB} (hle : Le pb pb') {state : List BState} {refs : Refs} {parent : Node}
    {b : Str} {rest : List Str} {m : Nat × Nat × Str} :
    (∀ r, defListP tab pb state refs parent b rest m = some (some r) →
      defListP tab pb' state refs parent b rest m = some (some r)) ∧
    (defListP tab pb state refs parent b rest m = none → defListP tab pb' state refs parent b rest m = none) := by
  obtain ⟨st, en, g2⟩ := m
  simp only [defListP]
  generalize (if defNoIndent (b.drop en) = true then (b.drop en, ([] : Str)) else detab tab (b.drop en)) = dt
  obtain ⟨d, theRest⟩ := dt
  simp only
  generalize (if d.isEmpty = true then g2 else g2 ++ '\n' :: d) = d'
  constructor
  · intro r h
    split at h
    · next hl =>
      (try simp only [hl])
      split at h
      · cases h
      · next ht =>
        rw [if_neg ht]
        simp only [Option.some.injEq] at h ⊢
        split at h
        · next dd rf hc => simp only [hle _ _ _ _ _ hc]; exact h
        · cases h
    · next sibling hl =>
      (try simp only [hl])
      simp only [Option.some.injEq] at h ⊢
      split at h
      · next dl hdl =>
        (try simp only [hdl])
        split at h
        · next dd rf hc => simp only [hle _ _ _ _ _ hc]; exact h
        · cases h
      · next hdl =>
        (try simp only [hdl])
        split at h
        · next dd rf hc => simp only [hle _ _ _ _ _ hc]; exact h
        · cases h
  · intro h
    split at h
    · next hl =>
      (try simp only [hl])
      split at h
      · next ht => (try simp only [ht, if_true])
      · cases h
    · cases h

theorem tailQuote_le {cfg : XCfg} {pb pb' : PB} (hle : Le pb pb') {state : List BState} {refs : Refs} {parent : Node}
    {b : Str} {rest : List Str} (hb : b ≠ []) (hnl : startsWith b ['\n'] = false) {r}
    (h : tailQuote cfg pb state refs parent b rest = some r) : tailQuote cfg pb' state refs parent b rest = some r := by
  simp only [tailQuote] at h ⊢
  split at h
  · next q hq => (try simp only [hq]); exact quoteP_mono hb hnl hq (hle.leOn state b) h
  · next hq => (try simp only [hq]); exact h

theorem tailDef_le {cfg : XCfg} {tab : Nat} {pb pb' : PB} (hle : Le pb pb') {state : List BState} {refs : Refs}
    {parent : Node} {b : Str} {rest : List Str} (hb : b ≠ []) (hnl : startsWith b ['\n'] = false) {r}
    (h : tailDef cfg tab pb state refs parent b rest = some r) : tailDef cfg tab pb' state refs parent b rest = some r := by
  simp only [tailDef] at h ⊢
  split at h
  · next hc =>
    (try simp only [hc, if_true])
    split at h
    · next m hm =>
      (try simp only [hm])
      split at h
      · next o ho =>
        cases o with
        | none => cases h
        | some r' =>
          simp only [Option.some.injEq] at h
          subst h
          simp only [(defListP_le hle).1 r' ho]
      · next ho =>
        simp only [(defListP_le hle).2 ho]
        exact tailQuote_le hle hb hnl h
    · next hm => (try simp only [hm]); exact tailQuote_le hle hb hnl h
  · next hc => (try simp only [hc]); exact tailQuote_le hle hb hnl h

theorem tailList_le {cfg : XCfg} {tab : Nat} {pb pb' : PB} (hle : Le pb pb') {state : List BState} {refs : Refs}
    {parent : Node} {b : Str} {rest : List Str} (hb : b ≠ []) (hnl : startsWith b ['\n'] = false) {r}
    (h : tailList cfg tab pb state refs parent b rest = some r) :
    tailList cfg tab pb' state refs parent b rest = some r := by
  simp only [tailList] at h ⊢
  split at h
  · next hl =>
    (try simp only [hl, if_true])
    split at h
    · next hs => (try simp only [hs, if_true]); exact listPX_le hle h
    · next hs => (try simp only [hs]); exact listP_mono hb hl (hle.leOn state b) h
  · next hl =>
    (try simp only [hl])
    split at h
    · next hl2 =>
      (try simp only [hl2, if_true])
      split at h
      · next hs => (try simp only [hs, if_true]); exact listPX_le hle h
      · next hs => (try simp only [hs]); exact listP_mono hb hl2 (hle.leOn state b) h
    · next hl2 => (try simp only [hl2]); exact tailDef_le hle hb hnl h

theorem tailEmptyT_le {tables : Bool} {cfg : XCfg} {tab : Nat} {pb pb' : PB} (hle : Le pb pb') {state : List BState}
    {refs : Refs} {parent : Node} {b : Str} {rest : List Str} {r}
    (h : tailEmptyT tables cfg tab pb state refs parent b rest = some r) :
    tailEmptyT tables cfg tab pb' state refs parent b rest = some r := by
  rw [tailEmptyT_eq] at h ⊢
  split at h
  · next h0 => rw [if_pos h0]; exact h
  · next h0 =>
    rw [if_neg h0]
    simp only [Bool.or_eq_true, not_or, Bool.not_eq_true] at h0
    have hb : b ≠ [] := by rintro rfl; simp at h0
    have hnl := h0.2
    split at h
    · next hc =>
      rw [if_pos hc]
      simp only [indentTest, Bool.and_eq_true, Bool.not_eq_true'] at hc
      exact indentP_mono hc.1.2 (hle.leOn state b) h
    · next hc =>
      rw [if_neg hc]
      split at h
      · next hc2 => rw [if_pos hc2]; exact indentPX_le hle h
      · next hc2 =>
        rw [if_neg hc2]
        split at h
        · next hc3 => rw [if_pos hc3]; exact h
        · next hc3 =>
          rw [if_neg hc3]
          split at h
          · next bs hbs => (try simp only [hbs]); exact h
          · next hbs =>
            (try simp only [hbs])
            split at h
            · next m hm => (try simp only [hm]); exact hashP_mono hb hm (hle.leOn state b) h
            · next hm =>
              (try simp only [hm])
              split at h
              · next hs => rw [if_pos hs]; exact h
              · next hs =>
                rw [if_neg hs]
                split at h
                · next m hm2 => (try simp only [hm2]); exact hrP_mono hm2 (hle.leOn state b) h
                · next hm2 => (try simp only [hm2]); exact tailList_le hle hb hnl h

theorem dispatchXT_le {tables : Bool} {cfg : XCfg} {tab : Nat} {pb pb' : PB} (hle : Le pb pb') {state : List BState}
    {refs : Refs} {parent : Node} {b : Str} {rest : List Str} {r}
    (h : dispatchXT tables cfg tab pb state refs parent b rest = some r) :
    dispatchXT tables cfg tab pb' state refs parent b rest = some r := by
  simp only [dispatchXT] at h ⊢
  split at h
  · next hit hh => (try simp only [hh]); exact admonitionP_le hle h
  · next hh => (try simp only [hh]); exact tailEmptyT_le hle h

theorem parseBlocksXT_succ {tables : Bool} {cfg : XCfg} {tab : Nat} : ∀ {f : Nat} {state : List BState} {refs : Refs}
    {parent : Node} {blocks : List Str} {r}, parseBlocksXT tables cfg tab f state refs parent blocks = some r →
      parseBlocksXT tables cfg tab (f + 1) state refs parent blocks = some r := by
  intro f
  induction f with
  | zero =>
    intro state refs parent blocks r h
    cases blocks with
    | nil => simpa [parseBlocksXT] using h
    | cons b rest => simp [parseBlocksXT] at h
  | succ f ih =>
    intro state refs parent blocks r h
    cases blocks with
    | nil => simpa [parseBlocksXT] using h
    | cons b rest =>
      rw [parseBlocksXT] at h ⊢
      cases hd : dispatchXT tables cfg tab (parseBlocksXT tables cfg tab f) state refs parent b rest with
      | none => (simp only [hd] at h <;> cases h)
      | some x =>
        have := dispatchXT_le (pb' := parseBlocksXT tables cfg tab (f + 1)) (fun _ _ _ _ _ hc => ih hc) hd
        simp only [hd] at h
        simp only [this]
        exact ih h

/-- **more fuel never changes a result of the extended block parser** -/
theorem parseBlocksXT_fuel_mono {tables : Bool} {cfg : XCfg} {tab f : Nat} (k : Nat) {state : List BState} {refs : Refs}
    {parent : Node} {blocks : List Str} {r} (h : parseBlocksXT tables cfg tab f state refs parent blocks = some r) :
    parseBlocksXT tables cfg tab (f + k) state refs parent blocks = some r := by
  induction k with
  | zero => exact h
  | succ k ih => exact parseBlocksXT_succ ih

end MdVerif.BlockExt.Fuel
