/-
Helper lemmas for C10 on the extension model (block stage), part 1: the invariant of the EXTENDED block parser
`BlockExt.parseBlocksXT` and the core processors under it.

`Lemmas/PlaceholdersBlock.lean` + `Lemmas/PlaceholdersBBlock.lean` redone in one pass for trees whose elements may
carry attributes (`class` of an admonition, `style` of a table cell, `start` of a sane list):

* `BNodeX p q n`    as `Blk.BNode`, but the names and values of the attributes are `AllC p` (instead of `attrs = []`);
* `BNodeXP p q P n` `BNodeX` plus the string property `P` of the tail and of a non-atomic text (as `BlkB.BNodeP`);
* `NX p q P n`      the same as a structure with named fields (what the proofs work with), `TX` = `NX` and
                    `Blk.AtomPre` at every element;
* `LogC p P log`    every string of the log of table writes: key (reference id; footnote id, abbreviation without the
                    marker prefix), url / footnote body / abbreviation title, reference title are `AllC p`, and a
                    footnote body satisfies `P`;
* `StrDomX p q P`   `BlkB.StrDom` plus two closures that the extension processors need: `lower` (`str.lower()` keeps
                    the character class: reference ids, admonition classes) and `lit` (strings of letters, digits,
                    `_`, `-`, blank, `:`, `;` and non-ASCII characters satisfy `P`: implied admonition titles, literal
                    attribute names and values).

Part 1: strings, trees, the core processors (`emptyP` … `paraP`, `quoteP`), the parameterised list processors
`listPX`, `indentPX` (hence `listP`, `indentP`).  Core Lean only.
-/
import MdVerif.Lemmas.PlaceholdersBBlock
import MdVerif.Lemmas.BlockExt
import MdVerif.Lemmas.BlockExtStr
import MdVerif.Model.BlockExtT

namespace MdVerif.NoCtl.BlkX
open Py Block Blk BlkB

/-! ### the invariant -/

/-- names and values of the attributes -/
def AttrsC (p : Char → Bool) (attrs : List (Str × Str)) : Prop := ∀ kv ∈ attrs, AllC p kv.1 ∧ AllC p kv.2

/-- an element of the extended block tree: as `Blk.BNode`, but attributes are allowed -/
def BNodeX (p q : Char → Bool) (n : Node) : Prop :=
  tagNoCtl n.tag ∧ AttrsC p n.attrs ∧ n.tailAtomic = false ∧ AllC p (n.tail.getD []) ∧
  (if n.textAtomic then AllC q (n.text.getD []) else AllC p (n.text.getD [])) ∧
  (n.textAtomic = true → n.tag = .name "code".toList) ∧
  (n.tag = .name "code".toList → n.textAtomic = true)

/-- `BNodeX` plus `P` of the tail and of a non-atomic text -/
def BNodeXP (p q : Char → Bool) (P : Str → Prop) (n : Node) : Prop :=
  BNodeX p q n ∧ P (n.tail.getD []) ∧ (n.textAtomic = false → P (n.text.getD []))

abbrev codeTag : Tag := .name "code".toList

/-- `BNodeXP` with named fields (`P` implies `AllC p`, so the `AllC p` clauses of `BNodeX` are not repeated) -/
structure NX (p q : Char → Bool) (P : Str → Prop) (n : Node) : Prop where
  tag : tagNoCtl n.tag
  attrs : AttrsC p n.attrs
  tailAt : n.tailAtomic = false
  tail : P (n.tail.getD [])
  text : if n.textAtomic = true then AllC q (n.text.getD []) else P (n.text.getD [])
  atomCode : n.textAtomic = true → n.tag = codeTag
  codeAtom : n.tag = codeTag → n.textAtomic = true

/-- the invariant at one element -/
def XInv (p q : Char → Bool) (P : Str → Prop) (n : Node) : Prop := NX p q P n ∧ AtomPre n

/-- the invariant of the extended block parser on a tree -/
def TX (p q : Char → Bool) (P : Str → Prop) (n : Node) : Prop := n.Forall (XInv p q P)

/-- the key of a log entry as the later stages read it: the reference id, the footnote id, the abbreviation -/
def keyOf (e : Str × (Str × Option Str)) : Str :=
  if BlockExt.isFnEntry e || BlockExt.isAbEntry e then e.1.drop 2 else e.1

/-- every string of the log -/
def LogC (p : Char → Bool) (P : Str → Prop) (log : Refs) : Prop :=
  ∀ e ∈ log, AllC p (keyOf e) ∧ AllC p e.2.1 ∧ AllC p (e.2.2.getD []) ∧ (BlockExt.isFnEntry e = true → P e.2.1)

/-- characters of literal attribute names / values and of implied admonition titles -/
def litChar (c : Char) : Bool :=
  isAsciiAlnum c || c == '_' || c == '-' || c == ' ' || c == ':' || c == ';' || decide (128 ≤ c.toNat)

/-- `BlkB.StrDom` plus the closures that the extension processors need -/
structure StrDomX (p q : Char → Bool) (P : Str → Prop) : Prop extends StrDom p q P where
  /-- `str.lower()` stays inside the character class -/
  lower : ∀ c, p c = true → ∀ d ∈ lowerChar c, p d = true
  /-- strings of literal characters -/
  lit : ∀ s : Str, (∀ c ∈ s, litChar c = true) → P s

section basics
variable {p q : Char → Bool} {P : Str → Prop}

theorem StrDomX.closed (h : StrDomX p q P) : BlockExt.Closed P :=
  ⟨h.nil, fun ht hs => h.inf _ _ hs ht, fun ha hb => h.joinNl _ _ ha hb⟩

theorem StrDomX.litC (h : StrDomX p q P) {s : Str} (hs : ∀ c ∈ s, litChar c = true) : AllC p s :=
  h.allc _ (h.lit s hs)

theorem StrDomX.pl_of (_h : StrDomX p q P) {l : List Str} (hl : BlockExt.AllOk P l) : PL P l := hl

theorem attrsC_nil : AttrsC p [] := by intro kv hkv; cases hkv

theorem attrsC_one {k v : Str} (hk : AllC p k) (hv : AllC p v) : AttrsC p [(k, v)] := by
  intro kv hkv
  simp only [List.mem_singleton] at hkv
  subst hkv
  exact ⟨hk, hv⟩

theorem logC_nil : LogC p P [] := by intro e he; cases he

theorem LogC.snoc {log : Refs} (hl : LogC p P log) {e : Str × (Str × Option Str)}
    (he : AllC p (keyOf e) ∧ AllC p e.2.1 ∧ AllC p (e.2.2.getD []) ∧ (BlockExt.isFnEntry e = true → P e.2.1)) :
    LogC p P (log ++ [e]) := by
  intro x hx
  rcases List.mem_append.1 hx with hx | hx
  · exact hl x hx
  · simp only [List.mem_singleton] at hx
    subst hx
    exact he

theorem allC_lower (h : StrDomX p q P) : ∀ {s : Str}, AllC p s → AllC p (Py.lower s)
  | [], _ => by simp [Py.lower, allC_nil]
  | c :: s, hs => by
    have h1 := allC_cons.1 hs
    have : Py.lower (c :: s) = lowerChar c ++ Py.lower s := by simp [Py.lower]
    rw [this]
    exact allC_append.2 ⟨fun d hd => h.lower c h1.1 d hd, allC_lower h h1.2⟩

/-! ### `NX`, `BNodeXP` -/

theorem NX.bnodeXP (h : StrDom p q P) {n : Node} (hn : NX p q P n) : BNodeXP p q P n := by
  have ht := hn.text
  refine ⟨⟨hn.tag, hn.attrs, hn.tailAt, h.allc _ hn.tail, ?_, ?_, hn.codeAtom⟩, hn.tail, ?_⟩
  · cases ha : n.textAtomic with
    | true => simpa [ha] using ht
    | false =>
      simp only [ha, Bool.false_eq_true, if_false] at ht ⊢
      exact h.allc _ ht
  · intro ha; exact hn.atomCode ha
  · intro ha
    simpa [ha] using ht

theorem NX.notAtomic {n : Node} (h : NX p q P n) (ht : n.tag ≠ codeTag) : n.textAtomic = false := by
  cases hx : n.textAtomic with
  | false => rfl
  | true => exact absurd (h.atomCode hx) ht

theorem NX.textP {n : Node} (h : NX p q P n) (ha : n.textAtomic = false) : P (n.text.getD []) := by
  have := h.text
  simpa [ha] using this

theorem NX.textQ (hd : StrDom p q P) {n : Node} (h : NX p q P n) : AllC q (n.text.getD []) := by
  have := h.text
  split at this
  · exact this
  · exact fun c hc => hd.chars.sub c (hd.allc _ this c hc)

/-! ### trees -/

theorem tx_iff {n : Node} : TX p q P n ↔
    NX p q P n ∧ ∀ c ∈ n.children, TX p q P c ∧ (c.textAtomic = true → n.tag = preTag) := by
  simp only [TX, forall_iff n, XInv, AtomPre]
  constructor
  · rintro ⟨⟨h1, h2⟩, h3⟩; exact ⟨h1, fun c hc => ⟨h3 c hc, h2 c hc⟩⟩
  · rintro ⟨h1, h2⟩; exact ⟨⟨h1, fun c hc => (h2 c hc).2⟩, fun c hc => (h2 c hc).1⟩

theorem TX.nx {n : Node} (h : TX p q P n) : NX p q P n := (tx_iff.1 h).1

theorem TX.child {n c : Node} (h : TX p q P n) (hc : c ∈ n.children) :
    TX p q P c ∧ (c.textAtomic = true → n.tag = preTag) := (tx_iff.1 h).2 c hc

theorem TX.last {n c : Node} (h : TX p q P n) (hl : n.last? = some c) :
    TX p q P c ∧ (c.textAtomic = true → n.tag = preTag) := h.child (List.mem_of_getLast? hl)

/-- the last child of an element that is not a `pre` has no atomic text -/
theorem TX.lastNA {n c : Node} (h : TX p q P n) (hl : n.last? = some c) (ht : n.tag ≠ preTag) :
    c.textAtomic = false := by
  cases hx : c.textAtomic with
  | false => rfl
  | true => exact absurd ((h.last hl).2 hx) ht

/-- same tag and children, other fields changed -/
theorem TX.congr {n n' : Node} (h : TX p q P n) (hch : n'.children = n.children) (ht : n'.tag = n.tag)
    (hb : NX p q P n') : TX p q P n' := by
  refine tx_iff.2 ⟨hb, ?_⟩
  rw [hch, ht]; exact (tx_iff.1 h).2

theorem tx_leaf {n : Node} (hb : NX p q P n) (hc : n.children = []) : TX p q P n := by
  refine tx_iff.2 ⟨hb, ?_⟩
  rw [hc]; intro c hc; cases hc

theorem TX.append {n c : Node} (h : TX p q P n) (hc : TX p q P c) (ha : c.textAtomic = false) :
    TX p q P (n.append c) := by
  refine tx_iff.2 ⟨⟨h.nx.tag, h.nx.attrs, h.nx.tailAt, h.nx.tail, h.nx.text, h.nx.atomCode, h.nx.codeAtom⟩, ?_⟩
  intro d hd
  simp only [Node.append, List.mem_append, List.mem_singleton] at hd
  rcases hd with hd | rfl
  · exact h.child hd
  · exact ⟨hc, fun h' => by simp [ha] at h'⟩

theorem TX.setLast {n c : Node} (h : TX p q P n) (hc : TX p q P c) (ha : c.textAtomic = true → n.tag = preTag) :
    TX p q P (n.setLast c) := by
  refine tx_iff.2 ⟨⟨h.nx.tag, h.nx.attrs, h.nx.tailAt, h.nx.tail, h.nx.text, h.nx.atomCode, h.nx.codeAtom⟩, ?_⟩
  intro d hd
  simp only [Node.setLast, List.mem_append, List.mem_singleton] at hd
  rcases hd with hd | rfl
  · exact h.child (List.dropLast_subset _ hd)
  · exact ⟨hc, ha⟩

/-- replace the last child by an element without atomic text -/
theorem TX.setLastNA {n c : Node} (h : TX p q P n) (hc : TX p q P c) (ha : c.textAtomic = false) :
    TX p q P (n.setLast c) := h.setLast hc (fun h' => by rw [ha] at h'; cases h')

/-- a fresh element without children and tail, with attributes and a non-atomic text -/
theorem tx_fresh (hnil : P []) {t : Tag} (ht : tagNoCtl t) (hc : t ≠ codeTag) {attrs : List (Str × Str)}
    (hat : AttrsC p attrs) {txt : Option Str} (hx : P (txt.getD [])) :
    TX p q P { tag := t, attrs := attrs, text := txt } := by
  refine tx_leaf ⟨ht, hat, rfl, hnil, ?_, ?_, fun h => absurd h hc⟩ rfl
  · simpa using hx
  · intro h; cases h

theorem tx_text (hnil : P []) {t : Tag} (ht : tagNoCtl t) (hc : t ≠ codeTag) {txt : Option Str}
    (hx : P (txt.getD [])) : TX p q P { tag := t, text := txt } :=
  tx_fresh hnil ht hc attrsC_nil hx

theorem tx_el (hnil : P []) (t : String) (h : NoCtl t.toList ∧ Tag.name t.toList ≠ codeTag) :
    TX p q P (Node.el t) :=
  tx_text (txt := none) hnil (tagNoCtl_el t h.1) h.2 hnil

theorem tx_mkText (hnil : P []) (t : String) (h : NoCtl t.toList ∧ Tag.name t.toList ≠ codeTag) {txt : Str}
    (hx : P txt) : TX p q P (mkText t txt) :=
  tx_text (txt := some txt) hnil (tagNoCtl_el t h.1) h.2 hx

theorem nodeAt_tx : ∀ (k : Nat) {n : Node}, TX p q P n → TX p q P (nodeAt k n)
  | 0, _, h => h
  | k + 1, n, h => by
    simp only [nodeAt]
    split
    · next c hc => exact nodeAt_tx k (h.last hc).1
    · exact h

theorem updPath_tx (f : Node → Node) : ∀ (k : Nat) {n : Node}, TX p q P n →
    (TX p q P (f (nodeAt k n)) ∧ (f (nodeAt k n)).textAtomic = (nodeAt k n).textAtomic) →
    TX p q P (updPath f k n) ∧ (updPath f k n).textAtomic = n.textAtomic
  | 0, _, _, hf => hf
  | k + 1, n, h, hf => by
    simp only [updPath]
    simp only [nodeAt] at hf
    split
    · next c hc =>
      simp only [hc] at hf
      have hl := h.last hc
      have ih := updPath_tx f k hl.1 hf
      exact ⟨h.setLast ih.1 (fun ha => hl.2 (ih.2 ▸ ha)), rfl⟩
    · exact ⟨h, rfl⟩

end basics

/-! ### the processors -/

section processors
variable {p q : Char → Bool} {P : Str → Prop}

/-- what a call of the parser gives back -/
def OutX (p q : Char → Bool) (P : Str → Prop) (r : Node × Refs) : Prop :=
  TX p q P r.1 ∧ r.1.textAtomic = false ∧ LogC p P r.2

/-- the callback preserves the invariant -/
def PresX (p q : Char → Bool) (P : Str → Prop) (pb : PB) : Prop :=
  ∀ state refs parent blocks r, TX p q P parent → parent.textAtomic = false → LogC p P refs → PL P blocks →
    pb state refs parent blocks = some r → OutX p q P r

/-- what one turn of the loop gives back -/
def ResX (p q : Char → Bool) (P : Str → Prop) (r : Node × Refs × List Str) : Prop :=
  TX p q P r.1 ∧ r.1.textAtomic = false ∧ LogC p P r.2.1 ∧ PL P r.2.2

theorem pl_consIf {b : Str} {rest : List Str} (c : Bool) (hb : P b) (hrest : PL P rest) :
    PL P (if c = true then rest else b :: rest) := by
  split
  · exact hrest
  · exact pl_cons.2 ⟨hb, hrest⟩

theorem setCodeText_tx {parent sib code : Node} {t : Str} (hP : TX p q P parent)
    (hl : parent.last? = some sib) (hc : preCode sib = some code) (ht : AllC q t) :
    TX p q P (setCodeText parent sib code t) := by
  obtain ⟨hs, hct, tl, hch⟩ := preCode_some hc
  have hsib := hP.last hl
  have hcode := (hsib.1.child (c := code) (by rw [hch]; simp)).1
  have hcb := hcode.nx
  have hcode' : TX p q P { code with text := some t, textAtomic := true } :=
    hcode.congr rfl rfl ⟨hcb.tag, hcb.attrs, hcb.tailAt, hcb.tail, by simpa using ht, fun _ => hct, fun _ => rfl⟩
  unfold setCodeText
  have hsn := hsib.1.nx
  refine hP.setLast (tx_iff.2 ⟨⟨hsn.tag, hsn.attrs, hsn.tailAt, hsn.tail, hsn.text, hsn.atomCode, hsn.codeAtom⟩, ?_⟩)
    hsib.2
  intro d hd
  simp only [hch, List.drop_succ_cons, List.drop_zero, List.mem_cons] at hd
  rcases hd with rfl | hd
  · exact ⟨hcode', fun _ => hs⟩
  · exact hsib.1.child (by rw [hch]; simp [hd])

theorem preCode_textQX (h : StrDom p q P) {parent sib code : Node} (hP : TX p q P parent)
    (hl : parent.last? = some sib) (hc : preCode sib = some code) : AllC q (fmtOpt code.text) := by
  obtain ⟨_, _, tl, hch⟩ := preCode_some hc
  have hcode := ((hP.last hl).1.child (c := code) (by rw [hch]; simp)).1
  exact allC_fmtOpt h.chars.none (hcode.nx.textQ h)

theorem tx_pre (hnil : P []) {t : Str} (ht : AllC q t) :
    TX p q P { Node.el "pre" with children := [{ Node.el "code" with text := some t, textAtomic := true }] } := by
  refine tx_iff.2 ⟨⟨tagNoCtl_el "pre" (by decide), attrsC_nil, rfl, hnil, hnil, fun h => (by cases h),
    fun h => absurd h (show Tag.name "pre".toList ≠ Tag.name "code".toList by decide)⟩, ?_⟩
  intro c hc
  simp only [List.mem_singleton] at hc
  subst hc
  refine ⟨tx_leaf ⟨tagNoCtl_el "code" (by decide), attrsC_nil, rfl, hnil, by simpa using ht, fun _ => rfl,
    fun _ => rfl⟩ rfl,
    fun _ => rfl⟩

theorem emptyP_x (h : StrDom p q P) {refs : Refs} {parent : Node} {b : Str} {rest : List Str}
    (hP : TX p q P parent) (hA : parent.textAtomic = false) (hR : LogC p P refs) (hb : P b)
    (hrest : PL P rest) : ResX p q P (emptyP refs parent b rest) := by
  have key : PL P (if (b.drop 1).isEmpty then rest else b.drop 1 :: rest) := pl_consIf _ (h.drop hb 1) hrest
  have hfill : AllC q (if b.isEmpty then ['\n', '\n'] else ['\n']) := by
    have := h.chars.sub _ h.chars.nl
    split <;> simp [AllC, this]
  simp only [emptyP]
  split
  · next sib hl =>
    split
    · next code hc =>
      exact ⟨setCodeText_tx hP hl hc (allC_append.2 ⟨preCode_textQX h hP hl hc, hfill⟩), hA, hR, key⟩
    · exact ⟨hP, hA, hR, key⟩
  · exact ⟨hP, hA, hR, key⟩

theorem codeP_x (h : StrDom p q P) {tab : Nat} {refs : Refs} {parent : Node} {b : Str} {rest : List Str}
    (hP : TX p q P parent) (hA : parent.textAtomic = false) (hR : LogC p P refs) (hb : P b)
    (hrest : PL P rest) : ResX p q P (codeP tab refs parent b rest) := by
  have hd := h.detab tab hb
  have key : PL P (if (detab tab b).2.isEmpty then rest else (detab tab b).2 :: rest) := pl_consIf _ hd.2 hrest
  have hesc : AllC q (codeEscape (rstrip (detab tab b).1)) :=
    h.chars.esc _ (fun c hc => h.chars.sub c ((h.allc _ hd.1).rstrip c hc))
  have hnl : AllC q ['\n'] := AllC.nlStr (h.chars.sub _ h.chars.nl)
  have hfresh := hP.append (tx_pre (p := p) (P := P) h.nil (allC_append.2 ⟨hesc, hnl⟩)) rfl
  simp only [codeP]
  split
  · next sib hl =>
    split
    · next code hc =>
      refine ⟨setCodeText_tx hP hl hc (allC_append.2 ⟨allC_append.2 ⟨preCode_textQX h hP hl hc, ?_⟩, hnl⟩),
        hA, hR, key⟩
      exact allC_cons.2 ⟨h.chars.sub _ h.chars.nl, hesc⟩
    · exact ⟨hfresh, hA, hR, key⟩
  · exact ⟨hfresh, hA, hR, key⟩

theorem optCall_x {pb : PB} (hpb : PresX p q P pb) {state : List BState} {refs : Refs} {parent : Node}
    (hP : TX p q P parent) (hA : parent.textAtomic = false) (hR : LogC p P refs) {x : Str} (hx : P x)
    {r : Node × Refs}
    (hc : (if x.isEmpty then some (parent, refs) else pb state refs parent [x]) = some r) : OutX p q P r := by
  split at hc
  · cases hc; exact ⟨hP, hA, hR⟩
  · exact hpb _ _ _ _ _ hP hA hR (pl_one hx) hc

theorem hashP_x (h : StrDom p q P) {tab : Nat} {pb : PB} (hpb : PresX p q P pb) {state : List BState}
    {refs : Refs} {parent : Node} {b : Str} {rest : List Str} {m : Nat × Nat × Nat × Str}
    (hP : TX p q P parent) (hA : parent.textAtomic = false) (hR : LogC p P refs) (hb : P b)
    (hrest : PL P rest) (hm : hashSearch b = some m) {r : Node × Refs × List Str}
    (hr : hashP tab pb state refs parent b rest m = some r) : ResX p q P r := by
  obtain ⟨st, en, lv, header⟩ := m
  have hhd : P header := h.inf _ _ hb (hashSearch_infix hm)
  simp only [hashP] at hr
  split at hr
  · cases hr
  · next parent' refs' hcall =>
    obtain ⟨h1, h2, h3⟩ := optCall_x hpb hP hA hR (h.take hb st) hcall
    cases hr
    refine ⟨h1.append (tx_text h.nil (tagNoCtl_hTag lv) (hTag_ne_code lv) (txt := some (strip header))
      (h.strip hhd)) rfl, h2, h3, ?_⟩
    show PL P (if _ then _ else _)
    split
    · exact hrest
    · refine pl_cons.2 ⟨?_, hrest⟩
      split
      · exact h.looseDetab tab (h.drop hb en) 1
      · exact h.drop hb en

theorem setextP_x (h : StrDom p q P) {refs : Refs} {parent : Node} {b : Str} {rest : List Str}
    (hP : TX p q P parent) (hA : parent.textAtomic = false) (hR : LogC p P refs) (hb : P b)
    (hrest : PL P rest) : ResX p q P (setextP refs parent b rest) := by
  simp only [setextP]
  refine ⟨hP.append (tx_text h.nil (tagNoCtl_hTag _) (hTag_ne_code _) (txt := some (strip ((lines b).getD 0 [])))
    (h.strip (h.getD (h.lines hb) 0))) rfl, hA, hR, ?_⟩
  show PL P (if _ then _ else _)
  split
  · exact pl_cons.2 ⟨h.joinLines ((h.lines hb).mono (List.drop_subset _ _)), hrest⟩
  · exact hrest

theorem hrP_x (h : StrDom p q P) {pb : PB} (hpb : PresX p q P pb) {state : List BState}
    {refs : Refs} {parent : Node} {b : Str} {rest : List Str} {m : Nat × Nat}
    (hP : TX p q P parent) (hA : parent.textAtomic = false) (hR : LogC p P refs) (hb : P b)
    (hrest : PL P rest) {r : Node × Refs × List Str}
    (hr : hrP pb state refs parent b rest m = some r) : ResX p q P r := by
  obtain ⟨st, en⟩ := m
  simp only [hrP] at hr
  split at hr
  · cases hr
  · next parent' refs' hcall =>
    obtain ⟨h1, h2, h3⟩ := optCall_x hpb hP hA hR (h.rstripC (h.take hb st) '\n') hcall
    cases hr
    refine ⟨h1.append (tx_el h.nil "hr" (by decide)) rfl, h2, h3, ?_⟩
    show PL P (if _ then _ else _)
    split
    · exact hrest
    · exact pl_cons.2 ⟨h.lstripC (h.drop hb en) '\n', hrest⟩

theorem keyOf_sub (e : Str × (Str × Option Str)) : keyOf e ⊆ e.1 := by
  unfold keyOf
  split
  · exact List.drop_subset _ _
  · exact fun _ hx => hx

theorem refMatchAt_infix {s : Str} {p0 e : Nat} {ident url : Str} {t5 t6 : Option Str}
    (h : refMatchAt s p0 = some (e, ident, url, t5, t6)) : ident <:+: s ∧ url <:+: s := by
  unfold refMatchAt at h
  simp only [] at h
  split at h
  · cases h
  · split at h
    · cases h
    · split at h
      · cases h
      · obtain ⟨k2, _, _, hk3⟩ := firstDown_some h
        obtain ⟨u0, _, hu2⟩ := List.exists_of_findSome?_eq_some hk3
        obtain ⟨u2, _, _, hv3⟩ := firstDown_some hu2
        split at hv3
        · next e' t5' t6' ht =>
          cases hv3
          exact ⟨(List.take_prefix _ _).isInfix.trans (List.drop_suffix _ _).isInfix,
            (List.take_prefix _ _).isInfix.trans (List.drop_suffix _ _).isInfix⟩
        · cases hv3

theorem refSearch_infix {s : Str} {st en : Nat} {ident url : Str} {t5 t6 : Option Str}
    (h : refSearch s = some (st, en, ident, url, t5, t6)) : ident <:+: s ∧ url <:+: s := by
  simp only [refSearch] at h
  obtain ⟨p0, _, hp⟩ := List.exists_of_findSome?_eq_some h
  split at hp
  · next hm => cases hp; exact refMatchAt_infix hm
  · cases hp

theorem referenceP_x (h : StrDomX p q P) {refs : Refs} {parent : Node} {b : Str} {rest : List Str}
    {m : Nat × Nat × Str × Str × Option Str × Option Str}
    (hP : TX p q P parent) (hA : parent.textAtomic = false) (hR : LogC p P refs) (hb : P b)
    (hrest : PL P rest) (hm : refSearch b = some m) : ResX p q P (referenceP refs parent b rest m) := by
  obtain ⟨st, en, ident, link, t5, t6⟩ := m
  obtain ⟨hbr, hurl, ht5, ht6⟩ := refSearch_sub hm
  obtain ⟨hid, hurl'⟩ := refSearch_infix hm
  have hbc := h.allc _ hb
  simp only [referenceP]
  refine ⟨hP, hA, ?_, ?_⟩
  · refine hR.snoc ⟨?_, ((hbc.mono hurl).lstripC '<').rstripC '>', ?_, ?_⟩
    · exact (allC_lower h (hbc.mono hid.subset).strip).mono (keyOf_sub _)
    · show AllC p ((if _ then t5 else t6).getD [])
      split
      · exact hbc.mono ht5
      · exact hbc.mono ht6
    · intro _
      exact h.rstripP (h.lstripP (h.inf _ _ hb hurl') _) _
  · show PL P (if _ then _ else _)
    have h1 : PL P (if isBlank (b.drop en) then rest else lstripC '\n' (b.drop en) :: rest) :=
      pl_consIf _ (h.lstripC (h.drop hb en) '\n') hrest
    split
    · exact h1
    · exact pl_cons.2 ⟨h.rstripC (h.take hb st) '\n', h1⟩

theorem paraP_x (h : StrDom p q P) {state : List BState} {refs : Refs} {parent : Node} {b : Str} {rest : List Str}
    (hP : TX p q P parent) (hA : parent.textAtomic = false) (hR : LogC p P refs) (hb : P b)
    (hrest : PL P rest) : ResX p q P (paraP state refs parent b rest) := by
  simp only [paraP]
  split
  · exact ⟨hP, hA, hR, hrest⟩
  · split
    · split
      · next sib hl =>
        have hs := hP.last hl
        have hsb := hs.1.nx
        refine ⟨hP.setLast (hs.1.congr rfl rfl ?_) hs.2, hA, hR, hrest⟩
        refine ⟨hsb.tag, hsb.attrs, rfl, ?_, hsb.text, hsb.atomCode, hsb.codeAtom⟩
        show P (if _ then _ else _)
        split
        · next ht => rw [fmtOpt_truthy ht]; exact h.joinNl _ _ hsb.tail hb
        · exact h.joinNl [] _ h.nil hb
      · have hpb := hP.nx
        refine ⟨hP.congr rfl rfl ?_, rfl, hR, hrest⟩
        refine ⟨hpb.tag, hpb.attrs, hpb.tailAt, hpb.tail, ?_, fun h' => (by cases h'),
          fun h' => by have := hpb.codeAtom h'; rw [hA] at this; cases this⟩
        show if false = true then _ else P (if _ then _ else _)
        simp only [Bool.false_eq_true, if_false]
        split
        · next ht => rw [fmtOpt_truthy ht]; exact h.joinNl _ _ (hpb.textP hA) hb
        · exact h.lstrip hb
    · exact ⟨hP.append (tx_mkText h.nil "p" (by decide) (h.lstrip hb)) rfl, hA, hR, hrest⟩

end processors

/-! ### lists, block quotes, list indentation -/

section recursive
variable {p q : Char → Bool} {P : Str → Prop}

theorem textToP_tx (hnil : P []) {li : Node} (hL : TX p q P li) (hA : li.textAtomic = false) :
    TX p q P (textToP li) ∧ (textToP li).textAtomic = false ∧ (textToP li).tag = li.tag := by
  unfold textToP
  split
  · have hb := hL.nx
    refine ⟨tx_iff.2 ⟨⟨hb.tag, hb.attrs, hb.tailAt, hb.tail, by simpa using hnil, fun h => (by cases h),
      fun h' => by have := hb.codeAtom h'; rw [hA] at this; cases this⟩, ?_⟩, rfl, rfl⟩
    intro c hc
    simp only [List.mem_cons] at hc
    rcases hc with rfl | hc
    · refine ⟨tx_leaf ⟨tagNoCtl_el "p" (by decide), attrsC_nil, rfl, hnil, ?_, ?_,
        fun h' => absurd h' (show Tag.name "p".toList ≠ Tag.name "code".toList by decide)⟩ rfl, ?_⟩
      · simp only [hA]; simpa using hb.textP hA
      · intro h'; simp only [hA] at h'; cases h'
      · intro h'; simp only [hA] at h'; cases h'
    · exact hL.child hc
  · exact ⟨hL, hA, rfl⟩

theorem tailFix_tx (h : StrDom p q P) {li : Node} (hL : TX p q P li) :
    TX p q P (tailFix li) ∧ (tailFix li).textAtomic = li.textAtomic ∧ (tailFix li).tag = li.tag := by
  unfold tailFix
  split
  · next lch hl =>
    split
    · have hc := hL.last hl
      have hcb := hc.1.nx
      have hlch : TX p q P { lch with tail := some [], tailAtomic := false } :=
        hc.1.congr rfl rfl ⟨hcb.tag, hcb.attrs, rfl, h.nil, hcb.text, hcb.atomCode, hcb.codeAtom⟩
      exact ⟨(hL.setLast hlch hc.2).append (tx_mkText h.nil "p" (by decide) (h.lstrip hcb.tail)) rfl, rfl, rfl⟩
    · exact ⟨hL, rfl, rfl⟩
  · exact ⟨hL, rfl, rfl⟩

theorem fixLast_tx (h : StrDom p q P) {lst : Node} (hL : TX p q P lst) (ht : lst.tag ≠ preTag) :
    TX p q P (fixLast lst) ∧ (fixLast lst).textAtomic = lst.textAtomic ∧ (fixLast lst).tag = lst.tag := by
  unfold fixLast
  split
  · next li hl =>
    have hc := hL.last hl
    have hna := hL.lastNA hl ht
    obtain ⟨t1, t2, t3⟩ := textToP_tx h.nil hc.1 hna
    obtain ⟨f1, f2, f3⟩ := tailFix_tx h t1
    exact ⟨hL.setLast f1 (fun ha => by rw [f2, t2] at ha; cases ha), rfl, rfl⟩
  · exact ⟨hL, rfl, rfl⟩

theorem listItems_x (h : StrDom p q P) {tab : Nat} {pb : PB} (hpb : PresX p q P pb) {st2 : List BState} :
    ∀ (items : List Str) (refs : Refs) (lst : Node) (r : Node × Refs), TX p q P lst → lst.tag ≠ preTag →
      LogC p P refs → PL P items → listItems tab pb st2 refs lst items = some r →
      TX p q P r.1 ∧ r.1.textAtomic = lst.textAtomic ∧ r.1.tag = lst.tag ∧ LogC p P r.2
  | [], refs, lst, r, hL, _, hR, _, hr => by
    simp only [listItems] at hr
    cases hr
    exact ⟨hL, rfl, rfl, hR⟩
  | item :: items, refs, lst, r, hL, ht, hR, hI, hr => by
    have hI' := pl_cons.1 hI
    simp only [listItems] at hr
    split at hr
    · split at hr
      · next l hl =>
        split at hr
        · next li refs' hcall =>
          have hc := hL.last hl
          obtain ⟨o1, o2, o3⟩ := hpb _ _ _ _ _ hc.1 (hL.lastNA hl ht) hR (pl_one hI'.1) hcall
          exact listItems_x h hpb items refs' (lst.setLast li) r (hL.setLastNA o1 o2) ht o3 hI'.2 hr
        · cases hr
      · exact listItems_x h hpb items refs lst r hL ht hR hI'.2 hr
    · split at hr
      · next li refs' hcall =>
        obtain ⟨o1, o2, o3⟩ := hpb _ _ _ _ _ (tx_el h.nil "li" (by decide)) rfl hR (pl_one hI'.1) hcall
        exact listItems_x h hpb items refs' (lst.append li) r (hL.append o1 o2) ht o3 hI'.2 hr
      · cases hr

/-- the sibling list of the parameterised `OListProcessor.run` -/
def sibListX (ps : BlockExt.ListParams) (parent : Node) : Option Node :=
  match parent.last? with
  | some sib => if ps.isSib sib then some sib else none
  | none => none

/-- the new list element of the parameterised `OListProcessor.run` (`start` attribute of a sane `ol`) -/
def freshList (ps : BlockExt.ListParams) (tab : Nat) (tag : String) (b : Str) : Node :=
  if !ps.lazy && BlockExt.startsWithOf tab tag b != ['1'] then
    { Node.el tag with attrs := [("start".toList, BlockExt.startsWithOf tab tag b)] }
  else Node.el tag

theorem listPX_eq (ps : BlockExt.ListParams) (tab : Nat) (pb : PB) (state : List BState) (refs : Refs) (parent : Node)
    (b : Str) (rest : List Str) (tag : String) : BlockExt.listPX ps tab pb state refs parent b rest tag =
    match sibListX ps parent with
    | some lst =>
      match pb (state ++ [.looselist]) refs (Node.el "li") [(BlockExt.getItemsX ps tab b).headD []] with
      | none => none
      | some (newli, refs) =>
        match listItems tab pb (state ++ [.list]) refs ((fixLast lst).append newli)
            ((BlockExt.getItemsX ps tab b).drop 1) with
        | some (lst, refs) => some (parent.setLast lst, refs, rest)
        | none => none
    | none =>
      if isListTag parent then
        match listItems tab pb (state ++ [.list]) refs parent (BlockExt.getItemsX ps tab b) with
        | some (lst, refs) => some (lst, refs, rest)
        | none => none
      else
        match listItems tab pb (state ++ [.list]) refs (freshList ps tab tag b) (BlockExt.getItemsX ps tab b) with
        | some (lst, refs) => some (parent.append lst, refs, rest)
        | none => none := rfl

theorem sibListX_some {ps : BlockExt.ListParams} {parent sib : Node} (h : sibListX ps parent = some sib) :
    parent.last? = some sib ∧ isListTag sib = true := by
  simp only [sibListX] at h
  split at h
  · next s hl =>
    split at h
    · next ht =>
      cases h
      refine ⟨hl, ?_⟩
      simp only [BlockExt.ListParams.isSib, Bool.or_eq_true, Bool.and_eq_true] at ht
      simp only [isListTag, Bool.or_eq_true]
      rcases ht with ht | ht
      · exact Or.inr ht.2
      · exact Or.inl ht.2
    · cases h
  · cases h

theorem isListTag_ne_code {n : Node} (h : isListTag n = true) : n.tag ≠ codeTag := by
  rcases isListTag_tag h with h | h <;> rw [h] <;> decide

theorem isItemTag_ne_code {n : Node} (h : isItemTag n = true) : n.tag ≠ codeTag := by
  rw [isItemTag, isTag_iff] at h
  rw [h]; decide

/-- the marker of a list item is made of characters of the line -/
theorem listItemMatch_marker_sub {tab : Nat} {ol ul : Bool} {s m c : Str}
    (h : listItemMatch tab ol ul s = some (m, c)) : m ⊆ s := by
  rw [listItemMatch_eq] at h
  split at h
  · cases h
  · next marker r hm =>
    have h0 : afterSp (some (tab - 1)) s ⊆ s := List.drop_subset _ _
    have hmk : marker ⊆ s := by
      split at hm
      · next m' hm' =>
        cases hm
        split at hm'
        · simp only [olMarker] at hm'
          split at hm'
          · cases hm'; exact fun x hx => h0 (List.take_subset _ _ hx)
          · cases hm'
        · cases hm'
      · split at hm
        · generalize afterSp (some (tab - 1)) s = s1 at hm h0
          cases s1 with
          | nil => simp [ulMarker] at hm
          | cons d t =>
            simp only [ulMarker] at hm
            split at hm
            · cases hm
              intro x hx
              simp only [List.mem_singleton] at hx
              subst hx
              exact h0 (by simp)
            · cases hm
        · cases hm
    split at h
    · cases h
    · cases h; exact hmk

theorem freshList_tx (h : StrDomX p q P) (ps : BlockExt.ListParams) (tab : Nat) {tag : String}
    (htag : NoCtl tag.toList ∧ Tag.name tag.toList ≠ codeTag) {b : Str} (hb : P b) :
    TX p q P (freshList ps tab tag b) ∧ (freshList ps tab tag b).tag = .name tag.toList ∧
      (freshList ps tab tag b).textAtomic = false := by
  unfold freshList
  split
  · refine ⟨tx_fresh (txt := none) h.nil (tagNoCtl_el tag htag.1) htag.2 (attrsC_one ?_ ?_) h.nil, rfl, rfl⟩
    · exact h.litC (by decide)
    · unfold BlockExt.startsWithOf
      split
      · split
        · next marker _ hm =>
          have hbc := h.allc _ hb
          have h1 : firstLine b ⊆ b := List.takeWhile_subset _
          exact ((hbc.mono h1).mono (listItemMatch_marker_sub hm)).takeWhile _
        · exact h.litC (by decide)
      · exact h.litC (by decide)
  · exact ⟨tx_el h.nil tag htag, rfl, rfl⟩

theorem listPX_x (h : StrDomX p q P) (ps : BlockExt.ListParams) {tab : Nat} {pb : PB} (hpb : PresX p q P pb)
    {state : List BState} {refs : Refs} {parent : Node} {b : Str} {rest : List Str} {tag : String}
    (htag : NoCtl tag.toList ∧ Tag.name tag.toList ≠ codeTag)
    (htag' : Tag.name tag.toList ≠ preTag)
    (hP : TX p q P parent) (hA : parent.textAtomic = false) (hR : LogC p P refs) (hb : P b)
    (hrest : PL P rest) {r : Node × Refs × List Str}
    (hr : BlockExt.listPX ps tab pb state refs parent b rest tag = some r) : ResX p q P r := by
  have hd := h.toStrDom
  have hitems : PL P (BlockExt.getItemsX ps tab b) := BlockExt.ok_getItemsX h.closed ps tab hb
  rw [listPX_eq] at hr
  split at hr
  · next lst hs =>
    obtain ⟨hl, hlt⟩ := sibListX_some hs
    have hc := hP.last hl
    obtain ⟨f1, f2, f3⟩ := fixLast_tx hd hc.1 (isListTag_notPre hlt)
    split at hr
    · cases hr
    · next newli refs' hcall =>
      obtain ⟨o1, o2, o3⟩ := hpb _ _ _ _ _ (tx_el h.nil "li" (by decide)) rfl hR (pl_one (hd.headD hitems)) hcall
      split at hr
      · next lst' refs'' hli =>
        obtain ⟨i1, i2, i3, i4⟩ := listItems_x hd hpb _ _ _ _ (f1.append o1 o2)
          (by rw [append_tag, f3]; exact isListTag_notPre hlt) o3 (hitems.mono (List.drop_subset _ _)) hli
        cases hr
        refine ⟨hP.setLastNA i1 ?_, hA, i4, hrest⟩
        rw [i2, append_textAtomic, f2]
        exact hc.1.nx.notAtomic (isListTag_ne_code hlt)
      · cases hr
  · split at hr
    · next hlt =>
      split at hr
      · next lst' refs'' hli =>
        obtain ⟨i1, i2, i3, i4⟩ := listItems_x hd hpb _ _ _ _ hP (isListTag_notPre hlt) hR hitems hli
        cases hr
        exact ⟨i1, i2.trans hA, i4, hrest⟩
      · cases hr
    · obtain ⟨g1, g2, g3⟩ := freshList_tx h ps tab htag hb
      split at hr
      · next lst' refs'' hli =>
        obtain ⟨i1, i2, i3, i4⟩ := listItems_x hd hpb _ _ _ _ g1 (by rw [g2]; exact htag') hR hitems hli
        cases hr
        exact ⟨hP.append i1 (i2.trans g3), hA, i4, hrest⟩
      · cases hr

theorem listP_x (h : StrDomX p q P) {tab : Nat} {pb : PB} (hpb : PresX p q P pb)
    {state : List BState} {refs : Refs} {parent : Node} {b : Str} {rest : List Str} {tag : String}
    (htag : NoCtl tag.toList ∧ Tag.name tag.toList ≠ codeTag)
    (htag' : Tag.name tag.toList ≠ preTag)
    (hP : TX p q P parent) (hA : parent.textAtomic = false) (hR : LogC p P refs) (hb : P b)
    (hrest : PL P rest) {r : Node × Refs × List Str}
    (hr : listP tab pb state refs parent b rest tag = some r) : ResX p q P r := by
  rw [← BlockExt.listPX_default] at hr
  exact listPX_x h .default hpb htag htag' hP hA hR hb hrest hr

theorem parseChunk_x (h : StrDom p q P) {pb : PB} (hpb : PresX p q P pb) {state : List BState} {refs : Refs}
    {parent : Node} {text : Str} (hP : TX p q P parent) (hA : parent.textAtomic = false) (hR : LogC p P refs)
    (ht : P text) {r : Node × Refs} (hr : parseChunk pb state refs parent text = some r) : OutX p q P r :=
  hpb _ _ _ _ _ hP hA hR (h.splitS ht (by simp)) hr

theorem quoteP_x (h : StrDom p q P) {pb : PB} (hpb : PresX p q P pb) {state : List BState}
    {refs : Refs} {parent : Node} {b : Str} {rest : List Str} {q0 : Nat}
    (hP : TX p q P parent) (hA : parent.textAtomic = false) (hR : LogC p P refs) (hb : P b)
    (hrest : PL P rest) {r : Node × Refs × List Str}
    (hr : quoteP pb state refs parent b rest q0 = some r) : ResX p q P r := by
  have hblock := h.quoteBlock (h.drop hb q0)
  simp only [quoteP] at hr
  split at hr
  · cases hr
  · next parent' refs' hcall =>
    obtain ⟨h1, h2, h3⟩ := hpb _ _ _ _ _ hP hA hR (pl_one (h.take hb q0)) hcall
    split at hr
    · next sib hs =>
      have hsib : parent'.last? = some sib ∧ sib.isTag "blockquote" = true := by
        split at hs
        · next s hl =>
          split at hs
          · next ht => cases hs; exact ⟨hl, ht⟩
          · cases hs
        · cases hs
      have hc := h1.last hsib.1
      have hna : sib.textAtomic = false := by
        apply hc.1.nx.notAtomic
        rw [isTag_iff.1 hsib.2]; decide
      split at hr
      · next quote refs'' hq =>
        obtain ⟨o1, o2, o3⟩ := parseChunk_x h hpb hc.1 hna h3 hblock hq
        cases hr
        exact ⟨h1.setLastNA o1 o2, h2, o3, hrest⟩
      · cases hr
    · split at hr
      · next quote refs'' hq =>
        obtain ⟨o1, o2, o3⟩ := parseChunk_x h hpb (tx_el h.nil "blockquote" (by decide)) rfl h3 hblock hq
        cases hr
        exact ⟨h1.append o1 o2, h2, o3, hrest⟩
      · cases hr

/-- `ListIndentProcessor.run` with the tag lists as parameters: list and item tags are not `code`, the tag of a new
    item is a literal -/
theorem indentPX_x (h : StrDom p q P) {isL isI : Node → Bool} {itemTag : String}
    (hL : ∀ n, isL n = true → n.tag ≠ codeTag) (hI : ∀ n, isI n = true → n.tag ≠ codeTag)
    (hit : NoCtl itemTag.toList ∧ Tag.name itemTag.toList ≠ codeTag)
    {tab : Nat} {pb : PB} (hpb : PresX p q P pb) {state : List BState}
    {refs : Refs} {parent : Node} {b : Str} {rest : List Str}
    (hP : TX p q P parent) (hA : parent.textAtomic = false) (hR : LogC p P refs) (hb : P b)
    (hrest : PL P rest) {r : Node × Refs × List Str}
    (hr : BlockExt.indentPX isL isI itemTag tab pb state refs parent b rest = some r) : ResX p q P r := by
  unfold BlockExt.indentPX at hr
  generalize BlockExt.getLevelX isL isI tab state parent b = ls at hr
  obtain ⟨level, steps⟩ := ls
  simp only [] at hr
  have hblock := h.looseDetab tab hb level
  have hS := nodeAt_tx steps hP
  split at hr
  · split at hr
    · next c hs =>
      have hc : parent.last? = some c ∧ isL c = true := by
        split at hs
        · next s hl =>
          split at hs
          · next ht => cases hs; exact ⟨hl, ht⟩
          · cases hs
        · cases hs
      have hl := hP.last hc.1
      split at hr
      · next sub refs' hq =>
        obtain ⟨o1, o2, o3⟩ := hpb _ _ _ _ _ hl.1 (hl.1.nx.notAtomic (hL _ hc.2)) hR (pl_one hblock) hq
        cases hr
        exact ⟨hP.setLastNA o1 o2, hA, o3, hrest⟩
      · cases hr
    · split at hr
      · next par' refs' hq =>
        obtain ⟨o1, o2, o3⟩ := hpb _ _ _ _ _ hP hA hR (pl_one hblock) hq
        cases hr
        exact ⟨o1, o2, o3, hrest⟩
      · cases hr
  · split at hr
    · next hit' =>
      split at hr
      · next sub refs' hq =>
        have hna := hS.nx.notAtomic (hI _ hit')
        obtain ⟨o1, o2, o3⟩ := hpb _ _ _ _ _ hS hna hR (pl_one hblock) hq
        cases hr
        obtain ⟨u1, u2⟩ := updPath_tx (fun _ => sub) steps hP ⟨o1, o2.trans hna.symm⟩
        exact ⟨u1, u2.trans hA, o3, hrest⟩
      · cases hr
    · split at hr
      · next li hs =>
        have hc : (nodeAt steps parent).last? = some li ∧ isI li = true := by
          split at hs
          · next s hl =>
            split at hs
            · next ht => cases hs; exact ⟨hl, ht⟩
            · cases hs
          · cases hs
        have hl := hS.last hc.1
        obtain ⟨t1, t2, _⟩ := textToP_tx h.nil hl.1 (hl.1.nx.notAtomic (hI _ hc.2))
        split at hr
        · next li' refs' hq =>
          obtain ⟨o1, o2, o3⟩ := parseChunk_x h hpb t1 t2 hR hblock hq
          cases hr
          obtain ⟨u1, u2⟩ := updPath_tx (fun s => s.setLast li') steps hP ⟨hS.setLastNA o1 o2, rfl⟩
          exact ⟨u1, u2.trans hA, o3, hrest⟩
        · cases hr
      · split at hr
        · next li' refs' hq =>
          obtain ⟨o1, o2, o3⟩ := hpb _ _ _ _ _ (tx_el h.nil itemTag hit) rfl hR (pl_one hblock) hq
          cases hr
          obtain ⟨u1, u2⟩ := updPath_tx (fun s => s.append li') steps hP ⟨hS.append o1 o2, rfl⟩
          exact ⟨u1, u2.trans hA, o3, hrest⟩
        · cases hr

theorem indentP_x (h : StrDom p q P) {tab : Nat} {pb : PB} (hpb : PresX p q P pb) {state : List BState}
    {refs : Refs} {parent : Node} {b : Str} {rest : List Str}
    (hP : TX p q P parent) (hA : parent.textAtomic = false) (hR : LogC p P refs) (hb : P b)
    (hrest : PL P rest) {r : Node × Refs × List Str}
    (hr : indentP tab pb state refs parent b rest = some r) : ResX p q P r := by
  rw [← BlockExt.indentPX_core] at hr
  exact indentPX_x h (fun _ => isListTag_ne_code) (fun _ => isItemTag_ne_code) (by decide) hpb hP hA hR hb hrest hr

end recursive

end MdVerif.NoCtl.BlkX
