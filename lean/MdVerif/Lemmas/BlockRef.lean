/-
Helper lemmas for C15 (reference definitions in the block parser).  Core Lean only.

Contents
* positions in concatenations, the counting helpers, the backtracking loops (`firstDown`, `downList`);
* the pattern of `ReferenceProcessor.RE` on a written definition: `refDelimited_spec`, `refTitleAt_*`, `refTail_*`,
  `refMatchAt_def`, `refSearch_printDef`; what `run` stores: `stored_url`, `referenceP_printDef`;
* blocks of "plain" lines (`PlainLine`): none of the processors before `reference` claims them (`dispatch_plain`);
  a written definition is such a block (`plain_defLines`); `dispatch_printDef`, `dispatch_printDef_pair`;
* generic facts about the block parser, proved through all eleven processors:
  more fuel never changes a result (`dispatch_mono`, `parseBlocks_mono`, `parseBlocks_le`);
  the references are only threaded through and the remaining blocks only passed on (`*_frame`, `dispatch_frame`,
  `parseBlocks_refsIndep`); hence a block that only stores a reference can be inserted or removed anywhere
  (`parseBlocks_insert`, `parseBlocks_remove`);
* one-block documents (`parseDocument_plain`); `lookupRef`;
* characters (`lowerChar_space`, `lowerChar_nonspace`, `lowerChar_ne_nil`: closed facts about the generated Unicode
  tables, by `decide +kernel`), `lower`, `wsCollapse`, and the label matching lemma `normUse_variant`.
-/
import MdVerif.Model.Block
import MdVerif.Spec.RefDef

namespace MdVerif.Block
open Py RefDef

/-- closes goals `n = (… ++ …).length` and `s = pre ++ r` up to re-association -/
macro "len_tac" : tactic =>
  `(tactic| first | rfl | (simp [spaces]; done) | (simp [spaces]; omega) | omega)

/-! ### positions in concatenations -/

theorem getElem?_at {s pre : Str} {c : Char} {r : Str} {n : Nat} (h : s = pre ++ c :: r) (hn : n = pre.length) :
    s[n]? = some c := by
  subst h hn; simp

theorem getElem?_at_end {s : Str} {n : Nat} (hn : n = s.length) : s[n]? = none := by
  subst hn; simp

theorem drop_at {s pre r : Str} {n : Nat} (h : s = pre ++ r) (hn : n = pre.length) : s.drop n = r := by
  subst h hn; simp

theorem slice_at {s pre mid r : Str} {a b : Nat} (h : s = pre ++ mid ++ r) (ha : a = pre.length)
    (hb : b = pre.length + mid.length) : slice s a b = mid := by
  subst h ha hb; simp [slice]

theorem getElem?_spaces_mid {s : Str} (pre : Str) (k : Nat) (r : Str) (x : Nat) (hs : s = pre ++ spaces k ++ r)
    (h1 : pre.length ≤ x) (h2 : x < pre.length + k) : s[x]? = some ' ' := by
  subst hs
  rw [List.getElem?_append_left (by simp [spaces]; omega), List.getElem?_append_right h1]
  have : x - pre.length < k := by omega
  simp [spaces, this]

/-! ### counting -/

theorem countPrefix_none_spaces (n : Nat) (r : Str) (h : r.head? ≠ some ' ') :
    countPrefix ' ' none (spaces n ++ r) = n := by
  induction n with
  | zero =>
    cases r with
    | nil => simp [spaces, countPrefix]
    | cons c r => simp at h; simp [spaces, countPrefix, h]
  | succ n ih =>
    simp only [spaces, List.replicate_succ, List.cons_append] at ih ⊢
    simp [countPrefix, ih]

theorem countSp_spaces (n : Nat) (r : Str) (h : r.head? ≠ some ' ') : countSp (spaces n ++ r) = n :=
  countPrefix_none_spaces n r h

theorem countSp_zero (r : Str) (h : r.head? ≠ some ' ') : countSp r = 0 := by
  simpa [spaces] using countSp_spaces 0 r h

theorem countPrefix_some_spaces (n m : Nat) (r : Str) (h : r.head? ≠ some ' ') (hn : n ≤ m) :
    countPrefix ' ' (some m) (spaces n ++ r) = n := by
  induction n generalizing m with
  | zero =>
    cases r with
    | nil => cases m <;> simp [spaces, countPrefix]
    | cons c r => simp at h; cases m <;> simp [spaces, countPrefix, h]
  | succ n ih =>
    obtain ⟨m, rfl⟩ : ∃ m', m = m' + 1 := ⟨m - 1, by omega⟩
    simp only [spaces, List.replicate_succ, List.cons_append] at ih ⊢
    simp [countPrefix, ih m (by omega)]

theorem spanLen_append (p : Char → Bool) (a r : Str) (ha : a.all p = true) (hr : ∀ c, r.head? = some c → p c = false) :
    spanLen p (a ++ r) = a.length := by
  induction a with
  | nil =>
    cases r with
    | nil => rfl
    | cons c r => simp [spanLen, hr c rfl]
  | cons c a ih =>
    simp only [List.all_cons, Bool.and_eq_true] at ha
    simp [spanLen, ha.1, ih ha.2]


/-! ### the backtracking loops -/

theorem firstDown_top {α} (f : Nat → Option α) (lo hi : Nat) (r : α) (h : lo ≤ hi) (hf : f hi = some r) :
    firstDown f lo hi = some r := by
  obtain ⟨c, rfl⟩ : ∃ c, hi = lo + c := ⟨hi - lo, by omega⟩
  have : lo + c + 1 - lo = c + 1 := by omega
  simp [firstDown, this, firstDownFrom, hf]

theorem downList_top (lo hi : Nat) (h : lo ≤ hi) : ∃ l, downList lo hi = hi :: l := by
  obtain ⟨c, rfl⟩ : ∃ c, hi = lo + c := ⟨hi - lo, by omega⟩
  have : lo + c + 1 - lo = c + 1 := by omega
  exact ⟨_, by simp [downList, this, List.range_succ]; rfl⟩

private theorem mem_downList {lo hi x : Nat} (h : x ∈ downList lo hi) : lo ≤ x ∧ x ≤ hi := by
  simp only [downList, List.mem_map, List.mem_reverse, List.mem_range] at h
  obtain ⟨a, ha, rfl⟩ := h
  omega

theorem findSome?_none_of_forall {α β} (l : List α) (f : α → Option β) (h : ∀ x ∈ l, f x = none) :
    l.findSome? f = none := by
  simp [List.findSome?_eq_none_iff]; exact h


/-! ### the title part of `ReferenceProcessor.RE` -/

/-- what may follow a definition inside its block: nothing or a line break -/
def EolCont (cont : Str) : Prop := ∀ c, cont.head? = some c → c = '\n'

theorem atEol_of_cont {s pre cont : Str} {n : Nat} (h : s = pre ++ cont) (hn : n = pre.length) (hc : EolCont cont) :
    atEol s n = true := by
  subst h hn
  cases cont with
  | nil => simp [atEol]
  | cons c r => simp [atEol, hc c rfl]

theorem EolCont.head_ne_space {cont : Str} (hc : EolCont cont) : cont.head? ≠ some ' ' := by
  intro h; have := hc _ h; simp at this

theorem refDelimited_spec (s B t cont : Str) (cl o : Char) (hs : s = B ++ o :: t ++ cl :: cont)
    (ht : t.all notNl = true) (hcl : cl ≠ '\n') (hc : EolCont cont) :
    refDelimited s B.length cl = some (B.length + t.length + 2, t) := by
  have hdrop : s.drop (B.length + 1) = (t ++ [cl]) ++ cont :=
    drop_at (pre := B ++ [o]) (by simp [hs]) (by simp)
  have hspan : spanLen notNl (s.drop (B.length + 1)) = t.length + 1 := by
    rw [hdrop, spanLen_append]
    · simp
    · simp [ht, notNl, hcl]
    · intro c h; simp [notNl, hc c h]
  unfold refDelimited
  simp only [hspan]
  apply firstDown_top
  · omega
  · have hcpos : B.length + 1 + (t.length + 1) - 1 = (B ++ o :: t).length := by simp; omega
    rw [hcpos]
    have h1 : s[(B ++ o :: t).length]? = some cl := getElem?_at (r := cont) (by simp [hs]) rfl
    have h2 : countSpAt s ((B ++ o :: t).length + 1) = 0 := by
      unfold countSpAt
      rw [drop_at (pre := B ++ o :: t ++ [cl]) (r := cont) (by simp [hs]) (by len_tac)]
      exact countSp_zero _ hc.head_ne_space
    simp only [h1, h2, beq_self_eq_true, if_true, Nat.add_zero]
    have h3 : atEol s ((B ++ o :: t).length + 1) = true :=
      atEol_of_cont (pre := B ++ o :: t ++ [cl]) (by simp [hs]) (by len_tac) hc
    have h4 : slice s (B.length + 1) (B ++ o :: t).length = t :=
      slice_at (pre := B ++ [o]) (r := cl :: cont) (by simp [hs]) (by simp) (by simp; omega)
    rw [firstDown_top _ _ _ _ (Nat.le_refl _) (by rw [h3, h4]; rfl)]
    simp; omega


theorem refTitleAt_title (s B t cont : Str) (st : TitleStyle) (hs : s = B ++ st.openCh :: t ++ st.closeCh :: cont)
    (ht : t.all notNl = true) (hc : EolCont cont) :
    refTitleAt s B.length = some (B.length + t.length + 2, group5 (some (st, t)), group6 (some (st, t))) := by
  have h0 : s[B.length]? = some st.openCh := getElem?_at (r := t ++ st.closeCh :: cont) (by simp [hs]) rfl
  have hd := refDelimited_spec s B t cont st.closeCh st.openCh hs ht (by cases st <;> decide) hc
  unfold refTitleAt
  cases st <;> simp [h0, TitleStyle.openCh, TitleStyle.closeCh, group5, group6] at hd ⊢ <;> simp [hd]

theorem refTitleAt_eol (s B cont : Str) (hs : s = B ++ cont) (hc : EolCont cont) :
    refTitleAt s B.length = some (B.length, none, none) := by
  have he := atEol_of_cont hs rfl hc
  unfold refTitleAt
  cases cont with
  | nil => simp [getElem?_at_end (s := s) (n := B.length) (by simp [hs]), he]
  | cons c r =>
    have : c = '\n' := hc c rfl
    subst this
    have h0 : s[B.length]? = some '\n' := getElem?_at hs rfl
    simp [h0, he]

theorem refTitleAt_other (s : Str) (n : Nat) (c : Char) (h : s[n]? = some c)
    (hc : c ≠ '"' ∧ c ≠ '\'' ∧ c ≠ '(' ∧ c ≠ '\n') : refTitleAt s n = none := by
  unfold refTitleAt
  simp [h, hc, atEol]


/-- what may follow a definition *without title* inside its block: nothing, or a line break and a line whose first
    non-space character cannot open a title (for instance the `[` of the next definition) -/
def DefCont (cont : Str) : Prop :=
  cont = [] ∨ ∃ k c r, cont = '\n' :: spaces k ++ c :: r ∧ c ≠ ' ' ∧ c ≠ '"' ∧ c ≠ '\'' ∧ c ≠ '(' ∧ c ≠ '\n'

theorem DefCont.eol {cont : Str} (h : DefCont cont) : EolCont cont := by
  rcases h with rfl | ⟨k, c, r, rfl, _⟩
  · intro c h; simp at h
  · intro c h; simp at h; exact h.symm

theorem refTail_noTitle (s A cont : Str) (hs : s = A ++ cont) (hc : DefCont cont) :
    refTail s A.length = some (A.length, none, none) := by
  have h0 : countSpAt s A.length = 0 := by
    unfold countSpAt; rw [drop_at hs rfl]; exact countSp_zero _ hc.eol.head_ne_space
  have hE := refTitleAt_eol s A cont hs hc.eol
  unfold refTail
  simp only [h0, Nat.add_zero]
  apply firstDown_top _ _ _ _ (Nat.le_refl _)
  rcases hc with rfl | ⟨k, c, r, rfl, hc1, hc2, hc3, hc4, hc5⟩
  · simp [getElem?_at_end (s := s) (n := A.length) (by simp [hs]), hE]
  · have h1 : s[A.length]? = some '\n' := getElem?_at hs rfl
    simp only [h1, beq_self_eq_true, if_true, List.findSome?_append]
    rw [findSome?_none_of_forall]
    · simp [hE]
    · intro x hx
      have hk : countSpAt s (A.length + 1) = k := by
        unfold countSpAt
        rw [drop_at (pre := A ++ ['\n']) (r := spaces k ++ c :: r) (by simp [hs]) (by len_tac)]
        exact countSp_spaces _ _ (by simp [hc1])
      rw [hk] at hx
      have hb := mem_downList hx
      by_cases hlt : x < A.length + 1 + k
      · exact refTitleAt_other s x ' '
          (getElem?_spaces_mid (A ++ ['\n']) k (c :: r) x (by simp [hs]) (by len_tac) (by len_tac)) (by decide)
      · have hx' : x = (A ++ '\n' :: spaces k).length := by simp [spaces]; omega
        exact refTitleAt_other s x c (getElem?_at (r := r) (by simp [hs]) hx') ⟨hc2, hc3, hc4, hc5⟩

theorem refTail_sameLine (s A t cont : Str) (st : TitleStyle)
    (hs : s = A ++ ' ' :: st.openCh :: t ++ st.closeCh :: cont) (ht : t.all notNl = true) (hc : EolCont cont) :
    refTail s A.length = some (A.length + t.length + 3, group5 (some (st, t)), group6 (some (st, t))) := by
  have h0 : countSpAt s A.length = 1 := by
    unfold countSpAt
    rw [drop_at (r := spaces 1 ++ (st.openCh :: (t ++ st.closeCh :: cont))) (by simp [hs, spaces]) rfl]
    exact countSp_spaces _ _ (by simp; cases st <;> decide)
  have hT := refTitleAt_title s (A ++ [' ']) t cont st (by simp [hs]) ht hc
  have h1 : s[A.length + 1]? = some st.openCh :=
    getElem?_at (pre := A ++ [' ']) (r := t ++ st.closeCh :: cont) (by simp [hs]) (by len_tac)
  have hne : (st.openCh == '\n') = false := by cases st <;> decide
  unfold refTail
  simp only [h0]
  apply firstDown_top _ _ _ _ (by omega)
  simp only [List.length_append, List.length_cons, List.length_nil] at hT
  have hne' : (some st.openCh == some '\n') = false := by cases st <;> decide
  simp only [Nat.zero_add] at hT
  simp only [h1, hne', Bool.false_eq_true, if_false, List.nil_append, List.findSome?_cons, hT, Option.some.injEq,
    Prod.mk.injEq, and_true]
  omega

theorem refTail_nextLine (s A t cont : Str) (k : Nat) (st : TitleStyle)
    (hs : s = A ++ '\n' :: spaces k ++ st.openCh :: t ++ st.closeCh :: cont) (ht : t.all notNl = true)
    (hc : EolCont cont) :
    refTail s A.length = some (A.length + 1 + k + t.length + 2, group5 (some (st, t)), group6 (some (st, t))) := by
  have h0 : countSpAt s A.length = 0 := by
    unfold countSpAt
    rw [drop_at (r := '\n' :: (spaces k ++ st.openCh :: t ++ st.closeCh :: cont)) (by simp [hs]) rfl]
    exact countSp_zero _ (by simp)
  have hk : countSpAt s (A.length + 1) = k := by
    unfold countSpAt
    rw [drop_at (pre := A ++ ['\n']) (r := spaces k ++ (st.openCh :: (t ++ st.closeCh :: cont))) (by simp [hs])
      (by len_tac)]
    exact countSp_spaces _ _ (by simp; cases st <;> decide)
  have hT := refTitleAt_title s (A ++ '\n' :: spaces k) t cont st (by simp [hs]) ht hc
  have h1 : s[A.length]? = some '\n' :=
    getElem?_at (r := spaces k ++ st.openCh :: t ++ st.closeCh :: cont) (by simp [hs]) rfl
  unfold refTail
  simp only [h0, Nat.add_zero]
  apply firstDown_top _ _ _ _ (Nat.le_refl _)
  obtain ⟨l, hl⟩ := downList_top (A.length + 1) (A.length + 1 + k) (by omega)
  simp only [h1, hk, beq_self_eq_true, if_true, hl, List.cons_append, List.findSome?_cons]
  have hlen : (A ++ '\n' :: spaces k).length = A.length + 1 + k := by len_tac
  rw [hlen] at hT
  simp [hT]


/-! ### the whole pattern at the start of the block -/

theorem refMatchAt_def (s : Str) (n : Nat) (label uw tail : Str)
    (hs : s = spaces n ++ ('[' :: (label ++ (']' :: ':' :: ' ' :: (uw ++ tail))))) (hn : n ≤ 3)
    (hl : label.all (fun c => c != '[' && c != ']') = true)
    (hu : uw ≠ []) (hu2 : uw.all (fun c => !isSpace c) = true)
    (htl : ∀ c, tail.head? = some c → isSpace c = true)
    (e : Nat) (t5 t6 : Option Str) (hT : refTail s (n + label.length + 4 + uw.length) = some (e, t5, t6)) :
    refMatchAt s 0 = some (e, label, uw, t5, t6) := by
  obtain ⟨u1, ur, rfl⟩ : ∃ u1 ur, uw = u1 :: ur := by
    cases uw with
    | nil => exact absurd rfl hu
    | cons a b => exact ⟨a, b, rfl⟩
  have hu1 : isSpace u1 = false := by
    simp only [List.all_cons, Bool.and_eq_true, Bool.not_eq_true'] at hu2; exact hu2.1
  have hu1sp : u1 ≠ ' ' := by intro h; subst h; simp [isSpace] at hu1
  have hu1nl : u1 ≠ '\n' := by intro h; subst h; simp [isSpace] at hu1
  have c0 : countPrefix ' ' (some 3) s = n := by
    rw [hs]; exact countPrefix_some_spaces n 3 _ (by simp) hn
  have g0 : s[n]? = some '[' := getElem?_at hs (by len_tac)
  have d1 : s.drop (n + 1) = label ++ (']' :: ':' :: ' ' :: (u1 :: ur ++ tail)) :=
    drop_at (pre := spaces n ++ ['[']) (by simp [hs]) (by len_tac)
  have sp1 : spanLen (fun c => c != '[' && c != ']') (s.drop (n + 1)) = label.length := by
    rw [d1]; exact spanLen_append _ _ _ hl (by simp)
  have g1 : s[n + 1 + label.length]? = some ']' :=
    getElem?_at (pre := spaces n ++ '[' :: label) (r := ':' :: ' ' :: (u1 :: ur ++ tail)) (by simp [hs]) (by len_tac)
  have sl1 : slice s (n + 1) (n + 1 + label.length) = label :=
    slice_at (pre := spaces n ++ ['[']) (r := ']' :: ':' :: ' ' :: (u1 :: ur ++ tail)) (by simp [hs]) (by len_tac)
      (by len_tac)
  have g2 : s[n + 1 + label.length + 1]? = some ':' :=
    getElem?_at (pre := spaces n ++ '[' :: label ++ [']']) (r := ' ' :: (u1 :: ur ++ tail)) (by simp [hs]) (by len_tac)
  have c1 : countSpAt s (n + 1 + label.length + 2) = 1 := by
    unfold countSpAt
    rw [drop_at (pre := spaces n ++ '[' :: label ++ [']', ':']) (r := spaces 1 ++ (u1 :: ur ++ tail))
      (by simp [hs, spaces]) (by len_tac)]
    exact countSp_spaces _ _ (by simp [hu1sp])
  have g3 : s[n + 1 + label.length + 2 + 1]? = some u1 :=
    getElem?_at (pre := spaces n ++ '[' :: label ++ [']', ':', ' ']) (r := ur ++ tail) (by simp [hs]) (by len_tac)
  have d2 : s.drop (n + 1 + label.length + 2 + 1) = (u1 :: ur) ++ tail :=
    drop_at (pre := spaces n ++ '[' :: label ++ [']', ':', ' ']) (by simp [hs]) (by len_tac)
  have sp2 : spanLen (fun c => !isSpace c) (s.drop (n + 1 + label.length + 2 + 1)) = ur.length + 1 := by
    rw [d2, spanLen_append _ _ _ hu2 (fun c h => by simp [htl c h])]; simp
  have sl2 : slice s (n + 1 + label.length + 2 + 1) (n + 1 + label.length + 2 + 1 + (ur.length + 1)) = u1 :: ur :=
    slice_at (pre := spaces n ++ '[' :: label ++ [']', ':', ' ']) (r := tail) (by simp [hs]) (by len_tac) (by len_tac)
  have hT' : refTail s (n + 1 + label.length + 2 + 1 + (ur.length + 1)) = some (e, t5, t6) := by
    rw [← hT]; congr 1; simp; omega
  unfold refMatchAt
  simp only [List.drop_zero, c0, Nat.zero_add, g0, sp1, g1, sl1, g2, c1]
  simp only [bne_self_eq_false, Bool.false_eq_true, if_false]
  apply firstDown_top _ _ _ _ (by omega)
  have hne : (some u1 == some '\n') = false := by simp [hu1nl]
  simp only [g3, hne, Bool.false_eq_true, if_false, List.nil_append, List.findSome?_cons, sp2]
  rw [firstDown_top _ _ _ _ (by omega) (by rw [hT', sl2])]


theorem urlWritten_ne_nil {url : Str} {angle : Bool} (h : UrlOK url = true) : urlWritten url angle ≠ [] := by
  cases angle <;> simp [urlWritten]
  intro h'; subst h'; simp [UrlOK] at h

theorem urlWritten_nonspace {url : Str} {angle : Bool} (h : UrlOK url = true) :
    (urlWritten url angle).all (fun c => !isSpace c) = true := by
  have h2 : url.all (fun c => !isSpace c) = true := by
    simp only [UrlOK, Bool.and_eq_true] at h; exact h.1.1.2
  cases angle
  · simpa [urlWritten] using h2
  · simp only [urlWritten, if_true, List.all_cons, List.all_append, h2, List.all_nil, Bool.and_true]
    decide

theorem refSearch_printDef (indent : Nat) (label url : Str) (angle : Bool) (title : Option (TitleStyle × Str))
    (nl : Bool) (cont : Str) (hi : indent ≤ 3) (hl : LabelOK label = true) (hu : UrlOK url = true)
    (ht : TitleOK title = true) (hc : DefCont cont) :
    refSearch (printDef indent label url angle title nl ++ cont) =
      some (0, (printDef indent label url angle title nl).length, label, urlWritten url angle,
        group5 title, group6 title) := by
  have hl' : label.all (fun c => c != '[' && c != ']') = true := by
    simp only [LabelOK, List.all_eq_true, Bool.and_eq_true] at hl ⊢
    exact fun c hc => (hl c hc).1
  have key : ∀ (tail : Str) (e : Nat),
      (∀ c, tail.head? = some c → isSpace c = true) →
      printDef indent label url angle title nl ++ cont =
        spaces indent ++ ('[' :: (label ++ (']' :: ':' :: ' ' :: (urlWritten url angle ++ tail)))) →
      refTail (printDef indent label url angle title nl ++ cont)
        (indent + label.length + 4 + (urlWritten url angle).length) = some (e, group5 title, group6 title) →
      refMatchAt (printDef indent label url angle title nl ++ cont) 0 =
        some (e, label, urlWritten url angle, group5 title, group6 title) := by
    intro tail e h1 h2 h3
    exact refMatchAt_def _ indent label _ tail h2 hi hl' (urlWritten_ne_nil hu) (urlWritten_nonspace hu) h1 _ _ _ h3
  have hA : (defHead indent label url angle).length = indent + label.length + 4 + (urlWritten url angle).length := by
    simp [defHead, spaces]; omega
  suffices h : refMatchAt (printDef indent label url angle title nl ++ cont) 0 =
      some ((printDef indent label url angle title nl).length, label, urlWritten url angle,
        group5 title, group6 title) by
    simp [refSearch, h]
  cases title with
  | none =>
    apply key cont
    · intro c h; rw [hc.eol c h]; decide
    · simp [printDef, defHead]
    · rw [← hA, refTail_noTitle _ (defHead indent label url angle) cont (by simp [printDef]) hc]
      simp [printDef, group5, group6]
  | some t =>
    obtain ⟨st, t⟩ := t
    have ht' : t.all notNl = true := ht
    cases nl
    · apply key (' ' :: st.openCh :: t ++ st.closeCh :: cont)
      · intro c h; simp at h; subst h; decide
      · simp [printDef, defHead, titleWritten]
      · rw [← hA, refTail_sameLine _ (defHead indent label url angle) t cont st
          (by simp [printDef, titleWritten]) ht' hc.eol]
        simp [printDef, titleWritten]; omega
    · apply key ('\n' :: spaces 4 ++ st.openCh :: t ++ st.closeCh :: cont)
      · intro c h; simp at h; subst h; decide
      · simp [printDef, defHead, titleWritten]
      · rw [← hA, refTail_nextLine _ (defHead indent label url angle) t cont 4 st
          (by simp [printDef, titleWritten]) ht' hc.eol]
        simp [printDef, titleWritten, spaces]; omega


/-! ### what `ReferenceProcessor.run` stores -/

theorem lstripP_id (p : Char → Bool) (s : Str) (h : ∀ c, s.head? = some c → p c = false) : lstripP p s = s := by
  cases s with
  | nil => rfl
  | cons c r => simp [lstripP, h c rfl]

theorem rstripP_id (p : Char → Bool) (s : Str) (h : ∀ c, s.getLast? = some c → p c = false) : rstripP p s = s := by
  unfold rstripP
  rw [lstripP_id p s.reverse (by simpa [List.head?_reverse] using h), List.reverse_reverse]

theorem stored_url {url : Str} (angle : Bool) (h : UrlOK url = true) :
    rstripC '>' (lstripC '<' (urlWritten url angle)) = url := by
  simp only [UrlOK, Bool.and_eq_true, bne_iff_ne, ne_eq] at h
  obtain ⟨⟨⟨_, _⟩, h1⟩, h2⟩ := h
  have hL : lstripC '<' url = url := lstripP_id _ _ (fun c hc => by rw [hc] at h1; simpa using h1)
  have hR : rstripC '>' url = url := rstripP_id _ _ (fun c hc => by rw [hc] at h2; simpa using h2)
  cases angle
  · simp only [urlWritten, Bool.false_eq_true, if_false, hL, hR]
  · have : lstripC '<' ('<' :: url ++ ['>']) = url ++ ['>'] := by
      show lstripP _ _ = _
      simp only [List.cons_append, lstripP, decide_true, if_true]
      exact lstripP_id _ _ (fun c hc => by
        cases url with
        | nil => simp at hc; subst hc; decide
        | cons a r => simp at hc; subst hc; simpa using h1)
    simp only [urlWritten, if_true, this]
    show rstripP _ _ = _
    unfold rstripP
    simp only [List.reverse_append, List.reverse_cons, List.reverse_nil, List.nil_append, List.cons_append, lstripP,
      decide_true, if_true]
    exact hR


/-! ### blocks made of "plain" lines: no processor before `reference` claims them -/

/-- a character with which none of the block constructs starts -/
def plainCh (c : Char) : Bool :=
  c != ' ' && c != '\n' && c != '#' && c != '=' && c != '-' && c != '_' && c != '*' && c != '+' && c != '>' &&
    !isDecimal c

/-- a line `spaces n ++ c :: r` whose first non-space character `c` is plain -/
structure PlainLine (l : Str) : Prop where
  ex : ∃ n c r, l = spaces n ++ c :: r ∧ plainCh c = true ∧ r.all notNl = true

theorem PlainLine.noNl {l : Str} (h : PlainLine l) : l.all notNl = true := by
  obtain ⟨n, c, r, rfl, hc, hr⟩ := h.ex
  have : c ≠ '\n' := by intro h; subst h; simp [plainCh] at hc
  simp [spaces, hr, notNl, this]

theorem PlainLine.ne_nil {l : Str} (h : PlainLine l) : l ≠ [] := by
  obtain ⟨n, c, r, rfl, _, _⟩ := h.ex; simp

theorem splitC_noNl (l : Str) (h : l.all notNl = true) : splitC '\n' l = [l] := by
  induction l with
  | nil => rfl
  | cons c l ih =>
    simp only [List.all_cons, Bool.and_eq_true] at h
    have : c ≠ '\n' := by simpa [notNl] using h.1
    simp [splitC, ih h.2, this]

theorem splitC_ne_nil' (ch : Char) (s : Str) : splitC ch s ≠ [] := by
  cases s with
  | nil => simp [splitC]
  | cons c s =>
    simp only [splitC]
    split
    · simp
    · split <;> simp

theorem splitC_append_nl (l rest : Str) (h : l.all notNl = true) :
    splitC '\n' (l ++ '\n' :: rest) = l :: splitC '\n' rest := by
  induction l with
  | nil =>
    simp only [List.nil_append, splitC]
    cases hsp : splitC '\n' rest with
    | nil => exact absurd hsp (splitC_ne_nil' _ _)
    | cons p ps => simp
  | cons c l ih =>
    simp only [List.all_cons, Bool.and_eq_true] at h
    have : c ≠ '\n' := by simpa [notNl] using h.1
    simp [splitC, ih h.2, this]

theorem joinLines_cons_cons (a b : Str) (r : List Str) :
    joinLines (a :: b :: r) = a ++ '\n' :: joinLines (b :: r) := by
  simp [joinLines, join]

theorem joinLines_single (a : Str) : joinLines [a] = a := rfl

theorem joinLines_append (a b : List Str) (ha : a ≠ []) (hb : b ≠ []) :
    joinLines (a ++ b) = joinLines a ++ '\n' :: joinLines b := by
  induction a with
  | nil => exact absurd rfl ha
  | cons x a ih =>
    cases a with
    | nil =>
      cases b with
      | nil => exact absurd rfl hb
      | cons y b => simp [joinLines_cons_cons, joinLines_single]
    | cons x2 a =>
      have := ih (by simp)
      simp only [List.cons_append] at this ⊢
      rw [joinLines_cons_cons, this, joinLines_cons_cons]; simp

theorem lines_joinLines (ls : List Str) (hne : ls ≠ []) (h : ∀ l ∈ ls, l.all notNl = true) :
    lines (joinLines ls) = ls := by
  induction ls with
  | nil => exact absurd rfl hne
  | cons a r ih =>
    cases r with
    | nil => exact splitC_noNl a (h a (by simp))
    | cons b r =>
      rw [joinLines_cons_cons]
      show splitC '\n' _ = _
      rw [splitC_append_nl _ _ (h a (by simp))]
      congr 1
      exact ih (by simp) (fun l hl => h l (by simp [hl]))


theorem countPrefix_some_ge (n m : Nat) (r : Str) (h : m ≤ n) : countPrefix ' ' (some m) (spaces n ++ r) = m := by
  induction m generalizing n with
  | zero => simp [countPrefix]
  | succ m ih =>
    obtain ⟨n, rfl⟩ : ∃ n', n = n' + 1 := ⟨n - 1, by omega⟩
    simp only [spaces, List.replicate_succ, List.cons_append] at ih ⊢
    simp [countPrefix, ih n (by omega)]

/-- after the optional indentation of up to three spaces a plain line shows a space or its plain character -/
theorem drop_indent3 (n : Nat) (c : Char) (tail : Str) (hc : c ≠ ' ') :
    ∃ h t, (spaces n ++ c :: tail).drop (countPrefix ' ' (some 3) (spaces n ++ c :: tail)) = h :: t ∧
      (h = ' ' ∨ h = c) := by
  by_cases hn : n ≤ 3
  · rw [countPrefix_some_spaces n 3 _ (by simp [hc]) hn]
    exact ⟨c, tail, by simp [spaces], Or.inr rfl⟩
  · rw [countPrefix_some_ge n 3 _ (by omega)]
    obtain ⟨k, rfl⟩ : ∃ k, n = k + 1 + 1 + 1 + 1 := ⟨n - 4, by omega⟩
    refine ⟨' ', spaces k ++ c :: tail, ?_, Or.inl rfl⟩
    simp [spaces, List.replicate_succ]

theorem head?_spaces_cons (n : Nat) (c : Char) (tail : Str) :
    (spaces n ++ c :: tail).head? = some (if n = 0 then c else ' ') := by
  cases n <;> simp [spaces, List.replicate_succ]

theorem firstDown_empty {α} (f : Nat → Option α) (lo : Nat) : firstDown f (lo + 1) lo = none := by
  simp [firstDown, firstDownFrom]

theorem hashAt_none (s : Str) (h : s.head? ≠ some '#') : hashAt s = none := by
  have : countPrefix '#' (some 6) s = 0 := by
    cases s with
    | nil => simp [countPrefix]
    | cons c r => simp at h; simp [countPrefix, h]
  unfold hashAt
  rw [this]; exact firstDown_empty _ 0

theorem hashSearchNl_skip (l rest : Str) (i : Nat) (h : l.all notNl = true) :
    hashSearchNl i (l ++ rest) = hashSearchNl (i + l.length) rest := by
  induction l generalizing i with
  | nil => rfl
  | cons c l ih =>
    simp only [List.all_cons, Bool.and_eq_true] at h
    have : c ≠ '\n' := by simpa [notNl] using h.1
    simp only [List.cons_append, hashSearchNl, this, if_false, ih (i + 1) h.2, List.length_cons]
    congr 1; omega

theorem quoteSearchNl_skip (l rest : Str) (i : Nat) (h : l.all notNl = true) :
    quoteSearchNl i (l ++ rest) = quoteSearchNl (i + l.length) rest := by
  induction l generalizing i with
  | nil => rfl
  | cons c l ih =>
    simp only [List.all_cons, Bool.and_eq_true] at h
    have : c ≠ '\n' := by simpa [notNl] using h.1
    simp only [List.cons_append, quoteSearchNl, this, decide_false, Bool.false_and, Bool.false_eq_true, if_false,
      ih (i + 1) h.2, List.length_cons]
    congr 1; omega

/-- a block whose first line is plain: `spaces n ++ c :: tail` -/
theorem joinLines_shape (l : Str) (r : List Str) (h : PlainLine l) :
    ∃ n c tail, joinLines (l :: r) = spaces n ++ c :: tail ∧ plainCh c = true := by
  obtain ⟨n, c, r0, rfl, hc, _⟩ := h.ex
  cases r with
  | nil => exact ⟨n, c, r0, rfl, hc⟩
  | cons b r => exact ⟨n, c, r0 ++ '\n' :: joinLines (b :: r), by simp [joinLines_cons_cons], hc⟩

theorem hashAt_plain (n : Nat) (c : Char) (tail : Str) (hc : plainCh c = true) :
    hashAt (spaces n ++ c :: tail) = none := by
  apply hashAt_none
  rw [head?_spaces_cons]
  split
  · intro h; simp at h; subst h; simp [plainCh] at hc
  · simp

theorem quoteLine_plain (n : Nat) (c : Char) (tail : Str) (hc : plainCh c = true) :
    quoteLine (spaces n ++ c :: tail) = none := by
  obtain ⟨h, t, e, hh⟩ := drop_indent3 n c tail (by intro h; subst h; simp [plainCh] at hc)
  unfold quoteLine
  rw [e]
  rcases hh with rfl | rfl
  · simp
  · have : h ≠ '>' := by intro h; subst h; simp [plainCh] at hc
    simp [this]

theorem hashSearch_plain (ls : List Str) (hne : ls ≠ []) (h : ∀ l ∈ ls, PlainLine l) :
    hashSearch (joinLines ls) = none := by
  have nl : ∀ (ls : List Str) (i : Nat), (∀ l ∈ ls, PlainLine l) → hashSearchNl i (joinLines ls) = none := by
    intro ls
    induction ls with
    | nil => intro i _; rfl
    | cons a r ih =>
      intro i h
      cases r with
      | nil =>
        have := hashSearchNl_skip a [] i (h a (by simp)).noNl
        simp only [List.append_nil] at this
        rw [joinLines_single, this]; rfl
      | cons b r =>
        rw [joinLines_cons_cons, hashSearchNl_skip _ _ _ (h a (by simp)).noNl]
        obtain ⟨n, c, tail, e, hc⟩ := joinLines_shape b r (h b (by simp))
        simp only [hashSearchNl, if_true]
        rw [e, hashAt_plain n c tail hc, ← e]
        exact ih _ (fun l hl => h l (by simp [hl]))
  cases ls with
  | nil => exact absurd rfl hne
  | cons a r =>
    obtain ⟨n, c, tail, e, hc⟩ := joinLines_shape a r (h a (by simp))
    unfold hashSearch
    rw [e, hashAt_plain n c tail hc, ← e]
    exact nl _ 0 h

theorem quoteSearch_plain (ls : List Str) (hne : ls ≠ []) (h : ∀ l ∈ ls, PlainLine l) :
    quoteSearch (joinLines ls) = none := by
  have nl : ∀ (ls : List Str) (i : Nat), (∀ l ∈ ls, PlainLine l) → quoteSearchNl i (joinLines ls) = none := by
    intro ls
    induction ls with
    | nil => intro i _; rfl
    | cons a r ih =>
      intro i h
      cases r with
      | nil =>
        have := quoteSearchNl_skip a [] i (h a (by simp)).noNl
        simp only [List.append_nil] at this
        rw [joinLines_single, this]; rfl
      | cons b r =>
        rw [joinLines_cons_cons, quoteSearchNl_skip _ _ _ (h a (by simp)).noNl]
        obtain ⟨n, c, tail, e, hc⟩ := joinLines_shape b r (h b (by simp))
        simp only [quoteSearchNl]
        rw [e, quoteLine_plain n c tail hc, ← e]
        simpa using ih _ (fun l hl => h l (by simp [hl]))
  cases ls with
  | nil => exact absurd rfl hne
  | cons a r =>
    obtain ⟨n, c, tail, e, hc⟩ := joinLines_shape a r (h a (by simp))
    unfold quoteSearch
    rw [e, quoteLine_plain n c tail hc, ← e]
    simpa using nl _ 0 h


theorem find_nl_skip (l rest : Str) (h : l.all notNl = true) :
    find ['\n'] (l ++ rest) = (find ['\n'] rest).map (· + l.length) := by
  induction l with
  | nil => simp
  | cons c l ih =>
    simp only [List.all_cons, Bool.and_eq_true] at h
    have : c ≠ '\n' := by simpa [notNl] using h.1
    simp only [List.cons_append, find, startsWith, this, decide_false, Bool.false_and, Bool.false_eq_true, if_false,
      ih h.2, Option.map_map, List.length_cons]
    congr 1

theorem spanLen_head_false (p : Char → Bool) (c : Char) (r : Str) (h : p c = false) : spanLen p (c :: r) = 0 := by
  simp [spanLen, h]

theorem setext_second_line (n : Nat) (c : Char) (tail : Str) (hc : plainCh c = true) :
    spanLen (fun c => c = '=' || c = '-') (firstLine (spaces n ++ c :: tail)) = 0 := by
  have hc1 : c ≠ '\n' := by intro h; subst h; simp [plainCh] at hc
  have hc2 : c ≠ '=' := by intro h; subst h; simp [plainCh] at hc
  have hc3 : c ≠ '-' := by intro h; subst h; simp [plainCh] at hc
  cases n with
  | zero =>
    have : (c != '\n') = true := by simp [hc1]
    simp [spaces, firstLine, notNl, this, spanLen, hc2, hc3]
  | succ n => simp [spaces, List.replicate_succ, firstLine, List.takeWhile, notNl, spanLen]

theorem setextMatch_plain (ls : List Str) (h : ∀ l ∈ ls, PlainLine l) : setextMatch (joinLines ls) = false := by
  cases ls with
  | nil => rfl
  | cons a r =>
    cases r with
    | nil =>
      have := find_nl_skip a [] (h a (by simp)).noNl
      simp only [List.append_nil] at this
      simp [joinLines_single, setextMatch, this, find]
    | cons b r =>
      obtain ⟨n, c, tail, e, hc⟩ := joinLines_shape b r (h b (by simp))
      have hf : find ['\n'] (a ++ '\n' :: joinLines (b :: r)) = some a.length := by
        rw [find_nl_skip _ _ (h a (by simp)).noNl]; simp [find, startsWith]
      have hd : (a ++ '\n' :: joinLines (b :: r)).drop (a.length + 1) = joinLines (b :: r) :=
        drop_at (pre := a ++ ['\n']) (by simp) (by simp)
      rw [joinLines_cons_cons]
      unfold setextMatch
      simp only [hf, hd]
      rw [e, setext_second_line n c tail hc]
      simp

theorem hrLine_plain (n : Nat) (c : Char) (tail : Str) (hc : plainCh c = true) :
    hrLine (spaces n ++ c :: tail) = false := by
  obtain ⟨h, t, e, hh⟩ := drop_indent3 n c tail (by intro h; subst h; simp [plainCh] at hc)
  unfold hrLine
  rw [e]
  rcases hh with rfl | rfl
  · simp
  · have h1 : h ≠ '-' := by intro h; subst h; simp [plainCh] at hc
    have h2 : h ≠ '_' := by intro h; subst h; simp [plainCh] at hc
    have h3 : h ≠ '*' := by intro h; subst h; simp [plainCh] at hc
    simp [h1, h2, h3]

theorem hrSearchLines_none (ls : List Str) (pos : Nat) (h : ∀ l ∈ ls, hrLine l = false) :
    hrSearchLines pos ls = none := by
  induction ls generalizing pos with
  | nil => rfl
  | cons a r ih => simp [hrSearchLines, h a (by simp), ih _ (fun l hl => h l (by simp [hl]))]

theorem hrSearch_plain (ls : List Str) (hne : ls ≠ []) (h : ∀ l ∈ ls, PlainLine l) :
    hrSearch (joinLines ls) = none := by
  unfold hrSearch
  rw [lines_joinLines ls hne (fun l hl => (h l hl).noNl)]
  apply hrSearchLines_none
  intro l hl
  obtain ⟨n, c, r, rfl, hc, _⟩ := (h l hl).ex
  exact hrLine_plain n c r hc

theorem listItemMatch_plain (tab : Nat) (ol ul : Bool) (n : Nat) (c : Char) (tail : Str) (hn : n < tab)
    (hc : plainCh c = true) : listItemMatch tab ol ul (spaces n ++ c :: tail) = none := by
  have hsp : c ≠ ' ' := by intro h; subst h; simp [plainCh] at hc
  have hd : isDecimal c = false := by simp [plainCh] at hc; exact hc.2
  have h1 : c ≠ '*' := by intro h; subst h; simp [plainCh] at hc
  have h2 : c ≠ '+' := by intro h; subst h; simp [plainCh] at hc
  have h3 : c ≠ '-' := by intro h; subst h; simp [plainCh] at hc
  have hcp : countPrefix ' ' (some (tab - 1)) (spaces n ++ c :: tail) = n :=
    countPrefix_some_spaces n _ _ (by simp [hsp]) (by omega)
  have hdrop : (spaces n ++ c :: tail).drop n = c :: tail := drop_at rfl (by simp [spaces])
  have hol : olMarker (c :: tail) = none := by simp [olMarker, spanLen, hd]
  have hul : ulMarker (c :: tail) = none := by simp [ulMarker, h1, h2, h3]
  unfold listItemMatch
  simp only [hcp, hdrop, hol, hul]
  cases ol <;> cases ul <;> simp


theorem startsWith_spaces_false (n tab : Nat) (c : Char) (tail : Str) (hn : n < tab) (hc : c ≠ ' ') :
    startsWith (spaces n ++ c :: tail) (spaces tab) = false := by
  induction n generalizing tab with
  | zero =>
    obtain ⟨t, rfl⟩ : ∃ t, tab = t + 1 := ⟨tab - 1, by omega⟩
    simp [spaces, List.replicate_succ, startsWith, hc]
  | succ n ih =>
    obtain ⟨t, rfl⟩ : ∃ t, tab = t + 1 := ⟨tab - 1, by omega⟩
    simp only [spaces, List.replicate_succ, List.cons_append, startsWith, decide_true, Bool.true_and]
    exact ih t (by omega)

/-- **No earlier processor claims a block of plain lines**: `dispatch` reaches `reference` (priority 15), and
    `paragraph` when the pattern does not match. -/
theorem dispatch_plain (tab : Nat) (pb : PB) (state : List BState) (refs : Refs) (parent : Node) (rest : List Str)
    (a : Str) (r : List Str) (n : Nat) (c : Char) (r0 : Str) (ha : a = spaces n ++ c :: r0) (hc : plainCh c = true)
    (hn : n < tab) (h : ∀ l ∈ a :: r, PlainLine l) :
    dispatch tab pb state refs parent (joinLines (a :: r)) rest =
      match refSearch (joinLines (a :: r)) with
      | some m => some (referenceP refs parent (joinLines (a :: r)) rest m)
      | none => some (paraP state refs parent (joinLines (a :: r)) rest) := by
  have hsp : c ≠ ' ' := by intro h; subst h; simp [plainCh] at hc
  have hnl : c ≠ '\n' := by intro h; subst h; simp [plainCh] at hc
  obtain ⟨tail, e⟩ : ∃ tail, joinLines (a :: r) = spaces n ++ c :: tail := by
    subst ha
    cases r with
    | nil => exact ⟨r0, rfl⟩
    | cons b r => exact ⟨r0 ++ '\n' :: joinLines (b :: r), by simp [joinLines_cons_cons]⟩
  have h1 : (joinLines (a :: r)).isEmpty = false := by rw [e]; cases n <;> simp [spaces, List.replicate_succ]
  have h2 : startsWith (joinLines (a :: r)) ['\n'] = false := by
    rw [e]; cases n <;> simp [spaces, List.replicate_succ, startsWith, hnl]
  have h3 : startsWith (joinLines (a :: r)) (spaces tab) = false := by
    rw [e]; exact startsWith_spaces_false n tab c tail hn hsp
  have h4 := hashSearch_plain (a :: r) (by simp) h
  have h5 := setextMatch_plain (a :: r) h
  have h6 := hrSearch_plain (a :: r) (by simp) h
  have h7 : ∀ o u, listItemMatch tab o u (joinLines (a :: r)) = none := by
    intro o u; rw [e]; exact listItemMatch_plain tab o u n c tail hn hc
  have h8 := quoteSearch_plain (a :: r) (by simp) h
  unfold dispatch
  simp only [h1, h2, h3, h4, h5, h6, h7, h8, Bool.or_self, Bool.false_eq_true, if_false, Bool.false_and,
    Option.isSome_none]
  cases refSearch (joinLines (a :: r)) <;> rfl


/-! ### a written definition is a block of plain lines -/

theorem printDef_eq_joinLines (indent : Nat) (label url : Str) (angle : Bool) (title : Option (TitleStyle × Str))
    (nl : Bool) : printDef indent label url angle title nl = joinLines (defLines indent label url angle title nl) := by
  cases title with
  | none => simp [printDef, defLines, joinLines_single]
  | some t => cases nl <;> simp [printDef, defLines, joinLines_single, joinLines_cons_cons]

theorem notNl_of_nonspace {s : Str} (h : s.all (fun c => !isSpace c) = true) : s.all notNl = true := by
  simp only [List.all_eq_true] at h ⊢
  intro c hc
  have := h c hc
  simp only [notNl, bne_iff_ne, ne_eq]
  intro e; subst e; simp [isSpace] at this

theorem defHead_tail_noNl {label url : Str} {angle : Bool} (hl : LabelOK label = true) (hu : UrlOK url = true) :
    (label ++ ']' :: ':' :: ' ' :: urlWritten url angle).all notNl = true := by
  have h1 : label.all notNl = true := by
    simp only [LabelOK, List.all_eq_true, Bool.and_eq_true] at hl ⊢
    exact fun c hc => (hl c hc).2
  have h2 := notNl_of_nonspace (urlWritten_nonspace (angle := angle) hu)
  simp [h1, h2, notNl]

theorem defHead_eq (indent : Nat) (label url : Str) (angle : Bool) :
    defHead indent label url angle = spaces indent ++ '[' :: (label ++ ']' :: ':' :: ' ' :: urlWritten url angle) := by
  simp [defHead]

theorem defLines_shape (indent : Nat) (label url : Str) (angle : Bool) (title : Option (TitleStyle × Str))
    (nl : Bool) : ∃ r0 r, defLines indent label url angle title nl = (spaces indent ++ '[' :: r0) :: r := by
  cases title with
  | none => exact ⟨label ++ ']' :: ':' :: ' ' :: urlWritten url angle, [], by simp [defLines, defHead]⟩
  | some t =>
    cases nl
    · exact ⟨label ++ ']' :: ':' :: ' ' :: urlWritten url angle ++ ' ' :: titleWritten t, [], by simp [defLines, defHead]⟩
    · exact ⟨label ++ ']' :: ':' :: ' ' :: urlWritten url angle, [spaces 4 ++ titleWritten t], by simp [defLines, defHead]⟩

theorem plain_defLines {indent : Nat} {label url : Str} {angle : Bool} {title : Option (TitleStyle × Str)}
    {nl : Bool} (hl : LabelOK label = true) (hu : UrlOK url = true) (ht : TitleOK title = true) :
    ∀ l ∈ defLines indent label url angle title nl, PlainLine l := by
  have hh := defHead_tail_noNl (angle := angle) hl hu
  have hhead : PlainLine (defHead indent label url angle) :=
    ⟨indent, '[', _, defHead_eq _ _ _ _, by decide, hh⟩
  cases title with
  | none => intro l hl'; simp [defLines] at hl'; subst hl'; exact hhead
  | some t =>
    obtain ⟨st, t⟩ := t
    have ht' : t.all notNl = true := ht
    have hcl : notNl st.closeCh = true := by cases st <;> decide
    have hop : plainCh st.openCh = true := by cases st <;> decide
    have hopn : notNl st.openCh = true := by cases st <;> decide
    cases nl
    · intro l hl'
      simp only [defLines, Bool.false_eq_true, if_false, List.mem_singleton] at hl'
      subst hl'
      refine ⟨indent, '[', label ++ ']' :: ':' :: ' ' :: urlWritten url angle ++ ' ' :: titleWritten (st, t), ?_,
        by decide, ?_⟩
      · simp [defHead]
      · rw [List.all_append, hh]
        simp [titleWritten, ht', notNl]
        cases st <;> decide
    · intro l hl'
      simp only [defLines, if_true, List.mem_cons, List.not_mem_nil, or_false] at hl'
      rcases hl' with rfl | rfl
      · exact hhead
      · exact ⟨4, st.openCh, t ++ [st.closeCh], by simp [titleWritten], hop, by simp [ht', hcl]⟩


theorem referenceP_printDef (refs : Refs) (parent : Node) (rest : List Str) (indent : Nat) (label url : Str)
    (angle : Bool) (title : Option (TitleStyle × Str)) (nl : Bool) (cont : Str) (hu : UrlOK url = true) :
    referenceP refs parent (printDef indent label url angle title nl ++ cont) rest
        (0, (printDef indent label url angle title nl).length, label, urlWritten url angle, group5 title,
          group6 title) =
      (parent, refs ++ [defEntry label url title], if isBlank cont then rest else lstripC '\n' cont :: rest) := by
  simp [referenceP, stored_url angle hu, defEntry, normDef, storedTitle, isBlank]

theorem printDef_shape (indent : Nat) (label url : Str) (angle : Bool) (title : Option (TitleStyle × Str))
    (nl : Bool) : ∃ tail, printDef indent label url angle title nl = spaces indent ++ '[' :: tail := by
  rw [printDef_eq_joinLines]
  obtain ⟨r0, r, e⟩ := defLines_shape indent label url angle title nl
  rw [e]
  cases r with
  | nil => exact ⟨r0, rfl⟩
  | cons b r => exact ⟨r0 ++ '\n' :: joinLines (b :: r), by simp [joinLines_cons_cons]⟩

/-- **A definition block is consumed by `reference`**: the entry is stored, the parent is untouched, nothing is
    put back. -/
theorem dispatch_printDef (tab : Nat) (pb : PB) (state : List BState) (refs : Refs) (parent : Node) (rest : List Str)
    (indent : Nat) (label url : Str) (angle : Bool) (title : Option (TitleStyle × Str)) (nl : Bool)
    (hi : indent ≤ 3) (hit : indent < tab) (hl : LabelOK label = true) (hu : UrlOK url = true)
    (ht : TitleOK title = true) :
    dispatch tab pb state refs parent (printDef indent label url angle title nl) rest =
      some (parent, refs ++ [defEntry label url title], rest) := by
  obtain ⟨r0, r, e⟩ := defLines_shape indent label url angle title nl
  have hp := plain_defLines (indent := indent) (angle := angle) (nl := nl) hl hu ht
  rw [e] at hp
  have hs := refSearch_printDef indent label url angle title nl [] hi hl hu ht (Or.inl rfl)
  have hr := referenceP_printDef refs parent rest indent label url angle title nl [] hu
  simp only [List.append_nil] at hs hr
  rw [printDef_eq_joinLines, e, dispatch_plain tab pb state refs parent rest _ r indent '[' r0 rfl (by decide) hit hp,
    ← e, ← printDef_eq_joinLines, hs]
  simp only [hr]
  simp [isBlank]

/-- **Two definitions on consecutive lines**: the first is stored and the second is put back as a block of its own. -/
theorem dispatch_printDef_pair (tab : Nat) (pb : PB) (state : List BState) (refs : Refs) (parent : Node)
    (rest : List Str) (indent : Nat) (label url : Str) (angle : Bool) (title : Option (TitleStyle × Str)) (nl : Bool)
    (indent2 : Nat) (label2 url2 : Str) (angle2 : Bool) (title2 : Option (TitleStyle × Str)) (nl2 : Bool)
    (hi : indent ≤ 3) (hit : indent < tab) (hl : LabelOK label = true) (hu : UrlOK url = true)
    (ht : TitleOK title = true) (hl2 : LabelOK label2 = true) (hu2 : UrlOK url2 = true)
    (ht2 : TitleOK title2 = true) :
    dispatch tab pb state refs parent
        (printDef indent label url angle title nl ++ '\n' :: printDef indent2 label2 url2 angle2 title2 nl2) rest =
      some (parent, refs ++ [defEntry label url title], printDef indent2 label2 url2 angle2 title2 nl2 :: rest) := by
  obtain ⟨r0, r, e⟩ := defLines_shape indent label url angle title nl
  obtain ⟨r0', r', e'⟩ := defLines_shape indent2 label2 url2 angle2 title2 nl2
  obtain ⟨tail2, hsh⟩ := printDef_shape indent2 label2 url2 angle2 title2 nl2
  have hp := plain_defLines (indent := indent) (angle := angle) (nl := nl) hl hu ht
  have hp2 := plain_defLines (indent := indent2) (angle := angle2) (nl := nl2) hl2 hu2 ht2
  have hcont : DefCont ('\n' :: printDef indent2 label2 url2 angle2 title2 nl2) :=
    Or.inr ⟨indent2, '[', tail2, by rw [hsh]; simp, by decide, by decide, by decide, by decide, by decide⟩
  have hs := refSearch_printDef indent label url angle title nl _ hi hl hu ht hcont
  have hr := referenceP_printDef refs parent rest indent label url angle title nl
    ('\n' :: printDef indent2 label2 url2 angle2 title2 nl2) hu
  have hjoin : printDef indent label url angle title nl ++ '\n' :: printDef indent2 label2 url2 angle2 title2 nl2 =
      joinLines ((spaces indent ++ '[' :: r0) :: (r ++ defLines indent2 label2 url2 angle2 title2 nl2)) := by
    rw [← List.cons_append, ← e, joinLines_append _ _ (by rw [e]; simp) (by rw [e']; simp),
      ← printDef_eq_joinLines, ← printDef_eq_joinLines]
  have hall : ∀ l ∈ (spaces indent ++ '[' :: r0) :: (r ++ defLines indent2 label2 url2 angle2 title2 nl2),
      PlainLine l := by
    intro l hl'
    rw [← List.cons_append, ← e, List.mem_append] at hl'
    rcases hl' with h | h
    · exact hp l h
    · exact hp2 l h
  rw [hjoin, dispatch_plain tab pb state refs parent rest _ _ indent '[' r0 rfl (by decide) hit hall, ← hjoin, hs]
  simp only [hr]
  have hb : isBlank ('\n' :: printDef indent2 label2 url2 angle2 title2 nl2) = false := by
    rw [hsh]; simp [isBlank, isSpace]
  have hls : lstripC '\n' ('\n' :: printDef indent2 label2 url2 angle2 title2 nl2) =
      printDef indent2 label2 url2 angle2 title2 nl2 := by
    show lstripP _ _ = _
    simp only [lstripP, decide_true, if_true]
    apply lstripP_id
    intro c hc
    rw [hsh, head?_spaces_cons] at hc
    simp at hc; subst hc; split <;> decide
  simp [hb, hls]


/-! ### more fuel never changes a result -/


def PBle (pb pb' : PB) : Prop := ∀ st refs p bs out, pb st refs p bs = some out → pb' st refs p bs = some out

private theorem listItems_mono {pb pb' : PB} (h : PBle pb pb') (tab st2) (items : List Str) (refs lst out) :
    listItems tab pb st2 refs lst items = some out → listItems tab pb' st2 refs lst items = some out := by
  induction items generalizing refs lst with
  | nil => simp [listItems]
  | cons item items ih =>
    intro H
    unfold listItems at H ⊢
    grind [PBle]

private theorem listP_mono {pb pb' : PB} (h : PBle pb pb') (tab st refs p b rest tag out) :
    listP tab pb st refs p b rest tag = some out → listP tab pb' st refs p b rest tag = some out := by
  unfold listP
  intro H
  have hli := @listItems_mono pb pb' h
  simp only at H ⊢
  split at H
  · rename_i lst hlst
    cases h1 : pb (st ++ [.looselist]) refs (Node.el "li") [(getItems tab b).headD []] with
    | none => rw [h1] at H; simp at H
    | some r =>
      rw [h _ _ _ _ _ h1]; rw [h1] at H
      grind
  · grind


private theorem hashP_mono {pb pb' : PB} (h : PBle pb pb') (tab st refs p b rest m out) :
    hashP tab pb st refs p b rest m = some out → hashP tab pb' st refs p b rest m = some out := by
  unfold hashP
  intro H
  grind [PBle]

private theorem hrP_mono {pb pb' : PB} (h : PBle pb pb') (st refs p b rest m out) :
    hrP pb st refs p b rest m = some out → hrP pb' st refs p b rest m = some out := by
  unfold hrP
  intro H
  grind [PBle]

private theorem quoteP_mono {pb pb' : PB} (h : PBle pb pb') (st refs p b rest q out) :
    quoteP pb st refs p b rest q = some out → quoteP pb' st refs p b rest q = some out := by
  unfold quoteP parseChunk
  intro H
  cases h1 : pb st refs p [List.take q b] with
  | none => simp [h1] at H
  | some r =>
    rw [h _ _ _ _ _ h1]; rw [h1] at H
    grind [PBle]

private theorem indentP_mono {pb pb' : PB} (h : PBle pb pb') (tab st refs p b rest out) :
    indentP tab pb st refs p b rest = some out → indentP tab pb' st refs p b rest = some out := by
  unfold indentP parseChunk
  intro H
  grind [PBle]

theorem ite_some_mono {α} {C : Prop} [Decidable C] {A B A' B' : Option α} {out : α}
    (hA : C → A = some out → A' = some out) (hB : ¬C → B = some out → B' = some out) :
    (if C then A else B) = some out → (if C then A' else B') = some out := by
  by_cases c : C
  · rw [if_pos c, if_pos c]; exact hA c
  · rw [if_neg c, if_neg c]; exact hB c

private theorem dispatch_mono {pb pb' : PB} (h : PBle pb pb') (tab st refs p b rest out) :
    dispatch tab pb st refs p b rest = some out → dispatch tab pb' st refs p b rest = some out := by
  unfold dispatch
  intro H
  by_cases c1 : (b.isEmpty || startsWith b ['\n']) = true
  · rw [if_pos c1] at H ⊢; exact H
  rw [if_neg c1] at H ⊢
  refine ite_some_mono (fun _ H => indentP_mono h _ _ _ _ _ _ _ H) (fun _ H => ?_) H
  by_cases c3 : startsWith b (spaces tab) = true
  · rw [if_pos c3] at H ⊢; exact H
  rw [if_neg c3] at H ⊢
  cases c4 : hashSearch b with
  | some m => rw [c4] at H; exact hashP_mono h _ _ _ _ _ _ _ _ H
  | none =>
  rw [c4] at H
  simp only at H ⊢
  by_cases c5 : setextMatch b = true
  · rw [if_pos c5] at H ⊢; exact H
  rw [if_neg c5] at H ⊢
  cases c6 : hrSearch b with
  | some m => rw [c6] at H; exact hrP_mono h _ _ _ _ _ _ _ H
  | none =>
  rw [c6] at H
  simp only at H ⊢
  by_cases c7 : (listItemMatch tab true false b).isSome = true
  · rw [if_pos c7] at H ⊢; exact listP_mono h _ _ _ _ _ _ _ _ H
  rw [if_neg c7] at H ⊢
  by_cases c8 : (listItemMatch tab false true b).isSome = true
  · rw [if_pos c8] at H ⊢; exact listP_mono h _ _ _ _ _ _ _ _ H
  rw [if_neg c8] at H ⊢
  cases c9 : quoteSearch b with
  | some q => rw [c9] at H; exact quoteP_mono h _ _ _ _ _ _ _ H
  | none =>
  rw [c9] at H
  exact H

/-- public name of `dispatch_mono` (the short name is also declared by `Lemmas/BlockFuel`, so it is private here) -/
theorem dispatch_mono_ref {pb pb' : PB} (h : PBle pb pb') (tab st refs p b rest out) :
    dispatch tab pb st refs p b rest = some out → dispatch tab pb' st refs p b rest = some out :=
  dispatch_mono h tab st refs p b rest out

theorem parseBlocks_mono (tab : Nat) (f : Nat) : PBle (parseBlocks tab f) (parseBlocks tab (f + 1)) := by
  induction f with
  | zero =>
    intro st refs p bs out H
    cases bs with
    | nil => simpa [parseBlocks] using H
    | cons b r => simp [parseBlocks] at H
  | succ f ih =>
    intro st refs p bs out H
    cases bs with
    | nil => simpa [parseBlocks] using H
    | cons b r =>
      rw [parseBlocks] at H ⊢
      cases hd : dispatch tab (parseBlocks tab f) st refs p b r with
      | none => simp [hd] at H
      | some x =>
        rw [dispatch_mono ih _ _ _ _ _ _ _ hd]
        rw [hd] at H
        exact ih _ _ _ _ _ H

/-! ### the references are only threaded through, the remaining blocks are only passed on -/


abbrev PB0 := List BState → Node → List Str → Option (Node × Refs)

def RefsIndep (pb : PB) (pb0 : PB0) : Prop :=
  ∀ st refs p bs, pb st refs p bs = (pb0 st p bs).map (fun x => (x.1, refs ++ x.2))

/-- prefix the references, append the remaining blocks -/
def frame (refs : Refs) (rest : List Str) (x : Node × Refs × List Str) : Node × Refs × List Str :=
  (x.1, refs ++ x.2.1, x.2.2 ++ rest)

theorem emptyP_frame (refs p b rest) : emptyP refs p b rest = frame refs rest (emptyP [] p b []) := by
  unfold emptyP frame
  grind

theorem codeP_frame (tab refs p b rest) : codeP tab refs p b rest = frame refs rest (codeP tab [] p b []) := by
  unfold codeP frame
  grind

theorem setextP_frame (refs p b rest) : setextP refs p b rest = frame refs rest (setextP [] p b []) := by
  unfold setextP frame
  grind

theorem referenceP_frame (refs p b rest m) : referenceP refs p b rest m = frame refs rest (referenceP [] p b [] m) := by
  unfold referenceP frame
  grind

theorem paraP_frame (st refs p b rest) : paraP st refs p b rest = frame refs rest (paraP st [] p b []) := by
  unfold paraP frame
  grind

theorem hashP_frame {pb : PB} {pb0 : PB0} (h : RefsIndep pb pb0) (tab st refs p b rest m) :
    hashP tab pb st refs p b rest m = (hashP tab pb st [] p b [] m).map (frame refs rest) := by
  have h' : ∀ st refs p bs, pb st refs p bs = (pb0 st p bs).map (fun x => (x.1, refs ++ x.2)) := h
  obtain ⟨a, e, lv, hd⟩ := m
  simp only [hashP, h']
  by_cases c : (b.take a).isEmpty = true
  · simp only [c, if_true, Option.map_some]
    split <;> simp [frame]
  · simp only [c, Bool.false_eq_true, if_false]
    cases pb0 st p [b.take a] with
    | none => simp
    | some x => simp only [Option.map_some, List.nil_append]; split <;> simp [frame]

theorem hrP_frame {pb : PB} {pb0 : PB0} (h : RefsIndep pb pb0) (st refs p b rest m) :
    hrP pb st refs p b rest m = (hrP pb st [] p b [] m).map (frame refs rest) := by
  have h' : ∀ st refs p bs, pb st refs p bs = (pb0 st p bs).map (fun x => (x.1, refs ++ x.2)) := h
  obtain ⟨a, e⟩ := m
  simp only [hrP, h']
  by_cases c : (rstripC '\n' (b.take a)).isEmpty = true
  · simp only [c, if_true, Option.map_some]
    split <;> simp [frame]
  · simp only [c, Bool.false_eq_true, if_false]
    cases pb0 st p [rstripC '\n' (b.take a)] with
    | none => simp
    | some x => simp only [Option.map_some, List.nil_append]; split <;> simp [frame]


theorem quoteP_frame {pb : PB} {pb0 : PB0} (h : RefsIndep pb pb0) (st refs p b rest q) :
    quoteP pb st refs p b rest q = (quoteP pb st [] p b [] q).map (frame refs rest) := by
  have h' : ∀ st refs p bs, pb st refs p bs = (pb0 st p bs).map (fun x => (x.1, refs ++ x.2)) := h
  simp only [quoteP, parseChunk, h']
  cases pb0 st p [b.take q] with
  | none => simp
  | some x =>
    simp only [Option.map_some, List.nil_append]
    split
    · rename_i sib _
      cases pb0 (st ++ [.blockquote]) sib (splitS ['\n', '\n'] (joinLines ((lines (b.drop q)).map quoteClean))) <;>
        simp [frame]
    · cases pb0 (st ++ [.blockquote]) (Node.el "blockquote")
          (splitS ['\n', '\n'] (joinLines ((lines (b.drop q)).map quoteClean))) <;> simp [frame]

theorem listItems_frame {pb : PB} {pb0 : PB0} (h : RefsIndep pb pb0) (tab st2) (items : List Str) (refs lst) :
    listItems tab pb st2 refs lst items = (listItems tab pb st2 [] lst items).map (fun x => (x.1, refs ++ x.2)) := by
  have h' : ∀ st refs p bs, pb st refs p bs = (pb0 st p bs).map (fun x => (x.1, refs ++ x.2)) := h
  induction items generalizing refs lst with
  | nil => simp [listItems]
  | cons item items ih =>
    by_cases c : startsWith item (spaces tab) = true
    · simp only [listItems, c, if_true]
      cases lst.last? with
      | none => simp only; exact ih _ _
      | some l =>
        simp only [h']
        cases pb0 st2 l [item] with
        | none => simp
        | some x =>
          simp only [Option.map_some, List.nil_append]
          rw [ih (refs ++ x.2), ih x.2]
          simp [Function.comp_def]
    · simp only [listItems, c, Bool.false_eq_true, if_false, h']
      cases pb0 st2 (Node.el "li") [item] with
      | none => simp
      | some x =>
        simp only [Option.map_some, List.nil_append]
        rw [ih (refs ++ x.2), ih x.2]
        simp [Function.comp_def]


theorem listP_frame {pb : PB} {pb0 : PB0} (h : RefsIndep pb pb0) (tab st refs p b rest tag) :
    listP tab pb st refs p b rest tag = (listP tab pb st [] p b [] tag).map (frame refs rest) := by
  have h' : ∀ st refs p bs, pb st refs p bs = (pb0 st p bs).map (fun x => (x.1, refs ++ x.2)) := h
  have hl := listItems_frame h
  unfold listP
  simp only [h']
  split
  · rename_i lst _
    cases pb0 (st ++ [.looselist]) (Node.el "li") [(getItems tab b).headD []] with
    | none => simp
    | some x =>
      simp only [Option.map_some, List.nil_append]
      rw [hl _ _ _ (refs ++ x.2), hl _ _ _ x.2]
      cases listItems tab pb (st ++ [.list]) [] _ (List.drop 1 (getItems tab b)) <;> simp [frame]
  · split
    · rw [hl _ _ _ refs]
      cases listItems tab pb (st ++ [.list]) [] p (getItems tab b) <;> simp [frame]
    · rw [hl _ _ _ refs]
      cases listItems tab pb (st ++ [.list]) [] (Node.el tag) (getItems tab b) <;> simp [frame]


theorem indentP_frame {pb : PB} {pb0 : PB0} (h : RefsIndep pb pb0) (tab st refs p b rest) :
    indentP tab pb st refs p b rest = (indentP tab pb st [] p b []).map (frame refs rest) := by
  have h' : ∀ st refs p bs, pb st refs p bs = (pb0 st p bs).map (fun x => (x.1, refs ++ x.2)) := h
  unfold indentP parseChunk
  simp only [h']
  split
  · split
    · rename_i c _
      cases pb0 (st ++ [.detabbed]) c [looseDetab tab b (getLevel tab st p b).1] <;> simp [frame]
    · cases pb0 (st ++ [.detabbed]) p [looseDetab tab b (getLevel tab st p b).1] <;> simp [frame]
  · split
    · cases pb0 (st ++ [.detabbed]) (nodeAt (getLevel tab st p b).2 p) [looseDetab tab b (getLevel tab st p b).1] <;>
        simp [frame]
    · split
      · rename_i li _
        cases pb0 (st ++ [.detabbed]) (textToP li) (splitS ['\n', '\n'] (looseDetab tab b (getLevel tab st p b).1)) <;>
          simp [frame]
      · cases pb0 (st ++ [.detabbed]) (Node.el "li") [looseDetab tab b (getLevel tab st p b).1] <;> simp [frame]


theorem ite_eq_map {α β} {C : Prop} [Decidable C] {A B : Option β} {A0 B0 : Option α} {g : α → β}
    (hA : C → A = A0.map g) (hB : ¬C → B = B0.map g) :
    (if C then A else B) = (if C then A0 else B0).map g := by
  by_cases c : C
  · rw [if_pos c, if_pos c]; exact hA c
  · rw [if_neg c, if_neg c]; exact hB c

theorem dispatch_frame {pb : PB} {pb0 : PB0} (h : RefsIndep pb pb0) (tab st refs p b rest) :
    dispatch tab pb st refs p b rest = (dispatch tab pb st [] p b []).map (frame refs rest) := by
  unfold dispatch
  refine ite_eq_map (fun _ => by rw [emptyP_frame]; rfl) (fun _ => ?_)
  refine ite_eq_map (fun _ => indentP_frame h _ _ _ _ _ _) (fun _ => ?_)
  refine ite_eq_map (fun _ => by rw [codeP_frame]; rfl) (fun _ => ?_)
  cases hashSearch b with
  | some m => exact hashP_frame h _ _ _ _ _ _ _
  | none =>
  simp only
  refine ite_eq_map (fun _ => by rw [setextP_frame]; rfl) (fun _ => ?_)
  cases hrSearch b with
  | some m => exact hrP_frame h _ _ _ _ _ _
  | none =>
  simp only
  refine ite_eq_map (fun _ => listP_frame h _ _ _ _ _ _ _) (fun _ => ?_)
  refine ite_eq_map (fun _ => listP_frame h _ _ _ _ _ _ _) (fun _ => ?_)
  cases quoteSearch b with
  | some q => exact quoteP_frame h _ _ _ _ _ _
  | none =>
  simp only
  cases refSearch b with
  | some m => simp only [Option.map_some]; rw [referenceP_frame]
  | none => simp only [Option.map_some]; rw [paraP_frame]

/-- `parseBlocks` with the references taken out of the input: what it adds to them -/
def parseBlocks0 (tab f : Nat) : PB0 := fun st p bs => parseBlocks tab f st [] p bs

theorem parseBlocks_refsIndep (tab f : Nat) : RefsIndep (parseBlocks tab f) (parseBlocks0 tab f) := by
  induction f with
  | zero =>
    intro st refs p bs
    cases bs <;> simp [parseBlocks, parseBlocks0]
  | succ f ih =>
    intro st refs p bs
    cases bs with
    | nil => simp [parseBlocks, parseBlocks0]
    | cons b r =>
      simp only [parseBlocks, parseBlocks0]
      rw [dispatch_frame ih tab st refs p b r, dispatch_frame ih tab st [] p b r]
      cases dispatch tab (parseBlocks tab f) st [] p b [] with
      | none => simp
      | some x =>
        simp only [Option.map_some, frame, List.nil_append]
        rw [ih st (refs ++ x.2.1), ih st x.2.1]
        simp [Function.comp_def]


/-! ### inserting a block that only stores a reference -/


theorem parseBlocks_le (tab : Nat) {f g : Nat} (hfg : f ≤ g) : PBle (parseBlocks tab f) (parseBlocks tab g) := by
  induction hfg with
  | refl => intro _ _ _ _ _ h; exact h
  | step _ ih => intro st refs p bs out h; exact parseBlocks_mono tab _ _ _ _ _ _ (ih _ _ _ _ _ h)

/-- a run from `refs` is the run from `[]` with `refs` put in front -/
theorem parseBlocks_refs (tab f : Nat) (st : List BState) (refs : Refs) (p : Node) (bs : List Str) :
    parseBlocks tab f st refs p bs = (parseBlocks tab f st [] p bs).map (fun x => (x.1, refs ++ x.2)) :=
  parseBlocks_refsIndep tab f st refs p bs

theorem parseBlocks_refs_some {tab f : Nat} {st : List BState} {refs : Refs} {p : Node} {bs : List Str} {t : Node}
    {R : Refs} (h : parseBlocks tab f st refs p bs = some (t, R)) :
    ∃ δ, R = refs ++ δ ∧ ∀ refs', parseBlocks tab f st refs' p bs = some (t, refs' ++ δ) := by
  rw [parseBlocks_refs] at h
  cases h0 : parseBlocks tab f st [] p bs with
  | none => simp [h0] at h
  | some x =>
    rw [h0] at h
    simp only [Option.map_some, Option.some.injEq, Prod.mk.injEq] at h
    refine ⟨x.2, h.2.symm, fun refs' => ?_⟩
    rw [parseBlocks_refs, h0, ← h.1]; rfl

/-- one turn of the loop, with the references and the remaining blocks factored out -/
theorem dispatch_frame_some {tab f : Nat} {st : List BState} {refs : Refs} {p : Node} {b : Str} {rest : List Str}
    {out : Node × Refs × List Str} (h : dispatch tab (parseBlocks tab f) st refs p b rest = some out) :
    ∃ p' δ q, out = (p', refs ++ δ, q ++ rest) ∧
      ∀ refs' rest', dispatch tab (parseBlocks tab f) st refs' p b rest' = some (p', refs' ++ δ, q ++ rest') := by
  rw [dispatch_frame (parseBlocks_refsIndep tab f)] at h
  cases h0 : dispatch tab (parseBlocks tab f) st [] p b [] with
  | none => simp [h0] at h
  | some x =>
    rw [h0] at h
    simp only [Option.map_some, Option.some.injEq] at h
    refine ⟨x.1, x.2.1, x.2.2, h.symm, fun refs' rest' => ?_⟩
    rw [dispatch_frame (parseBlocks_refsIndep tab f), h0]; rfl

/-- **Inserting a block that only adds a reference.**  `d` is a block on which one turn of the loop does nothing but
    store the entry `e`. -/
theorem parseBlocks_insert (tab : Nat) (st : List BState) (d : Str) (e : Str × (Str × Option Str))
    (hd : ∀ (pb : PB) refs p rest, dispatch tab pb st refs p d rest = some (p, refs ++ [e], rest)) (bs2 : List Str) :
    ∀ (f : Nat) (bs1 : List Str) (refs : Refs) (p t : Node) (R : Refs),
      parseBlocks tab f st refs p (bs1 ++ bs2) = some (t, R) →
      ∃ r1 r2 p1, R = refs ++ r1 ++ r2 ∧ parseBlocks tab f st refs p bs1 = some (p1, refs ++ r1) ∧
        parseBlocks tab (f + 1) st refs p (bs1 ++ d :: bs2) = some (t, refs ++ r1 ++ e :: r2) := by
  intro f
  induction f with
  | zero =>
    intro bs1 refs p t R H
    cases bs1 with
    | cons b r => simp [parseBlocks] at H
    | nil =>
      rw [List.nil_append] at H
      obtain ⟨δ, hR, hδ⟩ := parseBlocks_refs_some H
      refine ⟨[], δ, p, by simp [hR], by simp [parseBlocks], ?_⟩
      simp only [List.nil_append, parseBlocks, hd, List.append_nil]
      rw [hδ]; simp
  | succ f ih =>
    intro bs1 refs p t R H
    cases bs1 with
    | nil =>
      rw [List.nil_append] at H
      obtain ⟨δ, hR, hδ⟩ := parseBlocks_refs_some H
      refine ⟨[], δ, p, by simp [hR], by simp [parseBlocks], ?_⟩
      simp only [List.nil_append, parseBlocks, hd, List.append_nil]
      rw [hδ]; simp
    | cons b bs1 =>
      simp only [List.cons_append, parseBlocks] at H
      cases hdp : dispatch tab (parseBlocks tab f) st refs p b (bs1 ++ bs2) with
      | none => simp [hdp] at H
      | some out =>
        obtain ⟨p', δ0, q, rfl, hall⟩ := dispatch_frame_some hdp
        rw [hdp] at H
        simp only at H
        rw [← List.append_assoc] at H
        obtain ⟨r1, r2, p1, hR, h1, h2⟩ := ih (q ++ bs1) (refs ++ δ0) p' t R H
        refine ⟨δ0 ++ r1, r2, p1, by simp [hR], ?_, ?_⟩
        · simp only [parseBlocks, hall refs bs1]
          rw [h1]; simp
        · simp only [List.cons_append, parseBlocks]
          rw [dispatch_mono (parseBlocks_mono tab f) _ _ _ _ _ _ _ (hall refs (bs1 ++ d :: bs2))]
          simp only
          rw [← List.append_assoc, h2]; simp

/-- the converse: taking the block out again -/
theorem parseBlocks_remove (tab : Nat) (st : List BState) (d : Str) (e : Str × (Str × Option Str))
    (hd : ∀ (pb : PB) refs p rest, dispatch tab pb st refs p d rest = some (p, refs ++ [e], rest)) (bs2 : List Str) :
    ∀ (f : Nat) (bs1 : List Str) (refs : Refs) (p t : Node) (R : Refs),
      parseBlocks tab f st refs p (bs1 ++ d :: bs2) = some (t, R) →
      ∃ r1 r2, R = refs ++ r1 ++ e :: r2 ∧ parseBlocks tab f st refs p (bs1 ++ bs2) = some (t, refs ++ r1 ++ r2) := by
  intro f
  induction f with
  | zero =>
    intro bs1 refs p t R H
    cases bs1 <;> simp [parseBlocks] at H
  | succ f ih =>
    intro bs1 refs p t R H
    cases bs1 with
    | nil =>
      simp only [List.nil_append, parseBlocks, hd] at H
      obtain ⟨δ, hR, hδ⟩ := parseBlocks_refs_some H
      refine ⟨[], δ, by simp [hR], ?_⟩
      simpa using parseBlocks_mono tab f _ _ _ _ _ (hδ refs)
    | cons b bs1 =>
      simp only [List.cons_append, parseBlocks] at H
      cases hdp : dispatch tab (parseBlocks tab f) st refs p b (bs1 ++ d :: bs2) with
      | none => simp [hdp] at H
      | some out =>
        obtain ⟨p', δ0, q, rfl, hall⟩ := dispatch_frame_some hdp
        rw [hdp] at H
        simp only at H
        rw [← List.append_assoc] at H
        obtain ⟨r1, r2, hR, h1⟩ := ih (q ++ bs1) (refs ++ δ0) p' t R H
        refine ⟨δ0 ++ r1, r2, by simp [hR], ?_⟩
        simp only [List.cons_append, parseBlocks, hall refs (bs1 ++ bs2)]
        rw [← List.append_assoc, h1]; simp


/-! ### documents of one block -/


/-- no blank line: `"\n\n"` does not occur -/
def noNN : Str → Bool
  | [] => true
  | c :: r => !(startsWith (c :: r) ['\n', '\n']) && noNN r

theorem splitAux_noNN (s : Str) (h : noNN s = true) : splitAux ['\n', '\n'] 0 s = [s] := by
  induction s with
  | nil => rfl
  | cons c s ih =>
    simp only [noNN, Bool.and_eq_true, Bool.not_eq_true'] at h
    simp only [splitAux, h.1, Bool.false_eq_true, if_false, ih h.2]

theorem noNN_line (l : Str) (h : l.all notNl = true) : noNN l = true := by
  induction l with
  | nil => rfl
  | cons c l ih =>
    simp only [List.all_cons, Bool.and_eq_true] at h
    have : c ≠ '\n' := by simpa [notNl] using h.1
    simp [noNN, startsWith, this, ih h.2]

theorem noNN_line_nl (l X : Str) (h : l.all notNl = true) (hX : noNN X = true) (hh : X.head? ≠ some '\n') :
    noNN (l ++ '\n' :: X) = true := by
  induction l with
  | nil =>
    cases X with
    | nil => simp [noNN, startsWith]
    | cons d X => simp at hh; simp [noNN, startsWith, hh] at hX ⊢; exact hX
  | cons c l ih =>
    simp only [List.all_cons, Bool.and_eq_true] at h
    have : c ≠ '\n' := by simpa [notNl] using h.1
    simp [noNN, startsWith, this, ih h.2]

theorem noNN_plain (ls : List Str) (h : ∀ l ∈ ls, PlainLine l) : noNN (joinLines ls) = true := by
  induction ls with
  | nil => rfl
  | cons a r ih =>
    cases r with
    | nil => exact noNN_line a (h a (by simp)).noNl
    | cons b r =>
      rw [joinLines_cons_cons]
      obtain ⟨n, c, tail, e, hc⟩ := joinLines_shape b r (h b (by simp))
      apply noNN_line_nl _ _ (h a (by simp)).noNl (ih (fun l hl => h l (by simp [hl])))
      rw [e, head?_spaces_cons]
      split
      · intro h'; simp at h'; subst h'; simp [plainCh] at hc
      · simp

/-- a document that consists of one block of plain lines is parsed as that block -/
theorem parseDocument_plain (tab : Nat) (ls : List Str) (h : ∀ l ∈ ls, PlainLine l) :
    parseDocument tab (joinLines ls) =
      parseBlocks tab (fuelFor (joinLines ls).length) [] [] (Node.el "div") [joinLines ls] := by
  simp [parseDocument, parseDocumentWith, parseChunk, splitS, splitAux_noNN _ (noNN_plain ls h)]


/-! ### `md.references.get` -/


theorem lookupRef_nil (id : Str) : lookupRef [] id = none := rfl

theorem lookupRef_append (A B : Refs) (id : Str) :
    lookupRef (A ++ B) id = (lookupRef B id).or (lookupRef A id) := by
  unfold lookupRef
  rw [List.reverse_append, List.find?_append]
  cases List.find? (fun r => decide (r.1 = id)) B.reverse <;> simp

theorem lookupRef_single (e : Str × (Str × Option Str)) (id : Str) :
    lookupRef [e] id = if e.1 = id then some e.2 else none := by
  unfold lookupRef
  by_cases h : e.1 = id <;> simp [h]

theorem lookupRef_eq_none_iff (refs : Refs) (id : Str) : lookupRef refs id = none ↔ id ∉ refKeys refs := by
  unfold lookupRef refKeys
  simp only [Option.map_eq_none_iff, List.find?_eq_none, List.mem_reverse, decide_eq_true_eq, List.mem_map, not_exists,
    not_and]

theorem lookupRef_cons_absent (e : Str × (Str × Option Str)) (B : Refs) (id : Str) (h : e.1 ≠ id) :
    lookupRef (e :: B) id = lookupRef B id := by
  have := lookupRef_append [e] B id
  simp only [List.singleton_append] at this
  rw [this, lookupRef_single, if_neg h]; simp

/-- the value found for `id` when the entry `e` is inserted anywhere into `A ++ B` -/
theorem lookupRef_insert (A B : Refs) (e : Str × (Str × Option Str)) (id : Str) :
    lookupRef (A ++ e :: B) id =
      (lookupRef B id).or (if e.1 = id then some e.2 else lookupRef A id) := by
  rw [lookupRef_append, show e :: B = [e] ++ B from rfl, lookupRef_append, lookupRef_single]
  cases lookupRef B id <;> by_cases h : e.1 = id <;> simp [h]


end MdVerif.Block

namespace MdVerif.RefDef
open Py Block


/-! ### characters -/

theorem char_of_ascii (P : Char → Prop) (h : ∀ n, n < 128 → P (Char.ofNat n)) (c : Char) (hc : c.toNat < 128) : P c := by
  have := h c.toNat hc
  rwa [Char.ofNat_toNat] at this

theorem lowerChar_space_ascii : ∀ n, n < 128 → isSpace (Char.ofNat n) = true → lowerChar (Char.ofNat n) = [Char.ofNat n] := by
  decide +kernel

theorem lowerChar_nonspace_ascii :
    ∀ n, n < 128 → isSpace (Char.ofNat n) = false → (lowerChar (Char.ofNat n)).all (fun d => !isSpace d) = true := by
  decide +kernel

theorem space_not_in_lowerTable :
    ∀ n ∈ Generated.Chars.spaceNonAscii, Generated.Chars.lowerNonAscii.find? (fun p => p.1 = n) = none := by
  decide +kernel

theorem lowerTable_nonspace :
    Generated.Chars.lowerNonAscii.all (fun p => p.2.all (fun n => !isSpace (Char.ofNat n))) = true := by
  decide +kernel


/-- a white-space character is its own lower case -/
theorem lowerChar_space (c : Char) (h : isSpace c = true) : lowerChar c = [c] := by
  by_cases hc : c.toNat < 128
  · exact char_of_ascii (fun c => isSpace c = true → lowerChar c = [c]) lowerChar_space_ascii c hc h
  · have hm : c.toNat ∈ Generated.Chars.spaceNonAscii := by
      simpa [isSpace, hc] using h
    simp [lowerChar, hc, space_not_in_lowerTable _ hm]

/-- the lower case of a character that is not white space contains no white space -/
theorem lowerChar_nonspace (c : Char) (h : isSpace c = false) : (lowerChar c).all (fun d => !isSpace d) = true := by
  by_cases hc : c.toNat < 128
  · exact char_of_ascii (fun c => isSpace c = false → (lowerChar c).all (fun d => !isSpace d) = true)
      lowerChar_nonspace_ascii c hc h
  · simp only [lowerChar, hc, if_false]
    cases hf : Generated.Chars.lowerNonAscii.find? (fun p => p.1 = c.toNat) with
    | none => simp [h]
    | some p =>
      have hp := List.mem_of_find?_eq_some hf
      have := List.all_eq_true.mp lowerTable_nonspace p hp
      simpa [List.all_map] using this


theorem lowerTable_nonempty :
    Generated.Chars.lowerNonAscii.all (fun p => !p.2.isEmpty) = true := by
  decide +kernel

theorem lowerChar_ne_nil (c : Char) : lowerChar c ≠ [] := by
  unfold lowerChar
  split
  · split <;> simp
  · cases hf : Generated.Chars.lowerNonAscii.find? (fun p => p.1 = c.toNat) with
    | none => simp
    | some p =>
      have hp := List.mem_of_find?_eq_some hf
      have := List.all_eq_true.mp lowerTable_nonempty p hp
      simpa using this

/-! ### `lower` -/

theorem lower_append (a b : Str) : lower (a ++ b) = lower a ++ lower b := by simp [lower]

theorem lower_cons (c : Char) (s : Str) : lower (c :: s) = lowerChar c ++ lower s := by simp [lower]

theorem lower_sep (s : Str) (h : s.all isSpace = true) : lower s = s := by
  induction s with
  | nil => rfl
  | cons c s ih =>
    simp only [List.all_cons, Bool.and_eq_true] at h
    rw [lower_cons, lowerChar_space c h.1, ih h.2]; rfl

theorem lower_word_nonspace (w : Str) (h : w.all (fun c => !isSpace c) = true) :
    (lower w).all (fun c => !isSpace c) = true := by
  induction w with
  | nil => rfl
  | cons c w ih =>
    simp only [List.all_cons, Bool.and_eq_true, Bool.not_eq_true'] at h
    rw [lower_cons, List.all_append, lowerChar_nonspace c h.1, ih (by simpa using h.2)]; rfl

theorem lower_ne_nil (w : Str) (h : w ≠ []) : lower w ≠ [] := by
  cases w with
  | nil => exact absurd rfl h
  | cons c w => rw [lower_cons]; simp [lowerChar_ne_nil]

theorem lower_sameLower (w w' : Str) (h : sameLower w w' = true) : lower w' = lower w := by
  induction w generalizing w' with
  | nil => cases w' <;> simp_all [sameLower]
  | cons a w ih =>
    cases w' with
    | nil => simp [sameLower] at h
    | cons b w' =>
      simp only [sameLower, Bool.and_eq_true, beq_iff_eq] at h
      rw [lower_cons, lower_cons, h.1, ih w' h.2]

theorem lower_join (ws : List Str) : lower (join [' '] ws) = join [' '] (ws.map lower) := by
  induction ws with
  | nil => rfl
  | cons a r ih =>
    cases r with
    | nil => rfl
    | cons b r =>
      simp only [join, List.map_cons, lower_append] at ih ⊢
      rw [ih]; rfl

/-! ### `wsCollapse` -/

theorem wsCollapseAux_word (X r : Str) (b : Bool) (hne : X ≠ []) (h : X.all (fun c => !isSpace c) = true) :
    wsCollapseAux b (X ++ r) = X ++ wsCollapseAux false r := by
  induction X generalizing b with
  | nil => exact absurd rfl hne
  | cons c X ih =>
    simp only [List.all_cons, Bool.and_eq_true, Bool.not_eq_true'] at h
    cases X with
    | nil => simp [wsCollapseAux, h.1]
    | cons d X =>
      have := ih false (by simp) (by simpa using h.2)
      simp only [List.cons_append] at this ⊢
      rw [wsCollapseAux]
      simp only [h.1, Bool.false_eq_true, if_false]
      rw [this]

theorem wsCollapseAux_true_sep (s r : Str) (h : s.all isSpace = true) :
    wsCollapseAux true (s ++ r) = wsCollapseAux true r := by
  induction s with
  | nil => rfl
  | cons c s ih =>
    simp only [List.all_cons, Bool.and_eq_true] at h
    simp [wsCollapseAux, h.1, ih h.2]

theorem wsCollapseAux_false_sep (s r : Str) (hne : s ≠ []) (h : s.all isSpace = true) :
    wsCollapseAux false (s ++ r) = ' ' :: wsCollapseAux true r := by
  cases s with
  | nil => exact absurd rfl hne
  | cons c s =>
    simp only [List.all_cons, Bool.and_eq_true] at h
    simp [wsCollapseAux, h.1, wsCollapseAux_true_sep s r h.2]

/-- words separated by arbitrary white space collapse to the words joined by single spaces -/
theorem wsCollapse_words (X0 : Str) (vs : List (Str × Str)) (h0 : isWord X0 = true)
    (hv : ∀ v ∈ vs, isSep v.1 = true ∧ isWord v.2 = true) :
    wsCollapseAux false (X0 ++ vs.flatMap (fun v => v.1 ++ v.2)) = join [' '] (X0 :: vs.map (·.2)) := by
  induction vs generalizing X0 with
  | nil =>
    simp only [isWord, Bool.and_eq_true, Bool.not_eq_true', List.isEmpty_eq_false_iff] at h0
    have := wsCollapseAux_word X0 [] false h0.1 h0.2
    simpa [join, wsCollapseAux] using this
  | cons v vs ih =>
    have hv0 := hv v (by simp)
    simp only [isWord, isSep, Bool.and_eq_true, Bool.not_eq_true', List.isEmpty_eq_false_iff] at h0 hv0
    have ih' := ih v.2 (by simp [isWord, hv0.2.1, hv0.2.2]) (fun x hx => hv x (by simp [hx]))
    simp only [List.flatMap_cons, List.map_cons, join]
    rw [wsCollapseAux_word X0 _ false h0.1 h0.2, List.append_assoc, wsCollapseAux_false_sep _ _ hv0.1.1 hv0.1.2]
    have step : wsCollapseAux true (v.2 ++ vs.flatMap (fun v => v.1 ++ v.2)) =
        wsCollapseAux false (v.2 ++ vs.flatMap (fun v => v.1 ++ v.2)) := by
      rw [wsCollapseAux_word _ _ true hv0.2.1 hv0.2.2, wsCollapseAux_word _ _ false hv0.2.1 hv0.2.2]
    rw [step, ih']
    simp


/-! ### the two normalisations agree -/

theorem isWord_iff (w : Str) : isWord w = true ↔ w ≠ [] ∧ w.all (fun c => !isSpace c) = true := by
  simp [isWord]

theorem join_head (a : Str) (r : List Str) (ha : isWord a = true) :
    ∃ c t, join [' '] (a :: r) = c :: t ∧ isSpace c = false := by
  obtain ⟨hne, hall⟩ := (isWord_iff a).mp ha
  cases a with
  | nil => exact absurd rfl hne
  | cons c a =>
    simp only [List.all_cons, Bool.and_eq_true, Bool.not_eq_true'] at hall
    cases r with
    | nil => exact ⟨c, a, rfl, hall.1⟩
    | cons b r => exact ⟨c, a ++ [' '] ++ join [' '] (b :: r), by simp [join], hall.1⟩

theorem join_last (ws : List Str) (hne : ws ≠ []) (h : ∀ w ∈ ws, isWord w = true) :
    ∃ t c, join [' '] ws = t ++ [c] ∧ isSpace c = false := by
  induction ws with
  | nil => exact absurd rfl hne
  | cons a r ih =>
    cases r with
    | nil =>
      obtain ⟨hne', hall⟩ := (isWord_iff a).mp (h a (by simp))
      refine ⟨a.dropLast, a.getLast hne', by simp [join, List.dropLast_concat_getLast], ?_⟩
      have := List.all_eq_true.mp hall _ (List.getLast_mem hne')
      simpa using this
    | cons b r =>
      obtain ⟨t, c, e, hc⟩ := ih (by simp) (fun w hw => h w (by simp [hw]))
      exact ⟨a ++ [' '] ++ t, c, by simp [join] at e ⊢; rw [e], hc⟩

theorem strip_labelOf (w0 : Str) (ws : List Str) (h : ∀ w ∈ w0 :: ws, isWord w = true) :
    strip (labelOf (w0 :: ws)) = labelOf (w0 :: ws) := by
  obtain ⟨c, t, e1, hc⟩ := join_head w0 ws (h w0 (by simp))
  obtain ⟨t', c', e2, hc'⟩ := join_last (w0 :: ws) (by simp) h
  unfold strip stripP labelOf
  have hl : lstripP isSpace (join [' '] (w0 :: ws)) = join [' '] (w0 :: ws) :=
    lstripP_id _ _ (fun x hx => by rw [e1] at hx; simp at hx; subst hx; exact hc)
  rw [hl]
  exact rstripP_id _ _ (fun x hx => by rw [e2] at hx; simp at hx; subst hx; exact hc')

theorem lower_flatMap (vs : List (Str × Str)) :
    lower (vs.flatMap (fun v => v.1 ++ v.2)) =
      (vs.map (fun v => (lower v.1, lower v.2))).flatMap (fun v => v.1 ++ v.2) := by
  induction vs with
  | nil => rfl
  | cons v vs ih => simp only [List.flatMap_cons, List.map_cons, lower_append, ih]

theorem isWord_lower (w : Str) (h : isWord w = true) : isWord (lower w) = true := by
  obtain ⟨hne, hall⟩ := (isWord_iff w).mp h
  exact (isWord_iff _).mpr ⟨lower_ne_nil w hne, lower_word_nonspace w hall⟩

theorem variantOK_spec (ws : List Str) (vs : List (Str × Str)) (hw : ∀ w ∈ ws, isWord w = true)
    (h : variantOK ws vs = true) :
    (∀ v ∈ vs.map (fun v => (lower v.1, lower v.2)), isSep v.1 = true ∧ isWord v.2 = true) ∧
      (vs.map (fun v => (lower v.1, lower v.2))).map (·.2) = ws.map lower := by
  induction ws generalizing vs with
  | nil => cases vs <;> simp_all [variantOK]
  | cons w ws ih =>
    cases vs with
    | nil => simp [variantOK] at h
    | cons v vs =>
      simp only [variantOK, Bool.and_eq_true] at h
      obtain ⟨⟨hsep, hsl⟩, hrest⟩ := h
      obtain ⟨ih1, ih2⟩ := ih vs (fun x hx => hw x (by simp [hx])) hrest
      have hl : lower v.2 = lower w := lower_sameLower w v.2 hsl
      have hsep' : lower v.1 = v.1 := lower_sep _ (by simp only [isSep, Bool.and_eq_true] at hsep; exact hsep.2)
      constructor
      · intro x hx
        simp only [List.map_cons, List.mem_cons] at hx
        rcases hx with rfl | hx
        · exact ⟨by simp only [hsep', hsep], by simp only [hl]; exact isWord_lower w (hw w (by simp))⟩
        · exact ih1 x hx
      · simp only [List.map_cons, hl, ih2]

/-- **Label matching.**  The key computed at the place of use from any case/white-space variant of a label equals
    the key under which the definition is stored. -/
theorem normUse_variant (w0 : Str) (ws : List Str) (w0' : Str) (vs : List (Str × Str))
    (hw : ∀ w ∈ w0 :: ws, isWord w = true) (h0 : sameLower w0 w0' = true) (hv : variantOK ws vs = true) :
    normUse (useVariant w0' vs) = normDef (labelOf (w0 :: ws)) := by
  obtain ⟨hv1, hv2⟩ := variantOK_spec ws vs (fun w hw' => hw w (by simp [hw'])) hv
  have hX0 : isWord (lower w0') = true := by
    rw [lower_sameLower w0 w0' h0]; exact isWord_lower w0 (hw w0 (by simp))
  unfold normUse normDef useVariant wsCollapse
  rw [strip_labelOf w0 ws hw, lower_append, lower_flatMap, wsCollapse_words _ _ hX0 hv1, hv2,
    lower_sameLower w0 w0' h0]
  unfold labelOf
  rw [lower_join]; rfl



/-! ### a key with two adjacent spaces is never looked up -/

theorem wsCollapseAux_noAdjSp (s : Str) :
    noAdjSp (wsCollapseAux false s) = true ∧ noAdjSp (wsCollapseAux true s) = true ∧
      ∀ c, (wsCollapseAux true s).head? = some c → isSpace c = false := by
  induction s with
  | nil => simp [wsCollapseAux, noAdjSp]
  | cons c r ih =>
    obtain ⟨ih1, ih2, ih3⟩ := ih
    have hcons : ∀ (b : Bool), isSpace c = false → noAdjSp (c :: wsCollapseAux false r) = true := by
      intro _ hc
      cases hY : wsCollapseAux false r with
      | nil => rfl
      | cons d Y => rw [hY] at ih1; simp [noAdjSp, hc, ih1]
    by_cases hc : isSpace c = true
    · simp only [wsCollapseAux, hc, if_true, Bool.false_eq_true, if_false]
      refine ⟨?_, ih2, ih3⟩
      cases hX : wsCollapseAux true r with
      | nil => rfl
      | cons d X =>
        rw [hX] at ih2 ih3
        simp [noAdjSp, ih3 d rfl, ih2]
    · simp only [Bool.not_eq_true] at hc
      simp only [wsCollapseAux, hc, Bool.false_eq_true, if_false]
      exact ⟨hcons false hc, hcons true hc, fun d hd => by simp at hd; subst hd; exact hc⟩

theorem normUse_noAdjSp (v : Str) : noAdjSp (normUse v) = true := (wsCollapseAux_noAdjSp (lower v)).1

end MdVerif.RefDef
