/-
String classes for "no bad token can arise in the name of a heading", part 2: the classes of `Lemmas/C02FnZStr.lean` are
closed under the functions `TocTreeprocessor` applies to a name after `unescape` — `strip_tags`, the postprocessors
(`RawHtmlPostprocessor` on an STX-free stash, `FootnotePostprocessor`, `AndSubstitutePostprocessor`) — and under the
serializer's escaping.

Every one of these functions is a sequence of left-to-right rewritings (`Rws sf s (f s)`): characters are copied, or a
chunk that starts with a safe character (`<`, `&`, `>`, STX itself, whitespace) is replaced by an STX-free string.  The
closure of the classes under `Rw` is proved once in part 1.  Core Lean only.
-/
import MdVerif.Lemmas.C02FnZStr2
import MdVerif.Model.PipelineX

set_option autoImplicit false

namespace MdVerif.C02Z
open Py

/-! ### sequences of rewritings -/

inductive Rws (sf : Char → Bool) : Str → Str → Prop
  | refl (s : Str) : Rws sf s s
  | step {a b c : Str} : Rw sf a b → Rws sf b c → Rws sf a c

theorem Rws.one {sf : Char → Bool} {a b : Str} (h : Rw sf a b) : Rws sf a b := .step h (.refl _)

theorem Rws.trans {sf : Char → Bool} {a b c : Str} (h1 : Rws sf a b) (h2 : Rws sf b c) : Rws sf a c := by
  induction h1 with
  | refl => exact h2
  | step h _ ih => exact .step h (ih h2)

theorem Rws.mono {sf sf' : Char → Bool} (hs : ∀ c, sf c = true → sf' c = true) {s o : Str} (h : Rws sf s o) :
    Rws sf' s o := by
  induction h with
  | refl => exact .refl _
  | step h _ ih => exact .step (h.mono hs) ih

theorem Rws.noSTX {sf : Char → Bool} {s o : Str} (h : Rws sf s o) (hs : TreeProc.STX ∉ s) : TreeProc.STX ∉ o := by
  induction h with
  | refl => exact hs
  | step h _ ih => exact ih (h.trans_noSTX hs)

theorem Cls.Z_rws (C : Cls) {s o : Str} (h : Rws C.sf s o) (hz : C.Z s = true) : C.Z o = true := by
  induction h with
  | refl => exact hz
  | step h _ ih => exact ih (C.Z_rw h hz)

theorem Cls.Zc_rws (C : Cls) {s o : Str} (h : Rws C.sf s o) (hz : C.Zc s = true) : C.Zc o = true := by
  induction h with
  | refl => exact hz
  | step h _ ih => exact ih (C.Zc_rw h hz)

theorem Z3_rws {s o : Str} (h : Rws safe s o) (hz : Z3 s = true) : Z3 o = true := by
  rw [← cls3_Z] at *; exact cls3.Z_rws h hz
theorem Z3c_rws {s o : Str} (h : Rws safe s o) (hz : Z3c s = true) : Z3c o = true := by
  rw [← cls3_Zc] at *; exact cls3.Zc_rws h hz
theorem Z0_rws {s o : Str} (h : Rws safe0 s o) (hz : Z0 s = true) : Z0 o = true := by
  rw [← cls0_Z] at *; exact cls0.Z_rws h hz
theorem Z0c_rws {s o : Str} (h : Rws safe0 s o) (hz : Z0c s = true) : Z0c o = true := by
  rw [← cls0_Zc] at *; exact cls0.Zc_rws h hz
theorem ZA_rws {s o : Str} (h : Rws safeA s o) (hz : ZA s = true) : ZA o = true := by
  rw [← clsA_Z] at *; exact clsA.Z_rws h hz
theorem ZAc_rws {s o : Str} (h : Rws safeA s o) (hz : ZAc s = true) : ZAc o = true := by
  rw [← clsA_Zc] at *; exact clsA.Zc_rws h hz

/-- a chunk of `n + 1` characters that starts with a safe one is replaced -/
theorem rw_chunk {sf : Char → Bool} {c : Char} {s : Str} (n : Nat) {E o : Str} (hc : sf c = true)
    (hE : TreeProc.STX ∉ E) (h : Rw sf (s.drop n) o) : Rw sf (c :: s) (E ++ o) := by
  have := Rw.repl (sf := sf) (c0 := c) (s.take n) hc hE h
  rwa [List.cons_append, List.take_append_drop] at this

/-- a chunk of `len` characters is copied -/
theorem rw_chunk_copy {sf : Char → Bool} {c : Char} {s : Str} {len : Nat} (hlen : 0 < len) {o : Str}
    (h : Rw sf (s.drop (len - 1)) o) : Rw sf (c :: s) ((c :: s).take len ++ o) := by
  have := Rw.copyL ((c :: s).take len) h
  have e : (c :: s).take len ++ s.drop (len - 1) = c :: s := by
    obtain ⟨m, rfl⟩ : ∃ m, len = m + 1 := ⟨len - 1, by omega⟩
    simp only [List.take_succ_cons, Nat.add_sub_cancel, List.cons_append, List.take_append_drop]
  rwa [e] at this

/-! ### (h) `str.replace` -/

theorem rw_replaceAux {sf : Char → Bool} {c0 : Char} {p b : Str} (hc : sf c0 = true) (hb : TreeProc.STX ∉ b) :
    ∀ (s : Str) (k : Nat), Rw sf (s.drop k) (replaceAux (c0 :: p) b k s) := by
  intro s
  induction s with
  | nil => intro k; rw [replaceAux_nil, List.drop_nil]; exact .nil
  | cons c r ih =>
    intro k
    cases k with
    | succ k => rw [replaceAux_succ_cons, List.drop_succ_cons]; exact ih k
    | zero =>
      rw [replaceAux_zero_cons, List.drop_zero]
      split
      · rename_i hst
        have hcc : c = c0 := by
          simp only [startsWith, Bool.and_eq_true, decide_eq_true_eq] at hst
          exact hst.1
        subst hcc
        exact rw_chunk _ hc hb (ih _)
      · have := ih 0
        rw [List.drop_zero] at this
        exact .copy c this

/-- **`s.replace(pat, rep)`** for a pattern that starts with a safe character and an STX-free replacement -/
theorem rw_replace {sf : Char → Bool} {c0 : Char} {p b : Str} (hc : sf c0 = true) (hb : TreeProc.STX ∉ b)
    (s : Str) : Rw sf s (replace s (c0 :: p) b) := by
  have := rw_replaceAux (p := p) hc hb s 0
  rw [List.drop_zero] at this
  simpa [replace] using this

theorem Z3_replace {s pat rep : Str} (h : Z3 s = true) (hp : ∀ c, pat.head? = some c → safe c = true)
    (hr : TreeProc.STX ∉ rep) : Z3 (replace s pat rep) = true := by
  cases pat with
  | nil => simpa [replace] using h
  | cons c0 p => exact Z3_rw (rw_replace (hp c0 rfl) hr s) h

theorem Z3c_replace {s pat rep : Str} (h : Z3c s = true) (hp : ∀ c, pat.head? = some c → safe c = true)
    (hr : TreeProc.STX ∉ rep) : Z3c (replace s pat rep) = true := by
  cases pat with
  | nil => simpa [replace] using h
  | cons c0 p => exact Z3c_rw (rw_replace (hp c0 rfl) hr s) h

theorem rw_postprocess {sf : Char → Bool} (hs : sf TreeProc.STX = true) (s : Str) :
    Rws sf s (FootnotesTree.postprocess s) := by
  unfold FootnotesTree.postprocess
  exact .step (rw_replace (c0 := FootnotesTree.STX) (p := "zz1337820767766393qq".toList ++ [FootnotesTree.ETX])
      hs (by decide) s)
    (.one (rw_replace (c0 := FootnotesTree.STX) (p := "qq3936677670287331zz".toList ++ [FootnotesTree.ETX])
      hs (by decide) _))

theorem rw_post_ampSub {sf : Char → Bool} (hs : sf TreeProc.STX = true) (s : Str) : Rw sf s (Post.ampSub s) := by
  unfold Post.ampSub
  exact rw_replace (c0 := Post.STX) (p := 'a' :: 'm' :: 'p' :: [Post.ETX]) hs (by decide) s

/-! ### (g) `RawHtmlPostprocessor` -/

theorem htmlPhAt_pos {suf digits : Str} {l : Nat} (h : Post.htmlPhAt suf = some (digits, l)) : 0 < l := by
  unfold Post.htmlPhAt at h
  split at h
  · simp only at h
    split at h
    · simp only [Option.some.injEq, Prod.mk.injEq] at h
      have := h.2
      unfold Post.htmlPrefixLen at this
      omega
    · cases h
  · cases h

theorem stashLookup_noSTX {stash : List Str} (hst : ∀ e ∈ stash, TreeProc.STX ∉ e) {digits html : Str}
    (h : Post.stashLookup stash digits = some html) : TreeProc.STX ∉ html := by
  unfold Post.stashLookup at h
  simp only at h
  split at h
  · exact hst html (List.mem_of_getElem? h)
  · cases h

theorem rw_subPass {sf : Char → Bool} (h1 : sf '<' = true) (h2 : sf TreeProc.STX = true) (bl : List Str)
    {stash : List Str} (hst : ∀ e ∈ stash, TreeProc.STX ∉ e) :
    ∀ (s : Str) (k : Nat), Rw sf (s.drop k) (Post.subPass bl stash k s) := by
  intro s
  induction s with
  | nil => intro k; cases k <;> exact .nil
  | cons c s ih =>
    intro k
    cases k with
    | succ k => rw [Post.subPass, List.drop_succ_cons]; exact ih k
    | zero =>
      rw [List.drop_zero, Post.subPass]
      simp only
      split
      · -- `<p>` placeholder `</p>`
        rename_i out len halt
        split at halt
        · rename_i hp
          simp only [Bool.and_eq_true, decide_eq_true_eq] at hp
          have hc := hp.1
          subst hc
          split at halt
          · rename_i digits l hph
            split at halt
            · split at halt
              · rename_i html hl
                split at halt
                · simp only [Option.some.injEq, Prod.mk.injEq] at halt
                  obtain ⟨rfl, rfl⟩ := halt
                  exact rw_chunk _ h1 (stashLookup_noSTX hst hl) (ih _)
                · simp only [Option.some.injEq, Prod.mk.injEq] at halt
                  obtain ⟨rfl, rfl⟩ := halt
                  refine rw_chunk _ h1 ?_ (ih _)
                  intro hm
                  rcases List.mem_append.1 hm with hm | hm
                  · rcases List.mem_append.1 hm with hm | hm
                    · revert hm; decide
                    · exact stashLookup_noSTX hst hl hm
                  · revert hm; decide
              · simp only [Option.some.injEq, Prod.mk.injEq] at halt
                obtain ⟨rfl, rfl⟩ := halt
                exact rw_chunk_copy (by omega) (ih _)
            · cases halt
          · cases halt
        · cases halt
      · split
        · rename_i digits l hph
          have hc : c = Post.STX := by
            split at hph
            · assumption
            · cases hph
          rw [if_pos hc] at hph
          have hl0 := htmlPhAt_pos hph
          split
          · rename_i html hl
            subst hc
            exact rw_chunk _ h2 (stashLookup_noSTX hst hl) (ih _)
          · exact rw_chunk_copy hl0 (ih _)
        · have := ih 0
          rw [List.drop_zero] at this
          exact .copy c this

theorem rws_rawHtml {sf : Char → Bool} (h1 : sf '<' = true) (h2 : sf TreeProc.STX = true) (bl : List Str)
    {stash : List Str} (hst : ∀ e ∈ stash, TreeProc.STX ∉ e) :
    ∀ (f : Nat) (t r : Str), Post.rawHtml bl stash f t = some r → Rws sf t r := by
  intro f
  induction f with
  | zero => intro t r h; simp [Post.rawHtml] at h
  | succ f ih =>
    intro t r h
    simp only [Post.rawHtml] at h
    have hp : Rw sf t (Post.subPass bl stash 0 t) := by
      have := rw_subPass h1 h2 bl hst t 0
      rwa [List.drop_zero] at this
    split at h
    · simp only [Option.some.injEq] at h; subst h; exact .refl _
    · split at h
      · simp only [Option.some.injEq] at h; subst h; exact .one hp
      · exact .step hp (ih _ _ h)

/-- all the postprocessors -/
theorem rws_postX {sf : Char → Bool} (h1 : sf '<' = true) (h2 : sf TreeProc.STX = true) (x : PipelineX.Exts)
    (cfg : Pipeline.Cfg) {stash : List Str} (hst : ∀ e ∈ stash, TreeProc.STX ∉ e) {s o : Str}
    (h : PipelineX.postX x cfg stash s = some o) : Rws sf s o := by
  unfold PipelineX.postX at h
  rw [Option.map_eq_some_iff] at h
  obtain ⟨r, hr, rfl⟩ := h
  refine (rws_rawHtml h1 h2 _ hst _ _ _ hr).trans ?_
  split
  · exact (rw_postprocess h2 r).trans (.one (rw_post_ampSub h2 _))
  · exact .one (rw_post_ampSub h2 _)

theorem Z3_subPass (bl : List Str) {stash : List Str} (hst : ∀ e ∈ stash, TreeProc.STX ∉ e) {s : Str}
    (h : Z3 s = true) : Z3 (Post.subPass bl stash 0 s) = true := by
  have := rw_subPass (sf := safe) (by decide) safe_stx bl hst s 0
  rw [List.drop_zero] at this
  exact Z3_rw this h

theorem Z3_rawHtml (bl : List Str) {stash : List Str} (hst : ∀ e ∈ stash, TreeProc.STX ∉ e) {f : Nat} {s o : Str}
    (ho : Post.rawHtml bl stash f s = some o) (h : Z3 s = true) : Z3 o = true :=
  Z3_rws (rws_rawHtml (by decide) safe_stx bl hst f s o ho) h

theorem Z3c_rawHtml (bl : List Str) {stash : List Str} (hst : ∀ e ∈ stash, TreeProc.STX ∉ e) {f : Nat} {s o : Str}
    (ho : Post.rawHtml bl stash f s = some o) (h : Z3c s = true) : Z3c o = true :=
  Z3c_rws (rws_rawHtml (by decide) safe_stx bl hst f s o ho) h

theorem Z3_postprocess {s : Str} (h : Z3 s = true) : Z3 (FootnotesTree.postprocess s) = true :=
  Z3_rws (rw_postprocess safe_stx s) h
theorem Z3c_postprocess {s : Str} (h : Z3c s = true) : Z3c (FootnotesTree.postprocess s) = true :=
  Z3c_rws (rw_postprocess safe_stx s) h
theorem Z3_post_ampSub {s : Str} (h : Z3 s = true) : Z3 (Post.ampSub s) = true :=
  Z3_rw (rw_post_ampSub safe_stx s) h
theorem Z3c_post_ampSub {s : Str} (h : Z3c s = true) : Z3c (Post.ampSub s) = true :=
  Z3c_rw (rw_post_ampSub safe_stx s) h

/-- **the postprocessors keep `Z3`** -/
theorem Z3_postX (x : PipelineX.Exts) (cfg : Pipeline.Cfg) {stash : List Str} {s o : Str}
    (ho : PipelineX.postX x cfg stash s = some o) (hst : ∀ e ∈ stash, TreeProc.STX ∉ e) (h : Z3 s = true) :
    Z3 o = true :=
  Z3_rws (rws_postX (by decide) safe_stx x cfg hst ho) h

theorem Z3c_postX (x : PipelineX.Exts) (cfg : Pipeline.Cfg) {stash : List Str} {s o : Str}
    (ho : PipelineX.postX x cfg stash s = some o) (hst : ∀ e ∈ stash, TreeProc.STX ∉ e) (h : Z3c s = true) :
    Z3c o = true :=
  Z3c_rws (rws_postX (by decide) safe_stx x cfg hst ho) h

/-! ### (f) `strip_tags` -/

theorem rws_cutSpans {sf : Char → Bool} {c0 : Char} (hc : sf c0 = true) (op cl : Str) (hcl : 0 < cl.length) :
    ∀ (f : Nat) (t : Str), Rws sf t (TocTree.cutSpans (c0 :: op) cl f t) := by
  intro f
  induction f with
  | zero => intro t; exact .refl _
  | succ f ih =>
    intro t
    simp only [TocTree.cutSpans]
    split
    · exact .refl _
    · rename_i s hs
      split
      · exact .refl _
      · rename_i e he
        refine .step ?_ (ih _)
        have hst : startsWith (t.drop s) (c0 :: op) = true := (find_some_iff_drop.1 hs).2.1
        obtain ⟨u, hu⟩ := startsWith_iff_prefix.1 hst
        have e1 : t.drop (s + e + cl.length) = (op ++ u).drop (e + cl.length - 1) := by
          have : s + e + cl.length = s + (e + cl.length) := by omega
          rw [this, ← List.drop_drop, hu]
          obtain ⟨m, hm⟩ : ∃ m, e + cl.length = m + 1 := ⟨e + cl.length - 1, by omega⟩
          rw [hm]; simp
        have e2 : t = t.take s ++ c0 :: (op ++ u) := by
          conv => lhs; rw [← List.take_append_drop s t, hu]
          simp
        rw [e1]
        conv => lhs; rw [e2]
        exact Rw.copyL _ (rw_chunk (E := []) _ hc (by simp) (Rw.refl _ _))

theorem gl_not_space {c : Char} (h : isSpace c = true) : TokG.gl c = false := by
  cases hg : TokG.gl c with
  | false => rfl
  | true => rw [TokG.gl_not_space hg] at h; cases h

theorem space_not_decimal {c : Char} (h : isSpace c = true) : isDecimal c = false := by
  have hc : c = Char.ofNat c.toNat := (Char.ofNat_toNat c).symm
  unfold isSpace at h
  split at h
  · rename_i hlt
    unfold isDecimal
    rw [if_pos hlt]
    cases hd : isAsciiDigit c with
    | false => rfl
    | true =>
      exfalso
      have h1 : '0' ≤ c ∧ c ≤ '9' := by simpa [isAsciiDigit] using hd
      have h2 : 48 ≤ c.toNat ∧ c.toNat ≤ 57 := ⟨h1.1, h1.2⟩
      generalize c.toNat = n at h2 hc
      subst hc
      have : n = 48 ∨ n = 49 ∨ n = 50 ∨ n = 51 ∨ n = 52 ∨ n = 53 ∨ n = 54 ∨ n = 55 ∨ n = 56 ∨ n = 57 := by omega
      rcases this with rfl | rfl | rfl | rfl | rfl | rfl | rfl | rfl | rfl | rfl <;> exact absurd h (by decide)
  · have hm : c.toNat ∈ Generated.Chars.spaceNonAscii := by simpa using h
    unfold Generated.Chars.spaceNonAscii Generated.Chars.spaceNonAscii_0 at hm
    simp only [List.mem_cons, List.not_mem_nil, or_false] at hm
    generalize c.toNat = n at hm hc
    subst hc
    rcases hm with rfl | rfl | rfl | rfl | rfl | rfl | rfl | rfl | rfl | rfl | rfl | rfl | rfl | rfl | rfl | rfl |
      rfl | rfl | rfl <;> decide

theorem space_ne_quot {c : Char} (h : isSpace c = true) : c ≠ '"' := by
  rintro rfl; exact absurd h (by decide)

theorem space_ne_etx {c : Char} (h : isSpace c = true) : c ≠ TreeProc.ETX := by
  rintro rfl; exact absurd h (by decide)

theorem safe0_space {c : Char} (h : isSpace c = true) : safe0 c = true :=
  safe0_iff.2 ⟨gl_not_space h, space_not_decimal h, space_ne_quot h, space_ne_etx h⟩

theorem safe_space {c : Char} (h : isSpace c = true) : safe c = true := safe_of_safe0 (safe0_space h)

theorem space_ne_stx {c : Char} (h : isSpace c = true) : c ≠ TreeProc.STX := by
  rintro rfl; exact absurd h (by decide)

/-- `' '.join(text.split())`: a run of whitespace is deleted or replaced by one blank -/
theorem collapseWs_AB {sf : Char → Bool} (hsp : ∀ c, isSpace c = true → sf c = true) : ∀ (r : Str),
    (∀ st, Rw sf r (TocTree.collapseWs true st r)) ∧
    (∀ st, ∃ E S Y o, r = S ++ Y ∧ (∀ x ∈ S, sf x = true) ∧ TreeProc.STX ∉ E ∧ (st = false → E = []) ∧
      Rw sf Y o ∧ TocTree.collapseWs false st r = E ++ o) := by
  intro r
  induction r with
  | nil =>
    exact ⟨fun _ => .nil, fun _ => ⟨[], [], [], [], rfl, by simp, by simp, fun _ => rfl, .nil, rfl⟩⟩
  | cons c r ih =>
    obtain ⟨ihA, ihB⟩ := ih
    by_cases hc : isSpace c = true
    · have hB : ∀ st, ∃ E S Y o, c :: r = S ++ Y ∧ (∀ x ∈ S, sf x = true) ∧ TreeProc.STX ∉ E ∧
          (st = false → E = []) ∧ Rw sf Y o ∧ TocTree.collapseWs false st r = E ++ o := by
        intro st
        obtain ⟨E, S, Y, o, e, hS, hE, hE0, hrw, hout⟩ := ihB st
        refine ⟨E, c :: S, Y, o, by rw [e]; rfl, ?_, hE, hE0, hrw, hout⟩
        intro x hx
        rcases List.mem_cons.1 hx with rfl | hx
        · exact hsp _ hc
        · exact hS x hx
      refine ⟨fun st => ?_, fun st => ?_⟩
      · obtain ⟨E, S, Y, o, e, _, hE, _, hrw, hout⟩ := ihB st
        simp only [TocTree.collapseWs, if_pos hc]
        rw [hout, e]
        exact .repl S (hsp _ hc) hE hrw
      · simp only [TocTree.collapseWs, if_pos hc]
        exact hB st
    · refine ⟨fun st => ?_, fun st => ?_⟩
      · simp only [TocTree.collapseWs, if_neg hc, if_true]
        exact .copy c (ihA true)
      · cases st with
        | true =>
          refine ⟨[' '], [], c :: r, c :: TocTree.collapseWs true true r, rfl, by simp, by decide, by simp,
            .copy c (ihA true), ?_⟩
          simp [TocTree.collapseWs, hc]
        | false =>
          refine ⟨[], [], c :: r, c :: TocTree.collapseWs true true r, rfl, by simp, by simp, fun _ => rfl,
            .copy c (ihA true), ?_⟩
          simp [TocTree.collapseWs, hc]

theorem rw_collapseWs {sf : Char → Bool} (hsp : ∀ c, isSpace c = true → sf c = true) (t : Str) :
    Rw sf t (TocTree.collapseWs false false t) := by
  obtain ⟨E, S, Y, o, e, hS, _, hE0, hrw, hout⟩ := (collapseWs_AB hsp t).2 false
  rw [hout, hE0 rfl, e]
  cases S with
  | nil => exact hrw
  | cons x S => exact .repl (E := []) S (hS x List.mem_cons_self) (by simp) hrw

/-- **`strip_tags`** -/
theorem rws_stripTags {sf : Char → Bool} (h1 : sf '<' = true) (hsp : ∀ c, isSpace c = true → sf c = true)
    (s : Str) : Rws sf s (TocTree.stripTags s) := by
  unfold TocTree.stripTags
  exact (rws_cutSpans h1 "!--".toList "-->".toList (by decide) _ _).trans
    ((rws_cutSpans h1 [] ['>'] (by decide) _ _).trans (.one (rw_collapseWs hsp _)))

theorem Z3_stripTags {s : Str} (h : Z3 s = true) : Z3 (TocTree.stripTags s) = true :=
  Z3_rws (rws_stripTags (by decide) (fun _ => safe_space) s) h

theorem Z3c_stripTags {s : Str} (h : Z3c s = true) : Z3c (TocTree.stripTags s) = true :=
  Z3c_rws (rws_stripTags (by decide) (fun _ => safe_space) s) h

theorem Z0_stripTags {s : Str} (h : Z0 s = true) : Z0 (TocTree.stripTags s) = true :=
  Z0_rws (rws_stripTags (by decide) (fun _ => safe0_space) s) h

/-! ### (i) the serializer's escaping -/

theorem rw_ser_ampSub {sf : Char → Bool} (h1 : sf '&' = true) : ∀ s : Str, Rw sf s (Ser.ampSub s) := by
  intro s
  induction s with
  | nil => exact .nil
  | cons c r ih =>
    simp only [Ser.ampSub]
    split
    · rename_i hc
      subst hc
      split
      · exact .copy _ ih
      · exact .repl (c0 := '&') [] h1 (by decide) ih
    · exact .copy c ih

theorem rws_escCdata {sf : Char → Bool} (h1 : sf '&' = true) (h2 : sf '<' = true) (h3 : sf '>' = true) (s : Str) :
    Rws sf s (Ser.escCdata s) := by
  unfold Ser.escCdata
  exact .step (rw_ser_ampSub h1 s) (.step (rw_replace (p := []) h2 (by decide) _)
    (.one (rw_replace (p := []) h3 (by decide) _)))

theorem rws_escAttrHtml {sf : Char → Bool} (h1 : sf '&' = true) (h2 : sf '<' = true) (h3 : sf '>' = true)
    (h4 : sf '"' = true) (s : Str) : Rws sf s (Ser.escAttrHtml s) := by
  unfold Ser.escAttrHtml
  exact (rws_escCdata h1 h2 h3 s).trans (.one (rw_replace (p := []) h4 (by decide) _))

theorem rws_escAttrib {sf : Char → Bool} (h1 : sf '&' = true) (h2 : sf '<' = true) (h3 : sf '>' = true)
    (h4 : sf '"' = true) (h5 : sf '\n' = true) (s : Str) : Rws sf s (Ser.escAttrib s) := by
  unfold Ser.escAttrib
  exact (rws_escAttrHtml h1 h2 h3 h4 s).trans (.one (rw_replace (p := []) h5 (by decide) _))

theorem Z3_escCdata {s : Str} (h : Z3 s = true) : Z3 (Ser.escCdata s) = true :=
  Z3_rws (rws_escCdata (by decide) (by decide) (by decide) s) h
theorem Z3c_escCdata {s : Str} (h : Z3c s = true) : Z3c (Ser.escCdata s) = true :=
  Z3c_rws (rws_escCdata (by decide) (by decide) (by decide) s) h
theorem Z0_escCdata {s : Str} (h : Z0 s = true) : Z0 (Ser.escCdata s) = true :=
  Z0_rws (rws_escCdata (by decide) (by decide) (by decide) s) h
theorem Z0c_escCdata {s : Str} (h : Z0c s = true) : Z0c (Ser.escCdata s) = true :=
  Z0c_rws (rws_escCdata (by decide) (by decide) (by decide) s) h

theorem escCdata_noSTX {s : Str} (h : TreeProc.STX ∉ s) : TreeProc.STX ∉ Ser.escCdata s :=
  (rws_escCdata (sf := fun _ => true) rfl rfl rfl s).noSTX h
theorem escAttrHtml_noSTX {s : Str} (h : TreeProc.STX ∉ s) : TreeProc.STX ∉ Ser.escAttrHtml s :=
  (rws_escAttrHtml (sf := fun _ => true) rfl rfl rfl rfl s).noSTX h
theorem escAttrib_noSTX {s : Str} (h : TreeProc.STX ∉ s) : TreeProc.STX ∉ Ser.escAttrib s :=
  (rws_escAttrib (sf := fun _ => true) rfl rfl rfl rfl rfl s).noSTX h

theorem ZA_escAttrHtml {v : Str} (h : ZA v = true) : ZA (Ser.escAttrHtml v) = true :=
  ZA_rws (rws_escAttrHtml (by decide) (by decide) (by decide) (by decide) v) h

theorem ZA_escAttrib {v : Str} (h : ZA v = true) : ZA (Ser.escAttrib v) = true :=
  ZA_rws (rws_escAttrib (by decide) (by decide) (by decide) (by decide) (by decide) v) h

/-- **an attribute value, escaped and closed by its quote, is complete** -/
theorem Z0c_escAttrHtml_quot {v : Str} (h : ZA v = true) : Z0c (Ser.escAttrHtml v ++ ['"']) = true :=
  Z0c_of_ZA_quot (ZA_escAttrHtml h) rfl

theorem Z0c_escAttrib_quot {v : Str} (h : ZA v = true) : Z0c (Ser.escAttrib v ++ ['"']) = true :=
  Z0c_of_ZA_quot (ZA_escAttrib h) rfl

theorem Z0c_escAttrHtml_quot_append {v y : Str} (h : ZA v = true) (hy : Z0c y = true) :
    Z0c (Ser.escAttrHtml v ++ '"' :: y) = true :=
  Z0c_of_ZA_quot (ZA_escAttrHtml h) hy

end MdVerif.C02Z
