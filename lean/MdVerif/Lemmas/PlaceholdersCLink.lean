/-
C10c, the link patterns.  First part: copy of `Lemmas/PlaceholdersBLink.lean` (reference links) with the invariant
`Adj3` (no `](`, no `![`) replaced by `AdjC true` (simple regions behind `](` and `![`, `Spec/NoCtlC.lean`).  Second part
(new): `LinkInlineProcessor.getLink` on a simple region — the loop of `getLink` never meets a parenthesis or a quote it
does not expect, so it ends at the `)` that closes the region, with `href`/`title` cut out of the region —, the inline
link and the three image patterns.  Core Lean only.
-/
import MdVerif.Lemmas.PlaceholdersBLink
import MdVerif.Lemmas.PlaceholdersCAdj
import MdVerif.Lemmas.PlaceholdersCEm

namespace MdVerif.NoCtl
open Py Inline

/-! ### `getText`, `evalId` -/

/-! ### the element of a reference link -/

/-- an `a` element with harmless attributes and a good text -/
theorem aNode_snodeC {k : Nat} {e : Node} {text : Str} (a1 : attrsNoCtl e.attrs) (a2 : e.tag = .name "a".toList)
    (a3 : e.textAtomic = false) (a4 : e.children = []) (a5 : e.tail = none) (a6 : e.tailAtomic = false)
    (hx : GrpOKC k text) :
    (({ e with text := some text } : Node).Forall (SNodeC k)) ∧ ({ e with text := some text } : Node).tail = none := by
  refine ⟨?_, a5⟩
  rw [Node.forall_iff]
  refine ⟨⟨by show tagNoCtl e.tag; rw [a2]; show NoCtl "a".toList; decide, a1, a6,
    by show StrC k e.tail; rw [a5]; exact strC_none k, ?_⟩,
    by show ∀ c ∈ e.children, _; rw [a4]; intro c hc; cases hc⟩
  have hc : ¬ isCode ({ e with text := some text } : Node) = true := by
    show ¬ (e.tag == Tag.name "code".toList) = true
    rw [a2]; decide
  rw [if_neg hc]
  exact ⟨a3, hx⟩

/-! ### `linkHandle` -/

/-! ### the reference patterns -/

theorem linkHandle_ref_okC {cfg : Cfg} (hrefs : RefsOK cfg) (stash : List StashItem) {pi k : Nat}
    (hpi : pi = 2 ∨ pi = 6) {data : Str} (hd : DataC pi k data) {i : Nat} {t : Str}
    (hbr : data.drop i = '[' :: t) {f : Found} (h : linkHandle cfg stash pi data i (i + 1) = some f) :
    FoundOKC k pi data f := by
  have hpi1 : 1 ≤ pi := by rcases hpi with rfl | rfl <;> omega
  rw [linkHandle_ref_eq cfg stash hpi] at h
  rcases hgt : getText data (i + 1) with ⟨text, index, handled⟩
  simp only [hgt] at h
  cases handled with
  | false => simp at h
  | true =>
    simp only [Bool.not_true, Bool.false_eq_true, if_false] at h
    obtain ⟨restT, ht1, ht2⟩ := getText_spec hgt
    have hdrop1 : data.drop (i + 1) = t := by
      have := congrArg (List.drop 1) hbr
      simpa [List.drop_drop, Nat.add_comm] using this
    have ht : t = text ++ ']' :: restT := by rw [← hdrop1]; exact ht1
    have hrestT : data.drop index = restT := by
      rw [ht2, show i + 1 + text.length + 1 = (i + 1) + (text.length + 1) by omega, ← List.drop_drop, ht1]
      simp
    -- the text between the brackets
    have hdata : data = (data.take i ++ ['[']) ++ text ++ (']' :: restT) := by
      have := List.take_append_drop i data
      rw [hbr, ht] at this
      exact this.symm.trans (by simp)
    have hwtext : WF true k text := by
      have hw := hd.wf
      rw [hdata, List.append_assoc] at hw
      have b1 : Bnd (data.take i ++ ['[']) (text ++ ']' :: restT) := bnd_snoc_left _ _ (by decide) (by decide)
      have w2 := (hw.split b1).2
      exact (w2.split (bnd_cons_right _ _ (by decide) (by decide))).1
    have hgtext : GrpOKC k text := by
      have hg : GrpOKC k data := ⟨hd.wf, hd.dom, hd.adj, (btInv_succ hpi1).1 hd.bt⟩
      rw [hdata] at hg
      exact hg.cut hwtext (by simp)
    -- the stretch that is replaced, given where the match ends
    have hsplice : ∀ (M Y : Str) (e2 : Nat), data.drop i = M ++ Y → M ≠ [] → M.head? = some '[' →
        M.getLast? = some ']' → e2 = i + M.length → SpliceC k pi data i (e2 : Int) := by
      intro M Y e2 hM hne hh hl he
      have := spliceC_of_span (pi := pi) (k := k) hpi1 hd (si := i) (pre := []) (M := M) (post := Y) (by simpa using hM) hne
        (by intro c hc; rw [hh] at hc; cases hc; decide) (by intro c hc; rw [hl] at hc; cases hc; decide)
        (by cases M with
            | nil => exact absurd rfl hne
            | cons m0 M' => simp only [List.head?_cons, Option.some.injEq] at hh; subst hh; exact breaks_of_head (by decide) _)
      simp only [List.length_nil, Nat.add_zero] at this
      rw [he]; exact this
    have hfinal : ∀ (id : Str) (e2 : Nat), SpliceC k pi data i (e2 : Int) →
        (match cfg.refs.find? (fun x => x.1 = wsClean id) with
          | none => some (⟨.none, i, e2⟩ : Found)
          | some (_, href, title) => some ⟨.el { refEl href title with text := some text }, i, e2⟩) = some f →
        FoundOKC k pi data f := by
      intro id e2 hsp hm
      cases hfind : cfg.refs.find? (fun x => x.1 = wsClean id) with
      | none =>
        simp only [hfind, Option.some.injEq] at hm
        subst hm
        exact hpi1
      | some x =>
        obtain ⟨xid, href, title⟩ := x
        simp only [hfind, Option.some.injEq] at hm
        subst hm
        obtain ⟨r1, r2⟩ := refEl_ok hrefs hfind
        obtain ⟨a1, a2, a3, a4, a5, a6⟩ := refEl_frame (href := href) (title := title) r1 r2
        obtain ⟨n1, n2⟩ := aNode_snodeC (e := refEl href title) a1 a2 a3 a4 a5 a6 hgtext
        exact ⟨hsp, n1, n2, fun h0 => by omega⟩
    rcases hpi with rfl | rfl
    · -- `[text][label]`
      simp only [show ¬ ((2 : Nat) = 6) by decide, if_false] at h
      cases hev : evalId data index text with
      | none => simp [hev] at h
      | some r =>
        obtain ⟨id, e2⟩ := r
        simp only [hev] at h
        obtain ⟨W, I, rest, he1, he2, -⟩ := evalId_spec hev
        rw [hrestT] at he1
        refine hfinal id e2 (hsplice (('[' :: text ++ ']' :: W ++ '[' :: I) ++ [']']) rest e2 ?_ (by simp) (by simp)
          List.getLast?_concat ?_) h
        · rw [hbr, ht, he1]; simp
        · rw [he2, ht2]; simp; omega
    · -- `[label]`
      simp only [if_true] at h
      refine hfinal (lower text) index (hsplice (('[' :: text) ++ [']']) restT index ?_ (by simp) (by simp)
        List.getLast?_concat ?_) h
      · rw [hbr, ht]; simp
      · rw [ht2]; simp; omega

/-! ### `getLink` on a simple region -/

theorem destChar_props {c : Char} (h : destChar c = true) :
    c ≠ '(' ∧ c ≠ ')' ∧ c ≠ '"' ∧ c ≠ '\'' ∧ c ≠ STX ∧ c ≠ ETX ∧ c ≠ '\n' ∧ c ≠ '[' ∧ c ≠ ']' := by
  simp only [destChar, Bool.and_eq_true, bne_iff_ne, ne_eq] at h
  obtain ⟨⟨⟨⟨⟨⟨⟨⟨⟨⟨⟨⟨h1, h2⟩, h3⟩, h4⟩, h5⟩, h6⟩, h7⟩, h8⟩, h9⟩, h10⟩, h11⟩, h12⟩, h13⟩ := h
  exact ⟨h7, h8, h9, h10, h12, h13, h11, h5, h6⟩

theorem linkStep_dest (s : LinkSt) {c : Char} (h : destChar c = true) : linkStep s c = s := by
  obtain ⟨h1, h2, h3, h4, -⟩ := destChar_props h
  simp [linkStep, h1, h2, h3, h4]

/-- the state of `getLink`'s loop inside the destination -/
def st0 (i : Nat) (l : Option Char) : LinkSt := ⟨1, 1, i, none, none, none, none, false, none, none, none, l⟩
/-- … inside a title opened by `q` at `sq - 1` -/
def st1 (i : Nat) (q : Char) (sq : Nat) (l : Option Char) : LinkSt :=
  ⟨1, 1, i, none, some q, some sq, none, true, none, none, none, l⟩
/-- … after the closing quote at `eq - 1` -/
def st2 (i : Nat) (q : Char) (sq eq : Nat) : LinkSt :=
  ⟨1, 1, i, none, some q, some sq, some eq, true, none, none, none, some q⟩

theorem linkLoop_cons (data : Str) (p : Nat) (c : Char) (r : Str) (s : LinkSt) :
    linkLoop data p (c :: r) s =
      (let s1 := linkStep s c
       let s2 := { s1 with index := s1.index + 1 }
       if s2.bc = 0 then
         let res : Str × Option Str :=
           match s2.exitQ, s2.startQ, qEq s2.quote s2.last with
           | some eq, some sq, true => (slice data p (sq - 1), some (slice data sq (eq - 1)))
           | _, _, _ =>
             match s2.exitA, s2.startA, qEq s2.altQ s2.last with
             | some ea, some sa, true => (slice data p (sa - 1), some (slice data sa (ea - 1)))
             | _, _, _ => (slice data p (s2.index - 1), none)
         (s2, some res)
       else linkLoop data p r (if c != ' ' then { s2 with last := some c } else s2)) := rfl

/-- the outcome of the loop: closed at `idx` with `href`, `title`, or run to the end without closing -/
def LoopOut (out : LinkSt × Option (Str × Option Str)) (idx : Nat) (href : Str) (title : Option Str) : Prop :=
  out.1.bc = 0 ∧ out.1.index = idx ∧ out.2 = some (href, title)

def LoopOpen (out : LinkSt × Option (Str × Option Str)) : Prop := out.1.bc = 1 ∧ out.1.bt = 1 ∧ out.2 = none

theorem linkLoop_phase2 (data : Str) (p : Nat) (q : Char) (sq eq : Nat) {lax : Bool} :
    ∀ (R : Str) (i : Nat), destClose2 lax R = true →
      (∃ sp rest', R = sp ++ ')' :: rest' ∧ (∀ c ∈ sp, c = ' ') ∧
        LoopOut (linkLoop data p R (st2 i q sq eq)) (i + sp.length + 1) (slice data p (sq - 1))
          (some (slice data sq (eq - 1)))) ∨
      LoopOpen (linkLoop data p R (st2 i q sq eq)) := by
  intro R
  induction R with
  | nil => intro i _; exact .inr ⟨rfl, rfl, rfl⟩
  | cons c r ih =>
    intro i h
    rw [destClose2_cons] at h
    split at h
    · rename_i hc
      subst hc
      refine .inl ⟨[], r, rfl, by simp, ?_⟩
      rw [linkLoop_cons]
      simp [linkStep, st2, qEq, LoopOut]
    · split at h
      · rename_i hc hs
        subst hs
        have hstep : linkLoop data p (' ' :: r) (st2 i q sq eq) = linkLoop data p r (st2 (i + 1) q sq eq) := by
          rw [linkLoop_cons, linkStep_dest _ (by decide)]
          simp [st2]
        rw [hstep]
        rcases ih (i + 1) h with ⟨sp, rest', h1, h2, h3⟩ | h3
        · refine .inl ⟨' ' :: sp, rest', by rw [h1]; rfl, ?_, ?_⟩
          · intro c hc; rcases List.mem_cons.1 hc with rfl | hc
            · rfl
            · exact h2 c hc
          · have : i + (' ' :: sp).length + 1 = i + 1 + sp.length + 1 := by simp; omega
            rw [this]; exact h3
        · exact .inr h3
      · cases h

theorem linkLoop_phase1 (data : Str) (p : Nat) {q : Char} (hq : q = '"' ∨ q = '\'') (sq : Nat) {lax : Bool} :
    ∀ (R : Str) (i : Nat) (l : Option Char), destClose1 lax q R = true →
      (∃ t sp rest', R = t ++ q :: sp ++ ')' :: rest' ∧ (∀ c ∈ t, destChar c = true) ∧ (∀ c ∈ sp, c = ' ') ∧
        LoopOut (linkLoop data p R (st1 i q sq l)) (i + t.length + 1 + sp.length + 1) (slice data p (sq - 1))
          (some (slice data sq (i + t.length)))) ∨
      LoopOpen (linkLoop data p R (st1 i q sq l)) := by
  intro R
  induction R with
  | nil => intro i l _; exact .inr ⟨rfl, rfl, rfl⟩
  | cons c r ih =>
    intro i l h
    rw [destClose1_cons] at h
    split at h
    · rename_i hc
      subst hc
      have hstep : linkLoop data p (c :: r) (st1 i c sq l) = linkLoop data p r (st2 (i + 1) c sq (i + 1)) := by
        rw [linkLoop_cons]
        rcases hq with rfl | rfl <;> simp [linkStep, st1, st2]
      rw [hstep]
      rcases linkLoop_phase2 data p c sq (i + 1) r (i + 1) h with ⟨sp, rest', h1, h2, h3⟩ | h3
      · refine .inl ⟨[], sp, rest', by rw [h1]; simp, by simp, h2, ?_⟩
        simp only [List.length_nil, Nat.add_zero]
        have e : i + 1 - 1 = i := by omega
        rw [e] at h3
        have e2 : i + 1 + sp.length + 1 = i + 1 + sp.length + 1 := rfl
        exact h3
      · exact .inr h3
    · split at h
      · rename_i hc hd
        have hstep : ∃ l', linkLoop data p (c :: r) (st1 i q sq l) = linkLoop data p r (st1 (i + 1) q sq l') := by
          rw [linkLoop_cons, linkStep_dest _ hd]
          by_cases hs : c = ' '
          · exact ⟨l, by simp [st1, hs]⟩
          · exact ⟨some c, by simp [st1, hs]⟩
        obtain ⟨l', hstep⟩ := hstep
        rw [hstep]
        rcases ih (i + 1) l' h with ⟨t, sp, rest', h1, h2, h3, h4⟩ | h4
        · refine .inl ⟨c :: t, sp, rest', by rw [h1]; simp, ?_, h3, ?_⟩
          · intro x hx; rcases List.mem_cons.1 hx with rfl | hx
            · exact hd
            · exact h2 x hx
          · have e1 : i + (c :: t).length + 1 + sp.length + 1 = i + 1 + t.length + 1 + sp.length + 1 := by
              simp only [List.length_cons]; omega
            have e2 : i + (c :: t).length = i + 1 + t.length := by simp only [List.length_cons]; omega
            rw [e1, e2]; exact h4
        · exact .inr h4
      · cases h

theorem linkLoop_phase0 (data : Str) (p : Nat) {lax : Bool} :
    ∀ (R : Str) (i : Nat) (l : Option Char), destClose lax R = true →
      (∃ a rest', R = a ++ ')' :: rest' ∧ (∀ c ∈ a, destChar c = true) ∧
        LoopOut (linkLoop data p R (st0 i l)) (i + a.length + 1) (slice data p (i + a.length)) none) ∨
      (∃ a q t sp rest', (q = '"' ∨ q = '\'') ∧ R = a ++ q :: t ++ q :: sp ++ ')' :: rest' ∧
        (∀ c ∈ a, destChar c = true) ∧ (∀ c ∈ t, destChar c = true) ∧ (∀ c ∈ sp, c = ' ') ∧
        LoopOut (linkLoop data p R (st0 i l)) (i + a.length + 1 + t.length + 1 + sp.length + 1)
          (slice data p (i + a.length)) (some (slice data (i + a.length + 1) (i + a.length + 1 + t.length)))) ∨
      LoopOpen (linkLoop data p R (st0 i l)) := by
  intro R
  induction R with
  | nil => intro i l _; exact .inr (.inr ⟨rfl, rfl, rfl⟩)
  | cons c r ih =>
    intro i l h
    rw [destClose_cons] at h
    split at h
    · rename_i hc
      subst hc
      refine .inl ⟨[], r, rfl, by simp, ?_⟩
      rw [linkLoop_cons]
      simp [linkStep, st0, qEq, LoopOut]
    · split at h
      · rename_i hc hq
        simp only [Bool.or_eq_true, decide_eq_true_eq] at hq
        have hstep : linkLoop data p (c :: r) (st0 i l) = linkLoop data p r (st1 (i + 1) c (i + 1) (some c)) := by
          rw [linkLoop_cons]
          rcases hq with rfl | rfl <;> simp [linkStep, st0, st1]
        rw [hstep]
        rcases linkLoop_phase1 data p hq (i + 1) r (i + 1) (some c) h with ⟨t, sp, rest', h1, h2, h3, h4⟩ | h4
        · refine .inr (.inl ⟨[], c, t, sp, rest', hq, by rw [h1]; simp, by simp, h2, h3, ?_⟩)
          simp only [List.length_nil, Nat.add_zero]
          have e : i + 1 - 1 = i := by omega
          rw [e] at h4
          exact h4
        · exact .inr (.inr h4)
      · split at h
        · rename_i hc hq hd
          have hstep : ∃ l', linkLoop data p (c :: r) (st0 i l) = linkLoop data p r (st0 (i + 1) l') := by
            rw [linkLoop_cons, linkStep_dest _ hd]
            by_cases hs : c = ' '
            · exact ⟨l, by simp [st0, hs]⟩
            · exact ⟨some c, by simp [st0, hs]⟩
          obtain ⟨l', hstep⟩ := hstep
          rw [hstep]
          rcases ih (i + 1) l' h with ⟨a, rest', h1, h2, h3⟩ | ⟨a, q, t, sp, rest', g0, g1, g2, g3, g4, g5⟩ | h3
          · refine .inl ⟨c :: a, rest', by rw [h1]; simp, ?_, ?_⟩
            · intro x hx; rcases List.mem_cons.1 hx with rfl | hx
              · exact hd
              · exact h2 x hx
            · have e1 : i + (c :: a).length + 1 = i + 1 + a.length + 1 := by simp only [List.length_cons]; omega
              have e2 : i + (c :: a).length = i + 1 + a.length := by simp only [List.length_cons]; omega
              rw [e1, e2]; exact h3
          · refine .inr (.inl ⟨c :: a, q, t, sp, rest', g0, by rw [g1]; simp, ?_, g3, g4, ?_⟩)
            · intro x hx; rcases List.mem_cons.1 hx with rfl | hx
              · exact hd
              · exact g2 x hx
            · have e2 : i + (c :: a).length = i + 1 + a.length := by simp only [List.length_cons]; omega
              rw [e2]; exact g5
          · exact .inr (.inr h3)
        · cases h

theorem phSub_idC (lookup : Str → Option Str) (s : Str) (h : STX ∉ s) : phSub lookup 0 s = s := by
  induction s with
  | nil => rfl
  | cons c r ih =>
    have hc : c ≠ STX := fun e => h (e ▸ List.mem_cons_self)
    simp [phSub, hc, ih (fun hh => h (List.mem_cons_of_mem _ hh))]

theorem unescape_noctl (stash : List StashItem) {s : Str} (h : NoCtl s) : unescape stash s = s := phSub_idC _ s h.1

theorem slice_of_drop {data x a z : Str} {n : Nat} (h : data.drop n = x ++ a ++ z) :
    slice data (n + x.length) (n + x.length + a.length) = a := by
  unfold slice
  rw [List.drop_take, show n + x.length + a.length - (n + x.length) = a.length by omega, ← List.drop_drop, h,
    List.append_assoc, List.drop_left, List.take_left]

theorem destClose_dropSpace {lax : Bool} : ∀ (R : Str), destClose lax R = true →
    destClose lax (R.dropWhile isSpace) = true ∧ ∀ c ∈ R.takeWhile isSpace, destChar c = true := by
  intro R
  induction R with
  | nil => intro h; exact ⟨h, by simp⟩
  | cons c r ih =>
    intro h
    by_cases hs : isSpace c = true
    · rw [List.dropWhile_cons_of_pos hs, List.takeWhile_cons_of_pos hs]
      rw [destClose_cons] at h
      have h1 : c ≠ ')' := by rintro rfl; exact absurd hs (by decide)
      have h2 : ¬ ((c = '"' || c = '\'') = true) := by
        simp only [Bool.or_eq_true, decide_eq_true_eq, not_or]
        exact ⟨by rintro rfl; exact absurd hs (by decide), by rintro rfl; exact absurd hs (by decide)⟩
      rw [if_neg h1, if_neg h2] at h
      split at h
      · rename_i hd
        obtain ⟨i1, i2⟩ := ih h
        refine ⟨i1, ?_⟩
        intro x hx
        rcases List.mem_cons.1 hx with rfl | hx
        · exact hd
        · exact i2 x hx
      · cases h
    · rw [List.dropWhile_cons_of_neg hs, List.takeWhile_cons_of_neg hs]
      exact ⟨h, by simp⟩

theorem noCtl_of_destChars {a : Str} (h : ∀ c ∈ a, destChar c = true) : NoCtl a :=
  noCtl_iff.2 fun c hc => destChar_noctl (h c hc)

theorem linkAngle_none {data : Str} {p : Nat} (h : (data.drop p).head? ≠ some '<') : linkAngle data p = none := by
  unfold linkAngle
  split
  · rename_i r hr; rw [hr] at h; simp at h
  · rfl


/-- the end of `getLinkRaw`, given the outcome of the loop -/
def rawEnd (data : Str) (p : Nat) (sr : LinkSt × Option (Str × Option Str)) : Str × Option Str × Int × Bool :=
  let ht := sr.2.getD ([], none)
  if sr.1.bc != 0 && sr.1.bt = 0 then
    match sr.1.lastBracket with
    | some lb => (slice data p (lb - 1), ht.2, (lb : Int), true)
    | none => (pySlice data (p : Int) (-2), ht.2, -1, true)
  else (ht.1, ht.2, (sr.1.index : Int), decide (sr.1.bc = 0))

theorem rawEnd_closed {data : Str} {p : Nat} {sr : LinkSt × Option (Str × Option Str)} {idx : Nat} {h : Str}
    {t : Option Str} (o : LoopOut sr idx h t) : rawEnd data p sr = (h, t, (idx : Int), true) := by
  obtain ⟨s, res⟩ := sr
  obtain ⟨o1, o2, o3⟩ := o
  simp only at o1 o2 o3
  subst o3
  simp [rawEnd, o1, o2]

theorem rawEnd_open {data : Str} {p : Nat} {sr : LinkSt × Option (Str × Option Str)} (o : LoopOpen sr) :
    (rawEnd data p sr).2.2.2 = false := by
  obtain ⟨s, res⟩ := sr
  obtain ⟨o1, o2, o3⟩ := o
  simp only at o1 o2 o3
  simp [rawEnd, o1, o2]

/-- **`getLink` on a simple region.**  When `(` at `index` is followed by a string `R` that `destClose` accepts, the
    raw link is either handled — it ends behind the closing `)`, and `href`/`title` are stretches of the region (no
    STX/ETX) — or not handled at all. -/
theorem getLinkRaw_region {data : Str} {index : Nat} {R : Str} (hd : data.drop index = '(' :: R) (hlt : '<' ∉ R)
    {lax : Bool} (hR : destClose lax R = true) :
    (∃ body rest' href title, R = body ++ ')' :: rest' ∧ NoCtl body ∧ NoCtl href ∧ NoCtl (title.getD []) ∧
      getLinkRaw data index = (href, title, ((index + 1 + body.length + 1 : Nat) : Int), true)) ∨
    (getLinkRaw data index).2.2.2 = false := by
  have hat : data[index]? = some '(' := by
    have := congrArg List.head? hd
    rwa [List.head?_drop] at this
  have hd1 : data.drop (index + 1) = R := by
    have := congrArg (List.drop 1) hd
    simpa [List.drop_drop, Nat.add_comm] using this
  obtain ⟨hR', hW⟩ := destClose_dropSpace R hR
  have hsplit : R = R.takeWhile isSpace ++ R.dropWhile isSpace := (List.takeWhile_append_dropWhile).symm
  have hw : spanLen isSpace R = (R.takeWhile isSpace).length := spanLen_eq_length_takeWhile _ _
  have hdp : data.drop (index + 1 + spanLen isSpace R) = R.dropWhile isSpace := by
    rw [← List.drop_drop, hd1, drop_spanLen]
  have hang : linkAngle data (index + 1 + spanLen isSpace R) = none := by
    apply linkAngle_none
    rw [hdp]
    intro hh
    exact hlt (List.dropWhile_subset _ (List.mem_of_mem_head? hh))
  have hraw : getLinkRaw data index = rawEnd data (index + 1 + spanLen isSpace R)
      (linkLoop data (index + 1 + spanLen isSpace R) (R.dropWhile isSpace) (st0 (index + 1 + spanLen isSpace R) none)) := by
    unfold getLinkRaw
    simp only [hat, bne_self_eq_false, Bool.false_eq_true, if_false, hd1, hang, hdp]
    rfl
  rw [hraw]
  have hWn : NoCtl (R.takeWhile isSpace) := noCtl_of_destChars hW
  rcases linkLoop_phase0 data (index + 1 + spanLen isSpace R) (R.dropWhile isSpace) (index + 1 + spanLen isSpace R) none hR'
    with ⟨a, rest', h1, h2, o1, o2, o3⟩ | ⟨a, q, t, sp, rest', g0, h1, h2, h3, h4, o1, o2, o3⟩ | ⟨o1, o2, o3⟩
  · left
    have hsl : slice data (index + 1 + spanLen isSpace R) (index + 1 + spanLen isSpace R + a.length) = a := by
      have := slice_of_drop (data := data) (n := index + 1 + spanLen isSpace R) (x := []) (a := a) (z := ')' :: rest')
        (by rw [hdp, h1]; simp)
      simpa using this
    refine ⟨R.takeWhile isSpace ++ a, rest', a, none, by rw [List.append_assoc, ← h1]; exact hsplit, ?_,
      noCtl_of_destChars h2, noCtl_nil, ?_⟩
    · exact noCtl_append.2 ⟨hWn, noCtl_of_destChars h2⟩
    · rw [rawEnd_closed ⟨o1, o2, o3⟩, hsl]
      simp only [List.length_append, hw]
      congr 3
      omega
  · left
    have hdp' : data.drop (index + 1 + spanLen isSpace R) = [] ++ a ++ (q :: t ++ q :: sp ++ ')' :: rest') := by
      rw [hdp, h1]; simp
    have hsl : slice data (index + 1 + spanLen isSpace R) (index + 1 + spanLen isSpace R + a.length) = a := by
      have := slice_of_drop hdp'
      simpa using this
    have hdp2 : data.drop (index + 1 + spanLen isSpace R) = (a ++ [q]) ++ t ++ (q :: sp ++ ')' :: rest') := by
      rw [hdp, h1]; simp
    have hsl2 : slice data (index + 1 + spanLen isSpace R + a.length + 1)
        (index + 1 + spanLen isSpace R + a.length + 1 + t.length) = t := by
      have := slice_of_drop hdp2
      simpa [Nat.add_assoc] using this
    refine ⟨R.takeWhile isSpace ++ (a ++ q :: t ++ q :: sp), rest', a, some t, ?_, ?_, noCtl_of_destChars h2,
      noCtl_of_destChars h3, ?_⟩
    · have : R.dropWhile isSpace = (a ++ q :: t ++ q :: sp) ++ ')' :: rest' := h1
      rw [List.append_assoc, ← this]; exact hsplit
    · refine noCtl_append.2 ⟨hWn, ?_⟩
      have hq : NoCtl [q] := by rcases g0 with rfl | rfl <;> decide
      have hsp : NoCtl sp := noCtl_iff.2 fun c hc => by rw [h4 c hc]; decide
      have e : a ++ q :: t ++ q :: sp = a ++ ([q] ++ (t ++ ([q] ++ sp))) := by simp
      rw [e]
      exact noCtl_append.2 ⟨noCtl_of_destChars h2, noCtl_append.2 ⟨hq, noCtl_append.2 ⟨noCtl_of_destChars h3,
        noCtl_append.2 ⟨hq, hsp⟩⟩⟩⟩
    · rw [rawEnd_closed ⟨o1, o2, o3⟩, hsl, hsl2]
      simp only [List.length_append, List.length_cons, hw]
      congr 3
      omega
  · right
    exact rawEnd_open ⟨o1, o2, o3⟩


/-! ### `getText` on a simple alt text; `getLink` -/

theorem altChar_props {c : Char} (h : altChar c = true) : c ≠ '[' ∧ c ≠ ']' ∧ c ≠ STX ∧ c ≠ ETX := by
  simp only [altChar, Bool.and_eq_true, bne_iff_ne, ne_eq] at h
  obtain ⟨⟨⟨⟨⟨⟨⟨⟨h1, h2⟩, h3⟩, h4⟩, h5⟩, h6⟩, h7⟩, h8⟩, h9⟩ := h
  exact ⟨h5, h6, h8, h9⟩

theorem getTextLoop_plainC : ∀ (A rest : Str) (index : Nat) (acc : Str), '[' ∉ A → ']' ∉ A →
    getTextLoop (A ++ ']' :: rest) 1 index acc = (acc.reverse ++ A, index + A.length + 1, true) := by
  intro A
  induction A with
  | nil => intro rest index acc _ _; simp [getTextLoop]
  | cons c r ih =>
    intro rest index acc h1 h2
    have c1 : c ≠ '[' := fun e => h1 (by simp [e])
    have c2 : c ≠ ']' := fun e => h2 (by simp [e])
    rw [List.cons_append, getTextLoop_cons]
    simp only [c1, c2, if_false]
    rw [if_neg (by decide), ih rest (index + 1) (c :: acc) (fun hm => h1 (List.mem_cons_of_mem _ hm))
      (fun hm => h2 (List.mem_cons_of_mem _ hm))]
    simp; omega

theorem getTextLoop_unhandled : ∀ (S : Str) (bc index : Nat) (acc : Str), 1 ≤ bc → ']' ∉ S →
    (getTextLoop S bc index acc).2.2 = false := by
  intro S
  induction S with
  | nil => intro bc index acc _ _; rfl
  | cons c r ih =>
    intro bc index acc hbc h
    have c2 : c ≠ ']' := fun e => h (by simp [e])
    rw [getTextLoop_cons]
    simp only [c2, if_false]
    have hne : ¬ ((if c = '[' then bc + 1 else bc) = 0) := by split <;> omega
    rw [if_neg hne]
    exact ih _ _ _ (by split <;> omega) (fun hm => h (List.mem_cons_of_mem _ hm))

theorem altClose_decomp {lax : Bool} : ∀ (S : Str), altClose lax S = true →
    (∃ A rest, S = A ++ ']' :: rest ∧ ∀ c ∈ A, altChar c = true) ∨ (']' ∉ S) := by
  intro S
  induction S with
  | nil => intro _; exact .inr (by simp)
  | cons c r ih =>
    intro h
    rw [altClose_cons] at h
    split at h
    · rename_i hc; subst hc
      exact .inl ⟨[], r, rfl, by simp⟩
    · rename_i hc
      split at h
      · rename_i ha
        rcases ih h with ⟨A, rest, h1, h2⟩ | h2
        · refine .inl ⟨c :: A, rest, by rw [h1]; rfl, ?_⟩
          intro x hx; rcases List.mem_cons.1 hx with rfl | hx
          · exact ha
          · exact h2 x hx
        · refine .inr ?_
          intro hm; rcases List.mem_cons.1 hm with e | hm
          · exact hc e.symm
          · exact h2 hm
      · cases h

theorem getLink_eq (u : Str → Str) (data : Str) (i : Nat) :
    getLink u data i =
      (strip (u (getLinkRaw data i).1),
       (getLinkRaw data i).2.1.map (fun t => (dequote (u (strip t))).map (fun ch => if isSpace ch then ' ' else ch)),
       (getLinkRaw data i).2.2.1, (getLinkRaw data i).2.2.2) := rfl

theorem noCtl_dequote {t : Str} (h : NoCtl t) : NoCtl (dequote t) := by
  unfold dequote
  split
  · exact (h.drop 1).subset fun c hc => (List.dropLast_sublist _).subset hc
  · exact h

theorem noCtl_mapSpace {t : Str} (h : NoCtl t) : NoCtl (t.map (fun ch => if isSpace ch then ' ' else ch)) := by
  rw [noCtl_iff] at h ⊢
  intro c hc
  simp only [List.mem_map] at hc
  obtain ⟨x, hx, rfl⟩ := hc
  split
  · decide
  · exact h x hx

/-- the destination part of an inline link or image: `data = X ++ "]" ++ restT`, the link is handled -/
theorem getLink_regionC {data X restT : Str} (hdom : DomB data) (hreg : RegionsOK true data)
    (hX : data = X ++ ']' :: restT) (stash : List StashItem)
    (hh : (getLink (unescape stash) data (X.length + 1)).2.2.2 = true) :
    ∃ body rest' href title, restT = '(' :: body ++ ')' :: rest' ∧ NoCtl body ∧ NoCtl href ∧ NoCtl (title.getD []) ∧
      getLink (unescape stash) data (X.length + 1) =
        (href, title, ((X.length + 1 + 1 + body.length + 1 : Nat) : Int), true) := by
  rw [getLink_eq] at hh ⊢
  simp only at hh
  have hdrop : data.drop (X.length + 1) = restT := by
    rw [hX, ← List.drop_drop, List.drop_left]; rfl
  cases restT with
  | nil =>
    exfalso
    have : data[X.length + 1]? = none := by
      rw [← List.head?_drop, hdrop]; rfl
    unfold getLinkRaw at hh
    simp [this] at hh
  | cons x R =>
    by_cases hx : x = '('
    · subst hx
      have hR : destClose true R = true := regionsOK_at_link (X := X) (by rw [← hX]; exact hreg)
      have hlt : '<' ∉ R := by
        intro hm
        have := hdom '<' (by rw [hX]; simp [hm])
        simp [domCharB] at this
      rcases getLinkRaw_region hdrop hlt hR with ⟨body, rest', href, title, h1, h2, h3, h4, h5⟩ | h5
      · refine ⟨body, rest', strip (unescape stash href),
          title.map (fun t => (dequote (unescape stash (strip t))).map (fun ch => if isSpace ch then ' ' else ch)),
          by rw [h1]; rfl, h2, ?_, ?_, ?_⟩
        · rw [unescape_noctl stash h3]; exact h3.strip
        · cases title with
          | none => exact noCtl_nil
          | some t =>
            simp only [Option.map_some, Option.getD_some]
            have ht : NoCtl t := h4
            rw [unescape_noctl stash ht.strip]
            exact noCtl_mapSpace (noCtl_dequote ht.strip)
        · rw [h5]
      · rw [h5] at hh; cases hh
    · exfalso
      have : data[X.length + 1]? = some x := by
        rw [← List.head?_drop, hdrop]; rfl
      unfold getLinkRaw at hh
      simp [this, hx] at hh


/-! ### the inline link and the image patterns -/

/-- setting an attribute with harmless name and value keeps `SNodeC` -/
theorem snodeC_setAttr {k : Nat} {n : Node} (h : n.Forall (SNodeC k)) {key v : Str} (hk : NoCtl key) (hv : NoCtl v) :
    (n.setAttr key v).Forall (SNodeC k) ∧ (n.setAttr key v).tail = n.tail := by
  obtain ⟨f1, f2, f3, f4, f5, f6⟩ := setAttr_frame n key v
  refine ⟨?_, f5⟩
  rw [Node.forall_iff] at h ⊢
  refine ⟨?_, by rw [f4]; exact h.2⟩
  obtain ⟨a1, a2, a3, a4, a5⟩ := h.1
  have hcode : isCode (n.setAttr key v) = isCode n := by simp only [isCode, f1]
  refine ⟨by rw [f1]; exact a1, attrsNoCtl_setAttr a2 hk hv, by rw [f6]; exact a3, by rw [f5]; exact a4, ?_⟩
  rw [hcode, f2, f3, f4, f5]
  exact a5

theorem imgNode_snodeC (k : Nat) : (mkEl "img").Forall (SNodeC k) ∧ (mkEl "img").tail = none := by
  obtain ⟨h1, h2⟩ := enode_mkElC k (tag := "img") (by decide) (by decide)
  exact ⟨Node.Forall.mono (fun _ hn => hn.toS) _ h1, h2⟩

/-- the `img` element of the image patterns -/
theorem imgEl_okC (k : Nat) {href alt : Str} {title : Option Str} (h1 : NoCtl href) (h2 : NoCtl (title.getD []))
    (h3 : NoCtl alt) :
    (((match title with
        | some t => ((mkEl "img").setAttr "src".toList href).setAttr "title".toList t
        | none => (mkEl "img").setAttr "src".toList href).setAttr "alt".toList alt).Forall (SNodeC k)) ∧
    ((match title with
        | some t => ((mkEl "img").setAttr "src".toList href).setAttr "title".toList t
        | none => (mkEl "img").setAttr "src".toList href).setAttr "alt".toList alt).tail = none := by
  obtain ⟨b1, b2⟩ := imgNode_snodeC k
  obtain ⟨c1, c2⟩ := snodeC_setAttr b1 (key := "src".toList) (v := href) (by decide) h1
  cases title with
  | none =>
    obtain ⟨d1, d2⟩ := snodeC_setAttr c1 (key := "alt".toList) (v := alt) (by decide) h3
    exact ⟨d1, by rw [d2, c2, b2]⟩
  | some t =>
    obtain ⟨e1, e2⟩ := snodeC_setAttr c1 (key := "title".toList) (v := t) (by decide) h2
    obtain ⟨d1, d2⟩ := snodeC_setAttr e1 (key := "alt".toList) (v := alt) (by decide) h3
    exact ⟨d1, by rw [d2, e2, c2, b2]⟩

/-- the `a` element of the inline link pattern -/
theorem aEl_okC {k : Nat} {href text : Str} {title : Option Str} (h1 : NoCtl href) (h2 : NoCtl (title.getD []))
    (hx : GrpOKC k text) :
    ((match title with
        | some t => (({ mkEl "a" with text := some text } : Node).setAttr "href".toList href).setAttr "title".toList t
        | none => ({ mkEl "a" with text := some text } : Node).setAttr "href".toList href).Forall (SNodeC k)) ∧
    (match title with
        | some t => (({ mkEl "a" with text := some text } : Node).setAttr "href".toList href).setAttr "title".toList t
        | none => ({ mkEl "a" with text := some text } : Node).setAttr "href".toList href).tail = none := by
  obtain ⟨b1, b2⟩ := aNode_snodeC (k := k) (e := mkEl "a") (text := text) (by intro kv hkv; simp [mkEl] at hkv) rfl rfl rfl rfl
    rfl hx
  obtain ⟨c1, c2⟩ := snodeC_setAttr b1 (key := "href".toList) (v := href) (by decide) h1
  cases title with
  | none => exact ⟨c1, by rw [c2, b2]⟩
  | some t =>
    obtain ⟨e1, e2⟩ := snodeC_setAttr c1 (key := "title".toList) (v := t) (by decide) h2
    exact ⟨e1, by rw [e2, c2, b2]⟩

theorem linkHandle_link_eq (cfg : Cfg) (stash : List StashItem) (data : Str) (mstart mend : Nat) :
    linkHandle cfg stash 3 data mstart mend =
      if !(getText data mend).2.2 then none
      else if !(getLink (unescape stash) data (getText data mend).2.1).2.2.2 then none
      else some ⟨.el (match (getLink (unescape stash) data (getText data mend).2.1).2.1 with
          | some t => (({ mkEl "a" with text := some (getText data mend).1 } : Node).setAttr "href".toList
              (getLink (unescape stash) data (getText data mend).2.1).1).setAttr "title".toList t
          | none => ({ mkEl "a" with text := some (getText data mend).1 } : Node).setAttr "href".toList
              (getLink (unescape stash) data (getText data mend).2.1).1), mstart,
          (getLink (unescape stash) data (getText data mend).2.1).2.2.1⟩ := by
  rfl

theorem linkHandle_image_eq (cfg : Cfg) (stash : List StashItem) (data : Str) (mstart mend : Nat) :
    linkHandle cfg stash 4 data mstart mend =
      if !(getText data mend).2.2 then none
      else if !(getLink (unescape stash) data (getText data mend).2.1).2.2.2 then none
      else some ⟨.el ((match (getLink (unescape stash) data (getText data mend).2.1).2.1 with
          | some t => ((mkEl "img").setAttr "src".toList
              (getLink (unescape stash) data (getText data mend).2.1).1).setAttr "title".toList t
          | none => (mkEl "img").setAttr "src".toList
              (getLink (unescape stash) data (getText data mend).2.1).1).setAttr "alt".toList
                (unescape stash (getText data mend).1)), mstart,
          (getLink (unescape stash) data (getText data mend).2.1).2.2.1⟩ := by
  rfl

/-- the match of the inline link or inline image pattern: `pre` is `[` or `![` -/
theorem splice_linkC {pi k : Nat} (hpi : 1 ≤ pi) {data : Str} (hd : DataC pi k data) {i : Nat} {pre text body rest' : Str}
    (hpre : pre = ['['] ∨ pre = ['!', '['])
    (hdrop : data.drop i = pre ++ text ++ ']' :: '(' :: body ++ ')' :: rest') :
    SpliceC k pi data i ((i + pre.length + text.length + 1 + 1 + body.length + 1 : Nat) : Int) := by
  have hM : data.drop i = [] ++ (pre ++ text ++ ']' :: '(' :: body ++ [')']) ++ rest' := by
    rw [hdrop]; simp
  have hne : pre ++ text ++ ']' :: '(' :: body ++ [')'] ≠ [] := by
    rcases hpre with rfl | rfl <;> simp
  have := spliceC_of_span (pi := pi) (k := k) hpi hd (si := i) (pre := []) hM hne
    (by intro c hc; rcases hpre with rfl | rfl <;> (simp at hc; subst hc; decide))
    (by intro c hc
        rw [show pre ++ text ++ ']' :: '(' :: body ++ [')'] = (pre ++ text ++ ']' :: '(' :: body) ++ [')'] by simp,
          List.getLast?_concat] at hc
        simp at hc; subst hc; decide)
    (by rcases hpre with rfl | rfl
        · exact breaks_of_head (by decide) _
        · simp [breaks, breaker, altChar])
  simp only [List.length_nil, Nat.add_zero] at this
  have e : i + (pre ++ text ++ ']' :: '(' :: body ++ [')']).length =
      i + pre.length + text.length + 1 + 1 + body.length + 1 := by
    simp only [List.length_append, List.length_cons, List.length_nil]; omega
  rw [e] at this
  exact this

/-- **inline link** `[text](destination "title")` -/
theorem linkHandle_link_okC {cfg : Cfg} (stash : List StashItem) {k : Nat} {data : Str} (hd : DataC 3 k data)
    {i : Nat} {t : Str} (hbr : data.drop i = '[' :: t) {f : Found}
    (h : linkHandle cfg stash 3 data i (i + 1) = some f) : FoundOKC k 3 data f := by
  rw [linkHandle_link_eq] at h
  rcases hgt : getText data (i + 1) with ⟨text, index, handled⟩
  simp only [hgt] at h
  cases handled with
  | false => simp at h
  | true =>
    simp only [Bool.not_true, Bool.false_eq_true, if_false] at h
    obtain ⟨restT, ht1, ht2⟩ := getText_spec hgt
    have hdrop1 : data.drop (i + 1) = t := by
      have := congrArg (List.drop 1) hbr
      simpa [List.drop_drop, Nat.add_comm] using this
    have ht : t = text ++ ']' :: restT := by rw [← hdrop1]; exact ht1
    have hi : i ≤ data.length := by
      rcases Nat.le_total i data.length with h' | h'
      · exact h'
      · rw [List.drop_eq_nil_of_le h'] at hbr; cases hbr
    have hdata : data = (data.take i ++ ['['] ++ text) ++ ']' :: restT := by
      have := List.take_append_drop i data
      rw [hbr, ht] at this
      exact this.symm.trans (by simp)
    have hXlen : (data.take i ++ ['['] ++ text).length + 1 = index := by
      rw [ht2]; simp only [List.length_append, List.length_take, List.length_cons, List.length_nil]
      rw [Nat.min_eq_left hi]
    split at h
    · cases h
    · rename_i hok
      simp only [Bool.not_eq_true', Bool.not_eq_false] at hok
      obtain ⟨body, rest', href, title, hrest, hb, hh1, hh2, heq⟩ :=
        getLink_regionC hd.dom hd.adj.2 hdata stash (by rw [hXlen]; exact hok)
      rw [hXlen] at heq
      rw [heq] at h
      simp only [Option.some.injEq] at h
      subst h
      have hwtext : WF true k text := by
        have hw := hd.wf
        rw [hdata, List.append_assoc] at hw
        have b1 : Bnd (data.take i ++ ['[']) (text ++ ']' :: restT) := bnd_snoc_left _ _ (by decide) (by decide)
        have w2 := (hw.split b1).2
        exact (w2.split (bnd_cons_right _ _ (by decide) (by decide))).1
      have hgtext : GrpOKC k text := by
        have hg : GrpOKC k data := ⟨hd.wf, hd.dom, hd.adj, (btInv_succ (by decide)).1 hd.bt⟩
        rw [hdata] at hg
        exact hg.cut hwtext (by simp)
      have hsp := splice_linkC (pi := 3) (by decide) hd (i := i) (pre := ['[']) (text := text) (body := body)
        (rest' := rest') (.inl rfl) (by rw [hbr, ht, hrest]; simp)
      obtain ⟨e1, e2⟩ := aEl_okC (k := k) (href := href) (text := text) (title := title) hh1 hh2 hgtext
      refine ⟨?_, e1, e2, fun h0 => by cases h0⟩
      have e : (i + ['['].length + text.length + 1 + 1 + body.length + 1 : Nat) = index + 1 + body.length + 1 := by
        rw [ht2]; simp
      rw [e] at hsp
      exact hsp

/-- the alt text of an image pattern: in a simple region `getText` stops at the first `]` -/
theorem getText_altC {data : Str} {i : Nat} {S : Str} (hbr : data.drop i = '!' :: '[' :: S)
    (hreg : RegionsOK true data) :
    (∃ A rest, S = A ++ ']' :: rest ∧ (∀ c ∈ A, altChar c = true) ∧
      getText data (i + 2) = (A, i + 2 + A.length + 1, true)) ∨ (getText data (i + 2)).2.2 = false := by
  have hdata : data = data.take i ++ '!' :: '[' :: S := by
    have := List.take_append_drop i data
    rw [hbr] at this; exact this.symm
  have hS : altClose true S = true := regionsOK_at_image (X := data.take i) (by rw [← hdata]; exact hreg)
  have hd2 : data.drop (i + 2) = S := by
    have := congrArg (List.drop 2) hbr
    simpa [List.drop_drop, Nat.add_comm] using this
  unfold getText
  rw [hd2]
  rcases altClose_decomp S hS with ⟨A, rest, h1, h2⟩ | h2
  · refine .inl ⟨A, rest, h1, h2, ?_⟩
    rw [h1, getTextLoop_plainC A rest (i + 2) [] (fun hm => (altChar_props (h2 _ hm)).1 rfl)
      (fun hm => (altChar_props (h2 _ hm)).2.1 rfl)]
    simp
  · exact .inr (getTextLoop_unhandled S 1 (i + 2) [] (Nat.le_refl 1) h2)

theorem noCtl_of_altChars {a : Str} (h : ∀ c ∈ a, altChar c = true) : NoCtl a :=
  noCtl_iff.2 fun c hc => altChar_noctl (h c hc)

/-- **inline image** `![alt](src "title")` -/
theorem linkHandle_image_okC {cfg : Cfg} (stash : List StashItem) {k : Nat} {data : Str} (hd : DataC 4 k data)
    {i : Nat} {S : Str} (hbr : data.drop i = '!' :: '[' :: S) {f : Found}
    (h : linkHandle cfg stash 4 data i (i + 2) = some f) : FoundOKC k 4 data f := by
  rw [linkHandle_image_eq] at h
  rcases getText_altC hbr hd.adj.2 with ⟨A, restT, hS, hA, hgt⟩ | hgt
  · simp only [hgt, Bool.not_true, Bool.false_eq_true, if_false] at h
    have hi : i ≤ data.length := by
      rcases Nat.le_total i data.length with h' | h'
      · exact h'
      · rw [List.drop_eq_nil_of_le h'] at hbr; cases hbr
    have hdata : data = (data.take i ++ ['!', '['] ++ A) ++ ']' :: restT := by
      have := List.take_append_drop i data
      rw [hbr, hS] at this
      exact this.symm.trans (by simp)
    have hXlen : (data.take i ++ ['!', '['] ++ A).length + 1 = i + 2 + A.length + 1 := by
      simp only [List.length_append, List.length_take, List.length_cons, List.length_nil]
      rw [Nat.min_eq_left hi]
    split at h
    · cases h
    · rename_i hok
      simp only [Bool.not_eq_true', Bool.not_eq_false] at hok
      obtain ⟨body, rest', href, title, hrest, hb, hh1, hh2, heq⟩ :=
        getLink_regionC hd.dom hd.adj.2 hdata stash (by rw [hXlen]; exact hok)
      rw [hXlen] at heq
      rw [heq] at h
      simp only [Option.some.injEq] at h
      subst h
      have hAn : NoCtl A := noCtl_of_altChars hA
      have hsp := splice_linkC (pi := 4) (by decide) hd (i := i) (pre := ['!', '[']) (text := A) (body := body)
        (rest' := rest') (.inr rfl) (by rw [hbr, hS, hrest]; simp)
      obtain ⟨e1, e2⟩ := imgEl_okC k (href := href) (alt := unescape stash A) (title := title) hh1 hh2
        (by rw [unescape_noctl stash hAn]; exact hAn)
      refine ⟨?_, e1, e2, fun h0 => by cases h0⟩
      have e : (i + ['!', '['].length + A.length + 1 + 1 + body.length + 1 : Nat) =
          i + 2 + A.length + 1 + 1 + body.length + 1 := by simp
      rw [e] at hsp
      exact hsp
  · rw [hgt] at h
    simp at h

/-- the `img` element of the image reference patterns -/
theorem imgRefEl_okC (k : Nat) {href alt : Str} {title : Option Str} (h1 : NoCtl href) (h2 : NoCtl (title.getD []))
    (h3 : NoCtl alt) :
    (((if Node.truthy title then ((mkEl "img").setAttr "src".toList href).setAttr "title".toList (title.getD [])
        else (mkEl "img").setAttr "src".toList href).setAttr "alt".toList alt).Forall (SNodeC k)) ∧
    ((if Node.truthy title then ((mkEl "img").setAttr "src".toList href).setAttr "title".toList (title.getD [])
        else (mkEl "img").setAttr "src".toList href).setAttr "alt".toList alt).tail = none := by
  obtain ⟨b1, b2⟩ := imgNode_snodeC k
  obtain ⟨c1, c2⟩ := snodeC_setAttr b1 (key := "src".toList) (v := href) (by decide) h1
  split
  · obtain ⟨e1, e2⟩ := snodeC_setAttr c1 (key := "title".toList) (v := title.getD []) (by decide) h2
    obtain ⟨d1, d2⟩ := snodeC_setAttr e1 (key := "alt".toList) (v := alt) (by decide) h3
    exact ⟨d1, by rw [d2, e2, c2, b2]⟩
  · obtain ⟨d1, d2⟩ := snodeC_setAttr c1 (key := "alt".toList) (v := alt) (by decide) h3
    exact ⟨d1, by rw [d2, c2, b2]⟩

theorem linkHandle_imgref_eq (cfg : Cfg) (stash : List StashItem) {pi : Nat} (hpi : pi = 5 ∨ pi = 7) (data : Str)
    (mstart mend : Nat) :
    linkHandle cfg stash pi data mstart mend =
      if !(getText data mend).2.2 then none
      else
        match (if pi = 7 then some (lower (getText data mend).1, (getText data mend).2.1)
               else evalId data (getText data mend).2.1 (getText data mend).1) with
        | none => none
        | some (id, e2) =>
          match cfg.refs.find? (fun x => x.1 = wsClean id) with
          | none => some ⟨.none, mstart, e2⟩
          | some (_, href, title) =>
            some ⟨.el ((if Node.truthy title then
                ((mkEl "img").setAttr "src".toList href).setAttr "title".toList (title.getD [])
              else (mkEl "img").setAttr "src".toList href).setAttr "alt".toList
                (unescape stash (getText data mend).1)), mstart, e2⟩ := by
  rcases hpi with rfl | rfl <;> rfl

/-- **image references** `![alt][label]`, `![alt]` -/
theorem linkHandle_imgref_okC {cfg : Cfg} (hrefs : RefsOK cfg) (stash : List StashItem) {pi k : Nat}
    (hpi : pi = 5 ∨ pi = 7) {data : Str} (hd : DataC pi k data) {i : Nat} {S : Str}
    (hbr : data.drop i = '!' :: '[' :: S) {f : Found} (h : linkHandle cfg stash pi data i (i + 2) = some f) :
    FoundOKC k pi data f := by
  have hpi1 : 1 ≤ pi := by rcases hpi with rfl | rfl <;> omega
  rw [linkHandle_imgref_eq cfg stash hpi] at h
  rcases getText_altC hbr hd.adj.2 with ⟨A, restT, hS, hA, hgt⟩ | hgt
  · simp only [hgt, Bool.not_true, Bool.false_eq_true, if_false] at h
    have hAn : NoCtl A := noCtl_of_altChars hA
    have hrestT : data.drop (i + 2 + A.length + 1) = restT := by
      have hd2 : data.drop (i + 2) = S := by
        have := congrArg (List.drop 2) hbr
        simpa [List.drop_drop, Nat.add_comm] using this
      rw [show i + 2 + A.length + 1 = (i + 2) + (A.length + 1) by omega, ← List.drop_drop, hd2, hS]
      simp
    have hsplice : ∀ (M Y : Str) (e2 : Nat), data.drop i = '!' :: '[' :: M ++ Y → M.getLast? = some ']' →
        e2 = i + 2 + M.length → SpliceC k pi data i (e2 : Int) := by
      intro M Y e2 hM hl he
      have hne : '!' :: '[' :: M ≠ [] := by simp
      have := spliceC_of_span (pi := pi) (k := k) hpi1 hd (si := i) (pre := []) (M := '!' :: '[' :: M) (post := Y)
        (by simpa using hM) hne
        (by intro c hc; simp at hc; subst hc; decide)
        (by intro c hc
            have : ('!' :: '[' :: M).getLast? = M.getLast? := by
              cases M with
              | nil => simp at hl
              | cons m0 M' => simp [List.getLast?_cons_cons]
            rw [this, hl] at hc; cases hc; decide)
        (by simp [breaks, breaker, altChar])
      simp only [List.length_nil, Nat.add_zero, List.length_cons] at this
      have e : i + (M.length + 1 + 1) = e2 := by omega
      rw [e] at this; exact this
    have hfinal : ∀ (id : Str) (e2 : Nat), SpliceC k pi data i (e2 : Int) →
        (match cfg.refs.find? (fun x => x.1 = wsClean id) with
          | none => some (⟨.none, i, e2⟩ : Found)
          | some (_, href, title) =>
            some ⟨.el ((if Node.truthy title then
                ((mkEl "img").setAttr "src".toList href).setAttr "title".toList (title.getD [])
              else (mkEl "img").setAttr "src".toList href).setAttr "alt".toList (unescape stash A)), i, e2⟩) = some f →
        FoundOKC k pi data f := by
      intro id e2 hsp hm
      cases hfind : cfg.refs.find? (fun x => x.1 = wsClean id) with
      | none =>
        simp only [hfind, Option.some.injEq] at hm
        subst hm
        exact hpi1
      | some x =>
        obtain ⟨xid, href, title⟩ := x
        simp only [hfind, Option.some.injEq] at hm
        subst hm
        obtain ⟨r1, r2⟩ := refEl_ok hrefs hfind
        obtain ⟨n1, n2⟩ := imgRefEl_okC k (href := href) (alt := unescape stash A) (title := title) r1 r2
          (by rw [unescape_noctl stash hAn]; exact hAn)
        exact ⟨hsp, n1, n2, fun h0 => by omega⟩
    rcases hpi with rfl | rfl
    · -- `![alt][label]`
      simp only [show ¬ ((5 : Nat) = 7) by decide, if_false] at h
      cases hev : evalId data (i + 2 + A.length + 1) A with
      | none => simp [hev] at h
      | some r =>
        obtain ⟨id, e2⟩ := r
        simp only [hev] at h
        obtain ⟨W, I, rest, he1, he2, -⟩ := evalId_spec hev
        rw [hrestT] at he1
        refine hfinal id e2 (hsplice ((A ++ ']' :: W ++ '[' :: I) ++ [']']) rest e2 ?_ List.getLast?_concat ?_) h
        · rw [hbr, hS, he1]; simp
        · rw [he2]; simp; omega
    · -- `![alt]`
      simp only [if_true] at h
      refine hfinal (lower A) (i + 2 + A.length + 1) (hsplice (A ++ [']']) restT _ ?_ List.getLast?_concat ?_) h
      · rw [hbr, hS]; simp
      · simp only [List.length_append, List.length_cons, List.length_nil]; omega
  · rw [hgt] at h
    simp at h

theorem linkScan_plain_someC (cfg : Cfg) (stash : List StashItem) {pi : Nat}
    (him : (pi = 4 || pi = 5 || pi = 7) = false) (data : Str) :
    ∀ (suf : Str) (prev : Option Char) (i : Nat) (f : Found), data.drop i = suf →
      linkScan cfg stash pi data prev suf i = some f →
      ∃ j t, data.drop j = '[' :: t ∧ linkHandle cfg stash pi data j (j + 1) = some f := by
  intro suf
  induction suf with
  | nil => intro prev i f _ h; simp [linkScan] at h
  | cons ch r ih =>
    intro prev i f hdrop h
    rw [linkScan_cons] at h
    simp only [him, Bool.false_eq_true, if_false] at h
    have hnext : data.drop (i + 1) = r := by
      have := congrArg (List.drop 1) hdrop
      simpa [List.drop_drop, Nat.add_comm] using this
    by_cases hc : (ch = '[' && prev != some '!') = true
    · rw [if_pos hc] at h
      simp only [Bool.and_eq_true, decide_eq_true_eq] at hc
      cases hl : linkHandle cfg stash pi data i (i + 1) with
      | some f' =>
        simp only [hl, Option.some.injEq] at h
        subst h
        exact ⟨i, r, by rw [hdrop, hc.1], hl⟩
      | none =>
        simp only [hl] at h
        exact ih _ _ _ hnext h
    · rw [if_neg hc] at h
      exact ih _ _ _ hnext h

theorem linkScan_image_someC (cfg : Cfg) (stash : List StashItem) {pi : Nat}
    (him : (pi = 4 || pi = 5 || pi = 7) = true) (data : Str) :
    ∀ (suf : Str) (prev : Option Char) (i : Nat) (f : Found), data.drop i = suf →
      linkScan cfg stash pi data prev suf i = some f →
      ∃ j S, data.drop j = '!' :: '[' :: S ∧ linkHandle cfg stash pi data j (j + 2) = some f := by
  intro suf
  induction suf with
  | nil => intro prev i f _ h; simp [linkScan] at h
  | cons ch r ih =>
    intro prev i f hdrop h
    rw [linkScan_cons] at h
    simp only [him, if_true] at h
    have hnext : data.drop (i + 1) = r := by
      have := congrArg (List.drop 1) hdrop
      simpa [List.drop_drop, Nat.add_comm] using this
    by_cases hc : (ch = '!' && r.head? == some '[') = true
    · rw [if_pos hc] at h
      simp only [Bool.and_eq_true, decide_eq_true_eq, beq_iff_eq] at hc
      cases hl : linkHandle cfg stash pi data i (i + 2) with
      | some f' =>
        simp only [hl, Option.some.injEq] at h
        subst h
        obtain ⟨rfl, hr⟩ := hc
        cases r with
        | nil => simp at hr
        | cons x r' =>
          simp only [List.head?_cons, Option.some.injEq] at hr
          subst hr
          exact ⟨i, r', hdrop, hl⟩
      | none =>
        simp only [hl] at h
        exact ih _ _ _ hnext h
    · rw [if_neg hc] at h
      exact ih _ _ _ hnext h


/-! ### `linkScan` -/

end MdVerif.NoCtl
