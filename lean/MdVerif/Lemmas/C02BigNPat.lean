/-
GENERATED (work/portN.py) COPY of `MdVerif/Lemmas/InlineFuelPat.lean` in the namespace `MdVerif.InlineN`, where the weight `isTrigC` of a
character (hence `phiC`, `nuW`, `ownW`, the weights of the stash entries and the potential of a tree) ALSO COUNTS THE
LINE FEED AND `^`: with nl2br the pattern `\n` turns every line feed of a text into a `br` element, which costs one unit
of potential; the footnote pattern `[^id]` makes two elements (`sup`, `a`), paid by `[` and `^`.
Everything that does not depend on the weight is used from `MdVerif.Inline`.  Needed for `Props/C02Big.lean`, section 6
(termination of `InlineX.runX` for the pattern tables of the extensions).  Core Lean only.
-/
import MdVerif.Lemmas.C02BigNEm
import MdVerif.Lemmas.InlineFuelPat

namespace MdVerif.InlineN
open MdVerif.Inline
open Py
open NoCtl hiding STX ETX

/-! ### inert strings -/

/-- no `STX` of the text is followed by `k`, and the text does not end with `STX` -/
def noPhStart : Str → Bool
  | [] => true
  | [c] => c != STX
  | c :: d :: r => (c != STX || d != 'k') && noPhStart (d :: r)

/-- a string that can be pasted into a text without completing or starting a placeholder -/
def Inert (x : Str) : Prop := noPhStart x = true ∧ ∃ c r, x = c :: r ∧ isInner c = false

theorem phHere_none_of_head {c d : Char} {r : Str} (h : c ≠ STX ∨ d ≠ 'k') : phHere (c :: d :: r) = none := by
  simp only [phHere]
  split
  · next hc =>
    exfalso
    simp only [Bool.and_eq_true, decide_eq_true_eq] at hc
    have hp : phPrefix = STX :: 'k' :: "lzzwxh:".toList := by decide
    rw [hp, startsWith_cons_cons, startsWith_cons_cons] at hc
    simp only [Bool.and_eq_true, decide_eq_true_eq] at hc
    rcases h with h | h
    · exact h hc.1
    · exact h hc.2.2.1
  · rfl

theorem idsOf_noPhStart : ∀ (x : Str), noPhStart x = true → ∀ y, idsOf (x ++ y) = idsOf y := by
  intro x
  induction x with
  | nil => intro _ y; rfl
  | cons c r ih =>
    intro h y
    cases r with
    | nil =>
      simp only [noPhStart, bne_iff_ne, ne_eq] at h
      simp only [List.cons_append, List.nil_append, idsOf]
      have : phHere (c :: y) = none := by
        simp only [phHere]
        split
        · next hc => simp only [Bool.and_eq_true, decide_eq_true_eq] at hc; exact absurd hc.1 h
        · rfl
      rw [this]; rfl
    | cons d r' =>
      simp only [noPhStart, Bool.and_eq_true, Bool.or_eq_true, bne_iff_ne, ne_eq] at h
      have := ih h.2 y
      simp only [List.cons_append] at this ⊢
      have e : idsOf (c :: d :: (r' ++ y)) = idsOf (d :: (r' ++ y)) := by
        conv => lhs; unfold idsOf
        rw [phHere_none_of_head h.1]; rfl
      rw [e]; exact this

/-- an inert string pasted between two texts adds no placeholder and joins none -/
theorem idsOf_inert {x : Str} (hx : Inert x) (a y : Str) :
    idsOf (a ++ (x ++ y)) = idsOf a ++ idsOf y := by
  obtain ⟨c, r, rfl, hc⟩ := hx.2
  rw [idsOf_append_ninner (Or.inr ⟨c, r ++ y, by simp, hc⟩), idsOf_noPhStart _ hx.1 y]

theorem idsOf_inert_self {x : Str} (hx : Inert x) : idsOf x = [] := by
  have := idsOf_noPhStart x hx.1 []
  simpa [idsOf] using this

theorem nuW_inert (acc : List Nat) {x : Str} (hx : Inert x) : nuW acc x = phiC x := by
  simp [nuW, idW, idsOf_inert_self hx]

theorem nuW_paste_inert (acc : List Nat) {x : Str} (hx : Inert x) (a y : Str) :
    nuW acc (a ++ (x ++ y)) = nuW acc a + phiC x + nuW acc y := by
  simp only [nuW, idW, idsOf_inert hx, phiC_append, List.map_append, List.sum_append]; omega

theorem noPhStart_of_no_stx : ∀ (s : Str), STX ∉ s → noPhStart s = true
  | [], _ => rfl
  | [c], h => by
    simp only [noPhStart, bne_iff_ne, ne_eq]
    intro e; exact h (by rw [e]; exact List.mem_cons_self ..)
  | c :: d :: r, h => by
    have hc : c ≠ STX := fun e => h (by rw [e]; exact List.mem_cons_self ..)
    simp only [noPhStart, Bool.and_eq_true, Bool.or_eq_true, bne_iff_ne, ne_eq]
    exact ⟨Or.inl hc, noPhStart_of_no_stx (d :: r) (fun e => h (List.mem_cons_of_mem _ e))⟩

/-- a token: `STX`, a character other than `k`, and no further `STX` -/
theorem inert_token {d : Char} {r : Str} (hd : d ≠ 'k') (hr : STX ∉ d :: r) : Inert (STX :: d :: r) := by
  refine ⟨?_, STX, d :: r, rfl, by decide⟩
  simp only [noPhStart, Bool.and_eq_true, Bool.or_eq_true, bne_iff_ne, ne_eq]
  exact ⟨Or.inr hd, noPhStart_of_no_stx _ hr⟩

theorem inert_escape (n : Nat) : Inert (STX :: natToDec n ++ [ETX]) ∧ phiC (STX :: natToDec n ++ [ETX]) = 0 := by
  have hne := natToDec_ne_nil n
  have hdig := natToDec_digits n
  cases hnd : natToDec n with
  | nil => exact absurd hnd hne
  | cons d ds =>
    rw [hnd] at hdig
    have hd : isAsciiDigit d = true := hdig d (List.mem_cons_self ..)
    constructor
    · have : STX :: (d :: ds) ++ [ETX] = STX :: d :: (ds ++ [ETX]) := by simp
      rw [this]
      apply inert_token
      · intro e; rw [e] at hd; revert hd; decide
      · intro hm
        simp only [List.mem_cons, List.mem_append, List.mem_singleton] at hm
        rcases hm with e | hm | e
        · rw [← e] at hd; revert hd; decide
        · have := hdig _ (List.mem_cons_of_mem _ hm); revert this; decide
        · revert e; decide
    · apply phiC_zero_of
      intro c hc
      simp only [List.cons_append, List.mem_cons, List.mem_append, List.mem_singleton] at hc
      rcases hc with rfl | hc | hc | hc
      · decide
      · rw [hc]; exact isTrigC_digit hd
      · exact isTrigC_digit (hdig c (List.mem_cons_of_mem _ hc))
      · have : c = ETX := by simpa using hc
        subst this; decide

theorem inert_htmlPh (n : Nat) :
    Inert (htmlPrefix ++ natToDec n ++ [ETX]) ∧ phiC (htmlPrefix ++ natToDec n ++ [ETX]) = 0 := by
  have hdig := natToDec_digits n
  have hshape : htmlPrefix ++ natToDec n ++ [ETX] = STX :: 'w' :: ("zxhzdk:".toList ++ natToDec n ++ [ETX]) := by
    simp [htmlPrefix]
  rw [hshape]
  constructor
  · apply inert_token (by decide)
    intro hm
    simp only [List.mem_cons, List.mem_append, List.mem_singleton] at hm
    rcases hm with e | (hm | hm) | e
    · revert e; decide
    · revert hm; decide
    · have := hdig _ hm; revert this; decide
    · revert e; decide
  · apply phiC_zero_of
    intro c hc
    simp only [List.mem_cons, List.mem_append, List.mem_singleton] at hc
    rcases hc with rfl | rfl | (hc | hc) | hc
    · decide
    · decide
    · revert c; decide
    · exact isTrigC_digit (hdig c hc)
    · have : c = ETX := by simpa using hc
      subst this; decide

theorem inert_run {c : Char} (hc : isInner c = false) (hs : c ≠ STX) {k : Nat} (hk : 0 < k) :
    Inert (List.replicate k c) := by
  refine ⟨noPhStart_of_no_stx _ (by intro h; exact hs (List.eq_of_mem_replicate h).symm), ?_⟩
  cases k with
  | zero => omega
  | succ k => exact ⟨c, List.replicate k c, by simp [List.replicate_succ], hc⟩

/-- the escaped backslashes of the backtick pattern -/
def bsTok : Str := STX :: '9' :: '2' :: [ETX]

theorem replace_bs (j : Nat) :
    replace (List.replicate (2 * j) '\\') ['\\', '\\'] bsTok = (List.replicate j bsTok).flatten := by
  induction j with
  | zero => simp
  | succ j ih =>
    have h : List.replicate (2 * (j + 1)) '\\' = '\\' :: '\\' :: List.replicate (2 * j) '\\' := by
      rw [show 2 * (j + 1) = (2 * j + 1) + 1 by omega, List.replicate_succ, List.replicate_succ]
    rw [h, replace_of_startsWith (by simp) (by simp)]
    simp only [List.length_cons, List.length_nil, List.drop_succ_cons, List.drop_zero, ih,
      List.replicate_succ, List.flatten_cons]

theorem noPhStart_bs : ∀ (j : Nat), noPhStart (List.replicate j bsTok).flatten = true
  | 0 => rfl
  | j + 1 => by
    have ih := noPhStart_bs j
    simp only [List.replicate_succ, List.flatten_cons]
    generalize (List.replicate j bsTok).flatten = y at ih ⊢
    cases y with
    | nil => decide
    | cons c r =>
      simp only [bsTok, List.cons_append, List.nil_append, noPhStart, Bool.and_eq_true, Bool.or_eq_true,
        bne_iff_ne, ne_eq]
      exact ⟨Or.inr (by decide), Or.inl (by decide), Or.inl (by decide), Or.inl (by decide), ih⟩

theorem inert_bs : ∀ (j : Nat), 0 < j →
    Inert (List.replicate j bsTok).flatten ∧ phiC (List.replicate j bsTok).flatten = 0 := by
  intro j hj
  have hchars : ∀ c ∈ (List.replicate j bsTok).flatten, c ∈ bsTok := by
    intro c hc
    simp only [List.mem_flatten, List.mem_replicate] at hc
    obtain ⟨l, ⟨_, rfl⟩, hc⟩ := hc
    exact hc
  refine ⟨⟨noPhStart_bs j, ?_⟩, ?_⟩
  · cases j with
    | zero => omega
    | succ j =>
      refine ⟨STX, '9' :: '2' :: ETX :: (List.replicate j bsTok).flatten, ?_, by decide⟩
      simp [List.replicate_succ, bsTok]
  · apply phiC_zero_of
    intro c hc
    have hm := hchars c hc
    have : ∀ c ∈ bsTok, isTrigC c = false := by decide
    exact this c hm

/-! ### `code_escape` does not add weight -/

theorem phiC_subst1 {a : Char} {rep : Str} (h : phiC rep = if isTrigC a then 1 else 0) (s : Str) :
    phiC (subst1 a rep s) = phiC s := by
  induction s with
  | nil => simp [subst1]
  | cons c r ih =>
    by_cases hc : c = a
    · have hout : subst1 a rep (c :: r) = rep ++ subst1 a rep r := by simp [subst1, hc]
      rw [hout, phiC_append, ih, phiC_cons, h, hc]
    · have hout : subst1 a rep (c :: r) = c :: subst1 a rep r := by simp [subst1, hc]
      rw [hout, phiC_cons, phiC_cons, ih]

theorem phiC_codeEscape (t : Str) : phiC (codeEscape t) = phiC t := by
  unfold codeEscape
  rw [replace_single, replace_single, replace_single]
  rw [show ∀ s, (s.flatMap fun c => if c = '>' then "&gt;".toList else [c]) = subst1 '>' "&gt;".toList s from fun _ => rfl,
    show ∀ s, (s.flatMap fun c => if c = '<' then "&lt;".toList else [c]) = subst1 '<' "&lt;".toList s from fun _ => rfl,
    show ∀ s, (s.flatMap fun c => if c = '&' then "&amp;".toList else [c]) = subst1 '&' "&amp;".toList s from fun _ => rfl]
  rw [phiC_subst1 (by decide), phiC_subst1 (by decide), phiC_subst1 (by decide)]

theorem idW_subst1 (acc : List Nat) {a : Char} {rep : Str} (ha : a ≠ STX) (hrep : STX ∉ rep)
    (hhead : ∃ c r, rep = c :: r ∧ isPhChar c = false) :
    ∀ (s : Str), idW acc (subst1 a rep s) ≤ idW acc s := by
  intro s
  induction s with
  | nil => simp [subst1]
  | cons c r ih =>
    by_cases hc : c = a
    · have hout : subst1 a rep (c :: r) = rep ++ subst1 a rep r := by simp [subst1, hc]
      rw [hout]
      simp only [idW, idsOf_no_stx hrep] at ih ⊢
      have : idW acc r ≤ idW acc (c :: r) := by rw [idW_cons]; omega
      simp only [idW] at this
      omega
    · have hout : subst1 a rep (c :: r) = c :: subst1 a rep r := by simp [subst1, hc]
      rw [hout, idW_cons, idW_cons]
      cases hh : phHere (c :: subst1 a rep r) with
      | none => simp only; omega
      | some p =>
        obtain ⟨id', l⟩ := p
        have hall := phHere_take_phChars hh
        have hlen : phPrefixLen + l ≤ (c :: subst1 a rep r).length := by
          obtain ⟨h1, _⟩ := phHere_decomp hh
          have := congrArg List.length h1
          simp only [List.length_append, List.length_cons, List.length_drop] at this
          have hp : phPrefix.length = phPrefixLen := rfl
          simp only [List.length_cons]; omega
        have hn : phPrefixLen + l = (phPrefixLen + l - 1) + 1 := by simp only [phPrefixLen]; omega
        rw [hn] at hall hlen
        simp only [List.take_succ_cons] at hall
        have := subst1_take hhead r (phPrefixLen + l - 1) (fun c' hc' => hall c' (List.mem_cons_of_mem _ hc'))
        have hy : phHere (c :: r) = some (id', l) := by
          apply phHere_of_take hh
          · rw [hn]; simp only [List.take_succ_cons]; rw [this.1]
          · rw [hn]; simp only [List.length_cons] at hlen ⊢; have := this.2 (by omega); omega
        simp only [hy]; omega

theorem idW_codeEscape (acc : List Nat) (t : Str) : idW acc (codeEscape t) ≤ idW acc t := by
  unfold codeEscape
  rw [replace_single, replace_single, replace_single]
  have h3 := idW_subst1 acc (a := '>') (rep := "&gt;".toList) (by decide) (by decide) ⟨'&', "gt;".toList, rfl, by decide⟩
  have h2 := idW_subst1 acc (a := '<') (rep := "&lt;".toList) (by decide) (by decide) ⟨'&', "lt;".toList, rfl, by decide⟩
  have h1 := idW_subst1 acc (a := '&') (rep := "&amp;".toList) (by decide) (by decide) ⟨'&', "amp;".toList, rfl, by decide⟩
  exact Nat.le_trans (h3 _) (Nat.le_trans (h2 _) (h1 _))

theorem nuW_codeEscape_strip (acc : List Nat) (g : Str) : nuW acc (codeEscape (strip g)) ≤ nuW acc g := by
  have h1 := idW_codeEscape acc (strip g)
  have h2 := idW_infix acc (strip_infix g)
  have h3 := phiC_infix (strip_infix g)
  simp only [nuW, phiC_codeEscape]; omega

/-! ### what a match contributes -/

/-- the matched part of the text -/
def region (data : Str) (f : Found) : Str := slice data f.start (pyIdx data.length f.stop)

/-- a string entry is inert and no heavier than the match; an element has, at every depth, only texts satisfying `Q`
    and weighs no more than the match -/
def FoundAcc (acc : List Nat) (Q : Str → Prop) (data : Str) (f : Found) : Prop :=
  match f.node with
  | .none => True
  | .str x => Inert x ∧ phiC x ≤ nuW acc (region data f)
  | .el n => Deep Q n ∧ W acc n ≤ nuW acc (region data f) ∧ n.tail = none

theorem pyIdx_nat (n e : Nat) : pyIdx n (e : Int) = min e n := by
  unfold pyIdx
  have : ¬ (e : Int) < 0 := by omega
  simp only [this, if_false, Int.toNat_natCast]

theorem slice_min (s : Str) (a e : Nat) : slice s a (min e s.length) = slice s a e := by
  simp only [slice]
  rcases Nat.le_total e s.length with h | h
  · rw [Nat.min_eq_left h]
  · rw [Nat.min_eq_right h, List.take_of_length_le (Nat.le_refl _), List.take_of_length_le h]

theorem region_nat (data : Str) (node : PNode) (a e : Nat) :
    region data ⟨node, a, (e : Int)⟩ = slice data a e := by
  simp only [region, pyIdx_nat, slice_min]

theorem slice_eq_drop_take (s : Str) (a e : Nat) : slice s a e = (s.drop a).take (e - a) := by
  simp only [slice, List.drop_take]

/-! #### backtick -/

theorem btScan_at : ∀ {suf : Str} {prev : Option Char} {i : Nat} {m : BtMatch}, btScan prev suf i = some m →
    ∃ j prev', btAt prev' (suf.drop j) (i + j) = some m := by
  intro suf
  induction suf with
  | nil =>
    intro prev i m h
    unfold btScan at h
    split at h
    · next r hr => cases h; exact ⟨0, prev, by simpa using hr⟩
    · cases h
  | cons ch r ih =>
    intro prev i m h
    unfold btScan at h
    split at h
    · next r' hr => cases h; exact ⟨0, prev, by simpa using hr⟩
    · obtain ⟨j, prev', hj⟩ := ih h
      exact ⟨j + 1, prev', by simpa [Nat.add_assoc, Nat.add_comm 1 j] using hj⟩

theorem btCode_spec {suf : Str} : ∀ {t m L : Nat}, btCode suf t = some (m, L) → 0 < m ∧ 0 < L := by
  intro t
  induction t with
  | zero => intro m L h; simp [btCode] at h
  | succ t ih =>
    intro m L h
    simp only [btCode] at h
    split at h
    · split at h
      · next c r hd L' hc =>
        cases h
        refine ⟨by omega, ?_⟩
        -- `btClose` starts counting at 1
        have : ∀ (m : Nat) (prev : Char) (r : Str) (L0 L : Nat), btClose m prev r L0 = some L → L0 ≤ L := by
          intro m prev r
          induction r generalizing prev with
          | nil =>
            intro L0 L h
            unfold btClose at h
            split at h
            · cases h; exact Nat.le_refl _
            · cases h
          | cons c r ih =>
            intro L0 L h
            unfold btClose at h
            split at h
            · cases h; exact Nat.le_refl _
            · have := ih _ _ _ h; omega
        exact this _ _ _ _ _ hc
      · exact ih h
    · exact ih h

/-- the weight of what the backtick pattern stores -/
theorem btAt_acc (acc : List Nat) {prev : Option Char} {suf : Str} {i : Nat} {m : BtMatch}
    (h : btAt prev suf i = some m) :
    m.start = i ∧ i < m.stop ∧
    (m.kind = .bs → ∃ j, 0 < j ∧ m.group = List.replicate (2 * j) '\\') ∧
    (m.kind = .code → nuW acc (codeEscape (strip m.group)) + 1 ≤ nuW acc (suf.take (m.stop - i))) := by
  unfold btAt at h
  split at h
  · cases h
  · simp only at h
    split at h
    · next hk =>
      cases h
      simp only [Bool.and_eq_true, decide_eq_true_eq, beq_iff_eq] at hk
      refine ⟨rfl, ?_, ?_, ?_⟩
      · show i < i + countPrefix '\\' none suf
        omega
      · intro _
        refine ⟨countPrefix '\\' none suf / 2, by omega, ?_⟩
        show suf.take (countPrefix '\\' none suf) = _
        have := countPrefix_prefix '\\' none suf
        rw [this]
        congr 1; omega
      · intro h; cases h
    · split at h
      · rename_i r _
        split at h
        · next mm L hb =>
          cases h
          obtain ⟨hm, hL⟩ := btCode_spec hb
          refine ⟨rfl, ?_, ?_, ?_⟩
          · show i < i + mm + L + mm
            omega
          · intro h; cases h
          intro _
          show nuW acc (codeEscape (strip ((('`' :: r).drop mm).take L))) + 1 ≤
            nuW acc (('`' :: r).take (i + mm + L + mm - i))
          have hsplit : ('`' :: r).take (i + mm + L + mm - i) =
              ('`' :: r).take mm ++ ((('`' :: r).drop mm).take L ++ ((('`' :: r).drop mm).drop L).take mm) := by
            rw [show i + mm + L + mm - i = mm + (L + mm) by omega, List.take_add, List.take_add]
          rw [hsplit]
          have h1 := nuW_append_ge acc (('`' :: r).take mm)
            ((('`' :: r).drop mm).take L ++ ((('`' :: r).drop mm).drop L).take mm)
          have h2 := nuW_append_ge acc ((('`' :: r).drop mm).take L) (((('`' :: r).drop mm).drop L).take mm)
          have h3 := nuW_codeEscape_strip acc ((('`' :: r).drop mm).take L)
          have h4 : 1 ≤ nuW acc (('`' :: r).take mm) := by
            cases mm with
            | zero => omega
            | succ k =>
              simp only [List.take_succ_cons, nuW, phiC_cons]
              have : isTrigC '`' = true := by decide
              simp only [this, if_true]; omega
          omega
        · cases h
      · cases h

/-! #### not_strong -/

theorem nsScan_at : ∀ {suf : Str} {prev : Option Char} {i s e : Nat}, nsScan prev suf i = some (s, e) →
    ∃ j prev', s = i + j ∧ nsHere prev' (suf.drop j) (i + j) = some (s, e) := by
  intro suf
  induction suf with
  | nil => intro prev i s e h; simp [nsScan] at h
  | cons ch r ih =>
    intro prev i s e h
    rw [nsScan_cons] at h
    split at h
    · next x hx =>
      cases h
      have hs : s = i := by
        unfold nsHere at hx
        split at hx
        · split at hx
          · cases hx; rfl
          · simp only [Option.map_eq_some_iff] at hx
            obtain ⟨k, _, hk⟩ := hx; cases hk; rfl
        · cases hx
      exact ⟨0, prev, by simpa using hs, by simpa using hx⟩
    · obtain ⟨j, prev', hj, hh⟩ := ih h
      exact ⟨j + 1, prev', by omega, by simpa [Nat.add_assoc, Nat.add_comm 1 j] using hh⟩

theorem nsRun_take {c : Char} {suf : Str} {k : Nat} (h : nsRun c suf = some k) :
    0 < k ∧ suf.take k = List.replicate k c := by
  have hk : k = countPrefix c (some 3) suf := by
    unfold nsRun at h
    simp only at h
    split at h
    · cases h
    · split at h
      · cases h; rfl
      · split at h
        · cases h; rfl
        · cases h
  refine ⟨(nsRun_ok h).1, ?_⟩
  rw [hk]; exact countPrefix_prefix c (some 3) suf

/-- what `not_strong` stores is a run of `*` or `_` -/
theorem nsHere_run {prev : Option Char} {suf : Str} {i s e : Nat} (h : nsHere prev suf i = some (s, e)) :
    s = i ∧ ∃ c k, (c = '*' ∨ c = '_') ∧ 0 < k ∧ e = i + k ∧ suf.take k = List.replicate k c := by
  unfold nsHere at h
  split at h
  · cases h1 : nsRun '*' suf with
    | some k =>
      simp only [h1] at h
      cases h
      exact ⟨rfl, '*', k, Or.inl rfl, (nsRun_take h1).1, rfl, (nsRun_take h1).2⟩
    | none =>
      simp only [h1, Option.map_eq_some_iff] at h
      obtain ⟨k, hk, hke⟩ := h
      cases hke
      exact ⟨rfl, '_', k, Or.inr rfl, (nsRun_take hk).1, rfl, (nsRun_take hk).2⟩
  · cases h

/-! #### links -/

theorem getTextLoop_len : ∀ (suf : Str) (bc index : Nat) (acc : Str),
    ∃ pre, pre <+: suf ∧ (getTextLoop suf bc index acc).1 = acc.reverse ++ pre ∧
      index + pre.length ≤ (getTextLoop suf bc index acc).2.1 := by
  intro suf
  induction suf with
  | nil => intro bc index acc; exact ⟨[], List.prefix_refl _, by simp [getTextLoop], by simp [getTextLoop]⟩
  | cons c r ih =>
    intro bc index acc
    unfold getTextLoop
    extract_lets bc'
    split
    · exact ⟨[], List.nil_prefix, by simp, by simp⟩
    · obtain ⟨pre, h1, h2, h3⟩ := ih bc' (index + 1) (c :: acc)
      refine ⟨c :: pre, List.cons_prefix_cons.2 ⟨rfl, h1⟩, by rw [h2]; simp, by simp only [List.length_cons]; omega⟩

/-- the text between the brackets lies inside the match -/
theorem getText_in_slice (data : Str) (mend : Nat) {e : Nat} (he : (getText data mend).2.1 ≤ e) :
    (getText data mend).1 <:+: slice data mend e := by
  obtain ⟨pre, h1, h2, h3⟩ := getTextLoop_len (data.drop mend) 1 mend []
  simp only [getText] at he ⊢
  rw [h2]
  simp only [List.reverse_nil, List.nil_append]
  rw [slice_eq_drop_take]
  obtain ⟨t, ht⟩ := h1
  have hle : pre.length ≤ e - mend := by omega
  have : pre <+: (data.drop mend).take (e - mend) := by
    rw [← ht, List.take_append, List.take_of_length_le hle]
    exact List.prefix_append _ _
  exact this.isInfix

/-- a match that starts with a trigger and contains `inner` weighs more than `inner` -/
theorem nuW_region_ge (acc : List Nat) {data : Str} {a m e : Nat} {inner : Str} {c : Char}
    (hc : data[a]? = some c) (ht : isTrigC c = true) (ham : a < m) (hae : a < e)
    (hin : inner <:+: slice data m e) : nuW acc inner + 1 ≤ nuW acc (slice data a e) := by
  have ha : a < data.length := by
    rcases Nat.lt_or_ge a data.length with h | h
    · exact h
    · rw [List.getElem?_eq_none h] at hc; cases hc
  have hsl : slice data a e = c :: slice data (a + 1) e := by
    simp only [slice]
    have hta : a < (data.take e).length := by rw [List.length_take]; omega
    rw [List.drop_eq_getElem_cons hta]
    congr 1
    rw [List.getElem_take]
    rw [List.getElem?_eq_getElem ha] at hc
    exact Option.some.inj hc
  have hsuf : slice data m e <:+ slice data (a + 1) e := by
    simp only [slice]
    have : (data.take e).drop m = ((data.take e).drop (a + 1)).drop (m - (a + 1)) := by
      rw [List.drop_drop]; congr 1; omega
    rw [this]; exact List.drop_suffix _ _
  have h1 := nuW_infix acc (hin.trans hsuf.isInfix)
  have h2 := nuW_append_ge acc [c] (slice data (a + 1) e)
  have h3 : 1 ≤ nuW acc [c] := by simp [nuW, phiC_cons, ht]
  rw [hsl]
  simp only [List.singleton_append] at h2
  omega

theorem W_setAttr (acc : List Nat) (n : Node) (a b : Str) : W acc (n.setAttr a b) = W acc n := by
  unfold Node.setAttr
  split <;> simp [W, npot_def, ownW]

theorem deep_setAttr {Q : Str → Prop} {n : Node} (a b : Str) (h : Deep Q n) : Deep Q (n.setAttr a b) := by
  unfold Node.setAttr
  split <;> (rw [deep_iff] at h ⊢; exact h)

theorem W_text (acc : List Nat) (tag : String) (text : Str) :
    W acc { mkEl tag with text := some text } = 1 + nuW acc text := by
  simp [W, npot_def, ownW, mkEl]

theorem deep_text {Q : Str → Prop} (tag : String) {text : Str} (h : Q text) :
    Deep Q { mkEl tag with text := some text } := by
  rw [deep_iff]; exact ⟨⟨optQ_some h, optQ_none Q⟩, by intro c hc; cases hc⟩

theorem W_with_text (acc : List Nat) (n : Node) (text : Str) (hn : n.text = none) :
    W acc { n with text := some text } = W acc n + nuW acc text := by
  simp only [W, npot_def, ownW, hn, Option.getD_none, Option.getD_some, nuW_nil]; omega

theorem deep_with_text {Q : Str → Prop} {n : Node} {text : Str} (h : Deep Q n) (ht : Q text) :
    Deep Q { n with text := some text } := by
  rw [deep_iff] at h ⊢; exact ⟨⟨optQ_some ht, h.1.2⟩, h.2⟩

theorem pyIdx_ge {n index : Nat} {idx : Int} (hn : index < n) (h : (index : Int) < idx ∨ idx = -1) :
    index ≤ pyIdx n idx := by
  unfold pyIdx
  rcases h with h | h
  · have : ¬ idx < 0 := by omega
    simp only [this, if_false]
    have : index < idx.toNat := by omega
    omega
  · subst h
    simp only [show ((-1 : Int) < 0) by decide, if_true]
    omega

theorem setAttr_text (n : Node) (a b : Str) : (n.setAttr a b).text = n.text := by
  unfold Node.setAttr; split <;> rfl

theorem linkHandle_acc (acc : List Nat) {Q : Str → Prop} (hQ : InfixClosed Q) {cfg : Cfg} {stash : List StashItem}
    {pi : Nat} {data : Str} {mstart mend : Nat} {f : Found} {c : Char} (hc : data[mstart]? = some c)
    (ht : isTrigC c = true) (hm : mstart < mend) (hd : Q data)
    (h : linkHandle cfg stash pi data mstart mend = some f) : FoundAcc acc Q data f := by
  have hn : mstart < data.length := by
    rcases Nat.lt_or_ge mstart data.length with h' | h'
    · exact h'
    · rw [List.getElem?_eq_none h'] at hc; cases hc
  have hgi := getText_infix data mend
  have hgs : ∀ e, (getText data mend).2.1 ≤ e → (getText data mend).1 <:+: slice data mend e :=
    fun e he => getText_in_slice data mend he
  have hgm := (getText_ok data mend).2
  unfold linkHandle at h
  revert h hgi hgs hgm
  generalize getText data mend = r
  obtain ⟨text, index, handled⟩ := r
  simp only
  intro h hgi hgs hgm
  have htext : Q text := hQ _ _ hgi hd
  -- the three shapes of element
  have himg : ∀ (n : Node) (e : Nat), mstart < e → n.text = none → n.tail = none → n.children = [] →
      Deep Q n ∧ W acc n ≤ nuW acc (slice data mstart e) ∧ n.tail = none := by
    intro n e he h1 h2 h3
    refine ⟨by rw [deep_iff]; exact ⟨⟨by rw [h1]; exact optQ_none Q, by rw [h2]; exact optQ_none Q⟩, by rw [h3]; intro c hc; cases hc⟩, ?_, h2⟩
    have := nuW_region_ge acc (inner := []) hc ht hm he (List.nil_infix)
    simp only [W, npot_def, ownW, h1, h2, h3, Option.getD_none, nuW_nil, lpot_nil] at this ⊢
    omega
  split at h
  · cases h
  · split at h
    · revert h
      generalize hgl : getLink (unescape stash) data index = gl
      obtain ⟨href, title, idx, ok⟩ := gl
      simp only
      intro h
      split at h
      · cases h
      · next hok =>
        have hok' : ok = true := by simpa using hok
        subst hok'
        have hraw : ∃ h0 t0, getLinkRaw data index = (h0, t0, idx, true) := by
          unfold getLink at hgl
          revert hgl
          generalize getLinkRaw data index = raw
          obtain ⟨h0, t0, i0, k0⟩ := raw
          simp only [Prod.mk.injEq]
          intro hgl
          exact ⟨h0, t0, rfl, rfl, hgl.2.2.1, hgl.2.2.2⟩
        obtain ⟨h0, t0, hraw⟩ := hraw
        have hidx := getLinkRaw_ok hraw
        have hstop : index ≤ pyIdx data.length idx := pyIdx_ge hidx.1 hidx.2
        cases h
        simp only [FoundAcc, region]
        have hin := hgs _ hstop
        have hreg := nuW_region_ge acc hc ht hm (by omega) hin
        split
        · -- image
          have : ∀ (n : Node), n.text = none → n.tail = none → n.children = [] →
              Deep Q n ∧ W acc n ≤ nuW acc (slice data mstart (pyIdx data.length idx)) ∧ n.tail = none :=
            fun n a b c' => himg n _ (by omega) a b c'
          split
          · exact this _ (by simp [setAttr_text, mkEl]) (by simp [Node.setAttr, mkEl]; repeat' split <;> rfl)
              (by simp [Node.setAttr, mkEl]; repeat' split <;> rfl)
          · exact this _ (by simp [setAttr_text, mkEl]) (by simp [Node.setAttr, mkEl]; repeat' split <;> rfl)
              (by simp [Node.setAttr, mkEl]; repeat' split <;> rfl)
        · split
          · refine ⟨deep_setAttr _ _ (deep_setAttr _ _ (deep_text _ htext)), ?_, ?_⟩
            · rw [W_setAttr, W_setAttr, W_text]; omega
            · simp [Node.setAttr, mkEl]; repeat' split <;> rfl
          · refine ⟨deep_setAttr _ _ (deep_text _ htext), ?_, ?_⟩
            · rw [W_setAttr, W_text]; omega
            · simp [Node.setAttr, mkEl]; repeat' split <;> rfl
    · split at h
      · cases h
      · next id e2 hr =>
        have he2 : index ≤ e2 := by
          split at hr
          · simp only [Option.some.injEq, Prod.mk.injEq] at hr; omega
          · have := evalId_ok hr; omega
        split at h
        · cases h; trivial
        · cases h
          simp only [FoundAcc, region_nat]
          have hin := hgs _ he2
          have hreg := nuW_region_ge acc hc ht hm (by omega) hin
          split
          · have : ∀ (n : Node), n.text = none → n.tail = none → n.children = [] →
                Deep Q n ∧ W acc n ≤ nuW acc (slice data mstart e2) ∧ n.tail = none :=
              fun n a b c' => himg n _ (by omega) a b c'
            split
            · exact this _ (by simp [setAttr_text, mkEl]) (by simp [Node.setAttr, mkEl]; repeat' split <;> rfl)
                (by simp [Node.setAttr, mkEl]; repeat' split <;> rfl)
            · exact this _ (by simp [setAttr_text, mkEl]) (by simp [Node.setAttr, mkEl]; repeat' split <;> rfl)
                (by simp [Node.setAttr, mkEl]; repeat' split <;> rfl)
          · split
            · refine ⟨deep_with_text (deep_setAttr _ _ (deep_setAttr _ _ (deep_mkEl Q _))) htext, ?_, ?_⟩
              · rw [W_with_text _ _ _ (by simp [setAttr_text, mkEl]), W_setAttr, W_setAttr, W_mkEl]; omega
              · simp [Node.setAttr, mkEl]; repeat' split <;> rfl
            · refine ⟨deep_with_text (deep_setAttr _ _ (deep_mkEl Q _)) htext, ?_, ?_⟩
              · rw [W_with_text _ _ _ (by simp [setAttr_text, mkEl]), W_setAttr, W_mkEl]; omega
              · simp [Node.setAttr, mkEl]; repeat' split <;> rfl

theorem linkScan_acc (acc : List Nat) {Q : Str → Prop} (hQ : InfixClosed Q) {cfg : Cfg} {stash : List StashItem}
    {pi : Nat} {data : Str} (hd : Q data) :
    ∀ {suf : Str} {prev : Option Char} {i : Nat} {f : Found}, suf = data.drop i →
      linkScan cfg stash pi data prev suf i = some f → FoundAcc acc Q data f := by
  intro suf
  induction suf with
  | nil => intro prev i f _ h; simp [linkScan] at h
  | cons ch r ih =>
    intro prev i f hsuf h
    obtain ⟨hch, hr⟩ := drop_eq_cons hsuf
    rw [linkScan_cons] at h
    split at h
    · next f' hf' =>
      cases h
      unfold linkHere at hf'
      split at hf'
      · split at hf'
        · next hc =>
          simp only [Bool.and_eq_true, decide_eq_true_eq] at hc
          exact linkHandle_acc acc hQ (c := '!') (by rw [hch, hc.1]) (by decide) (by omega) hd hf'
        · cases hf'
      · split at hf'
        · next hc =>
          simp only [Bool.and_eq_true, decide_eq_true_eq] at hc
          exact linkHandle_acc acc hQ (c := '[') (by rw [hch, hc.1]) (by decide) (by omega) hd hf'
        · cases hf'
    · exact ih hr h

/-! #### emphasis -/

theorem emHandle_acc (acc : List Nat) {Q : Str → Prop} (hQ : InfixClosed Q) (hQ0 : Q []) {data : Str} {i : Nat}
    {c : Char} (hc : isTrigC c = true) (hd : Q data) :
    ∀ (items : List EmItem) (idx : Nat), (∀ it ∈ items, 2 ≤ litSum it.steps) → ∀ el e,
      emHandle data i c items idx = some (some (el, e)) →
      Deep Q el ∧ W acc el ≤ nuW acc (slice data i e) ∧ el.tail = none := by
  intro items
  induction items with
  | nil => intro idx _ el e h; simp [emHandle] at h
  | cons item rest ih =>
    intro idx hl el e h
    unfold emHandle at h
    split at h
    · next e' groups hm =>
      have hlen := seqMatch_len hm
      have hinf := seqMatch_infix hm
      have hnu := seqMatch_nuW acc hc hm
      have h2 := hl item (List.mem_cons_self ..)
      obtain ⟨n, hn, hdn, hwn, htn⟩ := build_acc acc hc hQ hQ0 (data.length + 2) groups item idx (by omega)
        (fun g hg => ⟨by have := hlen.2.2.2 g hg; omega, hQ _ _ (hinf g hg) hd⟩)
      rw [hn] at h
      simp only [Option.some.injEq, Prod.mk.injEq] at h
      obtain ⟨rfl, rfl⟩ := h
      exact ⟨hdn, by omega, htn⟩
    · exact ih _ (fun it h' => hl it (List.mem_cons_of_mem _ h')) _ _ h

theorem emScan_acc (acc : List Nat) {Q : Str → Prop} (hQ : InfixClosed Q) (hQ0 : Q []) {data : Str} {c : Char}
    (hc : isTrigC c = true) (hd : Q data) :
    ∀ (suf : Str) (i : Nat) el s e, emScan data c suf i = some (some (el, s, e)) →
      Deep Q el ∧ W acc el ≤ nuW acc (slice data s e) ∧ el.tail = none := by
  intro suf
  induction suf with
  | nil => intro i el s e h; simp [emScan] at h
  | cons ch r ih =>
    intro i el s e h
    unfold emScan at h
    split at h
    · split at h
      · cases h
      · next el' e' hx =>
        simp only [Option.some.injEq, Prod.mk.injEq] at h
        obtain ⟨rfl, rfl, rfl⟩ := h
        exact emHandle_acc acc hQ hQ0 hc hd _ _ (emPatterns_litSum2 _) _ _ hx
      · exact ih _ _ _ _ h
    · exact ih _ _ _ _ h

/-! #### all patterns -/

theorem W_code (acc : List Nat) (t : Str) :
    W acc { mkEl "code" with text := some t, textAtomic := true } = 1 + nuW acc t := by
  simp [W, npot_def, ownW, mkEl]

theorem findMatch_acc (acc : List Nat) {Q : Str → Prop} (hQ : InfixClosed Q) (hQ0 : Q [])
    (hcode : ∀ g, Q g → Q (codeEscape (strip g))) (cfg : Cfg) (pi : Nat) (data : Str) (si : Nat) (st : St)
    (hd : Q data) {r : Option Found} {st' : St} (h : findMatch cfg pi data si st = some (r, st')) :
    ∀ f, r = some f → FoundAcc acc Q data f := by
  unfold findMatch at h
  simp only at h
  have hnone : ∀ {x : Option Found × St}, some (none, st) = some x → ∀ f, x.1 = some f → FoundAcc acc Q data f := by
    intro x hx; cases hx; intro f hf; cases hf
  split at h
  · exact hnone h
  · next hsi =>
    split at h
    · -- backtick
      split at h
      · next m hm =>
        unfold btFind at hm
        rw [if_neg hsi] at hm
        obtain ⟨j, prev', hat⟩ := btScan_at hm
        obtain ⟨a1, a2, a3, a4⟩ := btAt_acc acc hat
        have hinf : m.group <:+: data := (btScan_infix hm).trans (List.drop_suffix _ _).isInfix
        split at h
        · next hk =>
          cases h
          intro f hf; cases hf
          simp only [FoundAcc, region_nat]
          refine ⟨⟨⟨optQ_some (hcode _ (hQ _ _ hinf hd)), optQ_none _⟩, ?_⟩, ?_, rfl⟩
          · simp [Node.ForallL, mkEl]
          · rw [W_code]
            have := a4 hk
            rw [slice_eq_drop_take, a1]
            rw [List.drop_drop] at this
            omega
        · next hk =>
          cases h
          intro f hf; cases hf
          have hbs : m.kind = .bs := by cases hkk : m.kind <;> simp_all
          obtain ⟨jj, hj, hg⟩ := a3 hbs
          simp only [FoundAcc]
          rw [hg, show (STX :: '9' :: '2' :: [ETX]) = bsTok from rfl, replace_bs]
          have := inert_bs jj hj
          exact ⟨this.1, by rw [this.2]; omega⟩
      · exact hnone h
    · -- escape
      split at h
      · next i ch hm =>
        cases h
        intro f hf; cases hf
        simp only [FoundAcc]
        split
        · trivial
        · next x hx =>
          split at hx
          · cases hx
            have := inert_escape ch.toNat
            exact ⟨this.1, by rw [this.2]; omega⟩
          · cases hx
        · next n hx => split at hx <;> cases hx
      · exact hnone h
    · -- linebreak
      split at h
      · next off hm =>
        cases h
        intro f hf; cases hf
        simp only [FoundAcc]
        have hreg : region data ⟨PNode.el (mkEl "br"), si + off, ((si : Int) + off + 3)⟩ =
            slice data (si + off) (si + off + 3) := by
          rw [show ((si : Int) + off + 3) = ((si + off + 3 : Nat) : Int) by omega]
          exact region_nat _ _ _ _
        rw [hreg]
        refine ⟨deep_mkEl Q _, ?_, rfl⟩
        rw [W_mkEl]
        obtain ⟨pre, post, h1, h2, _⟩ := find_some_iff.1 hm
        have : slice data (si + off) (si + off + 3) = [' ', ' ', '\n'] := by
          rw [slice_eq_drop_take, ← List.drop_drop, h1, ← h2]
          simp
        rw [this]
        have : phiC [' ', ' ', '\n'] = 3 := by decide
        simp only [nuW]; omega
      · exact hnone h
    · -- entity
      split at h
      · next s e hm =>
        cases h
        intro f hf; cases hf
        simp only [FoundAcc]
        have := inert_htmlPh st.html.length
        exact ⟨this.1, by rw [this.2]; omega⟩
      · exact hnone h
    · -- not_strong
      split at h
      · next s e hm =>
        cases h
        intro f hf; cases hf
        unfold nsFind at hm
        rw [if_neg hsi] at hm
        obtain ⟨j, prev', hj, hh⟩ := nsScan_at hm
        obtain ⟨hs, c, k, hck, hk, he, htake⟩ := nsHere_run hh
        simp only [FoundAcc, region_nat]
        have hsl : slice data s e = List.replicate k c := by
          rw [slice_eq_drop_take, hj, ← List.drop_drop, he, ← hs, hj]
          rw [show si + j + k - (si + j) = k by omega]
          exact htake
        rw [hsl]
        refine ⟨inert_run (by rcases hck with rfl | rfl <;> decide) (by rcases hck with rfl | rfl <;> decide) hk, ?_⟩
        simp only [nuW]; omega
      · exact hnone h
    · split at h
      · cases h
      · exact hnone h
      · next el s e hx =>
        cases h
        intro f hf; cases hf
        simp only [FoundAcc, region_nat]
        exact emScan_acc acc hQ hQ0 (by decide) hd _ _ _ _ _ hx
    · split at h
      · cases h
      · exact hnone h
      · next el s e hx =>
        cases h
        intro f hf; cases hf
        simp only [FoundAcc, region_nat]
        exact emScan_acc acc hQ hQ0 (by decide) hd _ _ _ _ _ hx
    · exact hnone h
    · exact hnone h
    · exact hnone h
    · split at h
      · cases h
        exact fun f hf => linkScan_acc acc hQ hd rfl hf
      · exact hnone h

end MdVerif.InlineN
