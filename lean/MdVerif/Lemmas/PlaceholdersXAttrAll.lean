/-
Helper lemmas for C10 on the extension model (`Props/C10XTree.lean`), part 3: the composition of the stage lemmas along
`PipelineX.convertX` when attr_list may be enabled together with the inline-stage extensions nl2br and wikilinks (the
eight other extensions off): block parser `Block.parseDocument`, inline stage `InlineX.runX`
(`Lemmas/PlaceholdersX.lean`), then `FNode → FNodeX`, `prettify`, `AttrListTree.run`, `unescapeTree`
(`Lemmas/PlaceholdersXTree.lean`, `Lemmas/PlaceholdersXAttr.lean`), serializer, postprocessors.  Core Lean only.
-/
import MdVerif.Lemmas.PlaceholdersXAttr
import MdVerif.Lemmas.PlaceholdersX

namespace MdVerif.NoCtlX
open MdVerif.NoCtl Py InlineX

/-- only attr_list and the inline-stage extensions: every flag but `nl2br`, `wikilinks` and `attrList` is off -/
def AttrFlagsOnly (x : PipelineX.Exts) : Prop :=
  x.fencedCode = false ∧ x.tables = false ∧ x.admonition = false ∧ x.defList = false ∧ x.abbr = false ∧
  x.footnotes = false ∧ x.saneLists = false ∧ x.toc = false

instance (x : PipelineX.Exts) : Decidable (AttrFlagsOnly x) := by unfold AttrFlagsOnly; infer_instance

/-- the tree handed to `UnescapeTreeprocessor` when only `nl2br` / `wikilinks` / `attr_list` may be on -/
def lateTree (al : Bool) (bl : List Str) (t : Node) : Node :=
  if al then AttrListTree.run bl (TreeProc.prettify t bl) else TreeProc.prettify t bl

/-- how `convertX` unfolds when only `nl2br` / `wikilinks` / `attr_list` may be on -/
theorem convertX_attr_ok {nl wl al : Bool} {cfg : Pipeline.Cfg} {src out : Str}
    (h : PipelineX.convertX { nl2br := nl, wikilinks := wl, attrList := al } cfg src = .ok out) :
    out = [] ∨
    ∃ root refs t xs u o,
      Block.parseDocument cfg.tab (Pipeline.prepare cfg src) = some (root, refs) ∧
      runX (xcOf cfg refs wl nl) root [] = some (t, xs) ∧
      TreeProc.unescapeTree (lateTree al cfg.blockLevel t) = some u ∧
      Post.finish cfg.blockLevel xs.st.html (Ser.serialize cfg.fmt u) = some (some o) ∧ out = o := by
  simp only [PipelineX.convertX, PipelineX.Exts.unsupported] at h
  split at h
  · cases h
  · simp only [Bool.false_eq_true, if_false] at h
    split at h
    · cases h; exact .inl rfl
    · right
      simp only [PipelineX.treeX, PipelineX.prepareX, PipelineX.Exts.blockCfg, parseDocumentXT_core,
        PipelineX.refsX, PipelineX.escX, Bool.false_eq_true, if_false, Bool.or_self, Bool.false_and] at h
      have hprep : Extract.extract (Normalize.normalize cfg.tab src) = Pipeline.prepare cfg src := rfl
      rw [hprep] at h
      cases hb : Block.parseDocument cfg.tab (Pipeline.prepare cfg src) with
      | none => simp [hb] at h
      | some br =>
        obtain ⟨root, refs⟩ := br
        simp only [hb] at h
        cases hr : runX (xcOf cfg refs wl nl) root [] with
        | none => simp [hr] at h
        | some ir =>
          obtain ⟨t, xs⟩ := ir
          simp only [hr] at h
          have hlate : (if al = true then AttrListTree.run cfg.blockLevel (TreeProc.prettify t cfg.blockLevel)
              else TreeProc.prettify t cfg.blockLevel) = lateTree al cfg.blockLevel t := rfl
          rw [hlate] at h
          cases hu : TreeProc.unescapeTree (lateTree al cfg.blockLevel t) with
          | none => simp [hu] at h
          | some u =>
            simp only [hu, PipelineX.finishX, PipelineX.postX, Bool.false_eq_true, if_false] at h
            cases hs : Post.topLevelStrip (Ser.serialize cfg.fmt u) with
            | none => rw [hs] at h; cases h
            | some o1 =>
              rw [hs] at h
              simp only at h
              cases hraw : Post.rawHtml cfg.blockLevel xs.st.html (Post.rawHtmlFuel xs.st.html) o1 with
              | none => rw [hraw] at h; cases h
              | some r =>
                rw [hraw] at h
                simp only [Option.map_some, Pipeline.Outcome.ok.injEq] at h
                subst h
                refine ⟨root, refs, t, xs, u, _, rfl, hr, hu, ?_, rfl⟩
                simp only [Post.finish, Post.post, hs, hraw, Option.map_some]

/-- prettify and (when enabled) attr_list keep `FNodeX` -/
theorem lateTree_fnodeX (al : Bool) (bl : List Str) {t : Node} (h : t.Forall FNodeX) :
    (lateTree al bl t).Forall FNodeX := by
  unfold lateTree
  split
  · exact attrList_run_fnodeX bl (prettify_fnodeX h bl)
  · exact prettify_fnodeX h bl

/-- the tree after the inline stage, on the domain of `C10_partial_links` (with wikilinks: no `[` before a blank) -/
theorem inline_stage_fnode {nl wl : Bool} {cfg : Pipeline.Cfg} (hcfg : EscOK cfg.esc) {src : Str}
    (hd : C10DomainL cfg.tab src) (hq : Qw wl (Normalize.normalize cfg.tab src)) {root : Node} {refs : Block.Refs}
    (hb : Block.parseDocument cfg.tab (Pipeline.prepare cfg src) = some (root, refs)) {t : Node} {xs : XSt}
    (hr : runX (xcOf cfg refs wl nl) root [] = some (t, xs)) : t.Forall FNode ∧ xs.st.html = [] := by
  have hP : (Blk.AllC (fun c => Blk.okc c && domCharB c) (Pipeline.prepare cfg src) ∧
      Adj3 (Pipeline.prepare cfg src)) ∧ Qw wl (Pipeline.prepare cfg src) :=
    ⟨prepare_domB cfg hd, by rw [prepare_eq_normalize cfg hd]; exact hq⟩
  obtain ⟨hroot, hrefs, -⟩ := BlkB.parseDocument_strs (strDom_adj3q wl) cfg.tab _ hP hb
  have htree : root.Forall (WNodeB 0) := Node.Forall.mono (fun _ hn => (bnodeP_split hn).1) root hroot
  have htreeq : root.Forall (QN wl) := Node.Forall.mono (fun _ hn => (bnodeP_split hn).2) root hroot
  have hhi := hiSpecXB_inline (xc := xcOf cfg refs wl nl) (wl := wl) (nl := nl) hcfg
    (refsOK_of_refsC cfg.esc hrefs) rfl
  obtain ⟨ht', hhtml⟩ := runX_specB hhi htree htreeq hr
  exact ⟨Node.Forall.mono (fun _ hn => fnode_of_wnodeB hn) t ht', hhtml⟩

/-- end to end with attr_list, nl2br and wikilinks on the domain of `C10_partial_links`; with wikilinks the normalised
    text has no `[` immediately before a blank -/
theorem convertX_noctl_attr {x : PipelineX.Exts} (hx : AttrFlagsOnly x)
    {cfg : Pipeline.Cfg} (hcfg : EscOK cfg.esc) {src out : Str} (hd : C10DomainL cfg.tab src)
    (hq : Qw x.wikilinks (Normalize.normalize cfg.tab src))
    (h : PipelineX.convertX x cfg src = .ok out) : NoCtl out := by
  obtain ⟨fc, tb, ad, dl, ab, fnn, sl, nl, wl, al, toc⟩ := x
  obtain ⟨h1, h2, h3, h4, h5, h6, h7, h8⟩ := hx
  simp only at h1 h2 h3 h4 h5 h6 h7 h8 hq
  subst h1 h2 h3 h4 h5 h6 h7 h8
  rcases convertX_attr_ok h with rfl | ⟨root, refs, t, xs, u, o, hb, hr, hu, hf, rfl⟩
  · exact noCtl_nil
  · obtain ⟨hfn, hhtml⟩ := inline_stage_fnode hcfg hd hq hb hr
    have hun := unescapeTree_fnodeX (lateTree_fnodeX al cfg.blockLevel (forall_fnodeX_of_fnode hfn)) hu
    have hser := serialize_noctl cfg.fmt hun
    rw [hhtml] at hf
    exact finish_noctl hser hf

end MdVerif.NoCtlX
