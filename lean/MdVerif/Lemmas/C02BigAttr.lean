/-
Helper lemmas for `Props/C02Big.lean`, section 13: `Markdown.convert` does not raise WITH attr_list.

`AttrListTreeprocessor` cuts `{: #id .cls k="v" }` out of texts and tails and moves pieces of it into attribute values.
For the invariant "no bad token" (`C02BigNB.NB`, closed under cutting):
* every attribute VALUE the scanner produces is a piece of the scanned string (`scan_pieces`), a class is appended behind a
  blank (`assignStep_nb`);
* the new text of a block-level element is a piece of the old one (`blockApply_infix`), the new tail of an inline element
  is the text behind the closing brace followed by the unparsed remainder, which is empty or starts with `}`
  (`inlineApply_nb`): no token can form across that seam;
* `attrRun_NB`: the walk keeps `NodeNB`; `attrRun_tag`: and the tag of the root.
The decompositions of the regular expressions (`lastBrace_decomp`, `headerSearch_decomp`, …) and the normal forms of the walk
(`blockRule_eq`, `attrNode_eq`) are c10x's (`Lemmas/PlaceholdersXAttr.lean`).
Core Lean only.
-/
import MdVerif.Lemmas.C02BigAbbr
import MdVerif.Lemmas.PlaceholdersXAttr

namespace MdVerif.C02BigNB
open Py TreeProc C02Big AttrList AttrListTree
open MdVerif.NoCtlX (lazyUntil_decomp splitEq_decomp lastBrace_decomp headerSearch_decomp blockSearch_decomp blockRule_eq
  tailRes textRes attrNode_eq attrBody selTail)

/-! ### strings -/

/-- a character in front of which a bad token cannot continue -/
def Sep (c : Char) : Prop := isDecimal c = false ∧ c ≠ TreeProc.ETX

theorem all_decimal_append_cons {d post a : Str} {c : Char} {b : Str} (hd : ∀ x ∈ d, isDecimal x = true)
    (hc : Sep c) (e : d ++ TreeProc.ETX :: post = a ++ c :: b) : ∃ w, a = d ++ TreeProc.ETX :: w := by
  rcases List.append_eq_append_iff.1 e with ⟨z, hz1, hz2⟩ | ⟨z, hz1, hz2⟩
  · -- `a = d ++ z`, `ETX :: post = z ++ c :: b`
    cases z with
    | nil =>
      simp only [List.nil_append, List.cons.injEq] at hz2
      exact absurd hz2.1.symm hc.2
    | cons z0 z' =>
      simp only [List.cons_append, List.cons.injEq] at hz2
      exact ⟨z', by rw [hz1, hz2.1]⟩
  · -- `d = a ++ z`, `c :: b = z ++ ETX :: post`
    cases z with
    | nil =>
      simp only [List.nil_append, List.cons.injEq] at hz2
      exact absurd hz2.1 hc.2
    | cons z0 z' =>
      exfalso
      simp only [List.cons_append, List.cons.injEq] at hz2
      have := hd z0 (by rw [hz1]; simp)
      rw [← hz2.1, hc.1] at this
      cases this

/-- **no bad token forms across a seam in front of a separator** -/
theorem nb_append_sep {a b : Str} {c : Char} (ha : NB a) (hb : NB (c :: b)) (hc : Sep c) : NB (a ++ c :: b) := by
  rintro ⟨pre, d, post, e, h1, h2, h3⟩
  rcases List.append_eq_append_iff.1 e with ⟨z, hz1, hz2⟩ | ⟨z, hz1, hz2⟩
  · -- the STX lies in `c :: b`
    cases z with
    | nil =>
      simp only [List.nil_append] at hz2
      exact hb ⟨[], d, post, by simpa using hz2, h1, h2, h3⟩
    | cons z0 z' =>
      exact hb ⟨z0 :: z', d, post, by simpa using hz2, h1, h2, h3⟩
  · -- the STX lies in `a`: `a = pre ++ z`, `STX :: d ++ ETX :: post = z ++ c :: b`
    cases z with
    | nil =>
      simp only [List.nil_append] at hz2
      exact hb ⟨[], d, post, by simpa using hz2.symm, h1, h2, h3⟩
    | cons z0 z' =>
      simp only [List.cons_append, List.cons.injEq] at hz2
      obtain ⟨rfl, hz3⟩ := hz2
      obtain ⟨w, hw⟩ := all_decimal_append_cons h2 hc hz3
      exact ha ⟨pre, d, w, by rw [hz1, hw], h1, h2, h3⟩

theorem nb_cons {c : Char} {b : Str} (hc : c ≠ TreeProc.STX) (hb : NB b) : NB (c :: b) := by
  rintro ⟨pre, d, post, e, h1, h2, h3⟩
  cases pre with
  | nil =>
    simp only [List.nil_append, List.cons.injEq] at e
    exact hc e.1
  | cons p0 p' =>
    simp only [List.cons_append, List.cons.injEq] at e
    exact hb ⟨p', d, post, e.2, h1, h2, h3⟩

theorem sep_rbrace : Sep '}' := by unfold Sep; decide
theorem sep_blank : Sep ' ' := by unfold Sep; decide

/-! ### the scanner: every value is a piece of the scanned string -/

theorem takeDrop (p : Char → Bool) (s : Str) : s = s.takeWhile p ++ s.dropWhile p :=
  (List.takeWhile_append_dropWhile (p := p) (l := s)).symm

theorem patQuoted_split {q : Char} {s t r : Str} (h : patQuoted q s = some (t, r)) : s = t ++ r := by
  unfold patQuoted at h
  split at h
  · next k ks q' r' hk hd =>
    split at h
    · next hqq =>
      subst hqq
      simp only [Option.map_eq_some_iff] at h
      obtain ⟨⟨p, r''⟩, hl, he⟩ := h
      simp only [Prod.mk.injEq] at he
      obtain ⟨rfl, rfl⟩ := he
      have := takeDrop wordChar s
      rw [hk, hd, lazyUntil_decomp hl] at this
      rw [this]; simp
    · cases h
  · cases h

theorem patKeyValue_split {s t r : Str} (h : patKeyValue s = some (t, r)) : s = t ++ r := by
  unfold patKeyValue at h
  split at h
  · next k ks r' hk hd =>
    split at h
    · next v vs hv =>
      simp only [Option.some.injEq, Prod.mk.injEq] at h
      obtain ⟨rfl, rfl⟩ := h
      have h1 := takeDrop wordChar s
      have h2 := takeDrop wordChar r'
      rw [hk, hd] at h1
      rw [hv] at h2
      rw [h1]
      conv => lhs; rw [h2]
      simp
    · cases h
  · cases h

theorem patWord_split {s t r : Str} (h : patWord s = some (t, r)) : s = t ++ r := by
  unfold patWord at h
  split at h
  · next k ks hk =>
    simp only [Option.some.injEq, Prod.mk.injEq] at h
    obtain ⟨rfl, rfl⟩ := h
    have := takeDrop wordChar s
    rw [hk] at this
    exact this
  · cases h

theorem splitEq_snd_suffix (t : Str) : (splitEq t).2 <:+ t := by
  rcases splitEq_decomp t with ⟨_, h2⟩ | h
  · rw [h2]; exact List.nil_suffix
  · exact ⟨(splitEq t).1 ++ ['='], by rw [List.append_assoc]; exact h.symm⟩

theorem stripC_infix (q : Char) (s : Str) : stripC q s <:+: s := by
  obtain ⟨a, b, e, _, _⟩ := stripP_decomp (· = q) s
  exact ⟨a, b, e.symm⟩

theorem handleQuoted_infix (q : Char) (t : Str) : (handleQuoted q t).2 <:+: t :=
  (stripC_infix q _).trans (splitEq_snd_suffix t).isInfix

theorem handleWord_infix (t : Str) : (handleWord t).2 <:+: t := by
  unfold handleWord
  split
  · exact (List.suffix_cons _ _).isInfix
  · exact (List.suffix_cons _ _).isInfix
  · exact List.infix_refl _

/-- one match of the scanner: the value is a piece of the string, the rest a suffix -/
theorem scanStep_pieces {s r : Str} {tok : Option (Str × Str)} (h : scanStep s = some (tok, r)) :
    (∀ kv, tok = some kv → kv.2 <:+: s) ∧ r <:+ s := by
  unfold scanStep at h
  have key : ∀ (t r' : Str) (v : Str), s = t ++ r' → v <:+: t → v <:+: s := by
    intro t r' v e hv
    rw [e]; exact hv.trans (List.prefix_append t r').isInfix
  split at h
  · next t r' hp =>
    simp only [Option.some.injEq, Prod.mk.injEq] at h
    obtain ⟨rfl, rfl⟩ := h
    have e := patQuoted_split hp
    exact ⟨fun kv hkv => by cases hkv; exact key t r' _ e (handleQuoted_infix '"' t), ⟨t, e.symm⟩⟩
  · split at h
    · next t r' hp =>
      simp only [Option.some.injEq, Prod.mk.injEq] at h
      obtain ⟨rfl, rfl⟩ := h
      have e := patQuoted_split hp
      exact ⟨fun kv hkv => by cases hkv; exact key t r' _ e (handleQuoted_infix '\'' t), ⟨t, e.symm⟩⟩
    · split at h
      · next t r' hp =>
        simp only [Option.some.injEq, Prod.mk.injEq] at h
        obtain ⟨rfl, rfl⟩ := h
        have e := patKeyValue_split hp
        exact ⟨fun kv hkv => by cases hkv; exact key t r' _ e (splitEq_snd_suffix t).isInfix, ⟨t, e.symm⟩⟩
      · split at h
        · next t r' hp =>
          simp only [Option.some.injEq, Prod.mk.injEq] at h
          obtain ⟨rfl, rfl⟩ := h
          have e := patWord_split hp
          exact ⟨fun kv hkv => by cases hkv; exact key t r' _ e (handleWord_infix t), ⟨t, e.symm⟩⟩
        · split at h
          · simp only [Option.some.injEq, Prod.mk.injEq] at h
            obtain ⟨rfl, rfl⟩ := h
            exact ⟨fun kv hkv => (by cases hkv), List.suffix_cons _ _⟩
          · cases h

theorem scan_pieces : ∀ (fuel : Nat) (s : Str),
    (∀ kv ∈ (scan fuel s).1, kv.2 <:+: s) ∧ (scan fuel s).2 <:+ s
  | 0, s => by simp only [scan]; exact ⟨by simp, List.suffix_refl _⟩
  | fuel + 1, s => by
    simp only [scan]
    split
    · exact ⟨by simp, List.suffix_refl _⟩
    · next tok r hst =>
      obtain ⟨w1, w2⟩ := scanStep_pieces hst
      obtain ⟨i1, i2⟩ := scan_pieces fuel r
      refine ⟨?_, i2.trans w2⟩
      intro kv hkv
      rcases List.mem_append.1 hkv with hkv | hkv
      · exact w1 kv (by simpa using hkv)
      · exact (i1 kv hkv).trans w2.isInfix

/-- **`get_attrs_and_remainder`**: every value is a piece of the string; the remainder is a suffix of it that is empty or
    starts with `}` -/
theorem getAttrsAndRemainder_pieces (s : Str) :
    (∀ kv ∈ (getAttrsAndRemainder s).1, kv.2 <:+: s) ∧ (getAttrsAndRemainder s).2 <:+ s ∧
      ((getAttrsAndRemainder s).2 = [] ∨ ∃ r, (getAttrsAndRemainder s).2 = '}' :: r) := by
  obtain ⟨w1, w2⟩ := scan_pieces s.length s
  refine ⟨w1, (List.dropWhile_suffix _).trans w2, ?_⟩
  show List.dropWhile (· != '}') (scanner s).2 = [] ∨ _
  cases hd : List.dropWhile (· != '}') (scanner s).2 with
  | nil => exact .inl rfl
  | cons c r =>
    right
    have := List.head?_dropWhile_not (· != '}') (scanner s).2
    rw [hd] at this
    have hc : c = '}' := by simpa using this
    exact ⟨r, by rw [hc] at hd; exact hd⟩

/-! ### `assign_attrs` -/

/-- the values of the attributes hold no bad token -/
def AttrsNB (a : Attrs) : Prop := ∀ kv ∈ a, NB kv.2

theorem getA_nb {a : Attrs} (ha : AttrsNB a) {k v : Str} (h : getA a k = some v) : NB v := by
  simp only [getA, Option.map_eq_some_iff] at h
  obtain ⟨kv, hf, rfl⟩ := h
  exact ha kv (List.mem_of_find?_eq_some hf)

theorem setA_nb {a : Attrs} (ha : AttrsNB a) (k : Str) {v : Str} (hv : NB v) : AttrsNB (setA a k v) := by
  unfold setA
  split
  · intro kv hkv
    obtain ⟨kv', hm, rfl⟩ := List.mem_map.1 hkv
    split
    · exact hv
    · exact ha kv' hm
  · intro kv hkv
    rcases List.mem_append.1 hkv with hkv | hkv
    · exact ha kv hkv
    · simp only [List.mem_singleton] at hkv
      subst hkv; exact hv

theorem assignStep_nb {a : Attrs} (ha : AttrsNB a) {kv : Str × Str} (hv : NB kv.2) : AttrsNB (assignStep a kv) := by
  unfold assignStep
  split
  · split
    · next c cs hg =>
      exact setA_nb ha _ (nb_append_sep (getA_nb ha hg) (nb_cons (by decide) hv) sep_blank)
    · exact setA_nb ha _ hv
  · exact setA_nb ha _ hv

theorem assignPairs_nb : ∀ (pairs : List (Str × Str)) {a : Attrs}, AttrsNB a → (∀ kv ∈ pairs, NB kv.2) →
    AttrsNB (assignPairs a pairs)
  | [], a, ha, _ => ha
  | kv :: r, a, ha, hp => by
    simp only [assignPairs, List.foldl_cons]
    exact assignPairs_nb r (assignStep_nb ha (hp kv List.mem_cons_self)) (fun kv' h => hp kv' (List.mem_cons_of_mem _ h))

/-- **`assign_attrs`**: new values without bad token; the remainder is a suffix of the group, empty or starting with `}` -/
theorem assignAttrs_nb {a : Attrs} (ha : AttrsNB a) {g : Str} (hg : NB g) (strict : Bool) :
    AttrsNB (assignAttrs a g strict).1 ∧ (assignAttrs a g strict).2 <:+ g ∧
      ((assignAttrs a g strict).2 = [] ∨ ∃ r, (assignAttrs a g strict).2 = '}' :: r) := by
  obtain ⟨w1, w2, w3⟩ := getAttrsAndRemainder_pieces g
  unfold assignAttrs
  simp only
  split
  · exact ⟨ha, w2, w3⟩
  · exact ⟨assignPairs_nb _ ha (fun kv hkv => hg.infix (w1 kv hkv)), w2, w3⟩

/-! ### placement -/

theorem baseFrom_pieces {ok : Str → Bool} {s g r : Str} (h : baseFrom ok s = some (g, r)) : g <:+: s ∧ r <:+ s := by
  unfold baseFrom at h
  split at h
  · cases h
  · next c r0 hdw =>
    split at h
    · cases h
    · simp only [Option.map_eq_some_iff] at h
      obtain ⟨⟨g', r'⟩, hl, he⟩ := h
      simp only [Prod.mk.injEq] at he
      obtain ⟨rfl, rfl⟩ := he
      have hsuf : c :: r0 <:+ s := hdw ▸ List.dropWhile_suffix _
      rw [lastBrace_decomp hl] at hsuf
      constructor
      · exact (show c :: g' <:+: c :: (g' ++ '}' :: r') from ⟨[], '}' :: r', by simp⟩).trans hsuf.isInfix
      · exact (show r' <:+ c :: (g' ++ '}' :: r') from ⟨c :: (g' ++ ['}']), by simp⟩).trans hsuf

theorem baseAt_pieces {ok : Str → Bool} {s g r : Str} (h : baseAt ok s = some (g, r)) : g <:+: s ∧ r <:+ s := by
  unfold baseAt at h
  split at h
  · next r0 =>
    split at h
    · next p hp =>
      simp only [Option.some.injEq] at h
      subst h
      obtain ⟨h1, h2⟩ := baseFrom_pieces hp
      exact ⟨h1.trans ⟨['{', ':'], [], by simp⟩, h2.trans ⟨['{', ':'], rfl⟩⟩
    · obtain ⟨h1, h2⟩ := baseFrom_pieces h
      exact ⟨h1.trans ⟨['{'], [], by simp⟩, h2.trans ⟨['{'], rfl⟩⟩
  · obtain ⟨h1, h2⟩ := baseFrom_pieces h
    exact ⟨h1.trans ⟨['{'], [], by simp⟩, h2.trans ⟨['{'], rfl⟩⟩
  · cases h

theorem search_pieces {header : Bool} {s pre g : Str}
    (h : (if header then headerSearch s else blockSearch s) = some (pre, g)) : pre <+: s ∧ g <:+: s := by
  cases header with
  | false =>
    obtain ⟨x, r, e, hb⟩ := blockSearch_decomp h
    refine ⟨⟨'\n' :: x, e.symm⟩, ?_⟩
    have := ((baseAt_pieces hb).1.trans (List.dropWhile_suffix _).isInfix)
    rw [e]
    exact this.trans ⟨pre ++ ['\n'], [], by simp⟩
  | true =>
    obtain ⟨x, r, e, hb⟩ := headerSearch_decomp h
    refine ⟨⟨' ' :: x, e.symm⟩, ?_⟩
    have := ((baseAt_pieces hb).1.trans (List.dropWhile_suffix _).isInfix)
    rw [e]
    exact this.trans ⟨pre ++ [' '], [], by simp⟩

/-- the block branch: the new string is a piece of the old one -/
theorem blockApply_infix (header hashes : Bool) (a : Attrs) (text : Str) :
    (blockApply header hashes a text).2 <:+: text := by
  unfold blockApply
  split
  · exact List.infix_refl _
  · next pre g hsrch =>
    obtain ⟨w1, -⟩ := search_pieces hsrch
    simp only
    split
    · simp only
      split
      · exact ((rstripP_prefix _ _).trans ((rstripP_prefix _ _).trans w1)).isInfix
      · exact w1.isInfix
    · exact List.infix_refl _

theorem blockApply_nb (header hashes : Bool) {a : Attrs} (ha : AttrsNB a) {text : Str} (ht : NB text) :
    AttrsNB (blockApply header hashes a text).1 := by
  unfold blockApply
  split
  · exact ha
  · next pre g hsrch =>
    obtain ⟨-, w2⟩ := search_pieces hsrch
    simp only
    split
    · exact (assignAttrs_nb ha (ht.infix w2) true).1
    · exact ha

/-- the inline branch: the new tail is the text behind the brace and the remainder, which starts with `}` -/
theorem inlineApply_nb {a : Attrs} (ha : AttrsNB a) {tail : Str} (ht : NB tail) :
    AttrsNB (inlineApply a tail).1 ∧ NB (inlineApply a tail).2 := by
  unfold inlineApply
  split
  · exact ⟨ha, ht⟩
  · next g rest hm =>
    obtain ⟨w1, w2⟩ := baseAt_pieces hm
    obtain ⟨v1, v2, v3⟩ := assignAttrs_nb ha (ht.infix w1) false
    refine ⟨v1, ?_⟩
    simp only
    rcases v3 with h0 | ⟨r, hr⟩
    · rw [h0, List.append_nil]; exact ht.infix w2.isInfix
    · have hrem : NB ('}' :: r) := hr ▸ (ht.infix w1).infix v2.isInfix
      rw [hr]
      exact nb_append_sep (ht.infix w2.isInfix) hrem sep_rbrace

/-! ### the placement rule of a block-level element -/

def BlockGoodN (r : Attrs × Option Str × Option (Nat × Str)) : Prop :=
  AttrsNB r.1 ∧ (∀ t, r.2.1 = some t → NB t) ∧ (∀ i t, r.2.2 = some (i, t) → NB t)

theorem tailRes_goodN (header hashes : Bool) {attrs : Attrs} (ha : AttrsNB attrs) (i : Nat)
    {tl : Str} (ht : NB tl) : BlockGoodN (tailRes header hashes attrs i tl) := by
  unfold tailRes
  split
  · exact ⟨blockApply_nb header hashes ha ht, fun t e => (by cases e), fun i t e => (by cases e)⟩
  · refine ⟨blockApply_nb header hashes ha ht, fun t e => (by cases e), ?_⟩
    intro j t e
    simp only [Option.some.injEq, Prod.mk.injEq] at e
    rw [← e.2]; exact ht.infix (blockApply_infix header hashes attrs tl)

theorem textRes_goodN (header hashes : Bool) {attrs : Attrs} (ha : AttrsNB attrs) {text : Option Str}
    (ht : NB (text.getD [])) : BlockGoodN (textRes header hashes attrs text) := by
  unfold textRes
  split
  · split
    · exact ⟨blockApply_nb header hashes ha ht, fun t e => (by cases e), fun i t e => (by cases e)⟩
    · refine ⟨blockApply_nb header hashes ha ht, ?_, fun i t e => (by cases e)⟩
      intro t e
      simp only [Option.some.injEq] at e
      rw [← e]
      exact ht.infix (blockApply_infix header hashes attrs _)
  · exact ⟨ha, fun t e => (by cases e), fun i t e => (by cases e)⟩

theorem nb_bind_tail {children : List Node} (hk : ∀ c ∈ children, NB (c.tail.getD [])) {o : Option Node}
    (ho : ∀ c, o = some c → c ∈ children) : NB ((o.bind (·.tail)).getD []) := by
  cases o with
  | none => exact nb_nil
  | some c => exact hk c (ho c rfl)

theorem blockRule_goodN (tag : Tag) {attrs : Attrs} (ha : AttrsNB attrs) {text : Option Str} (ht : NB (text.getD []))
    {children : List Node} (hk : ∀ c ∈ children, NB (c.tail.getD [])) :
    BlockGoodN (blockRule tag attrs text children) := by
  have hlast : NB ((children.getLast?.bind (·.tail)).getD []) :=
    nb_bind_tail hk (fun c hc => List.mem_of_getLast? hc)
  have hprev : ∀ pos : Nat, NB (((children[pos - 1]?).bind (·.tail)).getD []) :=
    fun pos => nb_bind_tail hk (fun c hc => List.mem_of_getElem? hc)
  rw [blockRule_eq]
  split
  · split
    · split
      · exact tailRes_goodN _ _ ha _ hlast
      · exact textRes_goodN _ _ ha ht
    · split
      · exact tailRes_goodN _ _ ha _ (hprev _)
      · exact textRes_goodN _ _ ha ht
  · split
    · exact tailRes_goodN _ _ ha _ hlast
    · exact textRes_goodN _ _ ha ht

/-! ### the walk -/

theorem kids_tailsN {l : List Node} (h : Node.ForallL NodeNB l) : ∀ c ∈ l, NB (c.tail.getD []) := by
  intro c hc
  exact (((Node.forall_iff _ _).1 ((Node.forallL_iff _ _).1 h c hc)).1).2.1

theorem selTail_nb {tailOv tail0 : Option Str} (h3 : NB (tail0.getD [])) (hov : ∀ t, tailOv = some t → NB t) :
    NB ((selTail tailOv tail0).getD []) := by
  cases tailOv with
  | none => exact h3
  | some t => exact hov t rfl

mutual
theorem attrNode_NB (bl : List Str) : ∀ (n : Node) (tailOv : Option Str), n.Forall NodeNB →
    (∀ t, tailOv = some t → NB t) → (attrNode bl tailOv n).Forall NodeNB
  | ⟨tag, attrs, text, ta, children, tail0, tla0⟩, tailOv, h, hov => by
    simp only [Node.Forall] at h
    obtain ⟨⟨h1, h2, h3⟩, hk⟩ := h
    simp only at h1 h2 h3
    have htail := selTail_nb h2 hov
    rw [attrNode_eq]
    generalize selTail tailOv tail0 = tail at htail
    generalize (match tailOv with | some _ => false | none => tla0) = tla
    unfold attrBody
    split
    · obtain ⟨g1, g2, g3⟩ := blockRule_goodN tag h3 h1 (kids_tailsN hk)
      simp only [Node.Forall]
      refine ⟨⟨?_, htail, g1⟩, attrKids_NB bl _ 0 children hk (fun j t e => g3 j t e)⟩
      show NB ((match (blockRule tag attrs text children).2.1 with | some t => some t | none => text).getD [])
      cases hr : (blockRule tag attrs text children).2.1 with
      | none => exact h1
      | some t => exact g2 t hr
    · split
      · split
        · obtain ⟨v1, v2⟩ := inlineApply_nb h3 htail
          simp only [Node.Forall]
          exact ⟨⟨h1, v2, v1⟩, attrKids_NB bl none 0 children hk (fun j t e => by cases e)⟩
        · simp only [Node.Forall]
          exact ⟨⟨h1, htail, h3⟩, attrKids_NB bl none 0 children hk (fun j t e => by cases e)⟩
      · simp only [Node.Forall]
        exact ⟨⟨h1, htail, h3⟩, attrKids_NB bl none 0 children hk (fun j t e => by cases e)⟩
theorem attrKids_NB (bl : List Str) (ov : Option (Nat × Str)) : ∀ (i : Nat) (l : List Node),
    Node.ForallL NodeNB l → (∀ j t, ov = some (j, t) → NB t) → Node.ForallL NodeNB (attrKids bl ov i l)
  | _, [], _, _ => by simp [attrKids, Node.ForallL]
  | i, c :: r, h, hov => by
    simp only [Node.ForallL] at h
    unfold attrKids
    simp only [Node.ForallL]
    refine ⟨attrNode_NB bl c _ h.1 ?_, attrKids_NB bl ov (i + 1) r h.2 hov⟩
    intro t e
    cases ov with
    | none => cases e
    | some jt =>
      obtain ⟨j, t'⟩ := jt
      simp only at e
      split at e
      · simp only [Option.some.injEq] at e
        subst e; exact hov j t' rfl
      · cases e
end

/-- **`AttrListTreeprocessor.run` writes no bad token** -/
theorem attrRun_NB (bl : List Str) {t : Node} (h : t.Forall NodeNB) : (AttrListTree.run bl t).Forall NodeNB :=
  attrNode_NB bl t none h (fun _ e => by cases e)

/-- … and keeps the tag of the root -/
theorem attrRun_tag (bl : List Str) (t : Node) : (AttrListTree.run bl t).tag = t.tag := by
  obtain ⟨tag, attrs, text, ta, children, tail, tla⟩ := t
  unfold AttrListTree.run
  rw [attrNode_eq]
  unfold attrBody
  split
  · rfl
  · split
    · split <;> rfl
    · rfl

end MdVerif.C02BigNB
