/-
Several raw items in one document (C04, text level): plain text (or nothing), then raw items -- block elements,
comments, processing instructions, declarations, `<hr>` -- each at a line start and followed by plain text that
starts with a blank line (and ends with one when another raw item follows).  The preprocessor replaces the `i`-th
item by the placeholder of index `i` and the stash holds the items' source texts in order (`preprocess_many`).
Core Lean only.
-/
import MdVerif.Lemmas.HtmlTokUnits

namespace MdVerif.HtmlTok
open Py Extract HtmlFrag
set_option linter.unusedSimpArgs false
set_option linter.unnecessarySimpa false

/-! ### several raw items in one document -/

/-- a raw item: its source text, and whether the extractor puts a line feed in front of its placeholder
    (block elements: yes; comments, processing instructions, declarations, `<hr>`: no) -/
structure RawSec where
  text : Str
  lead : Bool

/-- the extractor state between raw items -/
structure Outside (st : ExSt) : Prop where
  inraw : st.inraw = false
  intail : st.intail = false
  stack : st.stack = []
  cache : st.cache = []
  nl : needsNewline st.cleandoc = false

/-- the state after one more raw item followed by the plain text `s` -/
def afterSec (st : ExSt) (R : RawSec) (s : Str) : ExSt :=
  { st with
    cleandoc := st.cleandoc ++ ((if R.lead then [['\n']] else []) ++ [placeholder st.stash.length, nn, s])
    stash := st.stash ++ [R.text ++ ['\n']] }

/-- what the tokenizer and the extractor do with a raw item at a line start and the plain text behind it (which
    starts with a blank line): some events, one loop iteration each, whose effect on a state outside raw mode is
    `afterSec` -/
structure RawSec.OK (R : RawSec) : Prop where
  /-- it starts with `<` -/
  head : ∃ r, R.text = '<' :: r
  sec : ∀ (raw pre s k : Str), raw = pre ++ (R.text ++ (s ++ k)) →
    (pre = [] ∨ ∃ p, pre = p ++ ['\n']) → (∃ s', s = nn ++ s') → plainOk s = true → Delim k →
    ∃ (n : Nat) (evs : List Event), n ≤ (R.text ++ s).length ∧
      (∀ (f : Nat) (ex : ExSt), go1 raw (f + n) (R.text ++ (s ++ k)) (posOf pre) ex =
        consEvs evs (go1 raw f k (posOf (pre ++ (R.text ++ s))) (runFrom ex evs))) ∧
      ∀ st : ExSt, Outside st → runFrom st evs = afterSec st R s

theorem atLineStart_pre (raw pre : Str) (h : pre = [] ∨ ∃ p, pre = p ++ ['\n']) : atLineStart raw (posOf pre) = true := by
  rcases h with rfl | ⟨p, rfl⟩
  · exact atLineStart_nil raw
  · exact atLineStart_after_nl raw p

theorem plain_nn_ok (s : Str) (hs : ∃ s', s = nn ++ s') (hp : plainOk s = true) : (Tok.text s).ok = true := by
  obtain ⟨s', rfl⟩ := hs
  exact plain_text_ok _ hp (by simp [nn])

/-- a unit as a raw item -/
theorem unitSec_ok (u : Unit) (hu : u.OK) : (RawSec.mk u.text false).OK where
  head := hu.head
  sec := by
    intro raw pre s k hraw hpre hs hp hk
    have hals := atLineStart_pre raw pre hpre
    have hlook : look raw (posOf pre) u.text = true := by
      obtain ⟨s', rfl⟩ := hs
      rw [hraw, look_posOf, List.append_assoc, blankLine_nn]
    refine ⟨2, [u.ev true, .data s], ?_, ?_, ?_⟩
    · obtain ⟨r, hr⟩ := hu.head
      obtain ⟨s', rfl⟩ := hs
      simp [hr, nn]; omega
    · intro f ex
      have h2 := hu.go raw (f + 1) (s ++ k) (posOf pre) ex hals
      have h3 := go1_tok raw f (.text s) k (updatePos (posOf pre) u.text) (step ex (u.ev true)) (plain_nn_ok s hs hp)
        (fun _ => hk)
      rw [show f + 2 = (f + 1) + 1 by omega, h2, hlook]
      simp only [Tok.render] at h3
      rw [h3, consEvs_consEvs, posOf_append, posOf_append]
      simp [tokEvent, runFrom, List.append_assoc]
    · intro st ho
      simp only [runFrom, List.foldl_cons, List.foldl_nil]
      rw [hu.step]
      simp [afterSec, handleEmpty, ho.inraw, ho.intail, ho.nl, storeAppend, step, handleData, nn]

/-- a block element as a raw item -/
theorem blockSec_ok (name : Str) (attrs : List Attr) (trail : Str) (body : List Tok)
    (hopen : (Tok.open_ name attrs trail).ok = true) (hblock : isBlockLevelTag (lower name) = true)
    (hhr : lower name ≠ hrTag) (hbody : toksOk body = true) (hcl : closesOk (lower name) body = true) :
    (RawSec.mk (blockText name attrs trail body) true).OK where
  head := ⟨name ++ (afterName attrs trail ++ '>' :: renderToks (body ++ [Tok.close name])), by
    simp [blockText, blockToks, renderToks, Tok.render]⟩
  sec := by
    intro raw pre s k hraw hpre hs hp hk
    have hnameok : nameOk name = true := by
      simp only [Tok.ok, Bool.and_eq_true] at hopen; exact hopen.1.1.1
    have ht2 : (Tok.text s).ok = true := plain_nn_ok s hs hp
    let ts : List Tok := .open_ name attrs trail :: (body ++ (.close name :: [.text s]))
    have hrender : renderToks ts = blockText name attrs trail body ++ s := by
      simp [ts, renderToks, renderToks_append, blockText, blockToks, Tok.render]
    have htoks : toksOk ts = true := by
      refine toksOk_cons_of hopen ?_ (by intro h; cases h)
      exact toksOk_append_nontext body (.close name) [.text s] hbody
        (toksOk_close_text _ _ hnameok ht2) rfl
    have hals := atLineStart_pre raw pre hpre
    have hlook : look raw (posOf (pre ++ (Tok.open_ name attrs trail).render ++ renderToks body))
        (Tok.close name).render = true := by
      obtain ⟨s', rfl⟩ := hs
      have : raw = (pre ++ (Tok.open_ name attrs trail).render ++ renderToks body) ++
          ((Tok.close name).render ++ (nn ++ (s' ++ k))) := by
        rw [hraw]; simp [blockText, blockToks, renderToks, renderToks_append, Tok.render, List.append_assoc]
      rw [this, look_posOf, blankLine_nn]
    obtain ⟨extra, hrun, hnot⟩ := closesOk_spec hcl
    have hcontent := content_of_stackRun raw body (pre ++ (Tok.open_ name attrs trail).render) _ _ hrun
    have hbal : BalancedBlock (lower name)
        (tokEvent raw (posOf pre) (.open_ name attrs trail) ::
          (toksEvents raw (pre ++ (Tok.open_ name attrs trail).render) body ++
            [tokEvent raw (posOf (pre ++ (Tok.open_ name attrs trail).render ++ renderToks body)) (.close name)])) := by
      have hnhr : ¬ (lower name = ['h', 'r']) := hhr
      simp only [tokEvent, tagEvent, Bool.false_eq_true, if_false, hals, hblock, hnhr, decide_false]
      exact BalancedBlock.mk _ _ _ _ _ extra hcontent hnot
    have hblockText : evsText
        (tokEvent raw (posOf pre) (.open_ name attrs trail) ::
          (toksEvents raw (pre ++ (Tok.open_ name attrs trail).render) body ++
            [tokEvent raw (posOf (pre ++ (Tok.open_ name attrs trail).render ++ renderToks body)) (.close name)])) =
        blockText name attrs trail body := by
      have h1 := tokEvent_text raw (posOf pre) _ hopen
      have h2 := evsText_toksEvents raw body (pre ++ (Tok.open_ name attrs trail).render) hbody
      have h3 := tokEvent_text raw (posOf (pre ++ (Tok.open_ name attrs trail).render ++ renderToks body))
        (.close name) hnameok
      simp only [evsText, List.map_cons, List.map_append, List.flatten_cons, List.flatten_append, List.map_nil,
        List.flatten_nil, List.append_nil] at h2 ⊢
      rw [h1, h2, h3]
      simp [blockText, blockToks, renderToks, renderToks_append]
    have hlast : lastBlankFollows
        (tokEvent raw (posOf pre) (.open_ name attrs trail) ::
          (toksEvents raw (pre ++ (Tok.open_ name attrs trail).render) body ++
            [tokEvent raw (posOf (pre ++ (Tok.open_ name attrs trail).render ++ renderToks body)) (.close name)])) =
        true := by
      rw [← List.cons_append]
      simp only [tokEvent]
      rw [lastBlankFollows_append_end, hlook]
    have hsplit : toksEvents raw pre ts =
        (tokEvent raw (posOf pre) (.open_ name attrs trail) ::
          (toksEvents raw (pre ++ (Tok.open_ name attrs trail).render) body ++
            [tokEvent raw (posOf (pre ++ (Tok.open_ name attrs trail).render ++ renderToks body)) (.close name)])) ++
        [.data s] := by
      simp [ts, toksEvents, toksEvents_append, tokEvent, List.append_assoc]
    refine ⟨ts.length, toksEvents raw pre ts, ?_, ?_, ?_⟩
    · have := toks_length_le ts htoks
      rw [hrender] at this; exact this
    · intro f ex
      have hgo := go1_toks raw ts pre k f ex htoks hk
      rw [hrender] at hgo
      simpa [List.append_assoc] using hgo
    · intro st ho
      rw [hsplit, runFrom_append, C04_block_once hbal st ho.inraw ho.intail ho.stack ho.cache, hblockText, hlast]
      simp [runFrom, step, handleData, afterSec, nn]
      exact ⟨ho.inraw, ho.intail, ho.stack, ho.cache⟩

/-- the source text of raw items, each followed by its plain text -/
def flatSecs : List (RawSec × Str) → Str
  | [] => []
  | (R, s) :: r => R.text ++ (s ++ flatSecs r)

/-- the extractor state after all of them -/
def afterSecs (st : ExSt) : List (RawSec × Str) → ExSt
  | [] => st
  | (R, s) :: r => afterSecs (afterSec st R s) r

/-- every raw item is well-formed; the plain text behind it starts with a blank line and, when another raw item
    follows, ends with a blank line -/
def secsOk : List (RawSec × Str) → Prop
  | [] => True
  | [(R, s)] => R.OK ∧ (∃ s', s = nn ++ s') ∧ plainOk s = true
  | (R, s) :: x :: r => R.OK ∧ (∃ s', s = nn ++ s') ∧ plainOk s = true ∧ (∃ s'', s = s'' ++ nn) ∧ secsOk (x :: r)

theorem secsOk_cons {R : RawSec} {s : Str} {r : List (RawSec × Str)} (h : secsOk ((R, s) :: r)) :
    R.OK ∧ (∃ s', s = nn ++ s') ∧ plainOk s = true ∧ (r ≠ [] → ∃ s'', s = s'' ++ nn) ∧ secsOk r := by
  cases r with
  | nil => exact ⟨h.1, h.2.1, h.2.2, fun hn => absurd rfl hn, trivial⟩
  | cons x r' => exact ⟨h.1, h.2.1, h.2.2.1, fun _ => h.2.2.2.1, h.2.2.2.2⟩

theorem needsNewline_snoc_nn (cd : List Str) (s : Str) : needsNewline (cd ++ [s ++ nn]) = false := by
  simp [needsNewline, nn, endsWith_append_self]

theorem flatSecs_delim (r : List (RawSec × Str)) (h : secsOk r) : Delim (flatSecs r) := by
  cases r with
  | nil => intro c hc; simp [flatSecs] at hc
  | cons x r' =>
    obtain ⟨R, s⟩ := x
    obtain ⟨hR, _⟩ := secsOk_cons h
    obtain ⟨t, ht⟩ := hR.head
    intro c hc
    simp [flatSecs, ht] at hc
    exact Or.inl hc.symm

/-- the states between raw items are outside raw mode -/
theorem outside_afterSec (st : ExSt) (R : RawSec) (s'' : Str) (h : Outside st) : Outside (afterSec st R (s'' ++ nn)) where
  inraw := h.inraw
  intail := h.intail
  stack := h.stack
  cache := h.cache
  nl := by
    have := needsNewline_snoc_nn (st.cleandoc ++ ((if R.lead then [['\n']] else []) ++ [placeholder st.stash.length, nn])) s''
    simpa [afterSec, List.append_assoc] using this

/-- the first phase over several raw items -/
theorem go1_secs (raw : Str) : ∀ (secs : List (RawSec × Str)) (pre : Str),
    raw = pre ++ flatSecs secs → (secs ≠ [] → pre = [] ∨ ∃ p, pre = p ++ ['\n']) → secsOk secs →
    ∃ (N : Nat) (evs : List Event), N ≤ (flatSecs secs).length ∧
      (∀ (f : Nat) (ex : ExSt), go1 raw (f + N) (flatSecs secs) (posOf pre) ex =
        consEvs evs (go1 raw f [] (posOf (pre ++ flatSecs secs)) (runFrom ex evs))) ∧
      ∀ st : ExSt, (secs ≠ [] → Outside st) → runFrom st evs = afterSecs st secs := by
  intro secs
  induction secs with
  | nil =>
    intro pre _ _ _
    exact ⟨0, [], by simp, by intro f ex; simp [flatSecs, consEvs_nil, runFrom], fun st _ => rfl⟩
  | cons x r ih =>
    intro pre hraw hpre hok
    obtain ⟨R, s⟩ := x
    obtain ⟨hR, hs, hp, hend, hr⟩ := secsOk_cons hok
    have hk := flatSecs_delim r hr
    have hpre' : r ≠ [] → pre ++ (R.text ++ s) = [] ∨ ∃ p, pre ++ (R.text ++ s) = p ++ ['\n'] := by
      intro hrn
      obtain ⟨s'', hs2⟩ := hend hrn
      exact Or.inr ⟨pre ++ (R.text ++ (s'' ++ ['\n'])), by rw [hs2]; simp [nn, List.append_assoc]⟩
    have hraw' : raw = (pre ++ (R.text ++ s)) ++ flatSecs r := by
      rw [hraw]; simp [flatSecs, List.append_assoc]
    obtain ⟨n, evs1, hn, hgo1, hst1⟩ := hR.sec raw pre s (flatSecs r) (by rw [hraw]; rfl) (hpre (by simp)) hs hp hk
    obtain ⟨N', evs2, hN', hgo2, hst2⟩ := ih (pre ++ (R.text ++ s)) hraw' hpre' hr
    refine ⟨N' + n, evs1 ++ evs2, ?_, ?_, ?_⟩
    · simp only [flatSecs, List.length_append] at hn hN' ⊢; omega
    · intro f ex
      have := hgo1 (f + N') ex
      simp only [flatSecs]
      rw [show f + (N' + n) = (f + N') + n by omega, this, hgo2, consEvs_consEvs, runFrom_append]
      simp [List.append_assoc]
    · intro st ho
      have ho := ho (by simp)
      rw [runFrom_append, hst1 st ho]
      simp only [afterSecs]
      apply hst2
      intro hrn
      obtain ⟨s'', hs2⟩ := hend hrn
      rw [hs2]
      exact outside_afterSec st R s'' ho

theorem afterSecs_cache (st : ExSt) (secs : List (RawSec × Str)) : (afterSecs st secs).cache = st.cache := by
  induction secs generalizing st with
  | nil => rfl
  | cons x r ih => obtain ⟨R, s⟩ := x; simp [afterSecs, ih, afterSec]

/-- the state the extractor starts the raw items from: the plain text in front of them (if any) -/
def startSt (t0 : Str) : ExSt := { cleandoc := if t0.isEmpty then [] else [t0] }

/-- **several raw items**: plain text (or nothing), then raw items, each followed by plain text -/
theorem extract_many (t0 : Str) (secs : List (RawSec × Str))
    (ht0 : t0 = [] ∨ (plainOk t0 = true ∧ ∃ t, t0 = t ++ nn)) (hsecs : secsOk secs) :
    extractText (t0 ++ flatSecs secs) = some (afterSecs (startSt t0) secs) := by
  generalize hdoc : t0 ++ flatSecs secs = doc
  have hk := flatSecs_delim secs hsecs
  -- the first phase
  have hgo : ∃ evs, go1 doc (doc.length + 1) doc {} init = some (evs, runFrom init evs, []) ∧
      runFrom init evs = afterSecs (startSt t0) secs := by
    rcases ht0 with rfl | ⟨hp0, t, ht⟩
    · have hdoc' : flatSecs secs = doc := by simpa using hdoc
      obtain ⟨N, evs, hN, hgo, hst⟩ := go1_secs doc secs [] (by simpa using hdoc.symm) (fun _ => Or.inl rfl) hsecs
      obtain ⟨g, hg⟩ : ∃ g, doc.length + 1 = (g + 1) + N := ⟨doc.length - N, by rw [← hdoc']; omega⟩
      refine ⟨evs, ?_, ?_⟩
      · have := hgo (g + 1) init
        rw [hdoc', posOf_nil] at this
        rw [hg, this]
        simp [go1, consEvs]
      · exact hst init (fun _ => ⟨rfl, rfl, rfl, rfl, by simp [needsNewline, init, endsWith]⟩)
    · have hne0 : t0 ≠ [] := by rw [ht]; simp [nn]
      have ht0ok : (Tok.text t0).ok = true := plain_text_ok t0 hp0 hne0
      obtain ⟨N, evs, hN, hgo, hst⟩ := go1_secs doc secs t0 hdoc.symm
        (fun _ => Or.inr ⟨t ++ ['\n'], by rw [ht]; simp [nn]⟩) hsecs
      obtain ⟨g, hg⟩ : ∃ g, doc.length + 1 = ((g + 1) + N) + 1 := ⟨doc.length - N - 1, by
        rw [← hdoc]; simp only [List.length_append]
        have := List.length_pos_iff.2 hne0; omega⟩
      have h1 := go1_tok doc ((g + 1) + N) (.text t0) (flatSecs secs) (posOf []) init ht0ok (fun _ => hk)
      refine ⟨.data t0 :: evs, ?_, ?_⟩
      · have h2 := hgo (g + 1) (step init (.data t0))
        have e : go1 doc (doc.length + 1) doc {} init =
            go1 doc ((g + 1) + N + 1) ((Tok.text t0).render ++ flatSecs secs) (posOf []) init := by
          rw [hg]; congr 1; rw [← hdoc]; rfl
        rw [e, h1, posOf_append]
        simp only [tokEvent, List.nil_append, Tok.render]
        rw [h2]
        simp [go1, consEvs, runFrom]
      · rw [runFrom_cons]
        have : step init (.data t0) = startSt t0 := by
          have : t0.isEmpty = false := by cases t0 <;> simp_all
          simp [step, handleData, init, startSt, this]
        rw [this]
        apply hst
        intro _
        refine ⟨rfl, rfl, rfl, rfl, ?_⟩
        have : t0.isEmpty = false := by cases t0 <;> simp_all
        have hte : (t ++ nn).isEmpty = false := by rw [← ht]; exact this
        simp only [startSt, ht, hte, Bool.false_eq_true, if_false]
        exact needsNewline_snoc_nn [] t
  obtain ⟨evs, hgo1, hrun⟩ := hgo
  have hev : events doc = some (evs ++ [.close []]) := by
    unfold events
    rw [hgo1]
    simp [go2]
  unfold extractText
  rw [hev]
  simp only [Option.map_some, Option.some.injEq]
  unfold runEvents
  rw [runFrom_append, hrun]
  have hc : (afterSecs (startSt t0) secs).cache = [] := by rw [afterSecs_cache]; rfl
  simp [runFrom, step, handleClose, hc]

/-- the text handed on for the raw items from stash index `i` on: line feed (block elements), placeholder, blank line,
    the plain text -/
def outSecs : Nat → List (RawSec × Str) → Str
  | _, [] => []
  | i, (R, s) :: r => (if R.lead then ['\n'] else []) ++ placeholder i ++ nn ++ s ++ outSecs (i + 1) r

theorem afterSecs_stash (st : ExSt) (secs : List (RawSec × Str)) :
    (afterSecs st secs).stash = st.stash ++ secs.map (fun x => x.1.text ++ ['\n']) := by
  induction secs generalizing st with
  | nil => simp [afterSecs]
  | cons x r ih => obtain ⟨R, s⟩ := x; simp [afterSecs, ih, afterSec]

theorem afterSecs_clean (st : ExSt) (secs : List (RawSec × Str)) :
    cleanText (afterSecs st secs) = cleanText st ++ outSecs st.stash.length secs := by
  induction secs generalizing st with
  | nil => simp [afterSecs, outSecs]
  | cons x r ih =>
    obtain ⟨R, s⟩ := x
    simp only [afterSecs, ih, outSecs]
    cases hl : R.lead <;> simp [afterSec, cleanText, List.append_assoc, hl]

/-- the preprocessor on a document with several raw items -/
theorem preprocess_many (t0 : Str) (secs : List (RawSec × Str))
    (ht0 : t0 = [] ∨ (plainOk t0 = true ∧ ∃ t, t0 = t ++ nn)) (hsecs : secsOk secs) :
    preprocess (t0 ++ flatSecs secs) =
      some (splitC '\n' (t0 ++ outSecs 0 secs), secs.map (fun x => x.1.text ++ ['\n'])) := by
  unfold preprocess
  rw [extract_many t0 secs ht0 hsecs]
  simp only [Option.map_some, afterSecs_stash, afterSecs_clean]
  cases h : t0.isEmpty <;> simp [startSt, h, cleanText]
  · cases t0 <;> simp_all
end MdVerif.HtmlTok
