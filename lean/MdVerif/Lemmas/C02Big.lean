/-
Helper lemmas for `Props/C02Big.lean`: the whole pipeline on the provably sufficient fuel (`C08Src.convertBig`) is
total on every `<`-free source.

* `after_cases`   — behind the inline stage nothing runs out of fuel and only `UnescapeTreeprocessor` can raise, for
                    every document tree with a stash of entity references;
* `convertBig_stages` — on a `<`-free, non-blank source every stage of `convertBig` answers, and the answer of
                    `convertBig` is `after` of the inline result;
* `convertBig_of_convert_ne_oof` — where the model with its own fuel answers anything but `oof`, `convertBig` answers
                    the same.
Core Lean only.
-/
import MdVerif.Lemmas.C08SrcBig
import MdVerif.Lemmas.StashEntities

namespace MdVerif.C02Big
open Py Block Inline InlineLocal NoCtl Vocab2 MdVerif.C08 MdVerif.C08Src

/-- **behind the inline stage**: for a document tree (`DocOk`: the wrapper `div` around vocabulary content) and a
    raw-HTML stash of entity references, `after` answers `ok` when `UnescapeTreeprocessor` succeeds and `err` when
    it raises; the serializer, the strip of the wrapper, `RawHtmlPostprocessor` (one pass reaches the fixed point),
    `AndSubstitutePostprocessor` never fail. -/
theorem after_cases (pc : Pipeline.Cfg) {t : Node} {html : List Str} (hd : DocOk t = true) (he : AllEnt html) :
    (TreeProc.unescapeTree (TreeProc.prettify t pc.blockLevel) = none ∧ after pc t html = .err) ∨
    ∃ u out, TreeProc.unescapeTree (TreeProc.prettify t pc.blockLevel) = some u ∧ after pc t html = .ok out := by
  unfold after
  cases hu : TreeProc.unescapeTree (TreeProc.prettify t pc.blockLevel) with
  | none => exact Or.inl ⟨rfl, rfl⟩
  | some u =>
    refine Or.inr ⟨u, ?_⟩
    have hdu : DocOk u = true := unescapeTree_doc _ _ hu (prettify_doc _ _ hd)
    simp only [Post.finish, topLevelStrip_doc pc.fmt u hdu, Post.post, rawHtml_eq pc.blockLevel he, Option.map_some]
    exact ⟨_, trivial, rfl⟩

/-- the stages of `convertBig` on a `<`-free, non-blank source: the block parser answers, its tree has no STX/ETX,
    the stack loop answers within `bigRunFuel`, its result is a document tree with a stash of entity references -/
theorem convertBig_stages (pc : Pipeline.Cfg) (src : Str) (h1 : src.contains '<' = false)
    (h2 : Normalize.isBlankDoc src = false) :
    ∃ rt refs t st, parseDocument pc.tab (Pipeline.prepare pc src) = some (rt, refs) ∧
      TreeNoCtl rt ∧ (∀ r ∈ refs, NoCtl r.2.1 ∧ NoCtl (r.2.2.getD [])) ∧
      runBig { esc := pc.esc, refs := refs.reverse } rt = some (t, st) ∧
      DocOk t = true ∧ AllEnt st.html ∧ convertBig pc src = after pc t st.html := by
  obtain ⟨rr, hp⟩ := Option.isSome_iff_exists.1 (C02_parseDocument_total_any_tab pc.tab (Pipeline.prepare pc src))
  obtain ⟨rt, refs⟩ := rr
  obtain ⟨hno, hrefs⟩ := C10_block_tree_noctl pc.tab (prepare_noctl pc src) hp
  obtain ⟨ts, hr⟩ := Option.isSome_iff_exists.1
    (C02_run_total_bigfuel { esc := pc.esc, refs := refs.reverse } rt [] hno (bigRunFuel rt)
      (by unfold bigRunFuel; omega))
  obtain ⟨t, st⟩ := ts
  have hr' : runBig { esc := pc.esc, refs := refs.reverse } rt = some (t, st) := hr
  refine ⟨rt, refs, t, st, hp, hno, hrefs, hr', ?_, ?_, ?_⟩
  · exact runLoop_ok _ _ _ _ _ _ _ _ hr (docOk_block hp) stashOk_nil
  · exact runLoop_ent _ _ _ _ _ _ _ _ hr allEnt_nil
  · unfold convertBig
    simp only [h1, h2, Bool.false_eq_true, if_false, hp, hr']

/-- **where the model answers anything but `oof`, `convertBig` gives the same answer** (every source, every
    configuration): `ood` for a source with `<`, otherwise both stages before `after` answered, and more fuel never
    changes a result -/
theorem convertBig_of_convert_ne_oof (pc : Pipeline.Cfg) (src : Str) (h : Pipeline.convert pc src ≠ .oof) :
    convertBig pc src = Pipeline.convert pc src := by
  cases h1 : src.contains '<' with
  | true => unfold convertBig Pipeline.convert; simp only [h1, if_true]
  | false =>
    cases h2 : Normalize.isBlankDoc src with
    | true => unfold convertBig Pipeline.convert; simp only [h1, h2, Bool.false_eq_true, if_false, if_true]
    | false =>
      cases hp : parseDocument pc.tab (Pipeline.prepare pc src) with
      | none =>
        exfalso; apply h
        unfold Pipeline.convert Pipeline.tree
        simp only [h1, h2, Bool.false_eq_true, if_false, hp]
      | some rr =>
        obtain ⟨rt, refs⟩ := rr
        cases hr : Inline.run { esc := pc.esc, refs := refs.reverse } rt with
        | none =>
          exfalso; apply h
          unfold Pipeline.convert Pipeline.tree
          simp only [h1, h2, Bool.false_eq_true, if_false, hp, hr]
        | some ts =>
          obtain ⟨t, st⟩ := ts
          rw [C08_convert_eq_after pc src h1 h2 hp hr]
          unfold convertBig
          simp only [h1, h2, Bool.false_eq_true, if_false, hp, runBig_of_run hr]

/-- a text that makes `UnescapeTreeprocessor.unescape` raise: it contains `STX digits ETX` (digits of any script)
    whose number `chr()` rejects -/
def BadToken (s : Str) : Prop :=
  ∃ pre d post, s = pre ++ TreeProc.STX :: (d ++ TreeProc.ETX :: post) ∧ d ≠ [] ∧ (∀ c ∈ d, isDecimal c = true) ∧
    0x110000 ≤ decToNat d

/-- `UnescapeTreeprocessor` raises iff one of the strings it is applied to holds a bad token -/
theorem unescapeTree_none_iff (n : Node) :
    TreeProc.unescapeTree n = none ↔ ∃ s ∈ TreeProc.unescInputs n, BadToken s := by
  have h := TreeProc.C02_unescapeTree_total_iff n
  constructor
  · intro hn
    apply Classical.byContradiction
    intro hne
    have : (TreeProc.unescapeTree n).isSome = true := by
      rw [h]
      intro s hs
      cases hu : TreeProc.unescapeText 0 s with
      | some r => rfl
      | none => exact absurd ⟨s, hs, (TreeProc.C02_unescape_raises_iff s).1 hu⟩ hne
    rw [hn] at this; cases this
  · rintro ⟨s, hs, hb⟩
    cases hu : TreeProc.unescapeTree n with
    | none => rfl
    | some u =>
      have h1 : (TreeProc.unescapeTree n).isSome = true := by rw [hu]; rfl
      have h2 := (h.1 h1) s hs
      rw [(TreeProc.C02_unescape_raises_iff s).2 hb] at h2; cases h2

/-- **the `err` answer of `convertBig` on a `<`-free source, exactly**: the source is not blank and a text, tail or
    attribute value of the prettified tree of the inline stage holds a bad token -/
theorem convertBig_err_iff (pc : Pipeline.Cfg) (src : Str) (h1 : src.contains '<' = false) :
    convertBig pc src = .err ↔
      Normalize.isBlankDoc src = false ∧
      ∃ rt refs t st, parseDocument pc.tab (Pipeline.prepare pc src) = some (rt, refs) ∧
        runBig { esc := pc.esc, refs := refs.reverse } rt = some (t, st) ∧
        ∃ s ∈ TreeProc.unescInputs (TreeProc.prettify t pc.blockLevel), BadToken s := by
  cases h2 : Normalize.isBlankDoc src with
  | true =>
    have : convertBig pc src = .ok [] := by unfold convertBig; simp only [h1, h2, Bool.false_eq_true, if_false, if_true]
    rw [this]
    constructor
    · intro h; cases h
    · rintro ⟨h, -⟩; cases h
  | false =>
    obtain ⟨rt, refs, t, st, hp, -, -, hr, hd, he, hc⟩ := convertBig_stages pc src h1 h2
    rw [hc]
    constructor
    · intro herr
      refine ⟨rfl, rt, refs, t, st, hp, hr, ?_⟩
      rcases after_cases pc hd he with ⟨hu, -⟩ | ⟨u, out, -, ho⟩
      · exact (unescapeTree_none_iff _).1 hu
      · rw [ho] at herr; cases herr
    · rintro ⟨-, rt', refs', t', st', hp', hr', hb⟩
      rw [hp] at hp'
      simp only [Option.some.injEq, Prod.mk.injEq] at hp'
      obtain ⟨e1, e2⟩ := hp'; subst e1; subst e2
      rw [hr] at hr'
      simp only [Option.some.injEq, Prod.mk.injEq] at hr'
      obtain ⟨e1, e2⟩ := hr'; subst e1; subst e2
      rcases after_cases pc hd he with ⟨-, ha⟩ | ⟨u, out, hu, -⟩
      · exact ha
      · rw [(unescapeTree_none_iff _).2 hb] at hu; cases hu

/-- `convertBig` answers `ok` or `err` on every `<`-free source -/
theorem convertBig_ok_or_err (pc : Pipeline.Cfg) (src : Str) (h1 : src.contains '<' = false) :
    (∃ out, convertBig pc src = .ok out) ∨ convertBig pc src = .err := by
  cases h2 : Normalize.isBlankDoc src with
  | true =>
    exact Or.inl ⟨[], by unfold convertBig; simp only [h1, h2, Bool.false_eq_true, if_false, if_true]⟩
  | false =>
    obtain ⟨rt, refs, t, st, -, -, -, -, hd, he, hc⟩ := convertBig_stages pc src h1 h2
    rw [hc]
    rcases after_cases pc hd he with ⟨-, ha⟩ | ⟨u, out, -, ho⟩
    · exact Or.inr ha
    · exact Or.inl ⟨out, ho⟩

end MdVerif.C02Big
