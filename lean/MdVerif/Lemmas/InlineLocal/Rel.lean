/-
C08, inline half — the renaming relation on element trees, stash entries and states.
-/
import MdVerif.Lemmas.InlineLocal.Recog

namespace MdVerif.InlineLocal
open Py Inline

/-- what the development needs to know about the plain characters `okD` of processed (non atomic) texts:
    no `[` (no links, images, references) and no `&` (no entities); digits, ETX are allowed (escape tokens) -/
structure OkD (okD : Char → Bool) : Prop where
  no_lb : okD '[' = false
  no_amp : okD '&' = false
  no_lt : okD '<' = false
  no_gt : okD '>' = false
  digit : ∀ c, isAsciiDigit c = true → okD c = true
  etx : okD ETX = true

def Rho.le (ρ ρ' : Rho) : Prop := ∀ i i', ρ i i' → ρ' i i'

theorem Rho.le_refl (ρ : Rho) : Rho.le ρ ρ := fun _ _ h => h
theorem Rho.le_trans {a b c : Rho} (h1 : Rho.le a b) (h2 : Rho.le b c) : Rho.le a c := fun _ _ h => h2 _ _ (h1 _ _ h)

def Rho.none : Rho := fun _ _ => False
def Rho.add (ρ : Rho) (a a' : Nat) : Rho := fun i i' => ρ i i' ∨ (i = a ∧ i' = a')

theorem Rho.le_add (ρ : Rho) (a a' : Nat) : Rho.le ρ (ρ.add a a') := fun _ _ h => Or.inl h

theorem Sh.mono_rho {ok : Char → Bool} {ρ ρ' : Rho} (h : Rho.le ρ ρ') {s s' : Str} (hs : Sh ok ρ s s') :
    Sh ok ρ' s s' := hs.mono (fun _ h => h) h

theorem Plain.sh {ok : Char → Bool} {s : Str} (h : Plain ok s) (ρ : Rho) : Sh ok ρ s s :=
  Sh.mono (fun _ h => h) (fun _ _ h => h.elim) h

/-- `ORel` of texts -/
def TRel (okD : Char → Bool) (ρ : Rho) (_atomic : Bool) : Option Str → Option Str → Prop :=
  ORel (Sh okD ρ)

theorem ORel.imp {α β : Type} {R S : α → β → Prop} (h : ∀ a b, R a b → S a b) {o : Option α} {o' : Option β}
    (hr : ORel R o o') : ORel S o o' := by
  match o, o', hr with
  | none, none, _ => trivial
  | some a, some b, hr => exact h a b hr

theorem TRel.mono {okD : Char → Bool} {ρ ρ' : Rho} (h : Rho.le ρ ρ') {a : Bool} {t t' : Option Str}
    (ht : TRel okD ρ a t t') : TRel okD ρ' a t t' :=
  ORel.imp (fun _ _ hs => Sh.mono_rho h hs) ht

mutual
def NRel (okD : Char → Bool) (ρ : Rho) : Node → Node → Prop
  | ⟨tag, attrs, text, ta, ch, tail, tla⟩, ⟨tag', attrs', text', ta', ch', tail', tla'⟩ =>
    tag = tag' ∧ attrs = attrs' ∧ ta = ta' ∧ tla = tla' ∧ TRel okD ρ ta text text' ∧ TRel okD ρ tla tail tail' ∧
      NRelL okD ρ ch ch'
def NRelL (okD : Char → Bool) (ρ : Rho) : List Node → List Node → Prop
  | [], [] => True
  | a :: r, a' :: r' => NRel okD ρ a a' ∧ NRelL okD ρ r r'
  | [], _ :: _ => False
  | _ :: _, [] => False
end

theorem NRel.iff {okD : Char → Bool} {ρ : Rho} {n n' : Node} :
    NRel okD ρ n n' ↔ n.tag = n'.tag ∧ n.attrs = n'.attrs ∧ n.textAtomic = n'.textAtomic ∧
      n.tailAtomic = n'.tailAtomic ∧ TRel okD ρ n.textAtomic n.text n'.text ∧ TRel okD ρ n.tailAtomic n.tail n'.tail ∧
      NRelL okD ρ n.children n'.children := by
  cases n; cases n'; simp only [NRel]

mutual
theorem NRel.mono {okD : Char → Bool} {ρ ρ' : Rho} (h : Rho.le ρ ρ') : ∀ {n n' : Node}, NRel okD ρ n n' → NRel okD ρ' n n'
  | ⟨_, _, _, _, ch, _, _⟩, ⟨_, _, _, _, ch', _, _⟩, hn => by
    simp only [NRel] at hn ⊢
    obtain ⟨h1, h2, h3, h4, h5, h6, h7⟩ := hn
    exact ⟨h1, h2, h3, h4, h5.mono h, h6.mono h, NRelL.mono h h7⟩
theorem NRelL.mono {okD : Char → Bool} {ρ ρ' : Rho} (h : Rho.le ρ ρ') : ∀ {l l' : List Node}, NRelL okD ρ l l' → NRelL okD ρ' l l'
  | [], [], _ => by simp only [NRelL]
  | a :: r, a' :: r', hl => by
    simp only [NRelL] at hl ⊢
    exact ⟨NRel.mono h hl.1, NRelL.mono h hl.2⟩
  | [], _ :: _, hl => by simp only [NRelL] at hl
  | _ :: _, [], hl => by simp only [NRelL] at hl
end

theorem NRelL.length_eq {okD : Char → Bool} {ρ : Rho} : ∀ {l l' : List Node}, NRelL okD ρ l l' → l.length = l'.length
  | [], [], _ => rfl
  | _ :: r, _ :: r', hl => by
    simp only [NRelL] at hl
    simp [NRelL.length_eq hl.2]
  | [], _ :: _, hl => by simp only [NRelL] at hl
  | _ :: _, [], hl => by simp only [NRelL] at hl

theorem NRelL.append {okD : Char → Bool} {ρ : Rho} : ∀ {a a' b b' : List Node}, NRelL okD ρ a a' → NRelL okD ρ b b' →
    NRelL okD ρ (a ++ b) (a' ++ b')
  | [], [], _, _, _, hb => hb
  | x :: r, x' :: r', _, _, ha, hb => by
    simp only [NRelL, List.cons_append] at ha ⊢
    exact ⟨ha.1, NRelL.append ha.2 hb⟩
  | [], _ :: _, _, _, ha, _ => by simp only [NRelL] at ha
  | _ :: _, [], _, _, ha, _ => by simp only [NRelL] at ha

/-! ### stash entries and states -/

def ItemRel (okD : Char → Bool) (ρ : Rho) : StashItem → StashItem → Prop
  | .str s, .str s' => s = s' ∧ Plain okD s
  | .node n, .node n' => NRel okD ρ n n'
  | _, _ => False

theorem ItemRel.mono {okD : Char → Bool} {ρ ρ' : Rho} (h : Rho.le ρ ρ') {a b : StashItem} (hr : ItemRel okD ρ a b) :
    ItemRel okD ρ' a b := by
  match a, b, hr with
  | .str _, .str _, hr => exact hr
  | .node _, .node _, hr => exact NRel.mono h hr

/-- every related pair of ids names related entries -/
def StRel (okD : Char → Bool) (ρ : Rho) (st st' : St) : Prop :=
  ∀ i i', ρ i i' → ∃ it it', st.stash[i]? = some it ∧ st'.stash[i']? = some it' ∧ ItemRel okD ρ it it'

/-- the stash only grows -/
def Ext (st st1 : St) : Prop := ∃ l, st1.stash = st.stash ++ l

theorem Ext.refl (st : St) : Ext st st := ⟨[], by simp⟩
theorem Ext.trans {a b c : St} (h1 : Ext a b) (h2 : Ext b c) : Ext a c := by
  obtain ⟨l1, e1⟩ := h1; obtain ⟨l2, e2⟩ := h2
  exact ⟨l1 ++ l2, by rw [e2, e1, List.append_assoc]⟩
theorem Ext.length_le {a b : St} (h : Ext a b) : a.stash.length ≤ b.stash.length := by
  obtain ⟨l, e⟩ := h; rw [e]; simp
theorem Ext.get {a b : St} (h : Ext a b) {i : Nat} {it : StashItem} (hi : a.stash[i]? = some it) :
    b.stash[i]? = some it := by
  obtain ⟨l, e⟩ := h
  have hlt : i < a.stash.length := by
    rcases Nat.lt_or_ge i a.stash.length with h | h
    · exact h
    · rw [List.getElem?_eq_none h] at hi; cases hi
  rw [e, List.getElem?_append_left hlt]; exact hi

theorem StRel.ext {okD : Char → Bool} {ρ : Rho} {st st' st1 st1' : St} (h : StRel okD ρ st st') (e : Ext st st1)
    (e' : Ext st' st1') : StRel okD ρ st1 st1' := by
  intro i i' hr
  obtain ⟨it, it', h1, h2, h3⟩ := h i i' hr
  exact ⟨it, it', e.get h1, e'.get h2, h3⟩

theorem StRel.none (okD : Char → Bool) (st st' : St) : StRel okD Rho.none st st' := fun _ _ h => h.elim

/-- a new pair of entries at the ends of the two stashes -/
theorem StRel.push {okD : Char → Bool} {ρ : Rho} {st st' : St} (h : StRel okD ρ st st') {it it' : StashItem}
    (hi : ItemRel okD ρ it it') :
    StRel okD (ρ.add st.stash.length st'.stash.length) { st with stash := st.stash ++ [it] }
      { st' with stash := st'.stash ++ [it'] } := by
  intro i i' hr
  rcases hr with hr | ⟨rfl, rfl⟩
  · obtain ⟨a, a', h1, h2, h3⟩ := h i i' hr
    refine ⟨a, a', ?_, ?_, h3.mono (Rho.le_add _ _ _)⟩
    · exact Ext.get (a := st) (b := { st with stash := st.stash ++ [it] }) ⟨[it], rfl⟩ h1
    · exact Ext.get (a := st') (b := { st' with stash := st'.stash ++ [it'] }) ⟨[it'], rfl⟩ h2
  · exact ⟨it, it', by simp, by simp, hi.mono (Rho.le_add _ _ _)⟩

/-! ### characters of related texts -/

theorem Sh.ok_of_mem {ok : Char → Bool} {ρ : Rho} {s s' : Str} (h : Sh ok ρ s s') {x : Char} (hx : x ∈ s)
    (h1 : innerL x = false) (h2 : innerR x = false) : ok x = true := by
  induction h with
  | nil => cases hx
  | chr hc _ _ ih =>
    rcases List.mem_cons.1 hx with rfl | hx
    · exact hc
    · exact ih hx
  | tok hd _ ih =>
    rcases List.mem_cons.1 hx with rfl | hx
    · exact absurd h1 (by decide)
    · rcases List.mem_cons.1 hx with rfl | hx
      · rw [innerL_of_digit hd] at h1; cases h1
      · exact ih hx
  | ph _ hi _ _ ih =>
    rcases List.mem_append.1 hx with hx | hx
    · exfalso
      obtain ⟨a, b, c, d, hp, -, ha, hb, hc, hd⟩ := placeholder_four hi
      rw [hp] at hx
      simp only [List.mem_cons, List.not_mem_nil, or_false] at hx
      rcases hx with rfl | rfl | rfl | rfl | rfl | rfl | rfl | rfl | rfl | rfl | rfl | rfl | rfl | rfl
      all_goals first
        | exact absurd h1 (by decide)
        | exact absurd h2 (by decide)
        | (rw [innerL_of_digit (by assumption)] at h1; cases h1)
    · exact ih hx

theorem Sh.no_lb {okD : Char → Bool} (H : OkD okD) {ρ : Rho} {s s' : Str} (h : Sh okD ρ s s') : '[' ∉ s := by
  intro hx
  have := h.ok_of_mem hx (by decide) (by decide)
  rw [H.no_lb] at this; cases this

/-- a character that is neither a digit nor allowed does not occur in either text -/
theorem Sh.not_mem {okD : Char → Bool} {ρ : Rho} {s s' : Str} (h : Sh okD ρ s s') {x : Char} (hx : okD x = false)
    (h1 : innerL x = false) (h2 : innerR x = false) (hd : isAsciiDigit x = false) : x ∉ s ∧ x ∉ s' := by
  have : x ∉ s := by
    intro hm
    have := h.ok_of_mem hm h1 h2
    rw [hx] at this; cases this
  exact ⟨this, fun hm => this ((h.pw.mem_of_not_digit hd).2 hm)⟩

theorem Sh.no_amp {okD : Char → Bool} (H : OkD okD) {ρ : Rho} {s s' : Str} (h : Sh okD ρ s s') : '&' ∉ s := by
  intro hx
  have := h.ok_of_mem hx (by decide) (by decide)
  rw [H.no_amp] at this; cases this

end MdVerif.InlineLocal
