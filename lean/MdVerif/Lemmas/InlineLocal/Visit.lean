/-
C08, inline half — one visit of a child (`visitChild`) and the child loop (`visitLoop`) on related trees in related
states; the instance of `VisitSim` for the stack machinery (`Run.lean`).
-/
import MdVerif.Lemmas.InlineLocal.PP
import MdVerif.Lemmas.InlineLocal.Run

namespace MdVerif.InlineLocal
open Py Inline

/-! ### `visitChild` in two stages -/

/-- the text of the child -/
def vcText (cfg : Cfg) (child : Node) (st : St) : Option (Node × List Node × St) :=
  if Node.truthy child.text && !child.textAtomic then
    match handleInlineTop cfg (child.text.getD []) st with
    | none => none
    | some (data, st1) =>
      match ppTop st1 data false { child with text := none, textAtomic := false } true with
      | none => none
      | some (lst, c1) => some (c1, lst, st1)
  else some (child, [], st)

/-- the tail of the child -/
def vcTail (cfg : Cfg) (c1 : Node) (st1 : St) : Option (Node × List Node × St) :=
  if Node.truthy c1.tail then
    let tl := c1.tail.getD []
    let h : Option (Str × St) := if c1.tailAtomic then some (tl, st1) else handleInlineTop cfg tl st1
    match h with
    | none => none
    | some (data, st2) =>
      match ppTop st2 data c1.tailAtomic (mkEl "d") false with
      | none => none
      | some (tr, dumby) =>
        let c2 : Node :=
          if Node.truthy dumby.tail then { c1 with tail := dumby.tail, tailAtomic := dumby.tailAtomic }
          else { c1 with tail := none, tailAtomic := false }
        some (c2, tr, st2)
  else some (c1, [], st1)

def vcPushes (i : Nat) (n : Nat) (noKids : Bool) (old : List Path) : List Path :=
  let pushes := ((List.range n).map (fun k => [i, k])).reverse ++ old
  if noKids then pushes else [i] :: pushes

theorem visitChild_eq (cfg : Cfg) (child : Node) (v : Visit) :
    visitChild cfg child v =
      match vcText cfg child v.st with
      | none => none
      | some (c1, lst, st1) =>
        match vcTail cfg c1 st1 with
        | none => none
        | some (c2, tr, st2) =>
          some ({ c2 with children := lst ++ c2.children }, tr,
            { v with pushes := vcPushes v.done.length lst.length child.children.isEmpty v.pushes, st := st2 }) := by
  unfold visitChild vcText vcTail vcPushes
  rfl

section
variable {okD : Char → Bool}

theorem vcText_ext {cfg : Cfg} {child c1 : Node} {lst : List Node} {st st1 : St}
    (h : vcText cfg child st = some (c1, lst, st1)) : Ext st st1 := by
  unfold vcText at h
  split at h
  · split at h
    · cases h
    · rename_i data s1 q
      split at h
      · cases h
      · cases h; exact handleInlineTop_ext q
  · cases h; exact Ext.refl _

theorem vcTail_ext {cfg : Cfg} {c1 c2 : Node} {tr : List Node} {st1 st2 : St}
    (h : vcTail cfg c1 st1 = some (c2, tr, st2)) : Ext st1 st2 := by
  unfold vcTail at h
  split at h
  · simp only [] at h
    split at h
    · cases h
    · rename_i data s2 q
      split at h
      · cases h
      · cases h
        split at q
        · cases q; exact Ext.refl _
        · exact handleInlineTop_ext q
  · cases h; exact Ext.refl _

theorem vcText_sim (H : OkD okD) (cfg : Cfg) (hesc : cfg.esc.contains STX = false) (EM : EmSim okD) {ρ : Rho}
    {child child' c1 c1' : Node} {lst lst' : List Node} {st st' st1 st1' : St}
    (hc : NRel okD ρ child child') (hst : StRel okD ρ st st')
    (h : vcText cfg child st = some (c1, lst, st1)) (h' : vcText cfg child' st' = some (c1', lst', st1'))
    (hb : st1.stash.length ≤ 10000) (hb' : st1'.stash.length ≤ 10000) :
    ∃ ρ1, Rho.le ρ ρ1 ∧ NRel okD ρ1 c1 c1' ∧ NRelL okD ρ1 lst lst' ∧ StRel okD ρ1 st1 st1' ∧ st1.html = st.html ∧
      st1'.html = st'.html := by
  obtain ⟨g1, g2, g3, g4, g5, g6, g7⟩ := NRel.iff.1 hc
  unfold vcText at h h'
  rw [← truthy_of_sh g5, ← g3] at h'
  split at h
  · rename_i hcond
    rw [if_pos hcond] at h'
    split at h
    · cases h
    · rename_i data s1 q
      split at h
      · cases h
      · rename_i l c q2
        split at h'
        · cases h'
        · rename_i data' s1' q'
          split at h'
          · cases h'
          · rename_i l' c' q2'
            cases h; cases h'
            obtain ⟨ρ1, l1, hsh, hsr, hh, hh'⟩ := handleInlineTop_sim H cfg hesc EM (getD_rel g5) hst q q' hb hb'
            have hpar : NRel okD ρ1 { child with text := none, textAtomic := false }
                { child' with text := none, textAtomic := false } :=
              NRel.iff.2 ⟨g1, g2, rfl, g4, trivial, g6.mono l1, NRelL.mono l1 g7⟩
            have := ppTop_sim hsr hsh hpar false true q2 q2'
            exact ⟨ρ1, l1, this.2, this.1, hsr, hh, hh'⟩
  · rename_i hcond
    rw [if_neg hcond] at h'
    cases h; cases h'
    exact ⟨ρ, Rho.le_refl _, hc, by simp only [NRelL], hst, rfl, rfl⟩

theorem vcTail_sim (H : OkD okD) (cfg : Cfg) (hesc : cfg.esc.contains STX = false) (EM : EmSim okD) {ρ : Rho}
    {c1 c1' c2 c2' : Node} {tr tr' : List Node} {st1 st1' st2 st2' : St}
    (hc : NRel okD ρ c1 c1') (hst : StRel okD ρ st1 st1')
    (h : vcTail cfg c1 st1 = some (c2, tr, st2)) (h' : vcTail cfg c1' st1' = some (c2', tr', st2'))
    (hb : st2.stash.length ≤ 10000) (hb' : st2'.stash.length ≤ 10000) :
    ∃ ρ1, Rho.le ρ ρ1 ∧ NRel okD ρ1 c2 c2' ∧ NRelL okD ρ1 tr tr' ∧ StRel okD ρ1 st2 st2' ∧ st2.html = st1.html ∧
      st2'.html = st1'.html := by
  obtain ⟨g1, g2, g3, g4, g5, g6, g7⟩ := NRel.iff.1 hc
  unfold vcTail at h h'
  rw [← truthy_of_sh g6, ← g4] at h'
  split at h
  · rename_i hcond
    rw [if_pos hcond] at h'
    simp only [] at h h'
    split at h
    · cases h
    · rename_i data s2 q
      split at h
      · cases h
      · rename_i t dm q2
        split at h'
        · cases h'
        · rename_i data' s2' q'
          split at h'
          · cases h'
          · rename_i t' dm' q2'
            cases h; cases h'
            -- the handled tail
            have hstep : ∃ ρ1, Rho.le ρ ρ1 ∧ Sh okD ρ1 data data' ∧ StRel okD ρ1 st2 st2' ∧ st2.html = st1.html ∧
                st2'.html = st1'.html := by
              split at q
              · rename_i ha
                rw [if_pos ha] at q'
                cases q; cases q'
                exact ⟨ρ, Rho.le_refl _, getD_rel g6, hst, rfl, rfl⟩
              · rename_i ha
                rw [if_neg ha] at q'
                exact handleInlineTop_sim H cfg hesc EM (getD_rel g6) hst q q' hb hb'
            obtain ⟨ρ1, l1, hsh, hsr, hh, hh'⟩ := hstep
            have := ppTop_sim hsr hsh (NRel.mkEl (okD := okD) (ρ := ρ1) "d") c1.tailAtomic false q2 q2'
            obtain ⟨y1, y2, y3, y4, y5, y6, y7⟩ := NRel.iff.1 this.2
            refine ⟨ρ1, l1, ?_, this.1, hsr, hh, hh'⟩
            rw [← truthy_of_sh y6]
            split
            · exact NRel.iff.2 ⟨g1, g2, g3, y4, g5.mono l1, y6, NRelL.mono l1 g7⟩
            · exact NRel.iff.2 ⟨g1, g2, g3, rfl, g5.mono l1, trivial, NRelL.mono l1 g7⟩
  · rename_i hcond
    rw [if_neg hcond] at h'
    cases h; cases h'
    exact ⟨ρ, Rho.le_refl _, hc, by simp only [NRelL], hst, rfl, rfl⟩

end

/-! ### `visitChild`, `visitLoop` -/

structure VRel (okD : Char → Bool) (ρ : Rho) (v v' : Visit) : Prop where
  done : NRelL okD ρ v.done v'.done
  posmap : v.posmap = v'.posmap
  pushes : v.pushes = v'.pushes
  st : StRel okD ρ v.st v'.st

theorem visitChild_ext {cfg : Cfg} {child c : Node} {tr : List Node} {v v1 : Visit}
    (h : visitChild cfg child v = some (c, tr, v1)) : Ext v.st v1.st := by
  rw [visitChild_eq] at h
  split at h
  · cases h
  · rename_i c1 lst st1 q1
    split at h
    · cases h
    · rename_i c2 tr2 st2 q2
      cases h
      exact (vcText_ext q1).trans (vcTail_ext q2)

theorem visitLoop_ext {cfg : Cfg} : ∀ (g : Nat) {todo : List (Node × Option Nat)} {v w : Visit},
    visitLoop cfg g todo v = some w → Ext v.st w.st := by
  intro g
  induction g with
  | zero => intro todo v w h; simp [visitLoop] at h
  | succ g ih =>
    intro todo v w h
    cases todo with
    | nil => simp only [visitLoop] at h; cases h; exact Ext.refl _
    | cons x todo =>
      obtain ⟨child, orig⟩ := x
      simp only [visitLoop] at h
      split at h
      · cases h
      · rename_i c tr v1 q
        have := ih h
        exact (visitChild_ext q).trans this

section
variable {okD : Char → Bool}

theorem visitChild_sim (H : OkD okD) (cfg : Cfg) (hesc : cfg.esc.contains STX = false) (EM : EmSim okD) {ρ : Rho}
    {child child' c c' : Node} {tr tr' : List Node} {v v' v1 v1' : Visit}
    (hc : NRel okD ρ child child') (hv : VRel okD ρ v v')
    (h : visitChild cfg child v = some (c, tr, v1)) (h' : visitChild cfg child' v' = some (c', tr', v1'))
    (hb : v1.st.stash.length ≤ 10000) (hb' : v1'.st.stash.length ≤ 10000) :
    ∃ ρ1, Rho.le ρ ρ1 ∧ NRel okD ρ1 c c' ∧ NRelL okD ρ1 tr tr' ∧
      VRel okD ρ1 { v1 with done := v.done } { v1' with done := v'.done } ∧
      v1.done = v.done ∧ v1'.done = v'.done ∧ v1.st.html = v.st.html ∧ v1'.st.html = v'.st.html := by
  rw [visitChild_eq] at h h'
  split at h
  · cases h
  · rename_i c1 lst st1 q1
    split at h
    · cases h
    · rename_i c2 tr2 st2 q2
      split at h'
      · cases h'
      · rename_i c1' lst' st1' q1'
        split at h'
        · cases h'
        · rename_i c2' tr2' st2' q2'
          cases h; cases h'
          simp only [] at hb hb'
          have b1 := (vcTail_ext q2).length_le
          have b1' := (vcTail_ext q2').length_le
          obtain ⟨ρ1, l1, r1, rl, sr1, hh1, hh1'⟩ := vcText_sim H cfg hesc EM hc hv.st q1 q1' (by omega) (by omega)
          obtain ⟨ρ2, l2, r2, rt, sr2, hh2, hh2'⟩ := vcTail_sim H cfg hesc EM r1 sr1 q2 q2' hb hb'
          obtain ⟨y1, y2, y3, y4, y5, y6, y7⟩ := NRel.iff.1 r2
          obtain ⟨z1, z2, z3, z4, z5, z6, z7⟩ := NRel.iff.1 hc
          refine ⟨ρ2, Rho.le_trans l1 l2, ?_, rt, ⟨?_, hv.posmap, ?_, sr2⟩, rfl, rfl, by simp only [hh2, hh1],
            by simp only [hh2', hh1']⟩
          · exact NRel.iff.2 ⟨y1, y2, y3, y4, y5, y6, NRelL.append (NRelL.mono l2 rl) y7⟩
          · exact NRelL.mono (Rho.le_trans l1 l2) hv.done
          · have hie : child.children.isEmpty = child'.children.isEmpty := by
              have := z7.length_eq
              cases hc1 : child.children <;> cases hc2 : child'.children <;> simp_all
            simp only [hv.done.length_eq, rl.length_eq, hie, hv.pushes]

theorem map_fst_pair (l : List Node) : (l.map (fun n => ((n, none) : Node × Option Nat))).map (·.1) = l := by
  induction l with
  | nil => rfl
  | cons a r ih => simp only [List.map_cons, ih]

theorem map_snd_pair (l : List Node) :
    (l.map (fun n => ((n, none) : Node × Option Nat))).map (·.2) = List.replicate l.length none := by
  induction l with
  | nil => rfl
  | cons a r ih => simp only [List.map_cons, ih, List.length_cons, List.replicate_succ]

/-- the worklists: related children, the same original indices -/
def TDRel (okD : Char → Bool) (ρ : Rho) (todo todo' : List (Node × Option Nat)) : Prop :=
  NRelL okD ρ (todo.map (·.1)) (todo'.map (·.1)) ∧ todo.map (·.2) = todo'.map (·.2)

theorem visitLoop_sim (H : OkD okD) (cfg : Cfg) (hesc : cfg.esc.contains STX = false) (EM : EmSim okD) :
    ∀ (g g' : Nat) (ρ : Rho) (todo todo' : List (Node × Option Nat)) (v v' w w' : Visit),
    TDRel okD ρ todo todo' → VRel okD ρ v v' →
    visitLoop cfg g todo v = some w → visitLoop cfg g' todo' v' = some w' →
    w.st.stash.length ≤ 10000 → w'.st.stash.length ≤ 10000 →
    ∃ ρ1, Rho.le ρ ρ1 ∧ VRel okD ρ1 w w' ∧ w.st.html = v.st.html ∧ w'.st.html = v'.st.html := by
  intro g
  induction g with
  | zero => intro g' ρ todo todo' v v' w w' _ _ h; simp [visitLoop] at h
  | succ g ih =>
    intro g' ρ todo todo' v v' w w' htd hv h h' hb hb'
    cases g' with
    | zero => simp [visitLoop] at h'
    | succ g' =>
      match todo, todo', htd with
      | [], [], _ =>
        simp only [visitLoop] at h h'
        cases h; cases h'
        exact ⟨ρ, Rho.le_refl _, hv, rfl, rfl⟩
      | (child, orig) :: todo, (child', orig') :: todo', htd =>
        obtain ⟨htn, hto⟩ := htd
        simp only [List.map_cons, NRelL] at htn
        simp only [List.map_cons, List.cons.injEq] at hto
        obtain ⟨rfl, hto⟩ := hto
        simp only [visitLoop] at h h'
        split at h
        · cases h
        · rename_i c tr v1 q
          split at h'
          · cases h'
          · rename_i c' tr' v1' q'
            have b1 := (visitLoop_ext g h).length_le
            have b1' := (visitLoop_ext g' h').length_le
            simp only [] at b1 b1'
            obtain ⟨ρ1, l1, rc, rtr, hv1, d1, d1', hh1, hh1'⟩ := visitChild_sim H cfg hesc EM htn.1 hv q q' (by omega) (by omega)
            have hv2 : VRel okD ρ1
                { v1 with done := c :: v1.done, posmap := match (generalizing := false) orig with
                                                          | some o => (o, v.done.length) :: v1.posmap
                                                          | none => v1.posmap }
                { v1' with done := c' :: v1'.done, posmap := match (generalizing := false) orig with
                                                             | some o => (o, v'.done.length) :: v1'.posmap
                                                             | none => v1'.posmap } := by
              refine ⟨?_, ?_, hv1.pushes, hv1.st⟩
              · simp only [NRelL, d1, d1']
                exact ⟨rc, hv1.done⟩
              · have := hv1.posmap
                simp only [] at this
                simp only [this, hv.done.length_eq]
            have htd2 : TDRel okD ρ1 (tr.map (fun n => (n, none)) ++ todo) (tr'.map (fun n => (n, none)) ++ todo') := by
              constructor
              · rw [List.map_append, List.map_append, map_fst_pair, map_fst_pair]
                exact NRelL.append rtr (NRelL.mono l1 htn.2)
              · rw [List.map_append, List.map_append, map_snd_pair, map_snd_pair, rtr.length_eq, hto]
            obtain ⟨ρ2, l2, hw, hh2, hh2'⟩ := ih g' ρ1 _ _ _ _ w w' htd2 hv2 h h' hb hb'
            exact ⟨ρ2, Rho.le_trans l1 l2, hw, by rw [hh2]; exact hh1, by rw [hh2']; exact hh1'⟩
      | [], _ :: _, htd => simp only [TDRel, List.map_nil, List.map_cons, NRelL, false_and] at htd
      | _ :: _, [], htd => simp only [TDRel, List.map_nil, List.map_cons, NRelL, false_and] at htd

end

end MdVerif.InlineLocal
