/-
C08, inline half — the pointwise shadow of `Sh`: related texts have the same length and differ only in that an ASCII
digit may stand against another ASCII digit.  No recogniser of the inline patterns tells two digits apart, so all of
them return the same positions on related texts.
-/
import MdVerif.Lemmas.InlineLocal.Sh

namespace MdVerif.InlineLocal
open Py Inline

def cr (c c' : Char) : Prop := c = c' ∨ (isAsciiDigit c = true ∧ isAsciiDigit c' = true)

inductive PW : Str → Str → Prop
  | nil : PW [] []
  | cons {c c' : Char} {s s' : Str} : cr c c' → PW s s' → PW (c :: s) (c' :: s')

theorem cr_refl (c : Char) : cr c c := Or.inl rfl

/-- predicates that do not tell digits apart -/
def Resp (p : Char → Bool) : Prop := ∀ c c', cr c c' → p c = p c'

theorem digit_toNat {c : Char} : isAsciiDigit c = true ↔ 48 ≤ c.toNat ∧ c.toNat ≤ 57 := by
  simp only [isAsciiDigit, Bool.and_eq_true, decide_eq_true_eq, Char.le_def]
  have e0 : ('0' : Char).toNat = 48 := by decide
  have e9 : ('9' : Char).toNat = 57 := by decide
  constructor
  · rintro ⟨h1, h2⟩
    have h1' : ('0' : Char).toNat ≤ c.toNat := h1
    have h2' : c.toNat ≤ ('9' : Char).toNat := h2
    omega
  · rintro ⟨h1, h2⟩
    exact ⟨show ('0' : Char).toNat ≤ c.toNat by omega, show c.toNat ≤ ('9' : Char).toNat by omega⟩

theorem resp_of_digits {p : Char → Bool} (h : ∀ c c', isAsciiDigit c = true → isAsciiDigit c' = true → p c = p c') :
    Resp p := by
  intro c c' hc
  rcases hc with h0 | ⟨h1, h2⟩
  · rw [h0]
  · exact h _ _ h1 h2

theorem ne_of_digit_of_not_digit {c x : Char} (hc : isAsciiDigit c = true) (hx : isAsciiDigit x = false) : c ≠ x := by
  intro h; subst h; rw [hc] at hx; cases hx

theorem resp_eq {x : Char} (hx : isAsciiDigit x = false) : Resp (fun c => decide (c = x)) :=
  resp_of_digits (fun c c' hc hc' => by
    simp [ne_of_digit_of_not_digit hc hx, ne_of_digit_of_not_digit hc' hx])

theorem resp_ne {x : Char} (hx : isAsciiDigit x = false) : Resp (fun c => c != x) :=
  resp_of_digits (fun c c' hc hc' => by
    show (c != x) = (c' != x)
    rw [bne_iff_ne.2 (ne_of_digit_of_not_digit hc hx), bne_iff_ne.2 (ne_of_digit_of_not_digit hc' hx)])

theorem isSpace_digit {c : Char} (hc : isAsciiDigit c = true) : isSpace c = false := by
  have h := digit_toNat.1 hc
  have h128 : c.toNat < 128 := by omega
  cases hs : isSpace c with
  | false => rfl
  | true =>
    exfalso
    rcases (isSpace_ascii_iff h128).1 hs with h | h | h | h | h | h | h
    · subst h; revert hc; decide
    · subst h; revert hc; decide
    · subst h; revert hc; decide
    · subst h; revert hc; decide
    · omega
    · omega
    · omega

theorem isWord_digit {c : Char} (hc : isAsciiDigit c = true) : isWord c = true := by
  have h := digit_toNat.1 hc
  exact isWord_of_isAsciiAlnum (by omega) (by simp [isAsciiAlnum, hc])

theorem resp_isSpace : Resp isSpace := resp_of_digits (fun _ _ h h' => by rw [isSpace_digit h, isSpace_digit h'])
theorem resp_isWord : Resp isWord := resp_of_digits (fun _ _ h h' => by rw [isWord_digit h, isWord_digit h'])
theorem resp_isAsciiDigit : Resp isAsciiDigit := resp_of_digits (fun _ _ h h' => by rw [h, h'])

theorem cr_eq_iff {c c' x : Char} (h : cr c c') (hx : isAsciiDigit x = false) : c = x ↔ c' = x := by
  have := resp_eq hx c c' h
  simpa using this

theorem cr_eq_left {c c' : Char} (h : cr c c') (hc : isAsciiDigit c = false) : c' = c := by
  rcases h with rfl | ⟨h1, _⟩
  · rfl
  · rw [h1] at hc; cases hc

namespace PW

theorem refl (s : Str) : PW s s := by
  induction s with
  | nil => exact PW.nil
  | cons c s ih => exact PW.cons (cr_refl c) ih

theorem length_eq {s s' : Str} (h : PW s s') : s.length = s'.length := by
  induction h with
  | nil => rfl
  | cons _ _ ih => simp [ih]

theorem take {s s' : Str} (h : PW s s') (n : Nat) : PW (s.take n) (s'.take n) := by
  induction h generalizing n with
  | nil => rw [List.take_nil]; exact PW.nil
  | cons hc _ ih =>
    cases n with
    | zero => exact PW.nil
    | succ n => exact PW.cons hc (ih n)

theorem drop {s s' : Str} (h : PW s s') (n : Nat) : PW (s.drop n) (s'.drop n) := by
  induction h generalizing n with
  | nil => rw [List.drop_nil]; exact PW.nil
  | cons hc hr ih =>
    cases n with
    | zero => exact PW.cons hc hr
    | succ n => exact ih n

theorem append {a a' b b' : Str} (h1 : PW a a') (h2 : PW b b') : PW (a ++ b) (a' ++ b') := by
  induction h1 with
  | nil => exact h2
  | cons hc _ ih => exact PW.cons hc ih

theorem get {s s' : Str} (h : PW s s') (k : Nat) :
    (s[k]? = none ∧ s'[k]? = none) ∨ ∃ c c', s[k]? = some c ∧ s'[k]? = some c' ∧ cr c c' := by
  induction h generalizing k with
  | nil => left; simp
  | cons hc _ ih =>
    cases k with
    | zero => right; exact ⟨_, _, rfl, rfl, hc⟩
    | succ k => simpa using ih k

/-- looking for a character that is not a digit -/
theorem get_eq {s s' : Str} (h : PW s s') (k : Nat) {x : Char} (hx : isAsciiDigit x = false) :
    s[k]? = some x ↔ s'[k]? = some x := by
  rcases h.get k with ⟨h1, h2⟩ | ⟨c, c', h1, h2, hc⟩
  · simp [h1, h2]
  · simp [h1, h2, cr_eq_iff hc hx]

theorem get_beq {s s' : Str} (h : PW s s') (k : Nat) {x : Char} (hx : isAsciiDigit x = false) :
    (s[k]? == some x) = (s'[k]? == some x) := by
  have := h.get_eq k hx
  by_cases h1 : s[k]? = some x
  · simp [h1, this.1 h1]
  · have h2 : ¬ s'[k]? = some x := fun h' => h1 (this.2 h')
    rw [beq_eq_false_iff_ne.2 h1, beq_eq_false_iff_ne.2 h2]

theorem head {s s' : Str} (h : PW s s') {x : Char} (hx : isAsciiDigit x = false) :
    (s.head? == some x) = (s'.head? == some x) := by
  cases h with
  | nil => rfl
  | @cons c c' _ _ hc _ =>
    simp only [List.head?_cons]
    by_cases h1 : c = x
    · simp [h1, (cr_eq_iff hc hx).1 h1]
    · have : ¬ c' = x := fun h' => h1 ((cr_eq_iff hc hx).2 h')
      have e1 : ¬ some c = some x := fun h => h1 (Option.some.inj h)
      have e2 : ¬ some c' = some x := fun h => this (Option.some.inj h)
      rw [beq_eq_false_iff_ne.2 e1, beq_eq_false_iff_ne.2 e2]

theorem spanLen {p : Char → Bool} (hp : Resp p) {s s' : Str} (h : PW s s') : spanLen p s = spanLen p s' := by
  induction h with
  | nil => rfl
  | cons hc _ ih => simp only [spanLen_cons, hp _ _ hc, ih]

theorem countPrefix {x : Char} (hx : isAsciiDigit x = false) (lim : Option Nat) {s s' : Str} (h : PW s s') :
    countPrefix x lim s = countPrefix x lim s' := by
  have hr : Resp (fun c => decide (c = x)) := resp_eq hx
  cases lim with
  | none => rw [countPrefix_none, countPrefix_none]; exact PW.spanLen hr h
  | some n => rw [countPrefix_some, countPrefix_some, PW.spanLen hr h]

theorem all {p : Char → Bool} (hp : Resp p) {s s' : Str} (h : PW s s') : s.all p = s'.all p := by
  induction h with
  | nil => rfl
  | cons hc _ ih => simp only [List.all_cons, hp _ _ hc, ih]

theorem startsWith {pat : Str} (hpat : ∀ c ∈ pat, isAsciiDigit c = false) {s s' : Str} (h : PW s s') :
    startsWith s pat = startsWith s' pat := by
  induction pat generalizing s s' with
  | nil => simp
  | cons x pat ih =>
    cases h with
    | nil => rfl
    | @cons c c' _ _ hc hr =>
      simp only [startsWith_cons_cons]
      rw [ih (fun c hc => hpat c (List.mem_cons_of_mem _ hc)) hr]
      have := cr_eq_iff hc (hpat x (List.mem_cons_self ..))
      by_cases h1 : c = x
      · simp [h1, this.1 h1]
      · have h2 : ¬ c' = x := fun h' => h1 (this.2 h')
        simp [h1, h2]

theorem find {pat : Str} (hpat : ∀ c ∈ pat, isAsciiDigit c = false) {s s' : Str} (h : PW s s') :
    find pat s = find pat s' := by
  induction h with
  | nil => rfl
  | cons hc hr ih =>
    rw [find_cons, find_cons, PW.startsWith hpat (PW.cons hc hr), ih]

/-- a part without digits is the same on both sides -/
theorem eq_of_no_digit {s s' : Str} (h : PW s s') (hs : ∀ c ∈ s, isAsciiDigit c = false) : s' = s := by
  induction h with
  | nil => rfl
  | cons hc _ ih =>
    rw [cr_eq_left hc (hs _ (List.mem_cons_self ..)), ih (fun c h => hs c (List.mem_cons_of_mem _ h))]

theorem mem_of_not_digit {s s' : Str} (h : PW s s') {x : Char} (hx : isAsciiDigit x = false) : x ∈ s ↔ x ∈ s' := by
  induction h with
  | nil => simp
  | cons hc _ ih =>
    simp only [List.mem_cons, ih]
    constructor
    · rintro (h | h)
      · left; exact ((cr_eq_iff hc hx).1 h.symm).symm
      · right; exact h
    · rintro (h | h)
      · left; exact ((cr_eq_iff hc hx).2 h.symm).symm
      · right; exact h

end PW

theorem Sh.pw {ok : Char → Bool} {ρ : Rho} {s s' : Str} (h : Sh ok ρ s s') : PW s s' := by
  induction h with
  | nil => exact PW.nil
  | chr _ _ _ ih => exact PW.cons (cr_refl _) ih
  | tok _ _ ih => exact PW.cons (cr_refl _) (PW.cons (cr_refl _) ih)
  | ph _ hi hi' _ ih =>
    obtain ⟨a, b, c, d, hp, -, ha, hb, hc, hd⟩ := placeholder_four hi
    obtain ⟨a', b', c', d', hp', -, ha', hb', hc', hd'⟩ := placeholder_four hi'
    rw [hp, hp']
    refine PW.append (a := [_, _, _, _, _, _, _, _, _, _, _, _, _, _]) (a' := [_, _, _, _, _, _, _, _, _, _, _, _, _, _]) ?_ ih
    refine PW.cons (cr_refl _) (PW.cons (cr_refl _) (PW.cons (cr_refl _) (PW.cons (cr_refl _) (PW.cons (cr_refl _)
      (PW.cons (cr_refl _) (PW.cons (cr_refl _) (PW.cons (cr_refl _) (PW.cons (cr_refl _) (PW.cons (Or.inr ⟨ha, ha'⟩)
      (PW.cons (Or.inr ⟨hb, hb'⟩) (PW.cons (Or.inr ⟨hc, hc'⟩) (PW.cons (Or.inr ⟨hd, hd'⟩) (PW.cons (cr_refl _) PW.nil)))))))))))))

end MdVerif.InlineLocal
