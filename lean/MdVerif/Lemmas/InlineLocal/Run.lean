/-
Structural part of C08 (inline half): the stack-of-paths machinery of `Inline.runLoop` treats the two halves of a root
`div[cs1 ++ cs2]` independently, given an abstract simulation hypothesis (`VisitSim`) about one `visitLoop`.
Core Lean only.
-/
import MdVerif.Model.Inline

namespace MdVerif.InlineLocal
open MdVerif.Inline

/-! ### basics -/

def mk (hdr : Node) (ks : List Node) : Node := { hdr with children := ks }

@[simp] theorem mk_children (hdr : Node) (ks : List Node) : (mk hdr ks).children = ks := rfl
@[simp] theorem mk_mk (hdr : Node) (a b : List Node) : mk (mk hdr a) b = mk hdr b := rfl
theorem with_mk (hdr : Node) (a b : List Node) : { mk hdr a with children := b } = mk hdr b := rfl
theorem mk_self (n : Node) : mk n n.children = n := by cases n; rfl
theorem with_eq_mk (n : Node) (b : List Node) : { n with children := b } = mk n b := rfl

/-- pointwise relation of two lists (core Lean has no `List.Forall₂`) -/
inductive All₂ {α β : Type} (R : α → β → Prop) : List α → List β → Prop
  | nil : All₂ R [] []
  | cons {a b l l'} : R a b → All₂ R l l' → All₂ R (a :: l) (b :: l')

namespace All₂
variable {α β : Type} {R : α → β → Prop}

theorem length_eq {l : List α} {l' : List β} (h : All₂ R l l') : l.length = l'.length := by
  induction h with
  | nil => rfl
  | cons _ _ ih => simp [ih]

theorem imp {S : α → β → Prop} (hRS : ∀ a b, R a b → S a b) {l : List α} {l' : List β}
    (h : All₂ R l l') : All₂ S l l' := by
  induction h with
  | nil => exact .nil
  | cons h _ ih => exact .cons (hRS _ _ h) ih

theorem append {l1 : List α} {l1' : List β} {l2 : List α} {l2' : List β}
    (h1 : All₂ R l1 l1') (h2 : All₂ R l2 l2') : All₂ R (l1 ++ l2) (l1' ++ l2') := by
  induction h1 with
  | nil => exact h2
  | cons h _ ih => exact .cons h ih

theorem reverse {l : List α} {l' : List β} (h : All₂ R l l') : All₂ R l.reverse l'.reverse := by
  induction h with
  | nil => exact .nil
  | cons h _ ih =>
    simp only [List.reverse_cons]
    exact ih.append (.cons h .nil)

theorem get_some {l : List α} {l' : List β} (h : All₂ R l l') {j : Nat} {a : α} (ha : l[j]? = some a) :
    ∃ b, l'[j]? = some b ∧ R a b := by
  induction h generalizing j with
  | nil => simp at ha
  | cons h _ ih =>
    cases j with
    | zero => simp at ha; subst ha; exact ⟨_, by simp, h⟩
    | succ j => simp at ha; simpa using ih ha

theorem get_none {l : List α} {l' : List β} (h : All₂ R l l') {j : Nat} (ha : l[j]? = none) :
    l'[j]? = none := by
  have := h.length_eq
  simp only [List.getElem?_eq_none_iff] at *
  omega

theorem set {l : List α} {l' : List β} (h : All₂ R l l') {a : α} {b : β} (hab : R a b) (j : Nat) :
    All₂ R (l.set j a) (l'.set j b) := by
  induction h generalizing j with
  | nil => exact .nil
  | cons h0 _ ih =>
    cases j with
    | zero => exact .cons hab ‹_›
    | succ j => exact .cons h0 (ih j)

theorem refl_of {P : α → Prop} {S : α → α → Prop} (hS : ∀ a, P a → S a a) {l : List α} (h : ∀ a ∈ l, P a) :
    All₂ S l l := by
  induction l with
  | nil => exact .nil
  | cons a l ih => exact .cons (hS a (h a (by simp))) (ih (fun x hx => h x (by simp [hx])))

end All₂

/-! ### fuel-free big-step relations -/

/-- `visitLoop` with some fuel -/
def Visits (cfg : Cfg) (todo : List (Node × Option Nat)) (v0 v : Visit) : Prop :=
  ∃ g, visitLoop cfg g todo v0 = some v

/-- `runLoop` with some fuels -/
inductive Runs (cfg : Cfg) : Node → List Path → St → Node → St → Prop
  | nil {root st} : Runs cfg root [] st root st
  | skip {root p stack st r t} : getAt root p = none → Runs cfg root stack st r t → Runs cfg root (p :: stack) st r t
  | step {root p stack st r t cur v} : getAt root p = some cur →
      Visits cfg (withIdx cur.children 0) { st := st } v →
      Runs cfg (setAt root p { cur with children := v.done.reverse })
        (v.pushes.map (p ++ ·) ++ stack.map (remap p v.posmap)) v.st r t →
      Runs cfg root (p :: stack) st r t

theorem runLoop_sound {cfg g2 g root stack st r t} (h : runLoop cfg g2 g root stack st = some (r, t)) :
    Runs cfg root stack st r t := by
  induction g generalizing root stack st with
  | zero => simp [runLoop] at h
  | succ g ih =>
    cases stack with
    | nil =>
      simp only [runLoop, Option.some.injEq, Prod.mk.injEq] at h
      obtain ⟨rfl, rfl⟩ := h
      exact .nil
    | cons p stack =>
      simp only [runLoop] at h
      split at h
      · next hg => exact .skip hg (ih h)
      · next cur hg =>
        split at h
        · simp at h
        · next v hv => exact .step hg ⟨g2, hv⟩ (ih h)

theorem Runs.nil_inv {cfg root st r t} (h : Runs cfg root [] st r t) : r = root ∧ t = st := by
  cases h; exact ⟨rfl, rfl⟩

theorem Runs.cons_inv {cfg root p stack st r t} (h : Runs cfg root (p :: stack) st r t) :
    (getAt root p = none ∧ Runs cfg root stack st r t) ∨
    (∃ cur v, getAt root p = some cur ∧ Visits cfg (withIdx cur.children 0) { st := st } v ∧
      Runs cfg (setAt root p { cur with children := v.done.reverse })
        (v.pushes.map (p ++ ·) ++ stack.map (remap p v.posmap)) v.st r t) := by
  cases h with
  | skip h1 h2 => exact .inl ⟨h1, h2⟩
  | step h1 h2 h3 => exact .inr ⟨_, _, h1, h2, h3⟩

/-- states reachable by a sequence of `visitLoop`s -/
inductive Reach (cfg : Cfg) : St → St → Prop
  | refl {s} : Reach cfg s s
  | step {s s' g todo v0 v} : visitLoop cfg g todo v0 = some v → v0.st = s → Reach cfg v.st s' → Reach cfg s s'

theorem Reach.trans {cfg a b c} (h1 : Reach cfg a b) (h2 : Reach cfg b c) : Reach cfg a c := by
  induction h1 with
  | refl => exact h2
  | step hv hs _ ih => exact .step hv hs (ih h2)

theorem Reach.of_visits {cfg todo v0 v} (h : Visits cfg todo v0 v) : Reach cfg v0.st v.st := by
  obtain ⟨g, hg⟩ := h
  exact .step hg rfl .refl

theorem Runs.reach {cfg root stack st r t} (h : Runs cfg root stack st r t) : Reach cfg st t := by
  induction h with
  | nil => exact .refl
  | skip _ _ ih => exact ih
  | step _ hv _ ih => exact (Reach.of_visits hv).trans ih

/-! ### `visitLoop` -/

theorem Visits.append_inv {cfg todo1 todo2 v0 v} (h : Visits cfg (todo1 ++ todo2) v0 v) :
    ∃ v1, Visits cfg todo1 v0 v1 ∧ Visits cfg todo2 v1 v := by
  obtain ⟨g, hg⟩ := h
  induction g generalizing todo1 v0 with
  | zero => simp [visitLoop] at hg
  | succ g ih =>
    cases todo1 with
    | nil => exact ⟨v0, ⟨1, by simp [visitLoop]⟩, ⟨g+1, by simpa using hg⟩⟩
    | cons x todo1 =>
      obtain ⟨child, orig⟩ := x
      simp only [List.cons_append, visitLoop] at hg
      split at hg
      · simp at hg
      · next c tr v1 hc =>
        rw [← List.append_assoc] at hg
        obtain ⟨v1', ⟨g1, h1⟩, h2⟩ := ih hg
        exact ⟨v1', ⟨g1 + 1, by simp only [visitLoop, hc]; exact h1⟩, h2⟩

/-- shift the first index of a path -/
def shift (m : Nat) : Path → Path
  | [] => []
  | j :: q => (j + m) :: q

/-- the pushes of one child at position `i` with `n` elements made from its text -/
def newPushes (i n : Nat) (noKids : Bool) : List Path :=
  let ps := ((List.range n).map (fun k => [i, k])).reverse
  if noKids then ps else [i] :: ps

theorem visitChild_spec {cfg child v c tr v1} (h : visitChild cfg child v = some (c, tr, v1)) :
    ∃ n st', v1 = { v with pushes := newPushes v.done.length n child.children.isEmpty ++ v.pushes, st := st' } ∧
      ∀ v' : Visit, v'.st = v.st → visitChild cfg child v' =
        some (c, tr, { v' with pushes := newPushes v'.done.length n child.children.isEmpty ++ v'.pushes, st := st' }) := by
  obtain ⟨d, pm, ps, st⟩ := v
  simp only [visitChild] at h
  split at h
  · simp at h
  · next c1 lst st1 h1 =>
    split at h
    · simp at h
    · next c2 tr' st2 h2 =>
      simp only [Option.some.injEq, Prod.mk.injEq] at h
      obtain ⟨rfl, rfl, rfl⟩ := h
      refine ⟨lst.length, st2, ?_, ?_⟩
      · simp only [newPushes]; split <;> simp_all
      · rintro ⟨d', pm', ps', st'⟩ hst
        simp only at hst
        subst hst
        simp only [visitChild, h1, h2]
        simp only [newPushes]; split <;> simp_all

/-- non-empty path whose first index is `< m` -/
def hdLt (m : Nat) : Path → Prop
  | [] => False
  | j :: _ => j < m

@[simp] theorem hdLt_nil (m : Nat) : hdLt m [] = False := rfl
@[simp] theorem hdLt_cons (m j : Nat) (q : Path) : hdLt m (j :: q) = (j < m) := rfl

theorem hdLt.mono {m m' : Nat} {p : Path} (h : hdLt m p) (hm : m ≤ m') : hdLt m' p := by
  cases p with
  | nil => exact h
  | cons j q => simp at *; omega

@[simp] theorem shift_nil (m : Nat) : shift m [] = [] := rfl
@[simp] theorem shift_cons (m j : Nat) (q : Path) : shift m (j :: q) = (j + m) :: q := rfl

@[simp] theorem shift_zero (p : Path) : shift 0 p = p := by cases p <;> rfl

theorem shift_shift (a b : Nat) (p : Path) : shift a (shift b p) = shift (b + a) p := by
  cases p <;> simp [Nat.add_assoc]

theorem map_shift_zero (P : List Path) : P.map (shift 0) = P := by
  induction P <;> simp_all

theorem map_shift_shift (a b : Nat) (P : List Path) : (P.map (shift b)).map (shift a) = P.map (shift (b + a)) := by
  simp [List.map_map, Function.comp_def, shift_shift]

theorem hdLt_shift {m k : Nat} {p : Path} (h : hdLt m p) : hdLt (m + k) (shift k p) := by
  cases p with
  | nil => exact h
  | cons j q => simp at *; omega

theorem newPushes_shift (i m n : Nat) (b : Bool) : newPushes (i + m) n b = (newPushes i n b).map (shift m) := by
  simp only [newPushes]
  split <;> simp [List.map_reverse, List.map_map, Function.comp_def]

theorem newPushes_hdLt {i n : Nat} {b : Bool} {p : Path} (h : p ∈ newPushes i n b) : hdLt (i + 1) p := by
  simp only [newPushes] at h
  split at h
  · simp at h; obtain ⟨k, _, rfl⟩ := h; simp
  · simp at h
    rcases h with rfl | ⟨k, _, rfl⟩ <;> simp

/-- offset lemma: `visitLoop` from two `Visit`s with the same state (and todo lists with the same nodes, whatever the
    original indices) does the same work; `done` and `pushes` are extended by the same lists, up to the shift of the
    first index of the pushes by the number of children already done -/
theorem visitLoop_offset {cfg g todo todo' v0 v0' v} (h : visitLoop cfg g todo v0 = some v)
    (ht : todo.map (·.1) = todo'.map (·.1)) (hst : v0'.st = v0.st) :
    ∃ (v' : Visit) (D : List Node) (P : List Path), visitLoop cfg g todo' v0' = some v' ∧ v'.st = v.st ∧
      v.done = D ++ v0.done ∧ v'.done = D ++ v0'.done ∧
      v.pushes = P.map (shift v0.done.length) ++ v0.pushes ∧
      v'.pushes = P.map (shift v0'.done.length) ++ v0'.pushes ∧ (∀ p ∈ P, hdLt D.length p) := by
  induction g generalizing todo todo' v0 v0' with
  | zero => simp [visitLoop] at h
  | succ g ih =>
    cases todo with
    | nil =>
      cases todo' with
      | cons _ _ => simp at ht
      | nil =>
        simp only [visitLoop, Option.some.injEq] at h
        subst h
        exact ⟨v0', [], [], by simp [visitLoop, hst]⟩
    | cons x todo =>
      cases todo' with
      | nil => simp at ht
      | cons x' todo' =>
        obtain ⟨child, orig⟩ := x
        obtain ⟨child', orig'⟩ := x'
        simp only [List.map_cons, List.cons.injEq] at ht
        obtain ⟨rfl, ht⟩ := ht
        simp only [visitLoop] at h
        split at h
        · simp at h
        · next c tr v1 hc =>
          obtain ⟨n, st', rfl, hv'⟩ := visitChild_spec hc
          have ht2 : (tr.map (fun n => (n, (none : Option Nat))) ++ todo).map (·.1)
              = (tr.map (fun n => (n, (none : Option Nat))) ++ todo').map (·.1) := by
            simp [ht]
          obtain ⟨v', D, P, h1, h2, h3, h4, h5, h6, h7⟩ := ih (v0' :=
            { v0' with
              done := c :: v0'.done
              posmap := match orig' with | some o => (o, v0'.done.length) :: v0'.posmap | none => v0'.posmap
              pushes := newPushes v0'.done.length n child.children.isEmpty ++ v0'.pushes
              st := st' }) h ht2 rfl
          refine ⟨v', D ++ [c], P.map (shift 1) ++ newPushes 0 n child.children.isEmpty, ?_, h2, ?_, ?_, ?_, ?_, ?_⟩
          · simp only [visitLoop, hv' v0' hst]
            exact h1
          · simp [h3]
          · simp [h4]
          · rw [h5]
            simp only [List.length_cons, List.map_append, map_shift_shift, ← newPushes_shift, List.append_assoc,
              Nat.zero_add, Nat.add_comm 1]
          · rw [h6]
            simp only [List.length_cons, List.map_append, map_shift_shift, ← newPushes_shift, List.append_assoc,
              Nat.zero_add, Nat.add_comm 1]
          · intro p hp
            simp only [List.mem_append, List.mem_map] at hp
            rcases hp with ⟨q, hq, rfl⟩ | hp
            · simpa using hdLt_shift (k := 1) (h7 q hq)
            · exact (newPushes_hdLt hp).mono (by simp)

/-! ### paths: `remap`, `getAt`, `setAt` -/

theorem shift_append {m : Nat} {p : Path} (hp : p ≠ []) (x : Path) : shift m (p ++ x) = shift m p ++ x := by
  cases p with
  | nil => exact absurd rfl hp
  | cons i p => rfl

theorem remap_nil_right (p : Path) (pm : List (Nat × Nat)) (hp : p ≠ []) : remap p pm [] = [] := by
  cases p with
  | nil => exact absurd rfl hp
  | cons i p => simp [remap, remap.startsWithPath]

theorem remap_cons_cons (i : Nat) (p : Path) (pm : List (Nat × Nat)) (j : Nat) (q : Path) :
    remap (i :: p) pm (j :: q) = if j = i then j :: remap p pm q else j :: q := by
  by_cases h : j = i
  · subst h
    simp only [remap, remap.startsWithPath, decide_true, Bool.true_and, List.length_cons, List.drop_succ_cons,
      if_true]
    cases hs : remap.startsWithPath q p with
    | false => simp
    | true =>
      simp only [if_true]
      split
      · split <;> simp
      · rfl
  · simp [remap, remap.startsWithPath, h]

theorem remap_shift {m : Nat} {p : Path} (hp : p ≠ []) (pm : List (Nat × Nat)) (q : Path) :
    remap (shift m p) pm (shift m q) = shift m (remap p pm q) := by
  cases p with
  | nil => exact absurd rfl hp
  | cons i p =>
    cases q with
    | nil => simp [remap_nil_right]
    | cons j q =>
      simp only [shift_cons, remap_cons_cons, Nat.add_right_cancel_iff]
      split <;> rfl

theorem remap_hdLt {m : Nat} {p : Path} (hp : p ≠ []) (pm : List (Nat × Nat)) {q : Path} (h : hdLt m q) :
    hdLt m (remap p pm q) := by
  cases p with
  | nil => exact absurd rfl hp
  | cons i p =>
    cases q with
    | nil => exact h.elim
    | cons j q => rw [remap_cons_cons]; split <;> exact h

/-- non-empty path whose first index is outside `[a, a + b)` -/
def hdOut (a b : Nat) : Path → Prop
  | [] => False
  | j :: _ => j < a ∨ a + b ≤ j

theorem remap_out {a b : Nat} {p q : Path} (hp : hdLt b p) (hq : hdOut a b q) (pm : List (Nat × Nat)) :
    remap (shift a p) pm q = q := by
  cases p with
  | nil => exact hp.elim
  | cons i p =>
    cases q with
    | nil => exact hq.elim
    | cons j q =>
      simp only [hdLt_cons, hdOut] at hp hq
      rw [shift_cons, remap_cons_cons, if_neg (by omega)]

theorem hdLt_ne_nil {m : Nat} {p : Path} (h : hdLt m p) : p ≠ [] := by
  rintro rfl; exact h

theorem hdLt_append {m : Nat} {p : Path} (h : hdLt m p) (x : Path) : hdLt m (p ++ x) := by
  cases p with
  | nil => exact h.elim
  | cons i p => exact h

/-- `getAt` below the root, on the list of top-level children -/
def getF (M : List Node) (j : Nat) (q : Path) : Option Node :=
  match M[j]? with
  | some c => getAt c q
  | none => none

/-- `setAt` below the root, on the list of top-level children -/
def setF (M : List Node) (j : Nat) (q : Path) (new : Node) : List Node :=
  match M[j]? with
  | some c => M.set j (setAt c q new)
  | none => M

theorem getAt_cons (n : Node) (j : Nat) (q : Path) : getAt n (j :: q) = getF n.children j q := by
  simp only [getAt, getF]
  split <;> simp_all

theorem setAt_cons (n : Node) (j : Nat) (q : Path) (new : Node) :
    setAt n (j :: q) new = mk n (setF n.children j q new) := by
  simp only [setAt, setF]
  cases h : n.children[j]? with
  | some c => rfl
  | none => exact (mk_self n).symm

@[simp] theorem setF_length (M : List Node) (j : Nat) (q : Path) (new : Node) : (setF M j q new).length = M.length := by
  simp only [setF]; split <;> simp

theorem getElem?_mid (L M R : List Node) {j : Nat} (hj : j < M.length) : (L ++ M ++ R)[j + L.length]? = M[j]? := by
  rw [List.append_assoc, List.getElem?_append_right (by omega), List.getElem?_append_left (by omega)]
  congr 1; omega

theorem set_mid (L M R : List Node) {j : Nat} (hj : j < M.length) (x : Node) :
    (L ++ M ++ R).set (j + L.length) x = L ++ M.set j x ++ R := by
  rw [List.append_assoc, List.set_append_right _ _ (by omega), List.set_append_left _ _ (by omega), List.append_assoc]
  congr 3; omega

theorem getF_mid (L M R : List Node) {j : Nat} (hj : j < M.length) (q : Path) :
    getF (L ++ M ++ R) (j + L.length) q = getF M j q := by
  simp only [getF, getElem?_mid L M R hj]

theorem setF_mid (L M R : List Node) {j : Nat} (hj : j < M.length) (q : Path) (new : Node) :
    setF (L ++ M ++ R) (j + L.length) q new = L ++ setF M j q new ++ R := by
  simp only [setF, getElem?_mid L M R hj]
  split
  · exact set_mid L M R hj _
  · rfl

theorem remap_ne_nil {p q : Path} (hp : p ≠ []) (hq : q ≠ []) (pm : List (Nat × Nat)) : remap p pm q ≠ [] := by
  cases p with
  | nil => exact absurd rfl hp
  | cons i p =>
    cases q with
    | nil => exact absurd rfl hq
    | cons j q => rw [remap_cons_cons]; split <;> simp

/-! ### (a) popping elements below the root keeps the signature of the top-level children -/

/-- what the processing of deeper elements never changes in a top-level child -/
def sig (c : Node) : Tag × List (Str × Str) × Option Str × Bool := (c.tag, c.attrs, c.tail, c.tailAtomic)

theorem sig_setAt {c : Node} {q : Path} {cur : Node} (ks : List Node) (h : getAt c q = some cur) :
    sig (setAt c q { cur with children := ks }) = sig c := by
  cases q with
  | nil => simp only [getAt, Option.some.injEq] at h; subst h; rfl
  | cons i q => rw [setAt_cons]; rfl

theorem map_set_same {α β : Type} (f : α → β) {l : List α} {j : Nat} {c x : α} (h : l[j]? = some c) (hx : f x = f c) :
    (l.set j x).map f = l.map f := by
  induction l generalizing j with
  | nil => rfl
  | cons a l ih =>
    cases j with
    | zero => simp at h; subst h; simp [hx]
    | succ j => simp at h; simp [ih h]

theorem setF_sig {M : List Node} {j : Nat} {q : Path} {cur : Node} (ks : List Node) (h : getF M j q = some cur) :
    (setF M j q { cur with children := ks }).map sig = M.map sig := by
  simp only [getF] at h
  simp only [setF]
  split at h
  · next c hc => exact map_set_same sig hc (sig_setAt ks h)
  · simp at h

theorem Runs.sig {cfg root stack s r t} (D : Runs cfg root stack s r t) (hs : ∀ p ∈ stack, p ≠ []) :
    r = mk root r.children ∧ r.children.map sig = root.children.map sig := by
  induction D with
  | nil => exact ⟨(mk_self _).symm, rfl⟩
  | skip _ _ ih => exact ih (fun p hp => hs p (by simp [hp]))
  | @step root p stack st r t cur v hget hv _ ih =>
    have hp : p ≠ [] := hs p (by simp)
    cases p with
    | nil => exact absurd rfl hp
    | cons j q =>
      have hs' : ∀ p' ∈ v.pushes.map ((j :: q) ++ ·) ++ stack.map (remap (j :: q) v.posmap), p' ≠ [] := by
        intro p' hp'
        simp only [List.mem_append, List.mem_map] at hp'
        rcases hp' with ⟨x, _, rfl⟩ | ⟨x, hx, rfl⟩
        · simp
        · exact remap_ne_nil hp (hs x (by simp [hx])) _
      obtain ⟨h1, h2⟩ := ih hs'
      rw [setAt_cons] at h1 h2
      rw [getAt_cons] at hget
      refine ⟨h1, ?_⟩
      rw [h2, mk_children, setF_sig _ hget]

/-- (a): if all paths of the stack are non-empty, the run keeps the header of the root and the signature of every
    top-level child (in particular their number) -/
theorem runLoop_sig {cfg g2 g hdr M stack s r t} (hs : ∀ p ∈ stack, p ≠ [])
    (h : runLoop cfg g2 g (mk hdr M) stack s = some (r, t)) :
    r = mk hdr r.children ∧ r.children.map sig = M.map sig := by
  simpa using (runLoop_sound h).sig hs

/-! ### (b) the root step -/

theorem Runs.root_inv {cfg hdr cs s r t} (D : Runs cfg (mk hdr cs) [[]] s r t) :
    ∃ v, Visits cfg (withIdx cs 0) { st := s } v ∧ Runs cfg (mk hdr v.done.reverse) v.pushes v.st r t := by
  rcases D.cons_inv with ⟨h, _⟩ | ⟨cur, v, hget, hv, D'⟩
  · simp [getAt] at h
  · simp only [getAt, Option.some.injEq] at hget
    subst hget
    refine ⟨v, hv, ?_⟩
    simpa [setAt, with_mk] using D'

/-- (b): the first step of a run from the stack `[[]]` visits all top-level children; the rest of the run starts from
    the visited children with the pushes of that visit as stack -/
theorem runLoop_root {cfg g2 g hdr cs s r t} (h : runLoop cfg g2 g (mk hdr cs) [[]] s = some (r, t)) :
    ∃ g' v, visitLoop cfg g' (withIdx cs 0) { st := s } = some v ∧
      Runs cfg (mk hdr v.done.reverse) v.pushes v.st r t := by
  obtain ⟨v, ⟨g', hv⟩, D⟩ := (runLoop_sound h).root_inv
  exact ⟨g', v, hv, D⟩

/-! ### the abstract simulation hypothesis about one `visitLoop` -/

/-- What is assumed about one `visitLoop` over the children of a popped element (left = separate run, right = combined
    run).  `W` = worlds (renamings of stash ids), `TR w` relates trees, `SR w` relates states. -/
structure VisitSim (cfg : Cfg) (W : Type) (le : W → W → Prop) (TR : W → Node → Node → Prop)
    (SR : W → St → St → Prop) (good : Node → Prop) (w0 : W) (N : Nat) : Prop where
  le_refl : ∀ w, le w w
  le_trans : ∀ a b c, le a b → le b c → le a c
  tr_mono : ∀ w w' a b, le w w' → TR w a b → TR w' a b
  tr_kids : ∀ w n n', TR w n n' → All₂ (TR w) n.children n'.children
  tr_rebuild : ∀ w n n' cs cs', TR w n n' → All₂ (TR w) cs cs' →
      TR w { n with children := cs } { n' with children := cs' }
  tr_refl : ∀ n, good n → TR w0 n n
  sr_empty : ∀ s s', SR w0 s s'
  /-- growth of the right state by any visit keeps an established relation -/
  sr_ext : ∀ w s s' todo g v0 v, SR w s s' → visitLoop cfg g todo v0 = some v → v0.st = s' → SR w s v.st
  sim : ∀ w kids kids' g g' s s' v v', All₂ (TR w) kids kids' → SR w s s' →
     visitLoop cfg g (withIdx kids 0) { st := s } = some v →
     visitLoop cfg g' (withIdx kids' 0) { st := s' } = some v' →
     v.st.stash.length ≤ N → v'.st.stash.length ≤ N →
     ∃ w', le w w' ∧ All₂ (TR w') v.done v'.done ∧ v.posmap = v'.posmap ∧ v.pushes = v'.pushes ∧ SR w' v.st v'.st
  mono : ∀ todo g v0 v, visitLoop cfg g todo v0 = some v → v0.st.stash.length ≤ v.st.stash.length

section Sim
variable {cfg : Cfg} {W : Type} {le : W → W → Prop} {TR : W → Node → Node → Prop} {SR : W → St → St → Prop}
  {good : Node → Prop} {w0 : W} {N : Nat}

theorem VisitSim.reach_len (F : VisitSim cfg W le TR SR good w0 N) {s s' : St} (h : Reach cfg s s') :
    s.stash.length ≤ s'.stash.length := by
  induction h with
  | refl => exact Nat.le_refl _
  | step hv hs _ ih => subst hs; exact Nat.le_trans (F.mono _ _ _ _ hv) ih

theorem VisitSim.reach_sr (F : VisitSim cfg W le TR SR good w0 N) {w : W} {x s s' : St} (hx : SR w x s)
    (h : Reach cfg s s') : SR w x s' := by
  induction h with
  | refl => exact hx
  | step hv hs _ ih => exact ih (F.sr_ext _ _ _ _ _ _ _ hx hv hs)

theorem VisitSim.all_mono (F : VisitSim cfg W le TR SR good w0 N) {w w' : W} (hw : le w w') {l l' : List Node}
    (h : All₂ (TR w) l l') : All₂ (TR w') l l' :=
  h.imp (fun a b => F.tr_mono w w' a b hw)

theorem VisitSim.getAt_some (F : VisitSim cfg W le TR SR good w0 N) {w : W} {a b : Node} (h : TR w a b) {q : Path}
    {c : Node} (hc : getAt a q = some c) : ∃ c', getAt b q = some c' ∧ TR w c c' := by
  induction q generalizing a b with
  | nil => simp only [getAt, Option.some.injEq] at hc; subst hc; exact ⟨b, rfl, h⟩
  | cons i q ih =>
    simp only [getAt] at hc ⊢
    split at hc
    · next x hx =>
      obtain ⟨y, hy, hxy⟩ := (F.tr_kids _ _ _ h).get_some hx
      simp only [hy]
      exact ih hxy hc
    · simp at hc

theorem VisitSim.getAt_none (F : VisitSim cfg W le TR SR good w0 N) {w : W} {a b : Node} (h : TR w a b) {q : Path}
    (hc : getAt a q = none) : getAt b q = none := by
  induction q generalizing a b with
  | nil => simp [getAt] at hc
  | cons i q ih =>
    simp only [getAt] at hc ⊢
    split at hc
    · next x hx =>
      obtain ⟨y, hy, hxy⟩ := (F.tr_kids _ _ _ h).get_some hx
      simp only [hy]
      exact ih hxy hc
    · next hx => simp only [(F.tr_kids _ _ _ h).get_none hx]

theorem VisitSim.setAt (F : VisitSim cfg W le TR SR good w0 N) {w : W} {a b : Node} (h : TR w a b) {x y : Node}
    (hxy : TR w x y) (q : Path) : TR w (setAt a q x) (setAt b q y) := by
  induction q generalizing a b with
  | nil => exact hxy
  | cons i q ih =>
    have hk := F.tr_kids _ _ _ h
    simp only [Inline.setAt]
    cases ha : a.children[i]? with
    | none => simp only [hk.get_none ha]; exact h
    | some c =>
      obtain ⟨c', hc', hcc⟩ := hk.get_some ha
      simp only [hc']
      exact F.tr_rebuild _ _ _ _ _ h (hk.set (ih hcc) i)

theorem VisitSim.getF_some (F : VisitSim cfg W le TR SR good w0 N) {w : W} {M M' : List Node} (h : All₂ (TR w) M M')
    {j : Nat} {q : Path} {c : Node} (hc : getF M j q = some c) : ∃ c', getF M' j q = some c' ∧ TR w c c' := by
  simp only [getF] at hc ⊢
  split at hc
  · next x hx =>
    obtain ⟨y, hy, hxy⟩ := h.get_some hx
    simp only [hy]
    exact F.getAt_some hxy hc
  · simp at hc

theorem VisitSim.getF_none (F : VisitSim cfg W le TR SR good w0 N) {w : W} {M M' : List Node} (h : All₂ (TR w) M M')
    {j : Nat} {q : Path} (hc : getF M j q = none) : getF M' j q = none := by
  simp only [getF] at hc ⊢
  split at hc
  · next x hx =>
    obtain ⟨y, hy, hxy⟩ := h.get_some hx
    simp only [hy]
    exact F.getAt_none hxy hc
  · next hx => simp only [h.get_none hx]

theorem VisitSim.setF (F : VisitSim cfg W le TR SR good w0 N) {w : W} {M M' : List Node} (h : All₂ (TR w) M M')
    {x y : Node} (hxy : TR w x y) (j : Nat) (q : Path) : All₂ (TR w) (setF M j q x) (setF M' j q y) := by
  simp only [InlineLocal.setF]
  cases ha : M[j]? with
  | none => simp only [h.get_none ha]; exact h
  | some c =>
    obtain ⟨c', hc', hcc⟩ := h.get_some ha
    simp only [hc']
    exact h.set (F.setAt hcc hxy q) j

end Sim

/-! ### the frame lemma -/

section Frame
variable {cfg : Cfg} {W : Type} {le : W → W → Prop} {TR : W → Node → Node → Prop} {SR : W → St → St → Prop}
  {good : Node → Prop} {w0 : W} {N : Nat}

/-- the stack of the combined run after a lockstep step -/
theorem frame_stack {a b : Nat} {p : Path} (hp : hdLt b p) (pushes : List Path) (pm : List (Nat × Nat))
    (stack rest : List Path) (hrest : ∀ q ∈ rest, hdOut a b q) :
    pushes.map (shift a p ++ ·) ++ (stack.map (shift a) ++ rest).map (remap (shift a p) pm)
      = (pushes.map (p ++ ·) ++ stack.map (remap p pm)).map (shift a) ++ rest := by
  have hp' := hdLt_ne_nil hp
  have h1 : pushes.map (shift a p ++ ·) = (pushes.map (p ++ ·)).map (shift a) := by
    simp [List.map_map, Function.comp_def, shift_append hp']
  have h2 : (stack.map (shift a)).map (remap (shift a p) pm) = (stack.map (remap p pm)).map (shift a) := by
    simp [List.map_map, Function.comp_def, remap_shift hp']
  have h3 : rest.map (remap (shift a p) pm) = rest := by
    induction rest with
    | nil => rfl
    | cons q rest ih =>
      simp only [List.map_cons, remap_out hp (hrest q (by simp))]
      rw [ih (fun x hx => hrest x (by simp [hx]))]
  rw [List.map_append, List.map_append, h1, h2, h3, List.append_assoc]

/-- Frame lemma.  `DM` is a run on the forest `rootM.children` alone (separate run); the combined run has a related
    forest `M'` embedded between `L` and `R`, the same stack (shifted) on top of `rest`, whose paths do not point
    into the embedded part.  Then the combined run reaches the stack `rest` with the embedded part related to the
    result of the separate run. -/
theorem frame (F : VisitSim cfg W le TR SR good w0 N) (hdr : Node) (L R : List Node) (rest : List Path)
    {rootM : Node} {stackM : List Path} {sM : St} {rM : Node} {tM : St} (DM : Runs cfg rootM stackM sM rM tM) :
    ∀ {w : W} {M' : List Node} {s : St} {r : Node} {t : St}, All₂ (TR w) rootM.children M' → SR w sM s →
      (∀ p ∈ stackM, hdLt rootM.children.length p) →
      (∀ q ∈ rest, hdOut L.length rootM.children.length q) →
      Runs cfg (mk hdr (L ++ M' ++ R)) (stackM.map (shift L.length) ++ rest) s r t →
      tM.stash.length ≤ N → t.stash.length ≤ N →
      ∃ (w' : W) (s' : St) (M'' : List Node), le w w' ∧ Runs cfg (mk hdr (L ++ M'' ++ R)) rest s' r t ∧
        All₂ (TR w') rM.children M'' ∧ Reach cfg s s' ∧ SR w' tM s' := by
  induction DM with
  | nil =>
    intro w M' s r t hM hS _ _ DR _ _
    exact ⟨w, s, M', F.le_refl w, by simpa using DR, hM, .refl, hS⟩
  | @skip root p stack st rM tM hget DM' ih =>
    intro w M' s r t hM hS hst hrest DR hN1 hN2
    have hp := hst p (by simp)
    cases p with
    | nil => exact hp.elim
    | cons j q =>
      simp only [hdLt_cons] at hp
      have hj' : j < M'.length := hM.length_eq ▸ hp
      rw [getAt_cons] at hget
      simp only [List.map_cons, List.cons_append, shift_cons] at DR
      rcases DR.cons_inv with ⟨_, DR'⟩ | ⟨cur', v', hget', _, _⟩
      · exact ih hM hS (fun x hx => hst x (by simp [hx])) hrest DR' hN1 hN2
      · rw [getAt_cons, mk_children, getF_mid L M' R hj', F.getF_none hM hget] at hget'
        simp at hget'
  | @step root p stack st rM tM cur v hget hv DM' ih =>
    intro w M' s r t hM hS hst hrest DR hN1 hN2
    have hp := hst p (by simp)
    cases p with
    | nil => exact hp.elim
    | cons j q =>
      have hp0 := hp
      simp only [hdLt_cons] at hp
      have hj' : j < M'.length := hM.length_eq ▸ hp
      rw [getAt_cons] at hget
      simp only [List.map_cons, List.cons_append] at DR
      rcases DR.cons_inv with ⟨hget', _⟩ | ⟨cur', v', hget', hv', DR'⟩
      · obtain ⟨c', hc', _⟩ := F.getF_some hM hget
        rw [shift_cons, getAt_cons, mk_children, getF_mid L M' R hj', hc'] at hget'
        simp at hget'
      · obtain ⟨c', hc', hcc⟩ := F.getF_some hM hget
        rw [shift_cons, getAt_cons, mk_children, getF_mid L M' R hj', hc'] at hget'
        simp only [Option.some.injEq] at hget'
        subst hget'
        obtain ⟨g, hg⟩ := hv
        obtain ⟨g', hg'⟩ := hv'
        have hb1 : v.st.stash.length ≤ N := Nat.le_trans (F.reach_len DM'.reach) hN1
        have hb2 : v'.st.stash.length ≤ N := Nat.le_trans (F.reach_len DR'.reach) hN2
        obtain ⟨w1, hw1, hdone, hpm, hpush, hS1⟩ :=
          F.sim w _ _ g g' _ _ v v' (F.tr_kids _ _ _ hcc) hS hg hg' hb1 hb2
        have hnew : TR w1 { cur with children := v.done.reverse } { c' with children := v'.done.reverse } :=
          F.tr_rebuild _ _ _ _ _ (F.tr_mono _ _ _ _ hw1 hcc) hdone.reverse
        have hM1 : All₂ (TR w1) (setAt root (j :: q) { cur with children := v.done.reverse }).children
            (setF M' j q { c' with children := v'.done.reverse }) := by
          rw [setAt_cons, mk_children]
          exact F.setF (F.all_mono hw1 hM) hnew j q
        have hlen : (setAt root (j :: q) { cur with children := v.done.reverse }).children.length
            = root.children.length := by
          rw [setAt_cons, mk_children, setF_length]
        have hst1 : ∀ p' ∈ v.pushes.map ((j :: q) ++ ·) ++ stack.map (remap (j :: q) v.posmap),
            hdLt (setAt root (j :: q) { cur with children := v.done.reverse }).children.length p' := by
          intro p' hp'
          rw [hlen]
          simp only [List.mem_append, List.mem_map] at hp'
          rcases hp' with ⟨x, _, rfl⟩ | ⟨x, hx, rfl⟩
          · exact hdLt_append hp0 x
          · exact remap_hdLt (by simp) _ (hst x (by simp [hx]))
        have hDR1 : Runs cfg (mk hdr (L ++ setF M' j q { c' with children := v'.done.reverse } ++ R))
            ((v.pushes.map ((j :: q) ++ ·) ++ stack.map (remap (j :: q) v.posmap)).map (shift L.length) ++ rest)
            v'.st r t := by
          rw [← frame_stack hp0 _ _ _ _ hrest, hpush, hpm]
          rw [shift_cons, setAt_cons, mk_children, setF_mid L M' R hj', mk_mk] at DR'
          exact DR'
        obtain ⟨w2, s2, M2, hw2, D2, hM2, hR2, hS2⟩ :=
          ih hM1 hS1 hst1 (by rw [hlen]; exact hrest) hDR1 hN1 hN2
        exact ⟨w2, s2, M2, F.le_trans _ _ _ hw1 hw2, D2, hM2, .step hg' rfl hR2, hS2⟩

end Frame

/-! ### the main theorem -/

theorem withIdx_append (a b : List Node) (i : Nat) :
    withIdx (a ++ b) i = withIdx a i ++ withIdx b (i + a.length) := by
  induction a generalizing i with
  | nil => rfl
  | cons x a ih => simp only [List.cons_append, withIdx, ih, List.length_cons]; congr 3; omega

theorem withIdx_map_fst (a : List Node) (i : Nat) : (withIdx a i).map (·.1) = a := by
  induction a generalizing i with
  | nil => rfl
  | cons x a ih => simp [withIdx, ih]

/-- 2(iii): the pushes of a visit that starts from an empty `Visit` point at the visited children -/
theorem visitLoop_pushes_hdLt {cfg g todo s v} (h : visitLoop cfg g todo { st := s } = some v) :
    ∀ p ∈ v.pushes, hdLt v.done.length p := by
  obtain ⟨v', D, P, _, _, hd, _, hp, _, hP⟩ := visitLoop_offset (todo' := todo) (v0' := { st := s }) h rfl rfl
  simp only [List.append_nil, List.length_nil, map_shift_zero] at hd hp
  rw [hd, hp]
  exact hP

section Main
variable {cfg : Cfg} {W : Type} {le : W → W → Prop} {TR : W → Node → Node → Prop} {SR : W → St → St → Prop}
  {good : Node → Prop} {w0 : W} {N : Nat}

theorem Runs.append (F : VisitSim cfg W le TR SR good w0 N) (hdr : Node) (cs1 cs2 : List Node)
    (hg1 : ∀ c ∈ cs1, good c) (hg2 : ∀ c ∈ cs2, good c)
    {s1 s2 s : St} {r1 r2 r : Node} {t1 t2 t : St}
    (D1 : Runs cfg (mk hdr cs1) [[]] s1 r1 t1)
    (D2 : Runs cfg (mk hdr cs2) [[]] s2 r2 t2)
    (D12 : Runs cfg (mk hdr (cs1 ++ cs2)) [[]] s r t)
    (hN1 : t1.stash.length ≤ N) (hN2 : t2.stash.length ≤ N) (hN : t.stash.length ≤ N) :
    ∃ (wA wB : W) (X Y : List Node), r = mk hdr (X ++ Y) ∧ All₂ (TR wA) r1.children X ∧
      All₂ (TR wB) r2.children Y ∧ r1 = mk hdr r1.children ∧ r2 = mk hdr r2.children := by
  obtain ⟨v1, ⟨g1, hv1⟩, E1⟩ := D1.root_inv
  obtain ⟨v2, ⟨g2, hv2⟩, E2⟩ := D2.root_inv
  obtain ⟨v, hv, E⟩ := D12.root_inv
  rw [withIdx_append] at hv
  obtain ⟨va, ⟨ga, hva⟩, ⟨gb, hvb0⟩⟩ := hv.append_inv
  obtain ⟨vb, D, P, hvb, hst, hd, hd', hp, hp', hP⟩ :=
    visitLoop_offset (todo' := withIdx cs2 0) (v0' := { st := va.st }) hvb0 (by simp [withIdx_map_fst]) rfl
  simp only [List.append_nil, List.length_nil, map_shift_zero] at hd' hp'
  subst hd' hp'
  -- bounds
  have b1 : v1.st.stash.length ≤ N := Nat.le_trans (F.reach_len E1.reach) hN1
  have b2 : v2.st.stash.length ≤ N := Nat.le_trans (F.reach_len E2.reach) hN2
  have bb : vb.st.stash.length ≤ N := hst ▸ Nat.le_trans (F.reach_len E.reach) hN
  have ba : va.st.stash.length ≤ N := Nat.le_trans (F.mono _ _ { st := va.st } _ hvb) bb
  -- the two visits of the combined root against the separate ones
  obtain ⟨wA, _, hdoneA, _, hpushA, hSA⟩ :=
    F.sim w0 cs1 cs1 g1 ga s1 s v1 va (All₂.refl_of F.tr_refl hg1) (F.sr_empty _ _) hv1 hva b1 ba
  obtain ⟨wB, _, hdoneB, _, hpushB, hSB⟩ :=
    F.sim w0 cs2 cs2 g2 gb s2 va.st v2 vb (All₂.refl_of F.tr_refl hg2) (F.sr_empty _ _) hv2 hvb b2 bb
  have hP1 := visitLoop_pushes_hdLt hv1
  have hP2 := visitLoop_pushes_hdLt hv2
  have hPa := visitLoop_pushes_hdLt hva
  have hsig1 := E1.sig (fun p hp => hdLt_ne_nil (hP1 p hp))
  have hsig2 := E2.sig (fun p hp => hdLt_ne_nil (hP2 p hp))
  rw [mk_mk] at hsig1 hsig2
  -- phase B
  have EB : Runs cfg (mk hdr (va.done.reverse ++ vb.done.reverse ++ []))
      (v2.pushes.map (shift va.done.reverse.length) ++ va.pushes) vb.st r t := by
    rw [hd, hp, ← hst, List.reverse_append] at E
    simpa [hpushB] using E
  obtain ⟨wB', s', Y, _, DB, hY, hR, _⟩ :=
    frame F hdr va.done.reverse [] va.pushes E2 (w := wB) (M' := vb.done.reverse) (by simpa using hdoneB.reverse) hSB
      (by simpa using hP2)
      (by
        intro q hq
        have := hPa q hq
        cases q with
        | nil => exact this.elim
        | cons j q => simp only [hdLt_cons] at this; simp only [hdOut, List.length_reverse]; omega)
      EB hN2 hN
  have hSA' : SR wA v1.st s' := F.reach_sr hSA ((Reach.step hvb rfl .refl).trans hR)
  -- phase A
  have EA : Runs cfg (mk hdr ([] ++ va.done.reverse ++ Y)) (v1.pushes.map (shift ([] : List Node).length) ++ []) s' r t := by
    simpa [hpushA, map_shift_zero] using DB
  obtain ⟨wA', s'', X, _, DA, hX, _, _⟩ :=
    frame F hdr [] Y [] E1 (w := wA) (M' := va.done.reverse) (by simpa using hdoneA.reverse) hSA'
      (by simpa using hP1) (by simp) EA hN1 hN
  obtain ⟨hr, _⟩ := DA.nil_inv
  exact ⟨wA', wB', X, Y, by simpa using hr, hX, hY, hsig1.1, hsig2.1⟩

/-- Main theorem: the run on `div[cs1 ++ cs2]` yields the concatenation of (trees related to) the results of the
    runs on `div[cs1]` and `div[cs2]`. -/
theorem runLoop_append (F : VisitSim cfg W le TR SR good w0 N) (hdr : Node) (cs1 cs2 : List Node)
    (hg1 : ∀ c ∈ cs1, good c) (hg2 : ∀ c ∈ cs2, good c)
    {a1 b1 a2 b2 a b : Nat} {s1 s2 s : St} {r1 r2 r : Node} {t1 t2 t : St}
    (h1 : runLoop cfg a1 b1 (mk hdr cs1) [[]] s1 = some (r1, t1))
    (h2 : runLoop cfg a2 b2 (mk hdr cs2) [[]] s2 = some (r2, t2))
    (h12 : runLoop cfg a b (mk hdr (cs1 ++ cs2)) [[]] s = some (r, t))
    (hN1 : t1.stash.length ≤ N) (hN2 : t2.stash.length ≤ N) (hN : t.stash.length ≤ N) :
    ∃ (wA wB : W) (X Y : List Node), r = mk hdr (X ++ Y) ∧ All₂ (TR wA) r1.children X ∧
      All₂ (TR wB) r2.children Y ∧ r1 = mk hdr r1.children ∧ r2 = mk hdr r2.children :=
  Runs.append F hdr cs1 cs2 hg1 hg2 (runLoop_sound h1) (runLoop_sound h2) (runLoop_sound h12) hN1 hN2 hN

/-- Corollary for `Inline.run` on `div` roots. -/
theorem run_append (F : VisitSim cfg W le TR SR good w0 N) (cs1 cs2 : List Node)
    (hg1 : ∀ c ∈ cs1, good c) (hg2 : ∀ c ∈ cs2, good c) {h1 h2 h : List Str}
    {r1 r2 r : Node} {t1 t2 t : St}
    (e1 : Inline.run cfg (mk (Node.el "div") cs1) h1 = some (r1, t1))
    (e2 : Inline.run cfg (mk (Node.el "div") cs2) h2 = some (r2, t2))
    (e12 : Inline.run cfg (mk (Node.el "div") (cs1 ++ cs2)) h = some (r, t))
    (hN1 : t1.stash.length ≤ N) (hN2 : t2.stash.length ≤ N) (hN : t.stash.length ≤ N) :
    ∃ (wA wB : W) (X Y : List Node), r = mk (Node.el "div") (X ++ Y) ∧ All₂ (TR wA) r1.children X ∧
      All₂ (TR wB) r2.children Y ∧ r1 = mk (Node.el "div") r1.children ∧ r2 = mk (Node.el "div") r2.children :=
  runLoop_append F _ cs1 cs2 hg1 hg2 e1 e2 e12 hN1 hN2 hN

end Main

/-! ### the equality form (no live references into the stash): an instance of `VisitSim` -/

/-- the simulation hypothesis in equality form: one `visitLoop` does not depend on the state -/
structure VisitFacts (cfg : Cfg) (good : Node → Prop) (N : Nat) : Prop where
  indep : ∀ kids g g' s s' v v', (∀ c ∈ kids, good c) →
     visitLoop cfg g (withIdx kids 0) { st := s } = some v → visitLoop cfg g' (withIdx kids 0) { st := s' } = some v' →
     v.st.stash.length ≤ N → v'.st.stash.length ≤ N →
     v.done = v'.done ∧ v.posmap = v'.posmap ∧ v.pushes = v'.pushes
  pres : ∀ kids g s v, (∀ c ∈ kids, good c) → visitLoop cfg g (withIdx kids 0) { st := s } = some v →
     v.st.stash.length ≤ N → ∀ c ∈ v.done, good c
  mono : ∀ todo g v0 v, visitLoop cfg g todo v0 = some v → v0.st.stash.length ≤ v.st.stash.length
  kids : ∀ n, good n → ∀ c ∈ n.children, good c
  rebuild : ∀ n cs, good n → (∀ c ∈ cs, good c) → good { n with children := cs }

theorem All₂.eq_and {α : Type} {P : α → Prop} {l l' : List α} (h : All₂ (fun a b => a = b ∧ P a) l l') :
    l = l' ∧ ∀ a ∈ l, P a := by
  induction h with
  | nil => simp
  | cons h _ ih => obtain ⟨rfl, hp⟩ := h; obtain ⟨rfl, hl⟩ := ih; simp [hp]; exact hl

theorem VisitFacts.toSim {cfg : Cfg} {good : Node → Prop} {N : Nat} (F : VisitFacts cfg good N) :
    VisitSim cfg Unit (fun _ _ => True) (fun _ a b => a = b ∧ good a) (fun _ _ _ => True) good () N where
  le_refl _ := trivial
  le_trans _ _ _ _ _ := trivial
  tr_mono _ _ _ _ _ h := h
  tr_kids _ n n' h := by
    obtain ⟨rfl, hg⟩ := h
    exact All₂.refl_of (fun a ha => ⟨rfl, ha⟩) (F.kids n hg)
  tr_rebuild _ n n' cs cs' h hc := by
    obtain ⟨rfl, hg⟩ := h
    obtain ⟨rfl, hcs⟩ := hc.eq_and
    exact ⟨rfl, F.rebuild n cs hg hcs⟩
  tr_refl n hn := ⟨rfl, hn⟩
  sr_empty _ _ := trivial
  sr_ext _ _ _ _ _ _ _ _ _ _ := trivial
  sim _ kids kids' g g' s s' v v' hk _ hv hv' hb hb' := by
    obtain ⟨rfl, hgk⟩ := hk.eq_and
    obtain ⟨h1, h2, h3⟩ := F.indep kids g g' s s' v v' hgk hv hv' hb hb'
    refine ⟨(), trivial, ?_, h2, h3, trivial⟩
    rw [← h1]
    exact All₂.refl_of (fun a ha => ⟨rfl, ha⟩) (F.pres kids g s v hgk hv hb)
  mono := F.mono

/-- equality form of the main theorem -/
theorem runLoop_append_eq {cfg : Cfg} {good : Node → Prop} {N : Nat} (F : VisitFacts cfg good N) (hdr : Node)
    (cs1 cs2 : List Node) (hg1 : ∀ c ∈ cs1, good c) (hg2 : ∀ c ∈ cs2, good c)
    {a1 b1 a2 b2 a b : Nat} {s1 s2 s : St} {r1 r2 r : Node} {t1 t2 t : St}
    (h1 : runLoop cfg a1 b1 (mk hdr cs1) [[]] s1 = some (r1, t1))
    (h2 : runLoop cfg a2 b2 (mk hdr cs2) [[]] s2 = some (r2, t2))
    (h12 : runLoop cfg a b (mk hdr (cs1 ++ cs2)) [[]] s = some (r, t))
    (hN1 : t1.stash.length ≤ N) (hN2 : t2.stash.length ≤ N) (hN : t.stash.length ≤ N) :
    r = mk hdr (r1.children ++ r2.children) ∧ r1 = mk hdr r1.children ∧ r2 = mk hdr r2.children ∧
      (∀ c ∈ r.children, good c) := by
  obtain ⟨_, _, X, Y, hr, hX, hY, e1, e2⟩ := runLoop_append F.toSim hdr cs1 cs2 hg1 hg2 h1 h2 h12 hN1 hN2 hN
  obtain ⟨rfl, gX⟩ := hX.eq_and
  obtain ⟨rfl, gY⟩ := hY.eq_and
  refine ⟨hr, e1, e2, ?_⟩
  intro c hc
  rw [hr, mk_children, List.mem_append] at hc
  rcases hc with hc | hc
  · exact gX c hc
  · exact gY c hc

end MdVerif.InlineLocal
