/-
C08, inline half — the string operations the inline patterns apply to matched text keep the renaming relation:
`strip`, `replace` of a single delimiter character (`code_escape`), the `\\` ↦ `STX 92 ETX` replacement.
-/
import MdVerif.Lemmas.InlineLocal.Rel

namespace MdVerif.InlineLocal
open Py Inline

theorem stx_not_space : isSpace STX = false := by decide

theorem innerR_not_space {c : Char} (h : isSpace c = true) : innerR c = false := by
  cases hi : innerR c with
  | false => rfl
  | true =>
    exfalso
    simp only [innerR, Bool.or_eq_true, beq_iff_eq] at hi
    rcases hi with (((((((hd | rfl) | rfl) | rfl) | rfl) | rfl) | rfl) | rfl) | rfl
    · rw [isSpace_digit hd] at h; cases h
    all_goals exact absurd h (by decide)

namespace Sh
variable {ok : Char → Bool} {ρ : Rho}

theorem lstrip {s s' : Str} (h : Sh ok ρ s s') : Sh ok ρ (lstrip s) (lstrip s') := by
  unfold Py.lstrip
  induction h with
  | nil => exact Sh.nil
  | @chr c s s' hc hs hr ih =>
    rw [lstripP_cons, lstripP_cons]
    split
    · exact ih
    · exact Sh.chr hc hs hr
  | @tok d s s' hd hr _ =>
    rw [lstripP_cons, lstripP_cons, stx_not_space]
    exact Sh.tok hd hr
  | @ph i i' s s' hr hi hi' hs _ =>
    rw [placeholder_eq, placeholder_eq]
    simp only [List.cons_append, lstripP_cons, stx_not_space]
    have := Sh.ph hr hi hi' hs
    rw [placeholder_eq, placeholder_eq] at this
    simpa using this

/-- a trailing white-space character is a cell of its own -/
theorem snoc_space {s t : Str} {c : Char} (h : Sh ok ρ (s ++ [c]) t) (hc : isSpace c = true) :
    ∃ t0, t = t0 ++ [c] ∧ Sh ok ρ s t0 := by
  have hget : (s ++ [c])[s.length]? = some c := by simp
  obtain ⟨h1, h2⟩ := h.cut_before hget (innerR_not_space hc)
  have e1 : (s ++ [c]).take s.length = s := by simp
  have e2 : (s ++ [c]).drop s.length = [c] := by simp
  rw [e1] at h1; rw [e2] at h2
  have hcs : c ≠ STX := by intro h; subst h; rw [stx_not_space] at hc; cases hc
  obtain ⟨t', ht', hnil, -⟩ := h2.cut_one hcs
  cases hnil
  exact ⟨t.take s.length, by rw [← ht', List.take_append_drop], h1⟩

theorem rstrip : ∀ (n : Nat) {s s' : Str}, s.length = n → Sh ok ρ s s' → Sh ok ρ (rstrip s) (rstrip s') := by
  intro n
  induction n with
  | zero =>
    intro s s' hl h
    have : s = [] := List.eq_nil_of_length_eq_zero hl
    subst this
    cases h
    exact Sh.nil
  | succ n ih =>
    intro s s' hl h
    have hne : s ≠ [] := by intro h; subst h; cases hl
    obtain ⟨s0, c, rfl⟩ : ∃ s0 c, s = s0 ++ [c] := ⟨s.dropLast, s.getLast hne, (List.dropLast_concat_getLast hne).symm⟩
    unfold Py.rstrip
    by_cases hc : isSpace c = true
    · obtain ⟨t0, rfl, h0⟩ := h.snoc_space hc
      have hall : ([c] : Str).all isSpace = true := by simp [hc]
      rw [rstripP_append_of_all hall, rstripP_append_of_all hall]
      exact ih (by simpa using hl) h0
    · -- the last characters are related, so neither is white space
      have hpw := h.pw
      have hl' := h.length_eq
      have hne' : s' ≠ [] := by intro h'; subst h'; simp at hl'
      obtain ⟨t0, c', rfl⟩ : ∃ t0 c', s' = t0 ++ [c'] :=
        ⟨s'.dropLast, s'.getLast hne', (List.dropLast_concat_getLast hne').symm⟩
      have hlen0 : s0.length = t0.length := by simpa using hl'
      have hcc : cr c c' := by
        have := hpw.drop s0.length
        rw [List.drop_left, hlen0, List.drop_left] at this
        cases this with
        | cons hc _ => exact hc
      have hc' : isSpace c' = false := by rw [← resp_isSpace _ _ hcc]; simpa using hc
      have e1 : rstripP isSpace (s0 ++ [c]) = s0 ++ [c] := by
        rw [rstripP_eq_self_iff]; intro x hx; simp at hx; subst hx; simpa using hc
      have e2 : rstripP isSpace (t0 ++ [c']) = t0 ++ [c'] := by
        rw [rstripP_eq_self_iff]; intro x hx; simp at hx; subst hx; exact hc'
      rw [e1, e2]; exact h

theorem strip {s s' : Str} (h : Sh ok ρ s s') : Sh ok ρ (Py.strip s) (Py.strip s') := by
  have := Sh.rstrip _ rfl h.lstrip
  exact this

/-- all characters plain -/
theorem of_chars {l : Str} (h : ∀ c ∈ l, ok c = true ∧ c ≠ STX) {s s' : Str} (hs : Sh ok ρ s s') :
    Sh ok ρ (l ++ s) (l ++ s') := by
  induction l with
  | nil => exact hs
  | cons c l ih =>
    exact Sh.chr (h c (List.mem_cons_self ..)).1 (h c (List.mem_cons_self ..)).2
      (ih (fun x hx => h x (List.mem_cons_of_mem _ hx)))

end Sh

theorem placeholder_inner {i : Nat} (hi : i < 10000) : ∀ c ∈ placeholder i, innerL c = true ∨ innerR c = true := by
  obtain ⟨a, b, c, d, hp, -, ha, hb, hc, hd⟩ := placeholder_four hi
  rw [hp]
  intro x hx
  simp only [List.mem_cons, List.not_mem_nil, or_false] at hx
  rcases hx with rfl | rfl | rfl | rfl | rfl | rfl | rfl | rfl | rfl | rfl | rfl | rfl | rfl | rfl
  all_goals first
    | (left; decide)
    | (right; decide)
    | (left; exact innerL_of_digit (by assumption))

theorem flatMap_id_of_ne {x : Char} {b : Str} {l : Str} (h : ∀ c ∈ l, c ≠ x) :
    l.flatMap (fun c => if c = x then b else [c]) = l := by
  induction l with
  | nil => rfl
  | cons c l ih =>
    rw [List.flatMap_cons, if_neg (h c (List.mem_cons_self ..)), ih (fun y hy => h y (List.mem_cons_of_mem _ hy))]
    rfl

/-- `s.replace(x, b)` for a character `x` that cannot occur inside a cell -/
theorem Sh.replace_single {ok ok2 : Char → Bool} {ρ : Rho} {s s' : Str} (h : Sh ok ρ s s') {x : Char} {b : Str}
    (hxL : innerL x = false) (hxR : innerR x = false) (hb : ∀ c ∈ b, ok2 c = true ∧ c ≠ STX)
    (hok : ∀ c, ok c = true → ok2 c = true) : Sh ok2 ρ (replace s [x] b) (replace s' [x] b) := by
  rw [Py.replace_single, Py.replace_single]
  induction h with
  | nil => exact Sh.nil
  | @chr c s s' hc hs _ ih =>
    rw [List.flatMap_cons, List.flatMap_cons]
    split
    · exact Sh.of_chars hb ih
    · exact Sh.chr (hok _ hc) hs ih
  | @tok d s s' hd _ ih =>
    have h1 : ¬ STX = x := by intro h; subst h; exact absurd hxL (by decide)
    have h2 : ¬ d = x := by intro h; subst h; rw [innerL_of_digit hd] at hxL; cases hxL
    simp only [List.flatMap_cons, if_neg h1, if_neg h2]
    exact Sh.tok hd ih
  | @ph i i' s s' hr hi hi' _ ih =>
    have hne : ∀ {j}, j < 10000 → ∀ c ∈ placeholder j, c ≠ x := by
      intro j hj c hc hcx
      subst hcx
      rcases placeholder_inner hj c hc with h | h
      · rw [hxL] at h; cases h
      · rw [hxR] at h; cases h
    rw [List.flatMap_append, List.flatMap_append, flatMap_id_of_ne (hne hi), flatMap_id_of_ne (hne hi')]
    exact Sh.ph hr hi hi' ih

theorem replace_single_id {s : Str} {x : Char} (b : Str) (h : x ∉ s) : replace s [x] b = s := by
  rw [Py.replace_single]
  exact flatMap_id_of_ne (fun c hc hcx => h (by rw [← hcx]; exact hc))

theorem codeEscape_id {s : Str} (h1 : '&' ∉ s) (h2 : '<' ∉ s) (h3 : '>' ∉ s) : Inline.codeEscape s = s := by
  unfold Inline.codeEscape
  rw [replace_single_id _ h1, replace_single_id _ h2, replace_single_id _ h3]

theorem Sh.codeEscape {okD : Char → Bool} (H : OkD okD) {ρ : Rho} {s s' : Str} (h : Sh okD ρ s s') :
    Sh okD ρ (Inline.codeEscape s) (Inline.codeEscape s') := by
  have a := h.not_mem H.no_amp (by decide) (by decide) (by decide)
  have b := h.not_mem H.no_lt (by decide) (by decide) (by decide)
  have c := h.not_mem H.no_gt (by decide) (by decide) (by decide)
  rw [codeEscape_id a.1 b.1 c.1, codeEscape_id a.2 b.2 c.2]
  exact h

/-- the `\\` ↦ `STX 92 ETX` replacement on a run of backslashes -/
theorem plain_bs_replace {okD : Char → Bool} (H : OkD okD) (hbs : okD '\\' = true) : ∀ (n : Nat) (g : Str),
    g.length = n → (∀ c ∈ g, c = '\\') → Plain okD (replace g ['\\', '\\'] (STX :: '9' :: '2' :: [ETX])) := by
  intro n
  induction n using Nat.strongRecOn with
  | _ n ih =>
    intro g hl hg
    match g, hl, hg with
    | [], _, _ => rw [replace_nil]; exact Sh.nil
    | [c], _, hg =>
      have hc : c = '\\' := hg c (by simp)
      subst hc
      rw [replace_cons_of_not_startsWith (by decide), replace_nil]
      exact Sh.chr hbs (by decide) Sh.nil
    | c :: e :: r, hl, hg =>
      have hc : c = '\\' := hg c (by simp)
      have he : e = '\\' := hg e (by simp)
      subst hc; subst he
      rw [replace_of_startsWith (by simp) (by simp [startsWith])]
      have hr := ih r.length (by simp at hl; omega) r rfl (fun x hx => hg x (by simp [hx]))
      have : (['\\', '\\'] : Str).length = 2 := rfl
      simp only [this, List.drop_succ_cons, List.drop_zero]
      exact Sh.tok (d := '9') (by decide) (Sh.chr (H.digit '2' (by decide)) (by decide)
        (Sh.chr H.etx (by decide) hr))

end MdVerif.InlineLocal
