/-
C08, inline half — the inline stage keeps tag, attributes and (absent) tail of the top-level children, and inserts
nothing at top level when no top-level child has a tail.
-/
import MdVerif.Lemmas.InlineLocal.Main

namespace MdVerif.InlineLocal
open Py Inline

/-- what processing the text of an element leaves alone -/
def sigT (n : Node) : Tag × List (Str × Str) × Option Str × Bool × List Node :=
  (n.tag, n.attrs, n.tail, n.tailAtomic, n.children)

theorem linkText_sigT (t : Str) (a : Bool) (res : List Node) (p : Node) :
    sigT (linkText t a true res p).2 = sigT p := by
  unfold linkText
  split
  · rfl
  · split
    · split <;> rfl
    · simp only [Bool.not_true, Bool.false_eq_true, if_false]
      split <;> rfl

theorem ppLoop_sigT {stash : List StashItem} {nested : Node → Option Node} {data : Str} {atomic : Bool} :
    ∀ (g start : Nat) (res : List Node) (p : Node) (out : List Node) (q : Node),
    ppLoop stash nested data atomic true g start res p = some (out, q) → sigT q = sigT p := by
  intro g
  induction g with
  | zero => intro start res p out q h; simp [ppLoop] at h
  | succ g ih =>
    intro start res p out q h
    unfold ppLoop at h
    split at h
    · rename_i off hoff
      simp only [] at h
      split at h
      · rename_i item hitem
        have hpar : sigT (if start + off > 0 then linkText (slice data start (start + off)) false true res p
            else (res, p)).2 = sigT p := by
          split
          · exact linkText_sigT _ _ _ _
          · rfl
        generalize (if start + off > 0 then linkText (slice data start (start + off)) false true res p else (res, p)) = x
          at h hpar
        obtain ⟨x1, x2⟩ := x
        simp only [] at h hpar
        split at h
        · split at h
          · cases h
          · exact (ih _ _ _ _ _ h).trans hpar
        · rename_i s0
          have h2 := linkText_sigT s0 false x1 x2
          generalize linkText s0 false true x1 x2 = y at h h2
          obtain ⟨y1, y2⟩ := y
          simp only [] at h h2
          exact ((ih _ _ _ _ _ h).trans h2).trans hpar
      · have h2 := linkText_sigT (slice data start (start + off + phPrefixLen)) false res p
        generalize linkText (slice data start (start + off + phPrefixLen)) false true res p = y at h h2
        obtain ⟨y1, y2⟩ := y
        simp only [] at h h2
        exact (ih _ _ _ _ _ h).trans h2
    · have h2 := linkText_sigT (data.drop start) atomic res p
      generalize linkText (data.drop start) atomic true res p = y at h h2
      obtain ⟨y1, y2⟩ := y
      simp only [] at h h2
      cases h
      exact h2

theorem ppTop_sigT {st : St} {data : Str} {atomic : Bool} {parent : Node} {res : List Node} {p : Node}
    (h : ppTop st data atomic parent true = some (res, p)) : sigT p = sigT parent := by
  unfold ppTop at h
  generalize st.stash.length + 2 = f at h
  cases f with
  | zero => simp [processPlaceholders] at h
  | succ f =>
    simp only [processPlaceholders] at h
    split at h
    · cases h; rfl
    · exact ppLoop_sigT _ _ _ _ _ _ h

/-- tag, attributes, tail -/
def sig4 (n : Node) := InlineLocal.sig n

theorem vcText_shape {cfg : Cfg} {child c1 : Node} {lst : List Node} {st st1 : St}
    (h : vcText cfg child st = some (c1, lst, st1)) :
    sigT c1 = sigT child ∧ (Node.truthy child.text = false → c1 = child ∧ lst = []) := by
  unfold vcText at h
  split at h
  · rename_i hc
    simp only [Bool.and_eq_true] at hc
    split at h
    · cases h
    · split at h
      · cases h
      · rename_i l c q
        cases h
        have hq := ppTop_sigT q
        exact ⟨hq, fun hf => by rw [hf] at hc; exact absurd hc.1 (by decide)⟩
  · cases h; exact ⟨rfl, fun _ => ⟨rfl, rfl⟩⟩

theorem vcTail_shape {cfg : Cfg} {c1 c2 : Node} {tr : List Node} {st1 st2 : St}
    (h : vcTail cfg c1 st1 = some (c2, tr, st2)) (ht : Node.truthy c1.tail = false) : c2 = c1 ∧ tr = [] := by
  unfold vcTail at h
  rw [ht] at h
  simp only [Bool.false_eq_true, if_false] at h
  cases h; exact ⟨rfl, rfl⟩

theorem visitChild_shape {cfg : Cfg} {child c : Node} {tr : List Node} {v v1 : Visit}
    (h : visitChild cfg child v = some (c, tr, v1)) (ht : Node.truthy child.tail = false) :
    tr = [] ∧ sig c = sig child ∧
      (Node.truthy child.text = false → c.text = child.text ∧ c.children = child.children) := by
  rw [visitChild_eq] at h
  split at h
  · cases h
  · rename_i c1 lst st1 q1
    split at h
    · cases h
    · rename_i c2 tr2 st2 q2
      cases h
      obtain ⟨s1, s2⟩ := vcText_shape q1
      have ht1 : Node.truthy c1.tail = false := by
        have : c1.tail = child.tail := congrArg (fun x => x.2.2.1) s1
        rw [this]; exact ht
      obtain ⟨rfl, rfl⟩ := vcTail_shape q2 ht1
      refine ⟨rfl, ?_, ?_⟩
      · have e1 : c2.tag = child.tag := congrArg (fun x => x.1) s1
        have e2 : c2.attrs = child.attrs := congrArg (fun x => x.2.1) s1
        have e3 : c2.tail = child.tail := congrArg (fun x => x.2.2.1) s1
        have e4 : c2.tailAtomic = child.tailAtomic := congrArg (fun x => x.2.2.2.1) s1
        simp only [sig, e1, e2, e3, e4]
      · intro hf
        obtain ⟨rfl, rfl⟩ := s2 hf
        exact ⟨rfl, rfl⟩

/-- the shape of a top-level child that matters for rendering -/
def topSig (n : Node) : (Tag × List (Str × Str) × Option Str × Bool) × Bool × Bool :=
  (sig n, Node.truthy n.text, n.children.isEmpty)

theorem visitLoop_shape {cfg : Cfg} : ∀ (g : Nat) {todo : List (Node × Option Nat)} {v w : Visit},
    visitLoop cfg g todo v = some w → (∀ x ∈ todo, Node.truthy x.1.tail = false) →
    ∃ D, w.done = D ++ v.done ∧ D.reverse.map sig = todo.map (fun x => sig x.1) := by
  intro g
  induction g with
  | zero => intro todo v w h; simp [visitLoop] at h
  | succ g ih =>
    intro todo v w h ht
    cases todo with
    | nil => simp only [visitLoop] at h; cases h; exact ⟨[], rfl, rfl⟩
    | cons x todo =>
      obtain ⟨child, orig⟩ := x
      simp only [visitLoop] at h
      split at h
      · cases h
      · rename_i c tr v1 q
        obtain ⟨rfl, hs, -⟩ := visitChild_shape q (ht (child, orig) (List.mem_cons_self ..))
        simp only [List.map_nil, List.nil_append] at h
        obtain ⟨D, hD, hm⟩ := ih h (fun x hx => ht x (List.mem_cons_of_mem _ hx))
        have hd1 : v1.done = v.done := by
          rw [visitChild_eq] at q
          split at q
          · cases q
          · split at q
            · cases q
            · cases q; rfl
        refine ⟨D ++ [c], by rw [hD]; simp [hd1], ?_⟩
        simp only [List.reverse_append, List.reverse_cons, List.reverse_nil, List.nil_append, List.map_append,
          List.map_cons, List.map_nil, List.singleton_append, hs, hm]

/-- the top-level children keep tag, attributes and tail through the whole inline stage when none has a tail -/
theorem run_sig {cfg : Cfg} {cs : List Node} {h : List Str} {r : Node} {t : St}
    (e : Inline.run cfg (root cs) h = some (r, t)) (ht : ∀ c ∈ cs, Node.truthy c.tail = false) :
    r.children.map sig = cs.map sig := by
  unfold Inline.run at e
  obtain ⟨g', v, hv, D⟩ := runLoop_root (hdr := Node.el "div") (cs := cs) e
  obtain ⟨Dn, hD, hm⟩ := visitLoop_shape g' hv (by
    intro x hx
    have : x.1 ∈ (withIdx cs 0).map (·.1) := List.mem_map_of_mem hx
    rw [withIdx_map_fst] at this
    exact ht _ this)
  have hne : ∀ p ∈ v.pushes, p ≠ [] := by
    intro p hp
    have := visitLoop_pushes_hdLt hv p hp
    intro hnil; subst hnil; exact this
  have := (D.sig hne).2
  simp only [mk_children] at this
  rw [this, hD, List.append_nil, hm]
  have e2 : (withIdx cs 0).map (fun x => sig x.1) = ((withIdx cs 0).map (·.1)).map sig := by
    rw [List.map_map]; rfl
  rw [e2, withIdx_map_fst]

end MdVerif.InlineLocal
