/-
C08, inline half — `__processPlaceholders` on related texts over related stashes yields related nodes.
-/
import MdVerif.Lemmas.InlineLocal.HI

namespace MdVerif.InlineLocal
open Py Inline

section
variable {okD : Char → Bool} {ρ : Rho}

theorem NRelL.reverse : ∀ {l l' : List Node}, NRelL okD ρ l l' → NRelL okD ρ l.reverse l'.reverse
  | [], [], _ => by simp only [List.reverse_nil, NRelL]
  | a :: r, a' :: r', h => by
    simp only [NRelL] at h
    rw [List.reverse_cons, List.reverse_cons]
    exact NRelL.append (NRelL.reverse h.2) (by simp only [NRelL]; exact ⟨h.1, trivial⟩)
  | [], _ :: _, h => by simp only [NRelL] at h
  | _ :: _, [], h => by simp only [NRelL] at h

theorem isEmpty_of_sh {s s' : Str} (h : Sh okD ρ s s') : s.isEmpty = s'.isEmpty := by
  have := h.length_eq
  cases s <;> cases s' <;> simp_all

/-! ### `linkText` -/

theorem linkText_sim {t t' : Str} (ht : Sh okD ρ t t') (a isText : Bool) {res res' : List Node} {p p' : Node}
    (hr : NRelL okD ρ res res') (hp : NRel okD ρ p p') :
    NRelL okD ρ (linkText t a isText res p).1 (linkText t' a isText res' p').1 ∧
    NRel okD ρ (linkText t a isText res p).2 (linkText t' a isText res' p').2 := by
  unfold linkText
  rw [← isEmpty_of_sh ht]
  split
  · exact ⟨hr, hp⟩
  · match res, res', hr with
    | l :: r, l' :: r', hr =>
      simp only [NRelL] at hr
      obtain ⟨g1, g2, g3, g4, g5, g6, g7⟩ := NRel.iff.1 hr.1
      have htr : Node.truthy l.tail = Node.truthy l'.tail := truthy_of_sh g6
      simp only [← htr]
      split
      · refine ⟨?_, hp⟩
        simp only [NRelL]
        refine ⟨NRel.iff.2 ⟨g1, g2, g3, rfl, g5, ?_, g7⟩, hr.2⟩
        match l.tail, l'.tail, g6 with
        | some x, some x', g6 => exact Sh.append (show Sh okD ρ x x' from g6) ht
        | none, none, _ => exact ht
      · refine ⟨?_, hp⟩
        simp only [NRelL]
        exact ⟨NRel.iff.2 ⟨g1, g2, g3, rfl, g5, ht, g7⟩, hr.2⟩
    | [], [], _ =>
      obtain ⟨g1, g2, g3, g4, g5, g6, g7⟩ := NRel.iff.1 hp
      have htl : Node.truthy p.tail = Node.truthy p'.tail := truthy_of_sh g6
      have htx : Node.truthy p.text = Node.truthy p'.text := truthy_of_sh g5
      simp only [← htl, ← htx]
      have hnil : NRelL okD ρ [] [] := by simp only [NRelL]
      split
      · split
        · refine ⟨hnil, NRel.iff.2 ⟨g1, g2, g3, rfl, g5, ?_, g7⟩⟩
          match p.tail, p'.tail, g6 with
          | some x, some x', g6 => exact Sh.append (show Sh okD ρ x x' from g6) ht
          | none, none, _ => exact ht
        · exact ⟨hnil, NRel.iff.2 ⟨g1, g2, g3, rfl, g5, ht, g7⟩⟩
      · split
        · refine ⟨hnil, NRel.iff.2 ⟨g1, g2, rfl, g4, ?_, g6, g7⟩⟩
          match p.text, p'.text, g5 with
          | some x, some x', g5 => exact Sh.append (show Sh okD ρ x x' from g5) ht
          | none, none, _ => exact ht
        · exact ⟨hnil, NRel.iff.2 ⟨g1, g2, rfl, g4, ht, g6, g7⟩⟩
    | [], _ :: _, hr => simp only [NRelL] at hr
    | _ :: _, [], hr => simp only [NRelL] at hr

/-! ### finding the next placeholder -/

theorem startsWith_phPrefix_false {c : Char} (s : Str) (h : c ≠ STX) : startsWith (c :: s) phPrefix = false := by
  simp [phPrefix, startsWith, h]

theorem startsWith_tok_false {d : Char} (s : Str) (h : isAsciiDigit d = true) :
    startsWith (STX :: d :: s) phPrefix = false := by
  have : d ≠ 'k' := by intro h'; subst h'; exact absurd h (by decide)
  simp [phPrefix, startsWith, this]

theorem find_phPrefix_placeholder (i : Nat) (s : Str) : find phPrefix (placeholder i ++ s) = some 0 := by
  have : placeholder i ++ s = phPrefix ++ (pad4 i ++ [ETX] ++ s) := by simp [placeholder]
  rw [this]
  cases h : phPrefix ++ (pad4 i ++ [ETX] ++ s) with
  | nil => simp [phPrefix] at h
  | cons c r => rw [find_cons, ← h, startsWith_append]; rfl

/-- the text up to the next placeholder cell -/
theorem find_ph_cases {s s' : Str} (h : Sh okD ρ s s') :
    (find phPrefix s = none ∧ find phPrefix s' = none) ∨
    ∃ a a' i i' r r', s = a ++ (placeholder i ++ r) ∧ s' = a' ++ (placeholder i' ++ r') ∧ Sh okD ρ a a' ∧ ρ i i' ∧
      i < 10000 ∧ i' < 10000 ∧ Sh okD ρ r r' ∧ find phPrefix s = some a.length ∧ find phPrefix s' = some a.length := by
  induction h with
  | nil => left; exact ⟨rfl, rfl⟩
  | @chr c s s' hc hs hr ih =>
    rcases ih with ⟨h1, h2⟩ | ⟨a, a', i, i', r, r', e1, e2, ha, hρ, hi, hi', hrr, f1, f2⟩
    · left
      constructor
      · rw [find_cons, startsWith_phPrefix_false _ hs, h1]; rfl
      · rw [find_cons, startsWith_phPrefix_false _ hs, h2]; rfl
    · right
      refine ⟨c :: a, c :: a', i, i', r, r', by rw [e1]; rfl, by rw [e2]; rfl, Sh.chr hc hs ha, hρ, hi, hi', hrr, ?_, ?_⟩
      · rw [find_cons, startsWith_phPrefix_false _ hs, f1]; rfl
      · rw [find_cons, startsWith_phPrefix_false _ hs, f2]; rfl
  | @tok d s s' hd hr ih =>
    have hds : d ≠ STX := by intro h'; subst h'; exact absurd hd (by decide)
    rcases ih with ⟨h1, h2⟩ | ⟨a, a', i, i', r, r', e1, e2, ha, hρ, hi, hi', hrr, f1, f2⟩
    · left
      constructor
      · rw [find_cons, startsWith_tok_false _ hd, find_cons, startsWith_phPrefix_false _ hds, h1]; rfl
      · rw [find_cons, startsWith_tok_false _ hd, find_cons, startsWith_phPrefix_false _ hds, h2]; rfl
    · right
      refine ⟨STX :: d :: a, STX :: d :: a', i, i', r, r', by rw [e1]; rfl, by rw [e2]; rfl, Sh.tok hd ha, hρ, hi, hi',
        hrr, ?_, ?_⟩
      · rw [find_cons, startsWith_tok_false _ hd, find_cons, startsWith_phPrefix_false _ hds, f1]; rfl
      · rw [find_cons, startsWith_tok_false _ hd, find_cons, startsWith_phPrefix_false _ hds, f2]; rfl
  | @ph i i' s s' hr hi hi' hs _ =>
    right
    exact ⟨[], [], i, i', s, s', rfl, rfl, Sh.nil, hr, hi, hi', hs, find_phPrefix_placeholder _ _,
      find_phPrefix_placeholder _ _⟩

theorem etx_not_digit : isAsciiDigit ETX = false := by decide

/-- `__findPlaceholder` at a placeholder cell -/
theorem findPh_at {data : Str} {index i : Nat} {r : Str} (hi : i < 10000) (h : data.drop index = placeholder i ++ r) :
    findPh data index = (some (pad4 i), index + 14) := by
  obtain ⟨a, b, c, d, hp, hpad, ha, hb, hc, hd⟩ := placeholder_four hi
  have hle : ¬ index > data.length := by
    intro hgt
    rw [List.drop_eq_nil_of_le (by omega), hp] at h
    cases h
  unfold findPh
  rw [if_neg hle, h, hp]
  have e : findPhScan ([STX, 'k', 'l', 'z', 'z', 'w', 'x', 'h', ':', a, b, c, d, ETX] ++ r) index =
      some ([a, b, c, d], index + 14) := by
    simp only [List.cons_append, List.nil_append, findPhScan]
    have hs : startsWith (STX :: 'k' :: 'l' :: 'z' :: 'z' :: 'w' :: 'x' :: 'h' :: ':' :: a :: b :: c :: d :: ETX :: r)
        phPrefix = true := by
      simp [phPrefix, startsWith]
    have hph : phAt (a :: b :: c :: d :: ETX :: r) = some ([a, b, c, d], 5) := by
      unfold phAt
      simp [spanLen_cons, ha, hb, hc, hd, etx_not_digit]
    simp only [hs, phPrefixLen, List.drop_succ_cons, List.drop_zero, hph, Bool.and_true, decide_true, if_true]
  rw [e, hpad]

theorem stashGet_pad4 (stash : List StashItem) (i : Nat) : stashGet stash (pad4 i) = stash[i]? := by
  simp [stashGet]

/-! ### the loop -/

/-- relation of the two stashes as `ppLoop` uses it -/
def LK (okD : Char → Bool) (ρ : Rho) (stash stash' : List StashItem) : Prop :=
  ∀ i i', ρ i i' → ∃ it it', stash[i]? = some it ∧ stash'[i']? = some it' ∧ ItemRel okD ρ it it'

def NSim (okD : Char → Bool) (ρ : Rho) (nested nested' : Node → Option Node) : Prop :=
  ∀ n n' m m', NRel okD ρ n n' → nested n = some m → nested' n' = some m' → NRel okD ρ m m'

theorem find_guard (data : Str) (start : Nat) :
    (if start > data.length then none else find phPrefix (data.drop start)) = find phPrefix (data.drop start) := by
  split
  · rw [List.drop_eq_nil_of_le (by omega)]; rfl
  · rfl

theorem slice_eq_take_drop (data : Str) (a n : Nat) : slice data a (a + n) = (data.drop a).take n := by
  unfold slice
  rw [List.drop_take, Nat.add_sub_cancel_left]

theorem ppLoop_sim {stash stash' : List StashItem} (hlk : LK okD ρ stash stash') {nested nested' : Node → Option Node}
    (hn : NSim okD ρ nested nested') (atomic isText : Bool) {data data' : Str} (hlen : data.length = data'.length) :
    ∀ (g start : Nat) (res res' : List Node) (p p' : Node) (out out' : List Node) (q q' : Node),
    Sh okD ρ (data.drop start) (data'.drop start) → NRelL okD ρ res res' → NRel okD ρ p p' →
    ppLoop stash nested data atomic isText g start res p = some (out, q) →
    ppLoop stash' nested' data' atomic isText g start res' p' = some (out', q') →
    NRelL okD ρ out out' ∧ NRel okD ρ q q' := by
  intro g
  induction g with
  | zero => intro start res res' p p' out out' q q' _ _ _ h; simp [ppLoop] at h
  | succ g ih =>
    intro start res res' p p' out out' q q' hs hr hp h h'
    unfold ppLoop at h h'
    rw [find_guard] at h h'
    rcases find_ph_cases hs with ⟨f1, f2⟩ | ⟨a, a', i, i', r, r', e1, e2, ha, hρ, hi, hi', hrr, f1, f2⟩
    · rw [f1] at h; rw [f2] at h'
      simp only [] at h h'
      have := linkText_sim hs atomic isText hr hp
      cases h; cases h'
      exact ⟨NRelL.reverse this.1, this.2⟩
    · rw [f1] at h; rw [f2] at h'
      simp only [] at h h'
      have hal : a.length = a'.length := ha.length_eq
      have d1 : data.drop (start + a.length) = placeholder i ++ r := by
        rw [← List.drop_drop, e1, List.drop_left]
      have d2 : data'.drop (start + a.length) = placeholder i' ++ r' := by
        rw [← List.drop_drop, e2, hal, List.drop_left]
      rw [findPh_at hi d1] at h
      rw [findPh_at hi' d2] at h'
      obtain ⟨it, it', l1, l2, hit⟩ := hlk i i' hρ
      simp only [Option.bind_some, stashGet_pad4, l1, l2] at h h'
      -- the text in front of the cell
      have hsl : slice data start (start + a.length) = a := by
        rw [slice_eq_take_drop, e1, List.take_left]
      have hsl' : slice data' start (start + a.length) = a' := by
        rw [slice_eq_take_drop, e2, hal, List.take_left]
      rw [hsl] at h; rw [hsl'] at h'
      have hlt := linkText_sim ha false isText hr hp
      have hpair : NRelL okD ρ (if start + a.length > 0 then linkText a false isText res p else (res, p)).1
          (if start + a.length > 0 then linkText a' false isText res' p' else (res', p')).1 ∧
          NRel okD ρ (if start + a.length > 0 then linkText a false isText res p else (res, p)).2
          (if start + a.length > 0 then linkText a' false isText res' p' else (res', p')).2 := by
        split
        · exact hlt
        · exact ⟨hr, hp⟩
      have hnext : Sh okD ρ (data.drop (start + a.length + 14)) (data'.drop (start + a.length + 14)) := by
        have l14 : (placeholder i).length = 14 := by
          obtain ⟨_, _, _, _, hp, -⟩ := placeholder_four hi; rw [hp]; rfl
        have l14' : (placeholder i').length = 14 := by
          obtain ⟨_, _, _, _, hp, -⟩ := placeholder_four hi'; rw [hp]; rfl
        rw [← List.drop_drop, d1, ← List.drop_drop, d2, ← l14, List.drop_left, l14, ← l14', List.drop_left]
        exact hrr
      match it, it', hit with
      | .node n, .node n', hit =>
        simp only [] at h h'
        generalize hx : (if start + a.length > 0 then linkText a false isText res p else (res, p)) = x at h hpair
        generalize hx' : (if start + a.length > 0 then linkText a' false isText res' p' else (res', p')) = x' at h' hpair
        obtain ⟨x1, x2⟩ := x
        obtain ⟨x1', x2'⟩ := x'
        simp only [] at h h'
        split at h
        · cases h
        · rename_i m hm
          split at h'
          · cases h'
          · rename_i m' hm'
            have hmm := hn n n' m m' hit hm hm'
            exact ih _ _ _ _ _ _ _ _ _ hnext (by simp only [NRelL]; exact ⟨hmm, hpair.1⟩) hpair.2 h h'
      | .str s, .str s', hit =>
        obtain ⟨rfl, hpl⟩ := hit
        simp only [] at h h'
        generalize hx : (if start + a.length > 0 then linkText a false isText res p else (res, p)) = x at h hpair
        generalize hx' : (if start + a.length > 0 then linkText a' false isText res' p' else (res', p')) = x' at h' hpair
        obtain ⟨x1, x2⟩ := x
        obtain ⟨x1', x2'⟩ := x'
        simp only [] at h h'
        have h2 := linkText_sim (hpl.sh ρ) false isText hpair.1 hpair.2
        generalize hy : linkText s false isText x1 x2 = y at h h2
        generalize hy' : linkText s false isText x1' x2' = y' at h' h2
        obtain ⟨y1, y2⟩ := y
        obtain ⟨y1', y2'⟩ := y'
        simp only [] at h h'
        exact ih _ _ _ _ _ _ _ _ _ hnext h2.1 h2.2 h h'

/-! ### `procNode`, `processPlaceholders` -/

def PPSim (okD : Char → Bool) (ρ : Rho) (pp pp' : PP) : Prop :=
  ∀ (data data' : Str) (atomic : Bool) (parent parent' : Node) (isText : Bool) (res res' : List Node) (p p' : Node),
    Sh okD ρ data data' → NRel okD ρ parent parent' →
    pp data atomic parent isText = some (res, p) → pp' data' atomic parent' isText = some (res', p') →
    NRelL okD ρ res res' ∧ NRel okD ρ p p'

theorem blankOpt_of_rel {t t' : Option Str} (h : ORel (Sh okD ρ) t t') : blankOpt t = blankOpt t' := by
  unfold blankOpt isBlank
  match t, t', h with
  | none, none, _ => rfl
  | some a, some b, h => exact PW.all resp_isSpace (show Sh okD ρ a b from h).pw

theorem getD_rel {t t' : Option Str} (h : ORel (Sh okD ρ) t t') : Sh okD ρ (t.getD []) (t'.getD []) := by
  match t, t', h with
  | none, none, _ => exact Sh.nil
  | some a, some b, h => exact h

theorem petTail_sim {pp pp' : PP} (hpp : PPSim okD ρ pp pp') {c c' c1 c1' : Node} {res res' : List Node}
    (hc : NRel okD ρ c c') (h : petTail pp c = some (c1, res)) (h' : petTail pp' c' = some (c1', res')) :
    NRel okD ρ c1 c1' ∧ NRelL okD ρ res res' := by
  obtain ⟨g1, g2, g3, g4, g5, g6, g7⟩ := NRel.iff.1 hc
  unfold petTail at h h'
  rw [← truthy_of_sh g6, ← blankOpt_of_rel g6, ← g4] at h'
  split at h
  · rename_i hcond
    rw [if_pos hcond] at h'
    split at h
    · rename_i r x hx
      split at h'
      · rename_i r' x' hx'
        cases h; cases h'
        have hpar : NRel okD ρ { c with tail := none, tailAtomic := false } { c' with tail := none, tailAtomic := false } :=
          NRel.iff.2 ⟨g1, g2, g3, rfl, g5, trivial, g7⟩
        have := hpp _ _ _ _ _ _ _ _ _ _ (getD_rel g6) hpar hx hx'
        exact ⟨this.2, this.1⟩
      · cases h'
    · cases h
  · rename_i hcond
    rw [if_neg hcond] at h'
    cases h; cases h'
    exact ⟨hc, by simp only [NRelL]⟩

theorem petText_sim {pp pp' : PP} (hpp : PPSim okD ρ pp pp') {c c' c1 c1' : Node}
    (hc : NRel okD ρ c c') (h : petText pp c = some c1) (h' : petText pp' c' = some c1') : NRel okD ρ c1 c1' := by
  obtain ⟨g1, g2, g3, g4, g5, g6, g7⟩ := NRel.iff.1 hc
  unfold petText at h h'
  rw [← truthy_of_sh g5, ← blankOpt_of_rel g5, ← g3] at h'
  split at h
  · rename_i hcond
    rw [if_pos hcond] at h'
    split at h
    · rename_i r x hx
      split at h'
      · rename_i r' x' hx'
        cases h; cases h'
        have hpar : NRel okD ρ { c with text := none, textAtomic := false } { c' with text := none, textAtomic := false } :=
          NRel.iff.2 ⟨g1, g2, rfl, g4, trivial, g6, g7⟩
        have := hpp _ _ _ _ _ _ _ _ _ _ (getD_rel g5) hpar hx hx'
        obtain ⟨y1, y2, y3, y4, y5, y6, y7⟩ := NRel.iff.1 this.2
        exact NRel.iff.2 ⟨y1, y2, y3, y4, y5, y6, NRelL.append this.1 y7⟩
      · cases h'
    · cases h
  · rename_i hcond
    rw [if_neg hcond] at h'
    cases h; cases h'
    exact hc

theorem procKids_sim {pp pp' : PP} (hpp : PPSim okD ρ pp pp') : ∀ {l l' out out' : List Node}, NRelL okD ρ l l' →
    procKids pp l = some out → procKids pp' l' = some out' → NRelL okD ρ out out' := by
  intro l
  induction l with
  | nil =>
    intro l' out out' hl h h'
    cases l' with
    | nil => simp only [procKids] at h h'; cases h; cases h'; exact hl
    | cons _ _ => simp only [NRelL] at hl
  | cons c r ih =>
    intro l' out out' hl h h'
    cases l' with
    | nil => simp only [NRelL] at hl
    | cons c' r' =>
      simp only [NRelL] at hl
      simp only [procKids] at h h'
      split at h
      · cases h
      · rename_i c1 res q1
        split at h
        · cases h
        · rename_i c2 q2
          split at h
          · cases h
          · rename_i rr q3
            split at h'
            · cases h'
            · rename_i c1' res' q1'
              split at h'
              · cases h'
              · rename_i c2' q2'
                split at h'
                · cases h'
                · rename_i rr' q3'
                  cases h; cases h'
                  have t1 := petTail_sim hpp hl.1 q1 q1'
                  have t2 := petText_sim hpp t1.1 q2 q2'
                  have t3 := ih hl.2 q3 q3'
                  have : NRelL okD ρ ([c2] ++ (res ++ rr)) ([c2'] ++ (res' ++ rr')) :=
                    NRelL.append (by simp only [NRelL]; exact ⟨t2, trivial⟩) (NRelL.append t1.2 t3)
                  simpa using this

theorem procNode_sim {pp pp' : PP} (hpp : PPSim okD ρ pp pp') : NSim okD ρ (procNode pp) (procNode pp') := by
  intro n n' m m' hn h h'
  obtain ⟨g1, g2, g3, g4, g5, g6, g7⟩ := NRel.iff.1 hn
  unfold procNode at h h'
  simp only [] at h h'
  split at h
  · cases h
  · rename_i n1 tr q1
    split at h
    · cases h
    · rename_i n2 q2
      split at h
      · cases h
      · rename_i kids q3
        split at h'
        · cases h'
        · rename_i n1' tr' q1'
          split at h'
          · cases h'
          · rename_i n2' q2'
            split at h'
            · cases h'
            · rename_i kids' q3'
              cases h; cases h'
              have t1 := petTail_sim hpp (NRel.iff.2 ⟨g1, g2, g3, g4, g5, g6, by simp only [NRelL]⟩ :
                NRel okD ρ { n with children := [] } { n' with children := [] }) q1 q1'
              have t2 := petText_sim hpp t1.1 q2 q2'
              have t3 := procKids_sim hpp g7 q3 q3'
              obtain ⟨y1, y2, y3, y4, y5, y6, y7⟩ := NRel.iff.1 t2
              exact NRel.iff.2 ⟨y1, y2, y3, y4, y5, y6, NRelL.append (NRelL.append y7 t1.2) t3⟩

theorem processPlaceholders_sim {stash stash' : List StashItem} (hlk : LK okD ρ stash stash') :
    ∀ (f f' : Nat), PPSim okD ρ (fun d a p t => processPlaceholders stash f d a p t)
      (fun d a p t => processPlaceholders stash' f' d a p t) := by
  intro f
  induction f with
  | zero => intro f' data data' atomic parent parent' isText res res' p p' _ _ h; simp [processPlaceholders] at h
  | succ f ih =>
    intro f'
    cases f' with
    | zero => intro data data' atomic parent parent' isText res res' p p' _ _ _ h; simp [processPlaceholders] at h
    | succ f' =>
      intro data data' atomic parent parent' isText res res' p p' hd hp h h'
      simp only [processPlaceholders] at h h'
      rw [← isEmpty_of_sh hd] at h'
      split at h
      · rename_i he
        rw [if_pos he] at h'
        cases h; cases h'
        exact ⟨by simp only [NRelL], hp⟩
      · rename_i he
        rw [if_neg he, ← hd.length_eq] at h'
        exact ppLoop_sim hlk (procNode_sim (ih f')) atomic isText hd.length_eq _ 0 [] [] parent parent' res res' p p'
          (by simpa using hd) (by simp only [NRelL]) hp h h'

theorem StRel.lk {st st' : St} (h : StRel okD ρ st st') : LK okD ρ st.stash st'.stash := h

theorem ppTop_sim {st st' : St} (hst : StRel okD ρ st st') {data data' : Str} (hd : Sh okD ρ data data')
    {parent parent' : Node} (hp : NRel okD ρ parent parent') (atomic isText : Bool) {res res' : List Node} {p p' : Node}
    (h : ppTop st data atomic parent isText = some (res, p))
    (h' : ppTop st' data' atomic parent' isText = some (res', p')) :
    NRelL okD ρ res res' ∧ NRel okD ρ p p' := by
  unfold ppTop at h h'
  exact processPlaceholders_sim hst.lk _ _ data data' atomic parent parent' isText res res' p p' hd hp h h'

end

end MdVerif.InlineLocal
