/-
C08, inline half — the renaming relation on texts.

`Sh ok ρ s s'`: the strings `s`, `s'` are the same sequence of *cells*; a cell is a plain character (≠ STX, allowed by
`ok`), an escape token head `STX d` (`d` an ASCII digit: what the escape patterns make), or a complete inline
placeholder `STX klzzwxh:NNNN ETX` whose ids are related by `ρ` (both below 10000, so that both have four digits).
Ids are only names: everything the inline engine does maps `Sh`-related texts to `Sh`-related texts.
Core Lean only.
-/
import MdVerif.Model.Inline
import MdVerif.Lemmas.PyBasic

namespace MdVerif.InlineLocal
open Py Inline

abbrev Rho := Nat → Nat → Prop

/-- plain characters of atomic strings -/
def okA : Char → Bool := fun c => c != STX

inductive Sh (ok : Char → Bool) (ρ : Rho) : Str → Str → Prop
  | nil : Sh ok ρ [] []
  | chr {c : Char} {s s' : Str} : ok c = true → c ≠ STX → Sh ok ρ s s' → Sh ok ρ (c :: s) (c :: s')
  | tok {d : Char} {s s' : Str} : isAsciiDigit d = true → Sh ok ρ s s' → Sh ok ρ (STX :: d :: s) (STX :: d :: s')
  | ph {i i' : Nat} {s s' : Str} : ρ i i' → i < 10000 → i' < 10000 → Sh ok ρ s s' →
      Sh ok ρ (placeholder i ++ s) (placeholder i' ++ s')

/-- no placeholder cell at all: the text is the same on both sides -/
def Plain (ok : Char → Bool) (s : Str) : Prop := Sh ok (fun _ _ => False) s s

/-! ### four digits -/

theorem natToDec_length_le4 {n : Nat} (h : n < 10000) : (natToDec n).length ≤ 4 := by
  by_cases h1 : n < 10
  · rw [natToDec_of_lt h1]; simp
  · rw [natToDec_of_ge (by omega)]
    by_cases h2 : n / 10 < 10
    · rw [natToDec_of_lt h2]; simp
    · rw [natToDec_of_ge (by omega)]
      by_cases h3 : n / 10 / 10 < 10
      · rw [natToDec_of_lt h3]; simp
      · rw [natToDec_of_ge (by omega)]
        have h4 : n / 10 / 10 / 10 < 10 := by omega
        rw [natToDec_of_lt h4]; simp

theorem pad4_four {n : Nat} (h : n < 10000) :
    ∃ a b c d, pad4 n = [a, b, c, d] ∧ isAsciiDigit a = true ∧ isAsciiDigit b = true ∧ isAsciiDigit c = true ∧
      isAsciiDigit d = true := by
  have hl : (pad4 n).length = 4 := by
    rw [pad4_length_eq]; have := natToDec_length_le4 h; omega
  have hd := pad4_digits n
  match hp : pad4 n, hl with
  | [a, b, c, d], _ =>
    rw [hp] at hd
    exact ⟨a, b, c, d, rfl, hd a (by simp), hd b (by simp), hd c (by simp), hd d (by simp)⟩

theorem placeholder_eq (i : Nat) :
    placeholder i = STX :: 'k' :: 'l' :: 'z' :: 'z' :: 'w' :: 'x' :: 'h' :: ':' :: (pad4 i ++ [ETX]) := by
  simp [placeholder, phPrefix]

theorem placeholder_four {i : Nat} (h : i < 10000) :
    ∃ a b c d, placeholder i = [STX, 'k', 'l', 'z', 'z', 'w', 'x', 'h', ':', a, b, c, d, ETX] ∧
      pad4 i = [a, b, c, d] ∧
      isAsciiDigit a = true ∧ isAsciiDigit b = true ∧ isAsciiDigit c = true ∧ isAsciiDigit d = true := by
  obtain ⟨a, b, c, d, hp, ha, hb, hc, hd⟩ := pad4_four h
  exact ⟨a, b, c, d, by rw [placeholder_eq, hp]; rfl, hp, ha, hb, hc, hd⟩

theorem take_len_add {α} (l s : List α) (q : Nat) : (l ++ s).take (l.length + q) = l ++ s.take q := by
  induction l with
  | nil => simp
  | cons a l ih => simpa [Nat.succ_add] using ih

theorem drop_len_add {α} (l s : List α) (q : Nat) : (l ++ s).drop (l.length + q) = s.drop q := by
  induction l with
  | nil => simp
  | cons a l ih => simpa [Nat.succ_add] using ih

/-! ### basic closure properties -/

namespace Sh
variable {ok : Char → Bool} {ρ : Rho}

theorem length_eq {s s' : Str} (h : Sh ok ρ s s') : s.length = s'.length := by
  induction h with
  | nil => rfl
  | chr _ _ _ ih => simp [ih]
  | tok _ _ ih => simp [ih]
  | @ph i i' s s' _ hi hi' _ ih =>
    obtain ⟨a, b, c, d, hp, -⟩ := placeholder_four hi
    obtain ⟨a', b', c', d', hp', -⟩ := placeholder_four hi'
    simp [hp, hp', ih]

theorem append {a a' b b' : Str} (h1 : Sh ok ρ a a') (h2 : Sh ok ρ b b') : Sh ok ρ (a ++ b) (a' ++ b') := by
  induction h1 with
  | nil => exact h2
  | chr hc hs _ ih => exact Sh.chr hc hs ih
  | tok hd _ ih => exact Sh.tok hd ih
  | ph hr hi hi' _ ih => simpa [List.append_assoc] using Sh.ph hr hi hi' ih

theorem mono {ok₂ : Char → Bool} {ρ₂ : Rho} (hok : ∀ c, ok c = true → ok₂ c = true) (hρ : ∀ i i', ρ i i' → ρ₂ i i')
    {s s' : Str} (h : Sh ok ρ s s') : Sh ok₂ ρ₂ s s' := by
  induction h with
  | nil => exact Sh.nil
  | chr hc hs _ ih => exact Sh.chr (hok _ hc) hs ih
  | tok hd _ ih => exact Sh.tok hd ih
  | ph hr hi hi' _ ih => exact Sh.ph (hρ _ _ hr) hi hi' ih

theorem head_eq {s s' : Str} (h : Sh ok ρ s s') : s.head? = s'.head? := by
  cases h with
  | nil => rfl
  | chr => rfl
  | tok => rfl
  | ph _ hi hi' _ =>
    obtain ⟨a, b, c, d, hp, -⟩ := placeholder_four hi
    obtain ⟨a', b', c', d', hp', -⟩ := placeholder_four hi'
    simp [hp, hp']

/-- a text that starts with a character other than STX starts with a plain cell -/
theorem cut_one {c : Char} {t s' : Str} (h : Sh ok ρ (c :: t) s') (hc : c ≠ STX) :
    ∃ t', s' = c :: t' ∧ Sh ok ρ t t' ∧ ok c = true := by
  generalize hs : c :: t = s at h
  cases h with
  | nil => cases hs
  | chr hk _ hr => cases hs; exact ⟨_, rfl, hr, hk⟩
  | tok => cases hs; exact absurd rfl hc
  | ph _ hi _ _ =>
    obtain ⟨a, b, c', d, hp, -⟩ := placeholder_four hi
    rw [hp] at hs; cases hs; exact absurd rfl hc

end Sh

/-! ### cutting at a delimiter -/

/-- characters that can stand directly before a position inside a cell -/
def innerL (c : Char) : Bool :=
  isAsciiDigit c || c == STX || c == 'k' || c == 'l' || c == 'z' || c == 'w' || c == 'x' || c == 'h' || c == ':'

/-- characters that can stand directly after a position inside a cell -/
def innerR (c : Char) : Bool :=
  isAsciiDigit c || c == ETX || c == 'k' || c == 'l' || c == 'z' || c == 'w' || c == 'x' || c == 'h' || c == ':'

theorem innerR_of_digit {c : Char} (h : isAsciiDigit c = true) : innerR c = true := by simp [innerR, h]
theorem innerL_of_digit {c : Char} (h : isAsciiDigit c = true) : innerL c = true := by simp [innerL, h]

namespace Sh
variable {ok : Char → Bool} {ρ : Rho}

theorem cut_zero {s s' : Str} (h : Sh ok ρ s s') : Sh ok ρ (s.take 0) (s'.take 0) ∧ Sh ok ρ (s.drop 0) (s'.drop 0) :=
  ⟨Sh.nil, h⟩

theorem cut_end {s s' : Str} (h : Sh ok ρ s s') {p : Nat} (hp : s.length ≤ p) :
    Sh ok ρ (s.take p) (s'.take p) ∧ Sh ok ρ (s.drop p) (s'.drop p) := by
  have := h.length_eq
  rw [List.take_of_length_le hp, List.take_of_length_le (by omega), List.drop_eq_nil_of_le hp,
    List.drop_eq_nil_of_le (by omega)]
  exact ⟨h, Sh.nil⟩

/-- cut in front of a character that cannot be the inside of a cell -/
theorem cut_before {s s' : Str} (h : Sh ok ρ s s') : ∀ {p : Nat} {δ : Char}, s[p]? = some δ → innerR δ = false →
    Sh ok ρ (s.take p) (s'.take p) ∧ Sh ok ρ (s.drop p) (s'.drop p) := by
  induction h with
  | nil => intro p δ h; simp at h
  | @chr c s s' hc hs hr ih =>
    intro p δ hp hδ
    cases p with
    | zero => exact ⟨Sh.nil, Sh.chr hc hs hr⟩
    | succ p =>
      have := ih (p := p) (δ := δ) (by simpa using hp) hδ
      exact ⟨by simpa using Sh.chr hc hs this.1, by simpa using this.2⟩
  | @tok d s s' hd hr ih =>
    intro p δ hp hδ
    match p with
    | 0 => exact ⟨Sh.nil, Sh.tok hd hr⟩
    | 1 =>
      simp at hp; subst hp
      rw [innerR_of_digit hd] at hδ; cases hδ
    | p + 2 =>
      have := ih (p := p) (δ := δ) (by simpa using hp) hδ
      exact ⟨by simpa using Sh.tok hd this.1, by simpa using this.2⟩
  | @ph i i' s s' hr hi hi' hs ih =>
    intro p δ hp hδ
    obtain ⟨a, b, c, d, hpl, -, ha, hb, hc, hd⟩ := placeholder_four hi
    obtain ⟨a', b', c', d', hpl', -⟩ := placeholder_four hi'
    by_cases hlt : p < 14
    · by_cases h0 : p = 0
      · subst h0; exact ⟨Sh.nil, Sh.ph hr hi hi' hs⟩
      · exfalso
        rw [hpl] at hp
        have hp' : p = 1 ∨ p = 2 ∨ p = 3 ∨ p = 4 ∨ p = 5 ∨ p = 6 ∨ p = 7 ∨ p = 8 ∨ p = 9 ∨ p = 10 ∨ p = 11 ∨
            p = 12 ∨ p = 13 := by omega
        rcases hp' with h | h | h | h | h | h | h | h | h | h | h | h | h <;> subst h <;> simp at hp <;> subst hp <;>
          first
            | (rw [innerR_of_digit (by assumption)] at hδ; cases hδ)
            | (revert hδ; decide)
    · obtain ⟨q, rfl⟩ : ∃ q, p = 14 + q := ⟨p - 14, by omega⟩
      have hlen : (placeholder i).length = 14 := by rw [hpl]; rfl
      have hlen' : (placeholder i').length = 14 := by rw [hpl']; rfl
      have hq : s[q]? = some δ := by
        rw [List.getElem?_append_right (by omega)] at hp
        simpa [hlen] using hp
      have := ih hq hδ
      have e1 := take_len_add (placeholder i) s q
      have e2 := take_len_add (placeholder i') s' q
      have e3 := drop_len_add (placeholder i) s q
      have e4 := drop_len_add (placeholder i') s' q
      rw [hlen] at e1 e3; rw [hlen'] at e2 e4
      rw [e1, e2, e3, e4]
      exact ⟨Sh.ph hr hi hi' this.1, this.2⟩

/-- cut behind a character that cannot be the inside of a cell -/
theorem cut_after {s s' : Str} (h : Sh ok ρ s s') : ∀ {p : Nat} {δ : Char}, s[p]? = some δ → innerL δ = false →
    Sh ok ρ (s.take (p + 1)) (s'.take (p + 1)) ∧ Sh ok ρ (s.drop (p + 1)) (s'.drop (p + 1)) := by
  induction h with
  | nil => intro p δ h; simp at h
  | @chr c s s' hc hs hr ih =>
    intro p δ hp hδ
    cases p with
    | zero => exact ⟨by simpa using Sh.chr hc hs Sh.nil, by simpa using hr⟩
    | succ p =>
      have := ih (p := p) (δ := δ) (by simpa using hp) hδ
      exact ⟨by simpa using Sh.chr hc hs this.1, by simpa using this.2⟩
  | @tok d s s' hd hr ih =>
    intro p δ hp hδ
    match p with
    | 0 =>
      simp at hp; subst hp; exact absurd hδ (by decide)
    | 1 => exact ⟨by simpa using Sh.tok hd Sh.nil, by simpa using hr⟩
    | p + 2 =>
      have := ih (p := p) (δ := δ) (by simpa using hp) hδ
      exact ⟨by simpa using Sh.tok hd this.1, by simpa using this.2⟩
  | @ph i i' s s' hr hi hi' hs ih =>
    intro p δ hp hδ
    obtain ⟨a, b, c, d, hpl, -, ha, hb, hc, hd⟩ := placeholder_four hi
    obtain ⟨a', b', c', d', hpl', -⟩ := placeholder_four hi'
    have hlen : (placeholder i).length = 14 := by rw [hpl]; rfl
    have hlen' : (placeholder i').length = 14 := by rw [hpl']; rfl
    by_cases hlt : p < 13
    · exfalso
      rw [hpl] at hp
      have hp' : p = 0 ∨ p = 1 ∨ p = 2 ∨ p = 3 ∨ p = 4 ∨ p = 5 ∨ p = 6 ∨ p = 7 ∨ p = 8 ∨ p = 9 ∨ p = 10 ∨ p = 11 ∨
          p = 12 := by omega
      rcases hp' with h | h | h | h | h | h | h | h | h | h | h | h | h <;> subst h <;> simp at hp <;> subst hp <;>
        first
          | (rw [innerL_of_digit (by assumption)] at hδ; cases hδ)
          | (revert hδ; decide)
    · by_cases h13 : p = 13
      · subst h13
        have e1 : (placeholder i ++ s).take 14 = placeholder i := by
          rw [List.take_append, List.take_of_length_le (by omega)]; simp [hlen]
        have e2 : (placeholder i' ++ s').take 14 = placeholder i' := by
          rw [List.take_append, List.take_of_length_le (by omega)]; simp [hlen']
        have e3 : (placeholder i ++ s).drop 14 = s := by
          rw [List.drop_append, List.drop_eq_nil_of_le (by omega)]; simp [hlen]
        have e4 : (placeholder i' ++ s').drop 14 = s' := by
          rw [List.drop_append, List.drop_eq_nil_of_le (by omega)]; simp [hlen']
        rw [e1, e2, e3, e4]
        exact ⟨by simpa using Sh.ph hr hi hi' Sh.nil, hs⟩
      · obtain ⟨q, rfl⟩ : ∃ q, p = 14 + q := ⟨p - 14, by omega⟩
        have hq : s[q]? = some δ := by
          rw [List.getElem?_append_right (by omega)] at hp
          simpa [hlen] using hp
        have := ih hq hδ
        have e1 := take_len_add (placeholder i) s (q + 1)
        have e2 := take_len_add (placeholder i') s' (q + 1)
        have e3 := drop_len_add (placeholder i) s (q + 1)
        have e4 := drop_len_add (placeholder i') s' (q + 1)
        rw [hlen] at e1 e3; rw [hlen'] at e2 e4
        rw [show 14 + q + 1 = 14 + (q + 1) by omega, e1, e2, e3, e4]
        exact ⟨Sh.ph hr hi hi' this.1, this.2⟩

end Sh

end MdVerif.InlineLocal
