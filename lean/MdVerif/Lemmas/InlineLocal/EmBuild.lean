/-
C08, inline half — the elements the emphasis patterns build (`build`, `parse_sub_patterns`) from related texts are
related; the simulation property `EmSim` of patterns 14 and 15.
-/
import MdVerif.Lemmas.InlineLocal.Em

namespace MdVerif.InlineLocal
open Py Inline

section
variable {okD : Char → Bool} {ρ : Rho}

/-! ### `setTextOrTail` -/

theorem NRelL.getLast? : ∀ {l l' : List Node}, NRelL okD ρ l l' → ORel (NRel okD ρ) l.getLast? l'.getLast?
  | [], [], _ => trivial
  | [a], [a'], h => by simp only [NRelL] at h; exact h.1
  | a :: b :: r, a' :: b' :: r', h => by
    simp only [NRelL] at h
    rw [List.getLast?_cons_cons, List.getLast?_cons_cons]
    exact NRelL.getLast? (l := b :: r) (l' := b' :: r') (by simp only [NRelL]; exact h.2)
  | [], _ :: _, h => by simp only [NRelL] at h
  | _ :: _, [], h => by simp only [NRelL] at h
  | [_], _ :: _ :: _, h => by simp only [NRelL, and_false] at h
  | _ :: _ :: _, [_], h => by simp only [NRelL, and_false] at h

theorem NRelL.dropLast : ∀ {l l' : List Node}, NRelL okD ρ l l' → NRelL okD ρ l.dropLast l'.dropLast
  | [], [], _ => by simp only [List.dropLast_nil, NRelL]
  | [a], [a'], _ => by simp only [List.dropLast_singleton, NRelL]
  | a :: b :: r, a' :: b' :: r', h => by
    simp only [NRelL] at h
    rw [List.dropLast_cons₂, List.dropLast_cons₂]
    simp only [NRelL]
    exact ⟨h.1, NRelL.dropLast (l := b :: r) (l' := b' :: r') (by simp only [NRelL]; exact h.2)⟩
  | [], _ :: _, h => by simp only [NRelL] at h
  | _ :: _, [], h => by simp only [NRelL] at h
  | [_], _ :: _ :: _, h => by simp only [NRelL, and_false] at h
  | _ :: _ :: _, [_], h => by simp only [NRelL, and_false] at h

theorem NRel.append {p p' el el' : Node} (hp : NRel okD ρ p p') (he : NRel okD ρ el el') :
    NRel okD ρ (p.append el) (p'.append el') := by
  obtain ⟨g1, g2, g3, g4, g5, g6, g7⟩ := NRel.iff.1 hp
  exact NRel.iff.2 ⟨g1, g2, g3, g4, g5, g6, NRelL.append g7 (by simp only [NRelL]; exact ⟨he, trivial⟩)⟩

theorem setTextOrTail_sim {p p' : Node} (hp : NRel okD ρ p p') (hl : Bool) {t t' : Str} (ht : Sh okD ρ t t') :
    NRel okD ρ (setTextOrTail p hl t) (setTextOrTail p' hl t') := by
  obtain ⟨g1, g2, g3, g4, g5, g6, g7⟩ := NRel.iff.1 hp
  unfold setTextOrTail
  rw [← isEmpty_of_sh ht]
  split
  · exact hp
  · split
    · have hlast := NRelL.getLast? g7
      match h1 : p.children.getLast?, h2 : p'.children.getLast?, hlast with
      | none, none, _ => exact hp
      | some l, some l', hlast =>
        have hlast : NRel okD ρ l l' := hlast
        obtain ⟨y1, y2, y3, y4, y5, y6, y7⟩ := NRel.iff.1 hlast
        simp only [Node.setLast]
        refine NRel.iff.2 ⟨g1, g2, g3, g4, g5, g6, NRelL.append (NRelL.dropLast g7) ?_⟩
        simp only [NRelL]
        exact ⟨NRel.iff.2 ⟨y1, y2, y3, rfl, y5, ht, y7⟩, trivial⟩
      | none, some _, hlast => exact hlast.elim
      | some _, none, hlast => exact hlast.elim
    · exact NRel.iff.2 ⟨g1, g2, rfl, g4, ht, g6, g7⟩

/-! ### `parse_sub_patterns` -/

def BuildSim (okD : Char → Bool) (ρ : Rho) (b b' : List Str → EmItem → Nat → Option Node) : Prop :=
  ∀ (G G' : List Str) (item : EmItem) (idx : Nat), GsRel okD ρ G G' → ORel (NRel okD ρ) (b G item idx) (b' G' item idx)

structure SRel (okD : Char → Bool) (ρ : Rho) (s s' : SubSt) : Prop where
  pos : s.pos = s'.pos
  offset : s.offset = s'.offset
  parent : NRel okD ρ s.parent s'.parent
  hasLast : s.hasLast = s'.hasLast
  matched : s.matched = s'.matched

/-- the text between `offset` and a match can be cut out -/
def SInv (data : Str) (c : Char) (s : SubSt) : Prop :=
  s.offset ≤ s.pos ∧ (s.offset = 0 ∨ data[s.offset - 1]? = some c)

def SRes (okD : Char → Bool) (ρ : Rho) (data : Str) (c : Char) : Option SubSt → Option SubSt → Prop
  | none, none => True
  | some t, some t' => SRel okD ρ t t' ∧ SInv data c t
  | _, _ => False

theorem drop_cut {c : Char} (hcL : innerL c = false) {x x' : Str} (hx : Sh okD ρ x x') {o : Nat}
    (ho : o = 0 ∨ x[o - 1]? = some c) : Sh okD ρ (x.drop o) (x'.drop o) := by
  rcases ho with rfl | ho
  · exact hx
  · by_cases h0 : o = 0
    · subst h0; exact hx
    · have := (hx.cut_after ho hcL).2
      rw [Nat.sub_add_cancel (by omega)] at this
      exact this

theorem slice_cut {c : Char} (hcL : innerL c = false) (hcR : innerR c = false) {x x' : Str} (hx : Sh okD ρ x x')
    {o p : Nat} (hop : o ≤ p) (ho : o = 0 ∨ x[o - 1]? = some c) (hp : x[p]? = some c) :
    Sh okD ρ (slice x o p) (slice x' o p) := by
  unfold slice
  have c1 := (hx.cut_before hp hcR).1
  refine drop_cut hcL c1 ?_
  rcases ho with rfl | ho
  · exact Or.inl rfl
  · by_cases h0 : o = 0
    · exact Or.inl h0
    · right
      rw [List.getElem?_take, if_pos (by omega)]
      exact ho

theorem subTry_sim {c : Char} (hc : c = '*' ∨ c = '_') {b b' : List Str → EmItem → Nat → Option Node}
    (hb : BuildSim okD ρ b b') {data data' : Str} (hd : Sh okD ρ data data') (idx : Nat) :
    ∀ (items : List EmItem), (∀ item ∈ items, stepsOK item.steps = true) → ∀ (index : Nat) (s s' : SubSt),
    SRel okD ρ s s' → SInv data c s →
    SRes okD ρ data c (subTry b data c idx items index s) (subTry b' data' c idx items index s') := by
  have hcL : innerL c = false := by rcases hc with rfl | rfl <;> decide
  have hcR : innerR c = false := by rcases hc with rfl | rfl <;> decide
  intro items
  induction items with
  | nil => intro _ index s s' hs hi; unfold subTry; exact ⟨hs, hi⟩
  | cons item rest ih =>
    intro hok index s s' hs hi
    have ih' := ih (fun it h => hok it (List.mem_cons_of_mem _ h))
    unfold subTry
    split
    · exact ih' _ _ _ hs hi
    · have sm := seqMatch_sim (ok := okD) (ρ := ρ) hc (hok item (List.mem_cons_self ..)) hd s.pos
      rw [← hs.pos]
      match h1 : seqMatch data s.pos c item.steps, h2 : seqMatch data' s.pos c item.steps with
      | none, none => exact ih' _ _ _ hs hi
      | some _, none => rw [h1, h2] at sm; exact sm.elim
      | none, some _ => rw [h1, h2] at sm; exact sm.elim
      | some (e, G), some (e', G') =>
        rw [h1, h2] at sm
        obtain ⟨he, hg, hpc, hlt, hec, -⟩ := sm
        subst he
        simp only []
        have hbb := hb G G' item index hg
        match h3 : b G item index, h4 : b' G' item index with
        | none, none => trivial
        | some _, none => rw [h3, h4] at hbb; exact hbb.elim
        | none, some _ => rw [h3, h4] at hbb; exact hbb.elim
        | some el, some el' =>
          rw [h3, h4] at hbb
          simp only []
          have hsl := slice_cut hcL hcR hd hi.1 hi.2 hpc
          refine ih' _ _ _ ⟨rfl, rfl, ?_, rfl, rfl⟩ ⟨Nat.le_refl _, Or.inr hec⟩
          rw [← hs.offset, ← hs.hasLast]
          exact NRel.append (setTextOrTail_sim hs.parent _ hsl) hbb

theorem subLoop_sim {c : Char} (hc : c = '*' ∨ c = '_') {b b' : List Str → EmItem → Nat → Option Node}
    (hb : BuildSim okD ρ b b') {data data' : Str} (hd : Sh okD ρ data data') (idx : Nat) :
    ∀ (g : Nat) (s s' : SubSt), SRel okD ρ s s' → SInv data c s →
    SRes okD ρ data c (subLoop b data c idx g s) (subLoop b' data' c idx g s') := by
  have hcd : isAsciiDigit c = false := by rcases hc with rfl | rfl <;> decide
  intro g
  induction g with
  | zero => intro s s' _ _; unfold subLoop; trivial
  | succ g ih =>
    intro s s' hs hi
    unfold subLoop
    have hcond1 : (s'.pos < data'.length) ↔ (s.pos < data.length) := by rw [hs.pos, hd.length_eq]
    have hcond2 : (data'[s'.pos]? == some c) = (data[s.pos]? == some c) := by
      rw [← hs.pos]; exact (hd.pw.get_beq s.pos hcd).symm
    by_cases h1 : s.pos < data.length
    · rw [if_pos h1, if_pos (hcond1.2 h1), hcond2]
      split
      · have st := subTry_sim hc hb hd idx (emPatterns c) (emPatterns_ok c) 0 { s with matched := false }
          { s' with matched := false } ⟨hs.pos, hs.offset, hs.parent, hs.hasLast, rfl⟩ hi
        generalize subTry b data c idx (emPatterns c) 0 { s with matched := false } = A at st ⊢
        generalize subTry b' data' c idx (emPatterns c) 0 { s' with matched := false } = B at st ⊢
        match A, B, st with
        | none, none, _ => exact True.intro
        | some t, some t', st =>
          obtain ⟨ht, hti⟩ := st
          simp only []
          rw [← ht.matched]
          split
          · exact ih _ _ ht hti
          · exact ih _ _ ⟨by simp only [ht.pos], ht.offset, ht.parent, ht.hasLast, rfl⟩
              ⟨by have := hti.1; simp only []; omega, hti.2⟩
      · exact ih _ _ ⟨by simp only [hs.pos], hs.offset, hs.parent, hs.hasLast, hs.matched⟩
          ⟨by have := hi.1; simp only []; omega, hi.2⟩
    · rw [if_neg h1, if_neg (fun h => h1 (hcond1.1 h))]
      exact ⟨hs, hi⟩

theorem parseSub_sim {c : Char} (hc : c = '*' ∨ c = '_') {b b' : List Str → EmItem → Nat → Option Node}
    (hb : BuildSim okD ρ b b') {data data' : Str} (hd : Sh okD ρ data data') {parent parent' : Node}
    (hp : NRel okD ρ parent parent') (hasLast : Bool) (idx : Nat) :
    ORel (NRel okD ρ) (parseSub b data parent hasLast idx c) (parseSub b' data' parent' hasLast idx c) := by
  have hcL : innerL c = false := by rcases hc with rfl | rfl <;> decide
  unfold parseSub
  rw [← hd.length_eq]
  have sl := subLoop_sim hc hb hd idx (data.length + 1) ⟨0, 0, parent, hasLast, false⟩ ⟨0, 0, parent', hasLast, false⟩
    ⟨rfl, rfl, hp, rfl, rfl⟩ ⟨Nat.le_refl _, Or.inl rfl⟩
  match h1 : subLoop b data c idx (data.length + 1) ⟨0, 0, parent, hasLast, false⟩,
    h2 : subLoop b' data' c idx (data.length + 1) ⟨0, 0, parent', hasLast, false⟩ with
  | none, none => trivial
  | some _, none => rw [h1, h2] at sl; exact sl.elim
  | none, some _ => rw [h1, h2] at sl; exact sl.elim
  | some t, some t' =>
    rw [h1, h2] at sl
    obtain ⟨ht, hti⟩ := sl
    show NRel okD ρ _ _
    rw [← ht.offset, ← ht.hasLast]
    exact setTextOrTail_sim ht.parent _ (drop_cut hcL hd hti.2)

/-! ### `build_element` -/

theorem GsRel.headD {G G' : List Str} (h : GsRel okD ρ G G') : Sh okD ρ (G.headD []) (G'.headD []) := by
  cases h with
  | nil => exact Sh.nil
  | cons h _ => exact h

theorem GsRel.getD1 {G G' : List Str} (h : GsRel okD ρ G G') : Sh okD ρ (G.getD 1 []) (G'.getD 1 []) := by
  cases h with
  | nil => exact Sh.nil
  | cons _ h2 =>
    cases h2 with
    | nil => exact Sh.nil
    | cons h _ => exact h

theorem build_sim {c : Char} (hc : c = '*' ∨ c = '_') : ∀ (f : Nat), BuildSim okD ρ (build c f) (build c f) := by
  intro f
  induction f with
  | zero => intro G G' item idx _; unfold build; trivial
  | succ f ih =>
    intro G G' item idx hg
    have hsub : ∀ {d d' : Str} {p p' : Node} (hl : Bool), Sh okD ρ d d' → NRel okD ρ p p' →
        ORel (NRel okD ρ) (parseSub (fun g i j => build c f g i j) d p hl idx c)
          (parseSub (fun g i j => build c f g i j) d' p' hl idx c) :=
      fun hl hd hp => parseSub_sim hc ih hd hp hl idx
    unfold build
    simp only []
    cases item.builder with
    | single => exact hsub false hg.headD (NRel.mkEl _)
    | double =>
      simp only []
      have h1 := hsub false hg.headD (NRel.mkEl (okD := okD) (ρ := ρ) item.tag2)
      match e1 : parseSub (fun g i j => build c f g i j) (G.headD []) (mkEl item.tag2) false idx c,
        e2 : parseSub (fun g i j => build c f g i j) (G'.headD []) (mkEl item.tag2) false idx c with
      | none, none => trivial
      | some _, none => rw [e1, e2] at h1; exact h1.elim
      | none, some _ => rw [e1, e2] at h1; exact h1.elim
      | some el2, some el2' =>
        rw [e1, e2] at h1
        simp only []
        have hel1 : NRel okD ρ ((mkEl item.tag1).append el2) ((mkEl item.tag1).append el2') :=
          NRel.append (NRel.mkEl _) h1
        cases hg with
        | nil => exact hel1
        | cons ha hr =>
          cases hr with
          | nil => exact hel1
          | cons hb hr2 =>
            cases hr2 with
            | nil => exact hsub true hb hel1
            | cons _ _ => exact hel1
    | double2 =>
      simp only []
      have h1 := hsub false hg.headD (NRel.mkEl (okD := okD) (ρ := ρ) item.tag1)
      have h2 := hsub false hg.getD1 (NRel.mkEl (okD := okD) (ρ := ρ) item.tag2)
      match e1 : parseSub (fun g i j => build c f g i j) (G.headD []) (mkEl item.tag1) false idx c,
        e2 : parseSub (fun g i j => build c f g i j) (G'.headD []) (mkEl item.tag1) false idx c,
        e3 : parseSub (fun g i j => build c f g i j) (G.getD 1 []) (mkEl item.tag2) false idx c,
        e4 : parseSub (fun g i j => build c f g i j) (G'.getD 1 []) (mkEl item.tag2) false idx c with
      | some a, some a', some b, some b' =>
        rw [e1, e2] at h1; rw [e3, e4] at h2
        exact NRel.append h1 h2
      | none, none, _, _ => trivial
      | some _, some _, none, none => trivial
      | some _, none, _, _ => rw [e1, e2] at h1; exact h1.elim
      | none, some _, _, _ => rw [e1, e2] at h1; exact h1.elim
      | some _, some _, some _, none => rw [e3, e4] at h2; exact h2.elim
      | some _, some _, none, some _ => rw [e3, e4] at h2; exact h2.elim

end

/-! ### `emHandle`, `emScan`: the simulation property of patterns 14 and 15 -/

section
variable {okD : Char → Bool} {ρ : Rho}

def EHRel (okD : Char → Bool) (ρ : Rho) (d d' : Str) (i : Nat) :
    Option (Option (Node × Nat)) → Option (Option (Node × Nat)) → Prop
  | none, none => True
  | some none, some none => True
  | some (some (el, e)), some (some (el', e')) =>
      e = e' ∧ NRel okD ρ el el' ∧ Sh okD ρ (d.take i) (d'.take i) ∧ Sh okD ρ (d.drop e) (d'.drop e)
  | _, _ => False

theorem emHandle_sim {c : Char} (hc : c = '*' ∨ c = '_') {d d' : Str} (hd : Sh okD ρ d d') (i : Nat) :
    ∀ (items : List EmItem), (∀ item ∈ items, stepsOK item.steps = true) → ∀ (idx : Nat),
    EHRel okD ρ d d' i (emHandle d i c items idx) (emHandle d' i c items idx) := by
  have hcR : innerR c = false := by rcases hc with rfl | rfl <;> decide
  intro items
  induction items with
  | nil => intro _ idx; unfold emHandle; exact True.intro
  | cons item rest ih =>
    intro hok idx
    unfold emHandle
    have sm := seqMatch_sim (ok := okD) (ρ := ρ) hc (hok item (List.mem_cons_self ..)) hd i
    generalize seqMatch d i c item.steps = A at sm ⊢
    generalize seqMatch d' i c item.steps = B at sm ⊢
    match A, B, sm with
    | none, none, _ => exact ih (fun it h => hok it (List.mem_cons_of_mem _ h)) _
    | some (e, G), some (e', G'), sm =>
      obtain ⟨he, hg, hic, hlt, hec, hdrop⟩ := sm
      subst he
      simp only []
      rw [← hd.length_eq]
      have hb := build_sim (okD := okD) (ρ := ρ) hc (d.length + 2) G G' item idx hg
      generalize build c (d.length + 2) G item idx = X at hb ⊢
      generalize build c (d.length + 2) G' item idx = Y at hb ⊢
      match X, Y, hb with
      | none, none, _ => exact True.intro
      | some el, some el', hb => exact ⟨rfl, hb, (hd.cut_before hic hcR).1, hdrop⟩

theorem emScan_sim {c : Char} (hc : c = '*' ∨ c = '_') {d d' : Str} (hd : Sh okD ρ d d') :
    ∀ {suf suf' : Str}, PW suf suf' → ∀ (i : Nat),
    match emScan d c suf i, emScan d' c suf' i with
    | none, none => True
    | some none, some none => True
    | some (some (el, s, e)), some (some (el', s', e')) =>
        s = s' ∧ e = e' ∧ NRel okD ρ el el' ∧ Sh okD ρ (d.take s) (d'.take s) ∧ Sh okD ρ (d.drop e) (d'.drop e)
    | _, _ => False := by
  have hcd : isAsciiDigit c = false := by rcases hc with rfl | rfl <;> decide
  intro suf suf' hs
  induction hs with
  | nil => intro i; unfold emScan; exact True.intro
  | @cons ch ch' r r' hch _ ih =>
    intro i
    unfold emScan
    by_cases h1 : ch = c
    · have h2 : ch' = c := (cr_eq_iff hch hcd).1 h1
      rw [if_pos h1, if_pos h2]
      have eh := emHandle_sim (okD := okD) (ρ := ρ) hc hd i (emPatterns c) (emPatterns_ok c) 0
      generalize emHandle d i c (emPatterns c) 0 = A at eh ⊢
      generalize emHandle d' i c (emPatterns c) 0 = B at eh ⊢
      match A, B, eh with
      | none, none, _ => exact True.intro
      | some none, some none, _ => exact ih (i + 1)
      | some (some (el, e)), some (some (el', e')), eh =>
        obtain ⟨he, hn, c1, c2⟩ := eh
        exact ⟨rfl, he, hn, c1, he ▸ c2⟩
    · have h2 : ¬ ch' = c := fun h => h1 ((cr_eq_iff hch hcd).2 h)
      rw [if_neg h1, if_neg h2]
      exact ih (i + 1)

/-- patterns 14 and 15 on related texts, for every class of plain characters -/
theorem emSim (okD : Char → Bool) : EmSim okD := by
  intro ρ d d' c si hc hd
  exact emScan_sim hc hd (hd.pw.drop si) si

end

end MdVerif.InlineLocal
