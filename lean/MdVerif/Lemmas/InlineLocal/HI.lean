/-
C08, inline half — `applyPattern`, the pattern loop and `handleInline` on related texts and related states.
-/
import MdVerif.Lemmas.InlineLocal.FindMatch

namespace MdVerif.InlineLocal
open Py Inline

/-! ### the stash only grows (no hypotheses) -/

theorem findMatch_stash {cfg : Cfg} {pi : Nat} {d : Str} {si : Nat} {st st1 : St} {fo : Option Found}
    (h : findMatch cfg pi d si st = some (fo, st1)) : st1.stash = st.stash := by
  unfold findMatch at h
  simp only [] at h
  split at h
  · cases h; rfl
  · split at h
    all_goals (repeat (first | (cases h <;> rfl) | split at h))

def HIExt (hi : HI) : Prop := ∀ d pi st e st1, hi d pi st = some (e, st1) → Ext st st1

theorem stashNode_ext (st : St) (it : StashItem) : Ext st (stashNode st it).2 := ⟨[it], rfl⟩

theorem hiOpt_ext {hi : HI} (hh : HIExt hi) {t : Option Str} {a : Bool} {pi : Nat} {st st1 : St} {r : Option Str}
    (h : hiOpt hi t a pi st = some (r, st1)) : Ext st st1 := by
  unfold hiOpt at h
  split at h
  · split at h
    · rename_i d s1 hd; cases h; exact hh _ _ _ _ _ hd
    · cases h
  · cases h; exact Ext.refl _

theorem hiNode_ext {hi : HI} (hh : HIExt hi) {pi : Nat} {n n1 : Node} {st st1 : St}
    (h : hiNode hi pi n st = some (n1, st1)) : Ext st st1 := by
  unfold hiNode at h
  split at h
  · cases h
  · rename_i t s1 h1
    split at h
    · cases h
    · rename_i tl s2 h2
      cases h
      exact (hiOpt_ext hh h1).trans (hiOpt_ext hh h2)

theorem hiNodes_ext {hi : HI} (hh : HIExt hi) {pi : Nat} : ∀ {l l1 : List Node} {st st1 : St},
    hiNodes hi pi l st = some (l1, st1) → Ext st st1 := by
  intro l
  induction l with
  | nil => intro l1 st st1 h; simp only [hiNodes] at h; cases h; exact Ext.refl _
  | cons n r ih =>
    intro l1 st st1 h
    simp only [hiNodes] at h
    split at h
    · cases h
    · rename_i n' s1 h1
      split at h
      · cases h
      · rename_i r' s2 h2
        cases h
        exact (hiNode_ext hh h1).trans (ih h2)

theorem applyPattern_ext {cfg : Cfg} {hi : HI} (hh : HIExt hi) {pi : Nat} {d : Str} {si : Nat} {st st1 : St}
    {e : Str} {m : Bool} {si1 : Nat} (h : applyPattern cfg hi pi d si st = some (e, m, si1, st1)) : Ext st st1 := by
  unfold applyPattern at h
  split at h
  · cases h
  · rename_i s0 hf
    cases h
    exact ⟨[], by rw [findMatch_stash hf]; simp⟩
  · rename_i f s0 hf
    have e0 : Ext st s0 := ⟨[], by rw [findMatch_stash hf]; simp⟩
    split at h
    · cases h; exact e0
    · cases h; exact e0.trans (stashNode_ext _ _)
    · rename_i n hn
      simp only [] at h
      split at h
      · cases h
      · rename_i n' s1 hr
        cases h
        refine (e0.trans ?_).trans (stashNode_ext _ _)
        split at hr
        · cases hr; exact Ext.refl _
        · split at hr
          · cases hr
          · rename_i n1 s2 h1
            split at hr
            · cases hr
            · rename_i kids s3 h2
              cases hr
              exact (hiNode_ext hh h1).trans (hiNodes_ext hh h2)

theorem hiLoop_ext {ap : Nat → Str → Nat → St → Option (Str × Bool × Nat × St)}
    (hap : ∀ pi d si st e m si1 st1, ap pi d si st = some (e, m, si1, st1) → Ext st st1) :
    ∀ (g : Nat) {d : Str} {pi si : Nat} {st st1 : St} {e : Str}, hiLoop ap g d pi si st = some (e, st1) → Ext st st1 := by
  intro g
  induction g with
  | zero => intro d pi si st st1 e h; simp [hiLoop] at h
  | succ g ih =>
    intro d pi si st st1 e h
    unfold hiLoop at h
    split at h
    · split at h
      · cases h
      · rename_i d1 m si' s1 h1
        exact (hap _ _ _ _ _ _ _ _ h1).trans (ih h)
    · cases h; exact Ext.refl _

theorem handleInline_ext (cfg : Cfg) : ∀ (f : Nat), HIExt (fun d p s => handleInline cfg f d p s) := by
  intro f
  induction f with
  | zero => intro d pi st e st1 h; simp [handleInline] at h
  | succ f ih =>
    intro d pi st e st1 h
    simp only [handleInline] at h
    exact hiLoop_ext (fun _ _ _ _ _ _ _ _ h => applyPattern_ext ih h) _ h

/-! ### simulation -/

/-- what the nested `__handleInline` does to related texts in related states (both calls succeed, fewer than 10000
    stash entries at the end) -/
def HISim (okD : Char → Bool) (hi hi' : HI) : Prop :=
  ∀ (ρ : Rho) (d d' : Str) (pi : Nat) (st st' : St) (e e' : Str) (st1 st1' : St),
    Sh okD ρ d d' → StRel okD ρ st st' →
    hi d pi st = some (e, st1) → hi' d' pi st' = some (e', st1') →
    st1.stash.length ≤ 10000 → st1'.stash.length ≤ 10000 →
    ∃ ρ1, Rho.le ρ ρ1 ∧ Sh okD ρ1 e e' ∧ StRel okD ρ1 st1 st1' ∧ st1.html = st.html ∧ st1'.html = st'.html

theorem truthy_of_sh {ok : Char → Bool} {ρ : Rho} {t t' : Option Str} (h : ORel (Sh ok ρ) t t') :
    Node.truthy t = Node.truthy t' := by
  match t, t', h with
  | none, none, _ => rfl
  | some a, some b, h =>
    have h : Sh ok ρ a b := h
    have := h.length_eq
    cases a <;> cases b <;> simp_all [Node.truthy]

theorem isSome_of_orel {α β : Type} {R : α → β → Prop} {t : Option α} {t' : Option β} (h : ORel R t t') :
    t.isSome = t'.isSome := by
  match t, t', h with
  | none, none, _ => rfl
  | some _, some _, _ => rfl

section
variable {okD : Char → Bool} {hi hi' : HI}

theorem hiOpt_sim (hs : HISim okD hi hi') {ρ : Rho} {t t' : Option Str} {a : Bool} {pi : Nat} {st st' st1 st1' : St}
    {r r' : Option Str} (ht : TRel okD ρ a t t') (hst : StRel okD ρ st st')
    (h : hiOpt hi t a pi st = some (r, st1)) (h' : hiOpt hi' t' a pi st' = some (r', st1'))
    (hb : st1.stash.length ≤ 10000) (hb' : st1'.stash.length ≤ 10000) :
    ∃ ρ1, Rho.le ρ ρ1 ∧ TRel okD ρ1 a r r' ∧ StRel okD ρ1 st1 st1' ∧ st1.html = st.html ∧ st1'.html = st'.html := by
  unfold hiOpt at h h'
  rw [← truthy_of_sh ht] at h'
  split at h
  · rename_i hc
    rw [if_pos hc] at h'
    simp only [Bool.and_eq_true, Bool.not_eq_eq_eq_not, Bool.not_true] at hc
    obtain ⟨htr, ha⟩ := hc
    subst ha
    split at h
    · rename_i d1 s1 h1
      split at h'
      · rename_i d1' s1' h1'
        cases h; cases h'
        match t, t', ht with
        | some x, some x', ht =>
          have ht : Sh okD ρ x x' := ht
          obtain ⟨ρ1, hle, hsh, hsr, hh, hh'⟩ := hs ρ x x' pi st st' _ _ _ _ ht hst h1 h1' hb hb'
          exact ⟨ρ1, hle, hsh, hsr, hh, hh'⟩
        | none, none, _ => simp [Node.truthy] at htr
      · cases h'
    · cases h
  · rename_i hc
    rw [if_neg hc] at h'
    cases h; cases h'
    exact ⟨ρ, Rho.le_refl _, ht, hst, rfl, rfl⟩

theorem hiNode_sim (hs : HISim okD hi hi') (he : HIExt hi) (he' : HIExt hi') {ρ : Rho} {n n' n1 n1' : Node} {pi : Nat}
    {st st' st1 st1' : St} (hn : NRel okD ρ n n') (hst : StRel okD ρ st st')
    (h : hiNode hi pi n st = some (n1, st1)) (h' : hiNode hi' pi n' st' = some (n1', st1'))
    (hb : st1.stash.length ≤ 10000) (hb' : st1'.stash.length ≤ 10000) :
    ∃ ρ1, Rho.le ρ ρ1 ∧ NRel okD ρ1 n1 n1' ∧ StRel okD ρ1 st1 st1' ∧ st1.html = st.html ∧ st1'.html = st'.html := by
  unfold hiNode at h h'
  obtain ⟨g1, g2, g3, g4, g5, g6, g7⟩ := NRel.iff.1 hn
  rw [← g3, ← g4] at h'
  split at h
  · cases h
  · rename_i t s1 h1
    split at h
    · cases h
    · rename_i tl s2 h2
      split at h'
      · cases h'
      · rename_i t' s1' h1'
        split at h'
        · cases h'
        · rename_i tl' s2' h2'
          cases h; cases h'
          have b1 := (hiOpt_ext he h2).length_le
          have b1' := (hiOpt_ext he' h2').length_le
          obtain ⟨ρ1, l1, r1, sr1, hh1, hh1'⟩ := hiOpt_sim hs g5 hst h1 h1' (by omega) (by omega)
          obtain ⟨ρ2, l2, r2, sr2, hh2, hh2'⟩ := hiOpt_sim hs (g6.mono l1) sr1 h2 h2' hb hb'
          refine ⟨ρ2, Rho.le_trans l1 l2, ?_, sr2, by rw [hh2, hh1], by rw [hh2', hh1']⟩
          exact NRel.iff.2 ⟨g1, g2, rfl, rfl, r1.mono l2, r2, NRelL.mono (Rho.le_trans l1 l2) g7⟩

theorem hiNodes_sim (hs : HISim okD hi hi') (he : HIExt hi) (he' : HIExt hi') {pi : Nat} :
    ∀ {l l' l1 l1' : List Node} {ρ : Rho} {st st' st1 st1' : St}, NRelL okD ρ l l' → StRel okD ρ st st' →
    hiNodes hi pi l st = some (l1, st1) → hiNodes hi' pi l' st' = some (l1', st1') →
    st1.stash.length ≤ 10000 → st1'.stash.length ≤ 10000 →
    ∃ ρ1, Rho.le ρ ρ1 ∧ NRelL okD ρ1 l1 l1' ∧ StRel okD ρ1 st1 st1' ∧ st1.html = st.html ∧ st1'.html = st'.html := by
  intro l
  induction l with
  | nil =>
    intro l' l1 l1' ρ st st' st1 st1' hl hst h h' hb hb'
    cases l' with
    | nil =>
      simp only [hiNodes] at h h'
      cases h; cases h'
      exact ⟨ρ, Rho.le_refl _, hl, hst, rfl, rfl⟩
    | cons _ _ => simp only [NRelL] at hl
  | cons n r ih =>
    intro l' l1 l1' ρ st st' st1 st1' hl hst h h' hb hb'
    cases l' with
    | nil => simp only [NRelL] at hl
    | cons n' r' =>
      simp only [NRelL] at hl
      simp only [hiNodes] at h h'
      split at h
      · cases h
      · rename_i m s1 h1
        split at h
        · cases h
        · rename_i ms s2 h2
          split at h'
          · cases h'
          · rename_i m' s1' h1'
            split at h'
            · cases h'
            · rename_i ms' s2' h2'
              cases h; cases h'
              have b1 := (hiNodes_ext he h2).length_le
              have b1' := (hiNodes_ext he' h2').length_le
              obtain ⟨ρ1, l1, r1, sr1, hh1, hh1'⟩ := hiNode_sim hs he he' hl.1 hst h1 h1' (by omega) (by omega)
              obtain ⟨ρ2, l2, r2, sr2, hh2, hh2'⟩ := ih (NRelL.mono l1 hl.2) sr1 h2 h2' hb hb'
              refine ⟨ρ2, Rho.le_trans l1 l2, ?_, sr2, by rw [hh2, hh1], by rw [hh2', hh1']⟩
              simp only [NRelL]
              exact ⟨r1.mono l2, r2⟩

end

section
variable {okD : Char → Bool} {hi hi' : HI}

/-- the replacement of a match by a fresh placeholder, on both sides -/
theorem stash_step {ρ : Rho} {d d' : Str} {f f' : Found} {st st' : St} {it it' : StashItem}
    (hc : Sh okD ρ (d.take f.start) (d'.take f.start) ∧ Sh okD ρ (pyDrop d f.stop) (pyDrop d' f.stop))
    (hs : f.start = f'.start) (hp : f.stop = f'.stop) (hst : StRel okD ρ st st') (hi : ItemRel okD ρ it it')
    (hb : st.stash.length < 10000) (hb' : st'.stash.length < 10000) :
    let ρ1 := ρ.add st.stash.length st'.stash.length
    Rho.le ρ ρ1 ∧
    Sh okD ρ1 (d.take f.start ++ (stashNode st it).1 ++ pyDrop d f.stop)
      (d'.take f'.start ++ (stashNode st' it').1 ++ pyDrop d' f'.stop) ∧
    StRel okD ρ1 (stashNode st it).2 (stashNode st' it').2 := by
  intro ρ1
  have hle : Rho.le ρ ρ1 := Rho.le_add _ _ _
  refine ⟨hle, ?_, StRel.push hst hi⟩
  rw [← hs, ← hp, List.append_assoc, List.append_assoc]
  exact Sh.append (hc.1.mono_rho hle) (Sh.ph (Or.inr ⟨rfl, rfl⟩) hb hb' (hc.2.mono_rho hle))

theorem applyPattern_sim (H : OkD okD) (cfg : Cfg) (hesc : cfg.esc.contains STX = false) (EM : EmSim okD)
    (hs : HISim okD hi hi') (he : HIExt hi) (he' : HIExt hi') {ρ : Rho} {d d' : Str} {pi : Nat} (hpi : pi < 16) {si : Nat}
    {st st' st1 st1' : St} {e e' : Str} {m m' : Bool} {si1 si1' : Nat}
    (hd : Sh okD ρ d d') (hst : StRel okD ρ st st')
    (h : applyPattern cfg hi pi d si st = some (e, m, si1, st1))
    (h' : applyPattern cfg hi' pi d' si st' = some (e', m', si1', st1'))
    (hb : st1.stash.length ≤ 10000) (hb' : st1'.stash.length ≤ 10000) :
    ∃ ρ1, Rho.le ρ ρ1 ∧ m = m' ∧ si1 = si1' ∧ Sh okD ρ1 e e' ∧ StRel okD ρ1 st1 st1' ∧ st1.html = st.html ∧
      st1'.html = st'.html := by
  have fm := findMatch_sim cfg H hesc EM hd pi hpi si st st'
  unfold applyPattern at h h'
  match hf : findMatch cfg pi d si st, hf' : findMatch cfg pi d' si st' with
  | none, _ => rw [hf] at h; cases h
  | some _, none => rw [hf'] at h'; cases h'
  | some (none, s0), some (some f', s0') => rw [hf, hf'] at fm; exact fm.2.2.elim
  | some (some f, s0), some (none, s0') => rw [hf, hf'] at fm; exact fm.2.2.elim
  | some (none, s0), some (none, s0') =>
    rw [hf, hf'] at fm
    obtain ⟨rfl, rfl, -⟩ := fm
    rw [hf] at h; rw [hf'] at h'
    cases h; cases h'
    exact ⟨ρ, Rho.le_refl _, rfl, rfl, hd, hst, rfl, rfl⟩
  | some (some f, s0), some (some f', s0') =>
    rw [hf, hf'] at fm
    obtain ⟨rfl, rfl, fr⟩ := fm
    have fr : FoundRel okD ρ d d' f f' := fr
    rw [hf] at h; rw [hf'] at h'
    simp only [] at h h'
    have hcut : ¬ (f.node = .none) → Sh okD ρ (d.take f.start) (d'.take f.start) ∧
        Sh okD ρ (pyDrop d f.stop) (pyDrop d' f.stop) := by
      intro hn
      rcases fr.cut with ⟨h0, -⟩ | hc
      · exact absurd h0 hn
      · exact hc
    match hn : f.node, hn' : f'.node, fr.node with
    | .none, .none, _ =>
      rw [hn] at h; rw [hn'] at h'
      cases h; cases h'
      exact ⟨ρ, Rho.le_refl _, rfl, by rw [fr.stop], hd, hst, rfl, rfl⟩
    | .str x, .str _, PNRel.str hx =>
      rw [hn] at h; rw [hn'] at h'
      simp only [] at h h'
      cases h; cases h'
      have hc := hcut (by rw [hn]; intro h; cases h)
      simp only [stashNode, List.length_append, List.length_cons, List.length_nil] at hb hb'
      obtain ⟨hle, hsh, hsr⟩ := stash_step (it := .str x) (it' := .str x) hc fr.start fr.stop hst ⟨rfl, hx⟩
        (by omega) (by omega)
      exact ⟨_, hle, rfl, rfl, hsh, hsr, rfl, rfl⟩
    | .el n, .el n', PNRel.el hnn =>
      rw [hn] at h; rw [hn'] at h'
      simp only [] at h h'
      have hc := hcut (by rw [hn]; intro h; cases h)
      obtain ⟨g1, g2, g3, g4, g5, g6, g7⟩ := NRel.iff.1 hnn
      have hcond : (n'.text.isSome && n'.textAtomic) = (n.text.isSome && n.textAtomic) := by
        rw [← isSome_of_orel g5, ← g3]
      rw [hcond] at h'
      -- the nested part
      have key : ∀ (r : Option (Node × St)) (r' : Option (Node × St)),
          (r = (if (n.text.isSome && n.textAtomic) = true then some (n, s0) else
            match hiNode hi pi { n with children := [] } s0 with
            | none => none
            | some (n1, st1) =>
              match hiNodes hi pi n.children st1 with
              | none => none
              | some (kids, st2) => some ({ n1 with children := kids }, st2))) →
          (r' = (if (n.text.isSome && n.textAtomic) = true then some (n', s0') else
            match hiNode hi' pi { n' with children := [] } s0' with
            | none => none
            | some (n1, st1) =>
              match hiNodes hi' pi n'.children st1 with
              | none => none
              | some (kids, st2) => some ({ n1 with children := kids }, st2))) →
          ∀ m1 s1 m1' s1', r = some (m1, s1) → r' = some (m1', s1') → s1.stash.length ≤ 10000 →
            s1'.stash.length ≤ 10000 →
          ∃ ρ1, Rho.le ρ ρ1 ∧ NRel okD ρ1 m1 m1' ∧ StRel okD ρ1 s1 s1' ∧ s1.html = s0.html ∧ s1'.html = s0'.html := by
        intro r r' er er' m1 s1 m1' s1' e1 e1' b1 b1'
        rw [e1] at er; rw [e1'] at er'
        split at er
        · rename_i hc
          rw [if_pos hc] at er'
          cases er; cases er'
          exact ⟨ρ, Rho.le_refl _, hnn, hst, rfl, rfl⟩
        · rename_i hc
          rw [if_neg hc] at er'
          split at er
          · cases er
          · rename_i a1 t1 q1
            split at er
            · cases er
            · rename_i k1 t2 q2
              split at er'
              · cases er'
              · rename_i a1' t1' q1'
                split at er'
                · cases er'
                · rename_i k1' t2' q2'
                  cases er; cases er'
                  have c1 := (hiNodes_ext he q2).length_le
                  have c1' := (hiNodes_ext he' q2').length_le
                  have hn0 : NRel okD ρ { n with children := [] } { n' with children := [] } :=
                    NRel.iff.2 ⟨g1, g2, g3, g4, g5, g6, by simp only [NRelL]⟩
                  obtain ⟨ρ1, l1, r1, sr1, hh1, hh1'⟩ := hiNode_sim hs he he' hn0 hst q1 q1' (by omega) (by omega)
                  obtain ⟨ρ2, l2, r2, sr2, hh2, hh2'⟩ := hiNodes_sim hs he he' (NRelL.mono l1 g7) sr1 q2 q2' b1 b1'
                  refine ⟨ρ2, Rho.le_trans l1 l2, ?_, sr2, by rw [hh2, hh1], by rw [hh2', hh1']⟩
                  obtain ⟨x1, x2, x3, x4, x5, x6, -⟩ := NRel.iff.1 (r1.mono l2)
                  exact NRel.iff.2 ⟨x1, x2, x3, x4, x5, x6, r2⟩
      split at h
      · cases h
      · rename_i m1 s1 q
        split at h'
        · cases h'
        · rename_i m1' s1' q'
          cases h; cases h'
          simp only [stashNode, List.length_append, List.length_cons, List.length_nil] at hb hb'
          obtain ⟨ρ1, l1, r1, sr1, hh1, hh1'⟩ := key _ _ rfl rfl m1 s1 m1' s1' q q' (by omega) (by omega)
          obtain ⟨hle, hsh, hsr⟩ := stash_step (it := .node m1) (it' := .node m1') (d := d) (d' := d') (f := f) (f' := f')
            ⟨hc.1.mono_rho l1, hc.2.mono_rho l1⟩ fr.start fr.stop sr1 (show ItemRel okD ρ1 (.node m1) (.node m1') from r1)
            (by omega) (by omega)
          exact ⟨_, Rho.le_trans l1 hle, rfl, rfl, hsh, hsr, hh1, hh1'⟩

end

section
variable {okD : Char → Bool}

abbrev AP := Nat → Str → Nat → St → Option (Str × Bool × Nat × St)

def APSim (okD : Char → Bool) (ap ap' : AP) : Prop :=
  ∀ (ρ : Rho) (d d' : Str) (pi si : Nat) (st st' st1 st1' : St) (e e' : Str) (m m' : Bool) (si1 si1' : Nat),
    pi < 16 → Sh okD ρ d d' → StRel okD ρ st st' →
    ap pi d si st = some (e, m, si1, st1) → ap' pi d' si st' = some (e', m', si1', st1') →
    st1.stash.length ≤ 10000 → st1'.stash.length ≤ 10000 →
    ∃ ρ1, Rho.le ρ ρ1 ∧ m = m' ∧ si1 = si1' ∧ Sh okD ρ1 e e' ∧ StRel okD ρ1 st1 st1' ∧ st1.html = st.html ∧
      st1'.html = st'.html

def APExt (ap : AP) : Prop := ∀ pi d si st e m si1 st1, ap pi d si st = some (e, m, si1, st1) → Ext st st1

theorem hiLoop_sim {ap ap' : AP} (hap : APSim okD ap ap') (hx : APExt ap) (hx' : APExt ap') :
    ∀ (g : Nat) (ρ : Rho) (d d' : Str) (pi si : Nat) (st st' st1 st1' : St) (e e' : Str),
    Sh okD ρ d d' → StRel okD ρ st st' →
    hiLoop ap g d pi si st = some (e, st1) → hiLoop ap' g d' pi si st' = some (e', st1') →
    st1.stash.length ≤ 10000 → st1'.stash.length ≤ 10000 →
    ∃ ρ1, Rho.le ρ ρ1 ∧ Sh okD ρ1 e e' ∧ StRel okD ρ1 st1 st1' ∧ st1.html = st.html ∧ st1'.html = st'.html := by
  intro g
  induction g with
  | zero => intro ρ d d' pi si st st' st1 st1' e e' _ _ h; simp [hiLoop] at h
  | succ g ih =>
    intro ρ d d' pi si st st' st1 st1' e e' hd hst h h' hb hb'
    unfold hiLoop at h h'
    by_cases hpi : pi < patternCount
    · rw [if_pos hpi] at h h'
      split at h
      · cases h
      · rename_i d1 m si1 s1 q
        split at h'
        · cases h'
        · rename_i d1' m' si1' s1' q'
          have c1 := (hiLoop_ext hx g h).length_le
          have c1' := (hiLoop_ext hx' g h').length_le
          obtain ⟨ρ1, l1, em, es, hsh, hsr, hh, hh'⟩ := hap ρ d d' pi si st st' s1 s1' d1 d1' m m' si1 si1' hpi hd hst q q'
            (by omega) (by omega)
          subst em; subst es
          obtain ⟨ρ2, l2, hsh2, hsr2, hh2, hh2'⟩ := ih ρ1 d1 d1' _ _ s1 s1' st1 st1' e e' hsh hsr h h' hb hb'
          exact ⟨ρ2, Rho.le_trans l1 l2, hsh2, hsr2, by rw [hh2, hh], by rw [hh2', hh']⟩
    · rw [if_neg hpi] at h h'
      cases h; cases h'
      exact ⟨ρ, Rho.le_refl _, hd, hst, rfl, rfl⟩

theorem handleInline_sim (H : OkD okD) (cfg : Cfg) (hesc : cfg.esc.contains STX = false) (EM : EmSim okD) :
    ∀ (f : Nat), HISim okD (fun d p s => handleInline cfg f d p s) (fun d p s => handleInline cfg f d p s) := by
  intro f
  induction f with
  | zero => intro ρ d d' pi st st' e e' st1 st1' _ _ h; simp [handleInline] at h
  | succ f ih =>
    intro ρ d d' pi st st' e e' st1 st1' hd hst h h' hb hb'
    simp only [handleInline] at h h'
    rw [← hd.length_eq] at h'
    refine hiLoop_sim (ap := applyPattern cfg (fun d p s => handleInline cfg f d p s))
      (ap' := applyPattern cfg (fun d p s => handleInline cfg f d p s)) ?_ ?_ ?_ _ ρ d d' pi 0 st st' st1 st1' e e' hd hst h h' hb hb'
    · intro ρ d d' pi si st st' st1 st1' e e' m m' si1 si1' hpi hd hst q q' b b'
      exact applyPattern_sim H cfg hesc EM ih (handleInline_ext cfg f) (handleInline_ext cfg f) hpi hd hst q q' b b'
    · intro pi d si st e m si1 st1 q
      exact applyPattern_ext (handleInline_ext cfg f) q
    · intro pi d si st e m si1 st1 q
      exact applyPattern_ext (handleInline_ext cfg f) q

/-- `handleInlineTop` on related texts in related states -/
theorem handleInlineTop_sim (H : OkD okD) (cfg : Cfg) (hesc : cfg.esc.contains STX = false) (EM : EmSim okD)
    {ρ : Rho} {d d' : Str} {st st' st1 st1' : St} {e e' : Str} (hd : Sh okD ρ d d') (hst : StRel okD ρ st st')
    (h : handleInlineTop cfg d st = some (e, st1)) (h' : handleInlineTop cfg d' st' = some (e', st1'))
    (hb : st1.stash.length ≤ 10000) (hb' : st1'.stash.length ≤ 10000) :
    ∃ ρ1, Rho.le ρ ρ1 ∧ Sh okD ρ1 e e' ∧ StRel okD ρ1 st1 st1' ∧ st1.html = st.html ∧ st1'.html = st'.html := by
  unfold handleInlineTop at h h'
  rw [← hd.length_eq] at h'
  exact handleInline_sim H cfg hesc EM _ ρ d d' 0 st st' e e' st1 st1' hd hst h h' hb hb'

theorem handleInlineTop_ext {cfg : Cfg} {d : Str} {st st1 : St} {e : Str} (h : handleInlineTop cfg d st = some (e, st1)) :
    Ext st st1 := handleInline_ext cfg _ _ _ _ _ _ h

end

end MdVerif.InlineLocal
