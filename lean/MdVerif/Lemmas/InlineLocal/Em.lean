/-
C08, inline half — the emphasis patterns (`seqGo`, the ten step lists) on related texts.
Part 1: the matcher does not tell digits apart (`PW`), so it returns the same end and groups of the same lengths.
Part 2: the layout of a match (literal runs of the delimiter, groups in between).
Part 3: hence the groups of related texts are related, and the text can be cut at the match boundaries.
-/
import MdVerif.Lemmas.InlineLocal.Shape

namespace MdVerif.InlineLocal
open Py Inline

/-! ### part 1: pointwise invariance -/

inductive GPW : List Str → List Str → Prop
  | nil : GPW [] []
  | cons {a b : Str} {l l' : List Str} : PW a b → GPW l l' → GPW (a :: l) (b :: l')

theorem GPW.reverse_aux {l l' acc acc' : List Str} (h : GPW l l') (ha : GPW acc acc') :
    GPW (l.reverseAux acc) (l'.reverseAux acc') := by
  induction h generalizing acc acc' with
  | nil => exact ha
  | cons hp _ ih => exact ih (GPW.cons hp ha)

theorem GPW.reverse {l l' : List Str} (h : GPW l l') : GPW l.reverse l'.reverse :=
  GPW.reverse_aux h GPW.nil

theorem PW.reverse {s s' : Str} (h : PW s s') : PW s.reverse s'.reverse := by
  induction h with
  | nil => exact PW.nil
  | cons hc _ ih =>
    rw [List.reverse_cons, List.reverse_cons]
    exact PW.append ih (PW.cons hc PW.nil)

def ResRel : Option (Nat × List Str) → Option (Nat × List Str) → Prop
  | none, none => True
  | some (e, G), some (e', G') => e = e' ∧ GPW G G'
  | _, _ => False

theorem ResRel.of_eq_none {a b : Option (Nat × List Str)} (ha : a = none) (hb : b = none) : ResRel a b := by
  rw [ha, hb]; trivial

def KRel (k k' : K) : Prop :=
  ∀ (prev prev' : Option Char) (suf suf' : Str) (pos : Nat) (gs gs' : List Str),
    ORel cr prev prev' → PW suf suf' → GPW gs gs' → ResRel (k prev suf pos gs) (k' prev' suf' pos gs')

theorem resp_lazy_ok {c : Char} (hc : isAsciiDigit c = false) (notc : Bool) : Resp (fun ch => !notc || ch != c) := by
  intro a b hab
  have := resp_ne hc a b hab
  simp only [] at this ⊢
  rw [this]

theorem lazyLoop_pw {c : Char} (hc : isAsciiDigit c = false) (notc : Bool) {k k' : K} (hk : KRel k k')
    {gs gs' : List Str} (hg : GPW gs gs') {suf suf' : Str} (hs : PW suf suf') :
    ∀ (need : Nat) (prev prev' : Option Char) (pos : Nat) (acc acc' : Str), ORel cr prev prev' → PW acc acc' →
    ResRel (lazyLoop c notc k gs need prev suf pos acc) (lazyLoop c notc k' gs' need prev' suf' pos acc') := by
  induction hs with
  | nil =>
    intro need prev prev' pos acc acc' hp ha
    cases need with
    | zero =>
      unfold lazyLoop
      exact hk _ _ _ _ _ _ _ hp PW.nil (GPW.cons ha.reverse hg)
    | succ n => unfold lazyLoop; trivial
  | @cons ch ch' r r' hch hr ih =>
    intro need prev prev' pos acc acc' hp ha
    have hok := resp_lazy_ok hc notc ch ch' hch
    simp only [] at hok
    cases need with
    | zero =>
      unfold lazyLoop
      simp only []
      have h1 := hk prev prev' (ch :: r) (ch' :: r') pos _ _ hp (PW.cons hch hr) (GPW.cons ha.reverse hg)
      match e1 : k prev (ch :: r) pos (acc.reverse :: gs), e2 : k' prev' (ch' :: r') pos (acc'.reverse :: gs') with
      | some x, some y => rw [e1, e2] at h1; exact h1
      | some x, none => rw [e1, e2] at h1; exact h1.elim
      | none, some y => rw [e1, e2] at h1; exact h1.elim
      | none, none =>
        simp only [hok]
        split
        · exact ih 0 (some ch) (some ch') (pos + 1) (ch :: acc) (ch' :: acc') hch (PW.cons hch ha)
        · trivial
    | succ n =>
      unfold lazyLoop
      simp only [hok]
      split
      · exact ih n (some ch) (some ch') (pos + 1) (ch :: acc) (ch' :: acc') hch (PW.cons hch ha)
      · trivial

theorem greedyLoop_pw {c : Char} (hc : isAsciiDigit c = false) (mn : Nat) {k k' : K} (hk : KRel k k')
    {gs gs' : List Str} (hg : GPW gs gs') {suf suf' : Str} (hs : PW suf suf') :
    ∀ (prev prev' : Option Char) (pos L : Nat) (acc acc' : Str), ORel cr prev prev' → PW acc acc' →
    ResRel (greedyLoop c mn k gs prev suf pos L acc) (greedyLoop c mn k' gs' prev' suf' pos L acc') := by
  induction hs with
  | nil =>
    intro prev prev' pos L acc acc' hp ha
    unfold greedyLoop
    simp only []
    split
    · exact hk _ _ _ _ _ _ _ hp PW.nil (GPW.cons ha.reverse hg)
    · trivial
  | @cons ch ch' r r' hch hr ih =>
    intro prev prev' pos L acc acc' hp ha
    have hne := resp_ne hc ch ch' hch
    simp only [] at hne
    have hhere : ResRel (if L ≥ mn then k prev (ch :: r) pos (acc.reverse :: gs) else none)
        (if L ≥ mn then k' prev' (ch' :: r') pos (acc'.reverse :: gs') else none) := by
      split
      · exact hk _ _ _ _ _ _ _ hp (PW.cons hch hr) (GPW.cons ha.reverse hg)
      · trivial
    unfold greedyLoop
    simp only [hne]
    split
    · have h1 := ih (some ch) (some ch') (pos + 1) (L + 1) (ch :: acc) (ch' :: acc') hch (PW.cons hch ha)
      match e1 : greedyLoop c mn k gs (some ch) r (pos + 1) (L + 1) (ch :: acc),
        e2 : greedyLoop c mn k' gs' (some ch') r' (pos + 1) (L + 1) (ch' :: acc') with
      | some x, some y => rw [e1, e2] at h1; exact h1
      | some x, none => rw [e1, e2] at h1; exact h1.elim
      | none, some y => rw [e1, e2] at h1; exact h1.elim
      | none, none => exact hhere
    · exact hhere

theorem isW_rel {o o' : Option Char} (h : ORel cr o o') : isW o = isW o' := by
  match o, o', h with
  | none, none, _ => rfl
  | some a, some b, h => exact resp_isWord a b h

theorem PW.head? {s s' : Str} (h : PW s s') : ORel cr s.head? s'.head? := by
  cases h with
  | nil => trivial
  | cons hc _ => exact hc

theorem seqGo_pw {c : Char} (hc : isAsciiDigit c = false) : ∀ (steps : List Step), KRel (seqGo c steps) (seqGo c steps) := by
  intro steps
  induction steps with
  | nil =>
    intro prev prev' suf suf' pos gs gs' _ _ hg
    unfold seqGo
    exact ⟨rfl, hg.reverse⟩
  | cons st rest ih =>
    intro prev prev' suf suf' pos gs gs' hp hs hg
    unfold seqGo
    cases st with
    | lit m =>
      simp only []
      rw [PW.countPrefix hc (some m) hs]
      split
      · exact ih _ _ _ _ _ _ _ (show ORel cr (some c) (some c) from cr_refl c) (hs.drop m) hg
      · trivial
    | notnext =>
      simp only []
      rw [PW.head hs hc]
      split
      · trivial
      · exact ih _ _ _ _ _ _ _ hp hs hg
    | nbW =>
      simp only []
      rw [isW_rel hp]
      split
      · trivial
      · exact ih _ _ _ _ _ _ _ hp hs hg
    | nbC =>
      simp only []
      rw [hp.cr_beq hc]
      split
      · trivial
      · exact ih _ _ _ _ _ _ _ hp hs hg
    | naW =>
      simp only []
      rw [isW_rel hs.head?]
      split
      · trivial
      · exact ih _ _ _ _ _ _ _ hp hs hg
    | lazy mn notc => exact lazyLoop_pw hc notc ih hg hs mn prev prev' pos [] [] hp PW.nil
    | greedy mn => exact greedyLoop_pw hc mn ih hg hs prev prev' pos 0 [] [] hp PW.nil

theorem seqMatch_pw {c : Char} (hc : isAsciiDigit c = false) {s s' : Str} (h : PW s s') (i : Nat) (steps : List Step) :
    ResRel (seqMatch s i c steps) (seqMatch s' i c steps) := by
  unfold seqMatch
  rw [← h.length_eq]
  split
  · trivial
  · refine seqGo_pw hc steps _ _ _ _ _ _ _ ?_ (h.drop i) GPW.nil
    split
    · trivial
    · exact h.getLast _

/-! ### part 2: the layout of a match -/

def isZW : Step → Bool
  | .notnext | .nbW | .nbC | .naW => true
  | _ => false

def isGrp : Step → Bool
  | .lazy _ _ | .greedy _ => true
  | _ => false

inductive Layout (c : Char) : List Step → Str → Nat → List Str → Nat → Prop
  | nil {suf pos} : Layout c [] suf pos [] pos
  | lit {m rest suf pos G e} : m > 0 → suf.take m = List.replicate m c → m ≤ suf.length →
      Layout c rest (suf.drop m) (pos + m) G e → Layout c (.lit m :: rest) suf pos G e
  | zw {st rest suf pos G e} : isZW st = true → Layout c rest suf pos G e → Layout c (st :: rest) suf pos G e
  | grp {st rest suf pos G e} (j : Nat) : isGrp st = true → j ≤ suf.length →
      Layout c rest (suf.drop j) (pos + j) G e → Layout c (st :: rest) suf pos (suf.take j :: G) e

/-- a continuation that lays out the remaining steps -/
def KSpec (c : Char) (rest : List Step) (k : K) : Prop :=
  ∀ prev suf pos gs e out, k prev suf pos gs = some (e, out) → ∃ G, out = gs.reverse ++ G ∧ Layout c rest suf pos G e

theorem lazyLoop_spec {c : Char} {notc : Bool} {k : K} {gs : List Str} : ∀ (suf : Str) (need : Nat) (prev : Option Char)
    (pos : Nat) (acc : Str) (r : Nat × List Str), lazyLoop c notc k gs need prev suf pos acc = some r →
    ∃ j prev2, j ≤ suf.length ∧ k prev2 (suf.drop j) (pos + j) ((acc.reverse ++ suf.take j) :: gs) = some r := by
  intro suf
  induction suf with
  | nil =>
    intro need prev pos acc r h
    cases need with
    | zero => unfold lazyLoop at h; exact ⟨0, prev, Nat.le_refl _, by simpa using h⟩
    | succ n => unfold lazyLoop at h; cases h
  | cons ch rr ih =>
    intro need prev pos acc r h
    have step : ∀ n, lazyLoop c notc k gs n (some ch) rr (pos + 1) (ch :: acc) = some r →
        ∃ j prev2, j ≤ (ch :: rr).length ∧
          k prev2 ((ch :: rr).drop j) (pos + j) ((acc.reverse ++ (ch :: rr).take j) :: gs) = some r := by
      intro n hn
      obtain ⟨j, p2, hj, hk⟩ := ih n (some ch) (pos + 1) (ch :: acc) r hn
      refine ⟨j + 1, p2, by simp; omega, ?_⟩
      simp only [List.drop_succ_cons, List.take_succ_cons, List.reverse_cons, List.append_assoc, List.singleton_append] at hk ⊢
      rw [show pos + (j + 1) = pos + 1 + j by omega]
      exact hk
    cases need with
    | zero =>
      unfold lazyLoop at h
      simp only [] at h
      split at h
      · rename_i x hx
        cases h
        exact ⟨0, prev, Nat.zero_le _, by simpa using hx⟩
      · split at h
        · exact step 0 h
        · cases h
    | succ n =>
      unfold lazyLoop at h
      simp only [] at h
      split at h
      · exact step n h
      · cases h

theorem greedyLoop_spec {c : Char} {mn : Nat} {k : K} {gs : List Str} : ∀ (suf : Str) (prev : Option Char)
    (pos L : Nat) (acc : Str) (r : Nat × List Str), greedyLoop c mn k gs prev suf pos L acc = some r →
    ∃ j prev2, j ≤ suf.length ∧ k prev2 (suf.drop j) (pos + j) ((acc.reverse ++ suf.take j) :: gs) = some r := by
  intro suf
  induction suf with
  | nil =>
    intro prev pos L acc r h
    unfold greedyLoop at h
    simp only [] at h
    split at h
    · exact ⟨0, prev, Nat.le_refl _, by simpa using h⟩
    · cases h
  | cons ch rr ih =>
    intro prev pos L acc r h
    have here : (if L ≥ mn then k prev (ch :: rr) pos (acc.reverse :: gs) else none) = some r →
        ∃ j prev2, j ≤ (ch :: rr).length ∧
          k prev2 ((ch :: rr).drop j) (pos + j) ((acc.reverse ++ (ch :: rr).take j) :: gs) = some r := by
      intro hh
      split at hh
      · exact ⟨0, prev, Nat.zero_le _, by simpa using hh⟩
      · cases hh
    unfold greedyLoop at h
    simp only [] at h
    split at h
    · split at h
      · rename_i x hx
        cases h
        obtain ⟨j, p2, hj, hk⟩ := ih (some ch) (pos + 1) (L + 1) (ch :: acc) _ hx
        refine ⟨j + 1, p2, by simp; omega, ?_⟩
        simp only [List.drop_succ_cons, List.take_succ_cons, List.reverse_cons, List.append_assoc,
          List.singleton_append] at hk ⊢
        rw [show pos + (j + 1) = pos + 1 + j by omega]
        exact hk
      · exact here h
    · exact here h

theorem seqGo_spec {c : Char} : ∀ (steps : List Step), KSpec c steps (seqGo c steps) := by
  intro steps
  induction steps with
  | nil =>
    intro prev suf pos gs e out h
    unfold seqGo at h
    cases h
    exact ⟨[], by simp, Layout.nil⟩
  | cons st rest ih =>
    intro prev suf pos gs e out h
    unfold seqGo at h
    cases st with
    | lit m =>
      simp only [] at h
      split at h
      · rename_i hm
        simp only [Bool.and_eq_true, decide_eq_true_eq, beq_iff_eq] at hm
        obtain ⟨G, hG, hL⟩ := ih _ _ _ _ _ _ h
        have hp := countPrefix_prefix c (some m) suf
        rw [hm.2] at hp
        have hle := countPrefix_le_length c (some m) suf
        rw [hm.2] at hle
        exact ⟨G, hG, Layout.lit hm.1 hp hle hL⟩
      · cases h
    | notnext =>
      simp only [] at h
      split at h
      · cases h
      · obtain ⟨G, hG, hL⟩ := ih _ _ _ _ _ _ h
        exact ⟨G, hG, Layout.zw rfl hL⟩
    | nbW =>
      simp only [] at h
      split at h
      · cases h
      · obtain ⟨G, hG, hL⟩ := ih _ _ _ _ _ _ h
        exact ⟨G, hG, Layout.zw rfl hL⟩
    | nbC =>
      simp only [] at h
      split at h
      · cases h
      · obtain ⟨G, hG, hL⟩ := ih _ _ _ _ _ _ h
        exact ⟨G, hG, Layout.zw rfl hL⟩
    | naW =>
      simp only [] at h
      split at h
      · cases h
      · obtain ⟨G, hG, hL⟩ := ih _ _ _ _ _ _ h
        exact ⟨G, hG, Layout.zw rfl hL⟩
    | lazy mn notc =>
      simp only [] at h
      obtain ⟨j, p2, hj, hk⟩ := lazyLoop_spec _ _ _ _ _ _ h
      obtain ⟨G, hG, hL⟩ := ih _ _ _ _ _ _ hk
      refine ⟨suf.take j :: G, ?_, Layout.grp j rfl hj hL⟩
      rw [hG]; simp
    | greedy mn =>
      simp only [] at h
      obtain ⟨j, p2, hj, hk⟩ := greedyLoop_spec _ _ _ _ _ _ h
      obtain ⟨G, hG, hL⟩ := ih _ _ _ _ _ _ hk
      refine ⟨suf.take j :: G, ?_, Layout.grp j rfl hj hL⟩
      rw [hG]; simp

/-! ### part 3: groups of related texts are related -/

/-- the first consuming step is a literal run -/
def nextLit : List Step → Bool
  | [] => false
  | .lit _ :: _ => true
  | st :: r => isZW st && nextLit r

/-- every group is followed (after look-arounds) by a literal run -/
def grpOK : List Step → Bool
  | [] => true
  | st :: r => (!isGrp st || nextLit r) && grpOK r

/-- the last consuming step is a literal run -/
def lastLit : List Step → Bool
  | [] => false
  | .lit _ :: r => lastLit r || r.all isZW
  | _ :: r => lastLit r

def stepsOK (steps : List Step) : Bool := nextLit steps && grpOK steps && lastLit steps

theorem emPatterns_ok : ∀ c, ∀ item ∈ emPatterns c, stepsOK item.steps = true := by
  intro c item h
  unfold emPatterns at h
  split at h
  · revert item; decide
  · revert item; decide

inductive GsRel (ok : Char → Bool) (ρ : Rho) : List Str → List Str → Prop
  | nil : GsRel ok ρ [] []
  | cons {a b : Str} {l l' : List Str} : Sh ok ρ a b → GsRel ok ρ l l' → GsRel ok ρ (a :: l) (b :: l')

theorem Layout.head {c : Char} {steps : List Step} {suf : Str} {pos : Nat} {G : List Str} {e : Nat}
    (h : Layout c steps suf pos G e) (hn : nextLit steps = true) : suf[0]? = some c := by
  induction h with
  | nil => cases hn
  | @lit m rest suf pos G e hm ht hl _ _ =>
    have : (suf.take m)[0]? = some c := by rw [ht, List.getElem?_replicate]; simp [hm]
    rw [List.getElem?_take] at this
    simpa [hm] using this
  | @zw st rest suf pos G e hz _ ih =>
    cases st <;> simp [nextLit, isZW] at hn hz ⊢ <;> exact ih hn
  | @grp st rest suf pos G e j hg _ _ _ =>
    cases st <;> simp [nextLit, isZW, isGrp] at hn hg

theorem Layout.le {c : Char} {steps : List Step} {suf : Str} {pos : Nat} {G : List Str} {e : Nat}
    (h : Layout c steps suf pos G e) : pos ≤ e ∧ e ≤ pos + suf.length := by
  induction h with
  | nil => omega
  | lit _ _ hl _ ih => simp only [List.length_drop] at ih; omega
  | zw _ _ ih => exact ih
  | grp j _ hj _ ih => simp only [List.length_drop] at ih; omega

/-- the match ends behind a literal run -/
theorem Layout.last {c : Char} {steps : List Step} {suf : Str} {pos : Nat} {G : List Str} {e : Nat}
    (h : Layout c steps suf pos G e) : (lastLit steps = true → pos < e ∧ suf[e - pos - 1]? = some c) ∧
      (steps.all isZW = true → e = pos) := by
  induction h with
  | nil => exact ⟨fun h => (by cases h), fun _ => rfl⟩
  | @lit m rest suf pos G e hm ht hl hr ih =>
    refine ⟨fun hlast => ?_, fun hall => by simp [isZW] at hall⟩
    simp only [lastLit, Bool.or_eq_true] at hlast
    have hle := hr.le
    rcases hlast with h1 | h1
    · obtain ⟨h2, h3⟩ := ih.1 h1
      refine ⟨by omega, ?_⟩
      rw [getElem?_drop'] at h3
      rw [show e - pos - 1 = m + (e - (pos + m) - 1) by omega]; exact h3
    · have := ih.2 h1
      subst this
      refine ⟨by omega, ?_⟩
      have hg : (suf.take m)[m - 1]? = some c := by rw [ht, List.getElem?_replicate]; simp; omega
      rw [List.getElem?_take] at hg
      rw [show pos + m - pos - 1 = m - 1 by omega]
      simpa [show m - 1 < m by omega] using hg
  | @zw st rest suf pos G e hz _ ih =>
    refine ⟨fun hlast => ih.1 (by cases st <;> simp [lastLit, isZW] at hlast hz ⊢ <;> exact hlast),
      fun hall => ih.2 (by simp only [List.all_cons, Bool.and_eq_true] at hall; exact hall.2)⟩
  | @grp st rest suf pos G e j hg hj hr ih =>
    have hle := hr.le
    refine ⟨fun hlast => ?_, fun hall => by
      simp only [List.all_cons, Bool.and_eq_true] at hall
      cases st <;> simp [isZW, isGrp] at hall hg⟩
    have h1 : lastLit rest = true := by cases st <;> simp [lastLit, isGrp] at hlast hg ⊢ <;> exact hlast
    obtain ⟨h2, h3⟩ := ih.1 h1
    refine ⟨by omega, ?_⟩
    rw [getElem?_drop'] at h3
    rw [show e - pos - 1 = j + (e - (pos + j) - 1) by omega]; exact h3

theorem Layout.rel {ok : Char → Bool} {ρ : Rho} {c : Char} (hcL : innerL c = false) (hcR : innerR c = false)
    {steps : List Step} {suf : Str} {pos : Nat} {G : List Str} {e : Nat} (h : Layout c steps suf pos G e) :
    ∀ {suf' : Str} {G' : List Str} {e' : Nat}, grpOK steps = true → Sh ok ρ suf suf' → Layout c steps suf' pos G' e' →
    G.map List.length = G'.map List.length →
    e = e' ∧ GsRel ok ρ G G' ∧ Sh ok ρ (suf.drop (e - pos)) (suf'.drop (e - pos)) := by
  induction h with
  | nil =>
    intro suf' G' e' _ hs h' _
    cases h'
    exact ⟨rfl, GsRel.nil, by simpa using hs⟩
  | @lit m rest suf pos G e hm ht hl hr ih =>
    intro suf' G' e' hok hs h' hlen
    simp only [grpOK, Bool.and_eq_true] at hok
    cases h' with
    | lit _ _ _ hr' =>
      have hg : suf[m - 1]? = some c := by
        have : (suf.take m)[m - 1]? = some c := by rw [ht, List.getElem?_replicate]; simp; omega
        rw [List.getElem?_take] at this
        simpa [show m - 1 < m by omega] using this
      have hcut := (hs.cut_after hg hcL).2
      rw [Nat.sub_add_cancel hm] at hcut
      obtain ⟨h1, h2, h3⟩ := ih hok.2 hcut hr' hlen
      have hle := hr.le
      refine ⟨h1, h2, ?_⟩
      rw [List.drop_drop, List.drop_drop] at h3
      rw [show e - pos = m + (e - (pos + m)) by omega]
      exact h3
    | zw hz _ => simp [isZW] at hz
    | grp _ hg _ _ => simp [isGrp] at hg
  | @zw st rest suf pos G e hz hr ih =>
    intro suf' G' e' hok hs h' hlen
    simp only [grpOK, Bool.and_eq_true] at hok
    cases h' with
    | lit _ _ _ _ => simp [isZW] at hz
    | zw _ hr' => exact ih hok.2 hs hr' hlen
    | grp _ hg _ _ => cases st <;> simp [isZW, isGrp] at hz hg
  | @grp st rest suf pos G e j hg hj hr ih =>
    intro suf' G' e' hok hs h' hlen
    simp only [grpOK, Bool.and_eq_true, Bool.or_eq_true, Bool.not_eq_true'] at hok
    have hnl : nextLit rest = true := by
      rcases hok.1 with h | h
      · rw [hg] at h; cases h
      · exact h
    cases h' with
    | lit _ _ _ _ => simp [isGrp] at hg
    | zw hz _ => cases st <;> simp [isZW, isGrp] at hz hg
    | @grp _ _ _ _ G2 _ j' _ hj' hr' =>
      have hl' := hs.length_eq
      simp only [List.map_cons, List.cons.injEq, List.length_take] at hlen
      have hjj : j = j' := by omega
      subst hjj
      have hh := hr.head hnl
      rw [getElem?_drop'] at hh
      simp only [Nat.add_zero] at hh
      obtain ⟨c1, c2⟩ := hs.cut_before hh hcR
      obtain ⟨h1, h2, h3⟩ := ih hok.2 c2 hr' hlen.2
      have hle := hr.le
      refine ⟨h1, GsRel.cons c1 h2, ?_⟩
      rw [List.drop_drop, List.drop_drop] at h3
      rw [show e - pos = j + (e - (pos + j)) by omega]
      exact h3

theorem GPW.lengths {l l' : List Str} (h : GPW l l') : l.map List.length = l'.map List.length := by
  induction h with
  | nil => rfl
  | cons hp _ ih => simp [hp.length_eq, ih]

/-- `pattern.match(x, i)` on related texts -/
theorem seqMatch_sim {ok : Char → Bool} {ρ : Rho} {c : Char} (hc : c = '*' ∨ c = '_') {steps : List Step}
    (hok : stepsOK steps = true) {x x' : Str} (hx : Sh ok ρ x x') (i : Nat) :
    match seqMatch x i c steps, seqMatch x' i c steps with
    | none, none => True
    | some (e, G), some (e', G') => e = e' ∧ GsRel ok ρ G G' ∧ x[i]? = some c ∧ i < e ∧ x[e - 1]? = some c ∧
        Sh ok ρ (x.drop e) (x'.drop e)
    | _, _ => False := by
  have hcd : isAsciiDigit c = false := by rcases hc with rfl | rfl <;> decide
  have hcL : innerL c = false := by rcases hc with rfl | rfl <;> decide
  have hcR : innerR c = false := by rcases hc with rfl | rfl <;> decide
  simp only [stepsOK, Bool.and_eq_true] at hok
  have hpw := seqMatch_pw hcd hx.pw i steps
  match h1 : seqMatch x i c steps, h2 : seqMatch x' i c steps with
  | none, none => trivial
  | some _, none => rw [h1, h2] at hpw; exact hpw.elim
  | none, some _ => rw [h1, h2] at hpw; exact hpw.elim
  | some (e, G), some (e', G') =>
    rw [h1, h2] at hpw
    obtain ⟨he, hg⟩ := hpw
    subst he
    unfold seqMatch at h1 h2
    split at h1
    · cases h1
    · split at h2
      · cases h2
      · obtain ⟨G1, e1, L1⟩ := seqGo_spec steps _ _ _ _ _ _ h1
        obtain ⟨G2, e2, L2⟩ := seqGo_spec steps _ _ _ _ _ _ h2
        simp only [List.reverse_nil, List.nil_append] at e1 e2
        subst e1; subst e2
        have hh := L1.head hok.1.1
        rw [getElem?_drop'] at hh
        simp only [Nat.add_zero] at hh
        have c2 := (hx.cut_before hh hcR).2
        obtain ⟨-, r2, r3⟩ := L1.rel hcL hcR hok.1.2 c2 L2 hg.lengths
        obtain ⟨l1, l2⟩ := L1.last.1 hok.2
        have hle := L1.le
        rw [getElem?_drop'] at l2
        rw [List.drop_drop, List.drop_drop] at r3
        refine ⟨rfl, r2, hh, l1, ?_, ?_⟩
        · rw [show e - 1 = i + (e - i - 1) by omega]; exact l2
        · rw [show e = i + (e - i) by omega]; exact r3

end MdVerif.InlineLocal
