/-
C08, inline half — the class of texts of the theorems (`okI`), and the packaged results for it.
-/
import MdVerif.Lemmas.InlineLocal.EmBuild

namespace MdVerif.InlineLocal
open Py Inline

/-- plain characters: everything except STX, `[` (links, images, references), `&` (entities), `<`, `>` -/
def okI (c : Char) : Bool := !(c == STX || c == '[' || c == '&' || c == '<' || c == '>')

theorem okD_okI : OkD okI where
  no_lb := by decide
  no_amp := by decide
  no_lt := by decide
  no_gt := by decide
  digit := by
    intro c hc
    have h := digit_toNat.1 hc
    have hne : ∀ x : Char, ¬ (48 ≤ x.toNat ∧ x.toNat ≤ 57) → c ≠ x := by
      intro x hx hcx; subst hcx; exact hx h
    simp only [okI, Bool.not_eq_true', Bool.or_eq_false_iff, beq_eq_false_iff_ne, ne_eq]
    refine ⟨⟨⟨⟨?_, ?_⟩, ?_⟩, ?_⟩, ?_⟩ <;> exact hne _ (by decide)
  etx := by decide

end MdVerif.InlineLocal
