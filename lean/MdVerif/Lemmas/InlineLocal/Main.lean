/-
C08, inline half — the instance of the abstract simulation (`VisitSim`), the decidable "plain text" predicates, and
the composition: `Inline.run` on `div[cs1 ++ cs2]`.
-/
import MdVerif.Lemmas.InlineLocal.Visit
import MdVerif.Lemmas.InlineLocal.Post

namespace MdVerif.InlineLocal
open Py Inline

/-! ### lists -/

theorem NRelL.toAll₂ {okD : Char → Bool} {ρ : Rho} : ∀ {l l' : List Node}, NRelL okD ρ l l' → All₂ (NRel okD ρ) l l'
  | [], [], _ => .nil
  | _ :: _, _ :: _, h => by
    simp only [NRelL] at h
    exact .cons h.1 (NRelL.toAll₂ h.2)
  | [], _ :: _, h => by simp only [NRelL] at h
  | _ :: _, [], h => by simp only [NRelL] at h

theorem NRelL.ofAll₂ {okD : Char → Bool} {ρ : Rho} {l l' : List Node} (h : All₂ (NRel okD ρ) l l') : NRelL okD ρ l l' := by
  induction h with
  | nil => simp only [NRelL]
  | cons h _ ih => simp only [NRelL]; exact ⟨h, ih⟩

/-! ### plain texts and trees -/

/-- every text of the tree is plain: ordinary characters allowed by `ok` and escape tokens, no placeholder -/
def PlainTree (ok : Char → Bool) (n : Node) : Prop := NRel ok Rho.none n n

theorem Sh.inv_none {ok : Char → Bool} {a b : Str} (h : Sh ok (fun _ _ => False) a b) :
    (a = [] ∧ b = []) ∨
    (∃ c r r', a = c :: r ∧ b = c :: r' ∧ c ≠ STX ∧ ok c = true ∧ Sh ok (fun _ _ => False) r r') ∨
    (∃ d r r', a = STX :: d :: r ∧ b = STX :: d :: r' ∧ isAsciiDigit d = true ∧ Sh ok (fun _ _ => False) r r') := by
  cases h with
  | nil => exact Or.inl ⟨rfl, rfl⟩
  | chr hc hs hr => exact Or.inr (Or.inl ⟨_, _, _, rfl, rfl, hs, hc, hr⟩)
  | tok hd hr => exact Or.inr (Or.inr ⟨_, _, _, rfl, rfl, hd, hr⟩)
  | ph hr _ _ _ => exact hr.elim

theorem Sh.eq_of_plain_right {ok : Char → Bool} {ρ : Rho} {s s' : Str} (h : Sh ok ρ s s') (hp : Plain ok s') : s = s' := by
  induction h with
  | nil => rfl
  | @chr c s s' hc hs _ ih =>
    rcases Sh.inv_none hp with ⟨h1, -⟩ | ⟨c2, r, r', h1, h2, -, -, hr⟩ | ⟨d, r, r', h1, -, -, -⟩
    · cases h1
    · cases h1; cases h2; rw [ih hr]
    · cases h1; exact absurd rfl hs
  | @tok d s s' hd _ ih =>
    have hds : d ≠ STX := by intro h'; subst h'; exact absurd hd (by decide)
    rcases Sh.inv_none hp with ⟨h1, -⟩ | ⟨c2, r, r', h1, -, hne, -, -⟩ | ⟨d2, r, r', h1, h2, -, hr⟩
    · cases h1
    · cases h1; exact absurd rfl hne
    · cases h1; cases h2; rw [ih hr]
  | @ph i i' s s' _ _ hi' _ _ =>
    exfalso
    obtain ⟨a, b, c, d, hpl, -, ha, -⟩ := placeholder_four hi'
    rw [hpl] at hp
    rcases Sh.inv_none hp with ⟨h1, -⟩ | ⟨c2, r, r', h1, -, hne, -, -⟩ | ⟨d2, r, r', h1, -, hd2, -⟩
    · cases h1
    · cases h1; exact absurd rfl hne
    · cases h1; exact absurd hd2 (by decide)

mutual
theorem NRel.eq_of_plain_right {ok : Char → Bool} {ρ : Rho} : ∀ {n n' : Node}, NRel ok ρ n n' → PlainTree ok n' → n = n'
  | ⟨_, _, text, _, ch, tail, _⟩, ⟨_, _, text', _, ch', tail', _⟩, h, hp => by
    simp only [PlainTree, NRel] at h hp
    obtain ⟨h1, h2, h3, h4, h5, h6, h7⟩ := h
    obtain ⟨-, -, -, -, p5, p6, p7⟩ := hp
    have e5 : text = text' := by
      match text, text', h5, p5 with
      | none, none, _, _ => rfl
      | some a, some b, h5, p5 => rw [Sh.eq_of_plain_right (show Sh ok ρ a b from h5) p5]
    have e6 : tail = tail' := by
      match tail, tail', h6, p6 with
      | none, none, _, _ => rfl
      | some a, some b, h6, p6 => rw [Sh.eq_of_plain_right (show Sh ok ρ a b from h6) p6]
    rw [h1, h2, h3, h4, e5, e6, NRelL.eq_of_plain_right h7 p7]
theorem NRelL.eq_of_plain_right {ok : Char → Bool} {ρ : Rho} : ∀ {l l' : List Node}, NRelL ok ρ l l' →
    NRelL ok Rho.none l' l' → l = l'
  | [], [], _, _ => rfl
  | a :: r, a' :: r', h, hp => by
    simp only [NRelL] at h hp
    rw [NRel.eq_of_plain_right h.1 hp.1, NRelL.eq_of_plain_right h.2 hp.2]
  | [], _ :: _, h, _ => by simp only [NRelL] at h
  | _ :: _, [], h, _ => by simp only [NRelL] at h
end

theorem Sh.eq_of_plain_left {ok : Char → Bool} {ρ : Rho} {s s' : Str} (h : Sh ok ρ s s') (hp : Plain ok s) : s = s' := by
  induction h with
  | nil => rfl
  | @chr c s s' hc hs _ ih =>
    rcases Sh.inv_none hp with ⟨h1, -⟩ | ⟨c2, r, r', h1, h2, -, -, hr⟩ | ⟨d, r, r', h1, -, -, -⟩
    · cases h1
    · cases h1; cases h2; rw [ih hr]
    · cases h1; exact absurd rfl hs
  | @tok d s s' hd _ ih =>
    rcases Sh.inv_none hp with ⟨h1, -⟩ | ⟨c2, r, r', h1, -, hne, -, -⟩ | ⟨d2, r, r', h1, h2, -, hr⟩
    · cases h1
    · cases h1; exact absurd rfl hne
    · cases h1; cases h2; rw [ih hr]
  | @ph i i' s s' _ hi _ _ _ =>
    exfalso
    obtain ⟨a, b, c, d, hpl, -, ha, -⟩ := placeholder_four hi
    rw [hpl] at hp
    rcases Sh.inv_none hp with ⟨h1, -⟩ | ⟨c2, r, r', h1, -, hne, -, -⟩ | ⟨d2, r, r', h1, -, hd2, -⟩
    · cases h1
    · cases h1; exact absurd rfl hne
    · cases h1; exact absurd hd2 (by decide)

mutual
theorem NRel.eq_of_plain_left {ok : Char → Bool} {ρ : Rho} : ∀ {n n' : Node}, NRel ok ρ n n' → PlainTree ok n → n = n'
  | ⟨_, _, text, _, ch, tail, _⟩, ⟨_, _, text', _, ch', tail', _⟩, h, hp => by
    simp only [PlainTree, NRel] at h hp
    obtain ⟨h1, h2, h3, h4, h5, h6, h7⟩ := h
    obtain ⟨-, -, -, -, p5, p6, p7⟩ := hp
    have e5 : text = text' := by
      match text, text', h5, p5 with
      | none, none, _, _ => rfl
      | some a, some b, h5, p5 => rw [Sh.eq_of_plain_left (show Sh ok ρ a b from h5) p5]
    have e6 : tail = tail' := by
      match tail, tail', h6, p6 with
      | none, none, _, _ => rfl
      | some a, some b, h6, p6 => rw [Sh.eq_of_plain_left (show Sh ok ρ a b from h6) p6]
    rw [h1, h2, h3, h4, e5, e6, NRelL.eq_of_plain_left h7 p7]
theorem NRelL.eq_of_plain_left {ok : Char → Bool} {ρ : Rho} : ∀ {l l' : List Node}, NRelL ok ρ l l' →
    NRelL ok Rho.none l l → l = l'
  | [], [], _, _ => rfl
  | a :: r, a' :: r', h, hp => by
    simp only [NRelL] at h hp
    rw [NRel.eq_of_plain_left h.1 hp.1, NRelL.eq_of_plain_left h.2 hp.2]
  | [], _ :: _, h, _ => by simp only [NRelL] at h
  | _ :: _, [], h, _ => by simp only [NRelL] at h
end

/-- decidable form of `Plain` -/
def plainB (ok : Char → Bool) : Str → Bool
  | [] => true
  | c :: r =>
    if c = STX then
      match r with
      | d :: r' => isAsciiDigit d && plainB ok r'
      | [] => false
    else ok c && plainB ok r

theorem plain_of_plainB {ok : Char → Bool} : ∀ (n : Nat) (s : Str), s.length = n → plainB ok s = true → Plain ok s := by
  intro n
  induction n using Nat.strongRecOn with
  | _ n ih =>
    intro s hl h
    match s, hl, h with
    | [], _, _ => exact Sh.nil
    | c :: r, hl, h =>
      unfold plainB at h
      split at h
      · rename_i hc
        subst hc
        match r, hl, h with
        | d :: r', hl, h =>
          simp only [Bool.and_eq_true] at h
          exact Sh.tok h.1 (ih r'.length (by simp at hl; omega) r' rfl h.2)
        | [], _, h => cases h
      · rename_i hc
        simp only [Bool.and_eq_true] at h
        exact Sh.chr h.1 hc (ih r.length (by simp at hl; omega) r rfl h.2)

def plainOptB (ok : Char → Bool) : Option Str → Bool
  | none => true
  | some s => plainB ok s

mutual
/-- decidable form of `PlainTree` -/
def plainTreeB (ok : Char → Bool) : Node → Bool
  | ⟨_, _, text, _, ch, tail, _⟩ => plainOptB ok text && plainOptB ok tail && plainTreeLB ok ch
def plainTreeLB (ok : Char → Bool) : List Node → Bool
  | [] => true
  | c :: r => plainTreeB ok c && plainTreeLB ok r
end

theorem trel_of_plainOptB {ok : Char → Bool} {a : Bool} {t : Option Str} (h : plainOptB ok t = true) :
    TRel ok Rho.none a t t := by
  match t, h with
  | none, _ => trivial
  | some s, h => exact plain_of_plainB _ s rfl h

mutual
theorem plainTree_of_B {ok : Char → Bool} : ∀ {n : Node}, plainTreeB ok n = true → PlainTree ok n
  | ⟨_, _, _, _, _, _, _⟩, h => by
    simp only [plainTreeB, Bool.and_eq_true] at h
    simp only [PlainTree, NRel, true_and]
    exact ⟨trel_of_plainOptB h.1.1, trel_of_plainOptB h.1.2, plainTreeL_of_B h.2⟩
theorem plainTreeL_of_B {ok : Char → Bool} : ∀ {l : List Node}, plainTreeLB ok l = true → NRelL ok Rho.none l l
  | [], _ => by simp only [NRelL]
  | c :: r, h => by
    simp only [plainTreeLB, Bool.and_eq_true] at h
    simp only [NRelL]
    exact ⟨plainTree_of_B h.1, plainTreeL_of_B h.2⟩
end

theorem plainTreeLB_mem {ok : Char → Bool} {l : List Node} (h : plainTreeLB ok l = true) : ∀ c ∈ l, PlainTree ok c := by
  induction l with
  | nil => intro c hc; cases hc
  | cons a r ih =>
    simp only [plainTreeLB, Bool.and_eq_true] at h
    intro c hc
    rcases List.mem_cons.1 hc with rfl | hc
    · exact plainTree_of_B h.1
    · exact ih h.2 c hc

/-! ### the instance -/

theorem withIdx_map_snd (a : List Node) (i : Nat) :
    (withIdx a i).map (·.2) = (List.range' i a.length).map some := by
  induction a generalizing i with
  | nil => rfl
  | cons x a ih => simp [withIdx, ih, List.range'_succ]

theorem tdrel_withIdx {okD : Char → Bool} {ρ : Rho} {kids kids' : List Node} (h : NRelL okD ρ kids kids') :
    TDRel okD ρ (withIdx kids 0) (withIdx kids' 0) := by
  constructor
  · rw [withIdx_map_fst, withIdx_map_fst]; exact h
  · rw [withIdx_map_snd, withIdx_map_snd, h.length_eq]

theorem visitSim {okD : Char → Bool} (H : OkD okD) (cfg : Cfg) (hesc : cfg.esc.contains STX = false) (EM : EmSim okD) :
    VisitSim cfg Rho Rho.le (NRel okD) (StRel okD) (PlainTree okD) Rho.none 10000 where
  le_refl := Rho.le_refl
  le_trans := fun _ _ _ h1 h2 => Rho.le_trans h1 h2
  tr_mono := fun _ _ _ _ h hn => NRel.mono h hn
  tr_kids := fun _ _ _ h => NRelL.toAll₂ (NRel.iff.1 h).2.2.2.2.2.2
  tr_rebuild := fun _ _ _ _ _ h hl => by
    obtain ⟨g1, g2, g3, g4, g5, g6, -⟩ := NRel.iff.1 h
    exact NRel.iff.2 ⟨g1, g2, g3, g4, g5, g6, NRelL.ofAll₂ hl⟩
  tr_refl := fun _ h => h
  sr_empty := fun s s' => StRel.none okD s s'
  sr_ext := fun _ s _ _ g _ v hs hv he => by
    subst he
    exact hs.ext (Ext.refl s) (visitLoop_ext g hv)
  sim := fun ρ kids kids' g g' s s' v v' hk hs hv hv' hb hb' => by
    obtain ⟨ρ1, l1, hw, -, -⟩ := visitLoop_sim H cfg hesc EM g g' ρ _ _ { st := s } { st := s' } v v' (tdrel_withIdx (NRelL.ofAll₂ hk))
      ⟨by simp only [NRelL], rfl, rfl, hs⟩ hv hv' hb hb'
    exact ⟨ρ1, l1, NRelL.toAll₂ hw.done, hw.posmap, hw.pushes, hw.st⟩
  mono := fun _ g _ _ h => (visitLoop_ext g h).length_le

/-! ### the HTML stash is not touched -/

theorem runs_html {okD : Char → Bool} (H : OkD okD) (cfg : Cfg) (hesc : cfg.esc.contains STX = false) (EM : EmSim okD)
    {root : Node} {stack : List Path} {s t : St} {r : Node} (D : Runs cfg root stack s r t) :
    ∀ {ρ : Rho}, NRel okD ρ root root → StRel okD ρ s s → t.stash.length ≤ 10000 → t.html = s.html := by
  have F := visitSim H cfg hesc EM
  induction D with
  | nil => intro _ _ _ _; rfl
  | skip _ _ ih => exact ih
  | @step root p stack st r t cur v hget hv D ih =>
    intro ρ hroot hst hb
    obtain ⟨g, hg⟩ := hv
    have hlen := F.reach_len D.reach
    obtain ⟨cur', hget', hcur⟩ := F.getAt_some hroot hget
    rw [hget] at hget'
    cases hget'
    obtain ⟨ρ1, l1, hw, hh, -⟩ := visitLoop_sim H cfg hesc EM g g ρ _ _ { st := st } { st := st } v v
      (tdrel_withIdx (NRel.iff.1 hcur).2.2.2.2.2.2) ⟨by simp only [NRelL], rfl, rfl, hst⟩ hg hg (by omega) (by omega)
    have hnew : NRel okD ρ1 { cur with children := v.done.reverse } { cur with children := v.done.reverse } := by
      obtain ⟨g1, g2, g3, g4, g5, g6, -⟩ := NRel.iff.1 (NRel.mono l1 hcur)
      exact NRel.iff.2 ⟨g1, g2, g3, g4, g5, g6, NRelL.reverse hw.done⟩
    have := ih (F.setAt (NRel.mono l1 hroot) hnew p) hw.st hb
    rw [this]; exact hh

/-! ### the run on `div[cs1 ++ cs2]` -/

theorem NRelL.split {okD : Char → Bool} {ρ : Rho} : ∀ {a a' b b' : List Node}, a.length = a'.length →
    NRelL okD ρ (a ++ b) (a' ++ b') → NRelL okD ρ a a' ∧ NRelL okD ρ b b'
  | [], [], _, _, _, h => ⟨by simp only [NRelL], h⟩
  | x :: r, x' :: r', _, _, hl, h => by
    simp only [List.cons_append, NRelL] at h ⊢
    have := NRelL.split (by simpa using hl) h.2
    exact ⟨⟨h.1, this.1⟩, this.2⟩
  | [], _ :: _, _, _, hl, _ => by simp at hl
  | _ :: _, [], _, _, hl, _ => by simp at hl

theorem plainTree_root {okD : Char → Bool} {cs : List Node} (h : plainTreeLB okD cs = true) : PlainTree okD (root cs) := by
  simp only [PlainTree, NRel.iff, root, Node.el, TRel, ORel, true_and]
  exact plainTreeL_of_B h

theorem run_html {okD : Char → Bool} (H : OkD okD) (cfg : Cfg) (hesc : cfg.esc.contains STX = false) (EM : EmSim okD)
    {cs : List Node} (hp : plainTreeLB okD cs = true) {h : List Str} {r : Node} {t : St}
    (e : Inline.run cfg (root cs) h = some (r, t)) (hb : t.stash.length ≤ 10000) : t.html = h := by
  unfold Inline.run at e
  exact runs_html H cfg hesc EM (runLoop_sound e) (plainTree_root hp) (StRel.none okD _ _) hb

/-- `Inline.run` treats the two halves of the top-level children independently -/
theorem run_append_eq {okD : Char → Bool} (H : OkD okD) (cfg : Cfg) (hesc : cfg.esc.contains STX = false) (EM : EmSim okD)
    {cs1 cs2 : List Node} (hp1 : plainTreeLB okD cs1 = true) (hp2 : plainTreeLB okD cs2 = true)
    {h1 h2 h : List Str} {r1 r2 r : Node} {t1 t2 t : St}
    (e1 : Inline.run cfg (root cs1) h1 = some (r1, t1))
    (e2 : Inline.run cfg (root cs2) h2 = some (r2, t2))
    (e12 : Inline.run cfg (root (cs1 ++ cs2)) h = some (r, t))
    (hN1 : t1.stash.length ≤ 10000) (hN2 : t2.stash.length ≤ 10000) (hN : t.stash.length ≤ 10000)
    (hr : plainTreeB okD r = true) :
    r = root (r1.children ++ r2.children) ∧ r1 = root r1.children ∧ r2 = root r2.children := by
  have F := visitSim H cfg hesc EM
  obtain ⟨wA, wB, X, Y, er, hA, hB, e1', e2'⟩ :=
    run_append F cs1 cs2 (plainTreeLB_mem hp1) (plainTreeLB_mem hp2) (h1 := h1) (h2 := h2) (h := h) e1 e2 e12 hN1 hN2 hN
  have hpr := plainTree_of_B hr
  rw [er] at hpr
  have hk : NRelL okD Rho.none (X ++ Y) (X ++ Y) := (NRel.iff.1 hpr).2.2.2.2.2.2
  obtain ⟨hX, hY⟩ := NRelL.split rfl hk
  have eX := NRelL.eq_of_plain_right (NRelL.ofAll₂ hA) hX
  have eY := NRelL.eq_of_plain_right (NRelL.ofAll₂ hB) hY
  refine ⟨?_, e1', e2'⟩
  rw [er, eX, eY]; rfl

/-- the same with the hypothesis "no placeholder left" on the two separate results instead of the combined one -/
theorem run_append_eq' {okD : Char → Bool} (H : OkD okD) (cfg : Cfg) (hesc : cfg.esc.contains STX = false) (EM : EmSim okD)
    {cs1 cs2 : List Node} (hp1 : plainTreeLB okD cs1 = true) (hp2 : plainTreeLB okD cs2 = true)
    {h1 h2 h : List Str} {r1 r2 r : Node} {t1 t2 t : St}
    (e1 : Inline.run cfg (root cs1) h1 = some (r1, t1))
    (e2 : Inline.run cfg (root cs2) h2 = some (r2, t2))
    (e12 : Inline.run cfg (root (cs1 ++ cs2)) h = some (r, t))
    (hN1 : t1.stash.length ≤ 10000) (hN2 : t2.stash.length ≤ 10000) (hN : t.stash.length ≤ 10000)
    (hr1 : plainTreeB okD r1 = true) (hr2 : plainTreeB okD r2 = true) :
    r = root (r1.children ++ r2.children) ∧ r1 = root r1.children ∧ r2 = root r2.children := by
  have F := visitSim H cfg hesc EM
  obtain ⟨wA, wB, X, Y, er, hA, hB, e1', e2'⟩ :=
    run_append F cs1 cs2 (plainTreeLB_mem hp1) (plainTreeLB_mem hp2) (h1 := h1) (h2 := h2) (h := h) e1 e2 e12 hN1 hN2 hN
  have hk1 : NRelL okD Rho.none r1.children r1.children := (NRel.iff.1 (plainTree_of_B hr1)).2.2.2.2.2.2
  have hk2 : NRelL okD Rho.none r2.children r2.children := (NRel.iff.1 (plainTree_of_B hr2)).2.2.2.2.2.2
  have eX := NRelL.eq_of_plain_left (NRelL.ofAll₂ hA) hk1
  have eY := NRelL.eq_of_plain_left (NRelL.ofAll₂ hB) hk2
  refine ⟨?_, e1', e2'⟩
  rw [er, ← eX, ← eY]; rfl

end MdVerif.InlineLocal
